//go:build p_c12 || p_all

package main

// C12 — "The machine API is safe for concurrent use: no data races".
//
// The Go race detector is the oracle. bin/check builds this binary with -race
// (props.d/C12.json: "race": true). Every generated concurrent program runs in
// a CHILD process (this binary re-executed with AMVERIF_C12_CHILD=<json>,
// GORACE="halt_on_error=1 exitcode=66"); the parent only spawns children,
// parses the first race report of each and writes the cases. The lock table
// (method list, footprints, field identifiers) is read from the Coq
// development (Spec/C12.v) by compiling a small dump file with coqc, so the
// table has a single source.
//
// Programs:
//   pair     every pair of driven table methods (up to footprint classes in
//            the quick tier) that touch a common field with at least one
//            write: 2 goroutines, one method each
//   mix      2..16 goroutines, 1..3 methods each from the whole driven method
//            set, with handlers / a tracer / logging switched on at random
//   netmach  a NetworkMachine (built without a network: conn = nil) fed by
//            NetMachInternal.UpdateClock while being read
// Observation per program: raced?, the field the first report is attributed
// to (identifiers on the two source lines), the outermost exported method of
// each racing stack.

import (
	"bytes"
	"context"
	"encoding/json"
	"errors"
	"fmt"
	"os"
	"os/exec"
	"path/filepath"
	"reflect"
	"regexp"
	"runtime"
	"sort"
	"strconv"
	"strings"
	"sync"
	"sync/atomic"
	"time"

	am "github.com/pancsta/asyncmachine-go/pkg/machine"
	arpc "github.com/pancsta/asyncmachine-go/pkg/rpc"
)

func init() { register("C12", runC12) }

// ---------------------------------------------------------------- input

type C12Input struct {
	Kind     string     `json:"kind"` // pair | mix | netmach
	Warm     bool       `json:"warm"` // StateNames() called before the goroutines start (irrelevant to the prediction since f998d9b; cold programs stay as regression)
	Log      int        `json:"log"`  // 0 = LogNothing; else the level, with a no-op logger
	Handlers bool       `json:"handlers"`
	Tracer   bool       `json:"tracer"`
	Threads  [][]string `json:"threads"`
	Rounds   int        `json:"rounds"` // fresh machines per child
	DurMs    int        `json:"dur_ms"` // per round
	Seed     uint64     `json:"seed"`
}

type c12Obs struct {
	Raced   bool     `json:"raced"`
	Field   int      `json:"field"`  // 999 = the two source lines do not name one field
	Fields  []int    `json:"fields"` // candidates: [Field], or the fields named in the enclosing functions
	M1      string   `json:"m1"`
	M2      string   `json:"m2"`
	At1     string   `json:"at1,omitempty"`
	At2     string   `json:"at2,omitempty"`
	Exit    int      `json:"exit"`
	Hung    bool     `json:"hung,omitempty"`
	Fatal   string   `json:"fatal,omitempty"`
	Panics  int      `json:"panics,omitempty"`
	Panic1  string   `json:"panic1,omitempty"`
	Harness bool     `json:"harness_race,omitempty"`
	Missing []string `json:"missing,omitempty"`
	Report  string   `json:"report,omitempty"` // head of the first race report
}

const c12NoField = 999

// ---------------------------------------------------------------- the table (from Coq)

type c12Table struct {
	Names    []string                  // in table order
	Foot     map[string]map[int]bool   // name -> field -> written
	Idents   map[string]map[string]int // pkg -> identifier -> field
	Culprits map[string]bool
}

var (
	c12ReEntry = regexp.MustCompile(`\("([^"]+)"(?:%string)?,\s*\[([^\]]*)\]\)`)
	c12ReFoot  = regexp.MustCompile(`\((\d+),\s*(true|false)\)`)
	c12ReIdent = regexp.MustCompile(`\("([^"]+)"(?:%string)?,\s*"([^"]+)"(?:%string)?,\s*(\d+)\)`)
	c12ReStr   = regexp.MustCompile(`"([^"]+)"`)
)

func c12LoadTable(c *Ctx) (*c12Table, error) {
	verif := os.Getenv("VERIF_DIR")
	if verif == "" {
		verif = "/verif"
	}
	dir := filepath.Join(c.OutDir, "c12dump")
	must(os.MkdirAll(dir, 0o755))
	src := filepath.Join(dir, "c12_dump.v")
	must(os.WriteFile(src, []byte(
		"From Coq Require Import List String.\n"+
			"From AMV Require Import Conc.Locks Spec.C12 Run.EvalC12.\n"+
			"Import ListNotations.\nSet Printing Width 10000000.\nSet Printing Depth 10000000.\n"+
			"Eval vm_compute in (0, dump_footprints).\n"+
			"Eval vm_compute in (1, field_idents).\n"+
			"Eval vm_compute in (2, culprits).\n"), 0o644))
	cmd := exec.Command("coqc", "-R", filepath.Join(verif, "coq", "theories"), "AMV", src)
	cmd.Dir = dir
	outb, err := cmd.CombinedOutput()
	if err != nil {
		return nil, fmt.Errorf("coqc dump of the lock table failed: %v: %s", err, outb)
	}
	out := string(outb)
	parts := strings.Split(out, "     = ")
	if len(parts) < 4 {
		return nil, fmt.Errorf("unexpected dump output: %.400s", out)
	}
	t := &c12Table{Foot: map[string]map[int]bool{}, Idents: map[string]map[string]int{},
		Culprits: map[string]bool{}}
	for _, m := range c12ReEntry.FindAllStringSubmatch(parts[1], -1) {
		fp := map[int]bool{}
		for _, f := range c12ReFoot.FindAllStringSubmatch(m[2], -1) {
			id, _ := strconv.Atoi(f[1])
			fp[id] = fp[id] || f[2] == "true"
		}
		t.Names = append(t.Names, m[1])
		t.Foot[m[1]] = fp
	}
	for _, m := range c12ReIdent.FindAllStringSubmatch(parts[2], -1) {
		id, _ := strconv.Atoi(m[3])
		if t.Idents[m[1]] == nil {
			t.Idents[m[1]] = map[string]int{}
		}
		t.Idents[m[1]][m[2]] = id
	}
	for _, m := range c12ReStr.FindAllStringSubmatch(parts[3], -1) {
		t.Culprits[m[1]] = true
	}
	if len(t.Names) < 50 || len(t.Idents) < 2 {
		return nil, fmt.Errorf("lock table dump parsed to %d methods", len(t.Names))
	}
	return t, nil
}

func (t *c12Table) conflict(a, b string) bool {
	fa, fb := t.Foot[a], t.Foot[b]
	for f, w := range fa {
		if w2, ok := fb[f]; ok && (w || w2) {
			return true
		}
	}
	return false
}

func (t *c12Table) class(a string) string {
	fp := t.Foot[a]
	ks := make([]int, 0, len(fp))
	for f := range fp {
		ks = append(ks, f)
	}
	sort.Ints(ks)
	var b strings.Builder
	for _, f := range ks {
		fmt.Fprintf(&b, "%d:%v,", f, fp[f])
	}
	return b.String()
}

// ---------------------------------------------------------------- the machine under test

// A..D are the states the calls pick from; E, F, G give the relation shape on
// which re-sorting the active list is not a no-op (E requires F, G after F:
// sortRequire pulls G to the front, the After pass pushes it back), so that an
// in-place sort of a slice that aliases the live active states WRITES
var c12Names = am.S{"A", "B", "C", "D", am.StateException, "E", "F", "G"}
var c12NamesNM = am.S{"A", "B", "C", "D", "E", "F", "G"}
var c12Rel = am.S{"F", "G"}

func c12Schema() am.Schema {
	return am.Schema{
		"A": {},
		"B": {},
		"C": {Multi: true},
		"D": {Add: am.S{"B"}},
		"E": {Require: am.S{"F"}},
		"F": {},
		"G": {After: am.S{"F"}},
	}
}

type c12Env struct {
	in     *C12Input
	m      *am.Machine
	nm     *arpc.NetworkMachine
	nmi    *arpc.NetMachInternal
	ctx    context.Context
	logOK  bool
	nmTime atomic.Uint64
	nAdded atomic.Int64
	evals  atomic.Uint64
	panics atomic.Int64
	panic1 atomic.Value // first recovered panic message of the round
}

// per goroutine
type c12T struct {
	r    *Rng
	hids []string
	tids []string
	nbp  int
	nq   int
}

type c12Tracer struct {
	*am.TracerNoOp
	n atomic.Uint64
}

func (t *c12Tracer) TransitionEnd(tx *am.Transition) {
	// what telemetry tracers do: look at the finished transition
	t.n.Add(uint64(len(tx.TargetIndexes)))
	_ = tx.TimeAfter.Sum(nil)
}

type c12Handlers struct{ e *c12Env }

func (h *c12Handlers) AEnter(e *am.Event) bool { return true }
func (h *c12Handlers) AState(e *am.Event)      { h.e.m.Tick("A") }
func (h *c12Handlers) BEnd(e *am.Event)        { h.e.m.Is1("A") }

func c12Setup(in *C12Input) *c12Env {
	env := &c12Env{in: in, ctx: context.Background()}
	m := am.New(env.ctx, c12Schema(), &am.Opts{Id: "c12", HandlerTimeout: 5 * time.Second,
		DontLogStackTrace: true})
	must(m.VerifyStates(c12Names))
	env.m = m
	if in.Log > 0 {
		m.SemLogger().SetEmpty(am.LogLevel(in.Log))
		env.logOK = true
	}
	if in.Kind == "netmach" {
		nm, nmi, err := arpc.NewNetworkMachine(env.ctx, "c12nm", nil, c12Schema(), c12NamesNM, m, nil, false)
		must(err)
		env.nm, env.nmi = nm, nmi
		if in.Log > 0 {
			nm.SemLogger().SetEmpty(am.LogLevel(in.Log))
		}
		if in.Tracer {
			_, err := nm.TracerBind(&c12Tracer{TracerNoOp: &am.TracerNoOp{Id: "tr-setup"}})
			must(err)
		}
		return env
	}
	if in.Tracer {
		_, err := m.TracerBind(&c12Tracer{TracerNoOp: &am.TracerNoOp{Id: "tr-setup"}})
		must(err)
	}
	if in.Handlers {
		_, err := m.HandlersBindMaps(
			map[string]am.HandlerNegotiation{
				"AEnter": func(e *am.Event) bool { m.Is1("B"); return true },
				"BExit":  func(e *am.Event) bool { m.Tick("A"); return true },
				"CEnter": func(e *am.Event) bool { return true },
			},
			map[string]am.HandlerFinal{
				"AState": func(e *am.Event) { m.ActiveStates(nil) },
				"BState": func(e *am.Event) { m.Time(nil) },
				"CState": func(e *am.Event) { m.Not1("D") },
				"DEnd":   func(e *am.Event) { m.Clock(nil) },
			})
		must(err)
	}
	if in.Warm {
		m.StateNames()
	}
	return env
}

// the state list after k successful SetSchema calls
func c12CurNames(k int) am.S {
	names := append(am.S{}, c12Names...)
	for i := 0; i < k; i++ {
		names = append(names, fmt.Sprintf("X%d", i))
	}
	return names
}

func c12St(r *Rng) string { return c12Names[r.Intn(4)] }

func c12Sts(r *Rng) am.S {
	var ret am.S
	for _, i := range r.Subset(4, 40) {
		ret = append(ret, c12Names[i])
	}
	if len(ret) == 0 {
		ret = am.S{c12St(r)}
	}
	return ret
}

var c12Err = errors.New("c12")

func c12Ev() *am.Event {
	return &am.Event{Name: "ext", MachineId: "other", TransitionId: "t0"}
}

type c12Op func(e *c12Env, t *c12T)

var c12Ops = map[string]c12Op{
	// ---- mutations
	"Add":           func(e *c12Env, t *c12T) { e.m.Add(c12Sts(t.r), nil) },
	"Add1":          func(e *c12Env, t *c12T) { e.m.Add1(c12St(t.r), nil) },
	"Remove":        func(e *c12Env, t *c12T) { e.m.Remove(c12Sts(t.r), nil) },
	"Remove1":       func(e *c12Env, t *c12T) { e.m.Remove1(c12Names[t.r.Intn(5)], nil) },
	// transitions that leave NO state active, from an active list (F, G, ...)
	// on which SortStates swaps elements
	"Remove.all": func(e *c12Env, t *c12T) {
		e.m.Add(c12Rel, nil)
		if act := e.m.ActiveStates(nil); len(act) > 0 {
			e.m.Remove(act, nil)
		}
	},
	"Set.none": func(e *c12Env, t *c12T) {
		e.m.Add(c12Rel, nil)
		e.m.Set(am.S{}, nil)
	},
	"Set":           func(e *c12Env, t *c12T) { e.m.Set(c12Sts(t.r), nil) },
	"Toggle":        func(e *c12Env, t *c12T) { e.m.Toggle(c12Sts(t.r), nil) },
	"Toggle1":       func(e *c12Env, t *c12T) { e.m.Toggle1(c12St(t.r), nil) },
	"AddErr":        func(e *c12Env, t *c12T) { e.m.AddErr(c12Err, nil) },
	"AddErrState":   func(e *c12Env, t *c12T) { e.m.AddErrState(c12St(t.r), c12Err, nil) },
	"EvAdd":         func(e *c12Env, t *c12T) { e.m.EvAdd(c12Ev(), c12Sts(t.r), nil) },
	"EvAdd1":        func(e *c12Env, t *c12T) { e.m.EvAdd1(c12Ev(), c12St(t.r), nil) },
	"EvRemove":      func(e *c12Env, t *c12T) { e.m.EvRemove(c12Ev(), c12Sts(t.r), nil) },
	"EvRemove1":     func(e *c12Env, t *c12T) { e.m.EvRemove1(c12Ev(), c12St(t.r), nil) },
	"EvAddErr":      func(e *c12Env, t *c12T) { e.m.EvAddErr(c12Ev(), c12Err, nil) },
	"EvAddErrState": func(e *c12Env, t *c12T) { e.m.EvAddErrState(c12Ev(), c12St(t.r), c12Err, nil) },
	"EvToggle":      func(e *c12Env, t *c12T) { e.m.EvToggle(c12Ev(), c12Sts(t.r), nil) },
	"EvToggle1":     func(e *c12Env, t *c12T) { e.m.EvToggle1(c12Ev(), c12St(t.r), nil) },
	"CanAdd":        func(e *c12Env, t *c12T) { e.m.CanAdd(c12Sts(t.r), nil) },
	"CanAdd1":       func(e *c12Env, t *c12T) { e.m.CanAdd1(c12St(t.r), nil) },
	"CanRemove":     func(e *c12Env, t *c12T) { e.m.CanRemove(c12Sts(t.r), nil) },
	"CanRemove1":    func(e *c12Env, t *c12T) { e.m.CanRemove1(c12St(t.r), nil) },
	"PrependMut": func(e *c12Env, t *c12T) {
		e.m.PrependMut(&am.Mutation{Type: am.MutationAdd, Called: e.m.Index(am.S{c12St(t.r)})})
	},
	"Eval": func(e *c12Env, t *c12T) {
		e.m.Eval("c12", func() { e.evals.Add(1) }, nil)
	},
	"PanicToErr": func(e *c12Env, t *c12T) {
		func() {
			defer e.m.PanicToErr(nil)
			panic(c12Err)
		}()
	},
	"PanicToErrState": func(e *c12Env, t *c12T) {
		func() {
			defer e.m.PanicToErrState("A", nil)
			panic(c12Err)
		}()
	},
	// ---- checks
	"Is":       func(e *c12Env, t *c12T) { e.m.Is(c12Sts(t.r)) },
	"Is1":      func(e *c12Env, t *c12T) { e.m.Is1(c12St(t.r)) },
	"IsErr":    func(e *c12Env, t *c12T) { e.m.IsErr() },
	"Any":      func(e *c12Env, t *c12T) { e.m.Any(c12Sts(t.r), c12Sts(t.r)) },
	"Any1":     func(e *c12Env, t *c12T) { e.m.Any1(c12St(t.r), c12St(t.r)) },
	"Not":      func(e *c12Env, t *c12T) { e.m.Not(c12Sts(t.r)) },
	"Not1":     func(e *c12Env, t *c12T) { e.m.Not1(c12St(t.r)) },
	"Has":      func(e *c12Env, t *c12T) { e.m.Has(c12Sts(t.r)) },
	"Has1":     func(e *c12Env, t *c12T) { e.m.Has1(c12St(t.r)) },
	"IsClock":  func(e *c12Env, t *c12T) { e.m.IsClock(am.Clock{"A": 1, "B": 2}) },
	"WasClock": func(e *c12Env, t *c12T) { e.m.WasClock(am.Clock{"A": 1, "B": 2}) },
	"IsTime":   func(e *c12Env, t *c12T) { e.m.IsTime(am.Time{1, 2}, am.S{"A", "B"}) },
	"WasTime":  func(e *c12Env, t *c12T) { e.m.WasTime(am.Time{1}, nil) },
	"IsQueued": func(e *c12Env, t *c12T) {
		e.m.IsQueued(am.MutationAdd, c12Sts(t.r), false, false, 0, false, am.PositionAny)
	},
	"IsQueuedAbove": func(e *c12Env, t *c12T) {
		e.m.IsQueuedAbove(2, am.MutationAdd, c12Sts(t.r), false, false, 0)
	},
	"WillBe":         func(e *c12Env, t *c12T) { e.m.WillBe(c12Sts(t.r)) },
	"WillBe1":        func(e *c12Env, t *c12T) { e.m.WillBe1(c12St(t.r)) },
	"WillBeAny":      func(e *c12Env, t *c12T) { e.m.WillBeAny(c12Sts(t.r)) },
	"WillBeRemoved":  func(e *c12Env, t *c12T) { e.m.WillBeRemoved(c12Sts(t.r)) },
	"WillBeRemoved1": func(e *c12Env, t *c12T) { e.m.WillBeRemoved1(c12St(t.r)) },
	"Switch":         func(e *c12Env, t *c12T) { e.m.Switch(c12Sts(t.r)) },
	"IsDisposed":     func(e *c12Env, t *c12T) { e.m.IsDisposed() },
	"StatesVerified": func(e *c12Env, t *c12T) { e.m.StatesVerified() },
	"Backoff":        func(e *c12Env, t *c12T) { e.m.Backoff() },
	// ---- getters
	"ActiveStates": func(e *c12Env, t *c12T) { e.m.ActiveStates(nil) },
	"Time":         func(e *c12Env, t *c12T) { e.m.Time(nil) },
	"Clock":        func(e *c12Env, t *c12T) { e.m.Clock(nil) },
	"Tick":         func(e *c12Env, t *c12T) { e.m.Tick(c12St(t.r)) },
	"String":       func(e *c12Env, t *c12T) { _ = e.m.String() },
	"StringAll":    func(e *c12Env, t *c12T) { _ = e.m.StringAll() },
	"Inspect":      func(e *c12Env, t *c12T) { _ = e.m.Inspect(nil) },
	"Schema":       func(e *c12Env, t *c12T) { e.m.Schema() },
	"SchemaVer":    func(e *c12Env, t *c12T) { e.m.SchemaVer() },
	"StateNames":   func(e *c12Env, t *c12T) { e.m.StateNames() },
	"Index":        func(e *c12Env, t *c12T) { e.m.Index(c12Sts(t.r)) },
	"Index1":       func(e *c12Env, t *c12T) { e.m.Index1(c12St(t.r)) },
	"ParseStates":  func(e *c12Env, t *c12T) { e.m.ParseStates(c12Sts(t.r)) },
	"Queue":        func(e *c12Env, t *c12T) { e.m.Queue() },
	"QueueLen":     func(e *c12Env, t *c12T) { e.m.QueueLen() },
	"QueueTick":    func(e *c12Env, t *c12T) { e.m.QueueTick() },
	"MachineTick":  func(e *c12Env, t *c12T) { e.m.MachineTick() },
	"Tags":         func(e *c12Env, t *c12T) { e.m.Tags() },
	"SetTags":      func(e *c12Env, t *c12T) { e.m.SetTags([]string{"a", "b"}) },
	"Tracers":      func(e *c12Env, t *c12T) { e.m.Tracers() },
	"Handlers":     func(e *c12Env, t *c12T) { e.m.Handlers() },
	"Transition":   func(e *c12Env, t *c12T) { e.m.Transition() },
	"Err":          func(e *c12Env, t *c12T) { _ = e.m.Err() },
	"Groups":       func(e *c12Env, t *c12T) { e.m.Groups() },
	"SetGroups":    func(e *c12Env, t *c12T) { e.m.SetGroups(nil, nil) },
	"SetGroupsString": func(e *c12Env, t *c12T) {
		e.m.SetGroupsString(map[string]am.S{"g": {"A", "B"}}, []string{"g"})
	},
	"Id":            func(e *c12Env, t *c12T) { e.m.Id() },
	"ParentId":      func(e *c12Env, t *c12T) { e.m.ParentId() },
	"Context":       func(e *c12Env, t *c12T) { e.m.Context() },
	"ContextParent": func(e *c12Env, t *c12T) { e.m.ContextParent() },
	"Resolver":      func(e *c12Env, t *c12T) { e.m.Resolver() },
	"SemLogger":     func(e *c12Env, t *c12T) { e.m.SemLogger() },
	"IsLocal":       func(e *c12Env, t *c12T) { e.m.IsLocal() },
	"ErrInternal":   func(e *c12Env, t *c12T) { e.m.ErrInternal() },
	"WhenDisposed":  func(e *c12Env, t *c12T) { e.m.WhenDisposed() },
	// ---- subscriptions
	"When":     func(e *c12Env, t *c12T) { e.m.When(c12Sts(t.r), nil) },
	"When1":    func(e *c12Env, t *c12T) { e.m.When1(c12St(t.r), c12Ctx(t.r)) },
	"WhenErr":  func(e *c12Env, t *c12T) { e.m.WhenErr(nil) },
	"WhenNot":  func(e *c12Env, t *c12T) { e.m.WhenNot(c12Sts(t.r), nil) },
	"WhenNot1": func(e *c12Env, t *c12T) { e.m.WhenNot1(c12St(t.r), c12Ctx(t.r)) },
	"WhenTime": func(e *c12Env, t *c12T) {
		s := c12St(t.r)
		e.m.WhenTime(am.S{s}, am.Time{e.m.Tick(s) + 2}, nil)
	},
	"WhenTime1": func(e *c12Env, t *c12T) {
		s := c12St(t.r)
		e.m.WhenTime1(s, e.m.Tick(s)+1, c12Ctx(t.r))
	},
	"WhenTicks":      func(e *c12Env, t *c12T) { e.m.WhenTicks(c12St(t.r), 2, nil) },
	"WhenNextActive": func(e *c12Env, t *c12T) { e.m.WhenNextActive(c12St(t.r), nil) },
	"WhenQuery": func(e *c12Env, t *c12T) {
		if t.nq < 64 {
			t.nq++
			e.m.WhenQuery(func(c am.Clock) bool { return c["A"]%4 == 0 }, nil)
		}
	},
	"WhenQueueEnds": func(e *c12Env, t *c12T) { e.m.WhenQueueEnds() },
	"WhenQueue":     func(e *c12Env, t *c12T) { e.m.WhenQueue(am.Result(e.m.QueueTick() + 2)) },
	"WhenArgs":      func(e *c12Env, t *c12T) { e.m.WhenArgs("C", am.A{"k": t.r.Intn(3)}, nil) },
	"NewStateCtx":   func(e *c12Env, t *c12T) { e.m.NewStateCtx(c12St(t.r)) },
	// ---- bindings
	"HandlersBind": func(e *c12Env, t *c12T) {
		c12Bind(e, t, func() (string, error) { return e.m.HandlersBind(&c12Handlers{e}) })
	},
	"BindHandlers": func(e *c12Env, t *c12T) {
		c12Bind(e, t, func() (string, error) { return e.m.BindHandlers(&c12Handlers{e}) })
	},
	"HandlersBindMaps": func(e *c12Env, t *c12T) {
		c12Bind(e, t, func() (string, error) {
			return e.m.HandlersBindMaps(nil, map[string]am.HandlerFinal{
				"AState": func(ev *am.Event) { e.m.Is1("B") }})
		})
	},
	"HandlersDetach": func(e *c12Env, t *c12T) {
		if len(t.hids) > 0 {
			_ = e.m.HandlersDetach(t.hids[0])
			t.hids = t.hids[1:]
		} else {
			_ = e.m.HandlersDetach("nope")
		}
	},
	"TracerBind": func(e *c12Env, t *c12T) {
		c12BindTr(e, t, func(tr am.Tracer) (string, error) { return e.m.TracerBind(tr) })
	},
	"BindTracer": func(e *c12Env, t *c12T) {
		c12BindTr(e, t, func(tr am.Tracer) (string, error) { return e.m.BindTracer(tr) })
	},
	"TracerDetach": func(e *c12Env, t *c12T) {
		if len(t.tids) > 0 {
			_ = e.m.TracerDetach(t.tids[0])
			t.tids = t.tids[1:]
		} else {
			_ = e.m.TracerDetach("nope")
		}
	},
	"DetachTracer": func(e *c12Env, t *c12T) {
		if len(t.tids) > 0 {
			_ = e.m.DetachTracer(t.tids[0])
			t.tids = t.tids[1:]
		} else {
			_ = e.m.DetachTracer("nope")
		}
	},
	"OnDispose": func(e *c12Env, t *c12T) {
		if t.nbp < 32 {
			t.nbp++
			e.m.OnDispose(func(id string, ctx context.Context) {})
		}
	},
	"OnError":  func(e *c12Env, t *c12T) { e.m.OnError(func(m *am.Machine, err error) {}) },
	"OnChange": func(e *c12Env, t *c12T) { e.m.OnChange(func(m *am.Machine, b, a am.Time) {}) },
	"AddBreakpoint": func(e *c12Env, t *c12T) {
		if t.nbp < 8 {
			t.nbp++
			e.m.AddBreakpoint(am.S{"A", "B", "D"}, nil, true)
		}
	},
	"AddBreakpoint1": func(e *c12Env, t *c12T) {
		if t.nbp < 8 {
			t.nbp++
			e.m.AddBreakpoint1("", "D", false)
		}
	},
	// ---- logging
	"Log":    func(e *c12Env, t *c12T) { e.m.Log("x %d", 1) },
	"LogEv":  func(e *c12Env, t *c12T) { e.m.LogEv(c12Ev(), "x") },
	"LogCtx": func(e *c12Env, t *c12T) { e.m.LogCtx(e.ctx, "x") },
	"SemLogger.SetLevel": func(e *c12Env, t *c12T) {
		if e.logOK {
			e.m.SemLogger().SetLevel(am.LogLevel(1 + t.r.Intn(5)))
		} else {
			e.m.SemLogger().SetLevel(am.LogNothing)
		}
	},
	"SemLogger.Level": func(e *c12Env, t *c12T) { e.m.SemLogger().Level() },
	"SemLogger.SetLogger": func(e *c12Env, t *c12T) {
		e.m.SemLogger().SetLogger(func(l am.LogLevel, msg string, args ...any) {})
	},
	"SemLogger.Logger": func(e *c12Env, t *c12T) { e.m.SemLogger().Logger() },
	"SemLogger.SetEmpty": func(e *c12Env, t *c12T) {
		e.m.SemLogger().SetEmpty(am.LogLevel(e.in.Log))
	},
	"SemLogger.SetSimple": func(e *c12Env, t *c12T) {
		e.m.SemLogger().SetSimple(func(f string, a ...any) {}, am.LogLevel(e.in.Log))
	},
	"SemLogger.SetArgsMapper": func(e *c12Env, t *c12T) {
		e.m.SemLogger().SetArgsMapper(am.NewLogArgsMapper(0, []string{"k"}))
	},
	"SemLogger.SetArgsMapperDef": func(e *c12Env, t *c12T) { e.m.SemLogger().SetArgsMapperDef("k") },
	"SemLogger.ArgsMapper":       func(e *c12Env, t *c12T) { e.m.SemLogger().ArgsMapper() },
	"SemLogger.EnableId":         func(e *c12Env, t *c12T) { e.m.SemLogger().EnableId(t.r.Chance(50)) },
	"SemLogger.IsId":             func(e *c12Env, t *c12T) { e.m.SemLogger().IsId() },
	"SemLogger.EnableSteps":      func(e *c12Env, t *c12T) { e.m.SemLogger().EnableSteps(t.r.Chance(50)) },
	"SemLogger.IsSteps":          func(e *c12Env, t *c12T) { e.m.SemLogger().IsSteps() },
	"SemLogger.EnableGraph":      func(e *c12Env, t *c12T) { e.m.SemLogger().EnableGraph(t.r.Chance(50)) },
	"SemLogger.IsGraph":          func(e *c12Env, t *c12T) { e.m.SemLogger().IsGraph() },
	"SemLogger.EnableQueued":     func(e *c12Env, t *c12T) { e.m.SemLogger().EnableQueued(t.r.Chance(50)) },
	"SemLogger.IsQueued":         func(e *c12Env, t *c12T) { e.m.SemLogger().IsQueued() },
	"SemLogger.EnableArgs":       func(e *c12Env, t *c12T) { e.m.SemLogger().EnableArgs(t.r.Chance(50)) },
	"SemLogger.IsArgs":           func(e *c12Env, t *c12T) { e.m.SemLogger().IsArgs() },
	"SemLogger.EnableCan":        func(e *c12Env, t *c12T) { e.m.SemLogger().EnableCan(t.r.Chance(50)) },
	"SemLogger.IsCan":            func(e *c12Env, t *c12T) { e.m.SemLogger().IsCan() },
	"SemLogger.EnableStateCtx":   func(e *c12Env, t *c12T) { e.m.SemLogger().EnableStateCtx(true) },
	"SemLogger.IsStateCtx":       func(e *c12Env, t *c12T) { e.m.SemLogger().IsStateCtx() },
	"SemLogger.EnableWhen":       func(e *c12Env, t *c12T) { e.m.SemLogger().EnableWhen(true) },
	"SemLogger.IsWhen":           func(e *c12Env, t *c12T) { e.m.SemLogger().IsWhen() },
	// ---- export / schema
	"Export": func(e *c12Env, t *c12T) { _, _, _ = e.m.Export() },
	// (the three schema-level ops keep their own idea of the state list, so
	// that they call nothing but the method under test)
	"Import": func(e *c12Env, t *c12T) {
		names := c12CurNames(int(e.nAdded.Load()))
		tm := make(am.Time, len(names))
		for i := range tm {
			tm[i] = uint64(t.r.Intn(4))
		}
		_ = e.m.Import(&am.Serialized{ID: "c12", StateNames: names, Time: tm})
	},
	"VerifyStates": func(e *c12Env, t *c12T) {
		_ = e.m.VerifyStates(c12CurNames(int(e.nAdded.Load())))
	},
	"SetSchema": func(e *c12Env, t *c12T) {
		k := int(e.nAdded.Load())
		if k >= 5 {
			return
		}
		s := c12Schema()
		for i := 0; i <= k; i++ {
			s[fmt.Sprintf("X%d", i)] = am.State{}
		}
		s[am.StateException] = am.State{Multi: true}
		if err := e.m.SetSchema(s, c12CurNames(k+1)); err == nil {
			e.nAdded.CompareAndSwap(int64(k), int64(k+1))
		}
	},
	// ---- NetworkMachine
	"NM.UpdateClock": func(e *c12Env, t *c12T) {
		k := e.nmTime.Add(1)
		now := am.Time{k, k / 2, k / 3, 2 * k, k / 5, k / 2, k / 3}
		e.nmi.Lock()
		e.nmi.UpdateClock(now, k, 0)
	},
	"NM.Is":           func(e *c12Env, t *c12T) { e.nm.Is(c12Sts(t.r)) },
	"NM.Is1":          func(e *c12Env, t *c12T) { e.nm.Is1(c12St(t.r)) },
	"NM.IsErr":        func(e *c12Env, t *c12T) { e.nm.Is1("A") },
	"NM.Any1":         func(e *c12Env, t *c12T) { e.nm.Any1(c12St(t.r), c12St(t.r)) },
	"NM.Not":          func(e *c12Env, t *c12T) { e.nm.Not(c12Sts(t.r)) },
	"NM.Not1":         func(e *c12Env, t *c12T) { e.nm.Not1(c12St(t.r)) },
	"NM.ActiveStates": func(e *c12Env, t *c12T) { e.nm.ActiveStates(nil) },
	"NM.Tick":         func(e *c12Env, t *c12T) { e.nm.Tick(c12St(t.r)) },
	"NM.Clock":        func(e *c12Env, t *c12T) { e.nm.Clock(nil) },
	"NM.Time":         func(e *c12Env, t *c12T) { e.nm.Time(nil) },
	"NM.IsTime":       func(e *c12Env, t *c12T) { e.nm.IsTime(am.Time{1, 2}, am.S{"A", "B"}) },
	"NM.WasTime":      func(e *c12Env, t *c12T) { e.nm.WasTime(am.Time{1}, nil) },
	"NM.IsClock":      func(e *c12Env, t *c12T) { e.nm.IsClock(am.Clock{"A": 1}) },
	"NM.WasClock":     func(e *c12Env, t *c12T) { e.nm.WasClock(am.Clock{"B": 1}) },
	"NM.String":       func(e *c12Env, t *c12T) { _ = e.nm.String() },
	"NM.StringAll":    func(e *c12Env, t *c12T) { _ = e.nm.StringAll() },
	"NM.QueueTick":    func(e *c12Env, t *c12T) { e.nm.QueueTick() },
	"NM.MachineTick":  func(e *c12Env, t *c12T) { e.nm.MachineTick() },
	"NM.StateNames":   func(e *c12Env, t *c12T) { e.nm.StateNames() },
	"NM.Index1":       func(e *c12Env, t *c12T) { e.nm.Index1(c12St(t.r)) },
	"NM.When1":        func(e *c12Env, t *c12T) { e.nm.When1(c12St(t.r), nil) },
	"NM.WhenNot1":     func(e *c12Env, t *c12T) { e.nm.WhenNot1(c12St(t.r), nil) },
	"NM.WhenTime1": func(e *c12Env, t *c12T) {
		e.nm.WhenTime1(c12St(t.r), e.nmTime.Load()+3, nil)
	},
	"NM.WhenQueue":   func(e *c12Env, t *c12T) { e.nm.WhenQueue(am.Result(e.nmTime.Load() + 3)) },
	"NM.NewStateCtx": func(e *c12Env, t *c12T) { e.nm.NewStateCtx(c12St(t.r)) },
	"NM.Tracers":     func(e *c12Env, t *c12T) { e.nm.Tracers() },
	"NM.TracerBind": func(e *c12Env, t *c12T) {
		c12BindTr(e, t, func(tr am.Tracer) (string, error) { return e.nm.TracerBind(tr) })
	},
	"NM.TracerDetach": func(e *c12Env, t *c12T) {
		if len(t.tids) > 0 {
			_ = e.nm.TracerDetach(t.tids[0])
			t.tids = t.tids[1:]
		} else {
			_ = e.nm.TracerDetach("nope")
		}
	},
	"NM.Log": func(e *c12Env, t *c12T) { e.nm.Log("x") },
}

func c12Ctx(r *Rng) context.Context {
	if r.Chance(50) {
		return nil
	}
	ctx, cancel := context.WithCancel(context.Background())
	if r.Chance(30) {
		cancel()
	} else {
		_ = cancel // released with the process
	}
	return ctx
}

func c12Bind(e *c12Env, t *c12T, bind func() (string, error)) {
	if len(t.hids) >= 2 {
		_ = e.m.HandlersDetach(t.hids[0])
		t.hids = t.hids[1:]
	}
	if id, err := bind(); err == nil && id != "" {
		t.hids = append(t.hids, id)
	}
}

var c12TrSeq atomic.Uint64

func c12BindTr(e *c12Env, t *c12T, bind func(am.Tracer) (string, error)) {
	if len(t.tids) >= 2 {
		if e.nm != nil {
			_ = e.nm.TracerDetach(t.tids[0])
		} else {
			_ = e.m.TracerDetach(t.tids[0])
		}
		t.tids = t.tids[1:]
	}
	tr := &c12Tracer{TracerNoOp: &am.TracerNoOp{Id: fmt.Sprintf("tr%d", c12TrSeq.Add(1))}}
	if id, err := bind(tr); err == nil && id != "" {
		t.tids = append(t.tids, id)
	}
}

// "Remove.all" is a second driver (argument class) of the method Remove
func c12Base(n string) string {
	if strings.HasPrefix(n, "NM.") || strings.HasPrefix(n, "SemLogger.") {
		return n
	}
	if k := strings.Index(n, "."); k > 0 {
		return n[:k]
	}
	return n
}

// methods that exist but are deliberately not part of the table
var c12Excluded = map[string]string{
	"Dispose":              "C13 (disposal)",
	"DisposeForce":         "C13; takes no locks by design ('Will cause panics')",
	"DetachHandlers":       "recurses into itself forever (C20)",
	"Go":                   "forks user code",
	"GoAfter":              "forks user code",
	"Fork":                 "forks user code",
	"PoolFork":             "forks user code (nil-deref without a limit, C20)",
	"PoolSetLimit":         "pool bookkeeping under poolMx only",
	"PoolSetLimitGlobal":   "pool bookkeeping under poolMx only",
	"EvSource":             "telemetry lookup",
	"SemLogger.AddPipeIn":  "pipes list under its own pipesMx",
	"SemLogger.AddPipeOut": "pipes list under its own pipesMx",
	"SemLogger.RemovePipes": "pipes list under its own pipesMx",
	"SemLogger.Pipes":      "pipes list under its own pipesMx",
	"NM.Export":            "self-deadlock: schemaMx.RLock, then StateNames() takes schemaMx.Lock",
	"NM.Dispose":           "C13",
}

// ---------------------------------------------------------------- child

func c12Child(spec string) {
	var in C12Input
	must(json.Unmarshal([]byte(spec), &in))
	if in.Rounds < 1 {
		in.Rounds = 1
	}
	budget := time.Duration(in.Rounds*in.DurMs)*time.Millisecond + 3*time.Second
	go func() {
		time.Sleep(budget)
		fmt.Println("C12HUNG")
		os.Exit(3)
	}()
	var panics int64
	first := ""
	for round := 0; round < in.Rounds; round++ {
		n, msg := c12Round(&in, round)
		panics += n
		if first == "" {
			first = msg
		}
	}
	fmt.Printf("C12DONE panics=%d first=%q\n", panics, first)
	os.Exit(0)
}

func c12Round(in *C12Input, round int) (int64, string) {
	env := c12Setup(in)
	start := make(chan struct{})
	var wg sync.WaitGroup
	deadline := time.Duration(in.DurMs) * time.Millisecond
	root := NewRng(in.Seed + uint64(round)*7919)
	for ti, methods := range in.Threads {
		ops := make([]c12Op, 0, len(methods))
		for _, name := range methods {
			if op, ok := c12Ops[name]; ok {
				ops = append(ops, op)
			}
		}
		if len(ops) == 0 {
			continue
		}
		t := &c12T{r: root.Fork()}
		_ = ti
		wg.Add(1)
		go func() {
			defer wg.Done()
			<-start
			end := time.Now().Add(deadline)
			for i := 0; ; i++ {
				c12Call(env, t, ops[i%len(ops)])
				switch t.r.Intn(6) {
				case 0:
					runtime.Gosched()
				case 1:
					time.Sleep(time.Duration(t.r.Intn(40)) * time.Microsecond)
				case 2:
					for k := t.r.Intn(200); k > 0; k-- {
						_ = k
					}
				}
				if i%4 == 3 && time.Now().After(end) {
					return
				}
			}
		}()
	}
	close(start)
	wg.Wait()
	msg, _ := env.panic1.Load().(string)
	return env.panics.Load(), msg
}

func c12Call(env *c12Env, t *c12T, op c12Op) {
	defer func() {
		if r := recover(); r != nil {
			if env.panics.Add(1) == 1 {
				env.panic1.Store(fmt.Sprint(r))
			}
		}
	}()
	op(env, t)
}

// ---------------------------------------------------------------- parent: run one program

var c12ReAccess = regexp.MustCompile(`^(?:Previous )?(?:[Rr]ead|[Ww]rite|atomic read|atomic write) at 0x[0-9a-f]+ by (?:goroutine \d+|main goroutine):`)
var c12ReMethod = regexp.MustCompile(`asyncmachine-go/pkg/(machine|rpc)\.\(\*(Machine|NetworkMachine|NetMachInternal|semLogger)\)\.([A-Za-z0-9_]+)`)

type c12Frame struct {
	Fn   string
	File string
	Line int
}

type c12Block struct {
	write  bool
	frames []c12Frame
}

func c12ParseReport(stderr string) (blocks []c12Block) {
	lines := strings.Split(stderr, "\n")
	i := 0
	for i < len(lines) && !strings.Contains(lines[i], "WARNING: DATA RACE") {
		i++
	}
	for i++; i < len(lines) && len(blocks) < 2; i++ {
		if !c12ReAccess.MatchString(strings.TrimSpace(lines[i])) {
			if strings.HasPrefix(lines[i], "Goroutine ") || strings.HasPrefix(lines[i], "====") {
				break
			}
			continue
		}
		hdr := strings.ToLower(strings.TrimSpace(lines[i]))
		isWrite := strings.HasPrefix(hdr, "write") || strings.HasPrefix(hdr, "previous write")
		var frames []c12Frame
		for i+1 < len(lines) && strings.TrimSpace(lines[i+1]) != "" {
			fn := strings.TrimSpace(lines[i+1])
			if i+2 >= len(lines) {
				break
			}
			loc := strings.TrimSpace(lines[i+2])
			i += 2
			f := c12Frame{Fn: fn}
			if sp := strings.Index(loc, " "); sp > 0 {
				loc = loc[:sp]
			}
			if k := strings.LastIndex(loc, ":"); k > 0 {
				f.File = loc[:k]
				f.Line, _ = strconv.Atoi(loc[k+1:])
			}
			frames = append(frames, f)
		}
		blocks = append(blocks, c12Block{write: isWrite, frames: frames})
	}
	return blocks
}

var c12Src = map[string][]string{}
var c12SrcMx sync.Mutex

func c12Line(file string, line int) string {
	c12SrcMx.Lock()
	defer c12SrcMx.Unlock()
	ls, ok := c12Src[file]
	if !ok {
		b, err := os.ReadFile(file)
		if err == nil {
			ls = strings.Split(string(b), "\n")
		}
		c12Src[file] = ls
	}
	if line < 1 || line > len(ls) {
		return ""
	}
	return ls[line-1]
}

// fields named on the source line of the innermost frame inside the repo
// that names one (a few frames up at most: helpers like slicesEvery are
// called with the field as an argument); for a write, the assigned field wins.
// harness = the innermost non-library frame belongs to the harness itself
// (user data handed to the library).
func (t *c12Table) attribute(frames []c12Frame, write bool) (fields map[int]bool, at string, harness bool) {
	fields = map[int]bool{}
	depth := 0
	for _, f := range frames {
		if strings.HasPrefix(f.Fn, "main.") {
			return fields, at, depth == 0
		}
		pkg := ""
		switch {
		case strings.Contains(f.File, "/pkg/machine/"):
			pkg = "machine"
		case strings.Contains(f.File, "/pkg/rpc/"):
			pkg = "rpc"
		default:
			continue
		}
		depth++
		if _, _, exact := c12FuncBounds(f); !exact {
			// the source moved since the build: no line-level attribution
			if at == "" {
				at = fmt.Sprintf("%s:%d (stale)", filepath.Base(f.File), f.Line)
			}
			return map[int]bool{}, at, false
		}
		src := c12Line(f.File, f.Line)
		if at == "" {
			at = fmt.Sprintf("%s:%d", filepath.Base(f.File), f.Line)
		}
		lhs := -1
		for ident, id := range t.Idents[pkg] {
			pat := `\.` + ident + `\b`
			if strings.Contains(ident, ".") { // receiver given: rr.Index
				pat = `\b` + regexp.QuoteMeta(ident) + `\b`
			}
			if regexp.MustCompile(pat).MatchString(src) {
				fields[id] = true
			}
			if write && regexp.MustCompile(`^\s*[\w.]*\.`+regexp.QuoteMeta(ident[strings.LastIndex(ident, ".")+1:])+`(\[[^\]]*\])?\s*(=[^=]|\+\+|--|[-+]=)`).MatchString(src) {
				lhs = id
			}
		}
		if lhs >= 0 {
			return map[int]bool{lhs: true}, at, false
		}
		if len(fields) > 0 || depth >= 4 {
			return fields, at, false
		}
	}
	return fields, at, false
}

var c12ReFuncSuffix = regexp.MustCompile(`(\.func\d+|\.\d+|\[[^\]]*\]|\(\))+$`)

// c12FuncBounds returns the source range of the frame's function. The report's
// line numbers are those of the compiled binary; if the file changed since
// (exact=false) the function is looked up by name instead.
func c12FuncBounds(f c12Frame) (lo, hi int, exact bool) {
	short := f.Fn
	if k := strings.Index(short, "["); k >= 0 { // generic instantiation
		short = short[:k]
	}
	short = c12ReFuncSuffix.ReplaceAllString(short, "")
	if k := strings.LastIndex(short, "."); k >= 0 {
		short = short[k+1:]
	}
	hdr := regexp.MustCompile(`^func (\([^)]*\) )?` + regexp.QuoteMeta(short) + `\b`)
	end := func(from int) int {
		h := from
		for n := 0; n < 600 && c12Line(f.File, h) != "}"; n++ {
			h++
		}
		return h
	}
	lo = f.Line
	for lo > 1 && !strings.HasPrefix(c12Line(f.File, lo), "func ") {
		lo--
	}
	if hdr.MatchString(c12Line(f.File, lo)) && end(lo) >= f.Line {
		return lo, end(lo), true
	}
	for l := 1; l < 20000; l++ {
		src := c12Line(f.File, l)
		if src == "" && l > 100 && c12Line(f.File, l+1) == "" && c12Line(f.File, l+2) == "" &&
			c12Line(f.File, l+50) == "" {
			break
		}
		if hdr.MatchString(src) {
			return l, end(l), false
		}
	}
	return 0, 0, false
}

// fields named anywhere in the functions of the three innermost repo frames
func (t *c12Table) funcFields(frames []c12Frame) map[int]bool {
	fields := map[int]bool{}
	depth := 0
	for _, f := range frames {
		if strings.HasPrefix(f.Fn, "main.") {
			return fields
		}
		pkg := ""
		switch {
		case strings.Contains(f.File, "/pkg/machine/"):
			pkg = "machine"
		case strings.Contains(f.File, "/pkg/rpc/"):
			pkg = "rpc"
		default:
			continue
		}
		depth++
		lo, hi, _ := c12FuncBounds(f)
		if lo > 0 {
			var body strings.Builder
			for l := lo; l <= hi; l++ {
				body.WriteString(c12Line(f.File, l))
				body.WriteByte('\n')
			}
			for ident, id := range t.Idents[pkg] {
				pat := `\.` + ident + `\b`
				if strings.Contains(ident, ".") {
					pat = `\b` + regexp.QuoteMeta(ident) + `\b`
				}
				if regexp.MustCompile(pat).MatchString(body.String()) {
					fields[id] = true
				}
			}
		}
		// (the accessed field is often named a few frames up: helpers such as
		// slices.Contains / sort are called with the field as an argument)
		if depth >= 3 {
			return fields
		}
	}
	return fields
}

func c12Blame(frames []c12Frame) string {
	// outermost exported method of Machine / NetworkMachine / SemLogger
	for i := len(frames) - 1; i >= 0; i-- {
		m := c12ReMethod.FindStringSubmatch(frames[i].Fn)
		if m == nil {
			continue
		}
		name := m[3]
		if name == "" || name[0] < 'A' || name[0] > 'Z' {
			continue
		}
		switch m[2] {
		case "Machine":
			return name
		case "NetworkMachine", "NetMachInternal":
			return "NM." + name
		case "semLogger":
			if m[1] == "machine" {
				return "SemLogger." + name
			}
		}
	}
	return ""
}

func c12Run(c *Ctx, t *c12Table, in *C12Input) *c12Obs {
	obs := &c12Obs{Field: c12NoField}
	spec, _ := json.Marshal(in)
	exe, err := os.Executable()
	must(err)
	limit := time.Duration(in.Rounds*in.DurMs)*time.Millisecond + 12*time.Second
	ctx, cancel := context.WithTimeout(context.Background(), limit)
	defer cancel()
	cmd := exec.CommandContext(ctx, exe, "C12", "--out", c.OutDir)
	cmd.Env = append(os.Environ(), "AMVERIF_C12_CHILD="+string(spec),
		"GORACE=halt_on_error=1 exitcode=66 history_size=4", "GOMAXPROCS=4")
	var stdout, stderr bytes.Buffer
	cmd.Stdout, cmd.Stderr = &stdout, &stderr
	err = cmd.Run()
	if ee, ok := err.(*exec.ExitError); ok {
		obs.Exit = ee.ExitCode()
	} else if err != nil {
		obs.Exit = -1
	}
	so, se := stdout.String(), stderr.String()
	if m := regexp.MustCompile(`C12DONE panics=(\d+) first=("(?:[^"\\]|\\.)*")`).FindStringSubmatch(so); m != nil {
		obs.Panics, _ = strconv.Atoi(m[1])
		obs.Panic1, _ = strconv.Unquote(m[2])
		if len(obs.Panic1) > 160 {
			obs.Panic1 = obs.Panic1[:160]
		}
	}
	switch {
	case strings.Contains(se, "WARNING: DATA RACE"):
		obs.Raced = true
		if k := strings.Index(se, "WARNING: DATA RACE"); k >= 0 {
			obs.Report = se[k:min(len(se), k+2500)]
		}
		blocks := c12ParseReport(se)
		var fs []map[int]bool
		nHarness := 0
		for i, b := range blocks {
			f, at, harness := t.attribute(b.frames, b.write)
			if harness {
				// user data handed to the library (e.g. the Serialized passed
				// to Import): attribute by the other side
				nHarness++
			}
			if i == 0 {
				obs.At1, obs.M1 = at, c12Blame(b.frames)
			} else {
				obs.At2, obs.M2 = at, c12Blame(b.frames)
			}
			fs = append(fs, f)
		}
		obs.Harness = nHarness == len(blocks) && nHarness > 0
		obs.Field = c12PickField(fs)
		if obs.Field != c12NoField {
			obs.Fields = []int{obs.Field}
		} else {
			// fall back to the fields named in the enclosing functions
			var ffs []map[int]bool
			for _, b := range blocks {
				if m := t.funcFields(b.frames); len(m) > 0 {
					ffs = append(ffs, m)
				}
			}
			cand := map[int]bool{}
			if len(ffs) == 2 {
				for f := range ffs[0] {
					if ffs[1][f] {
						cand[f] = true
					}
				}
			} else if len(ffs) == 1 {
				cand = ffs[0]
			}
			for f := range cand {
				obs.Fields = append(obs.Fields, f)
			}
			sort.Ints(obs.Fields)
		}
		// the Subscriptions of a NetworkMachine live in pkg/machine: move the
		// field to the NetworkMachine's own instance
		if in.Kind == "netmach" {
			for i, f := range obs.Fields {
				if f >= 12 && f <= 18 {
					obs.Fields[i] = f + 50
				} else if f == 1 {
					obs.Fields[i] = 51 // sm.clock is the NetworkMachine's machClock map
				}
			}
			if len(obs.Fields) == 1 {
				obs.Field = obs.Fields[0]
			}
		}
	case strings.Contains(se, "fatal error: concurrent map"):
		// the runtime's own detector: a race on a map
		obs.Raced = true
		obs.Fatal = "concurrent map access"
	case strings.Contains(so, "C12HUNG") || ctx.Err() != nil:
		obs.Hung = true
	case obs.Exit != 0:
		k := strings.Index(se, "\n\n")
		if k < 0 || k > 300 {
			k = min(300, len(se))
		}
		obs.Fatal = strings.TrimSpace(se[:k])
	}
	return obs
}

func c12PickField(fs []map[int]bool) int {
	var cand map[int]bool
	nonEmpty := 0
	for _, m := range fs {
		if len(m) > 0 {
			nonEmpty++
		}
	}
	switch {
	case len(fs) == 2 && nonEmpty == 2:
		cand = map[int]bool{}
		for f := range fs[0] {
			if fs[1][f] {
				cand[f] = true
			}
		}
		if len(cand) == 0 {
			// two lines naming different fields: the assigned one (a singleton) wins
			for _, m := range fs {
				if len(m) == 1 {
					for f := range m {
						cand[f] = true
					}
				}
			}
		}
	default:
		cand = map[int]bool{}
		for _, m := range fs {
			for f := range m {
				cand[f] = true
			}
		}
	}
	if len(cand) == 1 {
		for f := range cand {
			return f
		}
	}
	return c12NoField
}

// ---------------------------------------------------------------- Coq printer

func c12CoqStrs(xs []string) string {
	parts := make([]string, len(xs))
	for i, x := range xs {
		parts[i] = strconv.Quote(x)
	}
	return "[" + strings.Join(parts, "; ") + "]"
}

func c12Coq(in *C12Input, obs *c12Obs) string {
	ths := make([]string, len(in.Threads))
	for i, th := range in.Threads {
		ths[i] = c12CoqStrs(th)
	}
	return fmt.Sprintf("{| k_warm := %s; k_threads := [%s]; k_missing := %s; o_raced := %s; "+
		"o_fields := %s; o_m1 := %s; o_m2 := %s |}",
		coqBool(in.Warm), strings.Join(ths, "; "), c12CoqStrs(obs.Missing), coqBool(obs.Raced),
		coqNatList(obs.Fields), strconv.Quote(obs.M1), strconv.Quote(obs.M2))
}

// ---------------------------------------------------------------- runner

func runC12(c *Ctx) error {
	if spec := os.Getenv("AMVERIF_C12_CHILD"); spec != "" {
		c12Child(spec)
		return nil
	}
	tbl, err := c12LoadTable(c)
	if err != nil {
		return err
	}
	out := NewOut(c.OutDir, "C12",
		"From Coq Require Import List NArith String.\nFrom AMV Require Import Run.EvalC12.\n"+
			"Import ListNotations.\nOpen Scope string_scope.",
		"c12case", "check_all", 400)

	// ---- reflection: the method list of the real types
	env := c12Setup(&C12Input{Kind: "netmach"})
	have := map[string]bool{}
	addMethods := func(prefix string, v any) {
		tp := reflect.TypeOf(v)
		for i := 0; i < tp.NumMethod(); i++ {
			n := tp.Method(i).Name
			if strings.HasPrefix(n, "Verif") && !strings.HasPrefix(n, "Verify") {
				continue // hooks of the verif build tag
			}
			have[prefix+n] = true
		}
	}
	addMethods("", env.m)
	addMethods("SemLogger.", env.m.SemLogger())
	addMethods("NM.", env.nm)
	have["NM.UpdateClock"] = reflect.TypeOf(env.nmi).NumMethod() > 0 && func() bool {
		_, ok := reflect.TypeOf(env.nmi).MethodByName("UpdateClock")
		return ok
	}()
	inTable := map[string]bool{}
	var missing, notDriven, uncovered, uncoveredNM, excluded []string
	var driven, drivenNM []string
	for _, n := range tbl.Names {
		inTable[n] = true
		if !have[c12Base(n)] {
			missing = append(missing, n)
			continue
		}
		if _, ok := c12Ops[n]; !ok {
			notDriven = append(notDriven, n)
			continue
		}
		if strings.HasPrefix(n, "NM.") {
			drivenNM = append(drivenNM, n)
		} else {
			driven = append(driven, n)
		}
	}
	for n := range have {
		if inTable[n] || !have[n] {
			continue
		}
		if why, ok := c12Excluded[n]; ok {
			excluded = append(excluded, n+": "+why)
		} else if strings.HasPrefix(n, "NM.") {
			uncoveredNM = append(uncoveredNM, n)
		} else {
			uncovered = append(uncovered, n)
		}
	}
	sort.Strings(uncovered)
	sort.Strings(uncoveredNM)
	sort.Strings(excluded)

	type job struct {
		kind string
		in   *C12Input
		obs  *c12Obs
	}
	var jobs []*job
	add := func(kind string, in *C12Input) { jobs = append(jobs, &job{kind: kind, in: in}) }

	cases, replayOnly := c.loadCases()
	for _, cc := range cases {
		var in C12Input
		must(json.Unmarshal(cc.Input, &in))
		add("corpus:"+cc.Name, &in)
	}

	r := c.Rng
	if !replayOnly {
		// ---- (a) pairs
		genPairs := func(kind string, methods []string) {
			classes := map[string][]string{}
			var order []string
			for _, n := range methods {
				k := tbl.class(n)
				if _, ok := classes[k]; !ok {
					order = append(order, k)
				}
				classes[k] = append(classes[k], n)
			}
			for i, ka := range order {
				for _, kb := range order[i:] {
					as, bs := classes[ka], classes[kb]
					if !tbl.conflict(as[0], bs[0]) {
						continue
					}
					var pairs [][2]string
					if c.Thorough() {
						for ia, a := range as {
							for ib, b := range bs {
								if ka == kb && ib < ia {
									continue
								}
								pairs = append(pairs, [2]string{a, b})
							}
						}
					} else {
						pairs = append(pairs, [2]string{as[r.Intn(len(as))], bs[r.Intn(len(bs))]})
					}
					for _, p := range pairs {
						if p[0] == "NM.UpdateClock" && p[1] == "NM.UpdateClock" {
							// two concurrent updateClock calls deadlock (clockMx /
							// tracersMx order); the rpc client serialises them
							continue
						}
						warm := r.Chance(75)
						in := &C12Input{Kind: kind, Warm: warm, Threads: [][]string{{p[0]}, {p[1]}},
							Rounds: 3, DurMs: 4, Seed: r.U64() >> 1,
							Handlers: r.Chance(50), Tracer: r.Chance(30)}
						if r.Chance(40) {
							in.Log = 1 + r.Intn(5)
						}
						if !warm {
							in.Rounds, in.DurMs = 12, 1
						}
						add("pair", in)
					}
				}
			}
		}
		genPairs("pair", driven)
		{
			seen := map[string]bool{}
			for _, n := range driven {
				fp := tbl.Foot[n]
				_, a := fp[0]
				_, b := fp[1]
				k := tbl.class(n)
				if !(a || b) || seen[k] || strings.Contains(n, ".all") || strings.Contains(n, ".none") {
					continue
				}
				seen[k] = true
				for _, sp := range []string{"Remove.all", "Set.none"} {
					if _, ok := c12Ops[sp]; !ok || !tbl.conflict(sp, n) {
						continue
					}
					add("pair", &C12Input{Kind: "pair", Warm: true, Threads: [][]string{{sp}, {n}},
						Rounds: 2, DurMs: 6, Seed: r.U64() >> 1, Handlers: r.Chance(50)})
				}
			}
		}
		genPairs("netmach", drivenNM)

		// ---- (b) mixes over the whole method set, transitions with handlers running
		heavy := map[string]bool{"SetSchema": true, "Import": true, "VerifyStates": true,
			"SetGroups": true, "SetGroupsString": true}
		pick := func(pool []string) string {
			for {
				n := pool[r.Intn(len(pool))]
				if heavy[n] && !r.Chance(6) {
					continue
				}
				return n
			}
		}
		muts := []string{"Add", "Add1", "Remove", "Remove1", "Set", "Toggle1", "AddErr", "EvAdd1", "CanAdd1",
			"Remove.all", "Set.none"}
		nMix := c.N(160, 4000)
		for i := 0; i < nMix; i++ {
			n := r.Range(2, 16)
			in := &C12Input{Kind: "mix", Warm: r.Chance(70), Handlers: r.Chance(80), Tracer: r.Chance(50),
				Rounds: 2, DurMs: r.Range(8, 25), Seed: r.U64() >> 1}
			if r.Chance(50) {
				in.Log = 1 + r.Intn(5)
			}
			for k := 0; k < n; k++ {
				var th []string
				if k == 0 || r.Chance(25) {
					// transitions keep running
					th = []string{muts[r.Intn(len(muts))], muts[r.Intn(len(muts))]}
				} else {
					for j := r.Range(1, 3); j > 0; j-- {
						th = append(th, pick(driven))
					}
				}
				in.Threads = append(in.Threads, th)
			}
			add("mix", in)
		}

		// ---- (c) NetworkMachine fed by UpdateClock while being read
		nNM := c.N(40, 1000)
		for i := 0; i < nNM && len(drivenNM) > 0; i++ {
			n := r.Range(2, 12)
			in := &C12Input{Kind: "netmach", Warm: true, Tracer: r.Chance(50),
				Rounds: 2, DurMs: r.Range(8, 20), Seed: r.U64() >> 1}
			if r.Chance(50) {
				in.Log = 1 + r.Intn(5)
			}
			in.Threads = append(in.Threads, []string{"NM.UpdateClock"})
			for k := 1; k < n; k++ {
				var th []string
				for j := r.Range(1, 3); j > 0; j-- {
					// one feeder only: two concurrent updateClock calls deadlock
					n := drivenNM[r.Intn(len(drivenNM))]
					for n == "NM.UpdateClock" {
						n = drivenNM[r.Intn(len(drivenNM))]
					}
					th = append(th, n)
				}
				in.Threads = append(in.Threads, th)
			}
			add("netmach", in)
		}
	}

	// ---- run the children, in parallel; results are stored per job
	par := runtime.NumCPU() / 2
	if par < 2 {
		par = 2
	}
	if par > 10 {
		par = 10
	}
	var wg sync.WaitGroup
	ch := make(chan *job)
	for w := 0; w < par; w++ {
		wg.Add(1)
		go func() {
			defer wg.Done()
			for j := range ch {
				j.obs = c12Run(c, tbl, j.in)
			}
		}()
	}
	for _, j := range jobs {
		ch <- j
	}
	close(ch)
	wg.Wait()

	// ---- emit
	hung, fatal, harnessRaces, panics := 0, 0, 0, 0
	var hungSamples, fatalSamples []string
	raceSites := map[string]int{}
	panicKinds := map[string]int{}
	for _, j := range jobs {
		in, obs := j.in, j.obs
		obs.Missing = missing
		out.Count("kind", in.Kind)
		out.Count("goroutines", fmt.Sprint(len(in.Threads)))
		out.Count("warm", fmt.Sprint(in.Warm))
		out.Count("log_level", fmt.Sprint(in.Log))
		out.Count("handlers", fmt.Sprint(in.Handlers))
		out.Count("tracer", fmt.Sprint(in.Tracer))
		for _, th := range in.Threads {
			for _, m := range th {
				out.Count("method", m)
			}
		}
		switch {
		case obs.Raced:
			out.Count("outcome", "raced")
			raceSites[fmt.Sprintf("%s || %s on field(s) %v (%s / %s)", obs.M1, obs.M2, obs.Fields, obs.At1, obs.At2)]++
		case obs.Hung:
			out.Count("outcome", "hung")
			hung++
			if len(hungSamples) < 5 {
				b, _ := json.Marshal(in.Threads)
				hungSamples = append(hungSamples, string(b))
			}
		case obs.Fatal != "":
			out.Count("outcome", "crashed")
			fatal++
			if len(fatalSamples) < 5 {
				fatalSamples = append(fatalSamples, obs.Fatal)
			}
		default:
			out.Count("outcome", "clean")
		}
		if obs.Harness {
			harnessRaces++
			fmt.Fprintf(os.Stderr, "harness race in %v:\n%s\n", in.Threads, obs.Report)
		}
		panics += obs.Panics
		if obs.Panic1 != "" {
			panicKinds[regexp.MustCompile(`[0-9]+`).ReplaceAllString(obs.Panic1, "N")]++
		}
		out.Add(j.kind, in, obs, c12Coq(in, obs), false, "")
	}
	if harnessRaces > 0 {
		return fmt.Errorf("%d race report(s) blame the harness itself", harnessRaces)
	}
	out.Close("every generated concurrent program runs in a child process of the -race build; "+
		"first race report -> (field, blamed methods); judged against the lock table in Coq",
		map[string]any{
			"table_methods":           len(tbl.Names),
			"methods_covered":         len(driven) + len(drivenNM),
			"methods_in_table_not_driven": notDriven,
			"methods_missing_in_code": missing,
			"methods_uncovered":       uncovered,
			"netmach_methods_uncovered": uncoveredNM,
			"methods_excluded":        excluded,
			"race_sites":              raceSites,
			"children_hung":           hung,
			"children_hung_samples":   hungSamples,
			"children_crashed":        fatal,
			"children_crashed_samples": fatalSamples,
			"recovered_panics_in_calls": panics,
			"recovered_panic_kinds":     panicKinds,
			"unmodelled": []string{
				"deadlocks (a hung child is counted, not judged: e.g. recursive schemaMx.RLock in Export / emitEvents against a pending schemaMx.Lock)",
				"Dispose / DisposeForce racing with the calls (C13)",
				"handler timeout / deadline / panic recovery branches",
				"NetworkMachine mutations over a connection (conn = nil here) and NetworkMachine.Export",
			},
		})
	return nil
}
