//go:build p_c06 || p_all

package main

// C06 — waiting: no lost or spurious wake-ups; state contexts bound to one
// state instance.
//
// A generated history (schema + scripted handlers + top-level calls, as for
// the sequential properties) is executed on a real machine with subscription
// operations interleaved at four kinds of positions: between top-level calls,
// at the start of a handler invocation (inside a transition: negotiation
// handlers run before the apply point, final handlers between setActiveStates
// and processSubscriptions), and - from a separate subscriber goroutine - at
// the verif schedule points `tx:applied` and `tx:subs`. Every returned
// channel / context is polled (non-blocking) right at return and after each
// top-level call. The Coq side (Run/EvalC06.v) runs the subscription-manager
// model on the observed trace and evaluates the property on the flags.

import (
	"context"
	"encoding/json"
	"errors"
	"fmt"
	"slices"
	"strings"
	"time"

	am "github.com/pancsta/asyncmachine-go/pkg/machine"
)

func init() { register("C06", runC06) }

// ------------------------------------------------------------ input

type C06Op struct {
	Pos    string   `json:"pos"` // call handler applied subs
	At     int      `json:"at"`  // call index / handler-log index / transition index
	Kind   string   `json:"kind"`
	States []int    `json:"states,omitempty"`
	Times  []uint64 `json:"times,omitempty"`
	N      uint64   `json:"n,omitempty"`   // ticks (whenticks), queue tick (whenqueue), tick bound (whenquery tickge)
	Fn     string   `json:"fn,omitempty"`  // whenquery: active inactive tickge never always
	Ctx    int      `json:"ctx,omitempty"` // 0 = nil, k = user context k
}

type C06Input struct {
	Hist HistInput `json:"hist"`
	Ops  []C06Op   `json:"ops"`
}

type C06Ret struct {
	Op      int    `json:"op"`   // index into the input ops
	Kind    int    `json:"kind"` // 0 nothing 1 channel 2 state ctx 3 panic
	Alias   int    `json:"alias"`
	Closed0 bool   `json:"closed0"`
	Tick    uint64 `json:"tick"`
	Nop     bool   `json:"nop,omitempty"` // a cancel suppressed by the one-cancel-per-processing rule
	Msg     string `json:"msg,omitempty"`
}

type C06Obs struct {
	Rets    []C06Ret `json:"rets"`  // executed ops, in execution order
	Polls   [][]bool `json:"polls"` // per poll: closed flag per executed op
	Applied []int    `json:"applied"`
	Subs    []int    `json:"subs"`
	Grown   int      `json:"grown"`
}

// ------------------------------------------------------------ executor

type c06Tracer struct {
	*recTracer
	n0 int
}

func cut(t []uint64, n int) []uint64 {
	if len(t) > n {
		return slices.Clone(t[:n])
	}
	return t
}

func (t *c06Tracer) TransitionEnd(tx *am.Transition) {
	t.recTracer.TransitionEnd(tx)
	if t.full && len(t.obs.Txs) > 0 {
		r := &t.obs.Txs[len(t.obs.Txs)-1]
		r.Before, r.After, r.MachAfter = cut(r.Before, t.n0), cut(r.After, t.n0), cut(r.MachAfter, t.n0)
	}
}

const c06Ctxs = 4 // user contexts 1..4

func c06Exec(in *C06Input) (obs *HistObs, so *C06Obs) {
	h := &in.Hist
	obs = &HistObs{}
	so = &C06Obs{}
	names := histNames(h)
	n0 := len(names)
	schema := am.Schema{}
	for _, s := range h.States {
		schema[s.Name] = am.State{Auto: s.Auto, Multi: s.Multi,
			Require: pick(names, s.Require), Add: pick(names, s.Add),
			Remove: pick(names, s.Remove), After: pick(names, s.After)}
	}
	var hlog []HLog
	events := []string{}
	base := &recTracer{TracerNoOp: &am.TracerNoOp{Id: "rec0"}, names: names, obs: obs,
		events: &events, full: true, hlogN: func() int { return len(hlog) }}
	tr := &c06Tracer{recTracer: base, n0: n0}
	opts := &am.Opts{Id: "h", Tracers: []am.Tracer{tr}, HandlerTimeout: 5 * time.Second,
		DontLogStackTrace: true}
	if h.QueueLimit > 0 {
		opts.QueueLimit = uint16(h.QueueLimit)
	}
	if _, err := schema.Parse(); err != nil {
		obs.ParseErr = err.Error()
		return
	}
	m := am.New(context.Background(), schema, opts)
	base.mach = m
	if err := m.VerifyStates(names); err != nil {
		obs.Err = "verify: " + err.Error()
		return
	}
	disposed := false
	defer func() {
		m.VerifSetSched(nil)
		if len(h.Bindings) > 0 && !disposed {
			go m.Dispose()
		}
	}()
	if len(h.Init) > 0 {
		m.VerifSetActive(pick(names, h.Init))
	}
	parsed := m.Schema()
	idxOf := func(l am.S) []int {
		ret := make([]int, 0, len(l))
		for _, n := range l {
			i := slices.Index(names, n)
			if i == -1 {
				fmt.Sscanf(n, "Undefined%d", &i)
			}
			ret = append(ret, i)
		}
		return ret
	}
	for _, n := range names {
		p := parsed[n]
		obs.Parsed = append(obs.Parsed, HState{Name: n, Auto: p.Auto, Multi: p.Multi,
			Require: idxOf(p.Require), Add: idxOf(p.Add), Remove: idxOf(p.Remove), After: idxOf(p.After)})
	}
	obs.Topology = idxOf(m.VerifTopology())

	// ---- subscription machinery
	closedCh := m.WhenQueueEnds() // idle machine: Subscriptions.Closed
	type userCtx struct {
		ctx    context.Context
		cancel context.CancelFunc
	}
	var ctxs [c06Ctxs + 1]userCtx
	for i := 1; i <= c06Ctxs; i++ {
		c, cancel := context.WithCancel(context.Background())
		ctxs[i] = userCtx{c, cancel}
	}
	defer func() {
		for i := 1; i <= c06Ctxs; i++ {
			ctxs[i].cancel()
		}
	}()
	getCtx := func(k int) context.Context {
		if k <= 0 || k > c06Ctxs {
			return nil
		}
		return ctxs[k].ctx
	}
	type held struct {
		ch  <-chan struct{}
		ctx context.Context
	}
	var objs []held
	first := map[any]int{}
	isClosed := func(o held) bool {
		if o.ch != nil {
			select {
			case <-o.ch:
				return true
			default:
				return false
			}
		}
		if o.ctx != nil {
			return o.ctx.Err() != nil
		}
		return false
	}
	byPos := map[string][]int{}
	for i, op := range in.Ops {
		k := fmt.Sprintf("%s:%d", op.Pos, op.At)
		byPos[k] = append(byPos[k], i)
	}
	pendingCancel := false
	grownNames := slices.Clone(names)
	sts := func(idx []int) am.S { return pick(names, idx) }
	st1 := func(op *C06Op) string {
		if len(op.States) == 0 {
			return names[0]
		}
		return pick(names, op.States[:1])[0]
	}
	execOp := func(i int) {
		op := &in.Ops[i]
		ret := C06Ret{Op: i}
		var o held
		func() {
			defer func() {
				if r := recover(); r != nil {
					ret.Kind = 3
					ret.Msg = strings.SplitN(fmt.Sprint(r), "\n", 2)[0]
					o = held{}
				}
			}()
			ctx := getCtx(op.Ctx)
			switch op.Kind {
			case "when":
				o.ch = m.When(sts(op.States), ctx)
			case "whennot":
				o.ch = m.WhenNot(sts(op.States), ctx)
			case "whentime":
				o.ch = m.WhenTime(sts(op.States), am.Time(op.Times), ctx)
			case "whenticks":
				o.ch = m.WhenTicks(st1(op), int(op.N), ctx)
			case "whennext":
				o.ch = m.WhenNextActive(st1(op), ctx)
			case "whenquery":
				name, n, fn := st1(op), op.N, op.Fn
				o.ch = m.WhenQuery(func(clock am.Clock) bool {
					switch fn {
					case "active":
						return clock[name]%2 == 1
					case "inactive":
						return clock[name]%2 == 0
					case "tickge":
						return clock[name] >= n
					case "always":
						return true
					}
					return false
				}, ctx)
			case "whenqueue":
				o.ch = m.WhenQueue(am.Result(op.N))
			case "whenqueueends":
				o.ch = m.WhenQueueEnds()
			case "statectx":
				o.ctx = m.NewStateCtx(st1(op))
				if v, ok := o.ctx.Value(am.CtxKey).(am.CtxValue); ok {
					ret.Tick = v.Tick
				}
			case "cancel":
				if pendingCancel {
					ret.Nop = true
				} else {
					pendingCancel = true
					ctxs[op.Ctx].cancel()
				}
			case "setschema":
				so.Grown++
				nm := fmt.Sprintf("Zz%d", so.Grown)
				sch := m.Schema()
				sch[nm] = am.State{}
				grownNames = append(grownNames, nm)
				if err := m.SetSchema(sch, slices.Clone(grownNames)); err != nil {
					panic(err)
				}
			case "dispose":
				disposed = true
				m.Dispose()
				select {
				case <-m.WhenDisposed():
				case <-time.After(3 * time.Second):
					panic("dispose timeout")
				}
			default:
				panic("bad op kind " + op.Kind)
			}
		}()
		switch {
		case ret.Kind == 3:
		case o.ch != nil:
			ret.Kind = 1
			if o.ch == closedCh {
				ret.Alias = 0
			} else if f, ok := first[o.ch]; ok {
				ret.Alias = f + 1
			} else {
				first[o.ch] = len(objs)
				ret.Alias = len(objs) + 1
			}
		case o.ctx != nil:
			ret.Kind = 2
			if f, ok := first[o.ctx]; ok {
				ret.Alias = f + 1
			} else {
				first[o.ctx] = len(objs)
				ret.Alias = len(objs) + 1
			}
		}
		ret.Closed0 = isClosed(o)
		objs = append(objs, o)
		so.Rets = append(so.Rets, ret)
	}
	at := func(pos string, idx int) {
		for _, i := range byPos[fmt.Sprintf("%s:%d", pos, idx)] {
			execOp(i)
		}
	}
	poll := func() {
		flags := make([]bool, len(objs))
		for i, o := range objs {
			flags[i] = isClosed(o)
		}
		so.Polls = append(so.Polls, flags)
	}
	// window positions: a separate subscriber goroutine runs while the
	// transition's goroutine is parked at the schedule point
	m.VerifSetSched(func(point string) {
		switch point {
		case "tx:applied":
			j := len(obs.Txs)
			so.Applied = append(so.Applied, j)
			done := make(chan struct{})
			go func() { defer close(done); at("applied", j) }()
			<-done
		case "tx:subs":
			j := len(obs.Txs) - 1
			so.Subs = append(so.Subs, j)
			done := make(chan struct{})
			go func() { defer close(done); at("subs", j) }()
			<-done
			pendingCancel = false
		}
	})

	// ---- scripted, recording handlers (as runHistory)
	actIdx := 0
	nextAction := func() HAction {
		if actIdx < len(h.Actions) {
			a := h.Actions[actIdx]
			actIdx++
			return a
		}
		actIdx++
		return HAction{Ret: true}
	}
	activeIdx := func() []int { return idxOf(m.ActiveStates(nil)) }
	body := func(bi int, k HKey) bool {
		a := nextAction()
		e := HLog{Key: k, Binding: bi, Active: activeIdx(), Clock: cut(m.Time(nil), n0), Ret: a.Ret}
		pos := len(hlog)
		hlog = append(hlog, e)
		at("handler", pos)
		for _, c := range a.Calls {
			r := doCall(m, names, c)
			hlog[pos].Results = append(hlog[pos].Results, uint64(r))
		}
		switch a.Fault {
		case "panic":
			panic(errors.New("scripted panic"))
		case "panicval":
			panic("scripted panic value")
		}
		return a.Ret
	}
	for bi, b := range h.Bindings {
		neg := map[string]am.HandlerNegotiation{}
		fin := map[string]am.HandlerFinal{}
		for _, k := range b {
			k := k
			bi := bi
			if hkeyFinal(k) {
				fin[hkeyName(names, k)] = func(e *am.Event) { body(bi, k) }
			} else {
				neg[hkeyName(names, k)] = func(e *am.Event) bool { return body(bi, k) }
			}
		}
		if _, err := m.HandlersBindMaps(neg, fin); err != nil {
			obs.Err = "bind: " + err.Error()
			return
		}
	}
	errCode := func() int {
		e := m.Err()
		switch {
		case e == nil:
			return 0
		case errors.Is(e, errScripted):
			return 1
		case strings.Contains(e.Error(), "scripted panic"):
			return 2
		}
		return 3
	}
	for ci, c := range h.Calls {
		at("call", ci)
		if disposed {
			break
		}
		var res am.Result
		done := make(chan struct{})
		go func() {
			defer close(done)
			defer func() {
				if r := recover(); r != nil {
					obs.Crashed = true
					obs.CrashMsg = strings.SplitN(fmt.Sprint(r), "\n", 2)[0]
				}
			}()
			res = doCall(m, names, c)
		}()
		select {
		case <-done:
		case <-time.After(hangAfter):
			obs.Hung = true
		}
		if obs.Crashed || obs.Hung {
			break
		}
		obs.Calls = append(obs.Calls, HCallObs{Result: uint64(res), Time: cut(m.Time(nil), n0),
			Active: activeIdx(), QTick: m.QueueTick(), NTx: len(obs.Txs), Err: errCode()})
		poll()
	}
	if !disposed && !obs.Hung {
		at("call", len(obs.Calls))
	}
	poll()
	if !disposed {
	drainErrs:
		for {
			select {
			case <-m.ErrInternal():
				obs.InternalErrs++
			default:
				break drainErrs
			}
		}
	}
	obs.Events = events
	obs.HLog = hlog
	if !obs.Crashed && !obs.Hung && !disposed {
		obs.FinalTime = cut(m.Time(nil), n0)
	}
	return
}

// ------------------------------------------------------------ Gallina

func coqCtx(k int) string {
	if k <= 0 {
		return "None"
	}
	return fmt.Sprintf("(Some %d%%nat)", k)
}

func coqSop(op *C06Op, nop bool) string {
	if nop {
		return "ONop"
	}
	s0 := 0
	if len(op.States) > 0 {
		s0 = op.States[0]
	}
	switch op.Kind {
	case "when":
		return fmt.Sprintf("OWhen %s %s", coqNatList(op.States), coqCtx(op.Ctx))
	case "whennot":
		return fmt.Sprintf("OWhenNot %s %s", coqNatList(op.States), coqCtx(op.Ctx))
	case "whentime":
		return fmt.Sprintf("OWhenTime %s %s %s", coqNatList(op.States), coqNList(op.Times), coqCtx(op.Ctx))
	case "whenticks":
		return fmt.Sprintf("OWhenTicks %d%%nat %d%%N %s", s0, op.N, coqCtx(op.Ctx))
	case "whennext":
		return fmt.Sprintf("OWhenNextActive %d%%nat %s", s0, coqCtx(op.Ctx))
	case "whenquery":
		fn := map[string]string{"active": fmt.Sprintf("(QActive %d%%nat)", s0),
			"inactive": fmt.Sprintf("(QInactive %d%%nat)", s0),
			"tickge":   fmt.Sprintf("(QTickGe %d%%nat %d%%N)", s0, op.N),
			"never":    "QNever", "always": "QAlways"}[op.Fn]
		if fn == "" {
			fn = "QNever"
		}
		return fmt.Sprintf("OWhenQuery %s %s", fn, coqCtx(op.Ctx))
	case "whenqueue":
		return fmt.Sprintf("OWhenQueue %d%%N", op.N)
	case "whenqueueends":
		return "OWhenQueueEnds"
	case "statectx":
		return fmt.Sprintf("ONewStateCtx %d%%nat", s0)
	case "cancel":
		return fmt.Sprintf("OCancel %d%%nat", op.Ctx)
	case "setschema":
		return "OSetSchema"
	case "dispose":
		return "ODispose"
	}
	return "ONop"
}

func coqPos(op *C06Op) string {
	return map[string]string{"call": "PCall", "handler": "PHandler", "applied": "PApplied",
		"subs": "PSubs"}[op.Pos] + fmt.Sprintf(" %d%%nat", op.At)
}

func coqC06(in *C06Input, obs *HistObs, so *C06Obs) string {
	var b strings.Builder
	fmt.Fprintf(&b, "{| k_hist := %s;\n k_ops := %s;\n", coqHCase(&in.Hist, obs),
		joinMap(so.Rets, func(r C06Ret) string {
			op := &in.Ops[r.Op]
			return fmt.Sprintf("{| so_pos := %s; so_op := %s |}", coqPos(op), coqSop(op, r.Nop))
		}, "; "))
	fmt.Fprintf(&b, " o_rets := %s;\n", joinMap(so.Rets, func(r C06Ret) string {
		return fmt.Sprintf("{| oo_kind := %d%%N; oo_alias := %d%%nat; oo_closed0 := %s; oo_tick := %d%%N |}",
			r.Kind, r.Alias, coqBool(r.Closed0), r.Tick)
	}, "; "))
	n := len(so.Rets)
	fmt.Fprintf(&b, " o_polls := %s |}", joinMap(so.Polls, func(p []bool) string {
		// every poll is padded to the final number of ops (not yet executed = open)
		parts := make([]string, n)
		for i := range parts {
			parts[i] = coqBool(i < len(p) && p[i])
		}
		return "[" + strings.Join(parts, ";") + "]"
	}, ";\n   "))
	return b.String()
}

// ------------------------------------------------------------ generators

type c06Gen struct {
	kind    string
	grow    bool // SetSchema ops
	faults  bool // a panic in a final handler
	dispose bool
	bad     bool // undefined states, WhenQuery with a context
	reuse   bool // near-duplicate pending subscriptions (channel reuse)
	window  int  // share (%) of ops at handler / schedule-point positions
}

func c06GenCase(r *Rng, g c06Gen) *C06Input {
	o := GenOpt{MinStates: 2, MaxStates: 6, AutoPct: 20, MultiPct: 25, MinCalls: 2, MaxCalls: 14,
		Handlers: r.Chance(70), VetoPct: 35, NestedPct: 15, Checks: true, AddErr: r.Chance(30),
		QueueLimit: r.Chance(20), RelPct: 10}
	if g.faults {
		o.Handlers = true
	}
	var in *C06Input
	var dryH *HistObs
	var dryS *C06Obs
	for {
		in = &C06Input{Hist: *genHistory(r, o)}
		if g.faults {
			if len(in.Hist.Bindings) == 0 {
				continue
			}
		}
		dryH, dryS = c06Exec(in)
		if dryH.ParseErr != "" || dryH.Err != "" || dryH.Crashed || dryH.Hung {
			continue
		}
		if g.faults {
			// a panic in one of the final handlers that ran
			var finals []int
			for j, e := range dryH.HLog {
				if hkeyFinal(e.Key) {
					finals = append(finals, j)
				}
			}
			if len(finals) == 0 {
				continue
			}
			for len(in.Hist.Actions) < len(dryH.HLog)+4 {
				in.Hist.Actions = append(in.Hist.Actions, HAction{Ret: true})
			}
			in.Hist.Actions[finals[r.Intn(len(finals))]].Fault = "panic"
			dryH, dryS = c06Exec(in)
			if dryH.Crashed || dryH.Hung {
				continue
			}
		}
		break
	}
	h := &in.Hist
	n := len(h.States)
	nCalls, nH := len(dryH.Calls), len(dryH.HLog)
	maxTick, maxQ := uint64(1), uint64(1)
	for _, t := range dryH.FinalTime {
		maxTick = max(maxTick, t)
	}
	for _, c := range dryH.Calls {
		maxQ = max(maxQ, c.QTick)
	}
	for _, t := range dryH.Txs {
		maxQ = max(maxQ, t.QTick)
	}
	position := func(callOnly bool) (string, int) {
		if !callOnly && r.Chance(g.window) {
			switch r.Intn(3) {
			case 0:
				if nH > 0 {
					return "handler", r.Intn(nH)
				}
			case 1:
				if len(dryS.Applied) > 0 {
					return "applied", dryS.Applied[r.Intn(len(dryS.Applied))]
				}
			case 2:
				if len(dryS.Subs) > 0 {
					return "subs", dryS.Subs[r.Intn(len(dryS.Subs))]
				}
			}
		}
		return "call", r.Intn(nCalls + 1)
	}
	state := func() int {
		if r.Chance(6) {
			return n - 1 // Exception
		}
		return r.Intn(n - 1)
	}
	states := func() []int {
		k := 1
		if r.Chance(45) {
			k = r.Range(2, 3)
		}
		var ret []int
		for len(ret) < k && len(ret) < n {
			ret = appendUniq(ret, state())
		}
		if r.Chance(4) && len(ret) > 0 {
			ret = append(ret, ret[0]) // duplicate: mustParseStates dedups
		}
		return ret
	}
	ctx := func() int {
		if r.Chance(35) {
			return r.Range(1, 3)
		}
		return 0
	}
	nOps := r.Range(1, 12)
	kinds := []string{"when", "when", "when", "whennot", "whennot", "whentime", "whentime", "whenticks",
		"whennext", "whenquery", "whenquery", "whenqueue", "whenqueue", "whenqueueends", "statectx", "statectx",
		"cancel", "cancel"}
	for i := 0; i < nOps; i++ {
		op := C06Op{Kind: kinds[r.Intn(len(kinds))]}
		op.Pos, op.At = position(false)
		switch op.Kind {
		case "when", "whennot":
			op.States, op.Ctx = states(), ctx()
		case "whentime":
			k := 1
			if r.Chance(40) {
				k = 2
			}
			for len(op.States) < k && len(op.States) < n {
				op.States = appendUniq(op.States, state())
			}
			if r.Chance(8) && len(op.States) > 0 {
				// a duplicated state: WhenTime does not parse its states (the
				// hypothesis NoDup of whentime_partial; known finding 2:632)
				op.States = append(op.States, op.States[r.Intn(len(op.States))])
			}
			for range op.States {
				op.Times = append(op.Times, uint64(r.Intn(int(maxTick)+3)))
			}
			op.Ctx = ctx()
		case "whenticks":
			op.States, op.N, op.Ctx = []int{state()}, uint64(r.Intn(4)), ctx()
		case "whennext":
			op.States, op.Ctx = []int{state()}, ctx()
		case "whenquery":
			op.States = []int{state()}
			op.Fn = []string{"active", "inactive", "tickge", "tickge", "never", "always"}[r.Intn(6)]
			op.N = uint64(r.Intn(int(maxTick) + 3))
			op.Ctx = ctx()
		case "whenqueue":
			op.N = uint64(r.Range(1, int(maxQ)+3))
		case "whenqueueends":
			if r.Chance(70) && nH > 0 {
				op.Pos, op.At = "handler", r.Intn(nH)
			}
		case "statectx":
			op.States = []int{state()}
		case "cancel":
			op.Ctx = r.Range(1, 3)
		}
		in.Ops = append(in.Ops, op)
	}
	if g.reuse && n >= 3 {
		// near-duplicate PENDING subscriptions: the second call must get the first
		// one's channel exactly when it waits for the same condition with the same
		// context. Subscribed early (before the thresholds are reached), with
		// thresholds the tick history reaches asymmetrically.
		tickOf := func(x int) uint64 {
			if x < len(dryH.FinalTime) {
				return dryH.FinalTime[x]
			}
			return 0
		}
		early := func() int { return r.Intn(nCalls/2 + 1) }
		for i := 0; i < r.Range(1, 3); i++ {
			p := r.Perm(n - 1)
			x, y := p[0], p[1]
			if tickOf(x) < tickOf(y) {
				x, y = y, x // x ends with the higher tick
			}
			hi, lo := tickOf(x), tickOf(y)
			c1, c2 := ctx(), 0
			at1 := early()
			at2 := at1 + r.Intn(2)
			if at2 > nCalls {
				at2 = nCalls
			}
			var a, b C06Op
			switch r.Intn(7) {
			case 0: // same order: legitimate reuse
				k := []string{"when", "whennot"}[r.Intn(2)]
				a = C06Op{Kind: k, States: []int{x, y}, Ctx: c1}
				b = a
			case 1: // permuted order: the same condition for When / WhenNot
				k := []string{"when", "whennot"}[r.Intn(2)]
				a = C06Op{Kind: k, States: []int{x, y}, Ctx: c1}
				b = C06Op{Kind: k, States: []int{y, x}, Ctx: c1}
			case 2, 3: // WhenTime, permuted states, positionally identical non-uniform times:
				// x >= hi && y >= tl is reached, y >= hi && x >= tl is not (lo < hi)
				tl := uint64(1)
				if lo > 1 && r.Chance(50) {
					tl = lo
				}
				th := hi
				if th <= tl {
					th = tl + 1 + uint64(r.Intn(2))
				}
				a = C06Op{Kind: "whentime", States: []int{x, y}, Times: []uint64{th, tl}, Ctx: c1}
				b = C06Op{Kind: "whentime", States: []int{y, x}, Times: []uint64{th, tl}, Ctx: c1}
				if r.Chance(30) {
					b.Times = []uint64{tl, th} // the same condition written the other way round
				}
			case 4: // WhenTime, same states, different times
				t1, t2 := uint64(r.Intn(int(hi)+2)), uint64(r.Intn(int(lo)+2))
				a = C06Op{Kind: "whentime", States: []int{x, y}, Times: []uint64{t1 + 1, t2 + 1}, Ctx: c1}
				b = C06Op{Kind: "whentime", States: []int{x, y}, Times: []uint64{t1 + 1, t2 + 1 + uint64(r.Range(1, 2))}, Ctx: c1}
				if r.Chance(30) {
					b.Times = a.Times // legitimate reuse
				}
			default: // everything equal but the context (nil vs non-nil, or two contexts)
				k := []string{"when", "whennot", "whentime"}[r.Intn(3)]
				c1 = r.Intn(3) // 0 = nil
				c2 = r.Range(1, 3)
				a = C06Op{Kind: k, States: []int{x, y}, Ctx: c1}
				if k == "whentime" {
					a.Times = []uint64{hi + 1, lo + 1}
				}
				b = a
				b.States = []int{x, y}
				b.Ctx = c2
				// end the second context later, so that only its binding may close
				in.Ops = append(in.Ops, C06Op{Pos: "call", At: min(at2+1+r.Intn(2), nCalls), Kind: "cancel", Ctx: c2})
			}
			a.Pos, a.At = "call", at1
			b.Pos, b.At = "call", at2
			if r.Chance(50) {
				in.Ops = append(in.Ops, a, b)
			} else {
				// the pair first, whatever was generated afterwards
				in.Ops = append([]C06Op{a, b}, in.Ops...)
			}
		}
	}
	if g.bad {
		for i := 0; i < r.Range(1, 2); i++ {
			op := C06Op{Pos: "call", At: r.Intn(nCalls + 1)}
			switch r.Intn(3) {
			case 0:
				// WhenQuery with a context that is never cancelled (panicked before the
				// fix of whenQueryCtx)
				op.Kind, op.Fn, op.Ctx, op.States = "whenquery", []string{"never", "active"}[r.Intn(2)], 4, []int{0}
			case 1:
				op.Kind, op.States = []string{"when", "whennot"}[r.Intn(2)], []int{r.Intn(n), n + r.Intn(3)}
			case 2:
				op.Kind, op.States = "statectx", []int{n + r.Intn(3)}
			}
			in.Ops = append(in.Ops, op)
		}
	}
	if g.grow {
		for i := 0; i < r.Range(1, 2); i++ {
			in.Ops = append(in.Ops, C06Op{Pos: "call", At: r.Intn(nCalls + 1), Kind: "setschema"})
		}
		// subscriptions after the growth
		for i := 0; i < r.Range(1, 3); i++ {
			op := C06Op{Pos: "call", At: r.Intn(nCalls + 1), States: []int{state()}}
			switch r.Intn(4) {
			case 0:
				op.Kind, op.Times = "whentime", []uint64{uint64(r.Intn(int(maxTick) + 3))}
			case 1:
				op.Kind, op.N = "whenticks", uint64(r.Intn(3))
			case 2:
				op.Kind, op.Fn, op.N = "whenquery", []string{"active", "inactive", "tickge"}[r.Intn(3)], uint64(r.Intn(int(maxTick)+3))
			case 3:
				op.Kind = "statectx"
			}
			in.Ops = append(in.Ops, op)
		}
		// shuffle so that the growth is not always before the late subscriptions
		p := r.Perm(len(in.Ops))
		ops := make([]C06Op, len(in.Ops))
		for i, j := range p {
			ops[i] = in.Ops[j]
		}
		in.Ops = ops
	}
	if g.dispose {
		in.Ops = append(in.Ops, C06Op{Pos: "call", At: nCalls, Kind: "dispose"})
	}
	return in
}

// ------------------------------------------------------------ runner

func runC06(c *Ctx) error {
	out := NewOut(c.OutDir, "C06",
		"From Coq Require Import List NArith.\nFrom AMV Require Import Base.ListSet Model.Schema Model.Resolver Model.Machine Model.Subs Model.SubsTrace Run.EvalHist Spec.C06 Run.EvalC06.\nImport ListNotations.",
		"c06case", "EvalC06.check_all", 120)
	emit := func(kind string, in *C06Input) {
		obs, so := c06Exec(in)
		if obs.ParseErr != "" || obs.Err != "" {
			out.Count("skipped", "schema rejected")
			return
		}
		out.Count("user_states", fmt.Sprint(len(in.Hist.States)-1))
		out.Count("calls", bucket(len(in.Hist.Calls)))
		out.Count("transitions", bucket(len(obs.Txs)))
		out.Count("handler_calls", bucket(len(obs.HLog)))
		out.Count("ops_executed", bucket(len(so.Rets)))
		out.Count("ops_not_reached", bucket(len(in.Ops)-len(so.Rets)))
		nProc, nCanceled := 0, 0
		for _, t := range obs.Txs {
			if t.Accepted && !t.Check {
				nProc++
			} else {
				nCanceled++
			}
		}
		out.Count("processed_transitions", bucket(nProc))
		out.Count("canceled_or_check_transitions", bucket(nCanceled))
		last := []bool{}
		if len(so.Polls) > 0 {
			last = so.Polls[len(so.Polls)-1]
		}
		for i, r := range so.Rets {
			op := &in.Ops[r.Op]
			k := op.Kind
			if r.Nop {
				k = "cancel-suppressed"
			}
			out.Count("op_kind", k)
			out.Count("op_position", op.Pos)
			if r.Kind == 1 || r.Kind == 2 {
				out.Count("op_ctx", map[bool]string{true: "with ctx", false: "nil ctx"}[op.Ctx > 0])
				switch {
				case r.Closed0:
					out.Count("outcome", "closed at return")
				case i < len(last) && last[i]:
					out.Count("outcome", "closed later")
				default:
					out.Count("outcome", "open at the end")
				}
				if r.Kind == 1 && r.Alias != 0 && r.Alias != i+1 {
					out.Count("channel_reuse", "reused")
				}
			}
			if r.Kind == 3 {
				out.Count("outcome", "panic")
			}
		}
		if obs.Crashed {
			out.Count("crashed", "yes")
		}
		trivial := len(so.Rets) == 0 || len(obs.Txs) == 0
		out.Add(kind, in, map[string]any{"hist": obs, "subs": so}, coqC06(in, obs, so), trivial, "")
	}
	cases, replayOnly := c.loadCases()
	for _, cc := range cases {
		var in C06Input
		must(json.Unmarshal(cc.Input, &in))
		emit("corpus:"+cc.Name, &in)
	}
	if !replayOnly {
		gens := []c06Gen{
			{kind: "between-calls", window: 0},
			{kind: "window", window: 60},
			{kind: "window", window: 35},
			{kind: "between-calls", window: 0},
			{kind: "window", window: 50},
			{kind: "malformed", window: 10, bad: true},
			{kind: "window", window: 40},
			{kind: "setschema", window: 15, grow: true},
			{kind: "reuse", window: 10, reuse: true},
			{kind: "final-handler-fault", window: 25, faults: true},
			{kind: "reuse", window: 0, reuse: true},
		}
		n := c.N(2500, 60000)
		for i := 0; i < n; i++ {
			g := gens[i%len(gens)]
			if i%100 == 99 {
				g = c06Gen{kind: "dispose", window: 30, dispose: true}
			}
			emit(g.kind, c06GenCase(c.Rng, g))
		}
	}
	out.Close("random schemas (2-6 user states + Exception, relations, Auto, Multi) and histories (2-14 top-level calls, "+
		"scripted handlers with vetoes and nested mutations) with 1-12 subscription operations of all kinds (When, WhenNot, "+
		"WhenTime, WhenTicks, WhenNextActive, WhenQuery with the predicate as data, WhenQueue, WhenQueueEnds, NewStateCtx), "+
		"with and without one of three cancelable contexts, contexts cancelled at random positions (at most one between two "+
		"processSubscriptions runs: the expiry scan ranges over a Go map); a reuse stream subscribes near-duplicate pending "+
		"pairs (same / permuted state order, WhenTime with positionally identical non-uniform times on permuted states and "+
		"thresholds the tick history reaches asymmetrically, same states with different times, equal but for the context); positions: between top-level calls, at the start of a "+
		"handler invocation, and from a separate goroutine at the schedule points tx:applied / tx:subs; streams: malformed "+
		"(undefined states, WhenQuery with a context), SetSchema growth, a panic in a final handler, Dispose at the end (1%); "+
		"every returned channel / context is polled at return and after each top-level call; distinct by (input, observation); "+
		"non-trivial = at least one op executed and one transition", nil)
	return nil
}
