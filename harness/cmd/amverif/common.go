package main

// Shared infrastructure of the correspondence harness: deterministic PRNG,
// Gallina printers, shard writer, case log, summary.

import (
	"bufio"
	"crypto/sha256"
	"encoding/hex"
	"encoding/json"
	"fmt"
	"os"
	"path/filepath"
	"sort"
	"strings"
)

// ---------------------------------------------------------------- PRNG

// Rng is SplitMix64. Every random choice of a run derives from one state.
type Rng struct{ s uint64 }

// NewRng hashes the seed so that neighbouring seeds give unrelated streams.
func NewRng(seed uint64) *Rng {
	r := &Rng{s: seed ^ 0xA5A5A5A5DEADBEEF}
	a := r.U64()
	b := r.U64()
	return &Rng{s: a ^ (b << 1) ^ seed*0xD6E8FEB86659FD93}
}

func (r *Rng) U64() uint64 {
	r.s += 0x9E3779B97F4A7C15
	z := r.s
	z = (z ^ (z >> 30)) * 0xBF58476D1CE4E5B9
	z = (z ^ (z >> 27)) * 0x94D049BB133111EB
	return z ^ (z >> 31)
}

// Intn returns a value in [0,n).
func (r *Rng) Intn(n int) int {
	if n <= 0 {
		return 0
	}
	return int(r.U64() % uint64(n))
}

// Range returns a value in [lo,hi].
func (r *Rng) Range(lo, hi int) int { return lo + r.Intn(hi-lo+1) }

// Chance returns true with probability pct/100.
func (r *Rng) Chance(pct int) bool { return r.Intn(100) < pct }

// Fork derives an independent stream.
func (r *Rng) Fork() *Rng { return &Rng{s: r.U64()} }

// Subset returns each of 0..n-1 with probability pct/100, in order.
func (r *Rng) Subset(n, pct int) []int {
	var ret []int
	for i := 0; i < n; i++ {
		if r.Chance(pct) {
			ret = append(ret, i)
		}
	}
	return ret
}

// Perm returns a random permutation of 0..n-1.
func (r *Rng) Perm(n int) []int {
	p := make([]int, n)
	for i := range p {
		p[i] = i
	}
	for i := n - 1; i > 0; i-- {
		j := r.Intn(i + 1)
		p[i], p[j] = p[j], p[i]
	}
	return p
}

// ---------------------------------------------------------------- Gallina

func coqBool(b bool) string {
	if b {
		return "true"
	}
	return "false"
}

func coqN(v uint64) string { return fmt.Sprintf("%d", v) }

func coqNatList(xs []int) string {
	parts := make([]string, len(xs))
	for i, x := range xs {
		parts[i] = fmt.Sprintf("%d", x)
	}
	return "[" + strings.Join(parts, ";") + "]%nat"
}

func coqNList(xs []uint64) string {
	parts := make([]string, len(xs))
	for i, x := range xs {
		parts[i] = fmt.Sprintf("%d", x)
	}
	return "[" + strings.Join(parts, ";") + "]%N"
}

func coqList(parts []string) string {
	return "[" + strings.Join(parts, ";\n  ") + "]"
}

func coqOpt(some bool, v string) string {
	if !some {
		return "None"
	}
	return "(Some " + v + ")"
}

// ---------------------------------------------------------------- output

// Case is one generated (or corpus / replay) case. Coq is the Gallina term
// of the case (input + observation); Json is the replayable description.
type Case struct {
	Id      int             `json:"id"`
	Kind    string          `json:"kind"`
	Input   json.RawMessage `json:"input"`
	Obs     json.RawMessage `json:"obs,omitempty"`
	Coq     string          `json:"-"`
	Trivial bool            `json:"trivial"`
	Key     string          `json:"key"` // canonical form for distinctness
}

// Out collects cases into shards.
type Out struct {
	dir       string
	prop      string
	header    string // Coq header of every shard (imports)
	caseType  string
	checkFn   string
	shardSize int

	cur     []string
	prelude string // extra definitions emitted before `cases` in the following shards
	nShard  int
	nCases  int
	log     *bufio.Writer
	logF    *os.File
	keys    map[string]struct{}
	nontriv int
	kinds   map[string]int
	dist    map[string]map[string]int
	samples []json.RawMessage
}

func NewOut(dir, prop, header, caseType, checkFn string, shardSize int) *Out {
	must(os.MkdirAll(dir, 0o755))
	f, err := os.Create(filepath.Join(dir, "cases.jsonl"))
	must(err)
	return &Out{
		dir: dir, prop: prop, header: header, caseType: caseType,
		checkFn: checkFn, shardSize: shardSize,
		log: bufio.NewWriter(f), logF: f,
		keys: map[string]struct{}{}, kinds: map[string]int{},
		dist: map[string]map[string]int{},
	}
}

// Count records a value of a named input-distribution dimension.
func (o *Out) Count(dim, val string) {
	m := o.dist[dim]
	if m == nil {
		m = map[string]int{}
		o.dist[dim] = m
	}
	m[val]++
}

// Add appends a case. coq must be a term of the shard's case type without
// the id; the id is prepended as `(id%N, term)`.
func (o *Out) Add(kind string, input, obs any, coq string, trivial bool,
	key string,
) int {
	id := o.nCases
	o.nCases++
	in, err := json.Marshal(input)
	must(err)
	var ob json.RawMessage
	if obs != nil {
		ob, err = json.Marshal(obs)
		must(err)
	}
	if key == "" {
		h := sha256.Sum256(append(in, ob...))
		key = hex.EncodeToString(h[:8])
	}
	c := Case{Id: id, Kind: kind, Input: in, Obs: ob, Trivial: trivial,
		Key: key}
	line, err := json.Marshal(c)
	must(err)
	o.log.Write(line)
	o.log.WriteByte('\n')
	o.kinds[kind]++
	if _, ok := o.keys[key]; !ok {
		o.keys[key] = struct{}{}
		if !trivial {
			o.nontriv++
		}
	}
	if len(o.samples) < 3 && !trivial {
		s, _ := json.Marshal(map[string]any{"kind": kind, "input": json.RawMessage(in), "obs": ob})
		o.samples = append(o.samples, s)
	}
	o.cur = append(o.cur, fmt.Sprintf("(%d%%N, %s)", id, coq))
	if len(o.cur) >= o.shardSize {
		o.flush()
	}
	return id
}

func (o *Out) flush() {
	if len(o.cur) == 0 {
		return
	}
	var b strings.Builder
	b.WriteString(o.header)
	b.WriteString("\nSet Printing Width 1000000.\nSet Printing Depth 1000000.\n")
	b.WriteString(o.prelude)
	fmt.Fprintf(&b, "Definition cases : list (N * %s) :=\n  %s.\n",
		o.caseType, coqList(o.cur))
	fmt.Fprintf(&b, "Definition R := Eval vm_compute in (%s cases).\n",
		o.checkFn)
	b.WriteString("Print R.\n")
	name := filepath.Join(o.dir, fmt.Sprintf("cases_%s_%03d.v", o.prop,
		o.nShard))
	must(os.WriteFile(name, []byte(b.String()), 0o644))
	o.nShard++
	o.cur = nil
}

// SetPrelude starts a new shard whose cases may refer to the given
// definitions.
func (o *Out) SetPrelude(p string) {
	o.flush()
	o.prelude = p
}

// Close writes the last shard and summary.json.
func (o *Out) Close(rule string, extra map[string]any) {
	o.flush()
	o.log.Flush()
	o.logF.Close()
	dist := map[string]any{}
	for k, v := range o.dist {
		dist[k] = v
	}
	sum := map[string]any{
		"property":            o.prop,
		"evaluations":         o.nCases,
		"distinct_nontrivial": o.nontriv,
		"distinct":            len(o.keys),
		"rule":                rule,
		"kinds":               o.kinds,
		"distribution":        dist,
		"samples":             o.samples,
		"shards":              o.nShard,
	}
	for k, v := range extra {
		sum[k] = v
	}
	b, err := json.MarshalIndent(sum, "", " ")
	must(err)
	must(os.WriteFile(filepath.Join(o.dir, "summary.json"), b, 0o644))
}

func must(err error) {
	if err != nil {
		panic(err)
	}
}

func sortedKeys[M ~map[string]V, V any](m M) []string {
	ks := make([]string, 0, len(m))
	for k := range m {
		ks = append(ks, k)
	}
	sort.Strings(ks)
	return ks
}
