//go:build p_c08 || p_all

package main

// C08 — fault injection: a panic (error or non-error value) or a stall
// longer than HandlerTimeout at every handler position of generated
// histories, singly and in pairs.

import "fmt"

func init() {
	register("C08", func(c *Ctx) error {
		o := GenOpt{MinStates: 2, MaxStates: 6, AutoPct: 20, MultiPct: 25, MinCalls: 1, SuffixPct: 25,
			MaxCalls: 6, Handlers: true, VetoPct: 10, NestedPct: 10, AddErr: true, Checks: true}
		var pending []*HistInput
		var pendingKind []string
		gen := func(r *Rng) (string, *HistInput) {
			for len(pending) == 0 {
				base := genHistory(r, o)
				if len(base.Bindings) == 0 {
					continue
				}
				// make sure Exception has handlers sometimes (faults inside them)
				if r.Chance(30) {
					exc := len(base.States) - 1
					base.Bindings[0] = append(base.Bindings[0], HKey{K: "state", A: exc}, HKey{K: "enter", A: exc})
				}
				// two probe mutations at the end: the machine must live on
				n := len(base.States)
				base.Calls = append(base.Calls, HCall{Kind: "add", States: []int{r.Intn(n - 1)}},
					HCall{Kind: "remove", States: []int{r.Intn(n - 1)}})
				dry := runHistory(base)
				nh := len(dry.HLog)
				if dry.ParseErr != "" || nh == 0 || dry.Crashed {
					continue
				}
				// pad the script so every position has an explicit action
				for len(base.Actions) < nh+8 {
					base.Actions = append(base.Actions, HAction{Ret: true})
				}
				positions := r.Perm(nh)
				if len(positions) > 10 && !c.Thorough() {
					positions = positions[:10]
				}
				for _, p := range positions {
					fault := []string{"panic", "panic", "panicval", "panic"}[r.Intn(4)]
					kind := "single-" + fault
					cp := cloneHist(base)
					cp.Actions[p].Fault = fault
					if r.Chance(25) {
						q := r.Intn(nh + 4)
						cp.Actions[q].Fault = "panic"
						kind = "pair"
					}
					pending = append(pending, cp)
					pendingKind = append(pendingKind, kind)
				}
				// one stall per base history (wall-clock bound)
				if r.Chance(40) {
					cp := cloneHist(base)
					cp.Actions[r.Intn(nh)].Fault = "stall"
					pending = append(pending, cp)
					pendingKind = append(pendingKind, "single-stall")
				}
			}
			in, k := pending[0], pendingKind[0]
			pending, pendingKind = pending[1:], pendingKind[1:]
			return k, in
		}
		return runHistCases(c, "C08", "EvalC08", []func(r *Rng) (string, *HistInput){gen}, 700, 20000,
			"base histories (2-6 user states, 1-6 calls + 2 probe mutations, 1-3 handler bindings, Exception handlers "+
				"bound in 30%) are run fault-free to count the handler positions, then re-run with a panic (error or "+
				"non-error value) or a stall > HandlerTimeout injected at every position (quick: 10 positions per "+
				"history), 25% with a second fault; a watchdog turns a blocked call into the observable Hung, a recovered "+
				"panic of the caller into Crash; distinct by (input, observation); non-trivial = a fault was reached",
			func(in *HistInput, obs *HistObs, out *Out) {
				reached := "no"
				for j := range obs.HLog {
					if j < len(in.Actions) && in.Actions[j].Fault != "" {
						reached = in.Actions[j].Fault
						k := obs.HLog[j].Key.K
						out.Count("fault_position", k)
						break
					}
				}
				out.Count("fault_reached", reached)
				out.Count("hung", fmt.Sprint(obs.Hung))
			})
	})
}

func cloneHist(in *HistInput) *HistInput {
	cp := *in
	cp.Actions = append([]HAction{}, in.Actions...)
	return &cp
}
