//go:build p_c18 || p_all

package main

// C18 — pipes make the target follow the source.
// Two real machines piped with the real pkg/states/pipes. The target handed
// to the pipes is an am.Api proxy (it embeds the real *am.Machine) whose
// EvAdd/EvAdd1/EvRemove/EvRemove1 park the calling (forked) goroutine until
// the scheduler releases it, so the calls reach the target in exactly the
// order of the schedule the Coq model (Conc/Pipes.v) is run with. A tracer on
// the target holds chosen transitions at TransitionStart (target busy).

import (
	"context"
	"encoding/json"
	"fmt"
	"strings"
	"sync"
	"sync/atomic"
	"time"

	am "github.com/pancsta/asyncmachine-go/pkg/machine"
	"github.com/pancsta/asyncmachine-go/pkg/states/pipes"
)

type C18Step struct {
	// add | rem: source.Add1/Remove1; chk: source.CanAdd1/CanRemove1 (K);
	// veto: source.Add1/Remove1 (K) vetoed by a later-bound handler (Any:
	// AnyEnter, else the state's own Enter/Exit); bar: source.Add1(Bar) with
	// Bar = {Remove: state 0}, BarEnter vetoing when Veto, then Remove1(Bar);
	// del | rel | hold: schedule
	Op   string `json:"op"`
	St   int    `json:"st,omitempty"`
	Args bool   `json:"args,omitempty"`
	I    int    `json:"i,omitempty"`
	K    string `json:"k,omitempty"` // add | rem (chk, veto)
	Any  bool   `json:"any,omitempty"`
	Veto bool   `json:"veto,omitempty"`
}

type C18AnyOp struct {
	Op     string `json:"op"` // add | rem | set
	States []int  `json:"states"`
}

type C18Input struct {
	// bind | many | ready | conn | err | flat | any
	Variant string     `json:"variant"`
	N       int        `json:"n"`
	MultiS  []bool     `json:"multi_s"`
	MultiT  []bool     `json:"multi_t"`
	Parks   []bool     `json:"parks,omitempty"`
	Steps   []C18Step  `json:"steps,omitempty"`
	Sync    bool       `json:"sync,omitempty"`
	AnyOps  []C18AnyOp `json:"any_ops,omitempty"`
	// Split (variant many): the states are piped by TWO BindMany calls of the
	// same size (the helper derives the binding id from the size and the
	// target only): same expected behaviour as one call over all states
	Split bool `json:"split,omitempty"`
	// Decoy: a pipe of the same shape from the same source to a second target
	// is bound before the judged one (fan-out); the judged pipe must behave as
	// if it were alone
	Decoy bool `json:"decoy,omitempty"`
}

type C18Obs struct {
	Tail    []C18Step   `json:"tail,omitempty"` // steps the harness appended to reach quiescence
	SrcLog  []uint64    `json:"src_log"`
	DelLog  [][2]uint64 `json:"del_log"`
	Src     []uint64    `json:"src"`
	Tgt     []uint64    `json:"tgt"`
	NTx     int         `json:"ntx"`
	NParks  int         `json:"nparks"`
	Quiet   bool        `json:"quiet"`
	SyncTgt []uint64    `json:"sync_tgt,omitempty"`
	SyncRet int         `json:"sync_ret,omitempty"`
	EvLog   []uint64    `json:"ev_log,omitempty"`  // per source call: pipe handler invocations
	ChgLog  []bool      `json:"chg_log,omitempty"` // per source call: a piped source tick moved
	AnySrc  []bool      `json:"any_src,omitempty"`
	AnyTgt  []bool      `json:"any_tgt,omitempty"`
	AnyRes  []uint64    `json:"any_res,omitempty"`
	Err     string      `json:"err,omitempty"`
}

func init() { register("C18", runC18) }

// ---------------------------------------------------------------- proxy

const (
	c18EvParked = iota
	c18EvTgtParked
	c18EvDone
	c18EvSrcDone
	c18EvHoldDone
)

type c18Ev struct {
	typ int
	res am.Result
}

type c18Call struct {
	code    uint64
	slot    int
	release chan struct{}
}

type c18H struct {
	flat   bool
	tnames am.S
	mu     sync.Mutex
	parked []*c18Call
	delLog [][2]uint64
	ev     chan c18Ev

	// target tracer
	parks      []bool
	ntx        atomic.Int64
	nparks     atomic.Int64
	forcePark  atomic.Bool
	tracerOff  atomic.Bool
	tgtRelease chan struct{}
	aborted    atomic.Bool
}

type c18Proxy struct {
	*am.Machine
	h *c18H
}

const c18Panic = 1 << 40

func c18Class(r am.Result) uint64 {
	if r == am.Result(c18Panic) {
		return 7
	}
	if r == am.Executed {
		return 0
	}
	if r == am.Canceled {
		return 1
	}
	return 2
}

func (h *c18H) stIndex(states am.S) int {
	// the piped state is the last name (BindErr prepends Exception)
	name := states[len(states)-1]
	for i, n := range h.tnames {
		if n == name {
			return i
		}
	}
	return 99
}

func (h *c18H) gate(kind int, states am.S, args am.A, fn0 func() am.Result) am.Result {
	// a panic of the real call (e.g. unknown target state) is an observation
	fn := func() (res am.Result) {
		defer func() {
			if r := recover(); r != nil {
				res = am.Result(c18Panic)
			}
		}()
		return fn0()
	}
	a := uint64(0)
	if len(args) > 0 {
		a = 1
	}
	code := uint64(kind) + 2*a + 4*uint64(h.stIndex(states))
	if h.flat || h.aborted.Load() {
		// synchronous call from the source's final handler: never parked
		h.mu.Lock()
		slot := len(h.delLog)
		h.delLog = append(h.delLog, [2]uint64{code, 77})
		h.mu.Unlock()
		res := fn()
		h.mu.Lock()
		h.delLog[slot][1] = c18Class(res)
		h.mu.Unlock()
		return res
	}
	c := &c18Call{code: code, release: make(chan struct{})}
	h.mu.Lock()
	h.parked = append(h.parked, c)
	h.mu.Unlock()
	h.ev <- c18Ev{typ: c18EvParked}
	<-c.release
	if h.aborted.Load() {
		return am.Canceled
	}
	res := fn()
	h.mu.Lock()
	h.delLog[c.slot][1] = c18Class(res)
	h.mu.Unlock()
	h.ev <- c18Ev{typ: c18EvDone}
	return res
}

func (p *c18Proxy) EvAdd(e *am.Event, states am.S, args am.A) am.Result {
	return p.h.gate(0, states, args, func() am.Result { return p.Machine.EvAdd(e, states, args) })
}

func (p *c18Proxy) EvAdd1(e *am.Event, state string, args am.A) am.Result {
	return p.h.gate(0, am.S{state}, args, func() am.Result { return p.Machine.EvAdd1(e, state, args) })
}

func (p *c18Proxy) EvRemove(e *am.Event, states am.S, args am.A) am.Result {
	return p.h.gate(1, states, args, func() am.Result { return p.Machine.EvRemove(e, states, args) })
}

func (p *c18Proxy) EvRemove1(e *am.Event, state string, args am.A) am.Result {
	return p.h.gate(1, am.S{state}, args, func() am.Result { return p.Machine.EvRemove1(e, state, args) })
}

type c18Tracer struct {
	*am.TracerNoOp
	h *c18H
}

func (t *c18Tracer) TransitionStart(tx *am.Transition) {
	h := t.h
	if h.tracerOff.Load() || h.aborted.Load() {
		return
	}
	n := int(h.ntx.Add(1)) - 1
	park := h.forcePark.Swap(false) || (n < len(h.parks) && h.parks[n])
	if !park {
		return
	}
	h.nparks.Add(1)
	h.ev <- c18Ev{typ: c18EvTgtParked}
	<-h.tgtRelease
}

// c18SrcTracer counts the invocations of the pipes' own handlers on the
// source (whatever their names): every one of them forks one goroutine for a
// non-flat pipe.
type c18SrcTracer struct {
	*am.TracerNoOp
	starts atomic.Int64
}

func (t *c18SrcTracer) HandlerStart(tx *am.Transition, emitter string, handler string) {
	if (strings.HasPrefix(emitter, "Bind") && !strings.Contains(emitter, "c18-dcy")) || emitter == "c18-flat" {
		t.starts.Add(1)
	}
}

// ---------------------------------------------------------------- exec

func c18Names(in *C18Input) (src, tgt am.S) {
	switch in.Variant {
	case "ready":
		src = am.S{"Ready"}
	case "conn":
		src = am.S{"Disconnected", "Connecting", "Connected", "Disconnecting"}
	case "err":
		return am.S{am.StateException}, am.S{am.StateException}
	default:
		for i := 0; i < in.N; i++ {
			src = append(src, fmt.Sprintf("S%d", i))
		}
	}
	for i := range src {
		tgt = append(tgt, fmt.Sprintf("T%d", i))
	}
	return src, tgt
}

func c18Flag(l []bool, i int) bool { return i < len(l) && l[i] }

func c18Exec(in *C18Input) *C18Obs {
	if in.Variant == "any" {
		return c18ExecAny(in)
	}
	obs := &C18Obs{SrcLog: []uint64{}, DelLog: [][2]uint64{}}
	snames, tnames := c18Names(in)
	n := len(snames)
	if n != in.N || (in.Variant == "err" && !(c18Flag(in.MultiS, 0) && c18Flag(in.MultiT, 0))) {
		obs.Err = "bad input"
		return obs
	}
	sschema, tschema := am.Schema{}, am.Schema{}
	for i := 0; i < n; i++ {
		if snames[i] != am.StateException {
			sschema[snames[i]] = am.State{Multi: c18Flag(in.MultiS, i)}
			tschema[tnames[i]] = am.State{Multi: c18Flag(in.MultiT, i)}
		}
	}
	tschema["H"] = am.State{Multi: true}
	sschema["Bar"] = am.State{Remove: am.S{snames[0]}}
	h := &c18H{flat: in.Variant == "flat", tnames: tnames, parks: in.Parks,
		ev: make(chan c18Ev, 1024), tgtRelease: make(chan struct{})}
	ctx, cancel := context.WithCancel(context.Background())
	defer cancel()
	str := &c18SrcTracer{TracerNoOp: &am.TracerNoOp{Id: "c18s"}}
	source := am.New(ctx, sschema, &am.Opts{Id: "c18-src", HandlerTimeout: 20 * time.Second,
		Tracers: []am.Tracer{str}})
	tr := &c18Tracer{TracerNoOp: &am.TracerNoOp{Id: "c18"}, h: h}
	target := am.New(ctx, tschema, &am.Opts{Id: "c18-tgt", HandlerTimeout: 20 * time.Second,
		Tracers: []am.Tracer{tr}})
	defer func() {
		h.aborted.Store(true)
		source.Dispose()
		target.Dispose()
	}()
	proxy := &c18Proxy{Machine: target, h: h}
	var api am.Api = proxy

	var err error
	if in.Decoy && in.Variant != "flat" {
		// fan-out: a pipe of the SAME shape from the same source to another
		// target, bound first. It must not change what the judged pipe delivers
		// (the helpers build their handler structs from identical field lists,
		// so both bindings have the same Go type).
		decoy := am.New(ctx, tschema, &am.Opts{Id: "c18-dcy", HandlerTimeout: 20 * time.Second})
		defer decoy.Dispose()
		switch in.Variant {
		case "bind":
			for i := 0; i < n && err == nil; i++ {
				_, err = pipes.Bind(source, decoy, snames[i], tnames[i], "")
			}
		case "many":
			if in.Split && n >= 2 {
				h2 := n / 2
				_, err = pipes.BindMany(source, decoy, snames[:h2], tnames[:h2])
				if err == nil {
					_, err = pipes.BindMany(source, decoy, snames[h2:n], tnames[h2:n])
				}
			} else {
				_, err = pipes.BindMany(source, decoy, snames, tnames)
			}
		case "ready":
			_, err = pipes.BindReady(source, decoy, tnames[0], "")
		case "conn":
			_, err = pipes.BindConnected(source, decoy, tnames[0], tnames[1], tnames[2], tnames[3])
		case "err":
			_, err = pipes.BindErr(source, decoy, "")
		}
		if err != nil {
			obs.Err = "bind decoy: " + err.Error()
			return obs
		}
	}
	switch in.Variant {
	case "bind":
		for i := 0; i < n && err == nil; i++ {
			_, err = pipes.Bind(source, api, snames[i], tnames[i], "")
		}
	case "many":
		if in.Split && n >= 2 {
			h2 := n / 2
			_, err = pipes.BindMany(source, api, snames[:h2], tnames[:h2])
			if err == nil {
				_, err = pipes.BindMany(source, api, snames[h2:n], tnames[h2:n])
			}
		} else {
			_, err = pipes.BindMany(source, api, snames, tnames)
		}
	case "ready":
		_, err = pipes.BindReady(source, api, tnames[0], "")
	case "conn":
		_, err = pipes.BindConnected(source, api, tnames[0], tnames[1], tnames[2], tnames[3])
	case "err":
		_, err = pipes.BindErr(source, api, "")
	case "flat":
		fin := map[string]am.HandlerFinal{}
		for i := 0; i < n; i++ {
			fin[snames[i]+am.SuffixState] = pipes.AddFlat(source, api, snames[i], tnames[i])
			fin[snames[i]+am.SuffixEnd] = pipes.RemoveFlat(source, api, snames[i], tnames[i])
		}
		_, err = source.HandlersBindMaps(nil, fin, am.BindOpts{Id: "c18-flat"})
	default:
		err = fmt.Errorf("unknown variant %s", in.Variant)
	}
	if err != nil {
		obs.Err = "bind: " + err.Error()
		return obs
	}
	// handlers bound AFTER the pipe: scripted vetoes
	var vetoState atomic.Int64 // 1 + index of the state whose Enter/Exit says no
	var vetoAny, vetoBar atomic.Bool
	neg := map[string]am.HandlerNegotiation{
		"AnyEnter": func(e *am.Event) bool { return !vetoAny.Load() },
		"BarEnter": func(e *am.Event) bool { return !vetoBar.Load() },
	}
	for i := 0; i < n; i++ {
		i := i
		f := func(e *am.Event) bool { return vetoState.Load() != int64(i+1) }
		neg[snames[i]+am.SuffixEnter] = f
		neg[snames[i]+am.SuffixExit] = f
	}
	if _, err = source.HandlersBindMaps(neg, nil); err != nil {
		obs.Err = "bind: " + err.Error()
		return obs
	}
	pipedTicks := func() []uint64 {
		ret := make([]uint64, n)
		for i := 0; i < n; i++ {
			ret[i] = source.Tick(snames[i])
		}
		return ret
	}

	running := 0
	parkedSeen := 0
	tgtParked := false
	srcInFlight := false
	srcSlot := -1
	srcScripted := false
	expected := func() int {
		if h.flat {
			return 0
		}
		return int(str.starts.Load())
	}
	settle := func() bool {
		for running > 0 || parkedSeen < expected() {
			select {
			case ev := <-h.ev:
				switch ev.typ {
				case c18EvParked:
					parkedSeen++
				case c18EvTgtParked:
					running--
					tgtParked = true
				case c18EvDone, c18EvHoldDone:
					running--
				case c18EvSrcDone:
					running--
					srcInFlight = false
					cl := c18Class(ev.res)
					if cl == 0 && obs.SrcLog[srcSlot] == 3 {
						cl = 3
					}
					if cl == 1 && srcScripted {
						cl = 4 // canceled by the step's own veto
					}
					obs.SrcLog[srcSlot] = cl
				}
			case <-time.After(5 * time.Second):
				obs.Err = fmt.Sprintf("stuck: running=%d parked=%d expected=%d", running, parkedSeen, expected())
				return false
			}
		}
		return true
	}
	doStep := func(st C18Step) bool {
		switch st.Op {
		case "add", "rem", "chk", "veto", "bar":
			if srcInFlight {
				obs.SrcLog = append(obs.SrcLog, 9)
				obs.EvLog = append(obs.EvLog, 0)
				obs.ChgLog = append(obs.ChgLog, false)
				return true
			}
			if st.St < 0 || st.St >= n {
				obs.Err = "bad state index"
				return false
			}
			var args am.A
			if st.Args {
				args = am.A{"x": 1}
			}
			name := snames[st.St]
			add := st.Op == "add" || st.K == "add"
			var call func() am.Result
			srcScripted = false
			switch st.Op {
			case "add", "rem":
				call = func() am.Result {
					if add {
						return source.Add1(name, args)
					}
					return source.Remove1(name, args)
				}
			case "chk":
				call = func() am.Result {
					if add {
						return source.CanAdd1(name, nil)
					}
					return source.CanRemove1(name, nil)
				}
			case "veto":
				srcScripted = true
				sti := int64(st.St + 1)
				anyv := st.Any
				call = func() am.Result {
					if anyv {
						vetoAny.Store(true)
					} else {
						vetoState.Store(sti)
					}
					defer vetoAny.Store(false)
					defer vetoState.Store(0)
					if add {
						return source.Add1(name, args)
					}
					return source.Remove1(name, args)
				}
			case "bar":
				srcScripted = st.Veto
				veto := st.Veto
				call = func() am.Result {
					vetoBar.Store(veto)
					defer vetoBar.Store(false)
					res := source.Add1("Bar", nil)
					if res == am.Executed {
						source.Remove1("Bar", nil)
					}
					return res
				}
			}
			srcSlot = len(obs.SrcLog)
			obs.SrcLog = append(obs.SrcLog, 0)
			before := pipedTicks()
			ev0 := str.starts.Load()
			srcInFlight = true
			running++
			go func() {
				res := call()
				h.ev <- c18Ev{typ: c18EvSrcDone, res: res}
			}()
			if !settle() {
				return false
			}
			if srcInFlight {
				obs.SrcLog[srcSlot] = 3 // the source call is stuck inside the target
			}
			after := pipedTicks()
			chg := false
			for i := range after {
				chg = chg || after[i] != before[i]
			}
			obs.EvLog = append(obs.EvLog, uint64(str.starts.Load()-ev0))
			obs.ChgLog = append(obs.ChgLog, chg)
		case "del":
			h.mu.Lock()
			if st.I < 0 || st.I >= len(h.parked) {
				h.mu.Unlock()
				return true
			}
			c := h.parked[st.I]
			h.parked = append(h.parked[:st.I:st.I], h.parked[st.I+1:]...)
			c.slot = len(h.delLog)
			h.delLog = append(h.delLog, [2]uint64{c.code, 77})
			h.mu.Unlock()
			running++
			close(c.release)
			return settle()
		case "rel":
			if !tgtParked {
				return true
			}
			tgtParked = false
			running++
			h.tgtRelease <- struct{}{}
			return settle()
		case "hold":
			if tgtParked {
				return true
			}
			h.forcePark.Store(true)
			running++
			go func() {
				target.Add1("H", nil)
				h.ev <- c18Ev{typ: c18EvHoldDone}
			}()
			return settle()
		default:
			obs.Err = "bad step " + st.Op
			return false
		}
		return true
	}
	ok := true
	for _, st := range in.Steps {
		if ok = doStep(st); !ok {
			break
		}
	}
	// drive to joint quiescence: finish the held transition, then deliver
	// the remaining calls oldest first
	for ok {
		var st C18Step
		h.mu.Lock()
		np := len(h.parked)
		h.mu.Unlock()
		if tgtParked {
			st = C18Step{Op: "rel"}
		} else if np > 0 {
			st = C18Step{Op: "del", I: 0}
		} else {
			break
		}
		obs.Tail = append(obs.Tail, st)
		ok = doStep(st)
	}
	if !ok {
		// let every goroutine go
		h.aborted.Store(true)
		h.mu.Lock()
		for _, c := range h.parked {
			close(c.release)
		}
		h.parked = nil
		h.mu.Unlock()
		close(h.tgtRelease)
		return obs
	}
	h.mu.Lock()
	obs.DelLog = append(obs.DelLog, h.delLog...)
	h.mu.Unlock()
	obs.Quiet = !srcInFlight && !tgtParked && source.QueueLen() == 0 && target.QueueLen() == 0 &&
		source.Transition() == nil && target.Transition() == nil && parkedSeen == expected()
	for i := 0; i < n; i++ {
		obs.Src = append(obs.Src, source.Tick(snames[i]))
		obs.Tgt = append(obs.Tgt, target.Tick(tnames[i]))
	}
	obs.NTx = int(h.ntx.Load())
	obs.NParks = int(h.nparks.Load())
	if in.Sync {
		h.tracerOff.Store(true)
		obs.SyncRet = pipes.Sync(source, api, snames, tnames)
		for i := 0; i < n; i++ {
			obs.SyncTgt = append(obs.SyncTgt, target.Tick(tnames[i]))
		}
	}
	return obs
}

func c18ExecAny(in *C18Input) *C18Obs {
	obs := &C18Obs{}
	names := am.S{}
	schema := am.Schema{}
	for i := 0; i < in.N; i++ {
		nm := fmt.Sprintf("A%d", i)
		names = append(names, nm)
		schema[nm] = am.State{Multi: c18Flag(in.MultiS, i)}
	}
	ctx, cancel := context.WithCancel(context.Background())
	defer cancel()
	source := am.New(ctx, schema, &am.Opts{Id: "c18-src", HandlerTimeout: 20 * time.Second})
	target := am.New(ctx, schema, &am.Opts{Id: "c18-tgt", HandlerTimeout: 20 * time.Second})
	defer func() {
		source.Dispose()
		target.Dispose()
	}()
	if _, err := pipes.BindAny(source, target); err != nil {
		obs.Err = "bind: " + err.Error()
		return obs
	}
	for _, op := range in.AnyOps {
		sts := am.S{}
		for _, i := range op.States {
			if i < 0 || i >= in.N {
				obs.Err = "bad state index"
				return obs
			}
			sts = append(sts, names[i])
		}
		var res am.Result
		done := make(chan struct{})
		go func() {
			defer close(done)
			switch op.Op {
			case "add":
				res = source.Add(sts, nil)
			case "rem":
				res = source.Remove(sts, nil)
			default:
				res = source.Set(sts, nil)
			}
		}()
		select {
		case <-done:
		case <-time.After(5 * time.Second):
			obs.Err = "source call did not return"
			return obs
		}
		obs.AnyRes = append(obs.AnyRes, c18Class(res))
	}
	for i := 0; i < in.N; i++ {
		obs.AnySrc = append(obs.AnySrc, source.Is1(names[i]))
		obs.AnyTgt = append(obs.AnyTgt, target.Is1(names[i]))
	}
	obs.Quiet = source.QueueLen() == 0 && target.QueueLen() == 0
	return obs
}

// ---------------------------------------------------------------- Gallina

func coqBoolList(xs []bool) string {
	parts := make([]string, len(xs))
	for i, x := range xs {
		parts[i] = coqBool(x)
	}
	return "[" + strings.Join(parts, ";") + "]"
}

func c18CoqSteps(steps []C18Step) string {
	parts := make([]string, len(steps))
	for i, s := range steps {
		switch s.Op {
		case "add":
			parts[i] = fmt.Sprintf("SSrc MAdd %d %s", s.St, coqBool(s.Args))
		case "rem":
			parts[i] = fmt.Sprintf("SSrc MRem %d %s", s.St, coqBool(s.Args))
		case "chk":
			parts[i] = fmt.Sprintf("SChk %s %d", map[bool]string{true: "MAdd", false: "MRem"}[s.K == "add"], s.St)
		case "veto":
			parts[i] = fmt.Sprintf("SVeto %s %s %d %s", coqBool(s.Any),
				map[bool]string{true: "MAdd", false: "MRem"}[s.K == "add"], s.St, coqBool(s.Args))
		case "bar":
			parts[i] = fmt.Sprintf("SBar %s", coqBool(s.Veto))
		case "del":
			parts[i] = fmt.Sprintf("SDel %d", s.I)
		case "rel":
			parts[i] = "SRel"
		default:
			parts[i] = "SHold"
		}
	}
	return "[" + strings.Join(parts, ";") + "]"
}

func c18Coq(in *C18Input, obs *C18Obs) string {
	if in.Variant == "any" {
		ops := make([]string, len(in.AnyOps))
		for i, o := range in.AnyOps {
			c := map[string]string{"add": "AAdd", "rem": "ARem", "set": "ASet"}[o.Op]
			ops[i] = fmt.Sprintf("%s %s", c, coqNatList(o.States))
		}
		return fmt.Sprintf("KAny {| a_n := %d; a_ops := [%s]; oa_res := %s; oa_src := %s; oa_tgt := %s; oa_ok := %s |}",
			in.N, strings.Join(ops, ";"), coqNList(obs.AnyRes), coqBoolList(obs.AnySrc),
			coqBoolList(obs.AnyTgt), coqBool(obs.Err == "" && obs.Quiet))
	}
	dl := make([]string, len(obs.DelLog))
	for i, d := range obs.DelLog {
		dl[i] = fmt.Sprintf("(%d,%d)", d[0], d[1])
	}
	steps := append(append([]C18Step{}, in.Steps...), obs.Tail...)
	return fmt.Sprintf("KPipe {| k_cfg := {| p_flat := %s; p_addonly := %s; p_n := %d; p_multiS := %s; p_multiT := %s; p_parks := %s |}; "+
		"k_steps := %s; k_sync := %s; o_ok := %s; o_srclog := %s; o_dellog := [%s]%%N; o_src := %s; o_tgt := %s; "+
		"o_ntx := %d; o_nparks := %d; o_quiet := %s; o_sync := %s; o_evlog := %s; o_chglog := %s |}",
		coqBool(in.Variant == "flat"), coqBool(in.Variant == "err"), in.N, coqBoolList(in.MultiS),
		coqBoolList(in.MultiT), coqBoolList(in.Parks), c18CoqSteps(steps), coqBool(in.Sync),
		coqBool(obs.Err == ""), coqNList(obs.SrcLog), strings.Join(dl, ";"), coqNList(obs.Src),
		coqNList(obs.Tgt), obs.NTx, obs.NParks, coqBool(obs.Quiet), coqNList(obs.SyncTgt),
		coqNList(obs.EvLog), coqBoolList(obs.ChgLog))
}

// ---------------------------------------------------------------- generators

func c18GenPipe(r *Rng, variant string, mode int) *C18Input {
	in := &C18Input{Variant: variant}
	switch variant {
	case "ready", "err":
		in.N = 1
	case "conn":
		in.N = 4
	default:
		in.N = r.Range(1, 3)
	}
	if variant != "flat" && variant != "any" && r.Chance(35) {
		in.Decoy = true
	}
	if variant == "many" && r.Chance(40) {
		in.Split = true
		in.N = []int{2, 2, 4}[r.Intn(3)]
	}
	for i := 0; i < in.N; i++ {
		ms, mt := false, false
		if variant != "err" {
			ms, mt = r.Chance(25), r.Chance(25)
		} else {
			ms, mt = true, true // Exception is a Multi state
		}
		in.MultiS = append(in.MultiS, ms)
		in.MultiT = append(in.MultiT, mt)
	}
	flat := variant == "flat"
	// mode 0: idle target, deliveries oldest-first; 1: idle target, any
	// order; 2: busy target (holds, held transitions), oldest-first;
	// 3: everything
	// 4: busy target, every call delivered right behind its source call
	busy := mode >= 2
	reorder := mode == 1 || mode == 3
	eager := mode == 4
	vetoes := r.Chance(60)
	burst := r.Range(1, 20)
	if busy {
		np := r.Range(1, 12)
		for i := 0; i < np; i++ {
			in.Parks = append(in.Parks, r.Chance(map[bool]int{true: 50, false: 35}[eager]))
		}
	}
	inflight := 0
	srcAct := make([]bool, in.N)
	issued := 0
	for issued < burst {
		x := r.Intn(100)
		switch {
		case eager && !flat && inflight > 0 && x < 85:
			in.Steps = append(in.Steps, C18Step{Op: "del"})
			inflight--
		case busy && x < 10:
			in.Steps = append(in.Steps, C18Step{Op: "hold"})
		case busy && x < 30 && !(eager && x < 22):
			in.Steps = append(in.Steps, C18Step{Op: "rel"})
		case !flat && x < 55 && inflight > 0:
			i := 0
			if reorder {
				i = r.Intn(inflight)
			}
			in.Steps = append(in.Steps, C18Step{Op: "del", I: i})
			inflight--
		case vetoes && x >= 80:
			// source-side calls that must NOT produce a pipe event
			st := r.Intn(in.N)
			k := "add"
			if srcAct[st] != r.Chance(20) {
				k = "rem"
			}
			kind := r.Intn(4)
			if variant == "err" && kind == 3 {
				kind = 0 // a relation does not remove Exception
			}
			switch kind {
			case 0:
				in.Steps = append(in.Steps, C18Step{Op: "chk", K: k, St: st})
			case 1, 2:
				in.Steps = append(in.Steps, C18Step{Op: "veto", K: k, St: st, Any: r.Chance(40), Args: r.Chance(15)})
			default:
				veto := r.Chance(60)
				in.Steps = append(in.Steps, C18Step{Op: "bar", Veto: veto})
				if !veto {
					if srcAct[0] && variant != "err" {
						inflight++
					}
					srcAct[0] = false
				}
			}
			issued++
		default:
			st := r.Intn(in.N)
			op := "add"
			// mostly real toggles, sometimes a redundant call
			if srcAct[st] != r.Chance(15) {
				op = "rem"
			}
			in.Steps = append(in.Steps, C18Step{Op: op, St: st, Args: r.Chance(15)})
			if op == "add" && (!srcAct[st] || in.MultiS[st]) {
				inflight++
			}
			if op == "rem" && srcAct[st] && variant != "err" {
				inflight++
			}
			srcAct[st] = op == "add"
			issued++
		}
	}
	// the rest: sometimes left to the harness (oldest first), else shuffled
	if !flat && reorder {
		for inflight > 0 && r.Chance(80) {
			in.Steps = append(in.Steps, C18Step{Op: "del", I: r.Intn(inflight)})
			inflight--
			if busy && r.Chance(30) {
				in.Steps = append(in.Steps, C18Step{Op: "rel"})
			}
		}
	}
	in.Sync = r.Chance(20)
	return in
}

func c18GenAny(r *Rng) *C18Input {
	in := &C18Input{Variant: "any", N: r.Range(1, 4)}
	for i := 0; i < in.N; i++ {
		in.MultiS = append(in.MultiS, r.Chance(20))
	}
	addsOnly := r.Chance(25)
	k := r.Range(1, 12)
	for i := 0; i < k; i++ {
		op := []string{"add", "add", "rem", "rem", "set"}[r.Intn(5)]
		if addsOnly {
			op = "add"
		}
		sts := r.Subset(in.N, 45)
		if len(sts) == 0 && op != "set" {
			sts = []int{r.Intn(in.N)}
		}
		in.AnyOps = append(in.AnyOps, C18AnyOp{Op: op, States: sts})
	}
	return in
}

// ---------------------------------------------------------------- runner

func runC18(c *Ctx) error {
	out := NewOut(c.OutDir, "C18",
		"From Coq Require Import List NArith.\nFrom AMV Require Import Conc.Pipes Run.EvalC18.\nImport ListNotations.\nOpen Scope N_scope.",
		"c18case", "check_all", 1500)

	emit := func(kind string, in *C18Input) {
		obs := c18Exec(in)
		out.Count("variant", in.Variant)
		out.Count("split_bindmany", fmt.Sprint(in.Split))
		out.Count("decoy_fanout", fmt.Sprint(in.Decoy))
		if in.Variant == "any" {
			out.Count("any_ops", fmt.Sprint(len(in.AnyOps)))
			same := fmt.Sprint(obs.AnySrc) == fmt.Sprint(obs.AnyTgt)
			out.Count("outcome", map[bool]string{true: "follows", false: "differs"}[same])
			out.Add(kind, in, obs, c18Coq(in, obs), len(in.AnyOps) == 0, "")
			return
		}
		nsrc, ndel, nrel, nhold, nside, reord := 0, 0, 0, 0, 0, false
		for _, s := range in.Steps {
			switch s.Op {
			case "add", "rem":
				nsrc++
			case "chk", "veto", "bar":
				nsrc++
				nside++
			case "del":
				ndel++
				if s.I > 0 {
					reord = true
				}
			case "rel":
				nrel++
			case "hold":
				nhold++
			}
		}
		out.Count("burst", fmt.Sprint(nsrc))
		out.Count("states", fmt.Sprint(in.N))
		out.Count("checks_vetoes_relation_removals", map[bool]string{true: "some", false: "none"}[nside > 0])
		out.Count("delivery", map[bool]string{true: "reordered", false: "oldest-first"}[reord])
		out.Count("target", map[bool]string{true: "held at least once", false: "never held"}[obs.NParks > 0])
		ms, mt := false, false
		for i := 0; i < in.N; i++ {
			ms = ms || c18Flag(in.MultiS, i)
			mt = mt || c18Flag(in.MultiT, i)
		}
		out.Count("multi", fmt.Sprintf("src=%v tgt=%v", ms, mt))
		follows := obs.Err == "" && len(obs.Src) == len(obs.Tgt)
		for i := range obs.Src {
			if i < len(obs.Tgt) && obs.Src[i]%2 != obs.Tgt[i]%2 {
				follows = false
			}
		}
		oc := "follows"
		if obs.Err != "" {
			oc = "harness error"
		} else if !follows {
			oc = "differs"
		}
		out.Count("outcome", oc)
		blocked := false
		for _, x := range obs.SrcLog {
			if x == 3 {
				blocked = true
			}
		}
		out.Count("source_stuck_in_target", fmt.Sprint(blocked))
		out.Add(kind, in, obs, c18Coq(in, obs), nsrc == 0, "")
	}

	cases, replayOnly := c.loadCases()
	for _, cc := range cases {
		var in C18Input
		must(json.Unmarshal(cc.Input, &in))
		emit("corpus:"+cc.Name, &in)
	}
	if replayOnly {
		out.Close("replay", nil)
		return nil
	}

	r := c.Rng
	// exhaustive small scope: one state, bursts of two source calls, every
	// delivery order
	for _, v := range []string{"bind", "flat"} {
		for a := 0; a < 4; a++ {
			for m := 0; m < 4; m++ {
				ops := []string{"add", "rem"}
				base := []C18Step{{Op: ops[a&1]}, {Op: ops[a>>1]}}
				for ord := 0; ord < 2; ord++ {
					in := &C18Input{Variant: v, N: 1, MultiS: []bool{m&1 != 0}, MultiT: []bool{m&2 != 0}}
					in.Steps = append(in.Steps, base...)
					if ord == 1 {
						in.Steps = append(in.Steps, C18Step{Op: "del", I: 1})
					}
					emit("exhaustive", in)
				}
			}
		}
	}
	variants := []string{"bind", "bind", "many", "many", "flat", "flat", "ready", "conn", "err"}
	nPipe := c.N(1400, 40000)
	for i := 0; i < nPipe; i++ {
		v := variants[r.Intn(len(variants))]
		emit("generated", c18GenPipe(r, v, r.Intn(5)))
	}
	nAny := c.N(300, 8000)
	for i := 0; i < nAny; i++ {
		emit("generated", c18GenAny(r))
	}
	out.Close("model = implementation on final clocks, call results, transition counts for the forced delivery order; "+
		"property: target parity = source parity at joint quiescence, source never stuck/canceled, BindAny sets equal", nil)
	return nil
}
