//go:build p_c16 || p_all

package main

// C16 — the debugger shows each transition as it happened and navigates
// consistently.
//
// A real machine (generated schema, scripted handlers, call history: the
// generators of gen.go) is traced by the REAL dbg.Tracer, which dials an
// in-process net/rpc sink on the loopback interface (the sink stamps the
// receive time exactly where server.RPCServer.DbgMsgTx does). A recording
// tracer bound before it notes what the machine really had inside every
// callback. The received schema + records are gob/brotli-encoded the way
// Debugger.hExportData does and imported by the REAL debugger
// (debugger.New{ImportData} -> hImportData -> hParseMsg); the exported
// lookup methods of the resulting server.Client are queried on every
// position. For navigation the debugger machine is started headless on a
// tcell simulation screen and driven through its states (UserFwd / UserBack /
// Fwd / Back / ScrollToTx / ToggleTool), either on the imported session or
// on records fed live through ConnectEvent + ClientMsg. Some live sessions
// have a SECOND client (the decoy: a transformed copy of the main client's
// records under another machine id and connection), both fed in interleaved
// ClientMsg batches; the command "select" switches between them through the
// SelectingClient state.
//
// A second, synthetic stream (arbitrary record lists: non-monotone queue
// ticks and sums, clocks shorter / longer than the index) goes through the
// same import, to tie the model to the code outside the well-formed domain.

import (
	"context"
	"encoding/gob"
	"encoding/json"
	"errors"
	"fmt"
	"net"
	"net/rpc"
	"os"
	"path/filepath"
	"slices"
	"sort"
	"strings"
	"sync"
	"time"

	"github.com/andybalholm/brotli"
	"github.com/gdamore/tcell/v2"

	am "github.com/pancsta/asyncmachine-go/pkg/machine"
	"github.com/pancsta/asyncmachine-go/pkg/telemetry/dbg"
	"github.com/pancsta/asyncmachine-go/tools/debugger"
	"github.com/pancsta/asyncmachine-go/tools/debugger/server"
	dbgstates "github.com/pancsta/asyncmachine-go/tools/debugger/states"
	"github.com/pancsta/asyncmachine-go/tools/debugger/types"
)

func init() { register("C16", runC16) }

// ------------------------------------------------------------ input

// C16Msg is a synthetic record (mode "synthetic").
type C16Msg struct {
	ID       string   `json:"id"`
	Clocks   []uint64 `json:"clocks"`
	QTick    uint64   `json:"qtick"`
	MQTick   uint64   `json:"mqtick,omitempty"`
	Token    uint64   `json:"token,omitempty"`
	Accepted bool     `json:"accepted"`
	Check    bool     `json:"check,omitempty"`
	Auto     bool     `json:"auto,omitempty"`
	Queued   bool     `json:"queued,omitempty"`
	Called   []int    `json:"called,omitempty"`
	Steps    [][2]int `json:"steps,omitempty"` // (from, to) state indexes, -1 = none, -2 = a name outside the index
	HTime    uint64   `json:"htime,omitempty"` // receive time in ms (decoy records only; 0: position + 1)
}

type C16Cmd struct {
	K    string `json:"k"`              // fwd back scroll scrollid toggle select
	N    int    `json:"n,omitempty"`    // amount / cursor1 / record index of the id (-1: unknown id) / select: 0 main client, 1 decoy
	Tool string `json:"tool,omitempty"` // canceled queued auto empty health checks
	E    int    `json:"e,omitempty"`    // scrollid: the id of the E-th record from the end (1 = last) instead of N
}

// C16Early (live): after the After-th ClientMsg batch (and before the next
// one) ScrollToTx is asked for the id of the E-th record from the end of the
// main client's stream - issued only if no record received so far has that
// id, ie. the lookup comes BEFORE the record.
type C16Early struct {
	After int `json:"after"`
	E     int `json:"e"`
}

type C16Nav struct {
	Live    bool     `json:"live,omitempty"`    // feed through ConnectEvent + ClientMsg instead of importing
	Batches int      `json:"batches,omitempty"` // live: number of ClientMsg batches
	Init    []string `json:"init,omitempty"`    // filters switched on through Params.Filters
	Cmds    []C16Cmd `json:"cmds"`
	// live only: a second client "decoy" (connection "conn2") with the main
	// client's schema
	Decoy *C16Decoy `json:"decoy,omitempty"`
	// live only: lookups by id between the batches
	Early []C16Early `json:"early,omitempty"`
}

// C16Decoy: the records of the second client are Msgs (over the main
// client's state names) or, without them, a copy of the main client's
// records transformed by a PRNG seeded with Seed (some dropped, accepted /
// auto flipped, receive times of its own). Seed also fixes the order in
// which the records of the two clients arrive.
type C16Decoy struct {
	Seed uint64   `json:"seed"`
	Msgs []C16Msg `json:"msgs,omitempty"`
}

type C16Input struct {
	// machine mode
	Hist     *HistInput `json:"hist,omitempty"`
	LogCan   bool       `json:"log_can,omitempty"`   // SemLogger().EnableCan: check transitions are traced
	LogSteps bool       `json:"log_steps,omitempty"` // SemLogger().EnableSteps
	// synthetic mode
	Names []string `json:"names,omitempty"`
	Msgs  []C16Msg `json:"msgs,omitempty"`
	// queries
	FSet  []int   `json:"fset,omitempty"`  // MsgTxsFiltered during the FilterIndexByCursor1 queries
	FSeed uint64  `json:"fseed,omitempty"` // otherwise: a subset derived from this seed
	Nav   *C16Nav `json:"nav,omitempty"`
}

// ------------------------------------------------------------ observation

type c16Truth struct {
	Queued   bool     `json:"queued"`
	Time     []uint64 `json:"time"`
	Active   []int    `json:"active"`
	QTick    uint64   `json:"qtick"`
	MQTick   uint64   `json:"mqtick"`
	Accepted bool     `json:"accepted"`
	Check    bool     `json:"check"`
	Auto     bool     `json:"auto"`
	Called   []int    `json:"called"`
}

type c16Rec struct {
	ID       int      `json:"id"`
	Clocks   []uint64 `json:"clocks"`
	QTick    uint64   `json:"qtick"`
	MQTick   uint64   `json:"mqtick"`
	Token    uint64   `json:"token"`
	HTime    uint64   `json:"htime"`
	Accepted bool     `json:"accepted"`
	Check    bool     `json:"check"`
	Auto     bool     `json:"auto"`
	Queued   bool     `json:"queued"`
	Called   []int    `json:"called"`
	Steps    [][2]int `json:"steps"`
}

type c16Parsed struct {
	Sum     uint64 `json:"sum"`
	Diff    uint64 `json:"diff"`
	Added   []int  `json:"added"`
	Removed []int  `json:"removed"`
	Touched []int  `json:"touched"`
}

type c16QA struct {
	Q uint64 `json:"q"`
	A int    `json:"a"`
}

// c16Err: HadErrSinceTx(Tx, d) for every d of c16Dists
type c16Err struct {
	Tx int    `json:"tx"`
	A  []bool `json:"a"`
}

var c16Dists = []int{-1, 0, 1, 2, 3, 5, 100}

type c16NavObs struct {
	Flags    [7]bool `json:"flags"` // canceled auto autocanceled empty health queued checks
	Active   bool    `json:"active"`
	Filtered []int   `json:"filtered"`
	Cursor   int     `json:"cursor"`
	// the debugger machine after the command: 0 fine, 1 in Exception after an
	// index-out-of-range panic of a handler, 2 in Exception for another
	// reason, 3 the command never returned (Obs is the previous snapshot)
	Err int `json:"err,omitempty"`
	// whose snapshot (Debugger.C): 0 the main client, 1 the decoy, 2 nobody
	Sel int `json:"sel,omitempty"`
}

type c16NavStep struct {
	Cmd C16Cmd    `json:"cmd"`
	ID  int       `json:"id"` // scrollid: canonical id
	Obs c16NavObs `json:"obs"`
}

// c16EarlyStep: an early ScrollToTx by id. Have = records of the main client
// received so far.
type c16EarlyStep struct {
	ID     int       `json:"id"`
	Have   int       `json:"have"`
	Before c16NavObs `json:"before"`
	After  c16NavObs `json:"after"`
}

type c16Obs struct {
	Machine  bool         `json:"machine"`
	N        int          `json:"n"`
	ErrSt    []int        `json:"errst"`
	Health   []int        `json:"health"`
	Init     []uint64     `json:"init"`
	Truth    []c16Truth   `json:"truth"`
	Msgs     []c16Rec     `json:"msgs"`
	Parsed   []c16Parsed  `json:"parsed"`
	Errors   []int        `json:"errors"`
	MTime    uint64       `json:"mtime"`
	QTick    []c16QA      `json:"q_qtick"`
	HTime    []c16QA      `json:"q_htime"`
	MTimeQ   []c16QA      `json:"q_mtime"`
	TxIdx    []c16QA      `json:"q_txidx"`
	HadErr   []c16Err     `json:"q_haderr"`
	FSet     []int        `json:"fset"`
	FIdx     [][2]int     `json:"q_fidx"`
	NavMode  int          `json:"nav_mode"`
	Nav0     c16NavObs    `json:"nav0"`
	Nav      []c16NavStep `json:"nav"`
	Stored   []c16Rec     `json:"stored"` // the records as the debugger holds them after loading
	ReImp    bool         `json:"reimp"`
	ReMsgs   []c16Rec     `json:"re_msgs,omitempty"`
	ReParsed []c16Parsed  `json:"re_parsed,omitempty"`
	ReErrors []int        `json:"re_errors,omitempty"`
	NavHung  bool         `json:"nav_hung,omitempty"`
	Lost     int          `json:"lost"` // records the tracer queued but the sink never received
	Crashed  bool         `json:"crashed,omitempty"`
	Hung     bool         `json:"hung,omitempty"`
	Err      string       `json:"err,omitempty"`
	// the decoy client: its records as given, the index the debugger derived
	Msgs2   []c16Rec       `json:"msgs2,omitempty"`
	Parsed2 []c16Parsed    `json:"parsed2,omitempty"`
	TxIdx2  []c16QA        `json:"q_txidx2,omitempty"`
	Early   []c16EarlyStep `json:"early,omitempty"`
}

// ------------------------------------------------------------ the sink

// C16RPCServer is registered under the name "RPCServer", the receiver the
// dbg client calls ("RPCServer.DbgMsgSchema", "RPCServer.DbgMsgTx").
type C16RPCServer struct {
	mx      sync.Mutex
	schemas []*dbg.DbgMsgStruct
	txs     []*dbg.DbgMsgTx
}

var c16Base = time.Unix(1700000000, 0)

func (r *C16RPCServer) DbgMsgSchema(m *dbg.DbgMsgStruct, _ *string) error {
	r.mx.Lock()
	defer r.mx.Unlock()
	r.schemas = append(r.schemas, m)
	return nil
}

// DbgMsgTx stamps the receive time like server.RPCServer.DbgMsgTx does
// (`now := time.Now(); msgTx.Time = &now`), with a deterministic clock:
// 1 ms per record.
func (r *C16RPCServer) DbgMsgTx(m *dbg.DbgMsgTx, _ *string) error {
	r.mx.Lock()
	defer r.mx.Unlock()
	now := c16Base.Add(time.Duration(len(r.txs)+1) * time.Millisecond)
	m.Time = &now
	r.txs = append(r.txs, m)
	return nil
}

func (r *C16RPCServer) reset() {
	r.mx.Lock()
	defer r.mx.Unlock()
	r.schemas, r.txs = nil, nil
}

func (r *C16RPCServer) nSchemas() int {
	r.mx.Lock()
	defer r.mx.Unlock()
	return len(r.schemas)
}

func (r *C16RPCServer) count() int {
	r.mx.Lock()
	defer r.mx.Unlock()
	return len(r.txs)
}

var (
	c16SinkOnce sync.Once
	c16Sink     *C16RPCServer
	c16SinkAddr string
)

func c16StartSink() {
	c16SinkOnce.Do(func() {
		ln, err := net.Listen("tcp4", "127.0.0.1:0")
		must(err)
		c16Sink = &C16RPCServer{}
		srv := rpc.NewServer()
		must(srv.RegisterName("RPCServer", c16Sink))
		go srv.Accept(ln)
		c16SinkAddr = ln.Addr().String()
		os.Setenv(dbg.EnvAmDbgNoTrace, "1")
	})
}

// ------------------------------------------------------------ the source machine

type c16Tracer struct {
	*am.TracerNoOp
	mach  *am.Machine
	names am.S
	on    bool
	truth []c16Truth
}

func (t *c16Tracer) idxs(names am.S) []int {
	ret := make([]int, 0, len(names))
	for _, n := range names {
		ret = append(ret, slices.Index(t.names, n))
	}
	sort.Ints(ret)
	return ret
}

// "traced" = what the dbg tracer turns into a record: check mutations only
// when the machine logs them
func (t *c16Tracer) skipped(mut *am.Mutation) bool {
	return !t.on || (mut.IsCheck && !t.mach.SemLogger().IsCan())
}

func (t *c16Tracer) TransitionEnd(tx *am.Transition) {
	mut := tx.Mutation
	if t.skipped(mut) {
		return
	}
	t.truth = append(t.truth, c16Truth{
		Time:     slices.Clone(t.mach.Time(nil)),
		Active:   t.idxs(t.mach.ActiveStates(nil)),
		QTick:    t.mach.QueueTick(),
		Accepted: tx.IsAccepted.Load(),
		Check:    mut.IsCheck,
		Auto:     mut.IsAuto,
		Called:   slices.Clone(mut.Called),
	})
}

func (t *c16Tracer) MutationQueued(_ am.Api, mut *am.Mutation) {
	if t.skipped(mut) {
		return
	}
	t.truth = append(t.truth, c16Truth{
		Queued: true,
		QTick:  t.mach.QueueTick(),
		MQTick: mut.QueueTick,
		Check:  mut.IsCheck,
		Auto:   mut.IsAuto,
		Called: slices.Clone(mut.Called),
		Active: []int{},
		Time:   []uint64{},
	})
}

// c16RunMachine executes the history on a real machine traced by the real
// dbg.Tracer; returns the schema message and records the sink received.
func c16RunMachine(in *C16Input, obs *c16Obs) (*dbg.DbgMsgStruct, []*dbg.DbgMsgTx) {
	c16StartSink()
	c16Sink.reset()
	h := in.Hist
	names := histNames(h)
	schema := am.Schema{}
	for _, s := range h.States {
		schema[s.Name] = am.State{Auto: s.Auto, Multi: s.Multi,
			Require: pick(names, s.Require), Add: pick(names, s.Add),
			Remove: pick(names, s.Remove), After: pick(names, s.After)}
	}
	if _, err := schema.Parse(); err != nil {
		obs.Err = "parse: " + err.Error()
		return nil, nil
	}
	tr := &c16Tracer{TracerNoOp: &am.TracerNoOp{Id: "truth"}, names: names}
	opts := &am.Opts{Id: "src", Tracers: []am.Tracer{tr}, HandlerTimeout: 5 * time.Second,
		DontLogStackTrace: true}
	if h.QueueLimit > 0 {
		opts.QueueLimit = uint16(h.QueueLimit)
	}
	m := am.New(context.Background(), schema, opts)
	tr.mach = m
	if err := m.VerifyStates(names); err != nil {
		obs.Err = "verify: " + err.Error()
		m.Dispose()
		return nil, nil
	}
	defer m.Dispose()
	m.SemLogger().EnableCan(in.LogCan)
	m.SemLogger().EnableSteps(in.LogSteps)

	// scripted handlers (as runHistory binds them)
	actIdx := 0
	body := func(k HKey) bool {
		a := HAction{Ret: true}
		if actIdx < len(h.Actions) {
			a = h.Actions[actIdx]
		}
		actIdx++
		for _, c := range a.Calls {
			doCall(m, names, c)
		}
		if a.Fault == "panic" || a.Fault == "panicval" {
			panic(errors.New("scripted panic"))
		}
		return a.Ret
	}
	for _, b := range h.Bindings {
		neg := map[string]am.HandlerNegotiation{}
		fin := map[string]am.HandlerFinal{}
		for _, k := range b {
			k := k
			if hkeyFinal(k) {
				fin[hkeyName(names, k)] = func(e *am.Event) { body(k) }
			} else {
				neg[hkeyName(names, k)] = func(e *am.Event) bool { return body(k) }
			}
		}
		if _, err := m.HandlersBindMaps(neg, fin); err != nil {
			obs.Err = "bind: " + err.Error()
			return nil, nil
		}
	}

	// the real tracer, attached before the first mutation
	obs.Init = slices.Clone(m.Time(nil))
	if err := dbg.TransitionsToDbg(m, c16SinkAddr); err != nil {
		obs.Err = "tracer: " + err.Error()
		return nil, nil
	}
	tr.on = true

	for _, c := range h.Calls {
		done := make(chan struct{})
		go func() {
			defer close(done)
			defer func() {
				if r := recover(); r != nil {
					obs.Crashed = true
				}
			}()
			doCall(m, names, c)
		}()
		select {
		case <-done:
		case <-time.After(hangAfter):
			obs.Hung = true
		}
		if obs.Crashed || obs.Hung {
			break
		}
	}
	tr.on = false
	obs.Truth = tr.truth

	// wait for the tracer's outbox to drain into the sink
	want := len(tr.truth)
	deadline := time.Now().Add(3 * time.Second)
	for (c16Sink.count() < want || c16Sink.nSchemas() < 1) && time.Now().Before(deadline) {
		time.Sleep(200 * time.Microsecond)
	}
	c16Sink.mx.Lock()
	defer c16Sink.mx.Unlock()
	obs.Lost = want - len(c16Sink.txs)
	if len(c16Sink.schemas) == 0 {
		obs.Err = "no schema message received"
		return nil, nil
	}
	return c16Sink.schemas[0], slices.Clone(c16Sink.txs)
}

// c16Synthetic builds the schema message and records of a synthetic case.
func c16Synthetic(in *C16Input) (*dbg.DbgMsgStruct, []*dbg.DbgMsgTx) {
	names := am.S(in.Names)
	schema := am.Schema{}
	for _, n := range names {
		schema[n] = am.State{}
	}
	ms := &dbg.DbgMsgStruct{ID: "src", StatesIndex: names, States: schema}
	return ms, c16BuildTxs(names, "src", "", in.Msgs)
}

// c16BuildTxs turns synthetic records into messages of machine machID.
func c16BuildTxs(names am.S, machID, idPrefix string, msgs []C16Msg) []*dbg.DbgMsgTx {
	name := func(i int) string {
		if i == -2 {
			return am.StateAny
		}
		if i < 0 || i >= len(names) {
			return ""
		}
		return names[i]
	}
	var txs []*dbg.DbgMsgTx
	for i, sm := range msgs {
		now := c16Base.Add(time.Duration(i+1) * time.Millisecond)
		if sm.HTime > 0 {
			now = c16Base.Add(time.Duration(sm.HTime) * time.Millisecond)
		}
		tx := &dbg.DbgMsgTx{MachineID: machID, ID: idPrefix + sm.ID, QueueTick: sm.QTick,
			MutQueueTick: sm.MQTick, MutQueueToken: sm.Token, Accepted: sm.Accepted,
			IsCheck: sm.Check, IsAuto: sm.Auto, IsQueued: sm.Queued, Time: &now,
			CalledStatesIdxs: slices.Clone(sm.Called)}
		if len(sm.Clocks) > 0 {
			tx.Clocks = slices.Clone(sm.Clocks)
		}
		for _, st := range sm.Steps {
			s := &am.Step{Type: am.StepHandler, FromState: name(st[0]), ToState: name(st[1])}
			if s.FromState == "" {
				s.FromStateIdx = -1
			}
			if s.ToState == "" {
				s.ToStateIdx = -1
			}
			tx.Steps = append(tx.Steps, s)
		}
		txs = append(txs, tx)
	}
	return txs
}

const c16DecoyID = "decoy"

// c16DecoyTxs builds the records of the second client. Must run before the
// debugger gets the main client's records (hParseMsg rewrites their steps in
// place): everything the debugger touches is copied.
func c16DecoyTxs(dc *C16Decoy, names am.S, txs []*dbg.DbgMsgTx) []*dbg.DbgMsgTx {
	if dc.Msgs != nil {
		return c16BuildTxs(names, c16DecoyID, "d-", dc.Msgs)
	}
	r := NewRng(dc.Seed)
	var ret []*dbg.DbgMsgTx
	t := 1
	for _, tx := range txs {
		if r.Chance(20) {
			continue
		}
		cp := *tx
		cp.MachineID = c16DecoyID
		cp.ID = "d-" + tx.ID
		cp.Clocks = slices.Clone(tx.Clocks)
		cp.CalledStates = slices.Clone(tx.CalledStates)
		cp.CalledStatesIdxs = slices.Clone(tx.CalledStatesIdxs)
		cp.Steps = nil
		for _, st := range tx.Steps {
			sc := *st
			cp.Steps = append(cp.Steps, &sc)
		}
		if r.Chance(25) {
			cp.Accepted = !cp.Accepted
		}
		if r.Chance(10) {
			cp.IsAuto = !cp.IsAuto
		}
		t += r.Intn(3)
		now := c16Base.Add(time.Duration(t) * time.Millisecond)
		cp.Time = &now
		ret = append(ret, &cp)
	}
	return ret
}

// ------------------------------------------------------------ the debugger

var c16Tmp string

// c16Export writes the session the way Debugger.hExportData does.
func c16Export(ms *dbg.DbgMsgStruct, txs []*dbg.DbgMsgTx, name string) string {
	p := filepath.Join(c16Tmp, name+".gob.br")
	f, err := os.Create(p)
	must(err)
	bw := brotli.NewWriter(f)
	data := []*server.Exportable{{MsgStruct: ms, MsgTxs: txs, Version: "amverif"}}
	must(gob.NewEncoder(bw).Encode(data))
	must(bw.Close())
	must(f.Close())
	return p
}

var c16ss = dbgstates.DebuggerStates

func c16Params(importFile string, screen tcell.Screen, f *types.Filters) types.Params {
	return types.Params{Id: "amverif", OutputDir: c16Tmp, ImportData: importFile,
		Print: func(string, ...any) {}, Screen: screen, Filters: f,
		OutputDiagrams: types.ParamsOutputDiagramsNone}
}

func c16Flags(d *debugger.Debugger) [7]bool {
	is := d.Mach.Is1
	return [7]bool{is(c16ss.FilterCanceledTx), is(c16ss.FilterAutoTx), is(c16ss.FilterAutoCanceledTx),
		is(c16ss.FilterEmptyTx), is(c16ss.FilterHealth), is(c16ss.FilterQueuedTx), is(c16ss.FilterChecks)}
}

// c16Settle waits until the debugger machine is idle: an Eval barrier that
// finds the queue empty, twice in a row.
func c16Settle(d *debugger.Debugger) bool {
	ctx, cancel := context.WithTimeout(context.Background(), 5*time.Second)
	defer cancel()
	calm := 0
	for i := 0; i < 200 && calm < 2; i++ {
		ok := d.Mach.Eval("amverif-settle", func() {}, ctx)
		if !ok {
			if ctx.Err() != nil {
				return false
			}
			continue
		}
		if d.Mach.QueueLen() == 0 {
			calm++
		} else {
			calm = 0
			time.Sleep(100 * time.Microsecond)
		}
	}
	return calm >= 2
}

func c16Snap(d *debugger.Debugger) (o c16NavObs, ok bool) {
	ctx, cancel := context.WithTimeout(context.Background(), 5*time.Second)
	defer cancel()
	ok = d.Mach.Eval("amverif-snap", func() {
		o.Flags = c16Flags(d)
		o.Active = d.Mach.Any1(dbgstates.DebuggerGroups.Filters...)
		if d.C != nil {
			o.Filtered = slices.Clone(d.C.MsgTxsFiltered)
			o.Cursor = d.C.CursorTx1
			if d.C.Id == c16DecoyID {
				o.Sel = 1
			}
		} else {
			o.Sel = 2
		}
		if d.Mach.IsErr() {
			o.Err = 2
			if e := d.Mach.Err(); e != nil && strings.Contains(e.Error(), "index out of range") {
				o.Err = 1
			}
		}
	}, ctx)
	if o.Filtered == nil {
		o.Filtered = []int{}
	}
	return o, ok
}

var c16Tools = map[string]types.ToolName{
	"canceled": types.ToolFilterCanceledTx, "queued": types.ToolFilterQueuedTx,
	"auto": types.ToolFilterAutoTx, "empty": types.ToolFilterEmptyTx,
	"health": types.ToolFilterHealth, "checks": types.ToolFilterChecks,
}

func c16Filters(init []string) *types.Filters {
	f := &types.Filters{}
	for _, s := range init {
		switch s {
		case "canceled":
			f.SkipCanceledTx = true
		case "queued":
			f.SkipQueuedTx = true
		case "auto":
			f.SkipAutoTx = true
		case "autocanceled":
			f.SkipAutoCanceledTx = true
		case "empty":
			f.SkipEmptyTx = true
		case "health":
			f.SkipHealthTx = true
		case "checks":
			f.SkipChecks = true
		}
	}
	return f
}

// c16Headless starts the debugger machine on a simulation screen, loads the
// session (import or live) and runs the commands. Returns the debugger (its
// client holds the records) or an error text.
func c16Headless(in *C16Input, ms *dbg.DbgMsgStruct, txs, txs2 []*dbg.DbgMsgTx, ids map[string]int,
	obs *c16Obs, name string,
) (*debugger.Debugger, string) {
	nav := in.Nav
	screen := tcell.NewSimulationScreen("UTF-8")
	if err := screen.Init(); err != nil {
		return nil, "screen: " + err.Error()
	}
	screen.SetSize(100, 50)
	screen.Clear()
	file := ""
	if !nav.Live {
		file = c16Export(ms, txs, name)
	}
	// an output directory of its own: a debugger that livelocks appends to
	// am-dbg-err.log forever; removing the directory stops that
	p := c16Params(file, screen, c16Filters(nav.Init))
	p.OutputDir = filepath.Join(c16Tmp, name+"-out")
	d, err := debugger.New(context.Background(), p)
	if err != nil {
		return nil, "new: " + err.Error()
	}
	mach := d.Mach
	if mach.Add1(c16ss.Start, nil) == am.Canceled {
		return d, "start canceled"
	}
	wait := func(ch <-chan struct{}, what string) string {
		select {
		case <-ch:
			return ""
		case <-time.After(5 * time.Second):
			return "timeout waiting for " + what
		}
	}
	// do runs a mutation off the main goroutine (the caller of Add drives
	// the queue: a livelocked machine never returns) and waits for the
	// machine to calm down. false = it never did.
	do := func(f func()) bool {
		done := make(chan struct{})
		go func() {
			defer close(done)
			// a call still running when the step is given up (livelock, known
			// finding) ends in a panic of the library once the debugger is
			// disposed under it (send on closed channel): not this property's
			// business, and it must not take the harness down
			defer func() { _ = recover() }()
			f()
		}()
		select {
		case <-done:
		case <-time.After(hangAfter):
			return false
		}
		return c16Settle(d)
	}
	// snapshot; a recovered handler panic leaves the machine in Exception,
	// which is noted and cleared
	snap := func() (c16NavObs, bool) {
		o, ok := c16Snap(d)
		if ok && o.Err != 0 {
			ok = do(func() { mach.Remove1(am.StateException, nil) })
		}
		return o, ok
	}
	hung := func(o c16NavObs) c16NavObs {
		o.Err = 3
		obs.NavHung = true
		os.RemoveAll(p.OutputDir)
		go mach.DisposeForce()
		return o
	}
	if e := wait(mach.When1(c16ss.Ready, nil), "Ready"); e != "" {
		return d, e
	}
	loaded := true
	if nav.Live {
		obs.NavMode = 2
		mach.Add1(c16ss.ConnectEvent, am.Pass(&types.A{MsgStruct: ms, ConnId: "conn1", ClientId: ms.ID}))
		if e := wait(mach.When1(c16ss.ClientSelected, nil), "ClientSelected"); e != "" {
			return d, e
		}
		if !c16Settle(d) {
			return d, "settle after connect"
		}
		// the arrival order: the main client's records, with the decoy's (if
		// any) mixed in
		all := slices.Clone(txs)
		allConns := make([]string, len(txs))
		for k := range allConns {
			allConns[k] = "conn1"
		}
		if nav.Decoy != nil {
			obs.NavMode = 3
			ms2 := *ms
			ms2.ID = c16DecoyID
			mach.Add1(c16ss.ConnectEvent, am.Pass(&types.A{MsgStruct: &ms2, ConnId: "conn2", ClientId: ms2.ID}))
			if !c16Settle(d) {
				return d, "settle after the second connect"
			}
			if d.Clients[c16DecoyID] == nil {
				return d, "decoy client missing after connect"
			}
			r := NewRng(nav.Decoy.Seed ^ 0x9e3779b97f4a7c15)
			all, allConns = all[:0:0], allConns[:0:0]
			i, j := 0, 0
			for i < len(txs) || j < len(txs2) {
				if j >= len(txs2) || (i < len(txs) && r.Intn(len(txs)-i+len(txs2)-j) < len(txs)-i) {
					all, allConns = append(all, txs[i]), append(allConns, "conn1")
					i++
				} else {
					all, allConns = append(all, txs2[j]), append(allConns, "conn2")
					j++
				}
			}
		}
		nb := max(nav.Batches, 1)
		per := (len(all) + nb - 1) / nb
		nBatch, nMain := 0, 0
		for i := 0; i < len(all) && loaded; i += max(per, 1) {
			end := min(i+max(per, 1), len(all))
			batch := all[i:end]
			conns := allConns[i:end]
			loaded = do(func() {
				mach.Add1(c16ss.ClientMsg, am.Pass(&types.A{MsgsTx: batch, ConnIds: conns}))
			})
			nBatch++
			for _, cn := range conns {
				if cn == "conn1" {
					nMain++
				}
			}
			// lookups by id that come before their record (TailMode is still on:
			// only refused jumps are issued, which change nothing)
			for _, ea := range nav.Early {
				idx := len(txs) - ea.E
				if !loaded || end >= len(all) || ea.After != nBatch || ea.E <= 0 || idx < nMain || idx >= len(txs) {
					continue
				}
				id := txs[idx].ID
				if slices.ContainsFunc(txs[:nMain], func(t *dbg.DbgMsgTx) bool { return t.ID == id }) {
					continue
				}
				st := c16EarlyStep{ID: ids[id], Have: nMain}
				var ok1, ok2 bool
				st.Before, ok1 = c16Snap(d)
				loaded = do(func() { mach.Add1(c16ss.ScrollToTx, am.Pass(&types.A{TxId: id})) })
				st.After, ok2 = c16Snap(d)
				if loaded && ok1 && ok2 {
					obs.Early = append(obs.Early, st)
				}
			}
		}
	} else {
		obs.NavMode = 1
		if e := wait(mach.When1(c16ss.ClientSelected, nil), "ClientSelected"); e != "" {
			return d, e
		}
	}
	// leave tail mode, as the arrow / jump keys do (Paused is an Auto state)
	if loaded {
		loaded = do(func() { mach.Remove(am.S{c16ss.Playing, c16ss.TailMode}, nil) })
	}
	if !loaded {
		obs.Nav0 = hung(c16NavObs{Filtered: []int{}})
		return d, ""
	}
	var ok bool
	if obs.Nav0, ok = snap(); !ok {
		obs.Nav0 = hung(obs.Nav0)
		return d, ""
	}
	prev := obs.Nav0
	for _, cmd := range nav.Cmds {
		step := c16NavStep{Cmd: cmd}
		var f func()
		switch cmd.K {
		case "fwd":
			st := c16ss.Fwd
			if cmd.N <= 1 {
				st = c16ss.UserFwd
			}
			f = func() { mach.Add1(st, am.Pass(&types.A{Amount: cmd.N})) }
		case "back":
			st := c16ss.Back
			if cmd.N <= 1 {
				st = c16ss.UserBack
			}
			f = func() { mach.Add1(st, am.Pass(&types.A{Amount: cmd.N})) }
		case "scroll":
			f = func() { mach.Add1(c16ss.ScrollToTx, am.Pass(&types.A{CursorTx1: cmd.N})) }
		case "scrollid":
			id := "no-such-tx"
			step.ID = len(ids) + 7
			// an id of the client that is selected
			of := txs
			if prev.Sel == 1 {
				of = txs2
			}
			at := cmd.N
			if cmd.E > 0 {
				at = len(of) - cmd.E
			}
			if at >= 0 && at < len(of) {
				id = of[at].ID
				step.ID = ids[id]
			}
			f = func() { mach.Add1(c16ss.ScrollToTx, am.Pass(&types.A{TxId: id})) }
		case "select":
			cid := "no-such-client"
			switch cmd.N {
			case 0:
				cid = ms.ID
			case 1:
				cid = c16DecoyID
			}
			// SelectingClient drops ClientSelected; SelectingClientState forks,
			// refilters, scrolls and adds ClientSelected again. A rejected
			// request (the same client, none of that name) leaves it on.
			f = func() {
				t0 := mach.Tick(c16ss.SelectingClient)
				mach.Add1(c16ss.SelectingClient, am.Pass(&types.A{ClientId: cid}))
				// The Result says nothing about THIS request: processQueue returns
				// the result of the first mutation it drained (one a timer goroutine
				// of the debugger had queued comes first), or Queued when such a
				// goroutine was driving the queue; an Eval is no barrier either (it
				// is PREpended). Once the queue has drained the request has run: the
				// tick of SelectingClient tells whether SelectingClientEnter let it
				// through. A refused one (the client that is selected, no client of
				// that name) is a no-op and nothing is waited for.
				if !c16Settle(d) || mach.Tick(c16ss.SelectingClient) == t0 {
					return
				}
				// SelectingClientState has run; its forked part ends with adding
				// ClientSelected, which takes SelectingClient off again. A selection
				// that never completes is given up by `do` (hangAfter).
				for i := 0; i < 40000; i++ {
					if mach.Tick(c16ss.SelectingClient) >= t0+2 && mach.Is1(c16ss.ClientSelected) {
						return
					}
					time.Sleep(100 * time.Microsecond)
				}
			}
		case "toggle":
			f = func() { mach.Add1(c16ss.ToggleTool, am.Pass(&types.A{ToolName: c16Tools[cmd.Tool]})) }
		default:
			return d, "bad command " + cmd.K
		}
		if !do(f) {
			step.Obs = hung(prev)
			obs.Nav = append(obs.Nav, step)
			return d, ""
		}
		if step.Obs, ok = snap(); !ok {
			step.Obs = hung(step.Obs)
			obs.Nav = append(obs.Nav, step)
			return d, ""
		}
		obs.Nav = append(obs.Nav, step)
		prev = step.Obs
	}
	return d, ""
}

func c16Stop(d *debugger.Debugger) {
	if d == nil {
		return
	}
	// Machine.Dispose sleeps (grace period of the Start state, queue drain):
	// off the main path
	go func() {
		d.Mach.Dispose()
		d.Dispose()
	}()
}

// ------------------------------------------------------------ one case

// c16Canon is the canonical form of a record list (ids numbered by first
// occurrence in `ids`, which is extended).
func c16Canon(names am.S, txs []*dbg.DbgMsgTx, ids map[string]int) []c16Rec {
	ret := []c16Rec{}
	for _, tx := range txs {
		if _, ok := ids[tx.ID]; !ok {
			ids[tx.ID] = len(ids)
		}
		r := c16Rec{ID: ids[tx.ID], Clocks: slices.Clone([]uint64(tx.Clocks)), QTick: tx.QueueTick,
			MQTick: tx.MutQueueTick, Token: tx.MutQueueToken,
			Accepted: tx.Accepted, Check: tx.IsCheck, Auto: tx.IsAuto, Queued: tx.IsQueued,
			Called: c16Ints(tx.CalledStatesIdxs), Steps: [][2]int{}}
		if tx.Time != nil {
			r.HTime = uint64(tx.Time.Sub(c16Base) / time.Millisecond)
		}
		if r.Clocks == nil {
			r.Clocks = []uint64{}
		}
		if len(r.Called) == 0 {
			for _, n := range tx.CalledStates {
				r.Called = append(r.Called, slices.Index(names, n))
			}
		}
		// -1 = no state (""), -2 = a name the index does not have ("Any")
		endp := func(n string) int {
			if n == "" {
				return -1
			}
			if i := slices.Index(names, n); i >= 0 {
				return i
			}
			return -2
		}
		for _, s := range tx.Steps {
			r.Steps = append(r.Steps, [2]int{endp(s.GetFromState(names)), endp(s.GetToState(names))})
		}
		ret = append(ret, r)
	}
	return ret
}

func c16CanonParsed(ps []*types.MsgTxParsed) []c16Parsed {
	ret := []c16Parsed{}
	for _, p := range ps {
		ret = append(ret, c16Parsed{Sum: p.TimeSum, Diff: p.TimeDiff,
			Added: c16Ints(p.StatesAdded), Removed: c16Ints(p.StatesRemoved),
			Touched: c16Ints(p.StatesTouched)})
	}
	return ret
}

func c16Ints(xs []int) []int {
	if xs == nil {
		return []int{}
	}
	return slices.Clone(xs)
}

func c16Exec(in *C16Input, name string) *c16Obs {
	obs := &c16Obs{}
	var ms *dbg.DbgMsgStruct
	var txs []*dbg.DbgMsgTx
	if in.Hist != nil {
		obs.Machine = true
		ms, txs = c16RunMachine(in, obs)
	} else {
		ms, txs = c16Synthetic(in)
		obs.Truth = []c16Truth{}
	}
	if ms == nil {
		return obs
	}
	names := ms.StatesIndex
	obs.N = len(names)
	obs.ErrSt, obs.Health = []int{}, []int{}
	for i, n := range names {
		if strings.HasPrefix(n, am.PrefixErr) || n == am.StateException {
			obs.ErrSt = append(obs.ErrSt, i)
		}
		if n == am.StateHealthcheck || n == am.StateHeartbeat {
			obs.Health = append(obs.Health, i)
		}
	}

	// canonical records, taken before the debugger rewrites steps / called
	ids := map[string]int{}
	obs.Msgs = c16Canon(names, txs, ids)

	// the real debugger
	var d *debugger.Debugger
	var txs2 []*dbg.DbgMsgTx
	if in.Nav != nil && in.Nav.Live && in.Nav.Decoy != nil {
		txs2 = c16DecoyTxs(in.Nav.Decoy, names, txs)
		obs.Msgs2 = c16Canon(names, txs2, ids)
	}
	if in.Nav != nil {
		var e string
		d, e = c16Headless(in, ms, txs, txs2, ids, obs, name)
		if e != "" {
			obs.Err = "headless: " + e
			c16Stop(d)
			return obs
		}
	} else {
		var err error
		d, err = debugger.New(context.Background(), c16Params(c16Export(ms, txs, name), nil, &types.Filters{}))
		if err != nil {
			obs.Err = "import: " + err.Error()
			return obs
		}
	}
	defer c16Stop(d)
	cl := d.Clients[ms.ID]
	if cl == nil {
		obs.Err = "client missing after load"
		return obs
	}
	c := cl.Client // server.Client

	query := func() {
		obs.Parsed = c16CanonParsed(c.MsgTxsParsed)
		obs.Stored = c16Canon(names, c.MsgTxs, ids)
		obs.Errors = c16Ints(c.Errors)
		obs.MTime = c.MTimeSum
		if cl2 := d.Clients[c16DecoyID]; cl2 != nil && obs.NavMode == 3 {
			obs.Parsed2 = c16CanonParsed(cl2.MsgTxsParsed)
			if len(cl2.MsgTxs) != len(txs2) {
				obs.Err = fmt.Sprintf("the decoy holds %d records, %d were sent", len(cl2.MsgTxs), len(txs2))
			}
		}

		n := len(c.MsgTxs)
		var maxQ, maxS uint64
		for _, tx := range c.MsgTxs {
			maxQ = max(maxQ, tx.QueueTick)
		}
		for _, p := range c.MsgTxsParsed {
			maxS = max(maxS, p.TimeSum)
		}
		maxQ, maxS = min(maxQ, 400), min(maxS, 600)
		for q := uint64(0); q <= maxQ+2; q++ {
			obs.QTick = append(obs.QTick, c16QA{q, c.TxAtQueueTick(q)})
		}
		for s := uint64(0); s <= maxS+2; s++ {
			obs.MTimeQ = append(obs.MTimeQ, c16QA{s, c.TxAtMachTime(s)})
		}
		for t := 0; t <= n+2; t++ {
			obs.HTime = append(obs.HTime, c16QA{uint64(t),
				c.TxAtHTime(c16Base.Add(time.Duration(t) * time.Millisecond))})
		}
		// ids in reverse canonical order, so that the memo of TxIndex is
		// filled out of order; plus two ids no record has
		byID := make([]string, len(ids))
		for s, i := range ids {
			byID[i] = s
		}
		for i := len(byID) - 1; i >= 0; i-- {
			obs.TxIdx = append(obs.TxIdx, c16QA{uint64(i), c.TxIndex(byID[i])})
		}
		obs.TxIdx = append(obs.TxIdx, c16QA{uint64(len(byID) + 1), c.TxIndex("no-such-tx")},
			c16QA{uint64(len(byID) + 2), c.TxIndex("")})
		if len(byID) > 0 { // again, through the memo
			obs.TxIdx = append(obs.TxIdx, c16QA{0, c.TxIndex(byID[0])})
		}
		if cl2 := d.Clients[c16DecoyID]; cl2 != nil && obs.NavMode == 3 {
			for i := len(byID) - 1; i >= 0; i-- {
				obs.TxIdx2 = append(obs.TxIdx2, c16QA{uint64(i), cl2.TxIndex(byID[i])})
			}
		}
		for tx := -2; tx <= n+2; tx++ {
			row := c16Err{Tx: tx}
			for _, dist := range c16Dists {
				row.A = append(row.A, c.HadErrSinceTx(tx, dist))
			}
			obs.HadErr = append(obs.HadErr, row)
		}
		// FilterIndexByCursor1 over a chosen MsgTxsFiltered
		fset := in.FSet
		if fset == nil {
			r := NewRng(in.FSeed)
			fset = r.Subset(n, r.Range(10, 90))
		}
		obs.FSet = c16Ints(fset)
		saved := c.MsgTxsFiltered
		c.MsgTxsFiltered = fset
		for cur := -1; cur <= n+2; cur++ {
			obs.FIdx = append(obs.FIdx, [2]int{cur, c.FilterIndexByCursor1(cur)})
		}
		c.MsgTxsFiltered = saved
	}
	if in.Nav != nil {
		if obs.NavHung {
			// the machine spins in its handlers: read the store directly
			query()
			return obs
		}
		ctx, cancel := context.WithTimeout(context.Background(), 10*time.Second)
		defer cancel()
		if !d.Mach.Eval("amverif-query", query, ctx) {
			obs.Err = "query eval failed"
		}
		return obs
	}
	query()

	// second generation: export the debugger's own store (what hExportData
	// writes: c.MsgStruct + c.MsgTxs) and import it into a fresh debugger
	d2, err := debugger.New(context.Background(),
		c16Params(c16Export(c.MsgStruct, c.MsgTxs, name+"-re"), nil, &types.Filters{}))
	if err != nil {
		obs.Err = "re-import: " + err.Error()
		return obs
	}
	defer c16Stop(d2)
	if cl2 := d2.Clients[ms.ID]; cl2 != nil {
		obs.ReImp = true
		obs.ReMsgs = c16Canon(names, cl2.MsgTxs, ids)
		obs.ReParsed = c16CanonParsed(cl2.MsgTxsParsed)
		obs.ReErrors = c16Ints(cl2.Errors)
	} else {
		obs.Err = "client missing after re-import"
	}
	return obs
}

// ------------------------------------------------------------ Gallina

func coqZ(v int) string {
	if v < 0 {
		return fmt.Sprintf("(%d)%%Z", v)
	}
	return fmt.Sprintf("%d%%Z", v)
}

// coqEndp prints a step endpoint: -1 none, -2 a name outside the index
// (slices.Index gives -1 for it), else the state index.
func coqEndp(v int) string {
	switch {
	case v == -1:
		return "None"
	case v < -1:
		return "(Some (-1)%Z)"
	}
	return fmt.Sprintf("(Some %d%%Z)", v)
}

func coqZList(xs []int) string {
	parts := make([]string, len(xs))
	for i, x := range xs {
		parts[i] = fmt.Sprintf("%d", x)
	}
	return "[" + strings.Join(parts, ";") + "]%Z"
}

// coqDelta prints cur as (length, [(index, term) ...]) relative to base.
func coqDelta[T any](base, cur []T, pr func(T) string) string {
	var parts []string
	for i, x := range cur {
		t := pr(x)
		if i >= len(base) || pr(base[i]) != t {
			parts = append(parts, fmt.Sprintf("(%d%%nat, %s)", i, t))
		}
	}
	return fmt.Sprintf("(%d%%nat, [%s])", len(cur), strings.Join(parts, ";\n  "))
}

func c16CoqNavObs(o c16NavObs) string {
	f := o.Flags
	return fmt.Sprintf("(mkNavObs (mkFilters %s %s %s %s %s %s %s) %s %s %s %d %d%%nat)",
		coqBool(f[0]), coqBool(f[1]), coqBool(f[2]), coqBool(f[3]), coqBool(f[4]), coqBool(f[5]),
		coqBool(f[6]), coqBool(o.Active), coqNatList(o.Filtered), coqZ(o.Cursor), o.Err, o.Sel)
}

func c16CoqCmd(s c16NavStep) string {
	switch s.Cmd.K {
	case "fwd":
		return fmt.Sprintf("(NC (NFwd %s))", coqZ(s.Cmd.N))
	case "back":
		return fmt.Sprintf("(NC (NBack %s))", coqZ(s.Cmd.N))
	case "scroll":
		return fmt.Sprintf("(NC (NScroll %s))", coqZ(s.Cmd.N))
	case "scrollid":
		return fmt.Sprintf("(NC (NScrollId %d%%nat))", s.ID)
	case "select":
		if s.Cmd.N < 0 {
			return "(NSelect 9%nat)"
		}
		return fmt.Sprintf("(NSelect %d%%nat)", s.Cmd.N)
	}
	return "(NC NRefilter)"
}

func c16Coq(obs *c16Obs) string {
	var b strings.Builder
	fmt.Fprintf(&b, "(mkCase %s %d%%nat %s %s %s\n", coqBool(obs.Machine), obs.N,
		coqNatList(obs.ErrSt), coqNatList(obs.Health), coqNList(obs.Init))
	b.WriteString(" " + joinMap(obs.Truth, func(t c16Truth) string {
		return fmt.Sprintf("(mkTruth %s %s %s %d%%N %d%%N %s %s %s %s)", coqBool(t.Queued), coqNList(t.Time),
			coqNatList(t.Active), t.QTick, t.MQTick, coqBool(t.Accepted), coqBool(t.Check),
			coqBool(t.Auto), coqNatList(t.Called))
	}, ";\n  ") + "\n")
	coqMsg := func(m c16Rec) string {
		steps := joinMap(m.Steps, func(s [2]int) string {
			return "(" + coqEndp(s[0]) + ", " + coqEndp(s[1]) + ")"
		}, "; ")
		return fmt.Sprintf("(mkMsg %d %s %d %d %d %d %s %s %s %s %s %s)", m.ID,
			coqNList(m.Clocks), m.QTick, m.MQTick, m.Token, m.HTime, coqBool(m.Accepted),
			coqBool(m.Check), coqBool(m.Auto), coqBool(m.Queued), coqNatList(m.Called), steps)
	}
	coqP := func(p c16Parsed) string {
		return fmt.Sprintf("(mkParsed %d %d %s %s %s)", p.Sum, p.Diff, coqNatList(p.Added),
			coqNatList(p.Removed), coqZList(p.Touched))
	}
	b.WriteString(" " + joinMap(obs.Msgs, coqMsg, ";\n  ") + "\n")
	b.WriteString(" " + joinMap(obs.Parsed, coqP, ";\n  ") + "\n")
	fmt.Fprintf(&b, " %s %d%%N\n", coqNatList(obs.Errors), obs.MTime)
	qa := func(l []c16QA, nat bool) string {
		return joinMap(l, func(q c16QA) string {
			if nat {
				return fmt.Sprintf("(%d%%nat, %s)", q.Q, coqZ(q.A))
			}
			return fmt.Sprintf("(%d%%N, %s)", q.Q, coqZ(q.A))
		}, "; ")
	}
	fmt.Fprintf(&b, " %s\n %s\n %s\n %s\n", qa(obs.QTick, false), qa(obs.HTime, false),
		qa(obs.MTimeQ, false), qa(obs.TxIdx, true))
	b.WriteString(" " + coqZList(c16Dists) + " " + joinMap(obs.HadErr, func(e c16Err) string {
		return fmt.Sprintf("(%s, %s)", coqZ(e.Tx), joinMap(e.A, coqBool, ";"))
	}, "; ") + "\n")
	fmt.Fprintf(&b, " %s %s\n", coqNatList(obs.FSet), joinMap(obs.FIdx, func(q [2]int) string {
		return fmt.Sprintf("(%s, %s)", coqZ(q[0]), coqZ(q[1]))
	}, "; "))
	fmt.Fprintf(&b, " %d%%N %s\n %s\n", obs.NavMode, c16CoqNavObs(obs.Nav0),
		joinMap(obs.Nav, func(s c16NavStep) string {
			return "(" + c16CoqCmd(s) + ", " + c16CoqNavObs(s.Obs) + ")"
		}, ";\n  "))
	// the later record lists are printed as deltas against the first one
	// (length + the entries whose printed form differs); Run/EvalC16.unpatch
	// rebuilds them
	fmt.Fprintf(&b, " %s\n %s %s\n %s %s\n %s\n %s", coqDelta(obs.Msgs, obs.Stored, coqMsg), coqBool(obs.ReImp),
		coqDelta(obs.Msgs, obs.ReMsgs, coqMsg), coqDelta(obs.Parsed, obs.ReParsed, coqP),
		coqNatList(obs.ReErrors), joinMap(obs.Msgs2, coqMsg, ";\n  "), joinMap(obs.Parsed2, coqP, ";\n  "))
	fmt.Fprintf(&b, "\n %s\n %s)", qa(obs.TxIdx2, true), joinMap(obs.Early, func(e c16EarlyStep) string {
		return fmt.Sprintf("(%d%%nat, %d%%nat, %s, %s)", e.ID, e.Have, c16CoqNavObs(e.Before), c16CoqNavObs(e.After))
	}, ";\n  "))
	return b.String()
}

// ------------------------------------------------------------ generators

// c16GenMachine: a history for a real machine. Some schemas get an Err*
// state and a Healthcheck state (renamed user states).
func c16GenMachine(r *Rng, o GenOpt) *C16Input {
	h := genHistory(r, o)
	n := len(h.States) - 1
	if n >= 2 && r.Chance(30) {
		h.States[r.Intn(n)].Name = "ErrNetwork"
	}
	if n >= 2 && r.Chance(15) {
		i := r.Intn(n)
		if h.States[i].Name != "ErrNetwork" && h.States[i].Name != am.StateHeartbeat {
			h.States[i].Name = am.StateHealthcheck
			h.States[i].Multi = true
		}
	}
	return &C16Input{Hist: h, LogCan: r.Chance(50), LogSteps: r.Chance(60), FSeed: r.U64()}
}

func c16GenNav(r *Rng, live bool) *C16Nav {
	nav := &C16Nav{Live: live, Batches: r.Range(1, 4)}
	all := []string{"canceled", "queued", "auto", "autocanceled", "empty", "health", "checks"}
	for _, f := range all {
		if r.Chance(25) {
			nav.Init = append(nav.Init, f)
		}
	}
	tools := []string{"canceled", "queued", "auto", "empty", "health", "checks"}
	nc := r.Range(4, 24)
	for i := 0; i < nc; i++ {
		switch x := r.Intn(100); {
		case x < 22:
			// forward then back
			nav.Cmds = append(nav.Cmds, C16Cmd{K: "fwd", N: r.Intn(2)}, C16Cmd{K: "back", N: r.Intn(2)})
		case x < 34:
			nav.Cmds = append(nav.Cmds, C16Cmd{K: "fwd", N: r.Range(0, 7)})
		case x < 50:
			nav.Cmds = append(nav.Cmds, C16Cmd{K: "back", N: r.Range(0, 7)})
		case x < 65:
			nav.Cmds = append(nav.Cmds, C16Cmd{K: "scroll", N: r.Range(-1, 60)})
		case x < 75:
			nav.Cmds = append(nav.Cmds, C16Cmd{K: "scrollid", N: r.Range(-1, 60)})
		case x < 78:
			// a client switch that SelectingClientEnter refuses: the only client is
			// selected already; there is no other
			nav.Cmds = append(nav.Cmds, C16Cmd{K: "select", N: []int{0, 0, 1, 7}[r.Intn(4)]})
		default:
			nav.Cmds = append(nav.Cmds, C16Cmd{K: "toggle", Tool: tools[r.Intn(len(tools))]})
		}
	}
	if live {
		c16GenEarly(r, nav, r.Intn(len(nav.Cmds)+1))
	}
	return nav
}

// c16GenEarly: most live sessions of several batches look an id up BEFORE
// its record arrives (one of the last records, asked for after an early
// batch) and jump to the same id again at position `at` of the commands,
// when the record is there.
func c16GenEarly(r *Rng, nav *C16Nav, at int) {
	if nav.Batches < 2 || !r.Chance(70) {
		return
	}
	e := r.Range(1, 3)
	nav.Early = append(nav.Early, C16Early{After: r.Range(1, nav.Batches-1), E: e})
	if r.Chance(30) {
		nav.Early = append(nav.Early, C16Early{After: r.Range(1, nav.Batches-1), E: r.Range(1, 4)})
	}
	nav.Cmds = slices.Insert(nav.Cmds, at, C16Cmd{K: "scrollid", E: e})
}

// c16GenNav2: a live session of two clients. The commands come in rounds:
// some navigation, a switch to the other client, filter toggles WHILE THE
// OTHER CLIENT IS SELECTED, a switch back, navigation over the client whose
// view must have followed the toggles. Most sessions keep one group filter
// (health) on throughout, so that listing stays in force.
func c16GenNav2(r *Rng) *C16Nav {
	nav := &C16Nav{Live: true, Batches: r.Range(1, 5), Decoy: &C16Decoy{Seed: r.U64()}}
	tools := []string{"canceled", "queued", "auto", "empty", "checks"}
	keep := r.Chance(75)
	for _, f := range []string{"canceled", "queued", "auto", "autocanceled", "empty", "checks"} {
		if r.Chance(25) {
			nav.Init = append(nav.Init, f)
		}
	}
	if keep || r.Chance(25) {
		nav.Init = append(nav.Init, "health")
	}
	if !keep {
		tools = append(tools, "health")
	}
	sel := 0
	add := func(c ...C16Cmd) { nav.Cmds = append(nav.Cmds, c...) }
	move := func(n int) {
		for i := 0; i < n; i++ {
			switch x := r.Intn(100); {
			case x < 30:
				add(C16Cmd{K: "fwd", N: r.Intn(2)}, C16Cmd{K: "back", N: r.Intn(2)})
			case x < 45:
				add(C16Cmd{K: "fwd", N: r.Range(0, 5)})
			case x < 65:
				add(C16Cmd{K: "back", N: r.Range(0, 5)})
			case x < 85:
				add(C16Cmd{K: "scroll", N: r.Range(-1, 45)})
			default:
				add(C16Cmd{K: "scrollid", N: r.Range(-1, 45)})
			}
		}
	}
	toggle := func(n int) {
		for i := 0; i < n; i++ {
			add(C16Cmd{K: "toggle", Tool: tools[r.Intn(len(tools))]})
		}
	}
	sw := func() {
		sel ^= 1
		add(C16Cmd{K: "select", N: sel})
	}
	rounds := r.Range(1, 4)
	for i := 0; i < rounds; i++ {
		move(r.Intn(3))
		if r.Chance(30) {
			toggle(1)
		}
		sw()
		move(r.Intn(3))
		toggle(r.Range(1, 2))
		if r.Chance(35) {
			// rejected requests: the client that is selected (mostly), an unknown one
			add(C16Cmd{K: "select", N: []int{sel, sel, 7}[r.Intn(3)]})
		}
		move(r.Intn(2))
		sw()
		move(r.Range(2, 5))
	}
	// the later jump comes first: the main client is still selected
	c16GenEarly(r, nav, 0)
	return nav
}

// c16GenSynthetic: arbitrary record lists. wellFormed keeps queue ticks and
// time sums monotone and clocks as long as the index.
func c16GenSynthetic(r *Rng, wellFormed bool) *C16Input {
	n := r.Range(1, 6)
	names := make([]string, 0, n+1)
	for i := 0; i < n; i++ {
		names = append(names, stateName(i))
	}
	if r.Chance(40) {
		names[r.Intn(n)] = "ErrIo"
	}
	if r.Chance(25) {
		names[r.Intn(n)] = am.StateHeartbeat
	}
	if r.Chance(80) {
		names = append(names, am.StateException)
	}
	in := &C16Input{Names: names, FSeed: r.U64()}
	cnt := r.Range(0, 40)
	if r.Chance(8) {
		cnt = r.Range(0, 2)
	}
	clock := make([]uint64, len(names))
	var q uint64
	dupID := r.Chance(10)
	for i := 0; i < cnt; i++ {
		m := C16Msg{ID: fmt.Sprintf("t%d", i), Accepted: !r.Chance(25), Check: r.Chance(10),
			Auto: r.Chance(20), Queued: r.Chance(25)}
		if dupID && i > 0 && r.Chance(30) {
			m.ID = fmt.Sprintf("t%d", r.Intn(i))
		}
		if !m.Queued && m.Accepted && !m.Check {
			for k := range clock {
				if r.Chance(30) {
					clock[k] += uint64(r.Range(1, 2))
				}
			}
		}
		if !wellFormed && r.Chance(15) {
			// time goes backwards / jumps
			for k := range clock {
				if r.Chance(40) {
					clock[k] = uint64(r.Intn(6))
				}
			}
		}
		m.Clocks = slices.Clone(clock)
		if !wellFormed {
			switch x := r.Intn(100); {
			case x < 6:
				m.Clocks = m.Clocks[:r.Intn(len(clock))] // shorter than the index (may be empty)
			case x < 12:
				m.Clocks = append(m.Clocks, uint64(r.Intn(4)), uint64(r.Intn(4)))
			}
		}
		if r.Chance(60) {
			q += uint64(r.Intn(3))
		}
		m.QTick = q
		if !wellFormed && r.Chance(15) {
			m.QTick = uint64(r.Intn(int(q) + 3))
		}
		if m.Queued {
			m.Accepted = true
			m.MQTick = q + uint64(r.Range(1, 3))
			if r.Chance(30) {
				m.Token = uint64(r.Range(1, 5))
				m.MQTick = 0
			}
		} else if r.Chance(15) {
			m.Token = uint64(r.Range(1, 5))
		}
		nCalled, nSteps := r.Intn(3), r.Intn(5)
		for k := 0; k < nCalled; k++ {
			m.Called = append(m.Called, r.Intn(len(names)))
		}
		for k := 0; k < nSteps; k++ {
			m.Steps = append(m.Steps, [2]int{r.Range(-2, len(names)-1), r.Range(-2, len(names)-1)})
		}
		in.Msgs = append(in.Msgs, m)
	}
	return in
}

// ------------------------------------------------------------ runner

func runC16(c *Ctx) error {
	out := NewOut(c.OutDir, "C16",
		"From Coq Require Import List NArith ZArith.\nFrom AMV Require Import Model.DbgIndex Spec.C16 Run.EvalC16.\nImport ListNotations.",
		"c16case", "check_all", 20)
	must(os.MkdirAll(c.OutDir, 0o755))
	var err error
	c16Tmp, err = os.MkdirTemp("", "amverif-c16-")
	must(err)
	defer os.RemoveAll(c16Tmp)

	nCase := 0
	emit := func(kind string, in *C16Input) {
		nCase++
		t0 := time.Now()
		name := fmt.Sprintf("s%d", nCase)
		obs := c16Exec(in, name)
		// the session files of this case
		if fs, _ := filepath.Glob(filepath.Join(c16Tmp, name+"*")); len(fs) > 0 {
			for _, f := range fs {
				os.RemoveAll(f)
			}
		}
		if os.Getenv("AMV_C16_TIMING") != "" {
			fmt.Fprintf(os.Stderr, "case %d %s: %v records=%d nav=%d\n", nCase, kind, time.Since(t0), len(obs.Msgs), len(obs.Nav))
		}
		if obs.Err != "" {
			if strings.HasPrefix(obs.Err, "parse:") || strings.HasPrefix(obs.Err, "verify:") {
				out.Count("skipped", "schema rejected")
				return
			}
			// an infrastructure failure must not pass silently
			panic(fmt.Sprintf("C16 case %d (%s): %s", nCase, kind, obs.Err))
		}
		mode := "synthetic"
		if obs.Machine {
			mode = "machine"
		}
		out.Count("stream", mode)
		out.Count("records", bucket(len(obs.Msgs)))
		out.Count("states", fmt.Sprint(obs.N))
		nq, nc, na, nk, ne := 0, 0, 0, 0, len(obs.Errors)
		for _, m := range obs.Msgs {
			if m.Queued {
				nq++
			}
			if !m.Accepted {
				nc++
			}
			if m.Auto {
				na++
			}
			if m.Check {
				nk++
			}
		}
		out.Count("queued_records", bucket(nq))
		out.Count("canceled_records", bucket(nc))
		out.Count("auto_records", bucket(na))
		out.Count("check_records", bucket(nk))
		out.Count("error_records", bucket(ne))
		out.Count("nav", []string{"none", "imported", "live", "live, two clients"}[obs.NavMode])
		if obs.NavMode == 3 {
			// switches that took place, and toggles while the decoy was selected
			nsw, ntg, prevSel := 0, 0, 0
			for _, st := range obs.Nav {
				if st.Cmd.K == "toggle" && prevSel == 1 {
					ntg++
				}
				if st.Obs.Err != 3 && st.Obs.Sel != prevSel {
					nsw++
				}
				prevSel = st.Obs.Sel
			}
			out.Count("client_switches", bucket(nsw))
			out.Count("toggles_while_decoy_selected", bucket(ntg))
			out.Count("decoy_records", bucket(len(obs.Msgs2)))
		}
		if obs.NavMode != 0 {
			out.Count("nav_commands", bucket(len(obs.Nav)))
			if obs.NavHung {
				out.Count("debugger_livelock", "yes")
			}
		}
		if obs.Lost != 0 {
			out.Count("lost_records", fmt.Sprint(obs.Lost))
		}
		if obs.Crashed {
			out.Count("source_crashed", "yes")
		}
		out.Add(kind, in, obs, c16Coq(obs), len(obs.Msgs) == 0, "")
	}

	cases, replayOnly := c.loadCases()
	for _, cc := range cases {
		var in C16Input
		must(json.Unmarshal(cc.Input, &in))
		emit("corpus:"+cc.Name, &in)
	}
	if replayOnly {
		out.Close("replay", nil)
		return nil
	}

	r := c.Rng
	base := GenOpt{MinStates: 2, MaxStates: 7, AutoPct: 25, MultiPct: 25, MinCalls: 1,
		MaxCalls: 24, Health: true, Checks: true, AddErr: true}
	withH := base
	withH.Handlers, withH.VetoPct, withH.NestedPct = true, 40, 25
	autos := withH
	autos.Shape = "autos"

	nMach := c.N(220, 3000)
	for i := 0; i < nMach; i++ {
		var in *C16Input
		kind := ""
		switch i % 4 {
		case 0:
			kind, in = "machine-plain", c16GenMachine(r, base)
		case 1, 2:
			kind, in = "machine-handlers", c16GenMachine(r, withH)
		default:
			kind, in = "machine-autos", c16GenMachine(r, autos)
		}
		switch {
		case i%5 == 1:
			in.Nav = c16GenNav(r, false)
			kind += "+nav"
		case i%5 == 3:
			in.Nav = c16GenNav(r, true)
			kind += "+live"
		case i%10 == 4:
			in.Nav = c16GenNav2(r)
			kind += "+live2"
		}
		emit(kind, in)
	}
	nSyn := c.N(200, 3000)
	for i := 0; i < nSyn; i++ {
		// sessions that are navigated are well-formed ones (a malformed record
		// makes hParseMsg add an error to the debugger machine)
		wf := i%3 == 0 || i%6 == 5
		in := c16GenSynthetic(r, wf)
		kind := "synthetic-malformed"
		if wf {
			kind = "synthetic-wellformed"
		}
		if i%6 == 0 {
			in.Nav = c16GenNav(r, false)
			kind += "+nav"
		} else if i%6 == 3 {
			in.Nav = c16GenNav(r, true)
			kind += "+live"
		} else if i%6 == 5 {
			in.Nav = c16GenNav2(r)
			kind += "+live2"
		}
		emit(kind, in)
	}

	out.Close("machine: random schemas (2-7 user states + Exception, some with an Err* / Healthcheck / Heartbeat state), "+
		"histories of 1-24 Add/Remove/Set/Toggle/AddErr/CanAdd/CanRemove calls with scripted vetoes and nested "+
		"mutations, check logging on/off, traced by the real dbg.Tracer over a loopback RPC sink; synthetic: "+
		"arbitrary record lists (0-40 records, non-monotone queue ticks / time sums, clocks shorter and longer "+
		"than the index, duplicate ids); every lookup is queried on every position (queue ticks 0..max+2, time "+
		"sums 0..max+2, receive times, all ids + unknown ones, tx -2..n+2 x 7 distances, cursors -1..n+2); 2/5 of "+
		"the machine cases and 1/3 of the synthetic ones drive the headless debugger (imported or live) with "+
		"4-24 forward/back/jump/filter commands; another 1/10 of the machine cases and 1/6 of the synthetic ones "+
		"are live sessions of TWO clients (the decoy: a transformed copy of the records under another machine / "+
		"connection id, arrival interleaved in 1-5 batches) driven in rounds of navigation / switch to the other "+
		"client / filter toggles / switch back / navigation; distinct by (input, observation); non-trivial = at "+
		"least one record",
		nil)
	return nil
}
