//go:build p_c09 || p_all

package main

// C09 — RPC mirror converges. A real source machine, a real arpc.Server and a
// real arpc.Client / NetworkMachine, in process, over 127.0.0.1 TCP through a
// cut-able proxy. The harness drives scripted histories (local mutations,
// client-issued mutations, push windows, explicit syncs, connection drops)
// and records what both sides hold after every step. The protocol model
// (Conc/RpcSync.v) is run in Coq on the same step list.
//
// Pushes are made deterministic without schedule points: Server.PushInterval
// is kept at 0 (pushClient returns at once) and a "push window" sets it to
// 1ns for a bounded time, so that the ticker (period fixed at RpcReady) and
// the tracer goroutines call pushClient with the latest data.

import (
	"context"
	"encoding/json"
	"fmt"
	"io"
	"net"
	"os"
	"strings"
	"sync"
	"sync/atomic"
	"time"

	am "github.com/pancsta/asyncmachine-go/pkg/machine"
	arpc "github.com/pancsta/asyncmachine-go/pkg/rpc"
	ssrpc "github.com/pancsta/asyncmachine-go/pkg/rpc/states"
)

// ---------------------------------------------------------------- input

type C09Rel struct {
	State   int   `json:"state"`
	Require []int `json:"require,omitempty"`
	Remove  []int `json:"remove,omitempty"`
	Add     []int `json:"add,omitempty"`
	Multi   bool  `json:"multi,omitempty"`
}

type C09Op struct {
	// local | client | push | sync | drop
	Kind   string `json:"kind"`
	Mut    string `json:"mut,omitempty"` // add | remove | set
	States []int  `json:"states,omitempty"`
	// race: the local mutation made while the reply of the client mutation
	// (Mut, States) is parked after it was computed
	Mut2    string `json:"mut2,omitempty"`
	States2 []int  `json:"states2,omitempty"`
}

type C09Input struct {
	N        int      `json:"n"` // user states S0.. (Exception is appended)
	Rels     []C09Rel `json:"rels,omitempty"`
	NoSchema bool     `json:"no_schema"`
	Allowed  []int    `json:"allowed,omitempty"` // nil = no allow list
	UseAllow bool     `json:"use_allow"`
	Skipped  []int    `json:"skipped,omitempty"`
	Shallow  bool     `json:"shallow"`
	SyncMut  bool     `json:"sync_mutations"`
	Pushes   bool     `json:"pushes"` // false: PushInterval 0 for the whole run
	MachTick uint32   `json:"mach_tick,omitempty"`
	Pre      []C09Op  `json:"pre,omitempty"` // local mutations before the handshake
	Ops      []C09Op  `json:"ops"`
}

// ---------------------------------------------------------------- observation

type c09Snap struct {
	Time []uint64 `json:"t"`
	Q    uint64   `json:"q"`
	M    uint32   `json:"m"`
}

type c09Mirror struct {
	Time   []uint64 `json:"t"`
	Q      uint64   `json:"q"`
	M      uint32   `json:"m"`
	Active []bool   `json:"a"` // NetworkMachine.Is1 per client state
	Clock  []uint64 `json:"c"` // NetworkMachine.Tick per client state (the Clock / Tick / WhenTime view)
}

type c09Step struct {
	Kind     string    `json:"kind"`
	Trans    []c09Snap `json:"trans,omitempty"` // source snapshots at each TransitionEnd of this step
	Src      c09Snap   `json:"src"`             // source after the step
	Mir      c09Mirror `json:"mir"`             // mirror after the step (for client: when the call returned)
	ResCli   int       `json:"res_cli"`         // client ops: result returned by the NetworkMachine (1 exec 2 canceled 3 queued 0 n/a 9 timeout)
	ResSrc   int       `json:"res_src"`         // result the source produced
	Timeout  bool      `json:"timeout,omitempty"`
	Ready    bool      `json:"ready"`               // client Ready after the step
	Pushes   int       `json:"pushes"`              // pushClient runs that reached storeLastPush during the step
	Rehello  bool      `json:"rehello,omitempty"`   // drop: the client completed a new handshake and is Ready
	SrvReady bool      `json:"srv_ready,omitempty"` // drop: the server is Ready again (within 1 s after the client)
	// race: source transitions / snapshot / mirror while the reply was parked
	Trans2 []c09Snap  `json:"trans2,omitempty"`
	Mir2   *c09Mirror `json:"mir2,omitempty"`
	MirRet *c09Mirror `json:"mir_ret,omitempty"` // race: mirror when the call returned (Mir: after the client settled)
	Parked bool       `json:"parked,omitempty"`
	WaitMs int        `json:"wait_ms,omitempty"` // drop: time until the new handshake (diagnostic, not compared)
}

type c09Obs struct {
	Err         string    `json:"err,omitempty"`
	Tracked     []int     `json:"tracked"` // server tracked idx -> machine idx
	CliNames    []string  `json:"cli_names"`
	Hello       c09Mirror `json:"hello"`
	HelloSrc    c09Snap   `json:"hello_src"`
	Steps       []c09Step `json:"steps"`
	FinalSrc    c09Snap   `json:"final_src"`
	FinalMir    c09Mirror `json:"final_mir"`
	CliReady    bool      `json:"cli_ready"`
	CliRetry    bool      `json:"cli_retrying"`
	CliErr      bool      `json:"cli_exception"`
	CliErrs     int       `json:"cli_err_count"`
	FinalPushes int       `json:"final_pushes"`
	Stuck       bool      `json:"stuck"` // a call through the client did not return in time
}

// ---------------------------------------------------------------- proxy

type c09Leg struct {
	c, s net.Conn // client leg, server leg
	hold atomic.Bool
}

type c09Proxy struct {
	lis    net.Listener
	target string
	mx     sync.Mutex
	conns  []*c09Leg
	held   []*c09Leg
	closed atomic.Bool
}

func newC09Proxy(target string) *c09Proxy {
	lis, err := net.Listen("tcp4", "127.0.0.1:0")
	must(err)
	p := &c09Proxy{lis: lis, target: target}
	go p.loop()
	return p
}

func (p *c09Proxy) Addr() string { return p.lis.Addr().String() }

func (p *c09Proxy) loop() {
	for {
		c, err := p.lis.Accept()
		if err != nil {
			return
		}
		s, err := net.Dial("tcp4", p.target)
		if err != nil {
			c.Close()
			continue
		}
		l := &c09Leg{c: c, s: s}
		p.mx.Lock()
		p.conns = append(p.conns, l)
		p.mx.Unlock()
		go func() {
			io.Copy(s, c)
			c.Close()
			if !l.hold.Load() {
				s.Close()
			}
		}()
		go func() { io.Copy(c, s); s.Close(); c.Close() }()
	}
}

// Cut closes every open connection (both directions).
func (p *c09Proxy) Cut() {
	p.mx.Lock()
	cs := p.conns
	p.conns = nil
	p.mx.Unlock()
	for _, l := range cs {
		l.c.Close()
		l.s.Close()
	}
}

// CutClientSide closes the client legs only: the server keeps a half-open
// connection until ReleaseHeld.
func (p *c09Proxy) CutClientSide() {
	p.mx.Lock()
	cs := p.conns
	p.conns = nil
	p.held = append(p.held, cs...)
	p.mx.Unlock()
	for _, l := range cs {
		l.hold.Store(true)
		l.c.Close()
	}
}

// ReleaseHeld lets the server see the end of the half-open connections.
func (p *c09Proxy) ReleaseHeld() {
	p.mx.Lock()
	cs := p.held
	p.held = nil
	p.mx.Unlock()
	for _, l := range cs {
		l.s.Close()
	}
}

func (p *c09Proxy) Close() {
	p.closed.Store(true)
	p.lis.Close()
	p.Cut()
	p.ReleaseHeld()
}

// ---------------------------------------------------------------- source wrapper

// c09Source wraps the source machine to record the result the source
// produced for a mutation issued by the server.
type c09Source struct {
	*am.Machine
	mx   sync.Mutex
	last am.Result
	n    int
}

func (s *c09Source) rec(r am.Result) am.Result {
	s.mx.Lock()
	s.last = r
	s.n++
	s.mx.Unlock()
	return r
}
func (s *c09Source) Add(states am.S, args am.A) am.Result { return s.rec(s.Machine.Add(states, args)) }
func (s *c09Source) Remove(states am.S, args am.A) am.Result {
	return s.rec(s.Machine.Remove(states, args))
}
func (s *c09Source) Set(states am.S, args am.A) am.Result { return s.rec(s.Machine.Set(states, args)) }
func (s *c09Source) take() (am.Result, int) {
	s.mx.Lock()
	defer s.mx.Unlock()
	r, n := s.last, s.n
	s.n = 0
	return r, n
}

// c09Tracer records a snapshot at every TransitionEnd of the source.
type c09Tracer struct {
	*am.TracerNoOp
	mx    sync.Mutex
	snaps []c09Snap
}

func (t *c09Tracer) TransitionEnd(tx *am.Transition) {
	m := tx.Machine
	sn := c09Snap{Time: append([]uint64{}, m.Time(nil)...), Q: m.QueueTick(), M: m.MachineTick()}
	t.mx.Lock()
	t.snaps = append(t.snaps, sn)
	t.mx.Unlock()
}

func (t *c09Tracer) take() []c09Snap {
	t.mx.Lock()
	defer t.mx.Unlock()
	r := t.snaps
	t.snaps = nil
	return r
}

// ---------------------------------------------------------------- execution

const (
	c09Ticker    = time.Millisecond
	c09CallLimit = 1500 * time.Millisecond
)

func c09Names(n int) am.S {
	names := am.S{}
	for i := 0; i < n; i++ {
		names = append(names, fmt.Sprintf("S%d", i))
	}
	return append(names, am.StateException)
}

func c09Sel(names am.S, idx []int) am.S {
	r := am.S{}
	for _, i := range idx {
		if i >= 0 && i < len(names) {
			r = append(r, names[i])
		}
	}
	return r
}

func c09Res(r am.Result) int {
	switch {
	case r == am.Executed:
		return 1
	case r == am.Canceled:
		return 2
	default:
		return 3
	}
}

var c09Seq atomic.Int64

type c09Pair struct {
	in    *C09Input
	ctx   context.Context
	stop  context.CancelFunc
	names am.S
	src   *am.Machine
	wrap  *c09Source
	tr    *c09Tracer
	srv   *arpc.Server
	cli   *arpc.Client
	proxy *c09Proxy

	// what the harness expects lastPushData / dataLatest to hold; used ONLY to
	// decide how long a push window waits for push-done (never recorded)
	seenTrans bool
	latestNil bool
	syncSkew  int64 // Sync() started on the client minus served by the server, when quiet
	lastSum   uint64
	lastQ     uint64

	pushDone atomic.Int64
	parkNext atomic.Bool   // park the next reply-computed point
	parked   chan struct{} // signalled when a reply is parked
	release  chan struct{}
}

func (p *c09Pair) sched(point string) {
	switch point {
	case "push-done":
		p.pushDone.Add(1)
	case "reply-computed":
		if p.parkNext.CompareAndSwap(true, false) {
			p.parked <- struct{}{}
			select {
			case <-p.release:
			case <-time.After(5 * time.Second):
			}
		}
	}
}

func c09Mutate(m am.Api, mut string, states am.S) am.Result {
	switch mut {
	case "remove":
		return m.Remove(states, nil)
	case "set":
		return m.Set(states, nil)
	default:
		return m.Add(states, nil)
	}
}

func c09WaitState(ctx context.Context, m *am.Machine, state string, d time.Duration) bool {
	t := time.NewTimer(d)
	defer t.Stop()
	select {
	case <-m.When1(state, ctx):
		return true
	case <-t.C:
		return m.Is1(state)
	}
}

func newC09Pair(in *C09Input) (*c09Pair, error) {
	id := c09Seq.Add(1)
	ctx, cancel := context.WithCancel(context.Background())
	p := &c09Pair{in: in, ctx: ctx, stop: cancel, names: c09Names(in.N)}
	schema := am.Schema{}
	for i := 0; i < in.N; i++ {
		schema[p.names[i]] = am.State{}
	}
	for _, r := range in.Rels {
		if r.State < 0 || r.State >= in.N {
			continue
		}
		schema[p.names[r.State]] = am.State{Multi: r.Multi,
			Require: c09Sel(p.names[:in.N], r.Require), Remove: c09Sel(p.names[:in.N], r.Remove),
			Add: c09Sel(p.names[:in.N], r.Add)}
	}
	p.src = am.New(ctx, schema, &am.Opts{Id: fmt.Sprintf("c09src%d", id), HandlerTimeout: 5 * time.Second})
	if err := p.src.VerifyStates(p.names); err != nil {
		cancel()
		return nil, err
	}
	if in.MachTick != 0 {
		p.src.VerifSetMachineTick(in.MachTick)
	}
	for _, op := range in.Pre {
		c09Mutate(p.src, op.Mut, c09Sel(p.names, op.States))
	}
	p.tr = &c09Tracer{TracerNoOp: &am.TracerNoOp{Id: "c09"}}
	p.wrap = &c09Source{Machine: p.src}

	srv, err := arpc.NewServer(ctx, "127.0.0.1:0", fmt.Sprintf("c09-%d", id), p.wrap, &arpc.ServerOpts{Parent: p.src})
	if err != nil {
		cancel()
		return nil, err
	}
	p.srv = srv
	p.parked = make(chan struct{}, 1)
	p.release = make(chan struct{}, 1)
	arpc.VerifSetSched(srv, p.sched)
	// my tracer after the server's: same TransitionEnd point
	if _, err := p.src.BindTracer(p.tr); err != nil {
		cancel()
		return nil, err
	}
	// the ticker period is fixed when RpcReady is entered; pushes themselves
	// are switched with PushInterval (0 = disabled)
	iv := c09Ticker
	if !in.Pushes {
		iv = 0
	}
	srv.PushInterval.Store(&iv)
	srv.Start(nil)
	if !c09WaitState(ctx, srv.Mach, ssrpc.ServerStates.RpcReady, 3*time.Second) {
		p.Close()
		return nil, fmt.Errorf("server not RpcReady")
	}
	p.closeWindow()
	p.proxy = newC09Proxy(srv.Addr)

	var cschema am.Schema
	if !in.NoSchema {
		cschema = p.src.Schema()
	}
	opts := &arpc.ClientOpts{Parent: p.src, NoSchema: in.NoSchema, SyncMutations: in.SyncMut,
		SyncShallowClocks: in.Shallow, DebugDisable: true}
	if in.UseAllow {
		opts.AllowedStates = c09Sel(p.names, in.Allowed)
	}
	if len(in.Skipped) > 0 {
		opts.SkippedStates = c09Sel(p.names, in.Skipped)
	}
	cli, err := arpc.NewClient(ctx, p.proxy.Addr(), fmt.Sprintf("c09-%d", id), cschema, opts)
	if err != nil {
		p.Close()
		return nil, err
	}
	cli.ConnRetryDelay = 5 * time.Millisecond
	cli.ConnRetryBackoff = 20 * time.Millisecond
	cli.CallRetryDelay = 5 * time.Millisecond
	cli.CallRetryBackoff = 20 * time.Millisecond
	cli.CallRetries = 3
	p.cli = cli
	cli.Start(nil)
	if !c09WaitState(ctx, cli.Mach, ssrpc.ClientStates.Ready, 3*time.Second) ||
		!c09WaitState(ctx, srv.Mach, ssrpc.ServerStates.Ready, 3*time.Second) {
		p.Close()
		return nil, fmt.Errorf("client/server not Ready")
	}
	p.helloed()
	return p, nil
}

func (p *c09Pair) Close() {
	if p.srv != nil {
		arpc.VerifSetSched(p.srv, nil)
	}
	if p.proxy != nil {
		p.proxy.Close()
	}
	p.stop()
	if p.cli != nil && p.cli.Mach != nil {
		p.cli.Mach.Dispose()
	}
	if p.srv != nil && p.srv.Mach != nil {
		p.srv.Mach.Dispose()
	}
	p.src.Dispose()
}

func (p *c09Pair) openWindow() {
	if !p.in.Pushes {
		return
	}
	iv := time.Nanosecond
	p.srv.PushInterval.Store(&iv)
}

func (p *c09Pair) closeWindow() {
	iv := time.Duration(0)
	p.srv.PushInterval.Store(&iv)
}

func (p *c09Pair) srcSnap() c09Snap {
	return c09Snap{Time: append([]uint64{}, p.src.Time(nil)...), Q: p.src.QueueTick(), M: p.src.MachineTick()}
}

func (p *c09Pair) mirror() c09Mirror {
	nm := p.cli.NetMach
	names := nm.StateNames()
	m := c09Mirror{Time: append([]uint64{}, nm.Time(nil)...), Q: nm.QueueTick(), M: nm.MachineTick()}
	for _, s := range names {
		m.Active = append(m.Active, nm.Is1(s))
	}
	// the view behind Tick / Clock / IsClock / WhenTime; read once more when it
	// disagrees with Time (an update may land between the two reads)
	for try := 0; try < 3; try++ {
		m.Clock = m.Clock[:0]
		agree := true
		for i, s := range names {
			t := nm.Tick(s)
			m.Clock = append(m.Clock, t)
			if i < len(m.Time) && t != m.Time[i] {
				agree = false
			}
		}
		if agree {
			break
		}
		m.Time = append([]uint64{}, nm.Time(nil)...)
		m.Q, m.M = nm.QueueTick(), nm.MachineTick()
		for i, s := range names {
			m.Active[i] = nm.Is1(s)
		}
	}
	return m
}

// converged: the mirror's tracked entries equal the source's (deep) / agree
// in parity (shallow), and the queue ticks agree.
func (p *c09Pair) converged() bool {
	nm := p.cli.NetMach
	names := nm.StateNames()
	mt := nm.Time(nil)
	st := p.src.Time(nil)
	if nm.QueueTick() != p.src.QueueTick() {
		return false
	}
	tracked := p.trackedNames()
	for _, name := range tracked {
		ci := indexOf(names, name)
		si := indexOf(p.names, name)
		if ci < 0 || si < 0 || ci >= len(mt) {
			return false
		}
		if p.in.Shallow {
			if mt[ci]%2 != st[si]%2 {
				return false
			}
		} else if mt[ci] != st[si] {
			return false
		}
	}
	return true
}

func indexOf(l am.S, s string) int {
	for i, x := range l {
		if x == s {
			return i
		}
	}
	return -1
}

func (p *c09Pair) trackedNames() am.S {
	t := am.S(append(am.S{}, p.names...))
	if p.in.UseAllow {
		t = am.StatesShared(t, c09Sel(p.names, p.in.Allowed))
	}
	return am.StatesDiff(t, c09Sel(p.names, p.in.Skipped))
}

// curKey is (mTrackedTimeSum, queueTick) of the tracer's dataLatest.
func (p *c09Pair) curKey() (uint64, uint64) {
	if !p.seenTrans {
		return 0, 1 // NewServer's placeholder
	}
	t := p.src.Time(nil)
	var sum uint64
	if p.in.Shallow {
		for i, v := range t {
			if p.in.NoSchema && indexOf(p.trackedNames(), p.names[i]) < 0 {
				continue
			}
			sum += v % 2
		}
	} else {
		for _, name := range p.trackedNames() {
			sum += t[indexOf(p.names, name)]
		}
	}
	return sum, p.src.QueueTick()
}

// exported: the server exported the current data (push-done or a reply).
func (p *c09Pair) exported() {
	p.lastSum, p.lastQ = p.curKey()
	if p.in.SyncMut {
		p.latestNil = true
	}
}

// helloed: RemoteHello memorised the source as it is now.
func (p *c09Pair) helloed() {
	t := p.src.Time(nil)
	p.lastSum = 0
	for _, name := range p.trackedNames() {
		p.lastSum += t[indexOf(p.names, name)]
	}
	p.lastQ = p.src.QueueTick()
}

func (p *c09Pair) pushExpected() bool {
	if p.latestNil || !p.seenTrans { // the placeholder is not pushed (ca3c269)
		return false
	}
	s, q := p.curKey()
	return s != p.lastSum || q != p.lastQ
}

func c09Count(m *am.Machine, state string) int64 { return int64((m.Tick(state) + 1) / 2) }

// settleClient waits (bounded) until no Sync() of the client is outstanding
// and the mirror stopped moving: a rejected push makes the client request a
// full Sync from a goroutine (86fb806 / 4b9897e), which lands some time after
// the push was processed. Sync() adds MetricSync on the client when it starts,
// RemoteSync adds MetricSync on the server when it is served.
func (p *c09Pair) settleClient() {
	time.Sleep(2 * time.Millisecond)
	deadline := time.Now().Add(250 * time.Millisecond)
	prev := ""
	stable, odd := 0, 0
	for time.Now().Before(deadline) {
		diff := c09Count(p.cli.Mach, ssrpc.ClientStates.MetricSync) - c09Count(p.srv.Mach, ssrpc.ServerStates.MetricSync)
		mb, _ := json.Marshal(p.mirror())
		m := fmt.Sprint(diff) + string(mb)
		if m == prev {
			if diff == p.syncSkew {
				stable++
				if stable >= 3 {
					return
				}
			} else {
				// a Sync that cannot be served now (callLock held by a parked
				// call, connection lost): accept after 40 quiet polls
				odd++
				if odd >= 40 {
					p.syncSkew = diff
					return
				}
			}
		} else {
			stable, odd = 0, 0
		}
		prev = m
		time.Sleep(time.Millisecond)
	}
}

// pushWindow lets the server push the latest data ("push-done" tells that
// a push was produced; its absence means pushClient saw no change) and waits
// for the client to have processed it.
func (p *c09Pair) pushWindow() {
	if !p.in.Pushes {
		return
	}
	before := p.pushDone.Load()
	mb, _ := json.Marshal(p.mirror())
	limit := 20 * c09Ticker
	if p.pushExpected() {
		limit = 500 * time.Millisecond
	}
	p.openWindow()
	deadline := time.Now().Add(limit)
	for time.Now().Before(deadline) && p.pushDone.Load() == before {
		time.Sleep(c09Ticker / 4)
	}
	if p.pushDone.Load() != before {
		p.exported()
		d2 := time.Now().Add(20 * c09Ticker)
		for time.Now().Before(d2) {
			ma, _ := json.Marshal(p.mirror())
			if string(ma) != string(mb) {
				break
			}
			time.Sleep(c09Ticker / 4)
		}
		time.Sleep(c09Ticker)
		p.settleClient()
	}
	p.closeWindow()
	// a pushClient call that passed the gate before the window closed
	time.Sleep(3 * c09Ticker)
}

func (p *c09Pair) ready() bool { return p.cli.Mach.Is1(ssrpc.ClientStates.Ready) }

func c09Exec(in *C09Input) (obs *c09Obs) {
	obs = &c09Obs{}
	defer func() {
		if r := recover(); r != nil {
			obs.Err = fmt.Sprintf("panic: %v", r)
		}
	}()
	p, err := newC09Pair(in)
	if err != nil {
		obs.Err = "setup: " + err.Error()
		return obs
	}
	defer p.Close()
	obs.CliNames = p.cli.NetMach.StateNames()
	for _, name := range p.trackedNames() {
		obs.Tracked = append(obs.Tracked, indexOf(p.names, name))
	}
	obs.Hello = p.mirror()
	obs.HelloSrc = p.srcSnap()
	p.tr.take()

	clientCall := func(st *c09Step, mut string, states []int, onPark func()) {
		if obs.Stuck {
			st.Timeout = true
			return
		}
		cn := p.cli.NetMach.StateNames()
		// states by name: the client may know fewer states
		var sel am.S
		for _, s := range c09Sel(p.names, states) {
			if indexOf(cn, s) >= 0 {
				sel = append(sel, s)
			}
		}
		if len(sel) == 0 {
			st.Kind = "noop"
			return
		}
		p.wrap.take()
		done := make(chan struct{})
		var res am.Result
		var mir c09Mirror
		if onPark != nil {
			p.parkNext.Store(true)
		}
		go func() {
			defer func() { recover(); close(done) }()
			res = c09Mutate(p.cli.NetMach, mut, sel)
			mir = p.mirror()
		}()
		if onPark != nil {
			select {
			case <-p.parked:
				st.Parked = true
				onPark()
				p.release <- struct{}{}
			case <-done:
			case <-time.After(c09CallLimit):
			}
			p.parkNext.Store(false)
		}
		select {
		case <-done:
			st.ResCli = c09Res(res)
			st.Mir = mir
			if onPark != nil {
				// a Sync requested while the call held callLock runs now
				mr := mir
				st.MirRet = &mr
				p.settleClient()
				st.Mir = p.mirror()
			}
		case <-time.After(c09CallLimit):
			st.Timeout = true
			st.ResCli = 9
			obs.Stuck = true
		}
		rs, n := p.wrap.take()
		if n > 0 {
			st.ResSrc = c09Res(rs)
			if !st.Parked {
				p.seenTrans, p.latestNil = true, false
				p.exported()
			}
		}
	}

	for _, op := range in.Ops {
		st := c09Step{Kind: op.Kind}
		pd := p.pushDone.Load()
		switch op.Kind {
		case "local":
			c09Mutate(p.src, op.Mut, c09Sel(p.names, op.States))
			p.seenTrans, p.latestNil = true, false
		case "client":
			clientCall(&st, op.Mut, op.States, nil)
		case "race":
			clientCall(&st, op.Mut, op.States, func() {
				st.Trans = p.tr.take()
				p.seenTrans, p.latestNil = true, false
				p.exported()
				c09Mutate(p.src, op.Mut2, c09Sel(p.names, op.States2))
				p.latestNil = false
				p.pushWindow()
				st.Trans2 = p.tr.take()
				m2 := p.mirror()
				st.Mir2 = &m2
			})
		case "push":
			p.pushWindow()
		case "sync":
			if obs.Stuck {
				st.Timeout = true
				break
			}
			done := make(chan struct{})
			go func() {
				defer func() { recover(); close(done) }()
				p.cli.Sync()
			}()
			select {
			case <-done:
			case <-time.After(c09CallLimit):
				st.Timeout = true
				obs.Stuck = true
			}
		case "drop", "halfdrop":
			tick := p.cli.Mach.Tick(ssrpc.ClientStates.HandshakeDone)
			t0 := time.Now()
			if op.Kind == "halfdrop" {
				// the client's side dies first; the server notices the end of the
				// old connection only after the client has reconnected
				p.proxy.CutClientSide()
			} else {
				p.proxy.Cut()
			}
			// wait for a new handshake
			deadline := time.Now().Add(3 * time.Second)
			for time.Now().Before(deadline) {
				if p.cli.Mach.Tick(ssrpc.ClientStates.HandshakeDone) >= tick+1+tick%2 && p.ready() {
					st.Rehello = true
					break
				}
				time.Sleep(2 * time.Millisecond)
			}
			if st.Rehello {
				p.helloed()
				d2 := time.Now().Add(time.Second)
				for time.Now().Before(d2) {
					if p.srv.Mach.Is1(ssrpc.ServerStates.Ready) {
						st.SrvReady = true
						break
					}
					time.Sleep(2 * time.Millisecond)
				}
			}
			if op.Kind == "halfdrop" {
				p.proxy.ReleaseHeld()
				time.Sleep(30 * time.Millisecond)
				st.SrvReady = st.SrvReady && p.srv.Mach.Is1(ssrpc.ServerStates.Ready)
			}
			st.WaitMs = int(time.Since(t0).Milliseconds())
			time.Sleep(2 * c09Ticker)
		}
		if !st.Parked {
			st.Trans = p.tr.take()
		}
		st.Src = p.srcSnap()
		if (op.Kind != "client" && op.Kind != "race") || st.Timeout || st.Kind == "noop" {
			st.Mir = p.mirror()
		}
		st.Ready = p.ready()
		st.Pushes = int(p.pushDone.Load() - pd)
		obs.Steps = append(obs.Steps, st)
	}

	// quiescence: the source stopped changing; allow pushes and a bounded
	// settling time
	pdq := p.pushDone.Load()
	p.pushWindow()
	obs.FinalPushes = int(p.pushDone.Load() - pdq)
	if os.Getenv("C09_DEBUG") != "" {
		fmt.Fprintf(os.Stderr, "srv: %v\ncli: %v\n", p.srv.Mach.ActiveStates(nil), p.cli.Mach.ActiveStates(nil))
	}
	obs.FinalSrc = p.srcSnap()
	obs.FinalMir = p.mirror()
	cm := p.cli.Mach
	obs.CliReady = cm.Is1(ssrpc.ClientStates.Ready)
	obs.CliRetry = cm.Is1(ssrpc.ClientStates.RetryingConn)
	obs.CliErr = cm.Is1(am.StateException)
	obs.CliErrs = int(cm.Tick(am.StateException)+1) / 2
	return obs
}

func init() { register("C09", runC09) }

// ---------------------------------------------------------------- Gallina

func c09CoqSnap(x c09Snap) string {
	return fmt.Sprintf("{| s_time := %s; s_q := %d; s_m := %d |}", coqNList(x.Time), x.Q, x.M)
}

func c09CoqSnaps(xs []c09Snap) string {
	parts := make([]string, len(xs))
	for i, x := range xs {
		parts[i] = c09CoqSnap(x)
	}
	return "[" + strings.Join(parts, "; ") + "]"
}

func c09CoqMir(m c09Mirror) string {
	bs := make([]string, len(m.Active))
	for i, b := range m.Active {
		bs[i] = coqBool(b)
	}
	return fmt.Sprintf("{| m_t := %s; m_q := %d; m_m := %d; m_a := [%s]; m_c := %s |}", coqNList(m.Time), m.Q, m.M,
		strings.Join(bs, ";"), coqNList(m.Clock))
}

func c09Coq(in *C09Input, obs *c09Obs) string {
	var b strings.Builder
	sync := !in.NoSchema
	fmt.Fprintf(&b, "{| k_p := {| p_codec := {| sync_schema := %s; shallow := %s; tracked := %s |}; p_mut := %s; p_hello_m := %s; p_sync_m := %s |}; k_pushes := %s; ",
		coqBool(sync), coqBool(in.Shallow), coqNatList(obs.Tracked), coqBool(in.SyncMut),
		coqBool(c09FixHelloM), coqBool(c09FixSyncM), coqBool(in.Pushes))
	fmt.Fprintf(&b, "k_n := %d; k_norel := %s; k_err := %s; ", in.N+1, coqBool(len(in.Rels) == 0), coqBool(obs.Err != ""))
	fmt.Fprintf(&b, "k_hello_src := %s; k_hello := %s;\n   k_steps := [", c09CoqSnap(obs.HelloSrc), c09CoqMir(obs.Hello))
	for i, st := range obs.Steps {
		if i > 0 {
			b.WriteString(";\n     ")
		}
		var step string
		switch st.Kind {
		case "local":
			step = "OLocal"
		case "client":
			step = fmt.Sprintf("(OClient %d %d)", st.ResCli, st.ResSrc)
		case "race":
			m2 := c09Mirror{}
			if st.Mir2 != nil {
				m2 = *st.Mir2
			}
			mr := st.Mir
			if st.MirRet != nil {
				mr = *st.MirRet
			}
			step = fmt.Sprintf("(ORace %s %s %s %s %d %d)", coqBool(st.Parked), c09CoqSnaps(st.Trans2), c09CoqMir(m2),
				c09CoqMir(mr), st.ResCli, st.ResSrc)
		case "push":
			step = "OPush"
		case "sync":
			step = "OSync"
		case "drop", "halfdrop":
			step = fmt.Sprintf("(ODrop %s %s)", coqBool(st.Rehello), coqBool(st.SrvReady))
		default:
			step = "ONoop"
		}
		fmt.Fprintf(&b, "{| o_step := %s; o_trans := %s; o_src := %s; o_mir := %s; o_timeout := %s; o_pushes := %d |}",
			step, c09CoqSnaps(st.Trans), c09CoqSnap(st.Src), c09CoqMir(st.Mir), coqBool(st.Timeout), st.Pushes)
	}
	fmt.Fprintf(&b, "];\n   k_final_src := %s; k_final := %s; k_final_pushes := %d; k_ready := %s; k_exc := %s |}",
		c09CoqSnap(obs.FinalSrc), c09CoqMir(obs.FinalMir), obs.FinalPushes, coqBool(obs.CliReady), coqBool(obs.CliErr))
	return b.String()
}

// ---------------------------------------------------------------- generators

func c09GenOps(r *Rng, in *C09Input, n int, pLocal, pClient, pPush, pSync, pDrop, pRace int) {
	muts := []string{"add", "add", "remove", "set"}
	states := func() []int {
		k := 1
		if r.Chance(25) {
			k = 2
		}
		var st []int
		for i := 0; i < k; i++ {
			x := r.Intn(in.N)
			dup := false
			for _, y := range st {
				if y == x {
					dup = true
				}
			}
			if !dup {
				st = append(st, x)
			}
		}
		return st
	}
	total := pLocal + pClient + pPush + pSync + pDrop + pRace
	for i := 0; i < n; i++ {
		x := r.Intn(total)
		switch {
		case x < pLocal:
			in.Ops = append(in.Ops, C09Op{Kind: "local", Mut: muts[r.Intn(len(muts))], States: states()})
		case x < pLocal+pClient:
			in.Ops = append(in.Ops, C09Op{Kind: "client", Mut: muts[r.Intn(len(muts))], States: states()})
		case x < pLocal+pClient+pPush:
			in.Ops = append(in.Ops, C09Op{Kind: "push"})
		case x < pLocal+pClient+pPush+pSync:
			in.Ops = append(in.Ops, C09Op{Kind: "sync"})
		case x < pLocal+pClient+pPush+pSync+pDrop:
			if r.Chance(30) {
				in.Ops = append(in.Ops, C09Op{Kind: "halfdrop"})
			} else {
				in.Ops = append(in.Ops, C09Op{Kind: "drop"})
			}
		default:
			in.Ops = append(in.Ops, C09Op{Kind: "race", Mut: muts[r.Intn(len(muts))], States: states(),
				Mut2: muts[r.Intn(len(muts))], States2: states()})
		}
	}
}

func c09GenRels(r *Rng, in *C09Input) {
	for i := 0; i < in.N; i++ {
		if !r.Chance(35) {
			continue
		}
		rel := C09Rel{State: i}
		o := r.Intn(in.N)
		if o == i {
			rel.Multi = true
		} else {
			switch r.Intn(3) {
			case 0:
				rel.Require = []int{o}
			case 1:
				rel.Remove = []int{o}
			default:
				rel.Add = []int{o}
			}
		}
		in.Rels = append(in.Rels, rel)
	}
}

func c09GenPartial(r *Rng, in *C09Input) {
	// allow / skip lists over 0..N (N = Exception); at least one user state stays tracked
	if r.Chance(60) {
		in.UseAllow = true
		in.Allowed = r.Subset(in.N+1, 60)
		has := false
		for _, x := range in.Allowed {
			if x < in.N {
				has = true
			}
		}
		if !has {
			in.Allowed = append([]int{r.Intn(in.N)}, in.Allowed...)
		}
		// the client may list the allowed states in any order: the tracked
		// order is the source's all the same
		if r.Chance(50) {
			pm := r.Perm(len(in.Allowed))
			sh := make([]int, len(in.Allowed))
			for i, j := range pm {
				sh[i] = in.Allowed[j]
			}
			in.Allowed = sh
		}
	}
	if !in.UseAllow || r.Chance(40) {
		in.Skipped = r.Subset(in.N+1, 30)
	}
	// keep one tracked user state
	tr := map[int]bool{}
	for i := 0; i <= in.N; i++ {
		tr[i] = !in.UseAllow
	}
	for _, x := range in.Allowed {
		tr[x] = true
	}
	keep := -1
	for i := 0; i < in.N; i++ {
		if tr[i] {
			keep = i
			break
		}
	}
	var sk []int
	for _, x := range in.Skipped {
		if x != keep {
			sk = append(sk, x)
		}
	}
	in.Skipped = sk
}

func c09Describe(in *C09Input, obs *c09Obs, out *Out) {
	out.Count("states", fmt.Sprint(in.N))
	out.Count("schema", map[bool]string{true: "no schema", false: "schema"}[in.NoSchema])
	out.Count("clocks", map[bool]string{true: "shallow", false: "deep"}[in.Shallow])
	out.Count("per_mutation_sync", fmt.Sprint(in.SyncMut))
	out.Count("pushes", map[bool]string{true: "push windows", false: "PushInterval 0"}[in.Pushes])
	part := "all states"
	if in.UseAllow && len(in.Skipped) > 0 {
		part = "allow+skip list"
	} else if in.UseAllow {
		part = "allow list"
	} else if len(in.Skipped) > 0 {
		part = "skip list"
	}
	out.Count("tracked", part)
	out.Count("relations", fmt.Sprint(len(in.Rels) > 0))
	out.Count("source_history_before_connect", fmt.Sprint(len(in.Pre) > 0))
	out.Count("machine_tick", fmt.Sprint(in.MachTick))
	for _, op := range in.Ops {
		out.Count("op", op.Kind)
	}
	switch {
	case obs.Err != "":
		out.Count("outcome", "harness error")
	case obs.Stuck:
		out.Count("outcome", "a client call blocked")
	default:
		conv := len(obs.FinalMir.Time) > 0
		out.Count("outcome", map[bool]string{true: "finished", false: "?"}[conv])
	}
}

// a push that landed outside a push window (timing): the case is re-run
func c09Flaky(in *C09Input, obs *c09Obs) bool {
	for i, st := range obs.Steps {
		k := in.Ops[i].Kind
		if (k == "local" || k == "client" || k == "sync" || k == "drop" || k == "halfdrop") && st.Pushes != 0 {
			return true
		}
	}
	return false
}

func c09ExecStable(in *C09Input) *c09Obs {
	var obs *c09Obs
	for try := 0; try < 3; try++ {
		obs = c09Exec(in)
		if obs.Err == "" && !c09Flaky(in, obs) {
			return obs
		}
		if obs.Err != "" && !strings.HasPrefix(obs.Err, "setup") {
			return obs
		}
	}
	return obs
}

// candidate repairs of /repo the model has a switch for; probed on the real
// code at start-up (a source with MachineTick 1: what machine tick does the
// mirror hold after the handshake / after a full Sync)
var c09FixHelloM, c09FixSyncM bool

func c09ProbeFixes() {
	in := &C09Input{N: 2, MachTick: 1, Ops: []C09Op{{Kind: "sync"}}}
	for try := 0; try < 3; try++ {
		obs := c09Exec(in)
		if obs.Err == "" && len(obs.Steps) == 1 && !obs.Steps[0].Timeout {
			c09FixHelloM = obs.Hello.M == 1
			c09FixSyncM = obs.Steps[0].Mir.M == 1
			return
		}
	}
}

type c09Job struct {
	kind string
	in   *C09Input
	obs  *c09Obs
}

func runC09(c *Ctx) error {
	if os.Getenv("C09_PROBE") != "" {
		return c09Probe(c)
	}
	out := NewOut(c.OutDir, "C09",
		"From Coq Require Import List NArith.\nFrom AMV Require Import Model.RpcCodec Conc.RpcSync Run.EvalC09.\nImport ListNotations.\nOpen Scope N_scope.",
		"c09case", "check_all", 150)

	c09ProbeFixes()
	var jobs []*c09Job
	cases, replayOnly := c.loadCases()
	for _, cc := range cases {
		var in C09Input
		must(json.Unmarshal(cc.Input, &in))
		jobs = append(jobs, &c09Job{kind: "corpus:" + cc.Name, in: &in})
	}
	if !replayOnly {
		r := c.Rng.Fork() // seeds k and k+1 of the shared SplitMix64 are the same stream shifted by one draw
		base := func() *C09Input {
			in := &C09Input{N: r.Range(2, 4), Pushes: true}
			if r.Chance(40) {
				c09GenRels(r, in)
			}
			if r.Chance(35) {
				for i := 0; i < r.Range(1, 3); i++ {
					in.Pre = append(in.Pre, C09Op{Kind: "local", Mut: "add", States: []int{r.Intn(in.N)}})
				}
			}
			return in
		}
		// (a) plain configuration: deep, schema, all states, in-order delivery
		for i := 0; i < c.N(110, 3000); i++ {
			in := base()
			in.Pushes = r.Chance(75)
			c09GenOps(r, in, r.Range(3, 10), 40, 30, 25, 2, 0, 0)
			jobs = append(jobs, &c09Job{kind: "plain", in: in})
		}
		// (b) every configuration dimension
		for i := 0; i < c.N(150, 4000); i++ {
			in := base()
			in.Pushes = r.Chance(75)
			in.NoSchema = r.Chance(40)
			in.Shallow = r.Chance(25)
			in.SyncMut = r.Chance(20)
			if r.Chance(50) {
				c09GenPartial(r, in)
			}
			if r.Chance(15) {
				in.MachTick = uint32(r.Range(1, 3))
			}
			c09GenOps(r, in, r.Range(3, 10), 35, 30, 25, 8, 0, 0)
			jobs = append(jobs, &c09Job{kind: "config", in: in})
		}
		// (c) fault stream: dropped connections
		for i := 0; i < c.N(50, 1200); i++ {
			in := base()
			in.NoSchema = r.Chance(30)
			if r.Chance(30) {
				c09GenPartial(r, in)
			}
			if r.Chance(25) {
				in.MachTick = uint32(r.Range(1, 2))
			}
			in.SyncMut = r.Chance(10)
			c09GenOps(r, in, r.Range(4, 9), 30, 25, 22, 5, 18, 0)
			jobs = append(jobs, &c09Job{kind: "fault", in: in})
		}
		// (d) forced schedules: a reply overtaken by a push
		for i := 0; i < c.N(40, 1000); i++ {
			in := base()
			in.NoSchema = r.Chance(30)
			in.SyncMut = r.Chance(10)
			in.Shallow = r.Chance(10)
			if r.Chance(30) {
				c09GenPartial(r, in)
			}
			c09GenOps(r, in, r.Range(2, 6), 30, 25, 20, 5, 0, 20)
			in.Ops = append(in.Ops, C09Op{Kind: "race", Mut: "add", States: []int{r.Intn(in.N)},
				Mut2: "add", States2: []int{r.Intn(in.N)}})
			c09GenOps(r, in, r.Range(0, 3), 35, 30, 30, 5, 0, 0)
			jobs = append(jobs, &c09Job{kind: "race", in: in})
		}
		// (e) malformed / degenerate: unknown states for the client, overlapping lists
		for i := 0; i < c.N(15, 300); i++ {
			in := base()
			in.NoSchema = r.Chance(60)
			in.UseAllow = true
			in.Allowed = []int{r.Intn(in.N)}
			if r.Chance(50) {
				in.Skipped = []int{(in.Allowed[0] + 1) % in.N, in.N}
			}
			c09GenOps(r, in, r.Range(3, 8), 35, 35, 25, 5, 0, 0)
			jobs = append(jobs, &c09Job{kind: "degenerate", in: in})
		}
	}

	// execute in parallel (every pair is independent), emit in order
	workers := 12
	if v := os.Getenv("C09_WORKERS"); v != "" {
		fmt.Sscan(v, &workers)
	}
	var wg sync.WaitGroup
	ch := make(chan *c09Job)
	for w := 0; w < workers; w++ {
		wg.Add(1)
		go func() {
			defer wg.Done()
			for j := range ch {
				j.obs = c09ExecStable(j.in)
			}
		}()
	}
	for _, j := range jobs {
		ch <- j
	}
	close(ch)
	wg.Wait()

	for _, j := range jobs {
		c09Describe(j.in, j.obs, out)
		trivial := len(j.in.Ops) == 0 || j.obs.Err != ""
		out.Add(j.kind, j.in, j.obs, c09Coq(j.in, j.obs), trivial, "")
	}
	rule := "corpus first; streams: plain (deep, schema, all states), config (schema/no schema x allow/skip lists x " +
		"shallow x per-mutation sync x PushInterval 0/windows x MachineTick), fault (connection cut + reconnect), " +
		"race (reply parked at the reply-computed point while a push is produced and delivered), degenerate. " +
		"Every case: a fresh source + Server + Client over 127.0.0.1 through a proxy; steps local/client/push/sync/drop/race; " +
		"distinct = distinct (input, observation); non-trivial = at least one step and the pair came up"
	if replayOnly {
		rule = "replay"
	}
	out.Close(rule, map[string]any{"repairs_present_in_repo": map[string]bool{
		"HandshakeDone takes MachineTick from the Hello": c09FixHelloM,
		"RemoteSync fills MsgSrvSync.MachTick":           c09FixSyncM}})
	return nil
}

func c09Probe(c *Ctx) error {
	b, err := os.ReadFile(os.Getenv("C09_PROBE"))
	if err != nil {
		return err
	}
	var ins []C09Input
	if err := json.Unmarshal(b, &ins); err != nil {
		return err
	}
	for i := range ins {
		t0 := time.Now()
		obs := c09Exec(&ins[i])
		o, _ := json.Marshal(obs)
		fmt.Printf("--- case %d (%.0f ms)\n%s\n", i, float64(time.Since(t0).Microseconds())/1000, strings.ReplaceAll(string(o), "},{", "},\n {"))
	}
	return nil
}
