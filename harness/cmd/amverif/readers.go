//go:build p_c01 || p_all

package main

import (
	"context"
	"regexp"
	"runtime"
	"strconv"
	"sync"
	"sync/atomic"
	"time"

	am "github.com/pancsta/asyncmachine-go/pkg/machine"
)

type tickSample struct {
	Tick   uint64
	Active bool
}

var reStateTick = regexp.MustCompile(`([A-Za-z0-9]+):(\d+)`)

// parseStringAll turns "(A:1 B:3) [C:0]" into per-state samples in names order.
func parseStringAll(s string, names am.S) []tickSample {
	ret := make([]tickSample, len(names))
	split := len(s)
	for i, ch := range s {
		if ch == ')' {
			split = i
			break
		}
	}
	for _, m := range reStateTick.FindAllStringSubmatchIndex(s, -1) {
		name := s[m[2]:m[3]]
		tick, _ := strconv.ParseUint(s[m[4]:m[5]], 10, 64)
		for i, n := range names {
			if n == name {
				ret[i] = tickSample{Tick: tick, Active: m[0] < split}
			}
		}
	}
	return ret
}

// runWithReaders executes the history's calls on one goroutine while
// [readers] goroutines sample StringAll; the tx:applied schedule point
// (right after setActiveStates released the lock) yields to widen the window.
func runWithReaders(in *HistInput, readers int) [][][]tickSample {
	names := histNames(in)
	schema := am.Schema{}
	for _, s := range in.States {
		schema[s.Name] = am.State{Auto: s.Auto, Multi: s.Multi, Require: pick(names, s.Require),
			Add: pick(names, s.Add), Remove: pick(names, s.Remove), After: pick(names, s.After)}
	}
	if _, err := schema.Parse(); err != nil {
		return nil
	}
	m := am.New(context.Background(), schema, &am.Opts{Id: "rd", HandlerTimeout: 5 * time.Second})
	if m.VerifyStates(names) != nil {
		return nil
	}
	m.VerifSetSched(func(point string) {
		if point == "tx:applied" {
			runtime.Gosched()
		}
	})
	defer m.VerifSetSched(nil)
	var stop atomic.Bool
	var wg sync.WaitGroup
	out := make([][][]tickSample, readers)
	for r := 0; r < readers; r++ {
		r := r
		wg.Add(1)
		go func() {
			defer wg.Done()
			for !stop.Load() && len(out[r]) < 400 {
				s := m.StringAll()
				if s != "" {
					out[r] = append(out[r], parseStringAll(s, names))
				}
				runtime.Gosched()
			}
		}()
	}
	for _, c := range in.Calls {
		func() {
			defer func() { _ = recover() }()
			doCall(m, names, c)
		}()
	}
	stop.Store(true)
	wg.Wait()
	// keep the evidence small: at most 60 samples per reader
	for r := range out {
		if len(out[r]) > 60 {
			step := len(out[r]) / 60
			var thin [][]tickSample
			for i := 0; i < len(out[r]); i += step {
				thin = append(thin, out[r][i])
			}
			out[r] = thin
		}
	}
	return out
}
