package main

// amverif — correspondence harness. Executes the implementation in /repo
// (built with -tags verif) on generated, corpus and replay cases and writes
// Gallina case files that the Coq side evaluates with vm_compute.
//
//   amverif <property> --tier quick|thorough --seed N --out DIR
//           [--replay FILE] [--corpus DIR] [--scale K]

import (
	"encoding/json"
	"flag"
	"fmt"
	"os"
	"path/filepath"
	"sort"
)

type Ctx struct {
	Prop    string
	Tier    string
	Seed    uint64
	OutDir  string
	Replay  string
	Corpus  string
	Scale   int
	Rng     *Rng
	Verbose bool
}

func (c *Ctx) Thorough() bool { return c.Tier == "thorough" }

// N scales a case count by tier and --scale.
func (c *Ctx) N(quick, thorough int) int {
	n := quick
	if c.Thorough() {
		n = thorough
	}
	if c.Scale > 1 {
		n *= c.Scale
	}
	return n
}

type runner func(c *Ctx) error

var registry = map[string]runner{}

func register(prop string, r runner) { registry[prop] = r }

// CorpusCase is the on-disk form of corpus and replay cases.
type CorpusCase struct {
	Property string          `json:"property"`
	Kind     string          `json:"kind"`
	Input    json.RawMessage `json:"input"`
	Note     string          `json:"note,omitempty"`
	Name     string          `json:"-"`
}

// loadCases returns the replay case (alone) or all corpus cases.
func (c *Ctx) loadCases() (cases []CorpusCase, replayOnly bool) {
	if c.Replay != "" {
		b, err := os.ReadFile(c.Replay)
		must(err)
		var rp struct {
			Property string     `json:"property"`
			Case     CorpusCase `json:"case"`
		}
		must(json.Unmarshal(b, &rp))
		rp.Case.Name = filepath.Base(c.Replay)
		return []CorpusCase{rp.Case}, true
	}
	if c.Corpus == "" {
		return nil, false
	}
	files, _ := filepath.Glob(filepath.Join(c.Corpus, "*.json"))
	sort.Strings(files)
	for _, f := range files {
		b, err := os.ReadFile(f)
		must(err)
		var cc CorpusCase
		must(json.Unmarshal(b, &cc))
		cc.Name = filepath.Base(f)
		cases = append(cases, cc)
	}
	return cases, false
}

func main() {
	if len(os.Args) < 2 {
		fmt.Fprintln(os.Stderr, "usage: amverif <property> [flags]")
		os.Exit(2)
	}
	prop := os.Args[1]
	fs := flag.NewFlagSet("amverif", flag.ExitOnError)
	c := &Ctx{Prop: prop}
	fs.StringVar(&c.Tier, "tier", "quick", "quick|thorough")
	fs.Uint64Var(&c.Seed, "seed", 1, "seed")
	fs.StringVar(&c.OutDir, "out", "", "output directory")
	fs.StringVar(&c.Replay, "replay", "", "replay file")
	fs.StringVar(&c.Corpus, "corpus", "", "corpus directory")
	fs.IntVar(&c.Scale, "scale", 1, "multiply generated case counts")
	fs.BoolVar(&c.Verbose, "v", false, "verbose")
	must(fs.Parse(os.Args[2:]))
	if c.OutDir == "" {
		fmt.Fprintln(os.Stderr, "--out is required")
		os.Exit(2)
	}
	c.Rng = NewRng(c.Seed)
	r, ok := registry[prop]
	if !ok {
		fmt.Fprintf(os.Stderr, "unknown property %s\n", prop)
		os.Exit(2)
	}
	if err := r(c); err != nil {
		fmt.Fprintf(os.Stderr, "amverif %s: %v\n", prop, err)
		os.Exit(3)
	}
}
