//go:build p_c19 || p_c15 || p_all

package main

// C19 — shipped schemas. Translator: scans /repo statically (go/parser) for
// package-level am.Schema variables and their typed state-name / group
// companions, generates and runs a Go program that imports each package and
// dumps the raw and parsed schema, the name list and the groups; then every
// schema becomes (a) a well-formedness case evaluated by vm_compute and (b) a
// breadth-first prefix of real-machine steps compared with the model.

import (
	"bytes"
	"encoding/json"
	"fmt"
	"go/ast"
	"go/parser"
	"go/token"
	"os"
	"os/exec"
	"path/filepath"
	"sort"
	"strings"
	"time"

	am "github.com/pancsta/asyncmachine-go/pkg/machine"
)

type scanVar struct {
	Pkg  string `json:"pkg"`  // import path
	Name string `json:"name"` // variable
	File string `json:"file"`
}

type scanResult struct {
	Schemas []scanVar `json:"schemas"`
	Others  []scanVar `json:"others"` // *States / *Groups companions
	Skipped []string  `json:"skipped"`
}

func repoDir() string {
	if d := os.Getenv("VERIF_REPO"); d != "" {
		return d
	}
	return "/repo"
}

// exprMentionsSchema: composite literal am.Schema{..} / Schema{..}, or a call
// x.Merge(..) / SchemaMerge(..) / am.SchemaMerge(..)
func exprIsSchema(e ast.Expr) bool {
	switch v := e.(type) {
	case *ast.CompositeLit:
		switch t := v.Type.(type) {
		case *ast.SelectorExpr:
			return t.Sel.Name == "Schema"
		case *ast.Ident:
			return t.Name == "Schema"
		}
	case *ast.CallExpr:
		switch f := v.Fun.(type) {
		case *ast.SelectorExpr:
			return f.Sel.Name == "Merge" || f.Sel.Name == "SchemaMerge"
		case *ast.Ident:
			return f.Name == "SchemaMerge"
		}
	}
	return false
}

func scanRepo() (*scanResult, error) {
	res := &scanResult{}
	cmd := exec.Command("go", "list", "-f", "{{.ImportPath}}\t{{.Name}}\t{{.Dir}}\t{{join .GoFiles \",\"}}", "./...")
	cmd.Dir = repoDir()
	var stderr bytes.Buffer
	cmd.Stderr = &stderr
	out, err := cmd.Output()
	if err != nil {
		return nil, fmt.Errorf("go list: %v: %s", err, stderr.String())
	}
	fset := token.NewFileSet()
	for _, line := range strings.Split(strings.TrimSpace(string(out)), "\n") {
		f := strings.Split(line, "\t")
		if len(f) < 4 || f[3] == "" {
			continue
		}
		pkg, name, dir := f[0], f[1], f[2]
		if strings.Contains(pkg, "/docs/") || strings.HasSuffix(pkg, "/docs") {
			continue
		}
		for _, gf := range strings.Split(f[3], ",") {
			file, err := parser.ParseFile(fset, filepath.Join(dir, gf), nil, 0)
			if err != nil {
				continue
			}
			for _, d := range file.Decls {
				gd, ok := d.(*ast.GenDecl)
				if !ok || gd.Tok != token.VAR {
					continue
				}
				for _, sp := range gd.Specs {
					vs := sp.(*ast.ValueSpec)
					for i, id := range vs.Names {
						if !id.IsExported() {
							continue
						}
						v := scanVar{Pkg: pkg, Name: id.Name, File: gf}
						isSchema := i < len(vs.Values) && exprIsSchema(vs.Values[i])
						switch {
						case isSchema && strings.Contains(pkg, "/internal/"):
							res.Skipped = append(res.Skipped, pkg+"."+id.Name+": internal package cannot be imported from outside the module")
						case strings.Contains(pkg, "/internal/"):
						case isSchema && name == "main":
							res.Skipped = append(res.Skipped, pkg+"."+id.Name+": package main cannot be imported")
						case isSchema:
							res.Schemas = append(res.Schemas, v)
						case name != "main" && (strings.HasSuffix(id.Name, "States") || strings.HasSuffix(id.Name, "Groups")):
							res.Others = append(res.Others, v)
						}
					}
				}
			}
		}
	}
	sort.Slice(res.Schemas, func(i, j int) bool {
		return res.Schemas[i].Pkg+"."+res.Schemas[i].Name < res.Schemas[j].Pkg+"."+res.Schemas[j].Name
	})
	return res, nil
}

// ---------------------------------------------------------------- dumper

type dumpState struct {
	Name    string   `json:"name"`
	Auto    bool     `json:"auto"`
	Multi   bool     `json:"multi"`
	Require []string `json:"require"`
	Add     []string `json:"add"`
	Remove  []string `json:"remove"`
	After   []string `json:"after"`
}

type dumpSchema struct {
	Id       string              `json:"id"`
	Raw      []dumpState         `json:"raw"`
	Parsed   []dumpState         `json:"parsed"`
	ParseErr string              `json:"parse_err"`
	Names    []string            `json:"names"`  // typed name list (companion *States), nil if none
	Groups   map[string][]string `json:"groups"` // companion *Groups
	NamesVar string              `json:"names_var"`
}

const dumperTmpl = `package main

import (
	"encoding/json"
	"os"
	"reflect"
	"sort"

	am "github.com/pancsta/asyncmachine-go/pkg/machine"
%s
)

type entry struct {
	Id  string
	Val any
}

type dumpState struct {
	Name    string   ` + "`json:\"name\"`" + `
	Auto    bool     ` + "`json:\"auto\"`" + `
	Multi   bool     ` + "`json:\"multi\"`" + `
	Require []string ` + "`json:\"require\"`" + `
	Add     []string ` + "`json:\"add\"`" + `
	Remove  []string ` + "`json:\"remove\"`" + `
	After   []string ` + "`json:\"after\"`" + `
}

type dumpSchema struct {
	Id       string              ` + "`json:\"id\"`" + `
	Raw      []dumpState         ` + "`json:\"raw\"`" + `
	Parsed   []dumpState         ` + "`json:\"parsed\"`" + `
	ParseErr string              ` + "`json:\"parse_err\"`" + `
	Names    []string            ` + "`json:\"names\"`" + `
	Groups   map[string][]string ` + "`json:\"groups\"`" + `
	NamesVar string              ` + "`json:\"names_var\"`" + `
}

func states(sc am.Schema) []dumpState {
	keys := make([]string, 0, len(sc))
	for k := range sc {
		keys = append(keys, k)
	}
	sort.Strings(keys)
	var ret []dumpState
	for _, k := range keys {
		s := sc[k]
		ret = append(ret, dumpState{Name: k, Auto: s.Auto, Multi: s.Multi, Require: s.Require,
			Add: s.Add, Remove: s.Remove, After: s.After})
	}
	return ret
}

func groupsOf(v reflect.Value, out map[string][]string) {
	for v.Kind() == reflect.Ptr || v.Kind() == reflect.Interface {
		if v.IsNil() {
			return
		}
		v = v.Elem()
	}
	if v.Kind() != reflect.Struct {
		return
	}
	for i := 0; i < v.NumField(); i++ {
		f := v.Field(i)
		ft := v.Type().Field(i)
		if !ft.IsExported() {
			continue
		}
		if s, ok := f.Interface().(am.S); ok {
			if len(s) > 0 {
				out[ft.Name] = s
			}
			continue
		}
		if ft.Anonymous || f.Kind() == reflect.Ptr || f.Kind() == reflect.Struct {
			groupsOf(f, out)
		}
	}
}

func main() {
	schemas := []entry{
%s
	}
	others := map[string]any{
%s
	}
	var out []dumpSchema
	for _, e := range schemas {
		sc, ok := e.Val.(am.Schema)
		if !ok || sc == nil {
			continue
		}
		d := dumpSchema{Id: e.Id, Raw: states(sc), Groups: map[string][]string{}}
		parsed, err := sc.Parse()
		d.Parsed = states(parsed)
		if err != nil {
			d.ParseErr = err.Error()
		}
		// companions by naming convention: FooSchema -> FooStates / FooGroups
		base := e.Id
		if len(base) > 6 && base[len(base)-6:] == "Schema" {
			base = base[:len(base)-6]
			if o, ok := others[base+"States"]; ok {
				if n, ok := o.(interface{ Names() am.S }); ok {
					d.Names = n.Names()
					d.NamesVar = base + "States"
				}
			}
			if o, ok := others[base+"Groups"]; ok {
				groupsOf(reflect.ValueOf(o), d.Groups)
			}
		}
		out = append(out, d)
	}
	enc := json.NewEncoder(os.Stdout)
	enc.Encode(out)
}
`

func dumpSchemas(c *Ctx, scan *scanResult) ([]dumpSchema, error) {
	dir := filepath.Join(c.OutDir, "dump")
	must(os.MkdirAll(dir, 0o755))
	alias := map[string]string{}
	var imports, schemas, others []string
	al := func(pkg string) string {
		if a, ok := alias[pkg]; ok {
			return a
		}
		a := fmt.Sprintf("p%d", len(alias))
		alias[pkg] = a
		imports = append(imports, fmt.Sprintf("\t%s %q", a, pkg))
		return a
	}
	short := func(pkg string) string {
		return strings.TrimPrefix(pkg, "github.com/pancsta/asyncmachine-go/")
	}
	schemaPkgs := map[string]bool{}
	for _, s := range scan.Schemas {
		schemaPkgs[s.Pkg] = true
		schemas = append(schemas, fmt.Sprintf("\t\t{%q, %s.%s},", short(s.Pkg)+"."+s.Name, al(s.Pkg), s.Name))
	}
	for _, o := range scan.Others {
		if schemaPkgs[o.Pkg] {
			others = append(others, fmt.Sprintf("\t\t%q: %s.%s,", short(o.Pkg)+"."+o.Name, al(o.Pkg), o.Name))
		}
	}
	src := fmt.Sprintf(dumperTmpl, strings.Join(imports, "\n"), strings.Join(schemas, "\n"), strings.Join(others, "\n"))
	must(os.WriteFile(filepath.Join(dir, "main.go"), []byte(src), 0o644))
	must(os.WriteFile(filepath.Join(dir, "go.mod"), []byte(
		"module amdump\n\ngo 1.25.0\n\nrequire github.com/pancsta/asyncmachine-go v0.0.0\n\nreplace github.com/pancsta/asyncmachine-go => "+repoDir()+"\n"), 0o644))
	sum, err := os.ReadFile(filepath.Join(repoDir(), "go.sum"))
	must(err)
	must(os.WriteFile(filepath.Join(dir, "go.sum"), sum, 0o644))
	build := exec.Command("go", "build", "-o", "amdump", ".")
	build.Dir = dir
	if o, err := build.CombinedOutput(); err != nil {
		return nil, fmt.Errorf("building the schema dumper failed: %v\n%s", err, o)
	}
	run := exec.Command(filepath.Join(dir, "amdump"))
	run.Dir = dir
	var stderr bytes.Buffer
	run.Stderr = &stderr
	o, err := run.Output()
	if err != nil {
		return nil, fmt.Errorf("running the schema dumper failed: %v\n%s", err, stderr.String())
	}
	var ret []dumpSchema
	if err := json.Unmarshal(o, &ret); err != nil {
		return nil, err
	}
	os.RemoveAll(dir)
	return ret, nil
}

// ---------------------------------------------------------------- cases

type C19Input struct {
	Id     string              `json:"id"`
	Names  []string            `json:"names"` // index order used for the machine
	Raw    []HState            `json:"raw"`   // references >= len(names) are undefined names
	Undef  []string            `json:"undefined_refs"`
	Groups map[string][]int    `json:"groups"`
	Step   *HistInput          `json:"step,omitempty"`
	Dump   *dumpSchema         `json:"-"`
	GNames map[string][]string `json:"-"`
}

// order: typed name list when it is a permutation of the keys (plus
// Exception last when the schema does not define it), otherwise sorted keys.
func c19Order(d *dumpSchema) (names []string, namesOk bool) {
	keys := map[string]bool{}
	for _, s := range d.Raw {
		keys[s.Name] = true
	}
	namesOk = true
	if d.Names != nil {
		// Exception is built in: am.NewStates lists it, am.New defines it
		seen := map[string]bool{}
		nk := len(keys)
		if !keys[am.StateException] {
			nk++
		}
		for _, n := range d.Names {
			if (!keys[n] && n != am.StateException) || seen[n] {
				namesOk = false
			}
			seen[n] = true
		}
		seen[am.StateException] = true
		if len(seen) != nk {
			namesOk = false
		}
	}
	if d.Names != nil && namesOk {
		names = append(names, d.Names...)
	} else {
		for _, s := range d.Raw {
			names = append(names, s.Name)
		}
	}
	// Exception last (am.New defines it when missing)
	var rest []string
	hasExc := false
	for _, n := range names {
		if n == am.StateException {
			hasExc = true
		} else {
			rest = append(rest, n)
		}
	}
	_ = hasExc
	return append(rest, am.StateException), namesOk
}

func c19States(order []string, sts []dumpState, undef *[]string) []HState {
	idx := map[string]int{}
	for i, n := range order {
		idx[n] = i
	}
	ref := func(l []string) []int {
		var ret []int
		for _, n := range l {
			if i, ok := idx[n]; ok {
				ret = append(ret, i)
			} else {
				j := -1
				for k, u := range *undef {
					if u == n {
						j = k
					}
				}
				if j == -1 {
					*undef = append(*undef, n)
					j = len(*undef) - 1
				}
				ret = append(ret, len(order)+j)
			}
		}
		return ret
	}
	by := map[string]dumpState{}
	for _, s := range sts {
		by[s.Name] = s
	}
	ret := make([]HState, len(order))
	for i, n := range order {
		s, ok := by[n]
		if !ok {
			ret[i] = HState{Name: n, Multi: n == am.StateException}
			continue
		}
		ret[i] = HState{Name: n, Auto: s.Auto, Multi: s.Multi, Require: ref(s.Require),
			Add: ref(s.Add), Remove: ref(s.Remove), After: ref(s.After)}
	}
	return ret
}

func intsHas(l []int, x int) bool {
	for _, y := range l {
		if y == x {
			return true
		}
	}
	return false
}

func definesExc(d *dumpSchema) bool {
	for _, s := range d.Raw {
		if s.Name == am.StateException {
			return true
		}
	}
	return false
}

func init() {
	register("C19", runC19)
}

func runC19(c *Ctx) error {
	out := NewOut(c.OutDir, "C19",
		"From Coq Require Import List NArith.\nFrom AMV Require Import Base.ListSet Model.Schema Model.Resolver Model.Machine Run.EvalHist Run.EvalC19.\nImport ListNotations.",
		"c19case", "EvalC19.check_all", 60)

	// replay / corpus: single steps with the schema inline
	cases, replayOnly := c.loadCases()
	for _, cc := range cases {
		var in C19Input
		must(json.Unmarshal(cc.Input, &in))
		if in.Step == nil {
			continue
		}
		var gterms []string
		for _, g := range sortedKeys(in.Groups) {
			gterms = append(gterms, coqNatList(in.Groups[g]))
		}
		o := runHistory(in.Step)
		out.Add("corpus:"+cc.Name, &in, o, "C19Step ["+strings.Join(gterms, "; ")+"] "+coqHCase(in.Step, o), false, "")
	}
	if replayOnly {
		out.Close("replay", nil)
		return nil
	}

	scan, err := scanRepo()
	if err != nil {
		return err
	}
	dumps, err := dumpSchemas(c, scan)
	if err != nil {
		return err
	}
	stepBudget := c.N(120, 4000)
	totalSteps, skippedBig := 0, 0
	exclusiveGroups := 0
	uncovered := []string{}
	var ids []string
	for di := range dumps {
		d := &dumps[di]
		ids = append(ids, d.Id)
		order, namesOk := c19Order(d)
		var undef []string
		raw := c19States(order, d.Raw, &undef)
		nUndefRaw := len(undef)
		parsed := c19States(order, d.Parsed, &undef)
		undefP := undef[nUndefRaw:]
		groups := map[string][]int{}
		var gterms []string
		gnames := sortedKeys(d.Groups)
		for _, g := range gnames {
			var idxs []int
			for _, n := range d.Groups[g] {
				for i, o := range order {
					if o == n {
						idxs = append(idxs, i)
					}
				}
			}
			groups[g] = idxs
			gterms = append(gterms, coqNatList(idxs))
		}
		for _, g := range gnames {
			idxs := groups[g]
			pairwise := len(idxs) > 1
			for _, a := range idxs {
				for _, b := range idxs {
					if a != b && !intsHas(parsed[a].Remove, b) {
						pairwise = false
					}
				}
			}
			if !pairwise {
				continue
			}
			exclusiveGroups++
			targets := 0
			for _, z := range idxs {
				for _, st := range parsed {
					if intsHas(st.Add, z) {
						targets++
						break
					}
				}
			}
			if targets > 1 {
				uncovered = append(uncovered, d.Id+"/"+g)
			}
		}
		in := &C19Input{Id: d.Id, Names: order, Raw: raw, Undef: undef, Groups: groups}
		// shared definitions of this schema for the following shard(s)
		out.SetPrelude(fmt.Sprintf("Definition sc_raw : schema := %s.\nDefinition sc_parsed : schema := %s.\nDefinition sc_groups : list (list nat) := [%s].\n",
			joinMap(raw, coqSdef, ";\n  "), joinMap(parsed, coqSdef, ";\n  "), strings.Join(gterms, "; ")))
		out.Count("states", bucket(len(order)))
		out.Count("groups", fmt.Sprint(len(groups)))
		obs := map[string]any{"parse_err": d.ParseErr, "names_var": d.NamesVar, "names_ok": namesOk,
			"undefined_refs": undef, "parsed_undefined_refs": undefP}
		out.Add("schema", in, obs, fmt.Sprintf(
			"C19Schema {| w_raw := sc_raw; w_parsed := sc_parsed; w_exc_added := %s; w_parse_err := %s; w_names_ok := %s; w_groups := sc_groups |}",
			coqBool(!definesExc(d)), coqBool(d.ParseErr != ""), coqBool(namesOk)), false, "schema:"+d.Id)

		// breadth-first prefix on the real machine (handlers unbound)
		if d.ParseErr != "" {
			continue
		}
		n := len(order)
		type node struct{ active []int }
		seen := map[string]bool{"": true}
		queue := []node{{}}
		steps, tried := 0, 0
		t0 := time.Now()
		for len(queue) > 0 && steps < stepBudget && tried < 3*stepBudget {
			cur := queue[0]
			queue = queue[1:]
			for op := 0; op < 2*(n-1) && steps < stepBudget && tried < 3*stepBudget; op++ {
				st := op / 2
				kind := "add"
				if op%2 == 1 {
					kind = "remove"
					// removing an inactive state is a no-op: skip to save budget
					found := false
					for _, a := range cur.active {
						if a == st {
							found = true
						}
					}
					if !found {
						continue
					}
				}
				tried++
				hin := &HistInput{States: parsed, Init: cur.active, SchemaRef: "sc_parsed",
					Calls: []HCall{{Kind: kind, States: []int{st}}}}
				// the machine is built from the parsed relations: Parse is idempotent on them
				o := runHistory(hin)
				if o.Err != "" || o.ParseErr != "" || len(o.Calls) != 1 {
					return fmt.Errorf("%s: step failed: %s %s", d.Id, o.Err, o.ParseErr)
				}
				big := len(cur.active) > 19
				for _, t := range o.Txs {
					if len(t.Target) > 19 {
						big = true
					}
				}
				next := o.Calls[0].Active
				key := fmt.Sprint(next)
				if !seen[key] {
					seen[key] = true
					queue = append(queue, node{next})
				}
				if big {
					// Go's stable sort switches to symMerge above 20 elements: not modelled
					skippedBig++
					continue
				}
				steps++
				totalSteps++
				sin := &C19Input{Id: d.Id, Step: hin, Groups: groups}
				out.Add("step", sin, o, "C19Step sc_groups "+coqHCase(hin, o), len(o.Txs) == 0, "")
			}
		}
		out.Count("steps_per_schema", bucket(steps))
		if c.Verbose {
			fmt.Fprintf(os.Stderr, "%s: %d states, %d steps, %d tried, %v\n", d.Id, n, steps, tried, time.Since(t0))
		}
	}
	out.Close("every package-level am.Schema variable found by a static scan of /repo (go/parser over `go list ./...`), "+
		"dumped by a generated program that imports its package: one well-formedness case per schema (raw vs parsed, "+
		"Parse error, undefined references, Require cycle, name list, groups) plus a breadth-first prefix of single "+
		"Add1/Remove1 steps on the real machine from every reached ordered active set (handlers unbound); "+
		"distinct by (input, observation); non-trivial = the step ran a transition",
		map[string]any{"schemas": ids, "schemas_skipped": scan.Skipped, "steps": totalSteps,
			"steps_skipped_over_19_states": skippedBig, "mutually_removing_groups": exclusiveGroups,
			"groups_not_covered_by_theorem": uncovered})
	return nil
}
