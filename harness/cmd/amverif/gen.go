package main

// Generators of schemas, handler scripts and call histories. Every choice
// derives from the run's single SplitMix64 state.

import (
	"encoding/json"
	"fmt"
	"strings"

	am "github.com/pancsta/asyncmachine-go/pkg/machine"
)

type GenOpt struct {
	MinStates, MaxStates int // user states (Exception is added on top)
	RelPct               int // probability (%) of each possible relation edge
	AutoPct, MultiPct    int
	Handlers             bool // bind scripted handlers
	VetoPct              int  // probability of a negotiation handler returning false
	NestedPct            int  // probability of a handler issuing mutations
	MinCalls, MaxCalls   int
	Health               bool // may name a state Heartbeat
	Checks               bool // include CanAdd/CanRemove
	AddErr               bool
	QueueLimit           bool // sometimes use a tiny queue limit
	Shape                string
	NoAfter              bool
	BindKinds            bool // also bind structs with func fields and StatePrefix bindings
	SuffixPct            int  // probability (%) that a schema names some states FooEnd / FooState (their negotiation handlers then end with a final suffix)
	DanglingPct          int  // probability (%) that a schema gets references to undefined states in Add / Remove / After (Schema.Parse drops them)
}

var stateLetters = "abcdefghijklmnopqrstuvwxyz"

func stateName(i int) string { return "S" + string(stateLetters[i]) }

// genSchema returns user states + Exception (last).
func genSchema(r *Rng, o GenOpt) []HState {
	n := r.Range(o.MinStates, o.MaxStates)
	sts := make([]HState, n+1)
	for i := 0; i < n; i++ {
		sts[i].Name = stateName(i)
	}
	if o.Health && n >= 2 && r.Chance(15) {
		sts[r.Intn(n)].Name = am.StateHeartbeat
	}
	if o.SuffixPct > 0 && r.Chance(o.SuffixPct) {
		for k := 0; k < r.Range(1, 2); k++ {
			i := r.Intn(n)
			if strings.HasPrefix(sts[i].Name, "S") && len(sts[i].Name) == 2 {
				sts[i].Name += []string{am.SuffixEnd, am.SuffixState}[r.Intn(2)]
			}
		}
	}
	sts[n] = HState{Name: am.StateException, Multi: true}
	rel := o.RelPct
	if rel == 0 {
		rel = 12
	}
	// vary the density per schema
	rel = r.Range(rel/3+1, rel*2)
	for i := 0; i < n; i++ {
		s := &sts[i]
		s.Auto = r.Chance(o.AutoPct)
		s.Multi = r.Chance(o.MultiPct)
		for j := 0; j <= n; j++ {
			if j == n && !r.Chance(20) {
				continue // few relations towards Exception
			}
			if j != i && r.Chance(rel) {
				s.Require = append(s.Require, j)
			}
			if j != i && r.Chance(rel) {
				s.Add = append(s.Add, j)
			}
			if r.Chance(rel) && (j != i || r.Chance(10)) {
				s.Remove = append(s.Remove, j)
			}
			if !o.NoAfter && r.Chance(rel) && (j != i || r.Chance(10)) {
				s.After = append(s.After, j)
			}
		}
		// Schema.Parse reports a Require-Remove conflict as an error: avoid
		s.Remove = intsMinus(s.Remove, s.Require)
	}
	if o.DanglingPct > 0 && r.Chance(o.DanglingPct) {
		// references to states the schema does not define, at random positions
		// of the lists (indexes >= len(sts) are named UndefinedN by the executor)
		ins := func(l []int, x int) []int {
			at := r.Intn(len(l) + 1)
			ret := append([]int{}, l[:at]...)
			ret = append(ret, x)
			return append(ret, l[at:]...)
		}
		for k := 0; k < r.Range(1, 3); k++ {
			s := &sts[r.Intn(n)]
			u := n + 1 + r.Intn(3)
			switch r.Intn(3) {
			case 0:
				// an Add fan with a dangling entry among defined ones
				for len(s.Add) < 2 {
					s.Add = appendUniq(s.Add, r.Intn(n))
				}
				s.Add = ins(s.Add, u)
				s.Remove = intsMinus(s.Remove, s.Add)
			case 1:
				s.Remove = ins(s.Remove, u)
			default:
				s.After = ins(s.After, u)
			}
		}
	}
	switch o.Shape {
	case "addchain":
		// Add chain of depth 2..5 through distinct states
		d := min(r.Range(2, 5), n-1)
		p := r.Perm(n)
		for k := 0; k < d; k++ {
			sts[p[k]].Add = appendUniq(sts[p[k]].Add, p[k+1])
			sts[p[k]].Remove = intsMinus(sts[p[k]].Remove, []int{p[k+1]})
		}
	case "mutualremove":
		p := r.Perm(n)
		g := min(r.Range(2, 4), n)
		for a := 0; a < g; a++ {
			for b := 0; b < g; b++ {
				if a != b {
					sts[p[a]].Remove = appendUniq(sts[p[a]].Remove, p[b])
					sts[p[a]].Require = intsMinus(sts[p[a]].Require, []int{p[b]})
				}
			}
		}
	case "requirechain":
		d := min(r.Range(2, 5), n-1)
		p := r.Perm(n)
		for k := 0; k < d; k++ {
			sts[p[k]].Require = appendUniq(sts[p[k]].Require, p[k+1])
			sts[p[k]].Remove = intsMinus(sts[p[k]].Remove, []int{p[k+1]})
		}
	case "autos":
		k := min(r.Range(1, 5), n)
		p := r.Perm(n)
		for a := 0; a < k; a++ {
			sts[p[a]].Auto = true
		}
	}
	return sts
}

func intsMinus(a, b []int) []int {
	var ret []int
	for _, x := range a {
		found := false
		for _, y := range b {
			if x == y {
				found = true
			}
		}
		if !found {
			ret = append(ret, x)
		}
	}
	return ret
}

func appendUniq(a []int, x int) []int {
	for _, y := range a {
		if y == x {
			return a
		}
	}
	return append(a, x)
}

func genStates(r *Rng, n int, excPct int) []int {
	k := 1
	if r.Chance(40) {
		k = r.Range(2, 3)
	}
	var ret []int
	for len(ret) < k {
		x := r.Intn(n - 1)
		if r.Chance(excPct) {
			x = n - 1
		}
		ret = appendUniq(ret, x)
		if len(ret) >= n {
			break
		}
	}
	return ret
}

func genCall(r *Rng, n int, o GenOpt, nested bool) HCall {
	kinds := []string{"add", "add", "add", "remove", "remove", "set", "toggle"}
	if o.Checks {
		kinds = append(kinds, "canadd", "canremove")
	}
	if o.AddErr {
		kinds = append(kinds, "adderr")
	}
	c := HCall{Kind: kinds[r.Intn(len(kinds))]}
	if c.Kind != "adderr" {
		c.States = genStates(r, n, 4)
	}
	if c.Kind == "set" && r.Chance(10) {
		c.States = nil // Set of nothing: deactivate everything
	}
	if c.Kind != "canremove" && c.Kind != "adderr" {
		c.Args = r.Chance(15)
	}
	return c
}

func genBindings(r *Rng, n int, o GenOpt) [][]HKey {
	if !o.Handlers {
		return nil
	}
	nb := r.Range(1, 3)
	if r.Chance(15) {
		nb = 0
	}
	var ret [][]HKey
	pct := r.Range(10, 60)
	for b := 0; b < nb; b++ {
		var keys []HKey
		for i := 0; i < n; i++ {
			for _, k := range []string{"exit", "enter", "self", "end", "state"} {
				if r.Chance(pct) {
					keys = append(keys, HKey{K: k, A: i})
				}
			}
			for j := 0; j < n; j++ {
				if i != j && r.Chance(pct/4) {
					keys = append(keys, HKey{K: "trans", A: i, B: j})
				}
			}
		}
		if r.Chance(30) {
			keys = append(keys, HKey{K: "anyenter"})
		}
		if r.Chance(30) {
			keys = append(keys, HKey{K: "anystate"})
		}
		ret = append(ret, keys)
	}
	return ret
}

func genActions(r *Rng, n int, o GenOpt, count int) []HAction {
	var ret []HAction
	veto := o.VetoPct
	if veto > 0 {
		veto = r.Range(0, veto)
	}
	for i := 0; i < count; i++ {
		a := HAction{Ret: !r.Chance(veto)}
		if r.Chance(o.NestedPct) {
			k := r.Range(1, 2)
			for j := 0; j < k; j++ {
				a.Calls = append(a.Calls, genCall(r, n, o, true))
			}
		}
		ret = append(ret, a)
	}
	return ret
}

func genHistory(r *Rng, o GenOpt) *HistInput {
	in := &HistInput{States: genSchema(r, o)}
	n := len(in.States)
	in.Bindings = genBindings(r, n, o)
	if o.BindKinds {
		// struct bindings (func fields) and StatePrefix bindings besides maps
		for bi := range in.Bindings {
			kind := []string{"map", "struct", "prefix"}[r.Intn(3)]
			if kind == "prefix" {
				// only handlers of "S"-prefixed states can be reached through StatePrefix "S"
				var keep []HKey
				for _, k := range in.Bindings[bi] {
					ok := k.K != "anyenter" && k.K != "anystate" && strings.HasPrefix(in.States[k.A].Name, "S")
					if k.K == "trans" && !strings.HasPrefix(in.States[k.B].Name, "S") {
						ok = ok && true // the event name starts with the first state's name
					}
					if ok {
						keep = append(keep, k)
					}
				}
				in.Bindings[bi] = keep
			}
			in.BindKinds = append(in.BindKinds, kind)
		}
	}
	if len(in.Bindings) > 0 {
		in.Actions = genActions(r, n, o, r.Range(5, 60))
	}
	nc := r.Range(o.MinCalls, o.MaxCalls)
	for i := 0; i < nc; i++ {
		in.Calls = append(in.Calls, genCall(r, n, o, false))
	}
	if o.QueueLimit && r.Chance(15) {
		in.QueueLimit = r.Range(1, 4)
	}
	return in
}

// runHistCases is the common driver of the history-based properties: corpus
// / replay cases first, then generated ones. post can adjust or classify.
// histOpts lets a property wrap the history cases into its own case type and
// add cases of another shape to the same run.
type histOpts struct {
	caseType  string                                                // Gallina type of a case (default hcase)
	wrap      string                                                // constructor applied to the hcase term
	extra     func(out *Out)                                        // emits additional cases (not in replay mode)
	extraEmit func(out *Out, emit func(kind string, in *HistInput)) // additional history cases
	replay    func(cc CorpusCase, out *Out) bool                    // handles a corpus / replay case of another shape
}

func runHistCases(c *Ctx, prop, evalMod string, gens []func(r *Rng) (string, *HistInput),
	quick, thorough int, rule string, classify func(in *HistInput, obs *HistObs, out *Out),
	opts ...histOpts,
) error {
	ho := histOpts{caseType: "hcase"}
	if len(opts) > 0 {
		ho = opts[0]
	}
	out := NewOut(c.OutDir, prop,
		"From Coq Require Import List NArith.\nFrom AMV Require Import Base.ListSet Model.Schema Model.Resolver Model.Machine Run.EvalHist Run."+evalMod+".\nImport ListNotations.",
		ho.caseType, evalMod+".check_all", 150)
	emit := func(kind string, in *HistInput) {
		obs := runHistory(in)
		if obs.ParseErr != "" || obs.Err != "" {
			out.Count("skipped", "schema rejected")
			return
		}
		trivial := len(obs.Txs) == 0
		out.Count("user_states", fmt.Sprint(len(in.States)-1))
		out.Count("calls", bucket(len(in.Calls)))
		out.Count("transitions", bucket(len(obs.Txs)))
		out.Count("handler_calls", bucket(len(obs.HLog)))
		out.Count("bindings", fmt.Sprint(len(in.Bindings)))
		nAuto, nCanceled, nCheck := 0, 0, 0
		for _, t := range obs.Txs {
			if t.Auto {
				nAuto++
			}
			if !t.Accepted {
				nCanceled++
			}
			if t.Check {
				nCheck++
			}
		}
		out.Count("auto_transitions", bucket(nAuto))
		out.Count("canceled_transitions", bucket(nCanceled))
		out.Count("check_transitions", bucket(nCheck))
		if obs.Crashed {
			out.Count("crashed", "yes")
		}
		if classify != nil {
			classify(in, obs, out)
		}
		term := coqHCase(in, obs)
		if ho.wrap != "" {
			term = ho.wrap + " (" + term + ")"
		}
		out.Add(kind, in, obs, term, trivial, "")
	}
	cases, replayOnly := c.loadCases()
	for _, cc := range cases {
		if ho.replay != nil && ho.replay(cc, out) {
			continue
		}
		var in HistInput
		must(json.Unmarshal(cc.Input, &in))
		emit("corpus:"+cc.Name, &in)
	}
	if !replayOnly {
		n := c.N(quick, thorough)
		for i := 0; i < n; i++ {
			g := gens[i%len(gens)]
			kind, in := g(c.Rng)
			emit(kind, in)
		}
		if ho.extra != nil {
			ho.extra(out)
		}
		if ho.extraEmit != nil {
			ho.extraEmit(out, emit)
		}
	}
	out.Close(rule, nil)
	return nil
}

func bucket(n int) string {
	switch {
	case n == 0:
		return "0"
	case n <= 2:
		return "1-2"
	case n <= 5:
		return "3-5"
	case n <= 10:
		return "6-10"
	case n <= 20:
		return "11-20"
	case n <= 50:
		return "21-50"
	}
	return ">50"
}

// genGrowth turns a generated history into one whose machine starts with the
// states of `in` and is grown by SetSchema right before a later top-level
// call. New states are named Za.. (they sort after every old name and come
// after Exception in the state order, so the topology of the old states is
// the same before and after), never Auto, Require only earlier new states (no
// new Require cycle, old states keep their place in the topology); no old state
// refers to a new one.
func genGrowth(r *Rng, o GenOpt) *HistInput {
	o.Health, o.SuffixPct, o.DanglingPct, o.QueueLimit = false, 0, 0, false
	if o.MinCalls < 4 {
		o.MinCalls = 4
	}
	in := genHistory(r, o)
	nOld := len(in.States)
	nNew := r.Range(2, 4)
	total := nOld + nNew
	rel := r.Range(8, 35)
	for k := 0; k < nNew; k++ {
		g := HState{Name: "Z" + string(stateLetters[k]), Multi: r.Chance(20)}
		me := nOld + k
		for j := 0; j < total; j++ {
			if j == me || j == nOld-1 && !r.Chance(20) {
				continue // few relations towards Exception
			}
			// Require only earlier NEW states: a Require of an old state would put
			// that state into the topology where it was not before, and the old
			// states would sort differently before and after the growth
			if j < me && j >= nOld && r.Chance(rel+30) {
				g.Require = append(g.Require, j)
			}
			if r.Chance(rel) {
				g.Add = append(g.Add, j)
			}
			if r.Chance(rel) {
				g.Remove = append(g.Remove, j)
			}
			if !o.NoAfter && r.Chance(rel) {
				g.After = append(g.After, j)
			}
		}
		g.Remove = intsMinus(g.Remove, g.Require)
		in.Grow = append(in.Grow, g)
	}
	// at least one transition with the old schema first
	in.GrowAt = r.Range(1, len(in.Calls)-1)
	for i := in.GrowAt; i < len(in.Calls); i++ {
		if r.Chance(70) {
			c := genCall(r, total+0, o, false)
			// genStates draws user states below n-1 and Exception as n-1: remap so
			// that new states are drawn as well
			for k, x := range c.States {
				if x >= nOld-1 {
					c.States[k] = nOld + r.Intn(nNew)
				} else if r.Chance(40) {
					c.States[k] = nOld + r.Intn(nNew)
				}
			}
			// together with what they Require, in one mutation
			if (c.Kind == "add" || c.Kind == "set") && len(c.States) > 0 && c.States[0] >= nOld {
				for _, q := range in.Grow[c.States[0]-nOld].Require {
					c.States = appendUniq(c.States, q)
				}
			}
			c.States = uniqInts(c.States)
			in.Calls[i] = c
		}
	}
	// (the first binding of a machine re-adds a pending error: a later binding is
	// only added to machines that already have one)
	if o.Handlers && len(in.Bindings) > 0 && r.Chance(80) {
		var keys []HKey
		pct := r.Range(30, 80)
		for k := 0; k < nNew; k++ {
			a := nOld + k
			for _, kd := range []string{"exit", "enter", "self", "end", "state"} {
				if r.Chance(pct) {
					keys = append(keys, HKey{K: kd, A: a})
				}
			}
			for j := 0; j < total; j++ {
				if j != a && r.Chance(pct/4) {
					keys = append(keys, HKey{K: "trans", A: a, B: j})
				}
			}
		}
		if len(keys) > 0 {
			in.GrowBindings = [][]HKey{keys}
		}
	}
	return in
}

func uniqInts(l []int) []int {
	var ret []int
	for _, x := range l {
		ret = appendUniq(ret, x)
	}
	return ret
}
