//go:build p_c03 || p_c05 || p_c07 || p_c11 || p_c14 || p_all

package main

// Registration of the history-based properties C03 C05 C07 C11 C14.

import (
	"context"
	"encoding/json"
	"fmt"
	"reflect"
	"time"

	am "github.com/pancsta/asyncmachine-go/pkg/machine"
)

func histGen(name string, o GenOpt) func(r *Rng) (string, *HistInput) {
	return func(r *Rng) (string, *HistInput) { return name, genHistory(r, o) }
}

// faultyGen: histories in which 1-2 of the first 24 scripted handler
// invocations panic (recovered by the machine: the recovery paths).
func faultyGen(o GenOpt) func(r *Rng) (string, *HistInput) {
	return func(r *Rng) (string, *HistInput) {
		f := o
		f.VetoPct, f.MinStates = 5, 3
		in := genHistory(r, f)
		for len(in.Actions) < 24 {
			in.Actions = append(in.Actions, HAction{Ret: true})
		}
		for k := 0; k < r.Range(1, 2); k++ {
			in.Actions[r.Intn(24)].Fault = "panic"
		}
		return "faults", in
	}
}

func init() {
	base := GenOpt{MinStates: 2, MaxStates: 8, AutoPct: 25, MultiPct: 25, MinCalls: 1,
		MaxCalls: 30, Health: true, Checks: true, AddErr: true, SuffixPct: 20}

	register("C03", func(c *Ctx) error {
		veto := base
		veto.Handlers, veto.VetoPct, veto.NestedPct, veto.QueueLimit = true, 50, 15, true
		plain := base
		plain.QueueLimit = true
		// CanX directly followed by X on the same states (check_predicts)
		pairs := func(r *Rng) (string, *HistInput) {
			o := base
			o.Checks, o.AddErr = false, false
			in := genHistory(r, o)
			var calls []HCall
			for _, cl := range in.Calls {
				if (cl.Kind == "add" || cl.Kind == "remove") && r.Chance(60) {
					cl.Args = false
					calls = append(calls, HCall{Kind: "can" + cl.Kind, States: cl.States})
				}
				calls = append(calls, cl)
			}
			in.Calls = calls
			return "check-pairs", in
		}
		return runHistCases(c, "C03", "EvalC03",
			[]func(r *Rng) (string, *HistInput){histGen("vetoes", veto), histGen("no-handlers", plain), pairs, histGen("vetoes", veto)},
			600, 20000,
			"random schemas and histories; negotiation vetoes 0-50%, nested mutations, tiny queue limits (15%), "+
				"CanAdd/CanRemove directly followed by the same Add/Remove; every top-level call is judged on its own "+
				"transition record; plus an early-cancel stream: every mutation / check entry point called on a machine that "+
				"is backing off (LastHandlerDeadline just hit) or disposed; distinct by (input, observation); "+
				"non-trivial = at least one transition", nil,
			histOpts{caseType: "c03case", wrap: "C03H", extra: c03Early})
	})

	register("C05", func(c *Ctx) error {
		o := base
		o.Handlers, o.VetoPct, o.NestedPct, o.RelPct = true, 25, 10, 18
		o.BindKinds = true
		chain := o
		chain.Shape = "requirechain"
		grow := func(r *Rng) (string, *HistInput) {
			g := chain
			g.BindKinds = false
			return "setschema-growth", genGrowth(r, g)
		}
		return runHistCases(c, "C05", "EvalC05",
			[]func(r *Rng) (string, *HistInput){histGen("after-require", o), histGen("requirechain", chain), grow, histGen("after-require", o)},
			500, 20000,
			"schemas with After/Require graphs (cyclic and acyclic), 1-3 handler bindings (map bindings), vetoes 0-25%; "+
				"the handler log (name, binding, Machine.ActiveStates and Machine.Time inside the handler, return value) of "+
				"every transition is judged; a quarter of the cases grow the schema with SetSchema in mid-history (new states "+
				"with Require chains, activated together with what they Require); plus a detach stream: 2-4 bindings of which some are detached by a handler "+
				"while the event is being dispatched; distinct by (input, observation); non-trivial = at least one transition", nil,
			c05Opts(c))
	})

	register("C07", func(c *Ctx) error {
		o := base
		o.Shape, o.Handlers, o.VetoPct, o.NestedPct = "autos", true, 45, 5
		plain := base
		plain.Shape = "autos"
		mr := o
		mr.RelPct = 20
		return runHistCases(c, "C07", "EvalC07",
			[]func(r *Rng) (string, *HistInput){histGen("autos-vetoes", o), histGen("autos-plain", plain), histGen("autos-dense", mr)},
			600, 20000,
			"schemas with 1-5 Auto states (Require chains, mutual Remove, Add), histories incl. Heartbeat health "+
				"mutations, no-ops and checks, scripted vetoes 0-45% on Enter/Exit/self/state-state handlers; a panic "+
				"escaping a call is recorded as the observable Crash; distinct by (input, observation); non-trivial = at "+
				"least one auto transition or a crash", func(in *HistInput, obs *HistObs, out *Out) {})
	})

	register("C14", func(c *Ctx) error {
		o := base
		o.Handlers, o.VetoPct, o.NestedPct = true, 30, 25
		multi := func(r *Rng) (string, *HistInput) {
			in := genHistory(r, o)
			in.Tracers = r.Range(1, 2)
			return "multi-tracer", in
		}
		return runHistCases(c, "C14", "EvalC14",
			[]func(r *Rng) (string, *HistInput){histGen("handlers", o), multi, histGen("no-handlers", base), faultyGen(o)},
			600, 20000,
			"random schemas and histories with queued (nested), prepended auto, check and canceled mutations, and (every "+
				"4th case) 1-2 handler invocations that panic and are recovered; 1-3 "+
				"recording tracers bound via Opts.Tracers; Machine.Time sampled inside TransitionEnd and after every call; "+
				"distinct by (input, observation); non-trivial = at least one transition", nil)
	})

	register("C11", func(c *Ctx) error {
		o := base
		o.Handlers, o.VetoPct, o.NestedPct = true, 20, 10
		// schemas that reference undefined states (dropped by Schema.Parse)
		o.DanglingPct = 30
		au := o
		au.Shape = "autos"
		mr := o
		mr.Shape, mr.AutoPct = "mutualremove", 50
		rc := o
		rc.Shape = "requirechain"
		faulty := faultyGen(o)
		reruns := 64
		if c.Thorough() {
			reruns = 256
		}
		return runHistCasesRerun(c, "C11", "EvalC11",
			[]func(r *Rng) (string, *HistInput){histGen("autos", au), histGen("mutualremove-autos", mr), histGen("requirechains", rc), histGen("random", o), faulty},
			250, 5000, reruns,
			"each case is executed 64 (thorough: 256) times in fresh machines built from the same schema and state "+
				"order; results, machine time after every step and the handler call sequence must be identical across "+
				"executions, and the first execution must match the model; distinct by (input, observation)")
	})
}

// compareRuns classifies how two executions of one case differ (h_rerun).
func compareRuns(a, b *HistObs) int {
	if !reflect.DeepEqual(a.Calls, b.Calls) || a.Crashed != b.Crashed || !reflect.DeepEqual(a.Parsed, b.Parsed) {
		return 1
	}
	if !reflect.DeepEqual(a.HLog, b.HLog) {
		return 2
	}
	if !reflect.DeepEqual(a.Txs, b.Txs) {
		return 3
	}
	return 0
}

func runHistCasesRerun(c *Ctx, prop, evalMod string, gens []func(r *Rng) (string, *HistInput),
	quick, thorough, reruns int, rule string,
) error {
	out := NewOut(c.OutDir, prop,
		"From Coq Require Import List NArith.\nFrom AMV Require Import Base.ListSet Model.Schema Model.Resolver Model.Machine Run.EvalHist Run."+evalMod+".\nImport ListNotations.",
		"hcase", evalMod+".check_all", 100)
	totalRuns := 0
	emit := func(kind string, in *HistInput) {
		obs := runHistory(in)
		if obs.ParseErr != "" || obs.Err != "" {
			return
		}
		for i := 1; i < reruns; i++ {
			o2 := runHistory(in)
			totalRuns++
			if d := compareRuns(obs, o2); d != 0 && (obs.Rerun == 0 || d < obs.Rerun) {
				obs.Rerun = d
			}
		}
		totalRuns++
		nAuto := 0
		for _, t := range obs.Txs {
			if t.Auto {
				nAuto++
			}
		}
		out.Count("auto_transitions", bucket(nAuto))
		out.Count("handler_calls", bucket(len(obs.HLog)))
		out.Count("rerun_difference", []string{"none", "results", "handler-order", "records"}[obs.Rerun])
		out.Add(kind, in, obs, coqHCase(in, obs), len(obs.Txs) == 0, "")
	}
	cases, replayOnly := c.loadCases()
	for _, cc := range cases {
		var in HistInput
		must(json.Unmarshal(cc.Input, &in))
		emit("corpus:"+cc.Name, &in)
	}
	if !replayOnly {
		n := c.N(quick, thorough)
		for i := 0; i < n; i++ {
			kind, in := gens[i%len(gens)](c.Rng)
			emit(kind, in)
		}
	}
	out.Close(rule, map[string]any{"executions": totalRuns, "reruns_per_case": reruns})
	return nil
}

// c03Early: one call on a backing-off or disposed machine.
func c03Early(out *Out) {
	names := am.S{"Sa", "Sb", am.StateException}
	for mode := 0; mode < 2; mode++ {
		for call := 0; call < 9; call++ {
			m := am.New(context.Background(), am.Schema{"Sa": {}, "Sb": {}}, &am.Opts{Id: "c03e"})
			must(m.VerifyStates(names))
			m.Add1("Sa", nil)
			before := fmt.Sprint(m.Time(nil), m.ActiveStates(nil), m.QueueTick())
			if mode == 0 {
				now := time.Now()
				m.LastHandlerDeadline.Store(&now)
			} else {
				m.Dispose()
				<-m.WhenDisposed()
			}
			var res am.Result
			switch call {
			case 0:
				res = m.Add1("Sb", nil)
			case 1:
				res = m.Remove1("Sa", nil)
			case 2:
				res = m.Set(am.S{"Sb"}, nil)
			case 3:
				res = m.Toggle1("Sb", nil)
			case 4:
				res = m.AddErr(errScripted, nil)
			case 5:
				res = m.CanAdd1("Sb", nil)
			case 6:
				res = m.CanRemove1("Sa", nil)
			case 7:
				res = m.EvAdd1(nil, "Sb", nil)
			case 8:
				res = m.EvRemove1(nil, "Sa", nil)
			}
			unchanged := true
			if mode == 0 {
				m.LastHandlerDeadline.Store(nil)
				unchanged = before == fmt.Sprint(m.Time(nil), m.ActiveStates(nil), m.QueueTick())
			}
			in := map[string]any{"early_case": true, "mode": mode, "call": call}
			obs := map[string]any{"result": uint64(res), "unchanged": unchanged}
			out.Count("early_cancel_mode", []string{"backoff", "disposed"}[mode])
			out.Add("early-cancel", in, obs, fmt.Sprintf("C03E {| e_mode := %d; e_call := %d; o_canceled := %s; o_unchanged := %s |}",
				mode, call, coqBool(res == am.Canceled), coqBool(unchanged)), false, fmt.Sprintf("early:%d:%d", mode, call))
		}
	}
}
