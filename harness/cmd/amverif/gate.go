package main

// Schedule gate shared by the schedule-quantified properties: registered
// worker goroutines park at every verifPoint of the machine and the
// scheduler releases exactly one parked goroutine per schedule entry.

import (
	"bytes"
	"runtime"
	"strconv"
	"sync"
)

func goid() int {
	var buf [64]byte
	n := runtime.Stack(buf[:], false)
	f := bytes.Fields(buf[:n])
	id, _ := strconv.Atoi(string(f[1]))
	return id
}

type gateEvent struct {
	worker int
	point  string // "" = worker finished
}

// Gate serialises registered worker goroutines at schedule points.
type Gate struct {
	mu      sync.Mutex
	workers map[int]int // goroutine id -> worker index
	events  chan gateEvent
	resume  []chan struct{}
	// Only, when non-nil, restricts parking to these point names
	Only map[string]bool
}

func NewGate(n int) *Gate {
	g := &Gate{workers: map[int]int{}, events: make(chan gateEvent, 4*n+16)}
	for i := 0; i < n; i++ {
		g.resume = append(g.resume, make(chan struct{}))
	}
	return g
}

// Point is the verifPoint callback.
func (g *Gate) Point(point string) {
	if g.Only != nil && !g.Only[point] {
		return
	}
	g.mu.Lock()
	w, ok := g.workers[goid()]
	g.mu.Unlock()
	if !ok {
		return // not a gated goroutine (e.g. the machine's handler loop)
	}
	g.events <- gateEvent{w, point}
	<-g.resume[w]
}

// Go starts worker w; it parks at its first schedule point.
func (g *Gate) Go(w int, fn func()) {
	go func() {
		g.mu.Lock()
		g.workers[goid()] = w
		g.mu.Unlock()
		fn()
		g.events <- gateEvent{w, ""}
	}()
}
