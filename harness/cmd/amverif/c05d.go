//go:build p_c03 || p_c05 || p_c07 || p_c11 || p_c14 || p_all

package main

// C05, detach stream: bindings detached while an event is being dispatched.

import (
	"context"
	"encoding/json"
	"fmt"
	"strings"
	"time"

	am "github.com/pancsta/asyncmachine-go/pkg/machine"
)

type DetachInput struct {
	Detach bool     `json:"detach_case"`
	K      int      `json:"k"`
	Det    [][2]int `json:"detach"` // (i, j): AEnter of binding i detaches binding j
	Veto   []int    `json:"veto"`
}

type DetachObs struct {
	Calls [][2]int `json:"calls"`
	Res1  uint64   `json:"res1"`
	Res2  uint64   `json:"res2"`
}

func detachExec(in *DetachInput) *DetachObs {
	obs := &DetachObs{}
	m := am.New(context.Background(), am.Schema{"A": {}, "B": {}}, &am.Opts{Id: "c05d",
		HandlerTimeout: 5 * time.Second})
	must(m.VerifyStates(am.S{"A", "B", am.StateException}))
	ids := make([]string, in.K)
	for i := 0; i < in.K; i++ {
		i := i
		rec := func(h int) { obs.Calls = append(obs.Calls, [2]int{i, h}) }
		neg := map[string]am.HandlerNegotiation{
			"AEnter": func(e *am.Event) bool {
				rec(0)
				for _, d := range in.Det {
					if d[0] == i {
						_ = m.HandlersDetach(ids[d[1]])
					}
				}
				for _, v := range in.Veto {
					if v == i {
						return false
					}
				}
				return true
			},
			"BEnter": func(e *am.Event) bool { rec(2); return true },
		}
		fin := map[string]am.HandlerFinal{
			"AState": func(e *am.Event) { rec(1) },
			"BState": func(e *am.Event) { rec(3) },
		}
		id, err := m.HandlersBindMaps(neg, fin)
		must(err)
		ids[i] = id
	}
	obs.Res1 = uint64(m.Add1("A", nil))
	obs.Res2 = uint64(m.Add1("B", nil))
	go m.Dispose()
	return obs
}

func detachCoq(in *DetachInput, obs *DetachObs) string {
	pairs := func(ps [][2]int) string {
		parts := make([]string, len(ps))
		for i, p := range ps {
			parts[i] = fmt.Sprintf("(%d, %d)", p[0], p[1])
		}
		return "[" + strings.Join(parts, "; ") + "]%nat"
	}
	return fmt.Sprintf("C05D {| d_k := %d; d_detach := %s; d_veto := %s; o_dcalls := %s; o_res1 := %s; o_res2 := %s |}",
		in.K, pairs(in.Det), coqNatList(in.Veto), pairs(obs.Calls), coqBool(obs.Res1 == 0), coqBool(obs.Res2 == 0))
}

func c05Opts(c *Ctx) histOpts {
	emit := func(kind string, in *DetachInput, out *Out) {
		in.Detach = true
		obs := detachExec(in)
		out.Count("detach_cases", fmt.Sprint(len(in.Det)))
		out.Add(kind, in, obs, detachCoq(in, obs), len(in.Det) == 0, "")
	}
	return histOpts{caseType: "c05case", wrap: "C05H",
		replay: func(cc CorpusCase, out *Out) bool {
			var in DetachInput
			if json.Unmarshal(cc.Input, &in) != nil || !in.Detach {
				return false
			}
			emit("corpus:"+cc.Name, &in, out)
			return true
		},
		extra: func(out *Out) {
			r := c.Rng
			n := c.N(80, 2000)
			for i := 0; i < n; i++ {
				in := &DetachInput{K: r.Range(2, 4)}
				nd := r.Range(0, 2)
				for j := 0; j < nd; j++ {
					in.Det = append(in.Det, [2]int{r.Intn(in.K), r.Intn(in.K)})
				}
				if r.Chance(25) {
					in.Veto = []int{r.Intn(in.K)}
				}
				emit("detach", in, out)
			}
		}}
}
