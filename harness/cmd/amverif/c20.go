//go:build p_c20 || p_all

package main

// C20 — public helpers are total and obey their algebra.
//
// Differential streams (model = coq/theories/Model/Helpers.v):
//   set   : S.Add/Add1/Delete/Delete1/Sub/Shared/Equal/EqualOrder/Unique/Has/
//           Index, SAdd, SRem, IndexToStates
//   time  : Time and TimeIndex algebra
//   parse : Machine.ParseStates, mustParseStates (through Machine.Add)
//   queue : IsQueued / IsQueuedAbove / WillBe / WillBeRemoved, asked from
//           inside a handler about the queue returned by Machine.Queue()
// Exploration (labelled so, no model): the totality sweep, see c20sweep.

import (
	"context"
	"encoding/json"
	"fmt"
	"os"
	"os/exec"
	"sort"
	"strconv"
	"strings"
	"sync"
	"time"

	am "github.com/pancsta/asyncmachine-go/pkg/machine"
)

func init() { register("C20", runC20) }

// ---------------------------------------------------------------- input

type C20QMut struct {
	Type   int   `json:"type"` // 0 add 1 remove 2 set
	States []int `json:"states"`
	Args   bool  `json:"args"`
	Check  bool  `json:"check"`
}

type C20Query struct {
	Fn        int    `json:"fn"` // 0 IsQueued 1 IsQueuedAbove 2 WillBe 3 WillBeRemoved
	Type      int    `json:"type"`
	States    []int  `json:"states"`
	NoArgs    bool   `json:"no_args"`
	Strict    bool   `json:"strict"`
	MinTick   uint64 `json:"min_tick"`
	Check     bool   `json:"check"`
	Pos       int    `json:"pos"`
	PosGiven  bool   `json:"pos_given"` // WillBe*: pass the variadic position
	Threshold int    `json:"threshold"`
}

type C20Input struct {
	Stream string `json:"stream"` // set | time | parse | queue | sweep
	Op     string `json:"op,omitempty"`

	// set / time arguments
	S     []int      `json:"s,omitempty"`
	B     []int      `json:"b,omitempty"`
	Ls    [][]int    `json:"ls,omitempty"`
	X     int        `json:"x,omitempty"`
	Idxs  []int64    `json:"idxs,omitempty"`
	Nil   bool       `json:"nil,omitempty"` // the slice argument is nil
	Lz    [][]int64  `json:"lz,omitempty"`
	T     []uint64   `json:"t,omitempty"`
	T2    []uint64   `json:"t2,omitempty"`
	I     int64      `json:"i,omitempty"`
	Flag  bool       `json:"flag,omitempty"`
	K     int        `json:"k,omitempty"`
	Tick  uint64     `json:"tick,omitempty"`
	Len   int        `json:"len,omitempty"`
	Index []int      `json:"index,omitempty"`

	// parse / queue
	N      int       `json:"n,omitempty"`  // known states S0..S(n-1)
	Fn     int       `json:"fn,omitempty"` // parse: 0 ParseStates 1 mustParseStates
	States []int     `json:"states,omitempty"`
	Multi  []int     `json:"multi,omitempty"`
	Script []C20QMut `json:"script,omitempty"`
	Query  *C20Query `json:"query,omitempty"`
	InHandler bool   `json:"in_handler,omitempty"`
	Active    []int  `json:"active,omitempty"` // states activated before the handler runs

	// sweep
	Item  int `json:"item,omitempty"`
	Phase int `json:"phase,omitempty"`
}

// ---------------------------------------------------------------- values

type c20Val struct {
	Kind  string   `json:"kind"` // panic S B I N T names Q
	S     []int    `json:"s,omitempty"`
	B     bool     `json:"b,omitempty"`
	I     []int64  `json:"i,omitempty"`
	N     uint64   `json:"n,omitempty"`
	T     []uint64 `json:"t,omitempty"`
	Names []string `json:"names,omitempty"`
	Found bool     `json:"found,omitempty"`
	Idx   uint64   `json:"idx,omitempty"`
	QTick uint64   `json:"qtick,omitempty"`
	Msg   string   `json:"msg,omitempty"`
}

func st(k int) string { return "S" + strconv.Itoa(k) }

func toS(xs []int) am.S {
	ret := make(am.S, len(xs))
	for i, x := range xs {
		ret[i] = st(x)
	}
	return ret
}

func toSs(ls [][]int) []am.S {
	ret := make([]am.S, len(ls))
	for i, l := range ls {
		ret[i] = toS(l)
	}
	return ret
}

func toInts(xs []int64) []int {
	ret := make([]int, len(xs))
	for i, x := range xs {
		ret[i] = int(x)
	}
	return ret
}

func fromS(s am.S) []int {
	ret := make([]int, len(s))
	for i, x := range s {
		k, err := strconv.Atoi(strings.TrimPrefix(x, "S"))
		if err != nil || !strings.HasPrefix(x, "S") {
			k = 999999 // never produced by the helpers on our inputs
		}
		ret[i] = k
	}
	return ret
}

func vS(s am.S) c20Val        { return c20Val{Kind: "S", S: fromS(s)} }
func vIdx(xs []int) c20Val    { return c20Val{Kind: "S", S: append([]int{}, xs...)} }
func vB(b bool) c20Val        { return c20Val{Kind: "B", B: b} }
func vN(n uint64) c20Val      { return c20Val{Kind: "N", N: n} }
func vT(t am.Time) c20Val     { return c20Val{Kind: "T", T: append([]uint64{}, t...)} }
func vNames(s am.S) c20Val    { return c20Val{Kind: "names", Names: append([]string{}, s...)} }
func vI(xs []int) c20Val {
	ys := make([]int64, len(xs))
	for i, x := range xs {
		ys[i] = int64(x)
	}
	return c20Val{Kind: "I", I: ys}
}

func c20Safe(f func() c20Val) (v c20Val) {
	defer func() {
		if r := recover(); r != nil {
			v = c20Val{Kind: "panic", Msg: fmt.Sprint(r)}
		}
	}()
	return f()
}

func coqZ(x int64) string {
	if x < 0 {
		return fmt.Sprintf("(%d)", x)
	}
	return fmt.Sprintf("%d", x)
}

func coqZList(xs []int64) string {
	parts := make([]string, len(xs))
	for i, x := range xs {
		parts[i] = coqZ(x)
	}
	return "[" + strings.Join(parts, ";") + "]%Z"
}

func coqZLists(ls [][]int64) string {
	parts := make([]string, len(ls))
	for i, l := range ls {
		parts[i] = coqZList(l)
	}
	return "[" + strings.Join(parts, ";") + "]"
}

func coqNatLists(ls [][]int) string {
	parts := make([]string, len(ls))
	for i, l := range ls {
		parts[i] = coqNatList(l)
	}
	return "[" + strings.Join(parts, ";") + "]"
}

func coqName(s string) string {
	switch {
	case s == "":
		return "NoName"
	case strings.HasPrefix(s, "unknown"):
		k, _ := strconv.ParseInt(strings.TrimPrefix(s, "unknown"), 10, 64)
		return "Unknown " + coqZ(k) + "%Z"
	case strings.HasPrefix(s, "S"):
		k, _ := strconv.Atoi(s[1:])
		return fmt.Sprintf("Known %d%%nat", k)
	}
	return "Unknown 424242%Z"
}

func (v c20Val) Coq() string {
	switch v.Kind {
	case "panic":
		return "VPanic"
	case "S":
		return "(VS " + coqNatList(v.S) + ")"
	case "B":
		return "(VB " + coqBool(v.B) + ")"
	case "I":
		return "(VI " + coqZList(v.I) + ")"
	case "N":
		return fmt.Sprintf("(VN %d%%N)", v.N)
	case "T":
		return "(VT " + coqNList(v.T) + ")"
	case "names":
		parts := make([]string, len(v.Names))
		for i, n := range v.Names {
			parts[i] = coqName(n)
		}
		return "(VNames [" + strings.Join(parts, ";") + "])"
	case "Q":
		return fmt.Sprintf("(VQ %s %d%%N %d%%N)", coqBool(v.Found), v.Idx, v.QTick)
	}
	panic("bad val kind " + v.Kind)
}

// ---------------------------------------------------------------- set stream

func c20ExecSet(in *C20Input) c20Val {
	s, b := toS(in.S), toS(in.B)
	return c20Safe(func() c20Val {
		switch in.Op {
		case "add":
			return vS(s.Add(toSs(in.Ls)...))
		case "add1":
			return vS(s.Add1(b...))
		case "sadd":
			return vS(am.SAdd(toSs(in.Ls)...))
		case "delete":
			return vS(s.Delete(toSs(in.Ls)...))
		case "delete1":
			return vS(s.Delete1(b...))
		case "srem":
			return vS(am.SRem(s, toSs(in.Ls)...))
		case "sub":
			return vS(s.Sub(b))
		case "shared":
			return vS(s.Shared(b))
		case "equal":
			return vB(s.Equal(b))
		case "equalorder":
			return vB(s.EqualOrder(b))
		case "unique":
			return vS(s.Unique())
		case "has":
			return vB(s.Has(st(in.X)))
		case "index":
			return vI(s.Index(b))
		case "index2states":
			return vNames(am.IndexToStates(s, toInts(in.Idxs)))
		}
		panic("bad set op " + in.Op)
	})
}

func c20CoqSetOp(in *C20Input) string {
	s, b := coqNatList(in.S), coqNatList(in.B)
	switch in.Op {
	case "add":
		return fmt.Sprintf("(OAdd %s %s)", s, coqNatLists(in.Ls))
	case "add1":
		return fmt.Sprintf("(OAdd1 %s %s)", s, b)
	case "sadd":
		return fmt.Sprintf("(OSAdd %s)", coqNatLists(in.Ls))
	case "delete":
		return fmt.Sprintf("(ODelete %s %s)", s, coqNatLists(in.Ls))
	case "delete1":
		return fmt.Sprintf("(ODelete1 %s %s)", s, b)
	case "srem":
		return fmt.Sprintf("(OSRem %s %s)", s, coqNatLists(in.Ls))
	case "sub":
		return fmt.Sprintf("(OSub %s %s)", s, b)
	case "shared":
		return fmt.Sprintf("(OShared %s %s)", s, b)
	case "equal":
		return fmt.Sprintf("(OEqual %s %s)", s, b)
	case "equalorder":
		return fmt.Sprintf("(OEqualOrder %s %s)", s, b)
	case "unique":
		return fmt.Sprintf("(OUnique %s)", s)
	case "has":
		return fmt.Sprintf("(OHas %s %d%%nat)", s, in.X)
	case "index":
		return fmt.Sprintf("(OIndex %s %s)", s, b)
	case "index2states":
		return fmt.Sprintf("(OIndexToStates %s %s)", s, coqZList(in.Idxs))
	}
	panic("bad set op " + in.Op)
}

// ---------------------------------------------------------------- time stream

func c20ExecTime(in *C20Input) c20Val {
	t, t2 := am.Time(in.T), am.Time(in.T2)
	idxs := toInts(in.Idxs)
	if in.Nil {
		idxs = nil
	}
	index := toS(in.Index)
	states := toS(in.S)
	if in.Nil {
		states = nil
	}
	ti := &am.TimeIndex{Time: t, Index: index}
	return c20Safe(func() c20Val {
		switch in.Op {
		case "new":
			return vT(am.NewTime(make(am.Time, in.Len), idxs))
		case "increment":
			return vT(t.Increment(int(in.I)))
		case "tadd":
			return vT(t.Add(t2))
		case "filter":
			return vT(t.Filter(idxs))
		case "sum":
			return vN(t.Sum(idxs))
		case "diffsince":
			return vT(t.DiffSince(t2))
		case "nonzero":
			return vIdx(t.NonZeroStates())
		case "after":
			return vB(t.After(in.Flag, t2))
		case "before":
			return vB(t.Before(in.Flag, t2))
		case "tequal":
			return vB(t.Equal(in.Flag, t2))
		case "tick":
			return vN(t.Tick(int(in.I)))
		case "is1":
			return vB(t.Is1(int(in.I)))
		case "is":
			return vB(t.Is(idxs))
		case "not":
			return vB(t.Not(idxs))
		case "not1":
			return vB(t.Not1(int(in.I)))
		case "any":
			ls := make([][]int, len(in.Lz))
			for i, l := range in.Lz {
				ls[i] = toInts(l)
			}
			return vB(t.Any(ls...))
		case "any1":
			return vB(t.Any1(idxs...))
		case "active":
			return vIdx(t.ActiveStates(idxs))
		case "tickfn":
			switch in.K {
			case 0:
				return vB(am.IsActiveTick(in.Tick))
			case 1:
				return vN(am.NextActive(in.Tick))
			case 2:
				return vN(am.NextInactive(in.Tick))
			case 3:
				return vN(uint64(am.NextActiveIn(in.Tick)))
			default:
				return vN(uint64(am.NextInactiveIn(in.Tick)))
			}
		case "x_statename":
			return vNames(am.S{ti.StateName(int(in.I))})
		case "x_sum":
			return vN(ti.Sum(states))
		case "x_filter":
			return vT(ti.Filter(states).Time)
		case "x_nonzero":
			return vNames(ti.NonZeroStates())
		case "x_is":
			return vB(ti.Is(states))
		case "x_not":
			return vB(ti.Not(states))
		case "x_any1":
			return vB(ti.Any1(states...))
		case "x_active":
			return vNames(ti.ActiveStates(states))
		}
		panic("bad time op " + in.Op)
	})
}

func c20CoqTimeOp(in *C20Input) string {
	t, t2 := coqNList(in.T), coqNList(in.T2)
	idxs := coqZList(in.Idxs)
	oidxs := "(Some " + idxs + ")"
	ostates := "(Some " + coqNatList(in.S) + ")"
	if in.Nil {
		oidxs, ostates = "None", "None"
	}
	index, states := coqNatList(in.Index), coqNatList(in.S)
	switch in.Op {
	case "new":
		return fmt.Sprintf("(TNew %d%%nat %s)", in.Len, idxs)
	case "increment":
		return fmt.Sprintf("(TIncrement %s %s%%Z)", t, coqZ(in.I))
	case "tadd":
		return fmt.Sprintf("(TAdd %s %s)", t, t2)
	case "filter":
		return fmt.Sprintf("(TFilter %s %s)", t, idxs)
	case "sum":
		return fmt.Sprintf("(TSum %s %s)", t, oidxs)
	case "diffsince":
		return fmt.Sprintf("(TDiffSince %s %s)", t, t2)
	case "nonzero":
		return fmt.Sprintf("(TNonZero %s)", t)
	case "after":
		return fmt.Sprintf("(TAfter %s %s %s)", coqBool(in.Flag), t, t2)
	case "before":
		return fmt.Sprintf("(TBefore %s %s %s)", coqBool(in.Flag), t, t2)
	case "tequal":
		return fmt.Sprintf("(TEqual %s %s %s)", coqBool(in.Flag), t, t2)
	case "tick":
		return fmt.Sprintf("(TTick %s %s%%Z)", t, coqZ(in.I))
	case "is1":
		return fmt.Sprintf("(TIs1 %s %s%%Z)", t, coqZ(in.I))
	case "is":
		return fmt.Sprintf("(TIs %s %s)", t, idxs)
	case "not":
		return fmt.Sprintf("(TNot %s %s)", t, idxs)
	case "not1":
		return fmt.Sprintf("(TNot1 %s %s%%Z)", t, coqZ(in.I))
	case "any":
		return fmt.Sprintf("(TAny %s %s)", t, coqZLists(in.Lz))
	case "any1":
		return fmt.Sprintf("(TAny1 %s %s)", t, idxs)
	case "active":
		return fmt.Sprintf("(TActive %s %s)", t, oidxs)
	case "tickfn":
		return fmt.Sprintf("(TTickFn %d%%N %d%%N)", in.K, in.Tick)
	case "x_statename":
		return fmt.Sprintf("(XStateName %s %s%%Z)", index, coqZ(in.I))
	case "x_sum":
		return fmt.Sprintf("(XSum %s %s %s)", index, t, states)
	case "x_filter":
		return fmt.Sprintf("(XFilter %s %s %s)", index, t, states)
	case "x_nonzero":
		return fmt.Sprintf("(XNonZero %s %s)", index, t)
	case "x_is":
		return fmt.Sprintf("(XIs %s %s %s)", index, t, states)
	case "x_not":
		return fmt.Sprintf("(XNot %s %s %s)", index, t, states)
	case "x_any1":
		return fmt.Sprintf("(XAny1 %s %s %s)", index, t, states)
	case "x_active":
		return fmt.Sprintf("(XActive %s %s %s)", index, t, ostates)
	}
	panic("bad time op " + in.Op)
}

// ---------------------------------------------------------------- machines

const c20Run = "Run"

// c20Mach builds a machine with the states S0..S(n-1), Run, Exception in
// that order.
func c20Mach(n int, multi []int, tracers ...am.Tracer) *am.Machine {
	schema := am.Schema{c20Run: {Multi: true}}
	names := am.S{}
	for i := 0; i < n; i++ {
		schema[st(i)] = am.State{}
		names = append(names, st(i))
	}
	for _, k := range multi {
		if k < n {
			schema[st(k)] = am.State{Multi: true}
		}
	}
	names = append(names, c20Run, am.StateException)
	m := am.New(context.Background(), schema, &am.Opts{Id: "c20",
		HandlerTimeout: 5 * time.Second, Tracers: tracers, DontLogStackTrace: true})
	must(m.VerifyStates(names))
	return m
}

type c20QTracer struct {
	*am.TracerNoOp
	called [][]int
}

func (t *c20QTracer) MutationQueued(_ am.Api, mut *am.Mutation) {
	t.called = append(t.called, append([]int{}, mut.Called...))
}

func c20ExecParse(in *C20Input) c20Val {
	if in.Fn == 0 {
		m := c20Mach(in.N, nil)
		defer m.Dispose()
		return c20Safe(func() c20Val { return vS(m.ParseStates(toS(in.States))) })
	}
	tr := &c20QTracer{TracerNoOp: &am.TracerNoOp{}}
	m := c20Mach(in.N, nil, tr)
	defer m.Dispose()
	return c20Safe(func() c20Val {
		m.Add(toS(in.States), nil)
		if len(tr.called) == 0 {
			return c20Val{Kind: "panic", Msg: "nothing queued"}
		}
		return vIdx(tr.called[0])
	})
}

type c20QObs struct {
	Queue []c20ObsMut `json:"queue"`
	Val   c20Val      `json:"val"`
	Err   string      `json:"err,omitempty"`
}

type c20ObsMut struct {
	Type   int    `json:"type"`
	Called []int  `json:"called"`
	Args   bool   `json:"args"`
	Check  bool   `json:"check"`
	Tick   uint64 `json:"tick"`
}

func c20Query(m *am.Machine, q *C20Query) c20Val {
	states := toS(q.States)
	return c20Safe(func() c20Val {
		switch q.Fn {
		case 0:
			f, i, t := m.IsQueued(am.MutationType(q.Type), states, q.NoArgs, q.Strict,
				q.MinTick, q.Check, am.Position(q.Pos))
			return c20Val{Kind: "Q", Found: f, Idx: uint64(i), QTick: t}
		case 1:
			return vB(m.IsQueuedAbove(q.Threshold, am.MutationType(q.Type), states,
				q.NoArgs, q.Strict, q.MinTick))
		case 2:
			if q.PosGiven {
				return vB(m.WillBe(states, am.Position(q.Pos)))
			}
			return vB(m.WillBe(states))
		default:
			if q.PosGiven {
				return vB(m.WillBeRemoved(states, am.Position(q.Pos)))
			}
			return vB(m.WillBeRemoved(states))
		}
	})
}

func c20Snapshot(m *am.Machine) []c20ObsMut {
	var ret []c20ObsMut
	for _, mut := range m.Queue() {
		ret = append(ret, c20ObsMut{Type: int(mut.Type), Called: append([]int{}, mut.Called...),
			Args: len(mut.Args) > 0, Check: mut.IsCheck, Tick: mut.QueueTick})
	}
	return ret
}

// c20ExecQueue runs the script (queueing mutations) and the query, from
// inside the RunState handler (or, with an empty script, from outside).
func c20ExecQueue(in *C20Input) *c20QObs {
	obs := &c20QObs{}
	m := c20Mach(in.N, in.Multi)
	defer m.Dispose()
	if !in.InHandler {
		obs.Queue = c20Snapshot(m)
		obs.Val = c20Query(m, in.Query)
		return obs
	}
	done := make(chan struct{})
	_, err := m.HandlersBindMaps(nil, map[string]am.HandlerFinal{
		c20Run + "State": func(e *am.Event) {
			defer close(done)
			defer func() {
				if r := recover(); r != nil {
					obs.Err = fmt.Sprint(r)
				}
			}()
			for _, s := range in.Script {
				var args am.A
				if s.Args {
					args = am.A{"x": 1}
				}
				states := toS(s.States)
				switch {
				case s.Check && s.Type == 0:
					m.CanAdd(states, args)
				case s.Check:
					m.CanRemove(states, args)
				case s.Type == 0:
					m.Add(states, args)
				case s.Type == 1:
					m.Remove(states, args)
				default:
					m.Set(states, args)
				}
			}
			obs.Queue = c20Snapshot(m)
			obs.Val = c20Query(m, in.Query)
		},
	})
	must(err)
	if len(in.Active) > 0 {
		m.Add(toS(in.Active), nil)
	}
	m.Add1(c20Run, nil)
	select {
	case <-done:
	case <-time.After(4 * time.Second):
		obs.Err = "handler did not finish"
	}
	return obs
}

func c20CoqQueue(in *C20Input, obs *c20QObs) string {
	muts := make([]string, len(obs.Queue))
	for i, q := range obs.Queue {
		muts[i] = fmt.Sprintf("mk_qmut %d%%N %s %s %s %d%%N", q.Type, coqNatList(q.Called),
			coqBool(q.Args), coqBool(q.Check), q.Tick)
	}
	q := in.Query
	pos := q.Pos
	if q.Fn >= 2 && !q.PosGiven {
		pos = 0
	}
	return fmt.Sprintf("(KQueue %d%%nat [%s] %d%%N (mk_qquery %d%%N %s %s %s %d%%N %s %d%%N) %s%%Z %s)",
		in.N, strings.Join(muts, ";"), q.Fn, q.Type, coqNatList(q.States), coqBool(q.NoArgs),
		coqBool(q.Strict), q.MinTick, coqBool(q.Check), pos, coqZ(int64(q.Threshold)), obs.Val.Coq())
}

// ---------------------------------------------------------------- generators

func c20List(r *Rng, univ, maxLen int, dupPct int) []int {
	n := r.Intn(maxLen + 1)
	ret := make([]int, 0, n)
	for i := 0; i < n; i++ {
		if len(ret) > 0 && r.Chance(dupPct) {
			ret = append(ret, ret[r.Intn(len(ret))])
		} else {
			ret = append(ret, r.Intn(univ))
		}
	}
	return ret
}

func c20Lists(r *Rng, univ, maxLists, maxLen, dupPct int) [][]int {
	n := r.Intn(maxLists + 1)
	ret := make([][]int, n)
	for i := range ret {
		ret[i] = c20List(r, univ, maxLen, dupPct)
	}
	return ret
}

var c20SetOps = []string{"add", "add1", "sadd", "delete", "delete1", "srem", "sub", "shared",
	"equal", "equalorder", "unique", "has", "index", "index2states"}

func c20GenSet(r *Rng, op string, malformed bool) *C20Input {
	univ := r.Range(2, 7)
	dup := 0
	if r.Chance(40) {
		dup = 30
	}
	in := &C20Input{Stream: "set", Op: op}
	in.S = c20List(r, univ, 6, dup)
	in.B = c20List(r, univ, 5, dup)
	switch op {
	case "add", "sadd", "delete", "srem":
		in.Ls = c20Lists(r, univ, 3, 4, dup)
	case "has":
		in.X = r.Intn(univ + 1)
	case "equal", "equalorder":
		if r.Chance(40) {
			// a permutation (or a copy) of s
			p := r.Perm(len(in.S))
			in.B = make([]int, len(in.S))
			for i, j := range p {
				in.B[i] = in.S[j]
			}
			if r.Chance(30) {
				in.B = append([]int{}, in.S...)
			}
		}
	case "index2states":
		n := r.Intn(5)
		for i := 0; i < n; i++ {
			x := int64(r.Range(-1, len(in.S)+2))
			if malformed && r.Chance(40) {
				x = int64(-2 - r.Intn(3))
			}
			in.Idxs = append(in.Idxs, x)
		}
	}
	return in
}

var c20TimeOps = []string{"new", "increment", "tadd", "filter", "sum", "diffsince", "nonzero",
	"after", "before", "tequal", "tick", "is1", "is", "not", "not1", "any", "any1", "active",
	"tickfn", "x_statename", "x_sum", "x_filter", "x_nonzero", "x_is", "x_not", "x_any1", "x_active"}

func c20Tick(r *Rng) uint64 {
	switch {
	case r.Chance(70):
		return uint64(r.Intn(6))
	case r.Chance(50):
		return uint64(r.Intn(1000))
	default:
		return ^uint64(0) - uint64(r.Intn(3))
	}
}

func c20Time(r *Rng, n int) []uint64 {
	t := make([]uint64, n)
	for i := range t {
		t[i] = c20Tick(r)
	}
	return t
}

// c20Idx: an index for a slice of length n; malformed adds negatives and
// far-out values.
func c20Idx(r *Rng, n int, allowM1, allowBeyond, malformed bool) int64 {
	if malformed && r.Chance(35) {
		if r.Chance(50) {
			return int64(-2 - r.Intn(2))
		}
		return int64(n + r.Intn(3))
	}
	if allowM1 && r.Chance(15) {
		return -1
	}
	if allowBeyond && r.Chance(15) {
		return int64(n + r.Intn(3))
	}
	if n == 0 {
		if allowBeyond {
			return int64(r.Intn(2))
		}
		if allowM1 {
			return -1
		}
		return 0
	}
	return int64(r.Intn(n))
}

func c20GenTime(r *Rng, op string, malformed bool) *C20Input {
	n := r.Intn(6)
	in := &C20Input{Stream: "time", Op: op}
	in.T = c20Time(r, n)
	n2 := n
	if r.Chance(25) {
		n2 = r.Intn(6)
	}
	in.T2 = c20Time(r, n2)
	if r.Chance(30) && n2 >= n {
		// related times: t2 = t + small delta
		for i := range in.T {
			in.T2[i] = in.T[i] + uint64(r.Intn(3))
		}
	}
	in.Flag = r.Chance(50)
	idxList := func(m1, beyond bool) []int64 {
		k := r.Intn(4)
		var ret []int64
		for i := 0; i < k; i++ {
			ret = append(ret, c20Idx(r, n, m1, beyond, malformed))
		}
		return ret
	}
	switch op {
	case "new":
		in.Len = n
		in.Idxs = idxList(false, false)
		if n == 0 && !malformed {
			in.Idxs = nil
		}
		in.T, in.T2 = nil, nil
	case "increment", "tick":
		in.I = c20Idx(r, n, false, true, malformed)
	case "is1", "not1":
		in.I = c20Idx(r, n, true, true, malformed)
	case "filter":
		in.Idxs = idxList(false, true)
	case "sum":
		in.Nil = r.Chance(40)
		if !in.Nil {
			in.Idxs = idxList(false, true)
		}
	case "is", "not":
		in.Idxs = idxList(true, false)
		if n == 0 {
			in.Idxs = nil
			if r.Chance(50) {
				in.Idxs = []int64{-1}
			}
		}
	case "any1":
		in.Idxs = idxList(true, true)
	case "any":
		k := r.Intn(3)
		for i := 0; i < k; i++ {
			l := idxList(true, false)
			if n == 0 {
				l = nil
			}
			in.Lz = append(in.Lz, l)
		}
	case "active":
		in.Nil = r.Chance(40)
		if !in.Nil {
			in.Idxs = idxList(false, false)
			if n == 0 {
				in.Idxs = []int64{}
			}
		}
	case "tickfn":
		in.K = r.Intn(5)
		in.Tick = c20Tick(r)
		in.T, in.T2 = nil, nil
	}
	if strings.HasPrefix(op, "x_") {
		// index: n distinct names (malformed: shorter / longer than the time)
		in.Index = r.Perm(n + 2)[:n]
		if malformed && r.Chance(50) {
			in.Index = r.Perm(n + 3)[:r.Intn(n+3)]
		}
		switch op {
		case "x_statename":
			in.I = c20Idx(r, len(in.Index), false, true, malformed)
		case "x_active":
			in.Nil = r.Chance(40)
		}
		k := r.Intn(4)
		for i := 0; i < k && len(in.Index) > 0; i++ {
			in.S = append(in.S, in.Index[r.Intn(len(in.Index))])
		}
		if malformed && r.Chance(60) {
			in.S = append(in.S, n+5) // a name that is not in the index
		}
		if op == "x_active" && r.Chance(30) {
			in.S = append(in.S, n+5)
		}
	}
	return in
}

func c20GenParse(r *Rng) *C20Input {
	n := r.Range(1, 5)
	in := &C20Input{Stream: "parse", N: n, Fn: 0}
	if r.Chance(30) {
		in.Fn = 1
	}
	k := r.Intn(6)
	unknownPct := 25
	if in.Fn == 1 {
		unknownPct = 8
	}
	for i := 0; i < k; i++ {
		switch {
		case r.Chance(unknownPct):
			in.States = append(in.States, n+r.Intn(2))
		case len(in.States) > 0 && r.Chance(25):
			in.States = append(in.States, in.States[r.Intn(len(in.States))])
		default:
			in.States = append(in.States, r.Intn(n))
		}
	}
	if in.Fn == 1 && len(in.States) == 0 {
		in.States = []int{0}
	}
	return in
}

func c20GenQueue(r *Rng) *C20Input {
	n := r.Range(1, 4)
	in := &C20Input{Stream: "queue", N: n, InHandler: r.Chance(85)}
	in.Multi = r.Subset(n, 40)
	in.Active = r.Subset(n, 75)
	if in.InHandler {
		k := r.Range(1, 6)
		if r.Chance(10) {
			k = 0
		}
		for i := 0; i < k; i++ {
			s := C20QMut{Type: []int{0, 0, 1, 2}[r.Intn(4)], Args: r.Chance(30), Check: r.Chance(15)}
			s.States = c20List(r, n, 3, 15)
			if len(s.States) == 0 {
				s.States = []int{r.Intn(n)}
			}
			if s.Check && s.Type == 2 {
				s.Type = r.Intn(2)
			}
			in.Script = append(in.Script, s)
		}
	}
	q := &C20Query{Fn: r.Intn(4), Type: r.Intn(3), NoArgs: r.Chance(30), Strict: r.Chance(30),
		Check: r.Chance(15), Pos: r.Intn(3), PosGiven: r.Chance(70), Threshold: r.Range(-1, 3)}
	if r.Chance(5) {
		q.Pos = 3 + r.Intn(3)
	}
	if r.Chance(25) {
		q.MinTick = uint64(r.Intn(6))
	}
	// ask mostly about something that was queued
	if len(in.Script) > 0 && r.Chance(75) {
		s := in.Script[r.Intn(len(in.Script))]
		q.Type = s.Type
		q.States = append([]int{}, s.States...)
		if r.Chance(40) && len(q.States) > 1 {
			q.States = q.States[:len(q.States)-1]
		}
		if r.Chance(50) {
			q.Check = s.Check
		}
	} else {
		q.States = c20List(r, n+1, 3, 10)
	}
	in.Query = q
	return in
}

// ---------------------------------------------------------------- run

func runC20(c *Ctx) error {
	if spec := os.Getenv("AMVERIF_C20_CHILD"); spec != "" {
		c20SweepChild(spec)
		return nil
	}
	out := NewOut(c.OutDir, "C20",
		"From Coq Require Import List NArith ZArith.\nFrom AMV Require Import Model.Helpers Spec.C20 Run.EvalC20.\nImport ListNotations.\nOpen Scope N_scope.",
		"c20case", "check_all", 2000)

	var sweepInputs []*C20Input
	var sweepKinds []string

	emit := func(kind string, in *C20Input) {
		switch in.Stream {
		case "set":
			v := c20ExecSet(in)
			out.Count("stream", "set")
			out.Count("set_op", in.Op)
			out.Count("set_result", v.Kind)
			if in.Op == "delete" || in.Op == "srem" || in.Op == "add" || in.Op == "sadd" {
				out.Count("set_lists", fmt.Sprint(len(in.Ls)))
			}
			out.Add(kind, in, v, fmt.Sprintf("(KSet %s %s)", c20CoqSetOp(in), v.Coq()),
				len(in.S) == 0 && len(in.B) == 0 && len(in.Ls) == 0, "")
		case "time":
			v := c20ExecTime(in)
			out.Count("stream", "time")
			out.Count("time_op", in.Op)
			out.Count("time_result", v.Kind)
			out.Add(kind, in, v, fmt.Sprintf("(KTime %s %s)", c20CoqTimeOp(in), v.Coq()),
				len(in.T) == 0 && in.Op != "tickfn" && in.Op != "new", "")
		case "parse":
			v := c20ExecParse(in)
			out.Count("stream", "parse")
			out.Count("parse_fn", []string{"ParseStates", "mustParseStates"}[in.Fn])
			out.Count("parse_result", v.Kind)
			out.Add(kind, in, v, fmt.Sprintf("(KParse %d%%nat %d%%N %s %s)", in.N, in.Fn,
				coqNatList(in.States), v.Coq()), len(in.States) == 0, "")
		case "queue":
			obs := c20ExecQueue(in)
			out.Count("stream", "queue")
			out.Count("queue_fn", []string{"IsQueued", "IsQueuedAbove", "WillBe", "WillBeRemoved"}[in.Query.Fn])
			out.Count("queue_len", fmt.Sprint(len(obs.Queue)))
			out.Count("queue_pos", fmt.Sprint(in.Query.Pos))
			res := obs.Val.Kind
			if obs.Val.Kind == "Q" || obs.Val.Kind == "B" {
				res = fmt.Sprintf("%s:%v", obs.Val.Kind, obs.Val.Found || obs.Val.B)
			}
			out.Count("queue_result", res)
			if obs.Err != "" {
				out.Count("queue_err", obs.Err)
			}
			out.Add(kind, in, obs, c20CoqQueue(in, obs), len(obs.Queue) == 0 && in.Query.Pos != 1, "")
		case "sweep":
			sweepInputs = append(sweepInputs, in)
			sweepKinds = append(sweepKinds, kind)
		default:
			panic("bad stream " + in.Stream)
		}
	}

	cases, replayOnly := c.loadCases()
	for _, cc := range cases {
		var in C20Input
		must(json.Unmarshal(cc.Input, &in))
		emit("corpus:"+cc.Name, &in)
	}

	if !replayOnly {
		r := c.Rng
		// ---- exhaustive small scope for the set algebra: all lists over
		// {0,1} of length <= 2 as receiver and argument(s)
		small := [][]int{{}, {0}, {1}, {0, 0}, {0, 1}, {1, 0}, {1, 1}}
		for _, a := range small {
			for _, b := range small {
				for _, op := range []string{"add1", "delete1", "sub", "shared", "equal", "equalorder", "index"} {
					emit("exhaustive", &C20Input{Stream: "set", Op: op, S: a, B: b})
				}
				for _, op := range []string{"add", "delete", "srem"} {
					emit("exhaustive", &C20Input{Stream: "set", Op: op, S: a, Ls: [][]int{b}})
					for _, b2 := range small[:4] {
						emit("exhaustive", &C20Input{Stream: "set", Op: op, S: a, Ls: [][]int{b, b2}})
					}
				}
			}
			emit("exhaustive", &C20Input{Stream: "set", Op: "add", S: a})
			emit("exhaustive", &C20Input{Stream: "set", Op: "delete", S: a})
			emit("exhaustive", &C20Input{Stream: "set", Op: "unique", S: a})
		}
		nSet := c.N(1500, 40000)
		for i := 0; i < nSet; i++ {
			op := c20SetOps[r.Intn(len(c20SetOps))]
			emit("set", c20GenSet(r, op, false))
		}
		for i := 0; i < c.N(100, 2000); i++ {
			emit("set-malformed", c20GenSet(r, "index2states", true))
		}
		nTime := c.N(2500, 60000)
		for i := 0; i < nTime; i++ {
			op := c20TimeOps[r.Intn(len(c20TimeOps))]
			emit("time", c20GenTime(r, op, false))
		}
		for i := 0; i < c.N(500, 10000); i++ {
			op := c20TimeOps[r.Intn(len(c20TimeOps))]
			emit("time-malformed", c20GenTime(r, op, true))
		}
		for i := 0; i < c.N(400, 8000); i++ {
			emit("parse", c20GenParse(r))
		}
		for i := 0; i < c.N(600, 12000); i++ {
			emit("queue", c20GenQueue(r))
		}
		// ---- exploration: totality sweep of the rest of the surface
		for _, it := range c20SweepItems {
			for _, ph := range it.phases {
				emit("sweep", &C20Input{Stream: "sweep", Item: it.id, Phase: ph})
			}
		}
	}

	// sweep cases run in child processes, in parallel
	type sres struct {
		obs int
		msg string
	}
	results := make([]sres, len(sweepInputs))
	var wg sync.WaitGroup
	sem := make(chan struct{}, 12)
	for i, in := range sweepInputs {
		wg.Add(1)
		go func(i int, in *C20Input) {
			defer wg.Done()
			sem <- struct{}{}
			defer func() { <-sem }()
			o, msg := c20SweepSpawn(c, in.Item, in.Phase)
			results[i] = sres{o, msg}
		}(i, in)
	}
	wg.Wait()
	obsNames := []string{"ok", "panic", "hang", "wrong-result", "process-died"}
	for i, in := range sweepInputs {
		res := results[i]
		name := fmt.Sprintf("item%d", in.Item)
		if it := c20SweepItem(in.Item); it != nil {
			name = it.name
		}
		out.Count("stream", "sweep")
		out.Count("sweep_obs", obsNames[res.obs])
		out.Count("sweep_phase", c20PhaseNames[in.Phase])
		if res.obs != 0 {
			out.Count("sweep_not_ok", fmt.Sprintf("%s/%s=%s", name, c20PhaseNames[in.Phase], obsNames[res.obs]))
		}
		out.Add(sweepKinds[i], in, map[string]any{"item": name, "phase": c20PhaseNames[in.Phase],
			"obs": obsNames[res.obs], "msg": res.msg},
			fmt.Sprintf("(KSweep %d%%N %d%%N %d%%N)", in.Item, in.Phase, res.obs), false, "")
	}

	out.Close("differential: exhaustive set algebra over lists of length <= 2 on {0,1}; sampled "+
		"set / Time / TimeIndex / ParseStates / queue-query calls (mostly in-domain, separate "+
		"malformed streams with negative and out-of-range indexes, names outside the index); "+
		"queue queries are asked from inside a handler about the queue Machine.Queue() returns. "+
		"exploration (no model, not claimed as proof): the sweep items x lifecycle phases, each in "+
		"a child process with panic recovery and a 2 s watchdog. non-trivial = some argument non-empty",
		map[string]any{"surface": c20Surface(), "sweep_cases": len(sweepInputs)})
	return nil
}

func c20SweepSpawn(c *Ctx, item, phase int) (int, string) {
	exe, err := os.Executable()
	must(err)
	ctx, cancel := context.WithTimeout(context.Background(), 8*time.Second)
	defer cancel()
	cmd := exec.CommandContext(ctx, exe, "C20", "--out", c.OutDir)
	cmd.Env = append(os.Environ(), fmt.Sprintf("AMVERIF_C20_CHILD=%d:%d", item, phase),
		"GOTRACEBACK=none")
	outb, err := cmd.Output()
	s := strings.TrimSpace(string(outb))
	// the child prints "OBS <n> <msg>" as its last line
	if i := strings.LastIndex(s, "OBS "); i >= 0 {
		f := strings.SplitN(s[i+4:], " ", 2)
		o, e2 := strconv.Atoi(strings.TrimSpace(f[0]))
		msg := ""
		if len(f) > 1 {
			msg = f[1]
		}
		if e2 == nil && o >= 0 && o <= 3 {
			return o, msg
		}
	}
	if ctx.Err() != nil {
		return 2, "child killed after 8 s"
	}
	msg := "child died"
	if err != nil {
		msg += ": " + err.Error()
	}
	return 4, msg
}

func c20SortedInts(xs []int) []int {
	ys := append([]int{}, xs...)
	sort.Ints(ys)
	return ys
}
