//go:build p_c15 || p_all

package main

// C15 — supervision keeps the pool within bounds, never calls a short pool
// ready. Drives a REAL node.Supervisor through its in-memory TestFork /
// TestKill seams (fork requests, completions in any order, failures, real
// in-process workers that connect over localhost RPC, worker errors, kills,
// disconnects, Heartbeat and NormalizingPool rounds). A tracer bound to the
// supervisor machine samples VerifPool() at every TransitionEnd and around the
// gate handlers; every transition becomes one observed event of the Coq event
// model (Conc/Pool.v). The listing of every round of the normalizer is the
// event ENormalize: its record carries the tracked count of that transition
// and the ForkWorker mutations the listing goroutine queued afterwards. State-group exclusivity is additionally explored on
// handler-less machines built from the real schemas; group membership and the
// schemas are read from the real states packages at run time.

import (
	"bytes"
	"context"
	"encoding/json"
	"errors"
	"fmt"
	"os"
	"os/exec"
	"reflect"
	"runtime"
	"slices"
	"sort"
	"strings"
	"sync"
	"sync/atomic"
	"time"

	amhelp "github.com/pancsta/asyncmachine-go/pkg/helpers"
	am "github.com/pancsta/asyncmachine-go/pkg/machine"
	"github.com/pancsta/asyncmachine-go/pkg/node"
	nstates "github.com/pancsta/asyncmachine-go/pkg/node/states"
)

func init() { register("C15", runC15) }

var (
	c15S  = nstates.SupervisorStates
	c15Wk = nstates.WorkerStates
)

// ---------------------------------------------------------------- input

type C15Step struct {
	// fork     request a fork (Add ForkWorker)
	// done     complete the W-th pending seamed fork successfully (fake entry, never RPC-ready)
	// fail     complete the W-th pending seamed fork with an error
	// real     complete the W-th pending seamed fork by starting a real in-process node.Worker
	// late     like real, but the fork seam returns LATE: only after the supervisor machine has processed
	//          WorkerForked for that worker (the worker connects before its fork "completes")
	// drain    complete pending seamed forks successfully, one after another, until none is left (at most N, default 16)
	// err      AddErrWorker for the W-th tracked worker (N=1: wrapped ErrWorkerKill, N=2: unknown address, N=3: ErrWorkerHealth)
	// err2     two AddErrWorker calls queued back to back (inside one Machine.Eval) for the W-th and (W+N)-th tracked worker
	// kill     Add KillingWorker for the W-th tracked worker (N=1: the seam returns an error, N=2: the seam "forgets" WorkerKilled)
	// killed   Add WorkerKilled for the W-th tracked worker
	// unset    Add SetWorker with a nil info (delete) for the W-th tracked worker
	// hb       Add Heartbeat
	// norm     Add NormalizingPool
	// pr+ pr-  Add / Remove PoolReady
	// flip     toggle the Ready state of the W-th real worker
	// gone     stop the W-th real worker without telling the supervisor
	// work     worker-side: Add the N-th member of the WorkStatus group on the W-th real worker
	// wait     sleep N ms
	Op string `json:"op"`
	W  int    `json:"w,omitempty"`
	N  int    `json:"n,omitempty"`
}

type C15Op struct {
	T      int   `json:"t"` // 0 add 1 remove 2 set
	States []int `json:"s"`
}

type C15Input struct {
	Min     int       `json:"min"`
	Max     int       `json:"max"`
	Warm    int       `json:"warm"`
	ErrKill int       `json:"err_kill"`
	SetPool bool      `json:"set_pool,omitempty"` // configure with SetPool() instead of the fields
	ConnMs  int       `json:"conn_ms"`
	Steps   []C15Step `json:"steps,omitempty"`
	// schema exploration (no supervisor): handler-less machine of the real schema
	Explore string  `json:"explore,omitempty"` // "supervisor" | "worker"
	Ops     []C15Op `json:"ops,omitempty"`
}

// ---------------------------------------------------------------- observation

type c15Rec struct {
	Ev      string `json:"ev"` // Gallina term of Pool.event
	Name    string `json:"name"`
	Acc     bool   `json:"acc"`
	FGate   []int  `json:"fgate,omitempty"` // tracked, ready at the fork gate
	RGate   []int  `json:"rgate,omitempty"` // tracked, ready at the PoolReady gate
	RStable bool   `json:"rstable"`
	RExit   bool   `json:"rexit,omitempty"`
	Tracked int    `json:"tracked"`
	Ready   int    `json:"ready"`
	MinEff  int    `json:"min_eff"`
	Exact   bool   `json:"exact"`
	Before  []int  `json:"before"`
	After   []int  `json:"after"`
	Kills   []int  `json:"kills,omitempty"`
	Started bool   `json:"fork_started,omitempty"`
	// ENormalize: id of the round, ForkWorker mutations queued by the listing
	// goroutine before its next mutation, 1 when that count is final
	Round []int `json:"round,omitempty"`
	// EForkReq / EForking: id of the round that requested the fork (0: the driver)
	Src int `json:"src,omitempty"`
}

type c15Obs struct {
	Recs    []c15Rec `json:"recs,omitempty"`
	WSets   [][]int  `json:"worker_sets,omitempty"`
	Sets    [][]int  `json:"sets,omitempty"`
	Err     string   `json:"err,omitempty"`
	Dropped int      `json:"dropped"` // identical neutral samples not recorded
	MaxSeen int      `json:"max_tracked"`
	Rounds  int      `json:"rounds"`      // listings of the normalizer
	RoundRq int      `json:"round_forks"` // ForkWorker mutations they requested
	Note    []string `json:"note,omitempty"`
}

var errC15ForkFail = errors.New("c15: seamed fork failed")
var errC15Worker = errors.New("c15: injected worker error")
var errC15Kill = errors.New("c15: seamed kill failed")

// ---------------------------------------------------------------- tracer

type c15Tracer struct {
	*am.TracerNoOp
	s     *node.Supervisor
	names am.S
	idx   map[string]int

	mx       sync.Mutex
	keys     map[string]int
	recs     []c15Rec
	dropped  int
	inTx     bool
	cur      c15Rec
	last     time.Time
	unstable *atomic.Int32
	closed   atomic.Bool // teardown: disposal is not a withdrawal
	maxSeen  int
	// rounds of the normalizer
	// (MutationQueued runs on the queuing goroutine AFTER the mutation is in the
	// queue: the transition may be over before it is called, so records and
	// rounds are matched up at the end of the case, see finishRounds)
	rounds    []*c15Round
	open      map[uint64]*c15Round // by goroutine: the round whose fork loop may still be running
	forkRound map[*am.Mutation]int // ForkWorker mutation -> id of the round that queued it
	listRecs  []c15RecRef          // records of listings
	forkRecs  []c15RecRef          // records of ForkWorker transitions
	startRecs []c15RecRef          // records of ForkingWorker transitions (tx = the requesting transition)
	// notifications for the driver
	events chan struct{}
	// boot addresses for which a WorkerForked transition has ended
	forked map[string]chan struct{}
}

// whenForked is closed once the supervisor has processed WorkerForked for the
// worker that connected to this bootstrap address
func (t *c15Tracer) whenForked(boot string) chan struct{} {
	t.mx.Lock()
	defer t.mx.Unlock()
	ch := t.forked[boot]
	if ch == nil {
		ch = make(chan struct{})
		t.forked[boot] = ch
	}
	return ch
}

// c15Round is one round of NormalizingPoolState's goroutine: the listing
// (Add ListWorkers with an empty WorkerState, which only the normalizer
// issues) and the ForkWorker mutations the SAME goroutine queues before it
// queues anything else (its next listing, PoolReady, PoolNormalized, an error).
type c15Round struct {
	id     int
	gid    uint64
	mut    *am.Mutation
	forks  int
	closed bool // the goroutine moved on: the fork loop is over
	// ... to the readiness check (Workers(ctx, StateReady) inside Interval): the
	// listing reached the fork loop. A round without requests that is followed
	// by anything else may have been skipped: Workers() fails although the
	// listing ran when Machine.Add returns Canceled - the caller found the queue
	// already emptied by the goroutine that was running it - and the normalizer
	// lists again at once (or gives up after the 5th round)
	checked bool
	at      time.Time
}

type c15RecRef struct {
	idx int
	mut *am.Mutation
	tx  string
	at  time.Time
}

// c15Gid is the id of the calling goroutine (MutationQueued runs on the
// goroutine that called Add). Ids are never reused.
func c15Gid() uint64 {
	var buf [64]byte
	b := buf[:runtime.Stack(buf[:], false)]
	b = bytes.TrimPrefix(b, []byte("goroutine "))
	var id uint64
	for _, ch := range b {
		if ch < '0' || ch > '9' {
			break
		}
		id = id*10 + uint64(ch-'0')
	}
	return id
}

func (t *c15Tracer) key(addr string) int {
	if addr == "" {
		return 0
	}
	if k, ok := t.keys[addr]; ok {
		return k
	}
	k := len(t.keys) + 1
	t.keys[addr] = k
	return k
}

func (t *c15Tracer) sidx(names am.S) []int {
	ret := make([]int, 0, len(names))
	for _, n := range names {
		ret = append(ret, t.idx[n])
	}
	sort.Ints(ret)
	return ret
}

func (t *c15Tracer) TransitionInit(tx *am.Transition) {
	t.mx.Lock()
	defer t.mx.Unlock()
	t.inTx = true
	t.cur = c15Rec{RStable: true}
}

func (t *c15Tracer) HandlerStart(tx *am.Transition, _ string, h string) {
	switch h {
	case "ForkWorkerEnter", "ForkingWorkerEnter":
		a, r, _ := t.s.VerifPool()
		t.mx.Lock()
		t.cur.FGate = []int{a, r}
		t.mx.Unlock()
	case "PoolReadyEnter", "PoolReadyExit":
		a, r, _ := t.s.VerifPool()
		t.mx.Lock()
		t.cur.RGate = []int{a, r}
		t.cur.RExit = h == "PoolReadyExit"
		t.mx.Unlock()
	case "ForkingWorkerState":
		t.mx.Lock()
		t.cur.Started = true
		t.mx.Unlock()
	}
}

func (t *c15Tracer) HandlerEnd(tx *am.Transition, _ string, h string) {
	switch h {
	case "PoolReadyEnter", "PoolReadyExit":
		a, r, _ := t.s.VerifPool()
		t.mx.Lock()
		if t.cur.RGate == nil || t.cur.RGate[0] != a || t.cur.RGate[1] != r {
			t.cur.RStable = false
		}
		t.mx.Unlock()
	}
}

func (t *c15Tracer) MutationQueued(_ am.Api, mut *am.Mutation) {
	if t.closed.Load() {
		return
	}
	single := ""
	if mut.Type == am.MutationAdd && len(mut.Called) == 1 {
		single = t.names[mut.Called[0]]
	}
	gid := c15Gid()
	t.mx.Lock()
	defer t.mx.Unlock()
	// rounds: whatever the listing goroutine queues next that is not a fork
	// request ends its fork loop
	if r := t.open[gid]; r != nil {
		if single == c15S.ForkWorker {
			r.forks++
			t.forkRound[mut] = r.id
		} else {
			r.closed = true
			if single == c15S.ListWorkers {
				a := am.ParseArgs[node.A](mut.Args)
				r.checked = a.WorkerState == node.StateReady && a.WorkersCh != nil
			}
			delete(t.open, gid)
		}
	}
	switch single {
	case c15S.ListWorkers:
		a := am.ParseArgs[node.A](mut.Args)
		if a.WorkerState == "" && a.WorkersCh != nil {
			r := &c15Round{id: len(t.rounds) + 1, gid: gid, mut: mut, at: time.Now()}
			t.rounds = append(t.rounds, r)
			t.open[gid] = r
		}
	case c15S.KillingWorker:
		if a := am.ParseArgs[node.A](mut.Args); t.inTx && a.Id != c15DriverId {
			t.cur.Kills = append(t.cur.Kills, t.key(a.LocalAddr))
		}
	}
}

// finishRounds matches records and rounds: the fork counts go into the listing
// records, the requesting round into the fork records (t.mx held)
func (t *c15Tracer) finishRounds() (n, forks int) {
	byMut := map[*am.Mutation]*c15Round{}
	for _, r := range t.rounds {
		byMut[r.mut] = r
	}
	for _, ref := range t.listRecs {
		r := byMut[ref.mut]
		if r == nil {
			continue // 1:11
		}
		// the count is compared for equality only when the goroutine was seen to
		// move on, the listing was answered in time (Workers() gives up after
		// OpTimeout = 1s) and the round is known not to have been skipped
		final := 0
		if r.closed && (r.forks > 0 || r.checked) && ref.at.Sub(r.at) < 400*time.Millisecond {
			final = 1
		}
		t.recs[ref.idx].Round = []int{r.id, r.forks, final}
		n++
		forks += r.forks
	}
	txRound := map[string]int{}
	for _, ref := range t.forkRecs {
		if id := t.forkRound[ref.mut]; id != 0 {
			t.recs[ref.idx].Src = id
			txRound[ref.tx] = id
		}
	}
	for _, ref := range t.startRecs {
		t.recs[ref.idx].Src = txRound[ref.tx]
	}
	return
}

func (t *c15Tracer) classify(tx *am.Transition) (string, string) {
	mut := tx.Mutation
	var called am.S
	for _, i := range mut.Called {
		called = append(called, t.names[i])
	}
	name := strings.ToLower(mut.Type.String()) + " " + strings.Join(called, ",")
	a := am.ParseArgs[node.A](mut.Args)
	if len(called) == 1 && mut.Type == am.MutationAdd {
		switch called[0] {
		case c15S.ForkWorker:
			return "EForkReq", name
		case c15S.ForkingWorker:
			k := 0
			if a.Bootstrap != nil {
				k = t.key(a.Bootstrap.Addr())
			}
			return fmt.Sprintf("(EForking %d)", k), name
		case c15S.SetWorker:
			if a.WorkerAddr == "" {
				return "EOther", name
			}
			if a.WorkerInfo != nil {
				return fmt.Sprintf("(ESetIns %d)", t.key(a.WorkerAddr)), name
			}
			return fmt.Sprintf("(ESetDel %d)", t.key(a.WorkerAddr)), name
		case c15S.WorkerForked:
			if a.LocalAddr == "" || a.WorkerRpc == nil {
				return "EOther", name
			}
			return fmt.Sprintf("(ERekey %d %d)", t.key(a.BootAddr), t.key(a.LocalAddr)), name
		case c15S.WorkerKilled:
			if a.LocalAddr == "" {
				return "EOther", name
			}
			return fmt.Sprintf("(EKilled %d)", t.key(a.LocalAddr)), name
		case c15S.KillingWorker:
			return fmt.Sprintf("(EKilling %d)", t.key(a.LocalAddr)), name
		case c15S.PoolReady:
			return "ETryReady", name
		case c15S.ListWorkers:
			if a.WorkerState == "" && a.WorkersCh != nil {
				return "ENormalize", name
			}
		}
	}
	if len(called) == 1 && mut.Type == am.MutationRemove && called[0] == c15S.PoolReady {
		return "ETryUnready", name
	}
	if mut.Type == am.MutationRemove && slices.Contains(called, c15S.ErrWorker) {
		return "EErrClear", name
	}
	if mut.Type == am.MutationAdd && slices.Contains(called, c15S.ErrWorker) {
		ex := am.ParseArgs[am.AException](mut.Args)
		if a.LocalAddr != "" {
			return fmt.Sprintf("(EErr %d %s)", t.key(a.LocalAddr),
				coqBool(!errors.Is(ex.Err, node.ErrWorkerKill))), name
		}
		if a.Bootstrap != nil && errors.Is(ex.Err, errC15ForkFail) {
			return fmt.Sprintf("(EForkFail %d)", t.key(a.Bootstrap.Addr())), name
		}
		return "EErrAnon", name
	}
	return "EOther", name
}

func (t *c15Tracer) TransitionEnd(tx *am.Transition) {
	if t.closed.Load() {
		return
	}
	a, r, m := t.s.VerifPool()
	ev, name := t.classify(tx)
	if strings.HasPrefix(name, "add "+c15S.WorkerForked) {
		if boot := am.ParseArgs[node.A](tx.Mutation.Args).BootAddr; boot != "" {
			ch := t.whenForked(boot)
			select {
			case <-ch:
			default:
				close(ch)
			}
		}
	}
	after := t.sidx(t.s.Mach.ActiveStates(nil))
	before := t.sidx(tx.StatesBefore())
	t.mx.Lock()
	defer t.mx.Unlock()
	rec := t.cur
	t.inTx = false
	rec.Ev, rec.Name = ev, name
	rec.Acc = tx.IsAccepted.Load()
	rec.Tracked, rec.Ready, rec.MinEff = a, r, m
	rec.Exact = t.unstable.Load() == 0
	rec.Before, rec.After = before, after
	if a > t.maxSeen {
		t.maxSeen = a
	}
	// filled in by finishRounds
	ref := c15RecRef{idx: len(t.recs), mut: tx.Mutation, tx: tx.Id, at: time.Now()}
	switch {
	case ev == "ENormalize":
		t.listRecs = append(t.listRecs, ref)
	case ev == "EForkReq":
		t.forkRecs = append(t.forkRecs, ref)
	case strings.HasPrefix(ev, "(EForking"):
		if src := tx.Mutation.Source; src != nil {
			ref.tx = src.TxId
			t.startRecs = append(t.startRecs, ref)
		}
	}
	neutral := ev == "EOther" && rec.FGate == nil && rec.RGate == nil && len(rec.Kills) == 0
	isList := strings.Contains(name, c15S.ListWorkers)
	if !isList {
		t.last = time.Now()
	}
	if neutral && len(t.recs) > 0 {
		p := t.recs[len(t.recs)-1]
		same := func(x, y []int) bool {
			// compare without the ListWorkers getter state
			li := t.idx[c15S.ListWorkers]
			f := func(l []int) []int {
				return slices.DeleteFunc(slices.Clone(l), func(i int) bool { return i == li })
			}
			return slices.Equal(f(x), f(y))
		}
		if p.Tracked == a && p.Ready == r && same(p.After, before) && same(after, before) {
			// a neutral sample that shows nothing new
			t.dropped++
			return
		}
	}
	t.recs = append(t.recs, rec)
	select {
	case t.events <- struct{}{}:
	default:
	}
}

// pseudo event appended by the driver (mirror of a worker's Ready state)
func (t *c15Tracer) pseudo(ev string, ready int) {
	t.mx.Lock()
	defer t.mx.Unlock()
	var p c15Rec
	if len(t.recs) > 0 {
		p = t.recs[len(t.recs)-1]
	}
	t.recs = append(t.recs, c15Rec{Ev: ev, Name: "pseudo", Acc: true, RStable: true,
		Tracked: p.Tracked, Ready: ready, MinEff: p.MinEff, Exact: t.unstable.Load() == 0,
		Before: p.After, After: p.After})
}

// worker-side tracer: active sets of a real worker machine
type c15WTracer struct {
	*am.TracerNoOp
	mach *am.Machine
	idx  map[string]int
	mx   *sync.Mutex
	sets *[][]int
}

func (t *c15WTracer) TransitionEnd(tx *am.Transition) {
	act := t.mach.ActiveStates(nil)
	ret := make([]int, 0, len(act))
	for _, n := range act {
		ret = append(ret, t.idx[n])
	}
	sort.Ints(ret)
	t.mx.Lock()
	defer t.mx.Unlock()
	if n := len(*t.sets); n > 0 && slices.Equal((*t.sets)[n-1], ret) {
		return
	}
	*t.sets = append(*t.sets, ret)
}

// ---------------------------------------------------------------- driver

type c15Pending struct {
	addr string
	ch   chan string // "ok" | "fail" | "real"
}

type c15Worker struct {
	w     *node.Worker
	boot  string
	ready bool
	gone  bool
}

var c15Seq atomic.Int64

// c15DriverId marks mutations the driver itself queues
const c15DriverId = "c15-driver"

// c15StopWorker stops a real worker, giving up after 2s: Worker.Stop ->
// Machine.Remove1 can deadlock against a concurrent Machine.Dispose of the same
// machine (processQueue holds queueMx and wants subs.Mx in ProcessWhenQueueEnds,
// doDispose holds subs.Mx and wants queueMx) - a defect of the machine's
// disposal path, not the subject here
func c15StopWorker(w *node.Worker) {
	done := make(chan struct{})
	go func() {
		defer close(done)
		w.Stop(true)
	}()
	select {
	case <-done:
	case <-time.After(2 * time.Second):
	}
}

type c15Run struct {
	in       *C15Input
	obs      *c15Obs
	s        *node.Supervisor
	tr       *c15Tracer
	ctx      context.Context
	mx       sync.Mutex
	pend     []*c15Pending
	real     map[string]*c15Worker // by any of its addresses
	reals    []*c15Worker
	killMode atomic.Int32 // 0 ok, 1 seam returns an error, 2 seam forgets WorkerKilled
	unstable atomic.Int32
	wmx      sync.Mutex
}

func (r *c15Run) quiet(max time.Duration) {
	deadline := time.Now().Add(max)
	for time.Now().Before(deadline) {
		r.tr.mx.Lock()
		idle := time.Since(r.tr.last) > 4*time.Millisecond && !r.tr.inTx
		r.tr.mx.Unlock()
		if idle {
			return
		}
		time.Sleep(time.Millisecond)
	}
}

func (r *c15Run) waitFor(max time.Duration, cond func() bool) bool {
	deadline := time.Now().Add(max)
	for {
		if cond() {
			return true
		}
		if time.Now().After(deadline) {
			return false
		}
		time.Sleep(time.Millisecond)
	}
}

func (r *c15Run) note(msg string) {
	r.mx.Lock()
	defer r.mx.Unlock()
	r.obs.Note = append(r.obs.Note, msg)
}

func (r *c15Run) nPending() int {
	r.mx.Lock()
	defer r.mx.Unlock()
	return len(r.pend)
}

// tracked worker addresses, as the supervisor lists them, in canonical key order
func (r *c15Run) tracked() []string {
	// the addresses are unexported: use the tracer's view (keys in use)
	r.tr.mx.Lock()
	defer r.tr.mx.Unlock()
	live := c15LiveKeys(r.tr.recs)
	var addrs []string
	for addr, k := range r.tr.keys {
		if live[k] {
			addrs = append(addrs, addr)
		}
	}
	sort.Slice(addrs, func(i, j int) bool { return r.tr.keys[addrs[i]] < r.tr.keys[addrs[j]] })
	return addrs
}

// c15LiveKeys replays the bookkeeping events the tracer has seen so far (the
// driver's own view of which addresses are tracked; only used to pick targets)
func c15LiveKeys(recs []c15Rec) map[int]bool {
	live := map[int]bool{}
	for _, rec := range recs {
		var a, b int
		switch {
		case !rec.Acc:
		case strings.HasPrefix(rec.Ev, "(ESetIns"):
			fmt.Sscanf(rec.Ev, "(ESetIns %d)", &a)
			live[a] = true
		case strings.HasPrefix(rec.Ev, "(ESetDel"):
			fmt.Sscanf(rec.Ev, "(ESetDel %d)", &a)
			delete(live, a)
		case strings.HasPrefix(rec.Ev, "(EKilled"):
			fmt.Sscanf(rec.Ev, "(EKilled %d)", &a)
			delete(live, a)
		case strings.HasPrefix(rec.Ev, "(ERekey"):
			fmt.Sscanf(rec.Ev, "(ERekey %d %d)", &a, &b)
			if live[a] {
				delete(live, a)
				live[b] = true
			}
		}
	}
	return live
}

// readyCount asks the supervisor for its ready workers; -1 when no answer was
// obtained. Workers() fails although the listing ran when Machine.Add returns
// Canceled to a caller that finds the queue already emptied by the goroutine
// running it: an error is not "nobody is ready"
func (r *c15Run) readyCount() int {
	for try := 0; try < 4; try++ {
		ctx, cancel := context.WithTimeout(r.ctx, time.Second)
		ws, err := r.s.Workers(ctx, node.StateReady)
		expired := ctx.Err() != nil
		cancel()
		if err == nil && !expired {
			return len(ws)
		}
		r.note(fmt.Sprintf("readyCount: no answer (%v), try %d", err, try+1))
		time.Sleep(time.Millisecond)
	}
	return -1
}

func (r *c15Run) expectedReady() int {
	// real workers that are tracked under their local address, Ready, not gone
	// and without a recent error are what the supervisor should count; the
	// driver only uses this to know when a mirror has caught up
	n := 0
	r.mx.Lock()
	defer r.mx.Unlock()
	for _, w := range r.reals {
		if w.ready && !w.gone {
			n++
		}
	}
	return n
}

func (r *c15Run) testFork(addr string) error {
	p := &c15Pending{addr: addr, ch: make(chan string, 1)}
	r.mx.Lock()
	r.pend = append(r.pend, p)
	r.mx.Unlock()
	var mode string
	select {
	case mode = <-p.ch:
	case <-r.ctx.Done():
		return errC15ForkFail
	}
	switch mode {
	case "ok":
		return nil
	case "real", "late":
		w, err := node.NewWorker(r.ctx, "c15", nstates.WorkerSchema, c15Wk.Names(), nil)
		if err != nil {
			return fmt.Errorf("%w: %v", errC15ForkFail, err)
		}
		widx := map[string]int{}
		for i, n := range w.Mach.StateNames() {
			widx[n] = i
		}
		_, _ = w.Mach.BindTracer(&c15WTracer{TracerNoOp: &am.TracerNoOp{Id: "c15w"},
			mach: w.Mach, idx: widx, mx: &r.wmx, sets: &r.obs.WSets})
		w.Start(addr)
		err = amhelp.WaitForAll(r.ctx, 3*time.Second, w.Mach.When1(c15Wk.RpcReady, nil))
		if err != nil {
			return fmt.Errorf("%w: %v", errC15ForkFail, err)
		}
		cw := &c15Worker{w: w, boot: addr, ready: true}
		r.mx.Lock()
		r.reals = append(r.reals, cw)
		r.real[addr] = cw
		r.real[w.LocalAddr] = cw
		r.mx.Unlock()
		if mode == "late" {
			// event-driven: the worker has dialed the bootstrap, the supervisor has
			// connected back and handled WorkerForked; only now the seam reports
			select {
			case <-r.tr.whenForked(addr):
			case <-time.After(3 * time.Second):
				r.note("late seam: WorkerForked not seen in 3s")
			case <-r.ctx.Done():
			}
		}
		return nil
	}
	return errC15ForkFail
}

func (r *c15Run) testKill(addr string) error {
	mode := r.killMode.Load()
	if mode == 1 {
		return errC15Kill
	}
	r.mx.Lock()
	cw := r.real[addr]
	r.mx.Unlock()
	if cw != nil && !cw.gone {
		cw.gone = true
		c15StopWorker(cw.w)
	}
	if mode == 2 {
		return nil
	}
	// the production path adds WorkerKilled after proc.Kill(); the seam returns
	// before that, so the seam itself reports the death
	r.s.Mach.Add1(c15S.WorkerKilled, node.Pass(&node.A{LocalAddr: addr}))
	return nil
}

func (r *c15Run) pick(sel int) (string, bool) {
	tr := r.tracked()
	if len(tr) == 0 {
		return "", false
	}
	return tr[sel%len(tr)], true
}

func (r *c15Run) release(sel int, mode string) *c15Pending {
	r.mx.Lock()
	if len(r.pend) == 0 {
		r.mx.Unlock()
		return nil
	}
	i := sel % len(r.pend)
	p := r.pend[i]
	r.pend = append(r.pend[:i:i], r.pend[i+1:]...)
	r.mx.Unlock()
	p.ch <- mode
	return p
}

func (r *c15Run) nRecs() int {
	r.tr.mx.Lock()
	defer r.tr.mx.Unlock()
	return len(r.tr.recs)
}

func (r *c15Run) sawSince(from int, prefix string) bool {
	r.tr.mx.Lock()
	defer r.tr.mx.Unlock()
	for _, rec := range r.tr.recs[min(from, len(r.tr.recs)):] {
		if strings.HasPrefix(rec.Ev, prefix) {
			return true
		}
	}
	return false
}

func (r *c15Run) step(st C15Step) {
	s := r.s
	from := r.nRecs()
	switch st.Op {
	case "fork":
		np := r.nPending()
		s.Mach.Add1(c15S.ForkWorker, nil)
		// accepted: the bootstrap comes up and the seam is entered; refused: nothing follows
		r.waitFor(300*time.Millisecond, func() bool {
			if r.nPending() > np {
				return true
			}
			r.tr.mx.Lock()
			defer r.tr.mx.Unlock()
			for _, rec := range r.tr.recs[min(from, len(r.tr.recs)):] {
				if (rec.Ev == "EForkReq" || strings.HasPrefix(rec.Ev, "(EForking")) && !rec.Acc {
					return true
				}
			}
			return false
		})
	case "done", "fail":
		mode := map[string]string{"done": "ok", "fail": "fail"}[st.Op]
		if p := r.release(st.W, mode); p != nil {
			want := "(ESetIns"
			if mode == "fail" {
				want = "(EForkFail"
			}
			r.waitFor(400*time.Millisecond, func() bool { return r.sawSince(from, want) })
		}
	case "drain":
		n := st.N
		if n <= 0 {
			n = 16
		}
		for i := 0; i < n; i++ {
			if !r.waitFor(40*time.Millisecond, func() bool { return r.nPending() > 0 }) {
				break
			}
			at := r.nRecs()
			if p := r.release(0, "ok"); p != nil {
				r.waitFor(400*time.Millisecond, func() bool { return r.sawSince(at, "(ESetIns") })
			}
		}
	case "real":
		r.unstable.Add(1)
		if p := r.release(st.W, "real"); p != nil {
			ok := r.waitFor(4*time.Second, func() bool { return r.sawSince(from, "(ERekey") })
			if ok {
				want := r.expectedReady()
				r.waitFor(time.Second, func() bool { return r.readyCount() == want })
			} else {
				r.note("real worker did not report in 4s")
			}
		}
		r.unstable.Add(-1)
	case "err":
		addr, ok := r.pick(st.W)
		if st.N == 2 {
			addr, ok = "127.0.0.1:1", true
		}
		if !ok {
			return
		}
		err := errC15Worker
		if st.N == 1 {
			err = fmt.Errorf("%w: %w", node.ErrWorkerKill, errC15Worker)
		} else if st.N == 3 {
			err = node.ErrWorkerHealth
		}
		node.AddErrWorker(nil, s.Mach, err, node.Pass(&node.A{LocalAddr: addr}))
	case "err2":
		a1, ok := r.pick(st.W)
		a2, _ := r.pick(st.W + st.N)
		if !ok {
			return
		}
		s.Mach.Eval("c15err2", func() {
			node.AddErrWorker(nil, s.Mach, errC15Worker, node.Pass(&node.A{LocalAddr: a1}))
			node.AddErrWorker(nil, s.Mach, errC15Worker, node.Pass(&node.A{LocalAddr: a2}))
		}, r.ctx)
	case "kill":
		addr, ok := r.pick(st.W)
		if !ok {
			return
		}
		r.killMode.Store(int32(st.N))
		// marked: the tracer attributes KillingWorker requests to the transition
		// in progress (ErrWorkerState's), this one comes from outside
		s.Mach.Add1(c15S.KillingWorker, node.Pass(&node.A{LocalAddr: addr, Id: c15DriverId}))
		r.quiet(100 * time.Millisecond)
		r.killMode.Store(0)
	case "killed":
		addr, ok := r.pick(st.W)
		if !ok {
			return
		}
		s.Mach.Add1(c15S.WorkerKilled, node.Pass(&node.A{LocalAddr: addr}))
	case "unset":
		addr, ok := r.pick(st.W)
		if !ok {
			return
		}
		s.Mach.Add1(c15S.SetWorker, node.Pass(&node.A{WorkerAddr: addr}))
	case "hb":
		s.Mach.Add1(c15S.Heartbeat, nil)
		r.waitFor(500*time.Millisecond, func() bool { return s.Mach.Not1(c15S.Heartbeat) })
	case "norm":
		s.Mach.Add1(c15S.NormalizingPool, nil)
	case "pr+":
		s.Mach.Add1(c15S.PoolReady, nil)
	case "pr-":
		s.Mach.Remove1(c15S.PoolReady, nil)
	case "late":
		r.unstable.Add(1)
		if p := r.release(st.W, "late"); p != nil {
			if r.waitFor(4*time.Second, func() bool { return r.sawSince(from, "(ERekey") }) {
				r.waitFor(time.Second, func() bool { return r.sawSince(from, "(ESetIns") })
			} else {
				r.note("late seam: worker did not report in 4s")
			}
			// the worker is connected but (on the code as found) tracked only under
			// its boot address: nothing to wait for on the ready count
			time.Sleep(20 * time.Millisecond)
		}
		r.unstable.Add(-1)
	case "flip", "gone", "work":
		r.mx.Lock()
		var live []*c15Worker
		for _, w := range r.reals {
			if !w.gone {
				live = append(live, w)
			}
		}
		r.mx.Unlock()
		if len(live) == 0 {
			return
		}
		cw := live[st.W%len(live)]
		switch st.Op {
		case "flip":
			pre := r.readyCount()
			known := pre >= 0
			if !known {
				// no answer: fall back on the last sample, exactness is given up
				r.tr.mx.Lock()
				if n := len(r.tr.recs); n > 0 {
					pre = r.tr.recs[n-1].Ready
				} else {
					pre = 0
				}
				r.tr.mx.Unlock()
			}
			r.unstable.Add(1)
			r.tr.mx.Lock()
			k := r.tr.keys[cw.w.LocalAddr]
			r.tr.mx.Unlock()
			if cw.ready {
				cw.w.Mach.Remove1(c15Wk.Ready, nil)
			} else {
				cw.w.Mach.Add1(c15Wk.Ready, nil)
			}
			r.mx.Lock()
			cw.ready = cw.w.Mach.Is1(c15Wk.Ready)
			r.mx.Unlock()
			// wait for the supervisor's mirror (state push over RPC); when the
			// count does not move (the worker was not counted anyway) exactness is
			// given up for the rest of the case
			now := pre
			moved := r.waitFor(2*time.Second, func() bool {
				if n := r.readyCount(); n >= 0 {
					now = n
				}
				if known && now != pre {
					return true
				}
				time.Sleep(5 * time.Millisecond)
				return false
			})
			if moved {
				r.unstable.Add(-1)
			}
			r.tr.pseudo(fmt.Sprintf("(EFlip %d %s)", k, coqBool(cw.ready)), now)
		case "gone":
			cw.gone = true
			c15StopWorker(cw.w)
			r.unstable.Add(1) // from here on the mirror is what it is: never exact again
		case "work":
			g := nstates.WorkerGroups.WorkStatus
			if len(g) > 0 {
				cw.w.Mach.Add1(g[st.N%len(g)], nil)
			}
		}
	case "wait":
		time.Sleep(time.Duration(st.N) * time.Millisecond)
	}
	r.quiet(150 * time.Millisecond)
}

func c15ExecPool(in *C15Input) *c15Obs {
	obs := &c15Obs{}
	ctx, cancel := context.WithCancel(context.Background())
	defer cancel()
	kind := fmt.Sprintf("c15k%d", c15Seq.Add(1))
	s, err := node.NewSupervisor(ctx, kind, []string{"test"}, nstates.WorkerSchema, nil)
	if err != nil {
		obs.Err = err.Error()
		return obs
	}
	r := &c15Run{in: in, obs: obs, s: s, ctx: ctx, real: map[string]*c15Worker{}}
	names := s.Mach.StateNames()
	idx := map[string]int{}
	for i, n := range names {
		idx[n] = i
	}
	r.tr = &c15Tracer{TracerNoOp: &am.TracerNoOp{Id: "c15"}, s: s, names: names, idx: idx,
		keys: map[string]int{}, unstable: &r.unstable, events: make(chan struct{}, 1), last: time.Now(),
		open: map[uint64]*c15Round{}, forkRound: map[*am.Mutation]int{}, forked: map[string]chan struct{}{}}
	_, _ = s.Mach.BindTracer(r.tr)
	s.TestFork = r.testFork
	s.TestKill = r.testKill
	s.WorkerErrKill = in.ErrKill
	s.ConnTimeout = time.Duration(in.ConnMs) * time.Millisecond
	s.PoolPause = 5 * time.Millisecond
	s.WorkerCheckInterval = 15 * time.Millisecond
	s.HealthcheckPause = 5 * time.Millisecond
	s.OpTimeout = time.Second
	s.Heartbeat = time.Hour
	// the default 100ms handler timeout turns every scheduling hiccup of a
	// loaded box into a cancelled transition; not the subject here
	s.Mach.HandlerTimeout = 5 * time.Second
	if in.SetPool {
		s.SetPool(in.Min, in.Max, in.Warm, 0)
	} else {
		s.Min, s.Max, s.Warm = in.Min, in.Max, in.Warm
	}
	s.Start(":0")
	// StartState's goroutine subscribes to PoolReady once both RPC servers are
	// up; tearing the machine down before that hits the When1-while-disposing
	// panic (C13) on a goroutine nobody recovers
	r.waitFor(3*time.Second, func() bool {
		return s.Mach.Is1(c15S.LocalRpcReady) && s.PublicMux != nil && s.PublicMux.Mach.Is1("Ready")
	})
	time.Sleep(3 * time.Millisecond)
	r.quiet(200 * time.Millisecond)
	for _, st := range in.Steps {
		r.step(st)
	}
	r.quiet(100 * time.Millisecond)
	// teardown: stop the state (RPC servers), expire every context, free the seams
	s.Mach.Remove1(c15S.Start, nil)
	time.Sleep(5 * time.Millisecond)
	r.mx.Lock()
	reals := slices.Clone(r.reals)
	r.mx.Unlock()
	for _, w := range reals {
		if !w.gone {
			c15StopWorker(w.w)
		}
	}
	if len(reals) > 0 {
		time.Sleep(20 * time.Millisecond)
	}
	r.tr.closed.Store(true)
	cancel()
	select {
	case <-s.Mach.WhenDisposed():
	case <-time.After(2 * time.Second):
		obs.Note = append(obs.Note, "supervisor machine not disposed after 2s")
	}
	r.tr.mx.Lock()
	obs.Rounds, obs.RoundRq = r.tr.finishRounds()
	obs.Recs = r.tr.recs
	obs.Dropped = r.tr.dropped
	obs.MaxSeen = r.tr.maxSeen
	r.tr.recs = nil
	r.tr.mx.Unlock()
	r.wmx.Lock()
	obs.WSets = slices.Clone(obs.WSets)
	r.wmx.Unlock()
	return obs
}

// ---------------------------------------------------------------- child processes

func c15Child(outDir string) {
	dec := json.NewDecoder(os.Stdin)
	enc := json.NewEncoder(os.Stdout)
	for {
		var in C15Input
		if err := dec.Decode(&in); err != nil {
			return
		}
		done := make(chan *c15Obs, 1)
		go func() { done <- c15ExecPool(&in) }()
		select {
		case obs := <-done:
			must(enc.Encode(obs))
		case <-time.After(90 * time.Second):
			// a hang: leave the goroutines behind for diagnosis, the parent counts a crash
			buf := make([]byte, 1<<20)
			buf = buf[:runtime.Stack(buf, true)]
			b, _ := json.Marshal(&in)
			dir := outDir
			if v := os.Getenv("VERIF_DIR"); v != "" {
				// the work directory of a check is removed afterwards
				dir = v + "/.work/c15_hangs"
				_ = os.MkdirAll(dir, 0o755)
			}
			_ = os.WriteFile(fmt.Sprintf("%s/c15_hang_%d_%d.txt", dir, time.Now().Unix(), os.Getpid()),
				append(append(b, '\n'), buf...), 0o644)
			os.Exit(3)
		}
	}
}

// c15RunChildren executes the inputs in order in a child process, restarting
// it after a crash or a hang; returns the observations and the crash count.
func c15RunChildren(c *Ctx, ins []*C15Input) ([]*c15Obs, int) {
	res := make([]*c15Obs, len(ins))
	crashes := 0
	exe, err := os.Executable()
	must(err)
	i := 0
	for i < len(ins) {
		cmd := exec.Command(exe, "C15", "--out", c.OutDir)
		cmd.Env = append(os.Environ(), "AMVERIF_C15_CHILD=1")
		stdin, err := cmd.StdinPipe()
		must(err)
		stdout, err := cmd.StdoutPipe()
		must(err)
		var stderr bytes.Buffer
		cmd.Stderr = &stderr
		must(cmd.Start())
		// one case per process: a stopped Supervisor leaves rpc.Mux.accept
		// spinning on its closed listener (for { Accept(); if err { AddErr; continue } }),
		// which would starve the cases that follow
		rest := ins[i : i+1]
		go func() {
			enc := json.NewEncoder(stdin)
			for _, in := range rest {
				if enc.Encode(in) != nil {
					break
				}
			}
			stdin.Close()
		}()
		type item struct {
			obs *c15Obs
			err error
		}
		ch := make(chan item)
		go func() {
			dec := json.NewDecoder(stdout)
			for range rest {
				var o c15Obs
				err := dec.Decode(&o)
				ch <- item{&o, err}
				if err != nil {
					return
				}
			}
		}()
		failed := false
		for n := 0; !failed && n < len(rest); n++ {
			select {
			case it := <-ch:
				if it.err != nil {
					failed = true
					break
				}
				res[i] = it.obs
				i++
			case <-time.After(120 * time.Second):
				failed = true
			}
		}
		if failed {
			_ = cmd.Process.Kill()
		} else {
			t := time.AfterFunc(3*time.Second, func() { _ = cmd.Process.Kill() })
			defer t.Stop()
		}
		_ = cmd.Wait()
		if failed && i < len(ins) {
			msg := stderr.String()
			if k := strings.Index(msg, "\n\n"); k > 0 {
				msg = msg[:k]
			}
			if len(msg) > 1500 {
				msg = msg[:1500]
			}
			res[i] = &c15Obs{Err: "child process crashed or hung: " + msg}
			crashes++
			i++
		}
	}
	return res, crashes
}

// ---------------------------------------------------------------- schemas

type c15Schema struct {
	Names  am.S
	States []HState
	Groups []c15Group
}

type c15Group struct {
	Name    string
	Code    int
	Members []int
	Safe    bool // informational: Go's reading of Spec.C19.group_safe
}

var c15GroupCodes = map[string]int{"PoolStatus": 161, "PoolNormalized": 162, "WorkStatus": 163}

func c15GroupsOf(v reflect.Value, out map[string]am.S) {
	for v.Kind() == reflect.Ptr || v.Kind() == reflect.Interface {
		if v.IsNil() {
			return
		}
		v = v.Elem()
	}
	if v.Kind() != reflect.Struct {
		return
	}
	for i := 0; i < v.NumField(); i++ {
		f := v.Field(i)
		ft := v.Type().Field(i)
		if !ft.IsExported() {
			continue
		}
		if s, ok := f.Interface().(am.S); ok {
			if len(s) > 0 {
				out[ft.Name] = s
			}
			continue
		}
		if ft.Anonymous || f.Kind() == reflect.Ptr || f.Kind() == reflect.Struct {
			c15GroupsOf(f, out)
		}
	}
}

// c15LoadSchema builds a handler-less machine from the real schema and reads
// the parsed schema, the index order and the declared groups back from it.
func c15LoadSchema(ctx context.Context, schema am.Schema, names am.S, groups any) (*c15Schema, *am.Machine) {
	m := am.New(ctx, schema, &am.Opts{Id: fmt.Sprintf("c15s%d", c15Seq.Add(1))})
	must(m.VerifyStates(names))
	order := m.StateNames()
	idx := map[string]int{}
	for i, n := range order {
		idx[n] = i
	}
	ref := func(l am.S) []int {
		var ret []int
		for _, n := range l {
			ret = append(ret, idx[n])
		}
		return ret
	}
	parsed := m.Schema()
	sc := &c15Schema{Names: order}
	for _, n := range order {
		st := parsed[n]
		sc.States = append(sc.States, HState{Name: n, Auto: st.Auto, Multi: st.Multi,
			Require: ref(st.Require), Add: ref(st.Add), Remove: ref(st.Remove), After: ref(st.After)})
	}
	gs := map[string]am.S{}
	c15GroupsOf(reflect.ValueOf(groups), gs)
	for _, gn := range sortedKeys(gs) {
		code, ok := c15GroupCodes[gn]
		if !ok {
			continue // not one of the groups the property is about
		}
		g := c15Group{Name: gn, Code: code, Members: ref(gs[gn])}
		g.Safe = c15GroupSafe(sc.States, g.Members)
		sc.Groups = append(sc.Groups, g)
	}
	return sc, m
}

// informational mirror of Spec.C19.group_safe (the decision is Coq's)
func c15GroupSafe(sts []HState, g []int) bool {
	for _, a := range g {
		for _, b := range g {
			if a != b && !intsHas(sts[a].Remove, b) {
				return false
			}
		}
	}
	targets := map[int]bool{}
	for _, st := range sts {
		for _, z := range st.Add {
			if intsHas(g, z) {
				targets[z] = true
			}
		}
	}
	return len(targets) <= 1
}

func c15CoqSchema(name string, sc *c15Schema) string {
	var parts []string
	for _, st := range sc.States {
		parts = append(parts, coqSdef(st))
	}
	var gs []string
	for _, g := range sc.Groups {
		gs = append(gs, fmt.Sprintf("(%d%%N, %s)", g.Code, coqNatList(g.Members)))
	}
	return fmt.Sprintf("Definition %s_schema : schema :=\n  %s.\nDefinition %s_groups : list (N * list nat) := [%s].\n",
		name, coqList(parts), name, strings.Join(gs, "; "))
}

func c15ExecExplore(in *C15Input, sup, wrk *c15Schema) *c15Obs {
	obs := &c15Obs{}
	ctx, cancel := context.WithCancel(context.Background())
	defer cancel()
	var m *am.Machine
	if in.Explore == "worker" {
		_, m = c15LoadSchema(ctx, nstates.WorkerSchema, c15Wk.Names(), nstates.WorkerGroups)
	} else {
		_, m = c15LoadSchema(ctx, nstates.SupervisorSchema, c15S.Names(), nstates.SupervisorGroups)
	}
	names := m.StateNames()
	for _, op := range in.Ops {
		var sts am.S
		for _, i := range op.States {
			if i < 0 {
				sts = slices.Clone(names)
				break
			}
			sts = append(sts, names[i%len(names)])
		}
		switch op.T {
		case 0:
			m.Add(sts, nil)
		case 1:
			m.Remove(sts, nil)
		default:
			m.Set(sts, nil)
		}
		act := m.Index(m.ActiveStates(nil))
		sort.Ints(act)
		obs.Sets = append(obs.Sets, act)
	}
	return obs
}

// ---------------------------------------------------------------- Gallina

func c15Pair(p []int) string {
	if p == nil {
		return "None"
	}
	return fmt.Sprintf("(Some (%d%%N, %d%%N))", p[0], p[1])
}

func c15CoqRec(r *c15Rec) string {
	round := "None"
	if len(r.Round) == 3 {
		round = fmt.Sprintf("(Some (%d%%N, %d%%N, %s))", r.Round[0], r.Round[1], coqBool(r.Round[2] == 1))
	}
	return fmt.Sprintf("{| o_ev := %s; o_acc := %s; o_fgate := %s; o_rgate := %s; o_rexit := %s; o_rstable := %s; "+
		"o_tracked := %d; o_ready := %d; o_min := %d; o_exact := %s; o_before := %s; o_after := %s; "+
		"o_kills := %s; o_started := %s; o_round := %s; o_src := %d |}",
		r.Ev, coqBool(r.Acc), c15Pair(r.FGate), c15Pair(r.RGate), coqBool(r.RExit), coqBool(r.RStable),
		r.Tracked, r.Ready, r.MinEff, coqBool(r.Exact), coqNatList(r.Before), coqNatList(r.After),
		coqNatList(r.Kills), coqBool(r.Started), round, r.Src)
}

func c15CoqSets(sets [][]int) string {
	parts := make([]string, len(sets))
	for i, s := range sets {
		parts[i] = coqNatList(s)
	}
	return "[" + strings.Join(parts, "; ") + "]"
}

func c15Coq(in *C15Input, obs *c15Obs, prIdx, ewIdx int, ewMulti bool) string {
	if in.Explore != "" {
		name := "sup"
		if in.Explore == "worker" {
			name = "wrk"
		}
		return fmt.Sprintf("C15Sets %s_schema %s_groups %s", name, name, c15CoqSets(obs.Sets))
	}
	parts := make([]string, len(obs.Recs))
	for i := range obs.Recs {
		parts[i] = c15CoqRec(&obs.Recs[i])
	}
	return fmt.Sprintf("C15Pool {| c_min := %d; c_max := %d; c_errkill := %d; c_warm := %d |} %s %d%%nat %d%%nat sup_groups\n  %s\n  wrk_groups %s",
		in.Min, in.Max, in.ErrKill, in.Warm, coqBool(ewMulti), prIdx, ewIdx, coqList(parts), c15CoqSets(obs.WSets))
}

// ---------------------------------------------------------------- generators

func c15GenPool(r *Rng, real bool) *C15Input {
	in := &C15Input{Min: r.Intn(7), Max: r.Intn(7), Warm: r.Intn(7), ErrKill: r.Intn(4),
		SetPool: r.Chance(30), ConnMs: 5000}
	if r.Chance(60) {
		// the interesting region: small Max, something to fork
		in.Max = r.Range(1, 4)
		in.Min = r.Range(0, in.Max+1)
	}
	if r.Chance(12) {
		in.ConnMs = r.Range(25, 60) // several NormalizingPool rounds, bootstrap timeouts
	}
	n := r.Range(4, 22)
	if real {
		n = r.Range(4, 12)
		in.Max = r.Range(1, 3)
		in.Min = r.Range(0, in.Max)
		in.ConnMs = 5000
	}
	for i := 0; i < n; i++ {
		x := r.Intn(100)
		st := C15Step{W: r.Intn(8)}
		switch {
		case x < 22:
			st.Op = "fork"
		case x < 40:
			st.Op = "done"
			if real && r.Chance(60) {
				st.Op = "real"
			}
		case x < 46:
			st.Op = "fail"
		case x < 50:
			st.Op = "err2"
			st.N = r.Intn(3)
		case x < 62:
			st.Op = "err"
			if r.Chance(15) {
				st.N = 1
			} else if r.Chance(8) {
				st.N = 2
			}
		case x < 68:
			st.Op = "kill"
			if r.Chance(20) {
				st.N = r.Range(1, 2)
			}
		case x < 73:
			st.Op = "killed"
		case x < 77:
			st.Op = "unset"
		case x < 82:
			st.Op = "hb"
		case x < 87:
			st.Op = "norm"
		case x < 91:
			st.Op = "pr+"
		case x < 94:
			st.Op = "pr-"
		case x < 97 && real:
			st.Op = []string{"flip", "flip", "gone", "work"}[r.Intn(4)]
			st.N = r.Intn(4)
		default:
			st.Op = "wait"
			st.N = r.Range(1, 40)
		}
		in.Steps = append(in.Steps, st)
	}
	return in
}

// c15GenNormalize: rounds of the normalizer on pools with errored workers.
// The pool is brought to its target (every pending fork completed), some
// tracked workers get 1..WorkerErrKill errors - one at a time, each after the
// previous ErrWorker was handled - then rounds run (every ErrWorker /
// WorkerKilled adds NormalizingPool; explicit NormalizingPool / Heartbeat
// requests) with nothing else in flight, and whatever they forked is completed.
func c15GenNormalize(r *Rng) *C15Input {
	in := &C15Input{ErrKill: r.Range(1, 3), ConnMs: 5000, SetPool: r.Chance(20)}
	in.Max = r.Range(2, 6)
	if r.Chance(65) {
		// Min = 0: a round is over at once (PoolReady needs nobody), the next
		// request for NormalizingPool starts a new one
		in.Min = 0
		in.Warm = r.Range(1, in.Max-1)
	} else {
		// Min > 0 and seamed workers never get ready: the rounds of one
		// activation follow each other every ConnTimeout + PoolPause
		in.Min = r.Range(1, in.Max-1)
		in.Warm = r.Range(0, in.Max-in.Min)
		in.ConnMs = r.Range(30, 60)
	}
	if r.Chance(12) {
		in.Warm = r.Intn(7) // pools without free slots as well
	}
	add := func(op string, w, n int) { in.Steps = append(in.Steps, C15Step{Op: op, W: w, N: n}) }
	pause := func() { add("wait", 0, r.Range(25, 70)) }
	round := func() {
		switch x := r.Intn(10); {
		case x < 5:
			add("norm", 0, 0)
		case x < 7:
			add("hb", 0, 0)
		}
		pause()
		add("drain", 0, 0)
	}
	add("wait", 0, 20)
	add("drain", 0, 0)
	if r.Chance(35) {
		// a worker is killed and removed: WorkerKilled adds NormalizingPool
		if r.Chance(70) {
			add("kill", r.Intn(6), 0)
		} else {
			add("killed", r.Intn(6), 0)
		}
		pause()
		add("drain", 0, 0)
	}
	for rounds := r.Range(1, 3); rounds > 0; rounds-- {
		first := r.Intn(6)
		for k := r.Range(1, 3); k > 0; k-- {
			for e := r.Range(1, in.ErrKill); e > 0; e-- {
				n := 0
				if r.Chance(40) {
					n = 3
				}
				add("err", first+k, n)
				pause()
			}
		}
		round()
	}
	if r.Chance(30) {
		add("fork", 0, 0)
		add("drain", 0, 0)
		round()
	}
	return in
}

// c15GenLate: small pools whose forks are completed by real in-process workers,
// some through a late-returning seam (WorkerForked is handled before the
// SetWorker of the same fork), mixed with prompt ones, fake entries, further
// fork requests, normalizer rounds, kills and errors.
func c15GenLate(r *Rng) *C15Input {
	in := &C15Input{ErrKill: r.Range(1, 3), ConnMs: 5000, SetPool: r.Chance(20)}
	in.Max = r.Range(1, 3)
	in.Min = r.Range(0, in.Max)
	in.Warm = r.Range(0, 2)
	if in.Min+in.Warm == 0 {
		in.Warm = 1
	}
	add := func(op string, w, n int) { in.Steps = append(in.Steps, C15Step{Op: op, W: w, N: n}) }
	add("wait", 0, 20)
	n := r.Range(2, 7)
	for i := 0; i < n; i++ {
		switch x := r.Intn(100); {
		case x < 45:
			add("late", r.Intn(3), 0)
		case x < 55:
			add("real", r.Intn(3), 0)
		case x < 63:
			add("done", r.Intn(3), 0)
		case x < 75:
			add("fork", 0, 0)
		case x < 82:
			add("norm", 0, 0)
		case x < 87:
			add("kill", r.Intn(4), 0)
		case x < 92:
			add("err", r.Intn(4), 0)
		case x < 96:
			add("pr+", 0, 0)
		default:
			add("wait", 0, r.Range(10, 60))
		}
	}
	if r.Chance(50) {
		add("drain", 0, 0)
	}
	return in
}

func c15GenExplore(r *Rng, which string, nStates int) *C15Input {
	in := &C15Input{Explore: which}
	n := r.Range(8, 40)
	for i := 0; i < n; i++ {
		op := C15Op{T: 0}
		x := r.Intn(100)
		if x >= 70 && x < 90 {
			op.T = 1
		} else if x >= 90 {
			op.T = 2
		}
		k := 1
		if r.Chance(45) {
			k = r.Range(2, 3)
		}
		for j := 0; j < k; j++ {
			op.States = append(op.States, r.Intn(nStates))
		}
		in.Ops = append(in.Ops, op)
	}
	return in
}

// ---------------------------------------------------------------- runner

func runC15(c *Ctx) error {
	if os.Getenv("AMVERIF_C15_CHILD") != "" {
		c15Child(c.OutDir)
		return nil
	}
	lctx, lcancel := context.WithCancel(context.Background())
	sup, _ := c15LoadSchema(lctx, nstates.SupervisorSchema, c15S.Names(), nstates.SupervisorGroups)
	wrk, _ := c15LoadSchema(lctx, nstates.WorkerSchema, c15Wk.Names(), nstates.WorkerGroups)
	lcancel()
	prIdx := slices.Index(sup.Names, c15S.PoolReady)
	ewIdx := slices.Index(sup.Names, c15S.ErrWorker)

	out := NewOut(c.OutDir, "C15",
		"From Coq Require Import List NArith.\nFrom AMV Require Import Model.Schema Conc.Pool Run.EvalC15.\nImport ListNotations.",
		"c15case", "check_all", 60)
	out.SetPrelude(c15CoqSchema("sup", sup) + c15CoqSchema("wrk", wrk))

	type job struct {
		kind string
		in   *C15Input
		obs  *c15Obs
	}
	emit := func(j *job) {
		in, obs := j.in, j.obs
		trivial := false
		if in.Explore != "" {
			out.Count("case", "explore:"+in.Explore)
			out.Count("explore_ops", bucket(len(in.Ops)))
		} else {
			out.Count("case", "pool")
			out.Count("min", fmt.Sprint(in.Min))
			out.Count("max", fmt.Sprint(in.Max))
			out.Count("warm", fmt.Sprint(in.Warm))
			out.Count("err_kill", fmt.Sprint(in.ErrKill))
			out.Count("conn_timeout", map[bool]string{true: "short (rounds, bootstrap timeouts)", false: "long"}[in.ConnMs < 1000])
			for _, st := range in.Steps {
				out.Count("step", st.Op)
			}
			evs := map[string]int{}
			for _, rec := range obs.Recs {
				e := strings.Fields(strings.Trim(rec.Ev, "()"))[0]
				if !rec.Acc {
					e += ":refused"
				}
				evs[e]++
				out.Count("event", e)
				if rec.RGate != nil {
					out.Count("poolready_gate", map[bool]string{true: "exit", false: "enter"}[rec.RExit]+
						map[bool]string{true: ":accepted", false: ":vetoed"}[rec.Acc])
				}
			}
			out.Count("max_tracked_minus_max", fmt.Sprint(obs.MaxSeen-in.Max))
			out.Count("free_slots_over_target", fmt.Sprint(in.Max > min(in.Min, in.Max)+in.Warm))
			out.Count("normalizer_rounds_per_case", bucket(obs.Rounds))
			errored := map[string]bool{}
			inserted := map[string]bool{}
			for i := range obs.Recs {
				rec := &obs.Recs[i]
				if f := strings.Fields(strings.Trim(rec.Ev, "()")); rec.Acc && len(f) >= 2 {
					switch f[0] {
					case "ESetIns":
						inserted[f[1]] = true
					case "ERekey":
						out.Count("worker_connection_vs_fork_completion",
							map[bool]string{true: "WorkerForked after SetWorker", false: "WorkerForked BEFORE SetWorker (late seam)"}[inserted[f[1]]])
					}
				}
				if strings.HasPrefix(rec.Ev, "(EErr ") && rec.Acc && strings.HasSuffix(rec.Ev, "true)") {
					errored[strings.Fields(rec.Ev)[1]] = true
				}
				if len(rec.Round) == 3 {
					out.Count("round_forks_requested", fmt.Sprint(rec.Round[1]))
					out.Count("round_count_final", fmt.Sprint(rec.Round[2] == 1))
					out.Count("round_listing_with_errored_workers", fmt.Sprint(len(errored) > 0))
				}
			}
			out.Count("events_per_case", bucket(len(obs.Recs)))
			out.Count("real_workers", fmt.Sprint(len(obs.WSets) > 0))
			trivial = len(obs.Recs) < 6
		}
		key := ""
		out.Add(j.kind, in, obs, c15Coq(in, obs, prIdx, ewIdx, sup.States[ewIdx].Multi), trivial, key)
	}

	crashes := 0
	runAll := func(jobs []*job, par int) {
		// pool cases run in child processes, `par` at a time, each child taking
		// every par-th case: a panic on a goroutine of /repo (there are known
		// ones on the disposal paths, see C13) costs one case, not the run
		var wg sync.WaitGroup
		var cmx sync.Mutex
		for p := 0; p < par; p++ {
			var mine []*job
			for i := p; i < len(jobs); i += par {
				mine = append(mine, jobs[i])
			}
			if len(mine) == 0 {
				continue
			}
			wg.Add(1)
			go func() {
				defer wg.Done()
				var pool []*job
				for _, j := range mine {
					if j.in.Explore != "" {
						j.obs = c15ExecExplore(j.in, sup, wrk)
					} else {
						pool = append(pool, j)
					}
				}
				ins := make([]*C15Input, len(pool))
				for i, j := range pool {
					ins[i] = j.in
				}
				obs, n := c15RunChildren(c, ins)
				for i, j := range pool {
					j.obs = obs[i]
				}
				cmx.Lock()
				crashes += n
				cmx.Unlock()
			}()
		}
		wg.Wait()
		for _, j := range jobs {
			emit(j)
		}
	}

	cases, replayOnly := c.loadCases()
	var jobs []*job
	for _, cc := range cases {
		var in C15Input
		must(json.Unmarshal(cc.Input, &in))
		jobs = append(jobs, &job{kind: "corpus:" + cc.Name, in: &in})
	}
	runAll(jobs, 1)
	if replayOnly {
		out.Close("replay", nil)
		return nil
	}

	jobs = nil
	nPool := c.N(260, 4000)
	nReal := c.N(24, 300)
	nNorm := c.N(70, 1200)
	nLate := c.N(24, 400)
	nExp := c.N(300, 6000)
	switch os.Getenv("C15_ONLY") { // debugging aid
	case "pool":
		nReal, nExp, nNorm, nLate = 0, 0, 0, 0
	case "real":
		nPool, nExp, nNorm, nLate = 0, 0, 0, 0
	case "explore":
		nPool, nReal, nNorm, nLate = 0, 0, 0, 0
	case "normalize":
		nPool, nReal, nExp, nLate = 0, 0, 0, 0
	case "late":
		nPool, nReal, nExp, nNorm = 0, 0, 0, 0
	}
	for i := 0; i < nPool; i++ {
		jobs = append(jobs, &job{kind: "gen:pool", in: c15GenPool(c.Rng, false)})
	}
	for i := 0; i < nReal; i++ {
		jobs = append(jobs, &job{kind: "gen:pool-real-workers", in: c15GenPool(c.Rng, true)})
	}
	for i := 0; i < nNorm; i++ {
		jobs = append(jobs, &job{kind: "gen:pool-normalize", in: c15GenNormalize(c.Rng)})
	}
	for i := 0; i < nLate; i++ {
		jobs = append(jobs, &job{kind: "gen:pool-late-seam", in: c15GenLate(c.Rng)})
	}
	runAll(jobs, 6)
	// the sets cases are small
	out.SetPrelude(c15CoqSchema("sup", sup) + c15CoqSchema("wrk", wrk))
	out.shardSize = 600
	jobs = nil
	for i := 0; i < nExp; i++ {
		which, n := "supervisor", len(sup.Names)
		if i%3 == 2 {
			which, n = "worker", len(wrk.Names)
		}
		jobs = append(jobs, &job{kind: "gen:explore-" + which, in: c15GenExplore(c.Rng, which, n)})
	}
	// every pair of states added together, from the empty machine and from
	// {Start} (a negative index = every state, see c15ExecExplore)
	for _, which := range []string{"supervisor", "worker"} {
		n := len(sup.Names)
		start := slices.Index(sup.Names, "Start")
		if which == "worker" {
			n = len(wrk.Names)
			start = slices.Index(wrk.Names, "Start")
		}
		for _, base := range []bool{false, true} {
			for a := 0; a < n; a++ {
				in := &C15Input{Explore: which}
				for b := 0; b < n; b++ {
					in.Ops = append(in.Ops, C15Op{T: 1, States: []int{-1}})
					if base {
						in.Ops = append(in.Ops, C15Op{T: 0, States: []int{start}})
					}
					in.Ops = append(in.Ops, C15Op{T: 0, States: []int{a, b}})
				}
				jobs = append(jobs, &job{kind: "gen:explore-pairs-" + which, in: in})
			}
		}
	}
	runAll(jobs, 4)

	cov := map[string]any{}
	for _, sc := range []*c15Schema{sup, wrk} {
		for _, g := range sc.Groups {
			var ms []string
			for _, i := range g.Members {
				ms = append(ms, sc.Names[i])
			}
			how := "explored only (Spec.C19.group_safe is false: not covered by group_exclusive_reachable)"
			if g.Safe {
				how = "theorem C19.group_exclusive_reachable (group_safe holds for the parsed schema) + exploration"
			}
			cov[g.Name] = map[string]any{"members": ms, "coverage": how}
		}
	}
	out.Close("random pool histories on a real Supervisor (TestFork/TestKill seams, some with real in-process workers); "+
		"random mutation sequences on handler-less machines of the real supervisor/worker schemas",
		map[string]any{"state_groups": cov, "crashed_cases": crashes})
	return nil
}
