//go:build p_c17 || p_all

package main

// C17 — history (pkg/history, in-process Memory backend) and
// Machine.Export / Machine.Import.
//
// Every case builds a real machine from a generated schema, optionally
// imports a machine tick, binds veto handlers, creates the history with a
// generated tracking configuration (NewMemory binds the history tracer) and
// then binds an independent recording tracer (the reference log).  A list of
// API calls is executed from one goroutine; afterwards generated queries
// (FindLatest, *Between) are run against the final log and the machine is
// exported and imported into a fresh machine.  Everything observable is
// printed as a Gallina term of type Run.EvalC17.c17case.

import (
	"context"
	"encoding/json"
	"fmt"
	"slices"
	"sort"
	"strings"
	"time"

	amhist "github.com/pancsta/asyncmachine-go/pkg/history"
	am "github.com/pancsta/asyncmachine-go/pkg/machine"
)

func init() { register("C17", runC17) }

// ------------------------------------------------------------ input

type C17Cfg struct {
	Tracked     []int `json:"tracked"`
	Called      []int `json:"called,omitempty"`
	CalledExcl  bool  `json:"called_excl,omitempty"`
	Changed     []int `json:"changed,omitempty"`
	ChangedExcl bool  `json:"changed_excl,omitempty"`
	Rejected    bool  `json:"track_rejected,omitempty"`
	StoreTx     bool  `json:"store_tx,omitempty"`
	Max         int   `json:"max_records"`
}

// C17H names a wall-clock instant relative to the stamps of the stored
// records: Rec < 0 is the zero time.Time, otherwise the HTime of record
// Rec mod len(db) plus Off nanoseconds.
type C17H struct {
	Rec int `json:"rec"`
	Off int `json:"off,omitempty"`
}

// C17Rel sets a scalar bound relative to a stored record: the value of Field
// (sum tsum diff tdiff rdiff mtick) of record Rec mod len(db), plus Off
// (clamped at 0; 0 when the log is empty).
type C17Rel struct {
	Field string `json:"field"`
	Rec   int    `json:"rec"`
	Off   int    `json:"off,omitempty"`
}

type C17Time struct {
	Rel     []C17Rel `json:"rel,omitempty"`
	MStates []int    `json:"mstates,omitempty"`
	MTime   []uint64 `json:"mtime,omitempty"`
	H       C17H     `json:"h"`
	Sum     uint64   `json:"sum,omitempty"`
	TSum    uint64   `json:"tsum,omitempty"`
	Diff    uint64   `json:"diff,omitempty"`
	TDiff   uint64   `json:"tdiff,omitempty"`
	RDiff   uint64   `json:"rdiff,omitempty"`
	MTick   uint32   `json:"mtick,omitempty"`
}

type C17Query struct {
	Active      []int   `json:"active,omitempty"`
	Activated   []int   `json:"activated,omitempty"`
	Inactive    []int   `json:"inactive,omitempty"`
	Deactivated []int   `json:"deactivated,omitempty"`
	Start       C17Time `json:"start"`
	End         C17Time `json:"end"`
	Limit       int     `json:"limit"`
}

type C17Between struct {
	Kind  int  `json:"kind"` // 0 activated 1 active 2 deactivated 3 inactive
	State int  `json:"state"`
	Start C17H `json:"start"`
	End   C17H `json:"end"`
}

type C17Input struct {
	States  []HState     `json:"states"` // index = StateNames order; Exception last
	Calls   []HCall      `json:"calls"`
	Veto    []int        `json:"veto,omitempty"`     // states whose Enter handler may veto
	VetoPat []bool       `json:"veto_pat,omitempty"` // k-th Enter call returns !VetoPat[k mod len]
	PreTick int          `json:"pre_tick,omitempty"` // >0: Import a machine tick first (MachineTick = PreTick)
	Cfg     C17Cfg       `json:"cfg"`
	Queries []C17Query   `json:"queries,omitempty"`
	Between []C17Between `json:"between,omitempty"`
	// Export/Import round trip: the importing machine verifies its states in
	// the order Perm (nil = same order)
	Perm []int `json:"perm,omitempty"`
}

// ------------------------------------------------------------ observation

type C17Tx struct {
	Type      int      `json:"type"`
	Called    []int    `json:"called"`
	Auto      bool     `json:"auto"`
	Check     bool     `json:"check"`
	Accepted  bool     `json:"accepted"`
	Before    []uint64 `json:"before"`
	After     []uint64 `json:"after"`
	MachAfter []uint64 `json:"mach_after"`
	QTick     uint64   `json:"qtick"`
	MachQTick uint64   `json:"mach_qtick"`
	MTick     uint32   `json:"mtick"`
	HNs       int64    `json:"-"`     // stamp of the record created for it (0 none)
	H         int      `json:"htime"` // rank of HNs
	Len       int      `json:"len"`   // len(db) afterwards
}

type C17TxRec struct {
	Called     []int  `json:"called"`
	Auto       bool   `json:"auto"`
	Accepted   bool   `json:"accepted"`
	Check      bool   `json:"check"`
	QueuedAt   uint64 `json:"queued_at"`
	ExecutedAt uint64 `json:"executed_at"`
}

type C17Rec struct {
	Type        int       `json:"type"`
	Sum         uint64    `json:"sum"`
	TSum        uint64    `json:"tsum"`
	Diff        uint64    `json:"diff"`
	TDiff       uint64    `json:"tdiff"`
	RDiff       uint64    `json:"rdiff"`
	HNs         int64     `json:"-"`
	H           int       `json:"htime"`
	Tracked     []uint64  `json:"tracked"`
	TrackedDiff []uint64  `json:"tracked_diff"`
	MTick       uint32    `json:"mtick"`
	Tx          *C17TxRec `json:"tx,omitempty"`
}

type C17QObs struct {
	Eff  C17Query `json:"effective"` // the query with Rel bounds resolved
	Res  string   `json:"res"`       // ok err panic
	Idxs []int    `json:"idxs,omitempty"`
	S, E int      // htime ranks of the bounds
}

type C17BObs struct {
	Res  string `json:"res"` // true false panic
	S, E int
}

type C17Mach struct {
	Clock  []uint64 `json:"clock"` // by state id
	Active []int    `json:"active"`
	Names  []int    `json:"names"`
	MTick  uint32   `json:"mtick"`
	QTick  uint64   `json:"qtick"`
}

type C17Obs struct {
	NewErr     bool      `json:"new_err"`
	Tracked    []int     `json:"tracked"`
	Max        int       `json:"max"`
	Unknown    bool      `json:"unknown_tracked,omitempty"`
	UnknownMsg string    `json:"unknown_msg,omitempty"`
	Txs        []C17Tx   `json:"txs"`
	Db         []C17Rec  `json:"db"`
	NextId     uint64    `json:"next_id"`
	Queries    []C17QObs `json:"queries,omitempty"`
	Between    []C17BObs `json:"between,omitempty"`
	Src        *C17Mach  `json:"src,omitempty"`
	Dst        *C17Mach  `json:"dst,omitempty"`
	ImpRes     string    `json:"import"` // ok err1 err2 panic hang none
	Imp        *C17Mach  `json:"imported,omitempty"`
	Restored   bool      `json:"has_machine_restored,omitempty"`
	Crashed    string    `json:"crashed,omitempty"`
	Err        string    `json:"err,omitempty"`
}

// ------------------------------------------------------------ executor

// c17HangAfter is the watchdog bound of Import (which otherwise returns in
// microseconds).
const c17HangAfter = 800 * time.Millisecond

func c17UnknownName(j int) string { return "Zz" + string(stateLetters[j%26]) }

// names incl. names for indexes past the schema (unknown to the machine)
func c17Pick(names am.S, idxs []int) am.S {
	ret := make(am.S, len(idxs))
	for i, x := range idxs {
		if x < len(names) {
			ret[i] = names[x]
		} else {
			ret[i] = c17UnknownName(x - len(names))
		}
	}
	return ret
}

func c17Idx(names am.S, name string) int {
	if i := slices.Index(names, name); i >= 0 {
		return i
	}
	if strings.HasPrefix(name, "Zz") && len(name) == 3 {
		return len(names) + strings.IndexByte(stateLetters, name[2])
	}
	return 1 << 20
}

func c17Idxs(names am.S, l am.S) []int {
	ret := make([]int, len(l))
	for i, n := range l {
		ret[i] = c17Idx(names, n)
	}
	return ret
}

type c17Tracer struct {
	*am.TracerNoOp
	mach    *am.Machine
	mem     *amhist.Memory
	names   am.S
	obs     *C17Obs
	lastNid uint64
}

func (t *c17Tracer) TransitionEnd(tx *am.Transition) {
	rec := C17Tx{
		Type:      int(tx.Mutation.Type),
		Called:    c17Idxs(t.names, tx.CalledStates()),
		Auto:      tx.Mutation.IsAuto,
		Check:     tx.Mutation.IsCheck,
		Accepted:  tx.IsAccepted.Load(),
		Before:    slices.Clone(tx.TimeBefore),
		After:     slices.Clone(tx.TimeAfter),
		MachAfter: t.mach.Time(nil),
		QTick:     tx.Mutation.QueueTick,
		MachQTick: t.mach.QueueTick(),
		MTick:     t.mach.MachineTick(),
	}
	db := t.mem.Export()
	nid := t.mem.MachineRecord().NextId
	if nid != t.lastNid && len(db) > 0 {
		rec.HNs = db[len(db)-1].Time.HTime.UnixNano()
	}
	t.lastNid = nid
	rec.Len = len(db)
	t.obs.Txs = append(t.obs.Txs, rec)
}

func c17MachObs(m *am.Machine, ids am.S) *C17Mach {
	clock := m.Clock(nil)
	ret := &C17Mach{MTick: m.MachineTick(), QTick: m.QueueTick()}
	for _, n := range ids {
		ret.Clock = append(ret.Clock, clock[n])
	}
	ret.Active = c17Idxs(ids, m.ActiveStates(nil))
	ret.Names = c17Idxs(ids, m.StateNames())
	return ret
}

func c17Schema(in *C17Input) (am.S, am.Schema) {
	names := make(am.S, len(in.States))
	for i, s := range in.States {
		names[i] = s.Name
	}
	schema := am.Schema{}
	for _, s := range in.States {
		schema[s.Name] = am.State{Auto: s.Auto, Multi: s.Multi,
			Require: pick(names, s.Require), Add: pick(names, s.Add),
			Remove: pick(names, s.Remove), After: pick(names, s.After)}
	}
	return names, schema
}

func c17Instant(db []*amhist.MemoryRecord, h C17H) time.Time {
	if h.Rec < 0 || len(db) == 0 {
		return time.Time{}
	}
	return db[h.Rec%len(db)].Time.HTime.Add(time.Duration(h.Off))
}

func c17Exec(in *C17Input) (obs *C17Obs) {
	obs = &C17Obs{ImpRes: "none"}
	ctx := context.Background()
	names, schema := c17Schema(in)
	if _, err := schema.Parse(); err != nil {
		obs.Err = "parse: " + err.Error()
		return obs
	}
	m := am.New(ctx, schema, &am.Opts{Id: "h", HandlerTimeout: 5 * time.Second,
		DontLogStackTrace: true})
	if err := m.VerifyStates(names); err != nil {
		obs.Err = "verify: " + err.Error()
		return obs
	}
	defer m.Dispose()
	obs.Restored = slices.Contains(names, am.StateMachineRestored)
	if in.PreTick > 0 && !obs.Restored {
		err := m.Import(&am.Serialized{ID: "h", Time: make(am.Time, len(names)),
			MachineTick: uint32(in.PreTick - 1), StateNames: slices.Clone(names)})
		if err != nil {
			obs.Err = "pre-import: " + err.Error()
			return obs
		}
	}
	// veto handlers
	if len(in.Veto) > 0 && len(in.VetoPat) > 0 {
		k := 0
		neg := map[string]am.HandlerNegotiation{}
		for _, s := range in.Veto {
			neg[names[s]+am.SuffixEnter] = func(e *am.Event) bool {
				v := in.VetoPat[k%len(in.VetoPat)]
				k++
				return !v
			}
		}
		if _, err := m.HandlersBindMaps(neg, nil); err != nil {
			obs.Err = "bind: " + err.Error()
			return obs
		}
	}

	// history
	cfg := amhist.BaseConfig{
		TrackedStates: c17Pick(names, in.Cfg.Tracked),
		Called:        c17Pick(names, in.Cfg.Called), CalledExclude: in.Cfg.CalledExcl,
		Changed: c17Pick(names, in.Cfg.Changed), ChangedExclude: in.Cfg.ChangedExcl,
		TrackRejected: in.Cfg.Rejected, StoreTransitions: in.Cfg.StoreTx,
		MaxRecords: in.Cfg.Max,
	}
	mem, err := amhist.NewMemory(ctx, nil, m, cfg, func(err error) {})
	if err != nil {
		obs.NewErr = true
		return obs
	}
	eff := mem.Config()
	obs.Tracked = c17Idxs(names, eff.TrackedStates)
	obs.Max = eff.MaxRecords
	for _, x := range obs.Tracked {
		if x >= len(names) {
			obs.Unknown = true
		}
	}
	if obs.Unknown {
		// a name the machine does not know is tracked (ParseStates regression,
		// code 2:240): the first recorded transition indexes Time with -1.
		// Show it, then stop.
		func() {
			defer func() {
				if r := recover(); r != nil {
					obs.UnknownMsg = strings.SplitN(fmt.Sprint(r), "\n", 2)[0]
				}
			}()
			m.Add(am.S{names[0]}, nil)
		}()
		obs.NextId = 1
		return obs
	}
	tr := &c17Tracer{TracerNoOp: &am.TracerNoOp{Id: "c17ref"}, mach: m, mem: mem,
		names: names, obs: obs, lastNid: mem.MachineRecord().NextId}
	if _, err := m.BindTracer(tr); err != nil {
		obs.Err = "tracer: " + err.Error()
		return obs
	}

	// workload
	for _, c := range in.Calls {
		func() {
			defer func() {
				if r := recover(); r != nil {
					obs.Crashed = strings.SplitN(fmt.Sprint(r), "\n", 2)[0]
				}
			}()
			doCall(m, names, c)
		}()
		if obs.Crashed != "" {
			return obs
		}
	}

	// the stored log
	db := mem.Export()
	pos := map[*amhist.MemoryRecord]int{}
	for i, r := range db {
		pos[r] = i
		t := r.Time
		rec := C17Rec{Type: int(t.MutType), Sum: t.MTimeSum, TSum: t.MTimeTrackedSum,
			Diff: t.MTimeDiffSum, TDiff: t.MTimeTrackedDiffSum, RDiff: t.MTimeRecordDiffSum,
			HNs: t.HTime.UnixNano(), Tracked: slices.Clone(t.MTimeTracked),
			TrackedDiff: slices.Clone(t.MTimeTrackedDiff), MTick: t.MachTick}
		if x := r.Transition; x != nil {
			rec.Tx = &C17TxRec{Called: slices.Clone(x.Called), Auto: x.IsAuto,
				Accepted: x.IsAccepted, Check: x.IsCheck, QueuedAt: x.QueuedAt,
				ExecutedAt: x.ExecutedAt}
		}
		obs.Db = append(obs.Db, rec)
	}
	obs.NextId = mem.MachineRecord().NextId

	// stamps -> ranks (order-preserving; 0 = zero time)
	stamps := map[int64]struct{}{}
	for _, t := range obs.Txs {
		if t.HNs != 0 {
			stamps[t.HNs] = struct{}{}
		}
	}
	for _, r := range obs.Db {
		stamps[r.HNs] = struct{}{}
	}
	qS := make([]time.Time, len(in.Queries))
	qE := make([]time.Time, len(in.Queries))
	for i, q := range in.Queries {
		qS[i], qE[i] = c17Instant(db, q.Start.H), c17Instant(db, q.End.H)
	}
	bS := make([]time.Time, len(in.Between))
	bE := make([]time.Time, len(in.Between))
	for i, b := range in.Between {
		bS[i], bE[i] = c17Instant(db, b.Start), c17Instant(db, b.End)
	}
	for _, l := range [][]time.Time{qS, qE, bS, bE} {
		for _, t := range l {
			if !t.IsZero() {
				stamps[t.UnixNano()] = struct{}{}
			}
		}
	}
	sorted := make([]int64, 0, len(stamps))
	for s := range stamps {
		sorted = append(sorted, s)
	}
	sort.Slice(sorted, func(a, b int) bool { return sorted[a] < sorted[b] })
	rank := func(ns int64) int {
		i := sort.Search(len(sorted), func(i int) bool { return sorted[i] >= ns })
		return i + 1
	}
	rankT := func(t time.Time) int {
		if t.IsZero() {
			return 0
		}
		return rank(t.UnixNano())
	}
	for i := range obs.Txs {
		if obs.Txs[i].HNs != 0 {
			obs.Txs[i].H = rank(obs.Txs[i].HNs)
		}
	}
	for i := range obs.Db {
		obs.Db[i].H = rank(obs.Db[i].HNs)
	}

	// queries
	ctime := func(t C17Time, h time.Time) amhist.ConditionTime {
		return amhist.ConditionTime{MTimeStates: c17Pick(names, t.MStates),
			MTime: am.Time(slices.Clone(t.MTime)), HTime: h, MTimeSum: t.Sum,
			MTimeTrackedSum: t.TSum, MTimeDiff: t.Diff, MTimeTrackedDiff: t.TDiff,
			MTimeRecordDiff: t.RDiff, MachTick: t.MTick}
	}
	resolve := func(t C17Time) C17Time {
		t.MStates, t.MTime = slices.Clone(t.MStates), slices.Clone(t.MTime)
		for _, rl := range t.Rel {
			var v int64
			if len(obs.Db) > 0 && rl.Rec >= 0 {
				r := obs.Db[rl.Rec%len(obs.Db)]
				v = int64(map[string]uint64{"sum": r.Sum, "tsum": r.TSum, "diff": r.Diff,
					"tdiff": r.TDiff, "rdiff": r.RDiff, "mtick": uint64(r.MTick)}[rl.Field]) + int64(rl.Off)
			}
			if v < 0 {
				v = 0
			}
			switch rl.Field {
			case "sum":
				t.Sum = uint64(v)
			case "tsum":
				t.TSum = uint64(v)
			case "diff":
				t.Diff = uint64(v)
			case "tdiff":
				t.TDiff = uint64(v)
			case "rdiff":
				t.RDiff = uint64(v)
			case "mtick":
				t.MTick = uint32(v)
			}
		}
		t.Rel = nil
		return t
	}
	for i, q := range in.Queries {
		q.Start, q.End = resolve(q.Start), resolve(q.End)
		qo := C17QObs{Eff: q, Res: "ok", S: rankT(qS[i]), E: rankT(qE[i])}
		func() {
			defer func() {
				if r := recover(); r != nil {
					qo.Res = "panic"
				}
			}()
			res, err := mem.FindLatest(ctx, false, q.Limit, amhist.Query{
				Active: c17Pick(names, q.Active), Activated: c17Pick(names, q.Activated),
				Inactive: c17Pick(names, q.Inactive), Deactivated: c17Pick(names, q.Deactivated),
				Start: ctime(q.Start, qS[i]), End: ctime(q.End, qE[i])})
			if err != nil {
				qo.Res = "err"
				return
			}
			for _, r := range res {
				p, ok := pos[r]
				if !ok {
					p = 1 << 20
				}
				qo.Idxs = append(qo.Idxs, p)
			}
		}()
		obs.Queries = append(obs.Queries, qo)
	}
	for i, b := range in.Between {
		bo := C17BObs{S: rankT(bS[i]), E: rankT(bE[i])}
		func() {
			defer func() {
				if r := recover(); r != nil {
					bo.Res = "panic"
				}
			}()
			st := c17Pick(names, []int{b.State})[0]
			var v bool
			switch b.Kind {
			case 0:
				v = mem.ActivatedBetween(ctx, st, bS[i], bE[i])
			case 1:
				v = mem.ActiveBetween(ctx, st, bS[i], bE[i])
			case 2:
				v = mem.DeactivatedBetween(ctx, st, bS[i], bE[i])
			default:
				v = mem.InactiveBetween(ctx, st, bS[i], bE[i])
			}
			bo.Res = fmt.Sprint(v)
		}()
		obs.Between = append(obs.Between, bo)
	}

	// Export / Import into a fresh machine
	ser, sch, err := m.Export()
	if err != nil {
		obs.Err = "export: " + err.Error()
		return obs
	}
	obs.Src = c17MachObs(m, names)
	m2 := am.New(ctx, sch, &am.Opts{Id: "h", DontLogStackTrace: true})
	order := names
	if len(in.Perm) == len(names) {
		order = pick(names, in.Perm)
	}
	if err := m2.VerifyStates(order); err != nil {
		obs.Err = "verify2: " + err.Error()
		return obs
	}
	obs.Dst = c17MachObs(m2, names)
	done := make(chan string, 1)
	go func() {
		defer func() {
			if r := recover(); r != nil {
				done <- "panic"
			}
		}()
		if err := m2.Import(ser); err != nil {
			if strings.Contains(err.Error(), "diff state len") {
				done <- "err1"
			} else {
				done <- "err2"
			}
			return
		}
		done <- "ok"
	}()
	select {
	case r := <-done:
		obs.ImpRes = r
		if r == "ok" {
			obs.Imp = c17MachObs(m2, names)
		}
		m2.Dispose()
	case <-time.After(c17HangAfter):
		// Import holds the machine's locks forever: the machine is abandoned
		obs.ImpRes = "hang"
	}
	return obs
}

// ------------------------------------------------------------ Gallina

func coqZ(v int64) string { return fmt.Sprintf("(%d)%%Z", v) }

func coqZList(xs []int) string {
	parts := make([]string, len(xs))
	for i, x := range xs {
		parts[i] = fmt.Sprintf("(%d)", x)
	}
	return "[" + strings.Join(parts, ";") + "]%Z"
}

func c17CoqCtime(t C17Time, h int) string {
	return fmt.Sprintf("{| t_mstates := %s; t_mtime := %s; t_htime := %d%%N; t_sum := %d%%N; t_tsum := %d%%N; t_diff := %d%%N; t_tdiff := %d%%N; t_rdiff := %d%%N; t_mtick := %d%%N |}",
		coqNatList(t.MStates), coqNList(t.MTime), h, t.Sum, t.TSum, t.Diff, t.TDiff, t.RDiff, t.MTick)
}

func c17CoqMach(m *C17Mach, restored bool) string {
	return fmt.Sprintf("{| e_clock := %s; e_active := %s; e_names := %s; e_mtick := %d%%N; e_qtick := %d%%N; e_has_restored := %s |}",
		coqNList(m.Clock), coqNatList(m.Active), coqNatList(m.Names), m.MTick, m.QTick, coqBool(restored))
}

func c17Coq(in *C17Input, obs *C17Obs) string {
	var b strings.Builder
	c := in.Cfg
	fmt.Fprintf(&b, "{| k_nstates := %d%%nat;\n k_raw := {| w_tracked := %s; w_called := %s; w_called_excl := %s; w_changed := %s; w_changed_excl := %s; w_rejected := %s; w_store_tx := %s; w_max := %s |};\n",
		len(in.States), coqNatList(c.Tracked), coqNatList(c.Called), coqBool(c.CalledExcl),
		coqNatList(c.Changed), coqBool(c.ChangedExcl), coqBool(c.Rejected), coqBool(c.StoreTx), coqZ(int64(c.Max)))
	fmt.Fprintf(&b, " o_new_err := %s; o_tracked := %s; o_max := %s;\n", coqBool(obs.NewErr),
		coqNatList(obs.Tracked), coqZ(int64(obs.Max)))
	fmt.Fprintf(&b, " k_txs := %s;\n", joinMap(obs.Txs, func(t C17Tx) string {
		return fmt.Sprintf("{| x_type := %d%%N; x_called := %s; x_auto := %s; x_check := %s; x_accepted := %s; x_before := %s; x_after := %s; x_mach_after := %s; x_qtick := %d%%N; x_mach_qtick := %d%%N; x_mtick := %d%%N; x_htime := %d%%N |}",
			t.Type, coqNatList(t.Called), coqBool(t.Auto), coqBool(t.Check), coqBool(t.Accepted),
			coqNList(t.Before), coqNList(t.After), coqNList(t.MachAfter), t.QTick, t.MachQTick, t.MTick, t.H)
	}, ";\n   "))
	lens := make([]int, len(obs.Txs))
	for i, t := range obs.Txs {
		lens[i] = t.Len
	}
	fmt.Fprintf(&b, " o_lens := %s;\n", coqNatList(lens))
	fmt.Fprintf(&b, " o_db := %s;\n", joinMap(obs.Db, func(r C17Rec) string {
		tx := "None"
		if r.Tx != nil {
			tx = fmt.Sprintf("(Some {| tr_called := %s; tr_auto := %s; tr_accepted := %s; tr_check := %s; tr_queued_at := %d%%N; tr_executed_at := %d%%N |})",
				coqZList(r.Tx.Called), coqBool(r.Tx.Auto), coqBool(r.Tx.Accepted), coqBool(r.Tx.Check),
				r.Tx.QueuedAt, r.Tx.ExecutedAt)
		}
		return fmt.Sprintf("{| r_type := %d%%N; r_sum := %d%%N; r_tsum := %d%%N; r_diff := %d%%N; r_tdiff := %d%%N; r_rdiff := %d%%N; r_htime := %d%%N; r_tracked := %s; r_tracked_diff := %s; r_mtick := %d%%N; r_tx := %s |}",
			r.Type, r.Sum, r.TSum, r.Diff, r.TDiff, r.RDiff, r.H, coqNList(r.Tracked),
			coqNList(r.TrackedDiff), r.MTick, tx)
	}, ";\n   "))
	fmt.Fprintf(&b, " o_nextid := %d%%N;\n", obs.NextId)
	qs := make([]string, 0, len(obs.Queries))
	for _, qo := range obs.Queries {
		q := qo.Eff
		res := "OErr"
		switch qo.Res {
		case "panic":
			res = "OPanic"
		case "ok":
			res = "(OIdx " + coqNatList(qo.Idxs) + ")"
		}
		qs = append(qs, fmt.Sprintf("{| qo_q := {| q_active := %s; q_activated := %s; q_inactive := %s; q_deactivated := %s;\n      q_start := %s;\n      q_end := %s |}; qo_limit := %s; qo_res := %s |}",
			coqNatList(q.Active), coqNatList(q.Activated), coqNatList(q.Inactive), coqNatList(q.Deactivated),
			c17CoqCtime(q.Start, qo.S), c17CoqCtime(q.End, qo.E), coqZ(int64(q.Limit)), res))
	}
	fmt.Fprintf(&b, " o_queries := [%s];\n", strings.Join(qs, ";\n   "))
	bs := make([]string, 0, len(obs.Between))
	for i, bo := range obs.Between {
		bt := in.Between[i]
		res := "None"
		if bo.Res == "true" || bo.Res == "false" {
			res = "(Some " + bo.Res + ")"
		}
		bs = append(bs, fmt.Sprintf("{| bo_kind := %d%%N; bo_state := %d%%nat; bo_hs := %d%%N; bo_he := %d%%N; bo_res := %s |}",
			bt.Kind, bt.State, bo.S, bo.E, res))
	}
	fmt.Fprintf(&b, " o_between := [%s];\n", strings.Join(bs, "; "))
	ei := "None"
	if obs.Src != nil && obs.Dst != nil && obs.ImpRes != "none" {
		res := map[string]string{"err1": "(IErr 1%N)", "err2": "(IErr 2%N)", "panic": "IPanic",
			"hang": "IHang"}[obs.ImpRes]
		if obs.ImpRes == "ok" {
			res = "(IOk " + c17CoqMach(obs.Imp, false) + ")"
		}
		ei = fmt.Sprintf("(Some {| ei_src := %s;\n   ei_dst := %s;\n   ei_res := %s |})",
			c17CoqMach(obs.Src, obs.Restored), c17CoqMach(obs.Dst, obs.Restored), res)
	}
	fmt.Fprintf(&b, " o_ei := %s |}", ei)
	return b.String()
}

// ------------------------------------------------------------ generators

func c17GenH(r *Rng) C17H {
	if r.Chance(12) {
		return C17H{Rec: -1}
	}
	return C17H{Rec: r.Intn(12), Off: r.Range(-1, 1)}
}

func c17Sub(r *Rng, from []int, k int) []int {
	var ret []int
	for i := 0; i < k && len(from) > 0; i++ {
		ret = appendUniq(ret, from[r.Intn(len(from))])
	}
	return ret
}

func c17GenQuery(r *Rng, n int, tracked []int, ncalls int) C17Query {
	q := C17Query{Start: C17Time{H: C17H{Rec: -1}}, End: C17Time{H: C17H{Rec: -1}}}
	pool := tracked
	if len(pool) == 0 || r.Chance(6) {
		// untracked / unknown states: a validation error is expected
		pool = []int{r.Intn(n + 1)}
	}
	stateCond := func() []int { return c17Sub(r, pool, r.Range(1, 2)) }
	shape := r.Intn(10)
	if shape < 5 { // state conditions
		switch r.Intn(6) {
		case 0:
			q.Active = stateCond()
		case 1:
			q.Activated = stateCond()
		case 2:
			q.Inactive = stateCond()
		case 3:
			q.Deactivated = stateCond()
		case 4:
			q.Active = stateCond()
			q.Inactive = stateCond()
		default:
			q.Activated = stateCond()
			q.Deactivated = stateCond()
		}
	}
	if shape >= 3 { // scalar ranges (shapes 3,4 combine both)
		maxSum := uint64(2*ncalls + 3)
		rng := func(hi uint64) (uint64, uint64) {
			a := uint64(r.Intn(int(hi) + 1))
			b := a + uint64(r.Intn(int(hi)/2+2))
			if r.Chance(8) {
				a, b = b+1, a // empty range
			}
			if r.Chance(8) {
				a = 0 // start missing: the range is ignored
			}
			return a, b
		}
		k := r.Range(1, 2)
		for i := 0; i < k; i++ {
			if r.Chance(50) {
				// bounds taken from stored records: hits the edges of ranges
				f := []string{"sum", "tsum", "diff", "tdiff", "rdiff", "mtick"}[r.Intn(6)]
				a, b := r.Intn(12), r.Intn(12)
				if a > b && r.Chance(85) {
					a, b = b, a
				}
				q.Start.Rel = append(q.Start.Rel, C17Rel{Field: f, Rec: a, Off: r.Range(-1, 1) * r.Intn(2)})
				q.End.Rel = append(q.End.Rel, C17Rel{Field: f, Rec: b, Off: r.Range(-1, 1) * r.Intn(2)})
				continue
			}
			switch r.Intn(7) {
			case 0:
				q.Start.Sum, q.End.Sum = rng(maxSum)
			case 1:
				q.Start.TSum, q.End.TSum = rng(maxSum)
			case 2:
				q.Start.Diff, q.End.Diff = rng(4)
			case 3:
				q.Start.TDiff, q.End.TDiff = rng(3)
			case 4:
				q.Start.RDiff, q.End.RDiff = rng(6)
			case 5:
				a, b := rng(4)
				q.Start.MTick, q.End.MTick = uint32(a), uint32(b)
			default:
				q.Start.H, q.End.H = c17GenH(r), c17GenH(r)
				if r.Chance(60) && q.Start.H.Rec > q.End.H.Rec {
					q.Start.H, q.End.H = q.End.H, q.Start.H
				}
			}
		}
	}
	if r.Chance(25) { // machine-time vector
		sts := c17Sub(r, pool, r.Range(1, 2))
		q.Start.MStates = sts
		q.End.MStates = slices.Clone(sts)
		for range sts {
			a := uint64(r.Intn(6))
			q.Start.MTime = append(q.Start.MTime, a)
			q.End.MTime = append(q.End.MTime, a+uint64(r.Intn(5)))
		}
		switch {
		case r.Chance(8): // length mismatch: validation error
			q.Start.MTime = q.Start.MTime[:len(q.Start.MTime)-1]
		case r.Chance(8): // End lists nothing
			q.End.MStates, q.End.MTime = nil, nil
		case r.Chance(8) && len(pool) > 1: // End lists other states
			q.End.MStates = c17Sub(r, pool, len(sts))
			q.End.MTime = q.End.MTime[:len(q.End.MStates)]
		}
	}
	switch r.Intn(6) {
	case 0:
		q.Limit = 1
	case 1:
		q.Limit = r.Range(2, 4)
	case 2:
		q.Limit = -1
	}
	return q
}

func c17Gen(r *Rng, shape string) *C17Input {
	o := GenOpt{MinStates: 2, MaxStates: 6, AutoPct: 15, MultiPct: 20, RelPct: 10,
		MinCalls: 3, MaxCalls: 24, Checks: true}
	in := &C17Input{States: genSchema(r, o)}
	n := len(in.States)
	if shape == "restored" {
		in.States[r.Intn(n-1)].Name = am.StateMachineRestored
	}
	nc := r.Range(o.MinCalls, o.MaxCalls)
	for i := 0; i < nc; i++ {
		in.Calls = append(in.Calls, genCall(r, n, o, false))
	}
	if r.Chance(50) {
		in.Veto = r.Subset(n-1, 40)
		for i := 0; i < r.Range(1, 5); i++ {
			in.VetoPat = append(in.VetoPat, r.Chance(50))
		}
	}
	if r.Chance(30) {
		in.PreTick = r.Range(1, 3)
	}
	// tracking configuration
	c := &in.Cfg
	c.Tracked = r.Subset(n, r.Range(25, 90))
	if len(c.Tracked) == 0 && r.Chance(85) {
		c.Tracked = []int{r.Intn(n)}
	}
	if shape != "all" {
		if r.Chance(40) {
			c.Called = c17Sub(r, r.Perm(n-1), r.Range(1, 2))
			c.CalledExcl = r.Chance(50)
		}
		if r.Chance(40) {
			c.Changed = c17Sub(r, r.Perm(n-1), r.Range(1, 2))
			c.ChangedExcl = r.Chance(50)
		}
	}
	if shape == "lists" {
		c.Called = c17Sub(r, r.Perm(n-1), r.Range(1, 2))
		c.Changed = c17Sub(r, r.Perm(n-1), r.Range(1, 2))
		c.CalledExcl = r.Chance(50)
		c.ChangedExcl = r.Chance(35)
	}
	c.Rejected = r.Chance(50)
	c.StoreTx = r.Chance(30)
	c.Max = []int{0, -1, 1, 1, 2, 2, 3, 4, 5, 8, 1000}[r.Intn(11)]
	if shape == "malformed" {
		switch r.Intn(3) {
		case 0: // unknown name, no duplicate: dropped by ParseStates
			c.Tracked = append(c.Tracked, n+r.Intn(3))
		case 1: // unknown name and a duplicate: dropped as well (was kept: 2:240)
			c.Tracked = append(c.Tracked, n+r.Intn(3))
			if len(c.Tracked) > 1 {
				c.Tracked = append(c.Tracked, c.Tracked[0])
			}
		default: // nothing to track
			c.Tracked = nil
			if r.Chance(50) {
				c.Tracked = []int{n + 1}
			}
		}
	}
	// effective tracked set (as NewMemory will compute it) for query generation
	var eff []int
	all := slices.Clone(c.Tracked)
	if !c.CalledExcl {
		all = append(all, c.Called...)
	}
	if !c.ChangedExcl {
		all = append(all, c.Changed...)
	}
	for _, x := range all {
		if x < n {
			eff = appendUniq(eff, x)
		}
	}
	nq := r.Range(5, 9)
	for i := 0; i < nq; i++ {
		in.Queries = append(in.Queries, c17GenQuery(r, n, eff, nc))
	}
	// sweep: one state clause (the same for the whole case) on every tracked
	// state, hence on every tracked index - for Inactive this includes states
	// whose machine index is >= the number of tracked states (2:204)
	if len(eff) > 0 {
		k := r.Intn(4)
		for _, st := range eff {
			q := C17Query{Start: C17Time{H: C17H{Rec: -1}}, End: C17Time{H: C17H{Rec: -1}}}
			switch k {
			case 0:
				q.Active = []int{st}
			case 1:
				q.Activated = []int{st}
			case 2:
				q.Inactive = []int{st}
			default:
				q.Deactivated = []int{st}
			}
			if r.Chance(25) {
				q.Limit = r.Range(1, 2)
			}
			in.Queries = append(in.Queries, q)
		}
	}
	for i := 0; i < 4; i++ {
		st := r.Intn(n)
		if len(eff) > 0 && r.Chance(85) {
			st = eff[r.Intn(len(eff))]
		}
		b := C17Between{Kind: r.Intn(4), State: st, Start: c17GenH(r), End: c17GenH(r)}
		if r.Chance(70) && b.Start.Rec > b.End.Rec {
			b.Start, b.End = b.End, b.Start
		}
		in.Between = append(in.Between, b)
	}
	// windows with a known content: the instant of one stored record (the
	// state did or did not do the thing in exactly that record), a prefix of
	// the log, the whole log
	if len(eff) > 0 {
		for i := 0; i < 4; i++ {
			b := C17Between{Kind: r.Intn(4), State: eff[r.Intn(len(eff))]}
			switch i {
			case 0, 1:
				k := r.Intn(12)
				b.Start, b.End = C17H{Rec: k}, C17H{Rec: k}
			case 2:
				b.Start, b.End = C17H{Rec: 0}, C17H{Rec: r.Intn(12)}
			default:
				b.Start, b.End = C17H{Rec: -1}, C17H{Rec: -1}
			}
			in.Between = append(in.Between, b)
		}
	}
	if r.Chance(35) {
		in.Perm = r.Perm(n)
	}
	return in
}

// ------------------------------------------------------------ runner

func runC17(c *Ctx) error {
	out := NewOut(c.OutDir, "C17",
		"From Coq Require Import List NArith ZArith.\nFrom AMV Require Import Model.History Spec.C17 Run.EvalC17.\nImport ListNotations.",
		"c17case", "EvalC17.check_all", 150)
	emit := func(kind string, in *C17Input) {
		obs := c17Exec(in)
		if obs.Err != "" {
			out.Count("skipped", strings.SplitN(obs.Err, ":", 2)[0])
			return
		}
		if obs.Crashed != "" {
			out.Count("skipped", "workload panicked: "+obs.Crashed)
			return
		}
		cfg := in.Cfg
		lists := func(l []int, excl bool) string {
			switch {
			case len(l) == 0:
				return "none"
			case excl:
				return "block"
			}
			return "allow"
		}
		out.Count("called_list", lists(cfg.Called, cfg.CalledExcl))
		out.Count("changed_list", lists(cfg.Changed, cfg.ChangedExcl))
		out.Count("track_rejected", fmt.Sprint(cfg.Rejected))
		out.Count("store_transitions", fmt.Sprint(cfg.StoreTx))
		out.Count("max_records", fmt.Sprint(cfg.Max))
		out.Count("tracked_states", fmt.Sprint(len(obs.Tracked)))
		out.Count("user_states", fmt.Sprint(len(in.States)-1))
		out.Count("transitions", bucket(len(obs.Txs)))
		out.Count("stored_records", bucket(len(obs.Db)))
		out.Count("records_created", bucket(int(obs.NextId)-1))
		out.Count("machine_tick", fmt.Sprint(in.PreTick))
		nRej, nCheck, nAuto := 0, 0, 0
		for _, t := range obs.Txs {
			if !t.Accepted {
				nRej++
			}
			if t.Check {
				nCheck++
			}
			if t.Auto {
				nAuto++
			}
		}
		out.Count("rejected_transitions", bucket(nRej))
		out.Count("check_transitions", bucket(nCheck))
		out.Count("auto_transitions", bucket(nAuto))
		switch {
		case obs.NewErr:
			out.Count("new_memory", "error")
		case obs.Unknown:
			out.Count("new_memory", "unknown state kept")
		default:
			out.Count("new_memory", "ok")
		}
		for i, q := range obs.Queries {
			res := q.Res
			if res == "ok" {
				res = "ok:" + bucket(len(q.Idxs))
			}
			out.Count("query_result", res)
			iq := in.Queries[i]
			if len(iq.Active)+len(iq.Activated)+len(iq.Inactive)+len(iq.Deactivated) > 0 {
				out.Count("query_kind", "state conditions")
			} else if len(iq.Start.MStates) > 0 {
				out.Count("query_kind", "mtime vector")
			} else {
				out.Count("query_kind", "scalar only")
			}
		}
		tIdx := func(st int) int { return slices.Index(obs.Tracked, st) }
		for i, q := range obs.Queries {
			if q.Res == "err" {
				continue
			}
			iq := in.Queries[i]
			for ci, l := range [][]int{iq.Active, iq.Activated, iq.Inactive, iq.Deactivated} {
				cl := []string{"active", "activated", "inactive", "deactivated"}[ci]
				for _, st := range l {
					out.Count("state_cond_tracked_index", fmt.Sprintf("%s@%d", cl, tIdx(st)))
					if ci == 1 || ci == 3 {
						// records whose own transition moved the state's tick by an
						// even, non-zero amount (a Multi state re-entered: +2)
						re := 0
						for _, rc := range obs.Db {
							if ti := tIdx(st); ti >= 0 && ti < len(rc.TrackedDiff) &&
								rc.TrackedDiff[ti] != 0 && rc.TrackedDiff[ti]%2 == 0 {
								re++
							}
						}
						if re > 0 {
							out.Count("activated_cond_multi_reentry_records", cl+": "+bucket(re))
						}
					}
					if ci == 2 {
						if st >= len(obs.Tracked) {
							out.Count("inactive_machine_index", ">= tracked states")
						} else {
							out.Count("inactive_machine_index", "< tracked states")
						}
					}
				}
			}
		}
		for i, b := range obs.Between {
			out.Count("between_result", b.Res)
			bt := in.Between[i]
			ti := tIdx(bt.State)
			if ti < 0 {
				out.Count("between_window", "state not tracked")
				continue
			}
			// what the records inside the window say: active / inactive after
			// the transition, flipped by it (odd MTimeTrackedDiff entry)
			did, didnot := 0, 0
			for _, rc := range obs.Db {
				if b.S != 0 && b.E != 0 && (rc.H < b.S || rc.H > b.E) {
					continue
				}
				act := rc.Tracked[ti]%2 == 1
				flipped := ti < len(rc.TrackedDiff) && rc.TrackedDiff[ti]%2 == 1
				var ok bool
				switch bt.Kind {
				case 0:
					ok = act && flipped
				case 1:
					ok = act
				case 2:
					ok = !act && flipped
				default:
					ok = !act
				}
				if ok {
					did++
				} else {
					didnot++
				}
			}
			kind := []string{"activated", "active", "deactivated", "inactive"}[bt.Kind%4]
			switch {
			case did > 0 && didnot > 0:
				out.Count("between_window", kind+": records that did and records that did not")
			case did > 0:
				out.Count("between_window", kind+": only records that did")
			case didnot > 0:
				out.Count("between_window", kind+": only records that did not")
			default:
				out.Count("between_window", kind+": no record in the window")
			}
		}
		out.Count("import", obs.ImpRes)
		trivial := len(obs.Txs) == 0 && !obs.NewErr && !obs.Unknown
		out.Add(kind, in, obs, c17Coq(in, obs), trivial, "")
	}
	cases, replayOnly := c.loadCases()
	for _, cc := range cases {
		var in C17Input
		must(json.Unmarshal(cc.Input, &in))
		emit("corpus:"+cc.Name, &in)
	}
	if replayOnly {
		out.Close("replay", nil)
		return nil
	}
	n := c.N(1200, 40000)
	shapes := []string{"any", "any", "any", "lists", "lists", "all", "any", "malformed", "any", "lists"}
	for i := 0; i < n; i++ {
		shape := shapes[i%len(shapes)]
		if i%97 == 96 {
			shape = "restored"
		}
		emit(shape, c17Gen(c.Rng, shape))
	}
	out.Close("generated schemas (2..6 states, relations, Auto/Multi) x call histories (3..24 "+
		"Add/Remove/Set/Toggle/CanAdd/CanRemove, veto handlers) x tracking configurations "+
		"(tracked subsets, Called/Changed allow- and block-lists, TrackRejected, StoreTransitions, "+
		"MaxRecords 1..8/1000/default) x 5..9 FindLatest queries (state conditions, scalar ranges, "+
		"machine-time vectors, wall-clock ranges relative to stored stamps, limits; positive and "+
		"negative, tracked and untracked states) + one state clause swept over every tracked state "+
		"x 8 *Between calls (random windows, single-record instants, log prefixes, the whole log) "+
		"x one Export/Import round trip. "+
		"distinct = distinct (input, observation); trivial = no transition ran", nil)
	return nil
}
