package main

// History executor shared by the sequential properties (C01 C02 C03 C05 C07
// C08 C11 C14 ...): builds a real machine from a generated schema, binds
// scripted recording handlers and a recording tracer, runs a list of API
// calls from one goroutine and returns everything observable, printed as a
// Gallina term of type Run.EvalHist.hcase.

import (
	"context"
	"errors"
	"fmt"
	"os"
	"reflect"
	"slices"
	"strings"
	"time"

	am "github.com/pancsta/asyncmachine-go/pkg/machine"
)

// ------------------------------------------------------------ input

type HState struct {
	Name    string `json:"name"`
	Auto    bool   `json:"auto,omitempty"`
	Multi   bool   `json:"multi,omitempty"`
	Require []int  `json:"require,omitempty"`
	Add     []int  `json:"add,omitempty"`
	Remove  []int  `json:"remove,omitempty"`
	After   []int  `json:"after,omitempty"`
}

type HCall struct {
	Kind   string `json:"kind"` // add remove set toggle adderr canadd canremove
	States []int  `json:"states"`
	Args   bool   `json:"args,omitempty"`
}

type HAction struct {
	Ret   bool    `json:"ret"`
	Calls []HCall `json:"calls,omitempty"`
	Fault string  `json:"fault,omitempty"` // "", "panic", "panicval", "stall"
}

type HKey struct {
	K string `json:"k"` // exit enter self trans anyenter end state anystate
	A int    `json:"a"`
	B int    `json:"b,omitempty"`
}

type HistInput struct {
	States     []HState  `json:"states"` // index = StateNames order; Exception last
	Bindings   [][]HKey  `json:"bindings,omitempty"`
	BindKinds  []string  `json:"bind_kinds,omitempty"` // per binding: "" / "map", "struct" (func fields), "prefix" (StatePrefix "S")
	Actions    []HAction `json:"actions,omitempty"`
	Calls      []HCall   `json:"calls"`
	QueueLimit int       `json:"queue_limit,omitempty"`
	Tracers    int       `json:"tracers,omitempty"` // extra recording tracers (C14)
	Init       []int     `json:"init,omitempty"`    // initial ordered active set (VerifSetActive)
	SchemaRef  string    `json:"-"`                 // Gallina name of a shared schema definition
	// schema growth: the machine starts with States; right before the top-level
	// call number GrowAt it gets SetSchema(States ++ Grow) (new states: never
	// Auto, referenced by no old state, Require only old or earlier new states)
	// and the handler bindings GrowBindings (keys about new states only)
	Grow         []HState `json:"grow,omitempty"`
	GrowAt       int      `json:"grow_at,omitempty"`
	GrowBindings [][]HKey `json:"grow_bindings,omitempty"`
}

// ------------------------------------------------------------ observation

type HLog struct {
	Key     HKey     `json:"key"`
	Binding int      `json:"binding"`
	Active  []int    `json:"active"`
	Clock   []uint64 `json:"clock"`
	Results []uint64 `json:"results"` // 0 executed 1 canceled >=2 queued tick
	Ret     bool     `json:"ret"`
}

type HTx struct {
	Type         int      `json:"type"` // 0 add 1 remove 2 set
	Called       []int    `json:"called"`
	Auto         bool     `json:"auto"`
	Check        bool     `json:"check"`
	QTick        uint64   `json:"qtick"`
	Before       []uint64 `json:"before"`
	After        []uint64 `json:"after"`
	ActiveBefore []int    `json:"active_before"`
	Target       []int    `json:"target"`
	Accepted     bool     `json:"accepted"`
	MachAfter    []uint64 `json:"mach_after"`
	HFrom        int      `json:"hfrom"`
	HTo          int      `json:"hto"`
}

type HCallObs struct {
	Result uint64   `json:"result"`
	Time   []uint64 `json:"time"`
	Active []int    `json:"active"`
	QTick  uint64   `json:"qtick"`
	NTx    int      `json:"ntx"`
	Err    int      `json:"err"` // Machine.Err(): 0 nil, 1 scripted AddErr error, 2 recovered panic, 3 other
}

type HistObs struct {
	Parsed       []HState   `json:"parsed"` // schema after Schema.Parse
	Topology     []int      `json:"topology"`
	ParseErr     string     `json:"parse_err,omitempty"`
	Calls        []HCallObs `json:"calls"`
	Txs          []HTx      `json:"txs"`
	Events       []string   `json:"events"` // q q:auto q:check init start finals end qend
	HLog         []HLog     `json:"hlog"`
	Crashed      bool       `json:"crashed"`
	Hung         bool       `json:"hung"`
	InternalErrs int        `json:"internal_errs"`
	OpenTicks    []uint64   `json:"open_queue_ticks"` // returned queue ticks whose WhenQueue is open at the end
	CrashMsg     string     `json:"crash_msg,omitempty"`
	Extra        [][]string `json:"extra_tracers,omitempty"`
	FinalTime    []uint64   `json:"final_time"`
	Err          string     `json:"err,omitempty"`
	Oracle       [][]int    `json:"oracle"` // called lists of the auto mutations, as queued
	Rerun        int        `json:"rerun"`  // see EvalHist.h_rerun
}

// ------------------------------------------------------------ tracer

type recTracer struct {
	*am.TracerNoOp
	mach   *am.Machine
	names  am.S
	obs    *HistObs
	events *[]string
	full   bool
	hlogN  func() int
	hfrom  int
	onInit func() // called at TransitionInit of the full tracer (the previous transition is completely over)
	// highest queue tick of a transition that has ended
	doneTick uint64
}

type tickWaiter struct {
	tick uint64
	ch   <-chan struct{}
}

func (t *recTracer) idx(names am.S) []int {
	ret := make([]int, len(names))
	for i, n := range names {
		ret[i] = slices.Index(t.names, n)
	}
	return ret
}

func (t *recTracer) MutationQueued(_ am.Api, mut *am.Mutation) {
	ev := "q"
	if mut.IsAuto {
		ev = "q:auto"
		if t.full {
			t.obs.Oracle = append(t.obs.Oracle, slices.Clone(mut.Called))
		}
	} else if mut.IsCheck {
		ev = "q:check"
	}
	*t.events = append(*t.events, ev)
}

func (t *recTracer) TransitionInit(tx *am.Transition) {
	*t.events = append(*t.events, "init")
	if t.full {
		t.hfrom = t.hlogN()
		if t.onInit != nil {
			t.onInit()
		}
	}
}
func (t *recTracer) TransitionStart(tx *am.Transition) { *t.events = append(*t.events, "start") }
func (t *recTracer) TransitionFinals(tx *am.Transition) {
	*t.events = append(*t.events, "finals")
}
func (t *recTracer) QueueEnd(_ am.Api) { *t.events = append(*t.events, "qend") }

func (t *recTracer) TransitionEnd(tx *am.Transition) {
	*t.events = append(*t.events, "end")
	if !t.full {
		return
	}
	if tx.Mutation.QueueTick > t.doneTick {
		t.doneTick = tx.Mutation.QueueTick
	}
	rec := HTx{
		Type:         int(tx.Mutation.Type),
		Called:       slices.Clone(tx.Mutation.Called),
		Auto:         tx.Mutation.IsAuto,
		Check:        tx.Mutation.IsCheck,
		QTick:        tx.Mutation.QueueTick,
		Before:       slices.Clone(tx.TimeBefore),
		After:        slices.Clone(tx.TimeAfter),
		ActiveBefore: t.idx(tx.StatesBefore()),
		Target:       t.idx(tx.TargetStates()),
		Accepted:     tx.IsAccepted.Load(),
		MachAfter:    t.mach.Time(nil),
		HFrom:        t.hfrom,
		HTo:          t.hlogN(),
	}
	t.obs.Txs = append(t.obs.Txs, rec)
}

// ------------------------------------------------------------ executor

func hkeyName(names am.S, k HKey) string {
	switch k.K {
	case "exit":
		return names[k.A] + am.SuffixExit
	case "enter":
		return names[k.A] + am.SuffixEnter
	case "self":
		return names[k.A] + names[k.A]
	case "trans":
		return names[k.A] + names[k.B]
	case "anyenter":
		return am.StateAny + am.SuffixEnter
	case "end":
		return names[k.A] + am.SuffixEnd
	case "state":
		return names[k.A] + am.SuffixState
	case "anystate":
		return am.StateAny + am.SuffixState
	}
	panic("bad hkey " + k.K)
}

func hkeyFinal(k HKey) bool { return k.K == "end" || k.K == "state" || k.K == "anystate" }

func pick(names am.S, idxs []int) am.S {
	ret := make(am.S, len(idxs))
	for i, x := range idxs {
		if x >= len(names) {
			ret[i] = fmt.Sprintf("Undefined%d", x)
			continue
		}
		ret[i] = names[x]
	}
	return ret
}

var errScripted = errors.New("scripted error")

func doCall(m *am.Machine, names am.S, c HCall) am.Result {
	var args am.A
	if c.Args {
		args = am.A{"x": 1}
	}
	st := pick(names, c.States)
	switch c.Kind {
	case "add":
		return m.Add(st, args)
	case "remove":
		return m.Remove(st, args)
	case "set":
		return m.Set(st, args)
	case "toggle":
		return m.Toggle(st, args)
	case "adderr":
		return m.AddErr(errScripted, nil)
	case "canadd":
		return m.CanAdd(st, args)
	case "canremove":
		return m.CanRemove(st, nil)
	}
	panic("bad call kind " + c.Kind)
}

func histNames(in *HistInput) am.S {
	names := make(am.S, 0, len(in.States)+len(in.Grow))
	for _, s := range in.States {
		names = append(names, s.Name)
	}
	for _, s := range in.Grow {
		names = append(names, s.Name)
	}
	return names
}

// stallFor is how long a "stall" fault blocks (HandlerTimeout is shorter).
const stallFor = 120 * time.Millisecond

// hangAfter is the watchdog bound for one top-level call.
const hangAfter = 3 * time.Second

func runHistory(in *HistInput) (obs *HistObs) {
	obs = &HistObs{}
	names := histNames(in)
	schema := am.Schema{}
	for _, s := range in.States {
		schema[s.Name] = am.State{Auto: s.Auto, Multi: s.Multi,
			Require: pick(names, s.Require), Add: pick(names, s.Add),
			Remove: pick(names, s.Remove), After: pick(names, s.After)}
	}
	var hlog []HLog
	events := []string{}
	tr := &recTracer{TracerNoOp: &am.TracerNoOp{Id: "rec0"}, names: names, obs: obs,
		events: &events, full: true, hlogN: func() int { return len(hlog) }}
	tracers := []am.Tracer{tr}
	var extraEv []*[]string
	for i := 0; i < in.Tracers; i++ {
		ev := []string{}
		extraEv = append(extraEv, &ev)
		tracers = append(tracers, &recTracer{TracerNoOp: &am.TracerNoOp{Id: fmt.Sprintf("rec%d", i+1)},
			names: names, obs: obs, events: extraEv[i]})
	}
	hasStall := false
	for _, a := range in.Actions {
		if a.Fault == "stall" {
			hasStall = true
		}
	}
	opts := &am.Opts{Id: "h", Tracers: tracers, HandlerTimeout: 5 * time.Second,
		DontLogStackTrace: true}
	if hasStall {
		opts.HandlerTimeout = 30 * time.Millisecond
	}
	if in.QueueLimit > 0 {
		opts.QueueLimit = uint16(in.QueueLimit)
	}
	// a schema whose Parse reports an error makes New() call AddErr before the
	// state order is verified; such schemas are rejected by the generators.
	if _, err := schema.Parse(); err != nil {
		obs.ParseErr = err.Error()
		return obs
	}
	m := am.New(context.Background(), schema, opts)
	tr.mach = m
	if os.Getenv("AMV_DEBUG_LOG") != "" {
		m.SemLogger().SetLevel(am.LogDecisions)
		m.SemLogger().SetLogger(func(_ am.LogLevel, msg string, args ...any) { fmt.Fprintf(os.Stderr, msg+"\n", args...) })
	}
	if err := m.VerifyStates(names[:len(in.States)]); err != nil {
		obs.Err = "verify: " + err.Error()
		return obs
	}
	// Dispose sleeps 100 ms for schemas with a Start state: never wait for it,
	// and skip it for handler-less machines (no goroutine to stop)
	if len(in.Bindings) > 0 {
		defer func() { go m.Dispose() }()
	}
	if len(in.Init) > 0 {
		m.VerifSetActive(pick(names, in.Init))
	}

	// parsed schema + topology as the machine holds them (taken again after a
	// schema growth)
	idxOf := func(l am.S) []int {
		ret := make([]int, 0, len(l))
		for _, n := range l {
			i := slices.Index(names, n)
			if i == -1 {
				// an undefined reference, named after its index by pick()
				fmt.Sscanf(n, "Undefined%d", &i)
			}
			ret = append(ret, i)
		}
		return ret
	}
	grown := false
	snapshotSchema := func() {
		parsed := m.Schema()
		obs.Parsed = nil
		cur := names[:len(in.States)]
		if grown {
			cur = names
		}
		for _, n := range cur {
			p := parsed[n]
			obs.Parsed = append(obs.Parsed, HState{Name: n, Auto: p.Auto, Multi: p.Multi,
				Require: idxOf(p.Require), Add: idxOf(p.Add), Remove: idxOf(p.Remove),
				After: idxOf(p.After)})
		}
		obs.Topology = idxOf(m.VerifTopology())
	}
	snapshotSchema()

	// scripted, recording handlers
	actIdx := 0
	nextAction := func() HAction {
		if actIdx < len(in.Actions) {
			a := in.Actions[actIdx]
			actIdx++
			return a
		}
		actIdx++
		return HAction{Ret: true}
	}
	activeIdx := func() []int { return idxOf(m.ActiveStates(nil)) }
	// WhenQueue(tick) of every tick handed to a handler must be closed as soon as the
	// transition of that tick is completely over, i.e. when the next transition is
	// initialised or the machine goes idle (not only at the end of the history)
	var waiters []tickWaiter
	// a waiter for a tick far in the future, registered before all others: due
	// waiters must be served although an earlier-registered one is not due yet
	_ = m.WhenQueue(am.Result(m.QueueTick() + 1000000))
	lateSeen := map[uint64]bool{}
	checkWaiters := func() {
		for _, w := range waiters {
			if w.tick > tr.doneTick || lateSeen[w.tick] {
				continue
			}
			select {
			case <-w.ch:
			default:
				lateSeen[w.tick] = true
				obs.OpenTicks = append(obs.OpenTicks, w.tick)
			}
		}
	}
	tr.onInit = checkWaiters
	body := func(bi int, k HKey) bool {
		a := nextAction()
		e := HLog{Key: k, Binding: bi, Active: activeIdx(), Clock: m.Time(nil), Ret: a.Ret}
		pos := len(hlog)
		hlog = append(hlog, e)
		for _, c := range a.Calls {
			r := doCall(m, names, c)
			hlog[pos].Results = append(hlog[pos].Results, uint64(r))
			if r >= 2 && c.Kind != "canadd" && c.Kind != "canremove" && c.Kind != "adderr" {
				// a real queue tick: wait for it from now on
				waiters = append(waiters, tickWaiter{tick: uint64(r), ch: m.WhenQueue(r)})
			}
		}
		switch a.Fault {
		case "panic":
			panic(errors.New("scripted panic"))
		case "panicval":
			panic("scripted panic value")
		case "stall":
			time.Sleep(stallFor)
		}
		return a.Ret
	}
	bindOne := func(bi int, b []HKey, kind string) bool {
		neg := map[string]am.HandlerNegotiation{}
		fin := map[string]am.HandlerFinal{}
		for _, k := range b {
			k := k
			bi := bi
			name := hkeyName(names, k)
			if kind == "prefix" {
				name = strings.TrimPrefix(name, "S")
			}
			if hkeyFinal(k) {
				fin[name] = func(e *am.Event) { body(bi, k) }
			} else {
				neg[name] = func(e *am.Event) bool { return body(bi, k) }
			}
		}
		var err error
		switch kind {
		case "struct":
			// a struct with one func field per handler (field handlers)
			var fields []reflect.StructField
			for _, n := range sortedKeys(neg) {
				fields = append(fields, reflect.StructField{Name: n, Type: reflect.TypeOf(am.HandlerNegotiation(nil))})
			}
			for _, n := range sortedKeys(fin) {
				fields = append(fields, reflect.StructField{Name: n, Type: reflect.TypeOf(am.HandlerFinal(nil))})
			}
			v := reflect.New(reflect.StructOf(fields))
			for n, f := range neg {
				v.Elem().FieldByName(n).Set(reflect.ValueOf(f))
			}
			for n, f := range fin {
				v.Elem().FieldByName(n).Set(reflect.ValueOf(f))
			}
			_, err = m.HandlersBind(v.Interface())
		case "prefix":
			_, err = m.HandlersBindMaps(neg, fin, am.BindOpts{StatePrefix: "S"})
		default:
			_, err = m.HandlersBindMaps(neg, fin)
		}
		if err != nil {
			obs.Err = "bind: " + err.Error()
			return false
		}
		return true
	}
	for bi, b := range in.Bindings {
		kind := ""
		if bi < len(in.BindKinds) {
			kind = in.BindKinds[bi]
		}
		if !bindOne(bi, b, kind) {
			return obs
		}
	}

	// top-level calls; a watchdog detects a call that blocks forever
	errCode := func() int {
		e := m.Err()
		switch {
		case e == nil:
			return 0
		case errors.Is(e, errScripted):
			return 1
		case strings.Contains(e.Error(), "scripted panic"):
			return 2
		}
		return 3
	}
	for ci, c := range in.Calls {
		if len(in.Grow) > 0 && !grown && ci == in.GrowAt {
			schema2 := am.Schema{}
			for n, st := range schema {
				schema2[n] = st
			}
			for _, g := range in.Grow {
				schema2[g.Name] = am.State{Auto: g.Auto, Multi: g.Multi,
					Require: pick(names, g.Require), Add: pick(names, g.Add),
					Remove: pick(names, g.Remove), After: pick(names, g.After)}
			}
			if err := m.SetSchema(schema2, names); err != nil {
				obs.Err = "setschema: " + err.Error()
				return obs
			}
			grown = true
			if os.Getenv("AMV_DEBUG_LOG") != "" {
				fmt.Fprintln(os.Stderr, "after SetSchema: err =", m.Err())
			}
			snapshotSchema()
			for gi, b := range in.GrowBindings {
				if !bindOne(len(in.Bindings)+gi, b, "") {
					return obs
				}
			}
		}
		var res am.Result
		done := make(chan struct{})
		go func() {
			defer close(done)
			defer func() {
				if r := recover(); r != nil {
					obs.Crashed = true
					obs.CrashMsg = strings.SplitN(fmt.Sprint(r), "\n", 2)[0]
				}
			}()
			res = doCall(m, names, c)
		}()
		select {
		case <-done:
		case <-time.After(hangAfter):
			obs.Hung = true
		}
		if obs.Crashed || obs.Hung {
			break
		}
		obs.Calls = append(obs.Calls, HCallObs{Result: uint64(res), Time: m.Time(nil),
			Active: activeIdx(), QTick: m.QueueTick(), NTx: len(obs.Txs), Err: errCode()})
		checkWaiters()
	}
	// every queue tick handed to a handler must be resolved once the machine is idle
	// (a check mutation or AddErr issued by a handler is prepended without a tick
	// and answers with the bare constant Queued = 2, which is not a tick)
	if !obs.Crashed && !obs.Hung {
		for hi, h := range hlog {
			for ri, r := range h.Results {
				tickless := false
				if hi < len(in.Actions) && ri < len(in.Actions[hi].Calls) {
					switch in.Actions[hi].Calls[ri].Kind {
					case "canadd", "canremove", "adderr":
						tickless = true
					}
				}
				if r >= 2 && !tickless && !lateSeen[r] {
					select {
					case <-m.WhenQueue(am.Result(r)):
					default:
						obs.OpenTicks = append(obs.OpenTicks, r)
					}
				}
			}
		}
	}
	// drain Machine.ErrInternal()
drainErrs:
	for {
		select {
		case <-m.ErrInternal():
			obs.InternalErrs++
		default:
			break drainErrs
		}
	}
	obs.Events = events
	obs.HLog = hlog
	if len(in.Grow) > 0 {
		// times taken before the growth are shorter: the new states were at 0
		pad := func(t []uint64) []uint64 {
			for t != nil && len(t) < len(names) {
				t = append(t, 0)
			}
			return t
		}
		for i := range obs.Calls {
			obs.Calls[i].Time = pad(obs.Calls[i].Time)
		}
		for i := range obs.Txs {
			obs.Txs[i].Before, obs.Txs[i].After, obs.Txs[i].MachAfter = pad(obs.Txs[i].Before), pad(obs.Txs[i].After), pad(obs.Txs[i].MachAfter)
		}
		for i := range obs.HLog {
			obs.HLog[i].Clock = pad(obs.HLog[i].Clock)
		}
	}
	for _, e := range extraEv {
		obs.Extra = append(obs.Extra, *e)
	}
	if !obs.Crashed && !obs.Hung {
		obs.FinalTime = m.Time(nil)
	}
	return obs
}

// ------------------------------------------------------------ Gallina

func coqSdef(s HState) string {
	return fmt.Sprintf("{| s_auto := %s; s_multi := %s; s_require := %s; s_add := %s; s_remove := %s; s_after := %s |}",
		coqBool(s.Auto), coqBool(s.Multi), coqNatList(s.Require), coqNatList(s.Add),
		coqNatList(s.Remove), coqNatList(s.After))
}

func coqHKey(k HKey) string {
	switch k.K {
	case "exit":
		return fmt.Sprintf("HExit %d", k.A)
	case "enter":
		return fmt.Sprintf("HEnter %d", k.A)
	case "self":
		return fmt.Sprintf("HSelf %d", k.A)
	case "trans":
		return fmt.Sprintf("HTrans %d %d", k.A, k.B)
	case "anyenter":
		return "HAnyEnter"
	case "end":
		return fmt.Sprintf("HEnd %d", k.A)
	case "state":
		return fmt.Sprintf("HState %d", k.A)
	case "anystate":
		return "HAnyState"
	}
	panic("bad hkey")
}

func coqCall(c HCall) string {
	kind := map[string]string{"add": "KAdd", "remove": "KRemove", "set": "KSet",
		"toggle": "KToggle", "adderr": "KAddErr", "canadd": "KCanAdd", "canremove": "KCanRemove"}[c.Kind]
	return fmt.Sprintf("{| ac_kind := %s; ac_states := %s; ac_args := %s |}", kind,
		coqNatList(c.States), coqBool(c.Args))
}

func coqCalls(cs []HCall) string {
	parts := make([]string, len(cs))
	for i, c := range cs {
		parts[i] = coqCall(c)
	}
	return "[" + strings.Join(parts, "; ") + "]"
}

func coqResult(r uint64) string {
	switch r {
	case 0:
		return "Executed"
	case 1:
		return "Canceled"
	}
	return fmt.Sprintf("(Queued %d%%N)", r)
}

func coqTev(e string) string {
	return map[string]string{"q": "EvQueued false false", "q:auto": "EvQueued true false",
		"q:check": "EvQueued false true", "init": "EvInit", "start": "EvStart",
		"finals": "EvFinals", "end": "EvEnd", "qend": "EvQueueEnd"}[e]
}

func joinMap[T any](xs []T, f func(T) string, sep string) string {
	parts := make([]string, len(xs))
	for i, x := range xs {
		parts[i] = f(x)
	}
	return "[" + strings.Join(parts, sep) + "]"
}

func healthIdx(in *HistInput) []int {
	var ret []int
	for i, s := range in.States {
		if s.Name == am.StateHealthcheck || s.Name == am.StateHeartbeat {
			ret = append(ret, i)
		}
	}
	return ret
}

// coqHCase prints the case: inputs + observed trace.
func coqHCase(in *HistInput, obs *HistObs) string {
	var b strings.Builder
	exc := slices.IndexFunc(in.States, func(s HState) bool { return s.Name == am.StateException })
	ql := in.QueueLimit
	if ql == 0 {
		ql = 1000
	}
	allNames := histNames(in)
	sorted := make([]int, len(allNames))
	for i := range sorted {
		sorted[i] = i
	}
	slices.SortFunc(sorted, func(a, b int) int { return strings.Compare(allNames[a], allNames[b]) })
	schemaTerm := joinMap(obs.Parsed, coqSdef, ";\n   ")
	if in.SchemaRef != "" {
		schemaTerm = in.SchemaRef
	}
	fmt.Fprintf(&b, "{| h_schema := %s;\n h_topo := %s; h_sorted := %s; h_health := %s; h_exc := %d%%nat; h_qlimit := %d%%N;\n",
		schemaTerm, coqNatList(obs.Topology), coqNatList(sorted), coqNatList(healthIdx(in)), exc, ql)
	fmt.Fprintf(&b, " h_bindings := %s;\n", joinMap(slices.Concat(in.Bindings, in.GrowBindings), func(bd []HKey) string {
		return joinMap(bd, coqHKey, "; ")
	}, "; "))
	fmt.Fprintf(&b, " h_actions := %s;\n", joinMap(in.Actions, func(a HAction) string {
		f := map[string]string{"": "FNone", "panic": "FPanic", "panicval": "FPanic", "stall": "FStall"}[a.Fault]
		return fmt.Sprintf("{| ha_ret := %s; ha_calls := %s; ha_fault := %s |}", coqBool(a.Ret), coqCalls(a.Calls), f)
	}, "; "))
	fmt.Fprintf(&b, " h_calls := %s; h_init := %s;\n", coqCalls(in.Calls), coqNatList(in.Init))
	// observed trace
	fmt.Fprintf(&b, " h_obs := {| tr_calls := %s;\n", joinMap(obs.Calls, func(c HCallObs) string {
		return fmt.Sprintf("{| co_result := %s; co_time := %s; co_active := %s; co_qtick := %d%%N; co_ntx := %d%%nat; co_err := %d%%N |}",
			coqResult(c.Result), coqNList(c.Time), coqNatList(c.Active), c.QTick, c.NTx, c.Err)
	}, ";\n   "))
	fmt.Fprintf(&b, "  tr_txs := %s;\n", joinMap(obs.Txs, func(t HTx) string {
		ty := []string{"MAdd", "MRemove", "MSet"}[t.Type]
		return fmt.Sprintf("{| tx_type := %s; tx_called := %s; tx_auto := %s; tx_check := %s; tx_qtick := %d%%N; "+
			"tx_before := %s; tx_after := %s; tx_active_before := %s; tx_target := %s; tx_accepted := %s; "+
			"tx_mach_after := %s; tx_hfrom := %d%%nat; tx_hto := %d%%nat |}",
			ty, coqNatList(t.Called), coqBool(t.Auto), coqBool(t.Check), t.QTick, coqNList(t.Before),
			coqNList(t.After), coqNatList(t.ActiveBefore), coqNatList(t.Target), coqBool(t.Accepted),
			coqNList(t.MachAfter), t.HFrom, t.HTo)
	}, ";\n   "))
	fmt.Fprintf(&b, "  tr_evs := %s;\n", joinMap(obs.Events, coqTev, "; "))
	fmt.Fprintf(&b, "  tr_hlog := %s;\n", joinMap(obs.HLog, func(h HLog) string {
		return fmt.Sprintf("{| hl_key := %s; hl_binding := %d%%nat; hl_active := %s; hl_clock := %s; hl_results := %s; hl_ret := %s |}",
			coqHKey(h.Key), h.Binding, coqNatList(h.Active), coqNList(h.Clock), joinMap(h.Results, coqResult, "; "), coqBool(h.Ret))
	}, ";\n   "))
	fmt.Fprintf(&b, "  tr_crashed := %s; tr_hung := %s; tr_fuel_ok := true |};\n", coqBool(obs.Crashed), coqBool(obs.Hung))
	fmt.Fprintf(&b, " h_extra := %s; h_open_ticks := %s; h_interr := %d%%nat; h_rerun := %d%%N |}", joinMap(obs.Extra, func(ev []string) string {
		return joinMap(ev, coqTev, "; ")
	}, "; "), coqNList(obs.OpenTicks), obs.InternalErrs, obs.Rerun)
	return b.String()
}
