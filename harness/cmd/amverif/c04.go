//go:build p_c04 || p_all

package main

// C04 — one queue, one transition at a time, in order, none lost.
// Forced schedules: every worker goroutine parks at each verifPoint of the
// real queueMutation/processQueue; the scheduler releases exactly one parked
// goroutine per schedule entry, so the implementation runs the very
// interleaving the Coq model (Conc/QueueLock.v exec_sched) is run with.

import (
	"context"
	"encoding/json"
	"fmt"
	"strings"
	"sync"
	"time"

	am "github.com/pancsta/asyncmachine-go/pkg/machine"
)

type C04Input struct {
	Muts     [][]int `json:"muts"`     // per thread: [own state, nested states...]
	Schedule []int   `json:"schedule"` // thread indexes
	// prepend stream: Chk[w] = goroutine w calls CanAdd1 (a tick-less check
	// mutation PREPENDED by PrependMut) instead of Add1. PrependMut has no
	// schedule point of its own, so such a goroutine is started by its first
	// schedule entry and parks at pq:entry with the prepend done (= the PEnq
	// step of a check thread of Conc/QueueLockP.v)
	Chk []bool `json:"chk,omitempty"`
}

type C04Obs struct {
	Results  []uint64 `json:"results"`  // per thread: 0 executed 1 canceled >=2 queued tick, 999999 = did not finish
	Points   []string `json:"points"`   // "w:point" trace
	Executed []int    `json:"executed"` // called state of every transition, in order
	QueueLen int      `json:"queue_len"`
	AllDone  bool     `json:"all_done"`
	WhenOpen []int    `json:"when_queue_open"` // threads whose WhenQueue(tick) is still open at the end
	Forced   int      `json:"forced"`          // schedule entries that released a parked goroutine
	Err      string   `json:"err,omitempty"`
}

type c04Tracer struct {
	*am.TracerNoOp
	mu       sync.Mutex
	executed []int
	names    am.S
}

func (t *c04Tracer) TransitionEnd(tx *am.Transition) {
	t.mu.Lock()
	defer t.mu.Unlock()
	c := tx.CalledStates()
	if len(c) == 1 {
		for i, n := range t.names {
			if n == c[0] {
				t.executed = append(t.executed, i)
			}
		}
	}
}

func c04Exec(in *C04Input) *C04Obs {
	obs := &C04Obs{}
	n := len(in.Muts)
	// states: one per mutation id (own + nested), independent, Multi so that
	// nothing is suppressed as a duplicate
	maxId := 0
	for _, ms := range in.Muts {
		for _, x := range ms {
			if x > maxId {
				maxId = x
			}
		}
	}
	names := am.S{}
	schema := am.Schema{}
	for i := 0; i <= maxId; i++ {
		nm := fmt.Sprintf("M%d", i)
		names = append(names, nm)
		schema[nm] = am.State{Multi: true}
	}
	names = append(names, am.StateException)
	tr := &c04Tracer{TracerNoOp: &am.TracerNoOp{Id: "c04"}, names: names}
	m := am.New(context.Background(), schema, &am.Opts{Id: "c04", Tracers: []am.Tracer{tr},
		HandlerTimeout: 5 * time.Second})
	must(m.VerifyStates(names))
	// handlers issuing the nested mutations
	fin := map[string]am.HandlerFinal{}
	for _, ms := range in.Muts {
		if len(ms) > 1 {
			nested := ms[1:]
			fin[names[ms[0]]+am.SuffixState] = func(e *am.Event) {
				for _, x := range nested {
					m.Add1(names[x], nil)
				}
			}
		}
	}
	if len(fin) > 0 {
		if _, err := m.HandlersBindMaps(nil, fin); err != nil {
			obs.Err = err.Error()
			return obs
		}
	}
	gate := NewGate(n)
	gate.Only = map[string]bool{"q:enq": true, "pq:entry": true, "pq:cas": true, "pq:loop": true,
		"pq:pop": true, "pq:release": true, "pq:released": true}
	m.VerifSetSched(gate.Point)
	defer m.VerifSetSched(nil)

	results := make([]uint64, n)
	for i := range results {
		results[i] = 999999
	}
	done := make([]bool, n)
	parked := make([]bool, n)
	isChk := func(w int) bool { return w < len(in.Chk) && in.Chk[w] }
	launched := make([]bool, n)
	launch := func(w int) {
		launched[w] = true
		if isChk(w) {
			gate.Go(w, func() { results[w] = uint64(m.CanAdd1(names[in.Muts[w][0]], nil)) })
		} else {
			gate.Go(w, func() { results[w] = uint64(m.Add1(names[in.Muts[w][0]], nil)) })
		}
	}
	for w := 0; w < n; w++ {
		if !isChk(w) {
			launch(w)
		}
	}
	// wait until one event arrives from worker w
	waitFor := func(w int) bool {
		for {
			select {
			case ev := <-gate.events:
				obs.Points = append(obs.Points, fmt.Sprintf("%d:%s", ev.worker, ev.point))
				if ev.point == "" {
					done[ev.worker] = true
					parked[ev.worker] = false
				} else {
					parked[ev.worker] = true
				}
				if ev.worker == w {
					return true
				}
			case <-time.After(5 * time.Second):
				obs.Err = fmt.Sprintf("worker %d did not reach a schedule point", w)
				return false
			}
		}
	}
	for w := 0; w < n; w++ {
		if launched[w] && !parked[w] && !done[w] {
			if !waitFor(w) {
				return obs
			}
		}
	}
	for _, w := range in.Schedule {
		if w < n && !launched[w] {
			// a check goroutine: prepend, then park at pq:entry
			launch(w)
			obs.Forced++
			if !waitFor(w) {
				return obs
			}
			continue
		}
		if w >= n || done[w] || !parked[w] {
			continue
		}
		parked[w] = false
		gate.resume[w] <- struct{}{}
		obs.Forced++
		if !waitFor(w) {
			return obs
		}
	}
	// observe before letting anybody continue
	obs.AllDone = true
	for w := 0; w < n; w++ {
		if !done[w] {
			obs.AllDone = false
		}
	}
	obs.QueueLen = int(m.QueueLen())
	obs.Results = append([]uint64{}, results...)
	tr.mu.Lock()
	obs.Executed = append([]int{}, tr.executed...)
	tr.mu.Unlock()
	if obs.AllDone {
		for w := 0; w < n; w++ {
			if results[w] >= 2 && results[w] != 999999 && !isChk(w) {
				select {
				case <-m.WhenQueue(am.Result(results[w])):
				default:
					obs.WhenOpen = append(obs.WhenOpen, w)
				}
			}
		}
	}
	// let the remaining goroutines run to completion, ungated
	m.VerifSetSched(nil)
	for w := 0; w < n; w++ {
		if parked[w] {
			gate.resume[w] <- struct{}{}
		}
	}
	return obs
}

func c04Coq(in *C04Input, obs *C04Obs) string {
	var b strings.Builder
	muts := make([]string, len(in.Muts))
	for i, ms := range in.Muts {
		muts[i] = fmt.Sprintf("(%d, %s)", ms[0], coqNatList(ms[1:]))
	}
	res := make([]string, len(obs.Results))
	for i, r := range obs.Results {
		switch {
		case r == 999999:
			res[i] = "RNone"
		case r == 0:
			res[i] = "RExecuted"
		case r == 1:
			res[i] = "RCanceled"
		default:
			res[i] = fmt.Sprintf("(RQueued %d)", r)
		}
	}
	fmt.Fprintf(&b, "{| k_muts := [%s]; k_sched := %s; o_results := [%s]; o_executed := %s; o_qlen := %d; o_all_done := %s; o_when_open := %s |}",
		strings.Join(muts, "; "), coqNatList(in.Schedule), strings.Join(res, "; "),
		coqNatList(obs.Executed), obs.QueueLen, coqBool(obs.AllDone), coqNatList(obs.WhenOpen))
	return b.String()
}

// c04CoqP: a case of the prepend stream for Run/EvalC04p.v
func c04CoqP(in *C04Input, obs *C04Obs) string {
	muts := make([]string, len(in.Muts))
	for i, ms := range in.Muts {
		muts[i] = fmt.Sprintf("(%d, %s, %s)", ms[0], coqNatList(ms[1:]), coqBool(i < len(in.Chk) && in.Chk[i]))
	}
	res := make([]string, len(obs.Results))
	for i, r := range obs.Results {
		switch {
		case r == 999999:
			res[i] = "QueueLockP.RNone"
		case r == 0:
			res[i] = "QueueLockP.RExecuted"
		case r == 1:
			res[i] = "QueueLockP.RCanceled"
		case i < len(in.Chk) && in.Chk[i]:
			res[i] = "(QueueLockP.RQueued 0)" // the bare constant Queued: no tick
		default:
			res[i] = fmt.Sprintf("(QueueLockP.RQueued %d)", r)
		}
	}
	return fmt.Sprintf("{| EvalC04p.k_muts := [%s]; EvalC04p.k_sched := %s; EvalC04p.o_results := [%s]; EvalC04p.o_executed := %s; EvalC04p.o_qlen := %d; EvalC04p.o_all_done := %s |}",
		strings.Join(muts, "; "), coqNatList(in.Schedule), strings.Join(res, "; "),
		coqNatList(obs.Executed), obs.QueueLen, coqBool(obs.AllDone))
}

func init() { register("C04", runC04) }

func runC04(c *Ctx) error {
	out := NewOut(c.OutDir, "C04",
		"From Coq Require Import List NArith.\nFrom AMV Require Import Conc.QueueLock.\nFrom AMV Require Conc.QueueLockP Run.EvalC04p.\nFrom AMV Require Import Base.ListSet Model.Schema Model.Resolver Model.Machine Run.EvalHist Run.EvalC04.\nImport ListNotations.",
		"c04any", "EvalC04.check_all", 200)
	forcedTotal := 0
	emit := func(kind string, in *C04Input) {
		obs := c04Exec(in)
		if obs.Err != "" {
			out.Count("harness_error", obs.Err)
		}
		forcedTotal += obs.Forced
		out.Count("threads", fmt.Sprint(len(in.Muts)))
		out.Count("all_done", fmt.Sprint(obs.AllDone))
		out.Count("stranded", fmt.Sprint(obs.AllDone && obs.QueueLen > 0))
		nq := 0
		for _, r := range obs.Results {
			if r >= 2 && r != 999999 {
				nq++
			}
		}
		out.Count("queued_results", fmt.Sprint(nq))
		if len(in.Chk) > 0 {
			out.Count("check_goroutines", fmt.Sprint(len(in.Chk)))
			out.Add(kind, in, obs, "C04P ("+c04CoqP(in, obs)+")", len(in.Schedule) == 0, "")
			return
		}
		out.Add(kind, in, obs, "C04G ("+c04Coq(in, obs)+")", len(in.Schedule) == 0, "")
	}
	cases, replayOnly := c.loadCases()
	for _, cc := range cases {
		if strings.Contains(string(cc.Input), "\"states\"") {
			// a case of the sequential stream
			var hin HistInput
			must(json.Unmarshal(cc.Input, &hin))
			ob := runHistory(&hin)
			if ob.ParseErr == "" && ob.Err == "" {
				out.Add("corpus:"+cc.Name, &hin, ob, "C04H ("+coqHCase(&hin, ob)+")", false, "")
			}
			continue
		}
		var in C04Input
		must(json.Unmarshal(cc.Input, &in))
		emit("corpus:"+cc.Name, &in)
	}
	if !replayOnly {
		r := c.Rng
		n := c.N(400, 20000)
		for i := 0; i < n; i++ {
			nt := r.Range(2, 4)
			in := &C04Input{}
			next := nt
			for w := 0; w < nt; w++ {
				ms := []int{w}
				if r.Chance(25) {
					k := r.Range(1, 2)
					for j := 0; j < k; j++ {
						ms = append(ms, next)
						next++
					}
				}
				in.Muts = append(in.Muts, ms)
			}
			// schedules: random, biased to long runs of one thread, usually complete
			steps := r.Range(4, 14*nt)
			cur := r.Intn(nt)
			for s := 0; s < steps; s++ {
				if r.Chance(35) {
					cur = r.Intn(nt)
				}
				in.Schedule = append(in.Schedule, cur)
			}
			if r.Chance(80) {
				// complete the run: round-robin tail long enough for everybody to finish
				for s := 0; s < 30*nt; s++ {
					in.Schedule = append(in.Schedule, s%nt)
				}
			}
			emit("random", in)
		}
	}
	if !replayOnly {
		// prepend stream: 1-2 of 2-4 goroutines call CanAdd1 (tick-less, prepended).
		// Half of the schedules are aimed at the window between the drain loop's
		// last length check and the release of queueProcessing: a drainer runs
		// k steps on its own, then a check goroutine prepends and tries the CAS.
		r := c.Rng
		n := c.N(200, 8000)
		for i := 0; i < n; i++ {
			nt := r.Range(2, 4)
			in := &C04Input{Chk: make([]bool, nt)}
			next := nt
			nchk := r.Range(1, 2)
			if nchk >= nt {
				nchk = nt - 1
			}
			for _, w := range r.Perm(nt)[:nchk] {
				in.Chk[w] = true
			}
			for w := 0; w < nt; w++ {
				ms := []int{w}
				if !in.Chk[w] && r.Chance(25) {
					ms = append(ms, next)
					next++
				}
				in.Muts = append(in.Muts, ms)
			}
			if r.Chance(50) {
				var drainer, chk int
				for w := 0; w < nt; w++ {
					if in.Chk[w] {
						chk = w
					}
				}
				for {
					drainer = r.Intn(nt)
					if !in.Chk[drainer] {
						break
					}
				}
				for s := r.Range(3, 9); s > 0; s-- {
					in.Schedule = append(in.Schedule, drainer)
				}
				for s := r.Range(1, 4); s > 0; s-- {
					in.Schedule = append(in.Schedule, chk)
				}
				for s := r.Range(0, 6); s > 0; s-- {
					in.Schedule = append(in.Schedule, drainer)
				}
			} else {
				steps := r.Range(4, 14*nt)
				cur := r.Intn(nt)
				for s := 0; s < steps; s++ {
					if r.Chance(35) {
						cur = r.Intn(nt)
					}
					in.Schedule = append(in.Schedule, cur)
				}
			}
			if r.Chance(85) {
				for s := 0; s < 30*nt; s++ {
					in.Schedule = append(in.Schedule, s%nt)
				}
			}
			emit("prepend", in)
		}
	}
	if !replayOnly {
		// sequential stream: handlers issuing mutations, checks (prepended) and
		// AddErr while transitions run; every returned queue tick must resolve
		o := GenOpt{MinStates: 2, MaxStates: 6, AutoPct: 20, MultiPct: 30, MinCalls: 2, MaxCalls: 12,
			Handlers: true, VetoPct: 15, NestedPct: 60, Checks: true, AddErr: true}
		n := c.N(200, 8000)
		for i := 0; i < n; i++ {
			in := genHistory(c.Rng, o)
			ob := runHistory(in)
			if ob.ParseErr != "" || ob.Err != "" {
				continue
			}
			nested := 0
			for _, h := range ob.HLog {
				nested += len(h.Results)
			}
			out.Count("nested_mutations", bucket(nested))
			out.Add("sequential-nested", in, ob, "C04H ("+coqHCase(in, ob)+")", nested == 0, "")
		}
	}
	if !replayOnly && forcedTotal == 0 {
		return fmt.Errorf("no schedule step could be forced: the schedule points of queueMutation/processQueue are gone")
	}
	out.Close("2-4 goroutines each calling Add1 on its own Multi state (25% with 1-2 nested mutations issued by the "+
		"state's final handler); every goroutine parks at each verifPoint of queueMutation/processQueue and the scheduler "+
		"releases one per schedule entry (random schedules with runs, 80% completed by a round-robin tail); observables: "+
		"per-goroutine Result, order of executed transitions, final QueueLen, open WhenQueue channels; distinct by "+
		"(input, observation); non-trivial = non-empty schedule; plus a prepend stream: 1-2 of the goroutines call "+
		"CanAdd1 (tick-less check mutation prepended by PrependMut; started by their first schedule entry, parked at "+
		"pq:entry), half of the schedules aimed at the window between the drain loop's last length check and the release "+
		"(model Conc/QueueLockP.v, theorem P.no_strand_p)",
		map[string]any{"forced_schedule_steps": forcedTotal})
	return nil
}
