//go:build p_c01 || p_all

package main

import (
	"fmt"
	"strings"
)

func init() {
	register("C01", func(c *Ctx) error {
		base := GenOpt{MinStates: 2, MaxStates: 8, AutoPct: 25, MultiPct: 25, MinCalls: 1,
			MaxCalls: 30, Health: true, Checks: true, AddErr: true}
		noH := base
		withH := base
		withH.Handlers, withH.VetoPct, withH.NestedPct = true, 40, 20
		gens := []func(r *Rng) (string, *HistInput){
			func(r *Rng) (string, *HistInput) { return "no-handlers", genHistory(r, noH) },
			func(r *Rng) (string, *HistInput) { return "handlers", genHistory(r, withH) },
			func(r *Rng) (string, *HistInput) { return "handlers", genHistory(r, withH) },
			c01Faulty(withH),
		}
		return runHistCases(c, "C01", "EvalC01", gens, 600, 20000,
			"random schemas (2-8 user states + Exception, relation density swept, Auto/Multi 25%), "+
				"histories of 1-30 Add/Remove/Set/Toggle/AddErr/CanAdd/CanRemove calls, 0-3 handler bindings with "+
				"scripted vetoes (0-40%) and nested mutations; distinct by (input, observation); "+
				"non-trivial = at least one transition executed; every 4th case with 1-2 handler invocations (a final handler " +
				"in two thirds of them) that panic and are recovered - such histories are judged by the every-history clauses " +
				"(parity in every view, ticks never decrease; theorem c01_judge_run); plus a readers stream: 4 goroutines sampling "+
				"Machine.StringAll() while the history runs, with the tx:applied schedule point yielding", nil,
			histOpts{caseType: "c01case", wrap: "C01H", extra: func(out *Out) { c01Readers(c, out, withH) }})
	})
}

// c01Readers: concurrent readers sampling StringAll while a history runs.
func c01Readers(c *Ctx, out *Out, o GenOpt) {
	n := c.N(40, 1500)
	for i := 0; i < n; i++ {
		in := genHistory(c.Rng, o)
		samples := runWithReaders(in, 4)
		var b strings.Builder
		b.WriteString("C01R {| r_readers := [")
		total := 0
		for ri, rs := range samples {
			if ri > 0 {
				b.WriteString("; ")
			}
			b.WriteString("[")
			for si, s := range rs {
				if si > 0 {
					b.WriteString("; ")
				}
				b.WriteString("[")
				for k, p := range s {
					if k > 0 {
						b.WriteString("; ")
					}
					fmt.Fprintf(&b, "(%d%%N, %s)", p.Tick, coqBool(p.Active))
				}
				b.WriteString("]")
				total++
			}
			b.WriteString("]")
		}
		b.WriteString("] |}")
		out.Count("reader_samples", bucket(total))
		out.Add("readers", in, map[string]any{"samples": total}, b.String(), total == 0, "")
	}
}

// c01Faulty: histories in which 1-2 handler invocations panic and are
// recovered by the machine; two thirds of them aim at a final handler
// (FooState / FooEnd / AnyState) that the fault-free dry run reached, where
// the recovery path re-ticks the states whose final handlers did not run.
func c01Faulty(o GenOpt) func(r *Rng) (string, *HistInput) {
	return func(r *Rng) (string, *HistInput) {
		f := o
		f.VetoPct, f.MinStates = 5, 3
		for try := 0; ; try++ {
			in := genHistory(r, f)
			if len(in.Bindings) == 0 && try < 50 {
				continue
			}
			dry := runHistory(in)
			if (dry.ParseErr != "" || dry.Crashed || dry.Hung) && try < 50 {
				continue
			}
			n := len(dry.HLog)
			for len(in.Actions) < n+8 {
				in.Actions = append(in.Actions, HAction{Ret: true})
			}
			var finals []int
			for j, e := range dry.HLog {
				if hkeyFinal(e.Key) {
					finals = append(finals, j)
				}
			}
			for k := 0; k < r.Range(1, 2); k++ {
				if len(finals) > 0 && r.Chance(66) {
					in.Actions[finals[r.Intn(len(finals))]].Fault = "panic"
				} else {
					in.Actions[r.Intn(n+4)].Fault = "panic"
				}
			}
			return "faults", in
		}
	}
}
