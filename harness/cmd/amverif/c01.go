//go:build p_c01 || p_all

package main

func init() {
	register("C01", func(c *Ctx) error {
		base := GenOpt{MinStates: 2, MaxStates: 8, AutoPct: 25, MultiPct: 25, MinCalls: 1,
			MaxCalls: 30, Health: true, Checks: true, AddErr: true}
		noH := base
		withH := base
		withH.Handlers, withH.VetoPct, withH.NestedPct = true, 40, 20
		gens := []func(r *Rng) (string, *HistInput){
			func(r *Rng) (string, *HistInput) { return "no-handlers", genHistory(r, noH) },
			func(r *Rng) (string, *HistInput) { return "handlers", genHistory(r, withH) },
			func(r *Rng) (string, *HistInput) { return "handlers", genHistory(r, withH) },
		}
		return runHistCases(c, "C01", "EvalC01", gens, 600, 20000,
			"random schemas (2-8 user states + Exception, relation density swept, Auto/Multi 25%), "+
				"histories of 1-30 Add/Remove/Set/Toggle/AddErr/CanAdd/CanRemove calls, 0-3 handler bindings with "+
				"scripted vetoes (0-40%) and nested mutations; distinct by (input, observation); "+
				"non-trivial = at least one transition executed", nil)
	})
}
