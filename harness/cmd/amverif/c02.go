//go:build p_c02 || p_all

package main

func init() {
	register("C02", func(c *Ctx) error {
		base := GenOpt{MinStates: 2, MaxStates: 8, AutoPct: 15, MultiPct: 25, MinCalls: 3,
			MaxCalls: 25, NoAfter: false}
		mk := func(shape string, rel int) func(r *Rng) (string, *HistInput) {
			o := base
			o.Shape = shape
			o.RelPct = rel
			name := shape
			if name == "" {
				name = "random"
			}
			return func(r *Rng) (string, *HistInput) { return name, genHistory(r, o) }
		}
		gens := []func(r *Rng) (string, *HistInput){
			mk("", 12), mk("addchain", 8), mk("mutualremove", 8), mk("requirechain", 10),
			mk("", 25), mk("addchain", 15),
		}
		return runHistCases(c, "C02", "EvalC02", gens, 500, 20000,
			"handler-free machines: random relation graphs (cycles allowed) plus structured streams "+
				"(Add chains depth 2-5, mutually Removing groups, Require chains), histories of 3-25 "+
				"Add/Remove/Set/Toggle calls; every observed accepted transition (S, mutation, S') is compared "+
				"with the model and fed to post_ok; distinct by (input, observation); non-trivial = at least "+
				"one transition", nil)
	})
}
