//go:build p_c02 || p_all

package main

func init() {
	register("C02", func(c *Ctx) error {
		base := GenOpt{MinStates: 2, MaxStates: 8, AutoPct: 15, MultiPct: 25, MinCalls: 3,
			MaxCalls: 25, NoAfter: false}
		mk := func(shape string, rel int) func(r *Rng) (string, *HistInput) {
			o := base
			o.Shape = shape
			o.RelPct = rel
			name := shape
			if name == "" {
				name = "random"
			}
			return func(r *Rng) (string, *HistInput) { return name, genHistory(r, o) }
		}
		gens := []func(r *Rng) (string, *HistInput){
			mk("", 12), mk("addchain", 8), mk("mutualremove", 8), mk("requirechain", 10),
			mk("", 25), mk("addchain", 15),
		}
		// exhaustive small scope: every schema of 2 user states (each: Require /
		// Add / Remove towards the other state, Auto, Multi; 24 variants per state)
		// x every ordered pair of Add/Remove calls over the non-empty subsets
		variants := [][5]bool{}
		for req := 0; req < 2; req++ {
			for add := 0; add < 2; add++ {
				for rem := 0; rem < 2; rem++ {
					if req == 1 && rem == 1 {
						continue // Parse error
					}
					for am := 0; am < 4; am++ {
						variants = append(variants, [5]bool{req == 1, add == 1, rem == 1, am&1 == 1, am&2 == 2})
					}
				}
			}
		}
		ops := []HCall{}
		for _, k := range []string{"add", "remove"} {
			for _, st := range [][]int{{0}, {1}, {0, 1}} {
				ops = append(ops, HCall{Kind: k, States: st})
			}
		}
		total := len(variants) * len(variants) * len(ops) * len(ops)
		stride := 1
		if !c.Thorough() {
			stride = total/300 + 1
		}
		exhaustive := func(out *Out, emit func(kind string, in *HistInput)) {
			for idx := 0; idx < total; idx += stride {
				x := idx
				o2 := x % len(ops)
				x /= len(ops)
				o1 := x % len(ops)
				x /= len(ops)
				v1 := variants[x%len(variants)]
				v0 := variants[x/len(variants)]
				mk := func(name string, other int, v [5]bool) HState {
					s := HState{Name: name, Auto: v[3], Multi: v[4]}
					if v[0] {
						s.Require = []int{other}
					}
					if v[1] {
						s.Add = []int{other}
					}
					if v[2] {
						s.Remove = []int{other}
					}
					return s
				}
				in := &HistInput{States: []HState{mk("Sa", 1, v0), mk("Sb", 0, v1),
					{Name: "Exception", Multi: true}}, Calls: []HCall{ops[o1], ops[o2]}}
				emit("exhaustive-2-states", in)
			}
		}
		_ = exhaustive
		return runHistCases(c, "C02", "EvalC02", gens, 500, 20000,
			"handler-free machines: random relation graphs (cycles allowed) plus structured streams "+
				"(Add chains depth 2-5, mutually Removing groups, Require chains), histories of 3-25 "+
				"Add/Remove/Set/Toggle calls; every observed accepted transition (S, mutation, S') is compared "+
				"with the model and fed to post_ok; distinct by (input, observation); non-trivial = at least "+
				"one transition; plus the exhaustive small scope (2 user states x 24 variants each x all ordered pairs of "+
				"Add/Remove calls over non-empty subsets: 20 736 histories in the thorough tier, every 70th in the quick tier)", nil,
			histOpts{caseType: "hcase", extraEmit: exhaustive})
	})
}
