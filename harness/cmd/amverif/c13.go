//go:build p_c13 || p_all

package main

// C13 — Dispose releases every waiter and is safe from anywhere.
//
// Two classes of cases against the real machine:
//   gated (mode 0): DisposeForce on a gated worker and API calls on other
//     gated workers; every worker parks at the verifPoints of doDispose /
//     When / WhenQuery / queueMutation / processQueue / emitEvents and the
//     scheduler releases one per schedule entry, i.e. the implementation runs
//     the interleaving Conc/Dispose.v exec_sched is run with;
//   whole-run (modes 1..7): Dispose / twice / concurrently / parent-context
//     cancel / from inside a handler / amhelp.Dispose over DisposedHandlers /
//     DisposeForce, with outstanding waiters, OnDispose handlers and optional
//     background mutators; observed after WhenDisposed.
// After disposal a sweep of API calls runs with a 2 s bound each.

import (
	"context"
	"encoding/json"
	"errors"
	"fmt"
	"os"
	"runtime"
	"runtime/debug"
	"strconv"
	"strings"
	"sync"
	"sync/atomic"
	"time"

	amhelp "github.com/pancsta/asyncmachine-go/pkg/helpers"
	am "github.com/pancsta/asyncmachine-go/pkg/machine"
	ssam "github.com/pancsta/asyncmachine-go/pkg/states"
)

// thread / call kinds (shared with Conc/Dispose.v)
const (
	c13Dispose       = 0 // DisposeForce (thread)
	c13When          = 1 // When1(A) - A inactive
	c13WhenQuery     = 2
	c13WhenNot       = 3 // WhenNot1(B) - B active
	c13WhenTime      = 4 // WhenTime1(A, 1000)
	c13WhenArgs      = 5 // WhenArgs(A, {x:1})
	c13WhenQueue     = 6 // WhenQueue(100000)
	c13WhenQueueEnds = 7
	c13StateCtx      = 8 // NewStateCtx(B)
	c13Add           = 9 // Add1(C)
	c13Is            = 10
	c13Not           = 11
	c13Any           = 12
	c13Has           = 13
	c13IsErr         = 14
	c13Tick          = 15
	c13Time          = 16
	c13Clock         = 17
	c13Active        = 18
	c13Eval          = 19
	c13Remove        = 20
	c13Set           = 21
	c13Toggle        = 22
	c13CanAdd        = 23
	c13CanRemove     = 24
	c13AddErr        = 25
	c13WhenErr       = 26
	c13WhenTicks     = 27
	c13DisposeAgain  = 28
	c13ForceAgain    = 29
	c13Index         = 30
	c13AddP          = 32 // Add1(C), also parked at pq:popped (needs that point in /repo)
	c13EvalP         = 33 // Eval, also parked at pq:popped
)

// result codes (shared with Conc/Dispose.v)
const (
	c13RNone     = 0 // did not return within the bound
	c13RPanic    = 1
	c13RClosed   = 2 // returned a closed channel / cancelled context
	c13ROpen     = 3 // returned an open channel / live context
	c13RCanceled = 4
	c13RExecuted = 5
	c13RQueued   = 6
	c13RTrue     = 7
	c13RFalse    = 8
	c13RZero     = 9
	c13RNonzero  = 10
	c13RVoid     = 11
)

type C13Input struct {
	Mode     int   `json:"mode"`
	Handlers bool  `json:"handlers"`
	Pre      []int `json:"pre"`
	NDisp    int   `json:"ndisp"`
	Threads  []int `json:"threads"`
	Schedule []int `json:"schedule"`
	Post     []int `json:"post"`
	Load     int   `json:"load"`
	Serial   bool  `json:"serial,omitempty"` // measured alone: goroutine delta
	Detach   bool  `json:"detach,omitempty"` // the state handlers are bound (the handler loop starts), then all detached before the disposal
	// Start: the schema has Start (so Dispose takes its grace step), Start is
	// active and, with Handlers, StartEnd is bound (the grace Remove1(Start)
	// then needs the handler loop)
	Start bool `json:"start,omitempty"`
	// Mixin (whole-run modes other than 6): the machine carries the Disposed
	// mixin with DisposedHandlers bound and its dispose handlers are registered
	// through amhelp.DisposeBind (state-based disposal), whatever the trigger
	Mixin bool `json:"mixin,omitempty"`
	// Prologue: before the outstanding waiters are registered, a multi-state
	// WhenTime({D,E},{1,1}) is completed in two separate transitions while a
	// single-state WhenTime1(D,1000) is pending on the shared state D; that
	// second waiter stays outstanding and is reported as one more waiter of
	// kind WhenTime at the end of the Pre list (D, E are extra states nothing
	// else uses)
	Prologue bool `json:"prologue,omitempty"`
}

type C13Obs struct {
	Disposed   bool     `json:"disposed"`
	PreClosed  []bool   `json:"pre_closed"`
	ThRes      []int    `json:"th_res"`
	ThClosed   []int    `json:"th_closed"` // 0 n/a 1 closed at the end 2 open at the end
	HCounts    []int    `json:"hcounts"`
	PostRes    []int    `json:"post_res"`
	PostClosed []int    `json:"post_closed"`
	LoadBad    []int    `json:"load_bad"` // kinds that panicked in a background goroutine
	LoadStuck  int      `json:"load_stuck"`
	TrigBad    int      `json:"trig_bad"` // 0 ok 1 the trigger panicked 2 the trigger blocked
	Gor        int      `json:"gor"`      // goroutine delta (serial cases), 0 otherwise
	Points     []string `json:"points,omitempty"`
	Forced     int      `json:"forced"`
	Panics     []string `json:"panics,omitempty"`
	Err        string   `json:"err,omitempty"`
}

func c13Closed(ch <-chan struct{}) bool {
	if ch == nil {
		return false
	}
	select {
	case <-ch:
		return true
	default:
		return false
	}
}

type c13Mach struct {
	m      *am.Machine
	cancel context.CancelFunc
	names  am.S
	panics *[]string
	pmu    *sync.Mutex
}

func (x *c13Mach) notePanic(kind int, r any) {
	x.pmu.Lock()
	defer x.pmu.Unlock()
	if os.Getenv("C13_STACK") != "" {
		fmt.Fprintf(os.Stderr, "PANIC k%d: %v\n%s\n", kind, r, debug.Stack())
	}
	s := fmt.Sprint(r)
	if len(s) > 90 {
		s = s[:90]
	}
	*x.panics = append(*x.panics, fmt.Sprintf("k%d: %s", kind, s))
}

func c13Res(r am.Result) int {
	switch r {
	case am.Executed:
		return c13RExecuted
	case am.Canceled:
		return c13RCanceled
	default:
		return c13RQueued
	}
}

func c13B(b bool) int {
	if b {
		return c13RTrue
	}
	return c13RFalse
}

func c13Z(n int) int {
	if n == 0 {
		return c13RZero
	}
	return c13RNonzero
}

// call executes one API call of the given kind; it returns the result code
// (judged at return time) and the waiter (channel) it handed out, if any.
func (x *c13Mach) call(kind int) (res int, ch <-chan struct{}) {
	m := x.m
	defer func() {
		if r := recover(); r != nil {
			x.notePanic(kind, r)
			res, ch = c13RPanic, nil
		}
	}()
	chanRes := func(c <-chan struct{}) (int, <-chan struct{}) {
		if c == nil {
			return c13ROpen, nil // a nil channel never closes
		}
		if c13Closed(c) {
			return c13RClosed, c
		}
		return c13ROpen, c
	}
	switch kind {
	case c13Dispose, c13ForceAgain:
		m.DisposeForce()
		return c13RVoid, nil
	case c13DisposeAgain:
		m.Dispose()
		return c13RVoid, nil
	case c13When:
		return chanRes(m.When1("A", nil))
	case c13WhenErr:
		return chanRes(m.WhenErr(nil))
	case c13WhenQuery:
		return chanRes(m.WhenQuery(func(c am.Clock) bool { return false }, nil))
	case c13WhenNot:
		return chanRes(m.WhenNot1("B", nil))
	case c13WhenTime:
		return chanRes(m.WhenTime1("A", 1000, nil))
	case c13WhenTicks:
		return chanRes(m.WhenTicks("B", 1, nil))
	case c13WhenArgs:
		return chanRes(m.WhenArgs("A", am.A{"x": 1}, nil))
	case c13WhenQueue:
		return chanRes(m.WhenQueue(am.Result(100000)))
	case c13WhenQueueEnds:
		return chanRes(m.WhenQueueEnds())
	case c13StateCtx:
		ctx := m.NewStateCtx("B")
		return chanRes(ctx.Done())
	case c13Add, c13AddP:
		return c13Res(m.Add1("C", nil)), nil
	case c13Remove:
		return c13Res(m.Remove1("B", nil)), nil
	case c13Set:
		return c13Res(m.Set(am.S{"A"}, nil)), nil
	case c13Toggle:
		return c13Res(m.Toggle1("C", nil)), nil
	case c13CanAdd:
		return c13Res(m.CanAdd1("C", nil)), nil
	case c13CanRemove:
		return c13Res(m.CanRemove1("B", nil)), nil
	case c13AddErr:
		return c13Res(m.AddErr(errors.New("c13"), nil)), nil
	case c13Is:
		return c13B(m.Is1("B")), nil
	case c13Not:
		return c13B(m.Not1("A")), nil
	case c13Any:
		return c13B(m.Any1("B")), nil
	case c13Has:
		return c13B(m.Has1("B")), nil
	case c13IsErr:
		return c13B(m.IsErr()), nil
	case c13Eval, c13EvalP:
		return c13B(m.Eval("c13", func() {}, nil)), nil
	case c13Tick:
		return c13Z(int(m.Tick("B"))), nil
	case c13Time:
		return c13Z(len(m.Time(nil))), nil
	case c13Clock:
		return c13Z(len(m.Clock(nil))), nil
	case c13Active:
		return c13Z(len(m.ActiveStates(am.S{"B"}))), nil
	case c13Index:
		return c13Z(m.Index1("B") + 1), nil
	}
	return c13RNone, nil
}

// callBounded runs a call on its own goroutine with a 2 s bound.
func (x *c13Mach) callBounded(kind int) (int, <-chan struct{}) {
	type rr struct {
		res int
		ch  <-chan struct{}
	}
	c := make(chan rr, 1)
	go func() {
		r, ch := x.call(kind)
		c <- rr{r, ch}
	}()
	select {
	case r := <-c:
		return r.res, r.ch
	case <-time.After(2 * time.Second):
		return c13RNone, nil
	}
}

type c13StateHandlers struct {
	*ssam.DisposedHandlers
}

func c13New(in *C13Input, obs *C13Obs, id string) (*c13Mach, []*atomic.Int32) {
	ctx, cancel := context.WithCancel(context.Background())
	schema := am.Schema{"A": {}, "B": {}, "C": {Multi: true}}
	names := am.S{"A", "B", "C"}
	if in.Prologue {
		schema["D"], schema["E"] = am.State{}, am.State{Multi: true}
		names = append(names, "D", "E")
	}
	mixin := in.Mode == 6 || in.Mixin
	if mixin {
		schema = am.SchemaMerge(schema, ssam.DisposedSchema, am.Schema{"Start": {}})
		names = append(names, "Start", ssam.DisposedStates.RegisterDisposal,
			ssam.DisposedStates.Disposing, ssam.DisposedStates.Disposed)
	}
	if in.Start && !mixin {
		schema["Start"] = am.State{}
		names = append(names, "Start")
	}
	names = append(names, am.StateException)
	m := am.New(ctx, schema, &am.Opts{Id: id, HandlerTimeout: 5 * time.Second})
	m.DisposeTimeout = 400 * time.Millisecond
	m.EvalTimeout = 300 * time.Millisecond
	must(m.VerifyStates(names))
	x := &c13Mach{m: m, cancel: cancel, names: names, panics: &obs.Panics, pmu: &sync.Mutex{}}
	if mixin {
		_, err := m.HandlersBind(&c13StateHandlers{&ssam.DisposedHandlers{}})
		must(err)
	}
	if in.Handlers || in.Mode == 5 {
		fin := map[string]am.HandlerFinal{
			"AState": func(e *am.Event) {},
		}
		if in.Mode == 5 {
			fin["CState"] = func(e *am.Event) { m.Dispose() }
		}
		if in.Start {
			fin["StartEnd"] = func(e *am.Event) {}
		}
		id, err := m.HandlersBindMaps(nil, fin)
		must(err)
		if in.Detach {
			must(m.HandlersDetach(id))
		}
	}
	m.Add1("B", nil)
	if in.Start {
		m.Add1("Start", nil)
	}
	counts := make([]*atomic.Int32, in.NDisp)
	for i := range counts {
		c := &atomic.Int32{}
		counts[i] = c
		var h am.HandlerDispose = func(id string, ctx context.Context) { c.Add(1) }
		if mixin {
			amhelp.DisposeBind(m, h)
		} else {
			m.OnDispose(h)
		}
	}
	return x, counts
}

func c13Exec(in *C13Input) (obs *C13Obs) {
	obs = &C13Obs{}
	defer func() {
		if r := recover(); r != nil {
			obs.Err = fmt.Sprint("harness panic: ", r)
		}
	}()
	gorBefore := 0
	if in.Serial {
		time.Sleep(150 * time.Millisecond)
		gorBefore = runtime.NumGoroutine()
	}
	x, counts := c13New(in, obs, "c13")
	m := x.m
	// outstanding waiters
	pre := make([]<-chan struct{}, len(in.Pre))
	if in.Prologue {
		multi := m.WhenTime(am.S{"D", "E"}, am.Time{1, 1}, nil)
		victim := m.WhenTime1("D", 1000, nil)
		m.Add1("D", nil)
		m.Add1("E", nil)
		if !c13Closed(multi) {
			obs.Err = "prologue: the multi-state WhenTime did not complete"
		}
		// reported as one more outstanding WhenTime waiter (see c13Coq)
		pre = append(pre, victim)
	}
	for i, k := range in.Pre {
		_, pre[i] = x.call(k)
	}
	n := len(in.Threads)
	thCh := make([]<-chan struct{}, n)
	obs.ThRes = make([]int, n)
	hasDisposer := in.Mode != 0

	if in.Mode == 0 {
		gate := NewGate(n)
		m.VerifSetSched(func(point string) {
			if point == "pq:popped" {
				// only the goroutines of the kinds that ask for it park here
				gate.mu.Lock()
				w, ok := gate.workers[goid()]
				gate.mu.Unlock()
				if !ok || (in.Threads[w] != c13AddP && in.Threads[w] != c13EvalP) {
					return
				}
			}
			gate.Point(point)
		})
		done := make([]bool, n)
		parked := make([]bool, n)
		stuck := make([]bool, n)
		for w := 0; w < n; w++ {
			w := w
			if in.Threads[w] == c13Dispose {
				hasDisposer = true
			}
			gate.Go(w, func() {
				gate.Point("start")
				obs.ThRes[w], thCh[w] = x.call(in.Threads[w])
			})
		}
		waitFor := func(w int) bool {
			for {
				select {
				case ev := <-gate.events:
					obs.Points = append(obs.Points, fmt.Sprintf("%d:%s", ev.worker, ev.point))
					if ev.point == "" {
						done[ev.worker] = true
						parked[ev.worker] = false
					} else {
						parked[ev.worker] = true
					}
					if ev.worker == w {
						return true
					}
				case <-time.After(3 * time.Second):
					stuck[w] = true
					return false
				}
			}
		}
		for w := 0; w < n; w++ {
			if !parked[w] && !done[w] {
				waitFor(w)
			}
		}
		for _, w := range in.Schedule {
			if w >= n || done[w] || !parked[w] || stuck[w] {
				continue
			}
			parked[w] = false
			gate.resume[w] <- struct{}{}
			obs.Forced++
			waitFor(w)
		}
		// whoever is left runs ungated
		m.VerifSetSched(nil)
		for w := 0; w < n; w++ {
			if parked[w] {
				parked[w] = false
				select {
				case gate.resume[w] <- struct{}{}:
				case <-time.After(time.Second):
				}
			}
		}
		deadline := time.After(3 * time.Second)
		for w := 0; w < n; w++ {
			for !done[w] {
				select {
				case ev := <-gate.events:
					if ev.point == "" {
						done[ev.worker] = true
					}
				case <-deadline:
					done[w] = true
					obs.ThRes[w] = c13RNone
				}
			}
		}
	} else {
		// background mutators
		stop := make(chan struct{})
		var lwg sync.WaitGroup
		var lmu sync.Mutex
		for g := 0; g < in.Load; g++ {
			g := g
			lwg.Add(1)
			go func() {
				defer lwg.Done()
				ops := []int{c13Add, c13When, c13Is, c13WhenTime, c13Toggle, c13WhenArgs, c13StateCtx}
				for i := g; ; i++ {
					select {
					case <-stop:
						return
					default:
					}
					k := ops[i%len(ops)]
					r, _ := x.call(k)
					if r == c13RPanic {
						lmu.Lock()
						obs.LoadBad = append(obs.LoadBad, k)
						lmu.Unlock()
					}
					if i%16 == 0 {
						time.Sleep(time.Millisecond)
					}
				}
			}()
		}
		if in.Load > 0 {
			time.Sleep(5 * time.Millisecond)
		}
		// trigger
		trig := make(chan int, 1)
		go func() {
			r := 0
			defer func() {
				if rec := recover(); rec != nil {
					x.notePanic(100+in.Mode, rec)
					r = 1
				}
				trig <- r
			}()
			switch in.Mode {
			case 1:
				m.Dispose()
			case 2:
				m.Dispose()
				select {
				case <-m.WhenDisposed():
				case <-time.After(3 * time.Second):
				}
				m.Dispose()
			case 3:
				var wg sync.WaitGroup
				for i := 0; i < 2; i++ {
					wg.Add(1)
					go func() {
						defer wg.Done()
						defer func() {
							if rec := recover(); rec != nil {
								x.notePanic(100+in.Mode, rec)
								r = 1
							}
						}()
						m.Dispose()
					}()
				}
				wg.Wait()
			case 4:
				x.cancel()
			case 5:
				m.Add1("C", nil)
			case 6:
				amhelp.Dispose(m)
			case 7:
				m.DisposeForce()
			}
		}()
		select {
		case r := <-trig:
			obs.TrigBad = r
		case <-time.After(4 * time.Second):
			obs.TrigBad = 2
		}
		select {
		case <-m.WhenDisposed():
		case <-time.After(3 * time.Second):
		}
		close(stop)
		lc := make(chan struct{})
		go func() { lwg.Wait(); close(lc) }()
		select {
		case <-lc:
		case <-time.After(3 * time.Second):
			obs.LoadStuck = 1
		}
	}

	if hasDisposer {
		select {
		case <-m.WhenDisposed():
		case <-time.After(3 * time.Second):
		}
	}
	// doDispose closes the handler channels 100 ms later
	time.Sleep(250 * time.Millisecond)
	obs.Disposed = c13Closed(m.WhenDisposed())

	// the sweep of later calls (only meaningful on a disposed machine)
	obs.PostRes = make([]int, len(in.Post))
	obs.PostClosed = make([]int, len(in.Post))
	postCh := make([]<-chan struct{}, len(in.Post))
	if obs.Disposed {
		for i, k := range in.Post {
			obs.PostRes[i], postCh[i] = x.callBounded(k)
		}
		for _, k := range in.Post {
			if k == c13DisposeAgain || k == c13ForceAgain {
				time.Sleep(350 * time.Millisecond)
				break
			}
		}
	}
	closedCode := func(res int, ch <-chan struct{}) int {
		if res != c13RClosed && res != c13ROpen {
			return 0
		}
		if c13Closed(ch) {
			return 1
		}
		return 2
	}
	for i := range in.Post {
		obs.PostClosed[i] = closedCode(obs.PostRes[i], postCh[i])
	}
	obs.ThClosed = make([]int, n)
	for w := 0; w < n; w++ {
		obs.ThClosed[w] = closedCode(obs.ThRes[w], thCh[w])
	}
	obs.PreClosed = make([]bool, len(pre))
	for i := range pre {
		obs.PreClosed[i] = c13Closed(pre[i])
	}
	obs.HCounts = make([]int, len(counts))
	for i, c := range counts {
		obs.HCounts[i] = int(c.Load())
	}
	if in.Serial && obs.Disposed && in.Mode != 4 {
		// the disposal has completed and the parent context is still alive:
		// the machine's own goroutines (handler loop included) must be gone
		d := 0
		for i := 0; i < 15; i++ {
			time.Sleep(100 * time.Millisecond)
			d = runtime.NumGoroutine() - gorBefore
			if d <= 0 {
				break
			}
		}
		if d > 0 {
			obs.Gor = d
		}
	}
	if in.Serial {
		x.cancel()
		d := 0
		for i := 0; i < 12; i++ {
			time.Sleep(100 * time.Millisecond)
			d = runtime.NumGoroutine() - gorBefore
			if d <= 0 {
				break
			}
		}
		if d > 0 && obs.Gor == 0 {
			obs.Gor = d
		}
	}
	if !obs.Disposed {
		// do not leave a live machine behind
		x.cancel()
		go func() {
			defer func() { recover() }()
			m.Dispose()
		}()
	}
	return obs
}

func c13Coq(in *C13Input, obs *C13Obs) string {
	var b strings.Builder
	bl := func(xs []bool) string {
		p := make([]string, len(xs))
		for i, x := range xs {
			p[i] = coqBool(x)
		}
		return "[" + strings.Join(p, ";") + "]"
	}
	fmt.Fprintf(&b, "{| k_mode := %d; k_handlers := %s; k_pre := %s; k_ndisp := %d; k_threads := %s; k_sched := %s; "+
		"k_post := %s; k_load := %d; o_disposed := %s; o_pre_closed := %s; o_th_res := %s; o_th_closed := %s; "+
		"o_hcounts := %s; o_post_res := %s; o_post_closed := %s; o_load_bad := %s; o_load_stuck := %d; "+
		"o_trig_bad := %d; o_gor := %d; o_err := %s |}",
		in.Mode, coqBool(in.Handlers), coqNatList(c13PreKindsOf(in)), in.NDisp, coqNatList(in.Threads), coqNatList(in.Schedule),
		coqNatList(in.Post), in.Load, coqBool(obs.Disposed), bl(obs.PreClosed), coqNatList(obs.ThRes),
		coqNatList(obs.ThClosed), coqNatList(obs.HCounts), coqNatList(obs.PostRes), coqNatList(obs.PostClosed),
		coqNatList(obs.LoadBad), obs.LoadStuck, obs.TrigBad, obs.Gor, coqBool(obs.Err != ""))
	return b.String()
}

// c13PreKindsOf: the kinds of the outstanding waiters as the model sees them
// (the prologue's pending waiter is one more WhenTime)
func c13PreKindsOf(in *C13Input) []int {
	if !in.Prologue {
		return in.Pre
	}
	return append(append([]int{}, in.Pre...), c13WhenTime)
}

func init() { register("C13", runC13) }

// c13HasPopped reports whether /repo has the schedule point pq:popped
// (between the queue shift and newTransition in processQueue).
func c13HasPopped() bool {
	m := am.New(context.Background(), am.Schema{"A": {}}, &am.Opts{Id: "c13probe"})
	seen := false
	m.VerifSetSched(func(point string) {
		if point == "pq:popped" {
			seen = true
		}
	})
	m.Add1("A", nil)
	m.VerifSetSched(nil)
	m.DisposeForce()
	return seen
}

var c13Popped bool

// program length of a thread kind, in schedule entries
func c13Len(kind int) int {
	switch kind {
	case c13Dispose:
		return 5
	case c13When, c13WhenQuery, c13WhenErr:
		return 2
	case c13Add:
		return 11
	case c13Eval:
		return 7
	case c13AddP:
		return 12
	case c13EvalP:
		return 8
	}
	return 1
}

var c13AllPost = []int{c13When, c13WhenQuery, c13WhenNot, c13WhenTime, c13WhenArgs, c13WhenQueue, c13WhenQueueEnds,
	c13StateCtx, c13Add, c13Is, c13Not, c13Any, c13Has, c13IsErr, c13Tick, c13Time, c13Clock, c13Active, c13Eval,
	c13Remove, c13Set, c13Toggle, c13CanAdd, c13CanRemove, c13AddErr, c13WhenErr, c13WhenTicks, c13DisposeAgain,
	c13ForceAgain, c13Index}

var c13PreKinds = []int{c13When, c13WhenQuery, c13WhenNot, c13WhenTime, c13WhenArgs, c13WhenQueue, c13StateCtx,
	c13WhenErr, c13WhenTicks}

// kinds an API thread of a gated case may have (single-step or with points)
var c13GatedKinds = []int{c13When, c13When, c13WhenQuery, c13WhenQuery, c13WhenNot, c13WhenTime, c13WhenArgs,
	c13WhenQueue, c13WhenQueueEnds, c13StateCtx, c13Is, c13Not, c13Any, c13Has, c13IsErr, c13Tick, c13Time,
	c13Clock, c13Active, c13WhenErr, c13WhenTicks, c13Index}

func c13Gen(r *Rng, gated bool) *C13Input {
	in := &C13Input{Handlers: r.Chance(50), NDisp: r.Range(0, 3), Pre: []int{}, Threads: []int{}, Schedule: []int{},
		Post: []int{}}
	for i, np := 0, r.Range(0, 6); i < np; i++ {
		in.Pre = append(in.Pre, c13PreKinds[r.Intn(len(c13PreKinds))])
	}
	if r.Chance(35) {
		in.Post = append(in.Post, c13AllPost...)
	} else {
		for i, np := 0, r.Range(0, 8); i < np; i++ {
			in.Post = append(in.Post, c13AllPost[r.Intn(len(c13AllPost))])
		}
	}
	if !gated {
		in.Mode = r.Range(1, 7)
		if in.Mode == 5 {
			in.Handlers = true
		}
		// DisposeForce takes none of the machine's locks (documented: "Will cause
		// panics"): with background callers the Go runtime may abort the whole
		// process (concurrent map iteration and write in Subscriptions), which no
		// harness can survive; background load only with the locking triggers
		if r.Chance(50) && in.Mode != 7 {
			in.Load = r.Range(1, 2)
		}
		in.Start = r.Chance(40)
		in.Prologue = r.Chance(40)
		if in.Mode == 4 && r.Chance(50) {
			// state-based disposal handlers, disposal started by the machine itself
			// (parent-context cancel -> Disposing -> the registered handlers ->
			// Disposed -> Dispose). A direct Dispose() on such a machine bypasses
			// the Disposing state by design (amhelp.Dispose is the entry point
			// there: mode 6), so the mixin is only combined with mode 4
			in.Mixin, in.Handlers = true, true
		}
		return in
	}
	// threads: 1-2 disposers, 0-1 workload goroutine, 1-3 API callers
	in.Threads = append(in.Threads, c13Dispose)
	if r.Chance(20) {
		in.Threads = append(in.Threads, c13Dispose)
	}
	if r.Chance(55) {
		// the workload goroutine: a mutation or an Eval
		pp := c13Popped && r.Chance(60)
		switch {
		case r.Chance(65) && pp:
			in.Threads = append(in.Threads, c13AddP)
		case r.Chance(65):
			in.Threads = append(in.Threads, c13Add)
		case pp:
			in.Threads = append(in.Threads, c13EvalP)
		default:
			in.Threads = append(in.Threads, c13Eval)
		}
	}
	for i, na := 0, r.Range(1, 3); i < na; i++ {
		in.Threads = append(in.Threads, c13GatedKinds[r.Intn(len(c13GatedKinds))])
	}
	nt := len(in.Threads)
	// schedule: random with runs, then every thread to completion
	total := 0
	for _, k := range in.Threads {
		total += c13Len(k)
	}
	cur := r.Intn(nt)
	for s, steps := 0, r.Range(0, total); s < steps; s++ {
		if r.Chance(45) {
			cur = r.Intn(nt)
		}
		in.Schedule = append(in.Schedule, cur)
	}
	for _, w := range r.Perm(nt) {
		for s := 0; s < c13Len(in.Threads[w]); s++ {
			in.Schedule = append(in.Schedule, w)
		}
	}
	return in
}

// systematic landing cases: an API call of kind k lands while the disposer is
// parked after its stage-th action; and a disposal lands (completely) while
// the workload goroutine is parked after its p-th action.
func c13Landings() []*C13Input {
	var ret []*C13Input
	rep := func(w, n int) []int {
		s := make([]int, n)
		for i := range s {
			s[i] = w
		}
		return s
	}
	seen := map[int]bool{}
	for _, k := range c13GatedKinds {
		if seen[k] {
			continue
		}
		seen[k] = true
		for stage := 0; stage <= 5; stage++ {
			// the call runs entirely at this stage
			in := &C13Input{Pre: []int{c13When, c13WhenTime}, NDisp: 1, Threads: []int{c13Dispose, k},
				Post: []int{k}}
			in.Schedule = append(in.Schedule, rep(0, stage)...)
			in.Schedule = append(in.Schedule, rep(1, c13Len(k))...)
			in.Schedule = append(in.Schedule, rep(0, 5-stage)...)
			ret = append(ret, in)
			if c13Len(k) == 2 {
				// the call passes its `disposed` test first, the rest runs at this stage
				for first := 0; first < stage; first++ {
					in := &C13Input{Pre: []int{c13WhenQuery}, NDisp: 1, Threads: []int{c13Dispose, k}, Post: []int{}}
					in.Schedule = append(in.Schedule, rep(0, first)...)
					in.Schedule = append(in.Schedule, 1)
					in.Schedule = append(in.Schedule, rep(0, stage-first)...)
					in.Schedule = append(in.Schedule, 1)
					in.Schedule = append(in.Schedule, rep(0, 5-stage)...)
					ret = append(ret, in)
				}
			}
		}
	}
	for _, handlers := range []bool{false, true} {
		for p := 0; p <= 11; p++ {
			in := &C13Input{Handlers: handlers, Pre: []int{c13When, c13WhenQueue, c13StateCtx}, NDisp: 2,
				Threads: []int{c13Dispose, c13Add, c13WhenQueueEnds}, Post: []int{c13Add, c13Is}}
			in.Schedule = append(in.Schedule, rep(1, p)...)
			if p >= 5 && p <= 9 {
				in.Schedule = append(in.Schedule, 2) // WhenQueueEnds while the queue runs
			}
			in.Schedule = append(in.Schedule, rep(0, 5)...)
			in.Schedule = append(in.Schedule, rep(1, 11-p)...)
			in.Schedule = append(in.Schedule, 2)
			ret = append(ret, in)
		}
	}
	// a mutation / an eval in flight, parked at pq:popped when the disposal reaches stage st
	if c13Popped {
		for _, k := range []int{c13AddP, c13EvalP} {
			for st := 1; st <= 5; st++ {
				for _, handlers := range []bool{false, true} {
					pre := 6 // actions up to pq:popped
					if k == c13EvalP {
						pre = 5
					}
					in := &C13Input{Handlers: handlers, Pre: []int{c13When, c13WhenQueue}, NDisp: 1,
						Threads: []int{c13Dispose, k}, Post: []int{c13Add}}
					in.Schedule = append(in.Schedule, rep(1, pre)...)
					in.Schedule = append(in.Schedule, rep(0, st)...)
					in.Schedule = append(in.Schedule, rep(1, c13Len(k)-pre)...)
					in.Schedule = append(in.Schedule, rep(0, 5-st)...)
					ret = append(ret, in)
				}
			}
		}
	}
	// Eval in flight: p actions of Eval, s stages of the disposal, Eval to the end, the rest of the disposal
	for p := 0; p <= 7; p++ {
		for st := 1; st <= 5; st++ {
			in := &C13Input{Handlers: p%2 == 1, Pre: []int{c13When}, NDisp: 1, Threads: []int{c13Dispose, c13Eval},
				Post: []int{c13Eval}}
			in.Schedule = append(in.Schedule, rep(1, p)...)
			in.Schedule = append(in.Schedule, rep(0, st)...)
			in.Schedule = append(in.Schedule, rep(1, 7-p)...)
			in.Schedule = append(in.Schedule, rep(0, 5-st)...)
			ret = append(ret, in)
		}
	}
	return ret
}

func runC13(c *Ctx) error {
	out := NewOut(c.OutDir, "C13",
		"From Coq Require Import List NArith.\nFrom AMV Require Import Conc.Dispose Run.EvalC13.\nImport ListNotations.",
		"c13case", "EvalC13.check_all", 400)
	type item struct {
		kind string
		in   *C13Input
		obs  *C13Obs
	}
	var items []*item
	// a fault in a goroutine of the library kills the process: keep the report short
	// enough for its first lines (the reason) to survive in the driver's log tail
	debug.SetTraceback("single")
	c13Popped = c13HasPopped()
	cases, replayOnly := c.loadCases()
	repeat := 1
	if n, err := strconv.Atoi(os.Getenv("C13_REPEAT")); err == nil && n > 1 && replayOnly {
		repeat = n // debugging aid: hunt a rare schedule of a whole-run replay
	}
	for _, cc := range cases {
		for i := 0; i < repeat; i++ {
			var in C13Input
			must(json.Unmarshal(cc.Input, &in))
			needs := false
			for _, k := range in.Threads {
				if k == c13AddP || k == c13EvalP {
					needs = true
				}
			}
			if needs && !c13Popped {
				out.Count("skipped_needs_pq_popped", cc.Name)
				continue
			}
			items = append(items, &item{kind: "corpus:" + cc.Name, in: &in})
		}
	}
	if !replayOnly {
		// serial, goroutine-counting whole-run cases
		for mode := 1; mode <= 7; mode++ {
			in := &C13Input{Mode: mode, Handlers: mode != 7, Pre: []int{c13When, c13WhenNot, c13WhenTime, c13WhenArgs,
				c13WhenQueue, c13StateCtx}, NDisp: 2, Threads: []int{}, Schedule: []int{}, Post: []int{c13Add, c13When},
				Serial: true}
			items = append(items, &item{kind: "serial", in: in})
			if mode != 6 {
				in2 := *in
				in2.Start = true
				items = append(items, &item{kind: "serial-start", in: &in2})
			}
			if mode == 1 || mode == 2 || mode == 7 {
				// handlers bound once, all detached again: the handler loop is still there
				in4 := *in
				in4.Handlers, in4.Detach = true, true
				items = append(items, &item{kind: "serial-detached", in: &in4})
			}
			if mode == 4 {
				in3 := *in
				in3.Mixin, in3.Handlers = true, true
				items = append(items, &item{kind: "serial-mixin", in: &in3})
			}
		}
		for _, in := range c13Landings() {
			items = append(items, &item{kind: "landing", in: in})
		}
		r := c.Rng
		for i, n := 0, c.N(260, 12000); i < n; i++ {
			items = append(items, &item{kind: "gated", in: c13Gen(r, true)})
		}
		for i, n := 0, c.N(90, 4000); i < n; i++ {
			items = append(items, &item{kind: "whole", in: c13Gen(r, false)})
		}
	}
	// execute: serial cases alone, the rest on a pool (every case has its own machine and gate)
	var rest []*item
	for _, it := range items {
		if it.in.Serial {
			it.obs = c13Exec(it.in)
		} else {
			rest = append(rest, it)
		}
	}
	sem := make(chan struct{}, 24)
	var wg sync.WaitGroup
	for _, it := range rest {
		it := it
		wg.Add(1)
		sem <- struct{}{}
		go func() {
			defer wg.Done()
			defer func() { <-sem }()
			it.obs = c13Exec(it.in)
		}()
	}
	wg.Wait()
	forced := 0
	for _, it := range items {
		in, obs := it.in, it.obs
		forced += obs.Forced
		if obs.Err != "" {
			out.Count("harness_error", obs.Err)
		}
		out.Count("mode", fmt.Sprint(in.Mode))
		out.Count("threads", fmt.Sprint(len(in.Threads)))
		out.Count("pre_waiters", fmt.Sprint(len(in.Pre)))
		out.Count("dispose_handlers", fmt.Sprint(in.NDisp))
		out.Count("state_handlers", fmt.Sprint(in.Handlers))
		out.Count("load_goroutines", fmt.Sprint(in.Load))
		out.Count("start_state", fmt.Sprint(in.Start))
		out.Count("whentime_prologue", fmt.Sprint(in.Prologue))
		out.Count("disposed_mixin", fmt.Sprint(in.Mode == 6 || in.Mixin))
		out.Count("disposed", fmt.Sprint(obs.Disposed))
		for _, k := range in.Threads {
			out.Count("thread_kind", fmt.Sprint(k))
		}
		for _, r := range obs.ThRes {
			out.Count("thread_result", fmt.Sprint(r))
		}
		trivial := len(in.Pre) == 0 && len(in.Post) == 0 && len(in.Threads) <= 1 && in.NDisp == 0
		out.Add(it.kind, in, obs, c13Coq(in, obs), trivial, "")
	}
	if !replayOnly && forced == 0 {
		return fmt.Errorf("no schedule step could be forced: the schedule points of doDispose/When/processQueue are gone")
	}
	out.Close("machine A(inactive) B(active) C(Multi) [+ Disposed mixin in mode 6; + an active Start with a StartEnd handler in 40% of the whole-run cases, so that Dispose takes its grace step]; 0-6 outstanding waiters of the kinds "+
		"When/WhenNot/WhenTime/WhenQuery/WhenQueue/WhenArgs/NewStateCtx/WhenErr/WhenTicks, 0-3 OnDispose handlers, with "+
		"and without state handlers; gated cases: DisposeForce (1-2 goroutines), an Add1 workload goroutine and 1-3 API "+
		"callers parked at every verifPoint and released one per schedule entry (systematic landings: every call kind at "+
		"every stage of doDispose, disposal at every point of the workload; plus random schedules completed to the end); "+
		"whole-run cases: Dispose, twice, two concurrent, parent-context cancel, from inside a handler, amhelp.Dispose "+
		"with DisposedHandlers, DisposeForce, with 0-2 background mutator goroutines; after disposal a sweep of up to 30 "+
		"API calls with a 2 s bound each; distinct by (input, observation)",
		map[string]any{"forced_schedule_steps": forced, "has_pq_popped_point": c13Popped})
	return nil
}
