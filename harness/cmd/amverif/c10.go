//go:build p_c10 || p_all

package main

// C10 — RPC clock diffs round-trip; checksum catches drift.
// Runs the real sourceTracer.TransitionEnd / calcUpdate / clockFromUpdate
// (through the verif wrappers of pkg/rpc) on generated snapshot pairs.

import (
	"context"
	"encoding/json"
	"fmt"
	"strings"

	am "github.com/pancsta/asyncmachine-go/pkg/machine"
	arpc "github.com/pancsta/asyncmachine-go/pkg/rpc"
)

type C10Input struct {
	N        int      `json:"n"` // machine states incl. Exception (last)
	Sync     bool     `json:"sync_schema"`
	Shallow  bool     `json:"shallow"`
	Hello    bool     `json:"hello"` // lastPushData built as RemoteHello does
	Tracked  []int    `json:"tracked"`
	BySkip   bool     `json:"by_skip"`             // express the subset as a skip list
	AllowRev bool     `json:"allow_rev,omitempty"` // give the allow list in reverse order
	T1       []uint64 `json:"t1"`
	T2       []uint64 `json:"t2"`
	Q1       uint64   `json:"q1"`
	Q2       uint64   `json:"q2"`
	M1       uint32   `json:"m1"`
	M2       uint32   `json:"m2"`
	// Mirror: nil = the faithful copy of snapshot 1
	Mirror []uint64 `json:"mirror,omitempty"`
	MQ     uint64   `json:"mq"`
	MM     uint32   `json:"mm"`
	Custom bool     `json:"custom_mirror"`
}

type c10Obs struct {
	Tracked []int     `json:"tracked"`
	D1      *c10Data  `json:"d1"`
	D2      *c10Data  `json:"d2"`
	Upd     *c10Upd   `json:"upd"`
	App     *c10Apply `json:"apply"`
	Err     string    `json:"err,omitempty"`
	Mirror  []uint64  `json:"mirror"`
	MQ      uint64    `json:"mq"`
	MM      uint32    `json:"mm"`
	// real RemoteHello (hello cases)
	HelloTime []uint64 `json:"hello_time,omitempty"`
	HelloQ    uint64   `json:"hello_q"`
	HelloM    uint32   `json:"hello_m"`
	HelloLast *c10Data `json:"hello_last,omitempty"`
}

type c10Data struct {
	MTime []uint64 `json:"mtime"`
	Nil   bool     `json:"nil"`
	Sum   uint64   `json:"sum"`
	Q     uint64   `json:"q"`
	M     uint32   `json:"m"`
	Check uint8    `json:"check"`
}

type c10Upd struct {
	Idx   []uint16 `json:"idx"`
	Ticks []uint32 `json:"ticks"`
	Q     uint16   `json:"q"`
	M     uint8    `json:"m"`
	Check uint8    `json:"check"`
}

type c10Apply struct {
	Time     []uint64 `json:"time"`
	Q        uint64   `json:"q"`
	M        uint32   `json:"m"`
	Accepted bool     `json:"accepted"`
}

func init() { register("C10", runC10) }

var c10Machs = map[int]*am.Machine{}

func c10Names(n int) am.S {
	names := am.S{}
	for i := 0; i < n-1; i++ {
		names = append(names, fmt.Sprintf("S%d", i))
	}
	return append(names, am.StateException)
}

func c10Mach(n int) *am.Machine {
	if m, ok := c10Machs[n]; ok {
		return m
	}
	schema := am.Schema{}
	names := c10Names(n)
	for _, s := range names[:n-1] {
		schema[s] = am.State{}
	}
	m := am.New(context.Background(), schema, &am.Opts{Id: fmt.Sprintf("c10-%d", n)})
	must(m.VerifyStates(names))
	c10Machs[n] = m
	return m
}

func c10HelloTime(in *C10Input, t []uint64) []uint64 {
	if in.Sync {
		ret := make([]uint64, len(t))
		for _, i := range in.Tracked {
			ret[i] = t[i]
		}
		return ret
	}
	ret := make([]uint64, len(in.Tracked))
	for k, i := range in.Tracked {
		ret[k] = t[i]
	}
	return ret
}

func c10Exec(in *C10Input) *c10Obs {
	obs := &c10Obs{}
	m := c10Mach(in.N)
	names := c10Names(in.N)
	var allowed, skipped am.S
	if in.BySkip {
		for i, s := range names {
			found := false
			for _, t := range in.Tracked {
				if t == i {
					found = true
				}
			}
			if !found {
				skipped = append(skipped, s)
			}
		}
	} else {
		allowed = am.S{}
		for _, t := range in.Tracked {
			allowed = append(allowed, names[t])
		}
		if len(in.Tracked) == in.N && !in.AllowRev {
			allowed = nil
		}
		if in.AllowRev {
			// the order in which the client lists the allowed states must not matter
			for i, j := 0, len(allowed)-1; i < j; i, j = i+1, j-1 {
				allowed[i], allowed[j] = allowed[j], allowed[i]
			}
		}
	}
	srv := arpc.VerifNewTracerServer(m, in.Sync, in.Shallow, false, allowed, skipped)

	set := func(t []uint64, q uint64, mt uint32) {
		m.VerifSetClock(am.Time(t))
		m.VerifSetQueueTick(q)
		m.VerifSetMachineTick(mt)
	}
	conv := func(d *arpc.VerifData) *c10Data {
		if d == nil {
			return nil
		}
		mt := d.MTime()
		return &c10Data{MTime: mt, Nil: mt == nil, Sum: d.TrackedSum(),
			Q: d.QueueTick(), M: d.MachTick(), Check: d.Checksum()}
	}

	set(in.T1, in.Q1, in.M1)
	d1 := srv.VerifSnapshot(am.MutationAdd, nil)
	obs.D1 = conv(d1)
	obs.Tracked = d1.TrackedIdxs()
	last := d1
	if in.Hello {
		// the real RemoteHello builds both the client's mirror and lastPushData
		ser, hl, err := srv.VerifHello(&arpc.MsgCliHello{Id: "c", SyncSchema: in.Sync,
			AllowedStates: allowed, SkippedStates: skipped, ShallowClocks: in.Shallow})
		if err != nil {
			obs.Err = "hello: " + err.Error()
			return obs
		}
		last = hl
		obs.HelloTime = ser.Time
		obs.HelloQ = ser.QueueTick
		obs.HelloM = ser.MachineTick
		obs.HelloLast = conv(hl)
	}
	set(in.T2, in.Q2, in.M2)
	d2 := srv.VerifSnapshot(am.MutationAdd, nil)
	obs.D2 = conv(d2)

	upd, err := srv.VerifCalcUpdate(d2, last)
	if err != nil {
		obs.Err = err.Error()
		return obs
	}
	obs.Upd = &c10Upd{Idx: upd.Indexes, Ticks: upd.Ticks, Q: upd.QueueTick,
		M: upd.MachTick, Check: upd.Checksum}

	mirror, mq, mm := c10Mirror(in)
	if in.Hello && !in.Custom {
		mirror, mq, mm = slicesClone(obs.HelloTime), obs.HelloQ, obs.HelloM
	}
	obs.Mirror, obs.MQ, obs.MM = mirror, mq, mm
	ctr := in.Tracked
	if !in.Sync {
		ctr = make([]int, len(in.Tracked))
		for i := range ctr {
			ctr[i] = i
		}
	}
	t, q, mt, acc, err := arpc.VerifClientApply(in.Shallow, ctr, upd,
		am.Time(mirror), mq, mm)
	if err != nil {
		obs.Err = err.Error()
		return obs
	}
	obs.App = &c10Apply{Time: t, Q: q, M: mt, Accepted: acc}
	return obs
}

func c10Mirror(in *C10Input) ([]uint64, uint64, uint32) {
	if !in.Custom {
		return c10HelloTime(in, in.T1), in.Q1, in.M1
	}
	return in.Mirror, in.MQ, in.MM
}

func coqU16List(xs []uint16) string {
	ys := make([]uint64, len(xs))
	for i, x := range xs {
		ys[i] = uint64(x)
	}
	return coqNList(ys)
}

func coqU32List(xs []uint32) string {
	ys := make([]uint64, len(xs))
	for i, x := range xs {
		ys[i] = uint64(x)
	}
	return coqNList(ys)
}

func c10CoqData(d *c10Data) string {
	mt := "None"
	if !d.Nil {
		mt = "(Some " + coqNList(d.MTime) + ")"
	}
	return fmt.Sprintf("(%s, %d, %d, %d, %d)%%N", mt, d.Sum, d.Q, d.M, d.Check)
}

func slicesClone(x []uint64) []uint64 { return append([]uint64{}, x...) }

func c10Coq(in *C10Input, obs *c10Obs) string {
	mirror, mq, mm := obs.Mirror, obs.MQ, obs.MM
	hl := "None"
	if obs.HelloLast != nil {
		hl = "(Some " + c10CoqData(obs.HelloLast) + ")"
	}
	snap := func(t []uint64, q uint64, m uint32) string {
		return fmt.Sprintf("{| s_time := %s; s_q := %d; s_m := %d |}", coqNList(t), q, m)
	}
	upd := "None"
	if obs.Upd != nil {
		upd = fmt.Sprintf("(Some (%s, %s, %d, %d, %d)%%N)", coqU16List(obs.Upd.Idx),
			coqU32List(obs.Upd.Ticks), obs.Upd.Q, obs.Upd.M, obs.Upd.Check)
	}
	app := "None"
	if obs.App != nil {
		app = fmt.Sprintf("(Some (%s, %d, %d, %s)%%N)", coqNList(obs.App.Time),
			obs.App.Q, obs.App.M, coqBool(obs.App.Accepted))
	}
	var b strings.Builder
	fmt.Fprintf(&b, "{| k_cfg := {| sync_schema := %s; shallow := %s; tracked := %s |}; ",
		coqBool(in.Sync), coqBool(in.Shallow), coqNatList(in.Tracked))
	fmt.Fprintf(&b, "k_hello := %s; k_s1 := %s; k_s2 := %s; ", coqBool(in.Hello),
		snap(in.T1, in.Q1, in.M1), snap(in.T2, in.Q2, in.M2))
	fmt.Fprintf(&b, "k_custom := %s; ", coqBool(in.Custom))
	fmt.Fprintf(&b, "k_mt := %s; k_mq := %d; k_mm := %d; ", coqNList(mirror), mq, mm)
	fmt.Fprintf(&b, "o_tracked := %s; o_hello := %s; o_d1 := %s; o_d2 := %s; o_upd := %s; o_app := %s |}",
		coqNatList(obs.Tracked), hl, c10CoqData(obs.D1), c10CoqData(obs.D2), upd, app)
	return b.String()
}

func runC10(c *Ctx) error {
	out := NewOut(c.OutDir, "C10",
		"From Coq Require Import List NArith.\nFrom AMV Require Import Model.RpcCodec Run.EvalC10.\nImport ListNotations.\nOpen Scope N_scope.",
		"c10case", "check_all", 2000)

	emit := func(kind string, in *C10Input) {
		obs := c10Exec(in)
		changed := false
		for i := range in.T1 {
			if in.T1[i] != in.T2[i] {
				changed = true
			}
		}
		trivial := len(in.Tracked) == 0 || (!changed && in.Q1 == in.Q2 && !in.Custom)
		mode := "deep"
		if in.Shallow {
			mode = "shallow"
		}
		out.Count("mode", mode)
		out.Count("sync_schema", fmt.Sprint(in.Sync))
		out.Count("prev", map[bool]string{true: "hello", false: "tracer"}[in.Hello])
		out.Count("states", fmt.Sprint(in.N))
		out.Count("tracked", fmt.Sprint(len(in.Tracked)))
		out.Count("mirror", map[bool]string{true: "custom", false: "faithful"}[in.Custom])
		out.Count("subset_given_as", map[bool]string{true: "skip list", false: map[bool]string{true: "allow list (reversed)", false: "allow list"}[in.AllowRev]}[in.BySkip])
		if obs.Upd == nil {
			out.Count("outcome", "panic")
		} else if obs.App != nil && obs.App.Accepted {
			out.Count("outcome", "accepted")
		} else {
			out.Count("outcome", "rejected")
		}
		out.Add(kind, in, obs, c10Coq(in, obs), trivial, "")
	}

	cases, replayOnly := c.loadCases()
	for _, cc := range cases {
		var in C10Input
		must(json.Unmarshal(cc.Input, &in))
		emit("corpus:"+cc.Name, &in)
	}
	if replayOnly {
		out.Close("replay", nil)
		return nil
	}

	// ---- exhaustive small scope
	maxN := 3
	maxDelta := map[int]int{1: 4, 2: 4, 3: 2}
	if c.Thorough() {
		maxN = 4
		maxDelta = map[int]int{1: 4, 2: 4, 3: 4, 4: 2}
	}
	exhaustive := 0
	for n := 1; n <= maxN; n++ {
		md := maxDelta[n]
		for sub := 0; sub < 1<<n; sub++ {
			var tracked []int
			for i := 0; i < n; i++ {
				if sub&(1<<i) != 0 {
					tracked = append(tracked, i)
				}
			}
			for par := 0; par < 1<<n; par++ {
				t1 := make([]uint64, n)
				for i := range t1 {
					t1[i] = uint64(par>>i) & 1
				}
				pow := 1
				for i := 0; i < n; i++ {
					pow *= md + 1
				}
				for dv := 0; dv < pow; dv++ {
					t2 := make([]uint64, n)
					x := dv
					for i := range t2 {
						t2[i] = t1[i] + uint64(x%(md+1))
						x /= md + 1
					}
					for flags := 0; flags < 8; flags++ {
						in := &C10Input{N: n, Sync: flags&1 != 0, Shallow: flags&2 != 0,
							Hello: flags&4 != 0, Tracked: tracked, T1: t1, T2: t2,
							Q1: 5, Q2: 5 + uint64(dv%2), BySkip: (dv+sub)%2 == 0}
						if in.BySkip && len(tracked) == 0 {
							in.BySkip = false
						}
						if !in.BySkip && len(tracked) > 1 && (dv+par)%2 == 1 {
							in.AllowRev = true
						}
						emit("exhaustive", in)
						exhaustive++
					}
				}
			}
		}
	}

	// ---- sampled: larger state counts, boundaries, drifted mirrors
	r := c.Rng
	bounds := []uint64{255, 256, 65535, 65536, 70000, 1<<32 - 1, 1 << 32, 1<<32 + 256}
	nSampled := c.N(1500, 20000)
	for i := 0; i < nSampled; i++ {
		n := r.Range(2, 7)
		tracked := r.Subset(n, 70)
		in := &C10Input{N: n, Sync: r.Chance(50), Shallow: r.Chance(30),
			Hello: r.Chance(40), Tracked: tracked, BySkip: r.Chance(50) && len(tracked) > 0}
		if !in.BySkip && len(tracked) > 1 && r.Chance(50) {
			in.AllowRev = true
		}
		in.T1 = make([]uint64, n)
		in.T2 = make([]uint64, n)
		big := r.Chance(25)
		for k := range in.T1 {
			in.T1[k] = uint64(r.Intn(6))
			if big && r.Chance(30) {
				in.T1[k] = bounds[r.Intn(len(bounds))] - uint64(r.Intn(3))
			}
			d := uint64(r.Intn(5))
			if r.Chance(40) {
				d = 0
			}
			if big && r.Chance(25) {
				d = bounds[r.Intn(len(bounds))]
			}
			in.T2[k] = in.T1[k] + d
		}
		in.Q1 = uint64(r.Intn(300))
		in.Q2 = in.Q1 + uint64(r.Intn(4))
		if r.Chance(10) {
			in.Q2 = in.Q1 + bounds[r.Intn(5)]
		}
		if r.Chance(10) {
			in.M1 = uint32(r.Intn(3))
			in.M2 = in.M1 + uint32(r.Intn(2))
			if r.Chance(20) {
				in.M2 = in.M1 + uint32(bounds[r.Intn(2)])
			}
		}
		kind := "sampled"
		if r.Chance(35) {
			// drifted (or parity-equivalent) mirror
			kind = "drift"
			in.Custom = true
			in.Mirror = c10HelloTime(in, in.T1)
			in.MQ, in.MM = in.Q1, in.M1
			if in.Shallow && r.Chance(70) {
				kind = "parity-mirror"
				for k := range in.Mirror {
					in.Mirror[k] += 2 * uint64(r.Intn(3))
				}
			} else {
				k := uint64(r.Range(1, 3))
				if r.Chance(15) {
					k = 256
				}
				switch {
				case len(in.Mirror) > 0 && r.Chance(60):
					in.Mirror[r.Intn(len(in.Mirror))] += k
				case r.Chance(70):
					in.MQ += k
				default:
					in.MM += uint32(k)
				}
			}
		}
		emit(kind, in)
	}

	out.Close("exhaustive: all machines of 1..maxN states x tracked subsets x start parities x "+
		"per-state deltas 0..maxDelta x {schema,no schema} x {deep,shallow} x {hello,tracer}; "+
		"sampled: 2..7 states, random subsets, deltas incl. uint8/16/32 boundaries, drifted and "+
		"parity-equivalent mirrors. distinct = distinct (input,observation); non-trivial = "+
		"tracked set non-empty and (some tick or queue tick changed or custom mirror)",
		map[string]any{"exhaustive_cases": exhaustive, "exhaustive_max_states": maxN})
	return nil
}
