//go:build p_c20 || p_all

package main

// C20 — totality sweep (EXPLORATION, no model): listed functions / scenarios
// called with edge-case arguments on machines in five lifecycle phases. Every
// case runs in a child process (AMVERIF_C20_CHILD=item:phase) with panic
// recovery and a 2 s watchdog; the child prints "OBS <n> <msg>":
//   0 ok   1 panic   2 hang   3 wrong result      (4 = the child died)
// The expectation of every item is the documented / neutral behaviour.

import (
	"context"
	"encoding/json"
	"errors"
	"fmt"
	"os"
	"reflect"
	"runtime/debug"
	"slices"
	"sort"
	"strings"
	"sync/atomic"
	"time"

	amhelp "github.com/pancsta/asyncmachine-go/pkg/helpers"
	amint "github.com/pancsta/asyncmachine-go/pkg/integrations"
	am "github.com/pancsta/asyncmachine-go/pkg/machine"
)

var c20PhaseNames = []string{"fresh", "mid-queue", "errored", "after-SetSchema", "disposed", "n/a"}

type swEnv struct {
	m     *am.Machine
	phase int
	e     *am.Event // the handler's event (mid-queue only)
}

type swItem struct {
	id     int
	name   string
	phases []int
	fn     func(env *swEnv) (int, string)
}

var (
	phAll  = []int{0, 1, 2, 3, 4}
	phLive = []int{0, 1, 2, 3}
	phOut  = []int{0, 2, 3} // live, outside of handlers
	phMid  = []int{1}
	phNA   = []int{5}
)

func ok() (int, string)                  { return 0, "" }
func wrong(f string, a ...any) (int, string) { return 3, fmt.Sprintf(f, a...) }

// schema of sweep machines: A B D plain, C Multi, K active with a vetoing
// Exit, V with a vetoing Enter, Run Multi (hosts the mid-queue phase)
func swSchema() (am.Schema, am.S) {
	return am.Schema{
		"A": {}, "B": {After: am.S{"A"}}, "C": {Multi: true}, "D": {},
		"K": {}, "V": {}, "Run": {Multi: true},
	}, am.S{"A", "B", "C", "D", "K", "V", "Run", am.StateException}
}

func swMach(tracers ...am.Tracer) *am.Machine {
	schema, names := swSchema()
	m := am.New(context.Background(), schema, &am.Opts{Id: "sweep",
		HandlerTimeout: 6 * time.Second, DontLogStackTrace: true, Tags: []string{"t1", "t2"},
		Tracers: tracers})
	must(m.VerifyStates(names))
	return m
}

func swBindVeto(m *am.Machine) {
	_, err := m.HandlersBindMaps(map[string]am.HandlerNegotiation{
		"KExit":  func(e *am.Event) bool { return false },
		"VEnter": func(e *am.Event) bool { return false },
	}, nil)
	must(err)
}

// swRun prepares the phase and runs fn there.
func swRun(it *swItem, phase int) (obs int, msg string) {
	m := swMach(&am.TracerNoOp{})
	swBindVeto(m)
	m.Add1("K", nil)
	env := &swEnv{m: m, phase: phase}
	type res struct {
		o int
		s string
	}
	ch := make(chan res, 1)
	call := func() {
		defer func() {
			if r := recover(); r != nil {
				ch <- res{1, fmt.Sprint(r)}
			}
		}()
		o, s := it.fn(env)
		ch <- res{o, s}
	}
	switch phase {
	case 1:
		_, err := m.HandlersBindMaps(nil, map[string]am.HandlerFinal{
			"RunState": func(e *am.Event) {
				env.e = e
				m.Add1("B", nil)
				m.Remove1("K", am.A{"x": 1})
				call()
			},
		})
		must(err)
		go func() {
			// a panic escaping to the caller of Add1 after the item has
			// reported must not race with the report
			defer func() { recover() }()
			m.Add1("Run", nil)
		}()
	case 2:
		m.AddErr(errors.New("phase error"), nil)
		go call()
	case 3:
		_, names := swSchema()
		schema := m.Schema()
		schema["E"] = am.State{}
		names = slices.Insert(names, len(names)-1, "E")
		must(m.SetSchema(schema, names))
		go call()
	case 4:
		m.Dispose()
		<-m.WhenDisposed()
		go call()
	default:
		go call()
	}
	select {
	case r := <-ch:
		return r.o, r.s
	case <-time.After(2 * time.Second):
		return 2, "no return within 2 s"
	}
}

func c20SweepItem(id int) *swItem {
	for i := range c20SweepItems {
		if c20SweepItems[i].id == id {
			return &c20SweepItems[i]
		}
	}
	return nil
}

func c20SweepChild(spec string) {
	var item, phase int
	fmt.Sscanf(spec, "%d:%d", &item, &phase)
	// unbounded recursion must die quickly, not after growing a 1 GB stack
	debug.SetMaxStack(32 << 20)
	it := c20SweepItem(item)
	if it == nil {
		fmt.Printf("OBS 0 unknown item %d\n", item)
		os.Exit(0)
	}
	o, s := swRun(it, phase)
	fmt.Printf("\nOBS %d %s\n", o, strings.ReplaceAll(s, "\n", " "))
	os.Exit(0)
}

// ---------------------------------------------------------------- scenarios

// swBlocked: a machine whose GateState handler blocks until release() —
// everything issued meanwhile is Queued.
func swBlocked() (m *am.Machine, entered chan struct{}, release func()) {
	m = swMach()
	swBindVeto(m)
	m.Add1("K", nil)
	entered = make(chan struct{})
	gate := make(chan struct{})
	_, err := m.HandlersBindMaps(nil, map[string]am.HandlerFinal{
		"RunState": func(e *am.Event) {
			close(entered)
			<-gate
		},
	})
	must(err)
	go m.Add1("Run", nil)
	<-entered
	return m, entered, func() { close(gate) }
}

func swWaitQueue(m *am.Machine, n int) bool {
	for i := 0; i < 400; i++ {
		if int(m.QueueLen()) >= n {
			return true
		}
		time.Sleep(2 * time.Millisecond)
	}
	return false
}

// swSync: fn is AddSync or RemoveSync issued while the queue is blocked.
// later: also queue an accepted mutation behind it.
func swSync(remove bool, states am.S, later bool, want bool) (int, string) {
	m, _, release := swBlocked()
	ctx, cancel := context.WithTimeout(context.Background(), 1500*time.Millisecond)
	defer cancel()
	got := make(chan bool, 1)
	start := time.Now()
	go func() {
		if remove {
			got <- amhelp.RemoveSync(ctx, m, states)
		} else {
			got <- amhelp.AddSync(ctx, m, states)
		}
	}()
	if !swWaitQueue(m, 1) {
		return 3, "mutation was not queued"
	}
	if later {
		m.Add1("D", nil)
	}
	release()
	r := <-got
	if time.Since(start) > time.Second {
		return 2, fmt.Sprintf("returned %v only when the context expired", r)
	}
	if r != want {
		return wrong("returned %v, want %v (active: %v)", r, want, m.ActiveStates(nil))
	}
	return ok()
}

// swApi is a plain *am.Machine behind the am.Api interface; the hooks only
// make goroutine interleavings deterministic: afterEvAdd runs between the
// helper's EvAdd and its WhenQueue, registered is closed once the helper's
// WhenQueue waiter is in place.
type swApi struct {
	*am.Machine
	afterEvAdd func()
	registered chan struct{}
}

func (a *swApi) EvAdd(e *am.Event, states am.S, args am.A) am.Result {
	res := a.Machine.EvAdd(e, states, args)
	if a.afterEvAdd != nil {
		a.afterEvAdd()
	}
	return res
}

func (a *swApi) WhenQueue(tick am.Result) <-chan struct{} {
	ch := a.Machine.WhenQueue(tick)
	close(a.registered)
	return ch
}

// swBehindFuture: a WhenQueue waiter for a far-future tick is registered
// first, the queue is parked in RunState, then Add1Sync / Remove1Sync is
// issued (queued) and the queue released. The helper has to return true
// within a second, according to what its own mutation did.
func swBehindFuture(remove bool) (int, string) {
	m, _, release := swBlocked()
	if remove {
		m.Add1("A", nil) // queued before the removal
	}
	_ = m.WhenQueue(am.Result(m.QueueTick() + 1000))
	api := &swApi{Machine: m, registered: make(chan struct{})}
	ctx, cancel := context.WithTimeout(context.Background(), 1500*time.Millisecond)
	defer cancel()
	got := make(chan bool, 1)
	go func() {
		if remove {
			got <- amhelp.Remove1Sync(ctx, api, "A")
		} else {
			got <- amhelp.Add1Sync(ctx, api, "A")
		}
	}()
	select {
	case <-api.registered:
	case <-time.After(time.Second):
		return 3, "the helper did not register a WhenQueue waiter"
	}
	start := time.Now()
	release()
	r := <-got
	if time.Since(start) > time.Second {
		return 2, fmt.Sprintf("returned %v only when the context expired (A active: %v, tick %d)",
			r, m.Is1("A"), m.Tick("A"))
	}
	if !r || m.Is1("A") == remove {
		return wrong("returned %v, A active: %v", r, m.Is1("A"))
	}
	return ok()
}

// swTwoSyncCallers: caller 1 = Add1Sync(A); caller 2 = Add1Sync(D) runs
// between caller 1's EvAdd and its WhenQueue, so the waiter of the LATER tick
// is registered FIRST. D's handler parks the queue: once A's mutation is
// done (queue parked in DState) caller 1 has to return true; caller 2
// returns true after the gate opens.
func swTwoSyncCallers() (int, string) {
	m, _, release := swBlocked()
	gate := make(chan struct{})
	inD := make(chan struct{})
	_, err := m.HandlersBindMaps(nil, map[string]am.HandlerFinal{
		"DState": func(e *am.Event) {
			close(inD)
			<-gate
		},
	})
	must(err)
	ctx, cancel := context.WithTimeout(context.Background(), 1800*time.Millisecond)
	defer cancel()
	api1 := &swApi{Machine: m, registered: make(chan struct{})}
	api2 := &swApi{Machine: m, registered: make(chan struct{})}
	got1, got2 := make(chan bool, 1), make(chan bool, 1)
	api1.afterEvAdd = func() {
		go func() { got2 <- amhelp.Add1Sync(ctx, api2, "D") }()
		select {
		case <-api2.registered:
		case <-time.After(time.Second):
		}
	}
	go func() { got1 <- amhelp.Add1Sync(ctx, api1, "A") }()
	select {
	case <-api1.registered:
	case <-time.After(1500 * time.Millisecond):
		return 3, "caller 1 did not register a WhenQueue waiter"
	}
	release()
	select {
	case <-inD:
	case <-time.After(time.Second):
		return 3, "the queue did not reach DState"
	}
	if !m.Is1("A") {
		return 3, "setup: A is not active while the queue is parked in DState"
	}
	select {
	case r := <-got1:
		if !r {
			close(gate)
			return wrong("caller 1: Add1Sync(A) returned false although A is active")
		}
	case <-time.After(800 * time.Millisecond):
		close(gate)
		select {
		case r := <-got1:
			return 2, fmt.Sprintf("caller 1: Add1Sync(A) was held until a later mutation finished (then returned %v)", r)
		case <-time.After(2 * time.Second):
			return 2, "caller 1: Add1Sync(A) never returned"
		}
	}
	close(gate)
	select {
	case r := <-got2:
		if !r || !m.Is1("D") {
			return wrong("caller 2: Add1Sync(D) returned %v, D active: %v", r, m.Is1("D"))
		}
	case <-time.After(time.Second):
		return 2, "caller 2: Add1Sync(D) did not return after its mutation"
	}
	return ok()
}

func swCopy[T any](get func() T, mutate func(T), same func(a, b T) bool) (int, string) {
	before := get()
	v := get()
	mutate(v)
	after := get()
	if !same(before, after) {
		return wrong("machine changed: %v -> %v", before, after)
	}
	return ok()
}

var c20SweepItems = []swItem{
	{1, "Machine.IsQueued/PositionFirst", phAll, func(env *swEnv) (int, string) {
		env.m.IsQueued(am.MutationAdd, am.S{"A"}, false, false, 0, false, am.PositionFirst)
		return ok()
	}},
	{2, "Machine.IsQueued/PositionLast", phAll, func(env *swEnv) (int, string) {
		env.m.IsQueued(am.MutationAdd, am.S{"A"}, false, false, 0, false, am.PositionLast)
		return ok()
	}},
	{3, "Machine.WillBe/PositionFirst", phAll, func(env *swEnv) (int, string) {
		env.m.WillBe(am.S{"A"}, am.PositionFirst)
		env.m.WillBe1("A", am.PositionFirst)
		return ok()
	}},
	{4, "Machine.WillBeRemoved/PositionFirst", phAll, func(env *swEnv) (int, string) {
		env.m.WillBeRemoved(am.S{"A"}, am.PositionFirst)
		return ok()
	}},
	{5, "Machine.IsQueuedAbove+WillBeAny", phAll, func(env *swEnv) (int, string) {
		env.m.IsQueuedAbove(0, am.MutationAdd, am.S{"A"}, false, false, 0)
		env.m.IsQueuedAbove(2, am.MutationRemove, nil, true, true, 3)
		env.m.WillBeAny(am.S{"A", "B"})
		return ok()
	}},
	{6, "Machine.PoolFork/no-limit-set", phMid, func(env *swEnv) (int, string) {
		var ran atomic.Int32
		r := env.m.PoolFork(context.Background(), env.e, func() { ran.Add(1) })
		time.Sleep(100 * time.Millisecond)
		if !r || ran.Load() != 1 {
			return wrong("returned %v, fn ran %d times", r, ran.Load())
		}
		return ok()
	}},
	{7, "Machine.PoolFork/limit-2", phMid, func(env *swEnv) (int, string) {
		var ran atomic.Int32
		env.m.PoolSetLimit(env.e.Name, 2)
		r := env.m.PoolFork(context.Background(), env.e, func() { ran.Add(1) })
		time.Sleep(100 * time.Millisecond)
		if !r || ran.Load() != 1 {
			return wrong("returned %v, fn ran %d times", r, ran.Load())
		}
		return ok()
	}},
	{8, "Machine.PoolFork/limit-1-idle-pool", phMid, func(env *swEnv) (int, string) {
		var ran atomic.Int32
		env.m.PoolSetLimit(env.e.Name, 1)
		r := env.m.PoolFork(context.Background(), env.e, func() { ran.Add(1) })
		time.Sleep(100 * time.Millisecond)
		if !r || ran.Load() != 1 {
			return wrong("returned %v, fn ran %d times", r, ran.Load())
		}
		return ok()
	}},
	{9, "Machine.PoolFork/event-without-transition", []int{0, 2, 3, 4}, func(env *swEnv) (int, string) {
		var ran atomic.Int32
		r := env.m.PoolFork(context.Background(), env.m.EvSource("nope"), func() { ran.Add(1) })
		time.Sleep(50 * time.Millisecond)
		if r || ran.Load() != 0 {
			return wrong("returned %v, fn ran %d times", r, ran.Load())
		}
		return ok()
	}},
	{10, "Event.Export/no-machine", phNA, func(env *swEnv) (int, string) {
		e := (&am.Event{MachineId: "x", Name: "FooState"}).Export()
		if e.MachineId != "x" {
			return wrong("MachineId %q", e.MachineId)
		}
		return ok()
	}},
	{11, "Event.Export/EvSource", phOut, func(env *swEnv) (int, string) {
		e := env.m.EvSource("tx").Export()
		if e.MachineId != env.m.Id() {
			return wrong("MachineId %q", e.MachineId)
		}
		return ok()
	}},
	{12, "Event.Export+Clone/handler-event", phMid, func(env *swEnv) (int, string) {
		e := env.e.Export()
		e2 := env.e.Clone()
		if e.MachineId != env.m.Id() || e2.Name != env.e.Name {
			return wrong("MachineId %q name %q", e.MachineId, e2.Name)
		}
		return ok()
	}},
	{13, "Event.Clone/no-machine", phNA, func(env *swEnv) (int, string) {
		(&am.Event{MachineId: "x"}).Clone()
		return ok()
	}},
	{14, "Event.Mutation/no-machine", phNA, func(env *swEnv) (int, string) {
		if mut := (&am.Event{MachineId: "x"}).Mutation(); mut != nil {
			return wrong("mutation %v", mut)
		}
		return ok()
	}},
	{15, "Event.IsValid+Transition/no-machine", phNA, func(env *swEnv) (int, string) {
		e := &am.Event{MachineId: "x"}
		if e.IsValid() || e.Transition() != nil {
			return wrong("valid")
		}
		return ok()
	}},
	{16, "Machine.DetachHandlers", []int{0}, func(env *swEnv) (int, string) {
		id, err := env.m.BindHandlers(&struct{}{})
		if err != nil {
			return wrong("bind: %v", err)
		}
		if err := env.m.DetachHandlers(id); err != nil {
			return wrong("detach: %v", err)
		}
		return ok()
	}},
	{17, "Machine.PanicToErr/non-error-value", phOut, func(env *swEnv) (int, string) {
		func() {
			defer env.m.PanicToErr(nil)
			panic("boom-value")
		}()
		err := env.m.Err()
		if err == nil || !strings.Contains(err.Error(), "boom-value") {
			return wrong("Err() = %v", err)
		}
		return ok()
	}},
	{18, "Machine.PanicToErrState/non-error-value", phOut, func(env *swEnv) (int, string) {
		func() {
			defer env.m.PanicToErrState("D", nil)
			panic("boom-value")
		}()
		err := env.m.Err()
		if err == nil || !strings.Contains(err.Error(), "boom-value") {
			return wrong("Err() = %v", err)
		}
		return ok()
	}},
	{19, "Machine.PanicToErr/error-value", phOut, func(env *swEnv) (int, string) {
		func() {
			defer env.m.PanicToErr(nil)
			panic(errors.New("boom-error"))
		}()
		err := env.m.Err()
		if err == nil || !strings.Contains(err.Error(), "boom-error") {
			return wrong("Err() = %v", err)
		}
		return ok()
	}},
	{20, "Machine.WhenQuery/live-ctx", phAll, func(env *swEnv) (int, string) {
		ctx, cancel := context.WithCancel(context.Background())
		defer cancel()
		env.m.WhenQuery(func(c am.Clock) bool { return false }, ctx)
		ch := env.m.WhenQuery(func(c am.Clock) bool { return am.IsActiveTick(c["D"]) }, ctx)
		if env.phase == 1 || env.phase == 4 {
			return ok()
		}
		env.m.Add1("D", nil)
		select {
		case <-ch:
			return ok()
		case <-time.After(time.Second):
			return wrong("channel not closed after the query became true")
		}
	}},
	{21, "Machine.WhenQuery/nil-ctx", phAll, func(env *swEnv) (int, string) {
		ch := env.m.WhenQuery(func(c am.Clock) bool { return am.IsActiveTick(c["D"]) }, nil)
		if env.phase == 1 || env.phase == 4 {
			return ok()
		}
		env.m.Add1("D", nil)
		select {
		case <-ch:
			return ok()
		case <-time.After(time.Second):
			return wrong("channel not closed after the query became true")
		}
	}},
	{22, "copy/ActiveStates(nil)", phAll, func(env *swEnv) (int, string) {
		return swCopy(func() am.S { return env.m.ActiveStates(nil) },
			func(s am.S) {
				for i := range s {
					s[i] = "ZZ"
				}
			}, slices.Equal[am.S])
	}},
	{23, "copy/ActiveStates(states)", phAll, func(env *swEnv) (int, string) {
		r := env.m.ActiveStates(am.S{"K", "A"})
		if env.phase != 4 && !slices.Equal(r, am.S{"K"}) {
			return wrong("ActiveStates([K A]) = %v", r)
		}
		return swCopy(func() am.S { return env.m.ActiveStates(am.S{"K", "A"}) },
			func(s am.S) {
				for i := range s {
					s[i] = "ZZ"
				}
			}, slices.Equal[am.S])
	}},
	{24, "copy/Schema(shallow+deep)", phAll, func(env *swEnv) (int, string) {
		return swCopy(func() string {
			b, _ := json.Marshal(env.m.Schema())
			return string(b)
		}, func(string) {
			s := env.m.Schema()
			s["A"] = am.State{Auto: true}
			if len(s["B"].After) > 0 {
				s["B"].After[0] = "ZZ"
			}
			delete(s, "C")
		}, func(a, b string) bool { return a == b })
	}},
	{25, "copy/Clock", phAll, func(env *swEnv) (int, string) {
		return swCopy(func() string { return fmt.Sprint(env.m.Clock(nil)) },
			func(string) {
				c := env.m.Clock(nil)
				for k := range c {
					c[k] = 77
				}
			}, func(a, b string) bool { return a == b })
	}},
	{26, "copy/Time", phAll, func(env *swEnv) (int, string) {
		return swCopy(func() string { return fmt.Sprint(env.m.Time(nil), env.m.Time(am.S{"K"})) },
			func(string) {
				t := env.m.Time(nil)
				for k := range t {
					t[k] = 77
				}
				t2 := env.m.Time(am.S{"K"})
				for k := range t2 {
					t2[k] = 77
				}
			}, func(a, b string) bool { return a == b })
	}},
	{27, "copy/Tags", phAll, func(env *swEnv) (int, string) {
		return swCopy(func() string { return fmt.Sprint(env.m.Tags()) },
			func(string) {
				t := env.m.Tags()
				for k := range t {
					t[k] = "zz"
				}
			}, func(a, b string) bool { return a == b })
	}},
	{28, "copy/Queue(slice)", phAll, func(env *swEnv) (int, string) {
		return swCopy(func() string { return fmt.Sprint(c20Snapshot(env.m)) },
			func(string) {
				q := env.m.Queue()
				for k := range q {
					q[k] = nil
				}
			}, func(a, b string) bool { return a == b })
	}},
	{29, "copy/Queue(mutation-fields)", phMid, func(env *swEnv) (int, string) {
		return swCopy(func() string { return fmt.Sprint(c20Snapshot(env.m)) },
			func(string) {
				q := env.m.Queue()
				for _, mut := range q {
					mut.Type = am.MutationSet
					for i := range mut.Called {
						mut.Called[i] = 0
					}
				}
			}, func(a, b string) bool { return a == b })
	}},
	{30, "copy/Tracers", phAll, func(env *swEnv) (int, string) {
		return swCopy(func() int { return len(env.m.Tracers()) },
			func(int) {
				t := env.m.Tracers()
				for k := range t {
					t[k] = nil
				}
			}, func(a, b int) bool {
				for _, t := range env.m.Tracers() {
					if t == nil {
						return false
					}
				}
				return a == b
			})
	}},
	{33, "helpers.RemoveSync/queued,canceled,then-another-mutation-accepted", phNA,
		func(env *swEnv) (int, string) { return swSync(true, am.S{"K"}, true, false) }},
	{34, "helpers.AddSync/queued,canceled,then-another-mutation-accepted", phNA,
		func(env *swEnv) (int, string) { return swSync(false, am.S{"V"}, true, false) }},
	{35, "helpers.AddSync/queued,canceled,queue-ends", phNA,
		func(env *swEnv) (int, string) { return swSync(false, am.S{"V"}, false, false) }},
	{36, "helpers.RemoveSync/queued,canceled,queue-ends", phNA,
		func(env *swEnv) (int, string) { return swSync(true, am.S{"K"}, false, false) }},
	{37, "helpers.AddSync/executed+canceled", phOut, func(env *swEnv) (int, string) {
		ctx := context.Background()
		if !amhelp.AddSync(ctx, env.m, am.S{"A"}) || !env.m.Is1("A") {
			return wrong("AddSync(A) false")
		}
		if amhelp.AddSync(ctx, env.m, am.S{"V"}) {
			return wrong("AddSync(V) true although vetoed")
		}
		if !amhelp.Add1Sync(ctx, env.m, "C") {
			return wrong("Add1Sync(C) false")
		}
		return ok()
	}},
	{39, "helpers.RemoveSync/executed+canceled", phOut, func(env *swEnv) (int, string) {
		ctx := context.Background()
		env.m.Add1("A", nil)
		if !amhelp.RemoveSync(ctx, env.m, am.S{"A"}) || env.m.Is1("A") {
			return wrong("RemoveSync(A) false")
		}
		if amhelp.RemoveSync(ctx, env.m, am.S{"K"}) {
			return wrong("RemoveSync(K) true although vetoed")
		}
		return ok()
	}},
	{41, "helpers.AddSync/queued-then-executed", phNA,
		func(env *swEnv) (int, string) { return swSync(false, am.S{"A"}, false, true) }},
	{42, "helpers.RemoveSync/queued-then-executed", phNA, func(env *swEnv) (int, string) {
		return swSync(true, am.S{"Run"}, false, true)
	}},
	{43, "helpers.CantAdd/possible+vetoed", phOut, func(env *swEnv) (int, string) {
		if amhelp.CantAdd(env.m, am.S{"A"}, nil) {
			return wrong("CantAdd(A) = true for a possible mutation")
		}
		if !amhelp.CantAdd(env.m, am.S{"V"}, nil) {
			return wrong("CantAdd(V) = false for a vetoed mutation")
		}
		return ok()
	}},
	{45, "helpers.CantRemove/possible", phOut, func(env *swEnv) (int, string) {
		env.m.Add1("A", nil)
		if amhelp.CantRemove(env.m, am.S{"A"}, nil) {
			return wrong("CantRemove(A) = true for a possible mutation")
		}
		return ok()
	}},
	{46, "helpers.CantRemove/vetoed", phOut, func(env *swEnv) (int, string) {
		if !amhelp.CantRemove(env.m, am.S{"K"}, nil) {
			return wrong("CantRemove(K) = false for a vetoed mutation")
		}
		return ok()
	}},
	{47, "helpers.AskAdd/possible+vetoed", phOut, func(env *swEnv) (int, string) {
		if r := amhelp.AskAdd(env.m, am.S{"A"}, nil); r != am.Executed || !env.m.Is1("A") {
			return wrong("AskAdd(A) = %v", r)
		}
		if r := amhelp.AskAdd(env.m, am.S{"V"}, nil); r != am.Canceled {
			return wrong("AskAdd(V) = %v", r)
		}
		return ok()
	}},
	{48, "helpers.AskRemove/possible", phOut, func(env *swEnv) (int, string) {
		env.m.Add1("A", nil)
		if r := amhelp.AskRemove(env.m, am.S{"A"}, nil); r != am.Executed || env.m.Is1("A") {
			return wrong("AskRemove(A) = %v, A active: %v", r, env.m.Is1("A"))
		}
		return ok()
	}},
	{50, "helpers.AskRemove/vetoed", phOut, func(env *swEnv) (int, string) {
		if r := amhelp.AskRemove(env.m, am.S{"K"}, nil); r != am.Canceled {
			return wrong("AskRemove(K) = %v", r)
		}
		return ok()
	}},
	{51, "helpers.CantAdd/disposed-machine", []int{4}, func(env *swEnv) (int, string) {
		amhelp.CantAdd(env.m, am.S{"A"}, nil)
		return ok()
	}},
	{52, "helpers.CantAdd1+CantRemove1", phOut, func(env *swEnv) (int, string) {
		env.m.Add1("A", nil)
		if amhelp.CantAdd1(env.m, "D", nil) || amhelp.CantRemove1(env.m, "A", nil) {
			return wrong("possible mutation reported impossible")
		}
		if !amhelp.CantAdd1(env.m, "V", nil) || !amhelp.CantRemove1(env.m, "K", nil) {
			return wrong("vetoed mutation reported possible")
		}
		return ok()
	}},
	{53, "helpers.WaitForErrAny/timeout", []int{0}, func(env *swEnv) (int, string) {
		never := make(chan struct{})
		nils := 0
		for i := 0; i < 24; i++ {
			err := amhelp.WaitForErrAny(context.Background(), 5*time.Millisecond, env.m, never)
			if err == nil {
				nils++
			} else if !errors.Is(err, am.ErrTimeout) {
				return wrong("error %v", err)
			}
		}
		if nils > 0 {
			return wrong("%d of 24 timeouts returned nil (as if a channel had closed)", nils)
		}
		return ok()
	}},
	{54, "helpers.WaitForErrAny/machine-errors-meanwhile", []int{0}, func(env *swEnv) (int, string) {
		never := make(chan struct{})
		go func() {
			time.Sleep(20 * time.Millisecond)
			env.m.AddErr(errors.New("late error"), nil)
		}()
		start := time.Now()
		err := amhelp.WaitForErrAny(context.Background(), 500*time.Millisecond, env.m, never)
		if time.Since(start) > 400*time.Millisecond {
			return wrong("did not notice the machine's error before the timeout (returned %v)", err)
		}
		if err == nil || !strings.Contains(err.Error(), "late error") {
			return wrong("returned %v instead of the machine's error", err)
		}
		return ok()
	}},
	{55, "helpers.WaitForAll+WaitForAny+WaitForErrAll", phAll, func(env *swEnv) (int, string) {
		closed := make(chan struct{})
		close(closed)
		never := make(chan struct{})
		ctx := context.Background()
		if err := amhelp.WaitForAll(ctx, 10*time.Millisecond, closed, closed); err != nil {
			return wrong("WaitForAll: %v", err)
		}
		if err := amhelp.WaitForAll(ctx, 10*time.Millisecond); err != nil {
			return wrong("WaitForAll(): %v", err)
		}
		if err := amhelp.WaitForAny(ctx, 10*time.Millisecond, never, closed); err != nil {
			return wrong("WaitForAny: %v", err)
		}
		if err := amhelp.WaitForAny(ctx, 10*time.Millisecond, never); !errors.Is(err, am.ErrTimeout) {
			return wrong("WaitForAny(never): %v", err)
		}
		if err := amhelp.WaitForAny(ctx, 10*time.Millisecond); !errors.Is(err, am.ErrTimeout) {
			return wrong("WaitForAny(): %v", err)
		}
		if env.phase == 0 {
			if err := amhelp.WaitForErrAll(ctx, 10*time.Millisecond, env.m, closed); err != nil {
				return wrong("WaitForErrAll: %v", err)
			}
		}
		return ok()
	}},
	{56, "integrations.HandlerWaiting/nil-ctx", []int{0}, func(env *swEnv) (int, string) {
		req := amint.NewWaitingReq()
		req.States = am.S{"K"}
		resp, err := amint.HandlerWaiting(nil, env.m, req)
		if err != nil || resp == nil {
			return wrong("resp %v err %v", resp, err)
		}
		return ok()
	}},
	{57, "integrations.HandlerMutation", phOut, func(env *swEnv) (int, string) {
		ctx := context.Background()
		if _, err := amint.HandlerMutation(ctx, env.m, &amint.MutationReq{Add: am.S{"A"}, Remove: am.S{"B"}}); err == nil {
			return wrong("add+remove accepted")
		}
		if _, err := amint.HandlerMutation(ctx, env.m, &amint.MutationReq{}); err == nil {
			return wrong("empty accepted")
		}
		if _, err := amint.HandlerMutation(ctx, env.m, &amint.MutationReq{Add: am.S{"Nope"}}); err == nil {
			return wrong("unknown state accepted")
		}
		r, err := amint.HandlerMutation(ctx, env.m, &amint.MutationReq{Add: am.S{"A"}})
		if err != nil || r.Result != am.Executed {
			return wrong("add: %v %v", r, err)
		}
		return ok()
	}},
	{58, "integrations.HandlerGetter", phAll, func(env *swEnv) (int, string) {
		_, err := amint.HandlerGetter(context.Background(), env.m, &amint.GetterReq{
			Time: am.S{"A", "K"}, TimeSum: am.S{"K"}, Clocks: am.S{"K", "Nope"}, Tags: true,
			Export: true, Id: true, ParentId: true})
		if err != nil {
			return wrong("err %v", err)
		}
		return ok()
	}},
	{59, "integrations/malformed-JSON", phNA, func(env *swEnv) (int, string) {
		for _, s := range []string{``, `{`, `null`, `[]`, `{"kind":5}`, `{"kind":"am_req_waiting","states":"A"}`,
			`{"kind":"x","time":[-1]}`, `{"kind":null,"states":[null]}`, `"str"`, `{"kind":{"a":1}}`} {
			var a amint.MsgKindReq
			var b amint.WaitingReq
			var c amint.WaitingResp
			var d amint.MutationReq
			var e amint.GetterResp
			var f amint.MsgKindResp
			for _, v := range []any{&a, &b, &c, &d, &e, &f} {
				_ = json.Unmarshal([]byte(s), v)
			}
		}
		return ok()
	}},
	{60, "integrations.HandlerWaiting/validation+StatesNot", phOut, func(env *swEnv) (int, string) {
		ctx, cancel := context.WithTimeout(context.Background(), 200*time.Millisecond)
		defer cancel()
		if _, err := amint.HandlerWaiting(ctx, env.m, &amint.WaitingReq{}); err == nil {
			return wrong("empty accepted")
		}
		if _, err := amint.HandlerWaiting(ctx, env.m, &amint.WaitingReq{States: am.S{"K"}, Time: am.Time{1, 2}}); err == nil {
			return wrong("length mismatch accepted")
		}
		if _, err := amint.HandlerWaiting(ctx, env.m, &amint.WaitingReq{StatesNot: am.S{"V"}}); err != nil {
			return wrong("StatesNot: %v", err)
		}
		if _, err := amint.HandlerWaiting(ctx, env.m, &amint.WaitingReq{States: am.S{"K"}, Time: am.Time{1}}); err != nil {
			return wrong("Time: %v", err)
		}
		return ok()
	}},
	{61, "Machine getters with state arguments", phAll, func(env *swEnv) (int, string) {
		m := env.m
		for _, s := range []am.S{nil, {}, {"A"}, {"K", "A"}, {"A", "A"}} {
			m.Is(s)
			m.Not(s)
			m.Any(s, s)
			m.Has(s)
			m.Time(s)
			m.Clock(s)
			m.Index(s)
			m.ParseStates(s)
			m.ActiveStates(s)
			m.IsClock(m.Clock(s))
			m.IsTime(m.Time(s), s)
			m.WasClock(m.Clock(s))
			m.WasTime(m.Time(s), s)
		}
		m.Any()
		m.Any1()
		m.Tick("A")
		m.Is1("A")
		m.Not1("A")
		m.Has1("A")
		m.Index1("A")
		m.Index1("Nope")
		m.Has1("Nope")
		m.Tick("Nope")
		m.Switch(am.S{"A", "K"})
		m.Switch()
		m.StateNames()
		m.QueueLen()
		m.QueueTick()
		m.MachineTick()
		m.IsErr()
		m.Err()
		m.IsDisposed()
		m.String()
		m.StringAll()
		m.Inspect(nil)
		m.Inspect(am.S{"A"})
		m.Export()
		m.Transition()
		m.Handlers()
		m.Id()
		m.ParentId()
		m.Context()
		m.ContextParent()
		m.SchemaVer()
		m.Groups()
		m.IsLocal()
		m.Backoff()
		m.ErrInternal()
		m.WillBeRemoved1("A")
		m.StatesVerified()
		m.Resolver()
		m.SemLogger()
		return ok()
	}},
	{62, "Machine.When*/NewStateCtx with nil and live ctx", phAll, func(env *swEnv) (int, string) {
		m := env.m
		for _, ctx := range []context.Context{nil, context.Background()} {
			m.When(am.S{"A"}, ctx)
			m.When1("A", ctx)
			m.WhenNot(am.S{"A"}, ctx)
			m.WhenNot1("K", ctx)
			m.WhenTime(am.S{"A"}, am.Time{3}, ctx)
			m.WhenTime1("A", 3, ctx)
			m.WhenTicks("A", 1, ctx)
			m.WhenArgs("A", am.A{"x": 1}, ctx)
			m.WhenErr(ctx)
		}
		m.WhenQueue(am.Result(5))
		m.WhenQueueEnds()
		m.WhenDisposed()
		m.NewStateCtx("K")
		m.NewStateCtx("A")
		return ok()
	}},
	{63, "Machine.CanAdd/CanRemove+1 variants", phAll, func(env *swEnv) (int, string) {
		m := env.m
		m.CanAdd(am.S{"A"}, nil)
		m.CanAdd1("A", nil)
		m.CanRemove(am.S{"K"}, nil)
		m.CanRemove1("K", nil)
		m.CanAdd(am.S{}, nil)
		return ok()
	}},
	{64, "Machine.CanRemove1 passes args", phOut, func(env *swEnv) (int, string) {
		var got atomic.Bool
		_, err := env.m.HandlersBindMaps(map[string]am.HandlerNegotiation{
			"DExit": func(e *am.Event) bool {
				if e.Args["x"] == 1 {
					got.Store(true)
				}
				return true
			}}, nil)
		must(err)
		env.m.Add1("D", nil)
		env.m.CanRemove1("D", am.A{"x": 1})
		if !got.Load() {
			return wrong("CanRemove1(state, args) dropped args")
		}
		return ok()
	}},
	{65, "Machine.Ev*/Toggle/AddErrState/SetTags/PrependMut-free mutations", phAll, func(env *swEnv) (int, string) {
		m := env.m
		m.Toggle(am.S{"A"}, nil)
		m.Toggle1("A", nil)
		m.EvToggle(nil, am.S{"D"}, nil)
		m.EvToggle1(nil, "D", nil)
		m.EvAdd(nil, am.S{"A"}, nil)
		m.EvAdd1(env.m.EvSource("t"), "C", am.A{"x": 1})
		m.EvRemove(nil, am.S{"A"}, nil)
		m.EvRemove1(nil, "C", nil)
		m.EvAddErr(nil, errors.New("e1"), nil)
		m.EvAddErrState(nil, "D", errors.New("e2"), nil)
		m.AddErrState("D", nil, nil)
		m.AddErr(nil, nil)
		m.SetTags([]string{"x"})
		m.SetTags(nil)
		m.Tags()
		m.PoolSetLimitGlobal(0)
		m.WhenNextActive("A", nil)
		m.OnError(nil)
		m.OnChange(nil)
		m.Log("x %d", 1)
		return ok()
	}},
	{66, "S/Time/TimeIndex remaining methods", phNA, func(env *swEnv) (int, string) {
		for _, s := range []am.S{nil, {}, {"A"}, {"A", "AB", "A"}} {
			s.FilterPrefix()
			s.FilterPrefix("A", "")
			s.Prefix("p")
			s.Hash()
			s.FilterIndex([]int{0, -1, 7})
		}
		for _, t := range []am.Time{nil, {}, {1, 2}} {
			_ = t.String()
			ti := t.ToIndex(am.S{"A", "B"}[:len(t)])
			_ = ti.String()
			ti.ToIndex(nil)
			ti.Add(am.Time{1})
			ti.After(true, am.Time{1})
			ti.Before(false, nil)
			ti.DiffSince(am.Time{1, 1})
			ti.Equal(true, am.Time{1})
			ti.Increment(5)
			ti.Tick(9)
			ti.Is1("A")
			ti.Is1("Nope")
			ti.Not1("A")
			ti.Not1("Nope")
			ti.Any("A", "Nope")
			ti.Any()
		}
		am.NewTimeIndex(am.S{"A"}, nil)
		am.NewTimeIndex(nil, nil)
		return ok()
	}},
	{68, "helpers.Add1Sync/queued behind an earlier-registered WhenQueue waiter of a far-future tick", phNA,
		func(env *swEnv) (int, string) { return swBehindFuture(false) }},
	{69, "helpers.Remove1Sync/queued behind an earlier-registered WhenQueue waiter of a far-future tick", phNA,
		func(env *swEnv) (int, string) { return swBehindFuture(true) }},
	{70, "helpers.Add1Sync/two callers, the waiter of the later tick registered first", phNA,
		func(env *swEnv) (int, string) { return swTwoSyncCallers() }},
	{67, "Machine.WhenQuery/released-by-Dispose", []int{0}, func(env *swEnv) (int, string) {
		ctx, cancel := context.WithCancel(context.Background())
		defer cancel()
		ch1 := env.m.WhenQuery(func(c am.Clock) bool { return false }, nil)
		ch2 := env.m.WhenQuery(func(c am.Clock) bool { return false }, ctx)
		env.m.Dispose()
		<-env.m.WhenDisposed()
		for i, ch := range []<-chan struct{}{ch1, ch2} {
			select {
			case <-ch:
			case <-time.After(time.Second):
				return wrong("WhenQuery channel %d still open after Dispose", i+1)
			}
		}
		return ok()
	}},
}

// ---------------------------------------------------------------- surface

// c20Surface enumerates (by reflection) the exported methods of the types
// the property talks about, and says which of them a stream or a sweep item
// calls. New methods show up under "uncovered".
func c20Surface() map[string]any {
	covered := map[string]bool{}
	for _, n := range strings.Fields(`S.Add S.Add1 S.Delete S.Delete1 S.Sub S.Shared S.Equal
		S.EqualOrder S.Unique S.Has S.Index S.FilterIndex Time.Increment Time.Add Time.Filter Time.Sum
		Time.DiffSince Time.NonZeroStates Time.After Time.Before Time.Equal Time.Tick Time.Is1 Time.Is
		Time.Not Time.Not1 Time.Any Time.Any1 Time.ActiveStates TimeIndex.StateName TimeIndex.Sum
		TimeIndex.Filter TimeIndex.NonZeroStates TimeIndex.Is TimeIndex.Not TimeIndex.Any1
		TimeIndex.ActiveStates Machine.ParseStates Machine.IsQueued Machine.IsQueuedAbove
		Machine.WillBe Machine.WillBe1 Machine.WillBeRemoved Machine.WillBeAny Machine.PoolFork
		Machine.PoolSetLimit Machine.DetachHandlers Machine.PanicToErr Machine.PanicToErrState
		Machine.WhenQuery Machine.ActiveStates Machine.Schema Machine.Clock Machine.Time Machine.Tags
		Machine.Queue Machine.Tracers Machine.EvSource Event.Export Event.Clone Event.Mutation
		Event.IsValid Event.Transition Machine.Add Machine.Is Machine.Not Machine.Any Machine.Has
		Machine.Index Machine.IsClock Machine.IsTime Machine.WasClock Machine.WasTime Machine.Any1
		Machine.Tick Machine.Is1 Machine.Not1 Machine.Has1 Machine.Index1 Machine.Switch
		Machine.StateNames Machine.QueueLen Machine.QueueTick
		Machine.MachineTick Machine.IsErr Machine.Err Machine.IsDisposed Machine.String
		Machine.StringAll Machine.Inspect Machine.Export Machine.Transition Machine.Handlers
		Machine.Id Machine.ParentId Machine.Context Machine.ContextParent Machine.SchemaVer Machine.Groups Machine.IsLocal Machine.Backoff Machine.ErrInternal Machine.WillBeRemoved1 Machine.StatesVerified Machine.Resolver
		Machine.SemLogger Machine.When Machine.When1 Machine.WhenNot
		Machine.WhenNot1 Machine.WhenTime Machine.WhenTime1 Machine.WhenTicks Machine.WhenArgs
		Machine.WhenErr Machine.WhenQueue Machine.WhenQueueEnds Machine.WhenDisposed
		Machine.NewStateCtx Machine.CanAdd Machine.CanAdd1 Machine.CanRemove Machine.CanRemove1
		Machine.AddErr Machine.Add1 Machine.Remove1 Machine.Remove Machine.Set Machine.Dispose
		Machine.SetSchema Machine.VerifyStates Machine.HandlersBindMaps Machine.BindHandlers Machine.Toggle Machine.Toggle1 Machine.EvToggle Machine.EvToggle1 Machine.EvAdd Machine.EvAdd1 Machine.EvRemove Machine.EvRemove1 Machine.EvAddErr Machine.EvAddErrState Machine.AddErrState Machine.SetTags Machine.PoolSetLimitGlobal Machine.WhenNextActive Machine.OnError Machine.OnChange Machine.Log S.FilterPrefix S.Prefix S.Hash Time.String Time.ToIndex TimeIndex.String TimeIndex.ToIndex TimeIndex.Add TimeIndex.After TimeIndex.Before TimeIndex.DiffSince TimeIndex.Equal TimeIndex.Increment TimeIndex.Tick TimeIndex.Is1 TimeIndex.Not1 TimeIndex.Any`) {
		covered[n] = true
	}
	var all, uncovered []string
	add := func(prefix string, t reflect.Type) {
		for i := 0; i < t.NumMethod(); i++ {
			n := prefix + "." + t.Method(i).Name
			all = append(all, n)
			if !covered[n] {
				uncovered = append(uncovered, n)
			}
		}
	}
	add("S", reflect.TypeOf(am.S{}))
	add("Time", reflect.TypeOf(am.Time{}))
	add("TimeIndex", reflect.TypeOf(&am.TimeIndex{}))
	add("Event", reflect.TypeOf(&am.Event{}))
	add("Machine", reflect.TypeOf(&am.Machine{}))
	sort.Strings(uncovered)
	return map[string]any{"exported_methods": len(all), "called_by_this_check": len(all) - len(uncovered),
		"uncovered": uncovered}
}
