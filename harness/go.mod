module amverif

go 1.25.0

require github.com/pancsta/asyncmachine-go v0.0.0

require (
	github.com/alitto/pond/v2 v2.7.1 // indirect
	github.com/cenkalti/hub v1.0.2 // indirect
	github.com/cenkalti/rpc2 v1.0.4 // indirect
	github.com/coder/websocket v1.8.12 // indirect
	github.com/failsafe-go/failsafe-go v0.6.8 // indirect
	github.com/lithammer/dedent v1.1.0 // indirect
	github.com/orsinium-labs/enum v1.4.0 // indirect
	github.com/soheilhy/cmux v0.1.5 // indirect
	golang.org/x/net v0.52.0 // indirect
	golang.org/x/text v0.36.0 // indirect
)

replace github.com/pancsta/asyncmachine-go => /repo
