module amverif

go 1.25.0

require (
	github.com/andybalholm/brotli v1.2.0
	github.com/gdamore/tcell/v2 v2.13.9
	github.com/pancsta/asyncmachine-go v0.0.0
)

require (
	github.com/AlexanderGrooff/mermaid-ascii v0.0.0-20260221123917-b5d02c35decf // indirect
	github.com/PuerkitoBio/goquery v1.10.0 // indirect
	github.com/alecthomas/chroma/v2 v2.14.0 // indirect
	github.com/alitto/pond/v2 v2.7.1 // indirect
	github.com/andybalholm/cascadia v1.3.2 // indirect
	github.com/anmitsu/go-shlex v0.0.0-20200514113438-38f4b401e2be // indirect
	github.com/cenkalti/hub v1.0.2 // indirect
	github.com/cenkalti/rpc2 v1.0.4 // indirect
	github.com/charmbracelet/ssh v0.0.0-20250826160808-ebfa259c7309 // indirect
	github.com/charmbracelet/x/termios v0.1.0 // indirect
	github.com/clipperhouse/uax29/v2 v2.2.0 // indirect
	github.com/coder/websocket v1.8.12 // indirect
	github.com/creack/pty v1.1.21 // indirect
	github.com/dlclark/regexp2 v1.11.4 // indirect
	github.com/dominikbraun/graph v0.23.0 // indirect
	github.com/dop251/goja v0.0.0-20240927123429-241b342198c2 // indirect
	github.com/failsafe-go/failsafe-go v0.6.8 // indirect
	github.com/gdamore/encoding v1.0.1 // indirect
	github.com/go-sourcemap/sourcemap v2.1.4+incompatible // indirect
	github.com/golang/freetype v0.0.0-20170609003504-e2365dfdc4a0 // indirect
	github.com/google/jsonschema-go v0.4.2 // indirect
	github.com/google/pprof v0.0.0-20250607225305-033d6d78b36a // indirect
	github.com/google/uuid v1.6.0 // indirect
	github.com/joho/godotenv v1.5.1 // indirect
	github.com/lithammer/dedent v1.1.0 // indirect
	github.com/lucasb-eyer/go-colorful v1.3.0 // indirect
	github.com/mark3labs/mcp-go v0.48.0 // indirect
	github.com/mattn/go-runewidth v0.0.19 // indirect
	github.com/mazznoer/csscolorparser v0.1.5 // indirect
	github.com/orsinium-labs/enum v1.4.0 // indirect
	github.com/pancsta/cview v1.5.23 // indirect
	github.com/patrickmn/go-cache v2.1.0+incompatible // indirect
	github.com/rivo/uniseg v0.4.7 // indirect
	github.com/soheilhy/cmux v0.1.5 // indirect
	github.com/spf13/cast v1.7.1 // indirect
	github.com/teivah/onecontext v1.3.0 // indirect
	github.com/yosida95/uritemplate/v3 v3.0.2 // indirect
	github.com/yuin/goldmark v1.7.4 // indirect
	github.com/zyedidia/clipper v0.1.1 // indirect
	golang.org/x/crypto v0.50.0 // indirect
	golang.org/x/exp v0.0.0-20250606033433-dcc06ee1d476 // indirect
	golang.org/x/image v0.20.0 // indirect
	golang.org/x/net v0.52.0 // indirect
	golang.org/x/sync v0.20.0 // indirect
	golang.org/x/sys v0.43.0 // indirect
	golang.org/x/term v0.42.0 // indirect
	golang.org/x/text v0.36.0 // indirect
	golang.org/x/xerrors v0.0.0-20240903120638-7835f813f4da // indirect
	oss.terrastruct.com/d2 v0.7.1 // indirect
	oss.terrastruct.com/util-go v0.0.0-20250213174338-243d8661088a // indirect
)

replace github.com/pancsta/asyncmachine-go => /repo
