"""Per-property configuration of bin/check."""
import os, subprocess

VERIF = os.path.dirname(os.path.dirname(os.path.abspath(__file__)))

TRUSTED_BASE = [
    "Coq 8.16.1 kernel incl. its vm_compute reduction machine (native_compute not used)",
    "axioms: none declared in the development; Print Assumptions of every property theorem is recorded under coverage.theorems",
    "the hand-written Gallina model of the code (coq/theories/Model, Conc) - tied to /repo only by the correspondence run of this check",
    "the Go harness (generators, executors, printers of observations into Gallina terms), the verif-tagged hooks in /repo, bin/check",
    "Go toolchain and runtime; coq_makefile/make",
]

# what a failing code means, per property. kind 1 = model/implementation
# mismatch on an observable, kind 2 = property predicate false on the
# implementation's observation.
CODES = {
    "C10": {
        "1:1": "tracerData of snapshot 1 (sourceTracer.TransitionEnd) differs from mk_data",
        "1:2": "tracerData of snapshot 2 (sourceTracer.TransitionEnd) differs from mk_data",
        "1:3": "calcUpdate output differs from calc_update",
        "1:4": "clockFromUpdate/checksum comparison differs from client_apply",
        "1:5": "tracked-state indexes differ from the requested subset",
        "1:6": "lastPushData memorised by RemoteHello differs from hello_data",
        "1:7": "mirror sent by RemoteHello differs from hello_time",
        "2:100": "deep round trip fails inside the theorem's domain (deltas within field widths)",
        "2:101": "deep round trip fails: a per-state tick delta >= 2^32 is truncated by the uint32 Ticks field",
        "2:102": "deep round trip fails: queue-tick delta >= 2^16 is truncated by the uint16 QueueTick field",
        "2:103": "deep round trip fails: machine-tick delta >= 2^8 is truncated by the uint8 MachTick field",
        "2:104": "deep round trip fails after RemoteHello on a source with MachineTick != 0 (lastPushData.machTick not memorised)",
        "2:105": "deep round trip fails for an ill-formed tracked set",
        "2:300": "drifted mirror (sum+q+m differs mod 256) accepted",
    },
}

HIST_MISMATCH = {
    "1:1": "result of a top-level call differs from the model",
    "1:2": "machine time / active states / queue tick / Err after a call differ from the model",
    "1:4": "number of traced transitions differs from the model",
    "1:5": "a transition record (type, called, times, target, accepted, handler range) differs from the model",
    "1:6": "tracer event sequence differs from the model",
    "1:7": "handler call log (name, binding, snapshot, nested results) differs from the model",
    "1:8": "a panic escaped (or did not escape) to the caller, unlike in the model",
    "1:10": "model ran out of fuel",
    "1:11": "resolver Require topology differs from topo_sort (deterministic DFS order)",
    "1:12": "a call blocked forever (or did not), unlike in the model",
}
for _p in ("C01", "C02", "C03", "C05", "C07", "C08", "C11", "C14"):
    CODES.setdefault(_p, {}).update(HIST_MISMATCH)
CODES["C01"].update({
    "2:11": "a concurrent reader saw a state listed active with an even tick (or inactive with an odd tick) in one StringAll() sample",
    "2:14": "a concurrent reader saw a tick decrease",
    "2:1": "tick parity does not match the active states after a call",
    "2:2": "tick parity does not match the active states inside a handler",
    "2:3": "a transition's TimeBefore parity does not match StatesBefore",
    "2:4": "a tick decreased",
    "2:5": "a tick moved by something else than the documented step (+1 flip, +2 re-entered Multi, 0)",
    "2:6": "a canceled or check-only transition moved a tick",
    "2:7": "a transition's TimeAfter differs from the machine time at TransitionEnd",
    "2:8": "TimeAfter parity does not match the target states",
})
CODES["C02"].update({
    "2:21": "an active state misses one of its Require states",
    "2:220": "an active state is Removed by another active state although both survived the blocked-by scan",
    "2:221": "an active state is Removed by another active state (re-)introduced by the second parseAdd pass",
    "2:230": "an activated state's Add state is inactive without being excluded",
    "2:231": "an activated state's Add state is inactive: the activated state was itself introduced by the second pass (Add chain deeper than two levels)",
    "2:232": "an activated state's Add state was dropped by the scan because of a blocker that is not in the target",
    "2:24": "a state became active without justification",
    "2:250": "a state became inactive without justification",
    "2:251": "a state became inactive for a Require that was missing only in the first resolver pass",
})
CODES["C03"].update({
    **{"2:%d" % (380 + i): "a %s call on a backing-off machine was not Canceled or moved something" % n for i, n in enumerate(["Add", "Remove", "Set", "Toggle", "AddErr", "CanAdd", "CanRemove", "EvAdd", "EvRemove"])},
    **{"2:%d" % (390 + i): "a %s call on a disposed machine was not Canceled" % n for i, n in enumerate(["Add", "Remove", "Set", "Toggle", "AddErr", "CanAdd", "CanRemove", "EvAdd", "EvRemove"])},
    "2:31": "a call returned Canceled but ticks / states / queue tick moved",
    "2:32": "Add/Set returned Executed but a called state is not active (or the transition was not accepted)",
    "2:33": "Remove returned Executed but a called state is still active",
    "2:34": "CanAdd/CanRemove changed states, ticks or the queue tick",
    "2:35": "CanAdd/CanRemove did not predict the result of the same mutation issued next",
    "2:36": "the call's own transition has the wrong kind (check vs mutation)",
    "2:37": "Queued returned on an idle machine",
})
CODES["C05"].update({
    "2:595": "a binding that was bound when an event was dispatched was skipped or called twice (bindings detached during the dispatch), or a veto of a still-bound binding was lost",
    "2:592": "a called Auto state vetoed by its own negotiation handler ended up active (brought back by the re-resolution)",
    "2:591": "an auto transition activated a state through the re-resolution after partial acceptance without consulting its negotiation handlers",
    "2:51": "handlers of one transition ran out of the documented phase order",
    "2:52": "a negotiation handler did not observe the machine as it was before the transition",
    "2:53": "a final handler did not observe the applied target",
    "2:54": "a negotiation handler returned false but the transition went on",
    "2:55": "final handlers did not run exactly once per changed state per binding",
    "2:550": "a state's tick moved in a transition but its final handler (FooState / FooEnd) did not run exactly once in every binding that defines it (judged on the machine's clock, whatever IsAccepted says)",
    "2:56": "a final handler ran in a transition that was not accepted",
    "2:59": "a bound negotiation handler of an applied transition was not consulted exactly once",
    "2:57": "a state's handler ran before the handler of a state it Requires",
    "2:580": "a state's handler ran before the handler of an adjacent state it lists in After",
    "2:581": "a state's handler ran before the handler of a state it lists in After (separated by other states)",
})
CODES["C07"].update({
    "2:592": "a called Auto state vetoed by its own negotiation handler ended up active (brought back by the re-resolution)",
    "2:591": "an auto transition activated a state through the re-resolution after partial acceptance without consulting its negotiation handlers",
    "2:71": "an accepted, state-changing mutation was not followed by the auto mutation calling exactly the inactive unblocked Auto states",
    "2:72": "an auto mutation followed a transition that must not trigger one",
    "2:73": "a called Auto state accepted by relations and not vetoed by its own handlers did not end up active",
    "2:74": "a panic escaped to the caller",
    "2:59": "a bound negotiation handler of an applied transition was not consulted exactly once (an Auto state was activated without being judged)",
})
CODES["C08"].update({
    "2:80": "tick parity does not match activity after a fault",
    "2:81": "a panic escaped to the caller",
    "2:82": "the machine wedged: a call blocked forever",
    "2:84": "a recovered panic was not followed by the prepended Add[Exception]",
    "2:86": "a fault in the negotiation phase did not cancel the transition or moved ticks",
    "2:87": "a handler timeout was not reported on ErrInternal",
    "2:890": "rollback after a fault in a State handler is wrong",
    "2:891": "rollback after a fault in an End handler is wrong",
    "2:892": "rollback after a fault in AnyState is wrong",
})
CODES["C11"].update({
    "2:111": "results / machine times differ between re-executions of the same history",
    "2:112": "handler call sequence differs between re-executions",
    "2:113": "transition records differ between re-executions",
})
CODES["C14"].update({
    "2:141": "tracer events are not Init;Start;Finals?;End brackets",
    "2:142": "number of traced transitions / queued mutations mismatch",
    "2:143": "TransitionFinals not exactly for accepted non-check transitions",
    "2:144": "a transition's time-before differs from the previous time-after",
    "2:145": "a canceled or check transition reports a change",
    "2:146": "time-after differs from the machine time at TransitionEnd",
    "2:147": "the last report differs from the machine's final time",
    "2:148": "an additional tracer saw a different event sequence",
})


def describe(prop, code):
    d = CODES.get(prop, {})
    if code in d:
        return d[code]
    # families
    k, n = code.split(":")
    n = int(n)
    if prop == "C10" and k == "2":
        cls = {0: "inside the theorem's domain", 1: "state delta >= 2^32", 2: "queue delta >= 2^16",
               3: "machine-tick delta >= 2^8", 4: "hello with MachineTick != 0", 5: "ill-formed tracked set"}.get(n % 10, "?")
        if 200 <= n < 210:
            return "shallow update decodes to the right parities and ticks but the checksum rejects it (%s)" % cls
        if 220 <= n < 230:
            return "shallow update decodes to wrong parities/ticks (%s)" % cls
        if 300 <= n < 310:
            return "drifted mirror accepted (%s)" % cls
    return "code " + code


PROPS = {
    "C10": {
        "level": "proof",
        "gen": [],
        "harness": True,
        "assumptions": [
            "the mirror of a tracer-path (non-Hello) first snapshot is built by the harness the way RemoteHello builds it",
            "gob/rpc2 transport of MsgSrvUpdate is not exercised (C09 does that end to end)",
        ],
    },
}

_HIST_ASSUMPTIONS = ['handlers are map bindings (HandlersBindMaps) with generated, collision-free state names; struct bindings and StatePrefix are not exercised', 'one goroutine issues the calls (schedules are the subject of C04/C06/C12/C13)', 'log level LogNothing; step logging (LogSteps) off']
for _p in ("C01", "C02", "C03", "C05", "C07", "C08", "C11", "C14"):
    PROPS[_p] = {"level": "proof", "gen": [], "harness": True, "assumptions": list(_HIST_ASSUMPTIONS)}
PROPS["C05"]["assumptions"][0] = "handlers are bound as maps, as structs with func fields (reflect.StructOf) and with BindOpts.StatePrefix; struct METHODS (as opposed to func fields) are not exercised; generated state names are collision-free"
PROPS["C08"]["timeout"] = 3000
PROPS["C08"]["assumptions"].append("a stall is 120 ms against a HandlerTimeout of 30 ms; HandlerDeadline (10 s) is never reached")
PROPS["C14"]["assumptions"].append("faulted transitions (a handler invocation that panics) are exempt from the time clauses and the Finals flag, as the property states; pairs (i, i+1) of the before/after chain are judged when neither is faulted (Spec/C14f.v); theorems about runs cover fault-free scripts, faulted runs are covered by the correspondence only")
PROPS["C11"]["assumptions"].append("64 (thorough: 256) re-executions per case stand in for 'every run'")


# properties contributed as data files: bin/props.d/<id>.json with the keys
# {"spec": {...PROPS entry...}, "codes": {"1:1": "...", ...}}
import glob as _glob, json as _json
for _f in sorted(_glob.glob(os.path.join(VERIF, "bin", "props.d", "*.json"))):
    _d = _json.load(open(_f))
    _id = os.path.splitext(os.path.basename(_f))[0]
    PROPS[_id] = _d.get("spec", {})
    CODES.setdefault(_id, {}).update(_d.get("codes", {}))


def run_gen(name, work, env):
    """runs a translator; returns (rc, output)"""
    script = os.path.join(VERIF, "translators", name)
    p = subprocess.run([script, work], cwd=VERIF, env=env, text=True,
                       stdout=subprocess.PIPE, stderr=subprocess.STDOUT)
    return p.returncode, p.stdout
