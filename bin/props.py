"""Per-property configuration of bin/check."""
import os, subprocess

VERIF = os.path.dirname(os.path.dirname(os.path.abspath(__file__)))

TRUSTED_BASE = [
    "Coq 8.16.1 kernel incl. its vm_compute reduction machine (native_compute not used)",
    "axioms: none declared in the development; Print Assumptions of every property theorem is recorded under coverage.theorems",
    "the hand-written Gallina model of the code (coq/theories/Model, Conc) - tied to /repo only by the correspondence run of this check",
    "the Go harness (generators, executors, printers of observations into Gallina terms), the verif-tagged hooks in /repo, bin/check",
    "Go toolchain and runtime; coq_makefile/make",
]

# what a failing code means, per property. kind 1 = model/implementation
# mismatch on an observable, kind 2 = property predicate false on the
# implementation's observation.
CODES = {
    "C10": {
        "1:1": "tracerData of snapshot 1 (sourceTracer.TransitionEnd) differs from mk_data",
        "1:2": "tracerData of snapshot 2 (sourceTracer.TransitionEnd) differs from mk_data",
        "1:3": "calcUpdate output differs from calc_update",
        "1:4": "clockFromUpdate/checksum comparison differs from client_apply",
        "1:5": "tracked-state indexes differ from the requested subset",
        "1:6": "lastPushData memorised by RemoteHello differs from hello_data",
        "1:7": "mirror sent by RemoteHello differs from hello_time",
        "2:100": "deep round trip fails inside the theorem's domain (deltas within field widths)",
        "2:101": "deep round trip fails: a per-state tick delta >= 2^32 is truncated by the uint32 Ticks field",
        "2:102": "deep round trip fails: queue-tick delta >= 2^16 is truncated by the uint16 QueueTick field",
        "2:103": "deep round trip fails: machine-tick delta >= 2^8 is truncated by the uint8 MachTick field",
        "2:104": "deep round trip fails after RemoteHello on a source with MachineTick != 0 (lastPushData.machTick not memorised)",
        "2:105": "deep round trip fails for an ill-formed tracked set",
        "2:300": "drifted mirror (sum+q+m differs mod 256) accepted",
    },
}


def describe(prop, code):
    d = CODES.get(prop, {})
    if code in d:
        return d[code]
    # families
    k, n = code.split(":")
    n = int(n)
    if prop == "C10" and k == "2":
        cls = {0: "inside the theorem's domain", 1: "state delta >= 2^32", 2: "queue delta >= 2^16",
               3: "machine-tick delta >= 2^8", 4: "hello with MachineTick != 0", 5: "ill-formed tracked set"}.get(n % 10, "?")
        if 200 <= n < 210:
            return "shallow update decodes to the right parities and ticks but the checksum rejects it (%s)" % cls
        if 220 <= n < 230:
            return "shallow update decodes to wrong parities/ticks (%s)" % cls
        if 300 <= n < 310:
            return "drifted mirror accepted (%s)" % cls
    return "code " + code


PROPS = {
    "C10": {
        "level": "proof",
        "gen": [],
        "harness": True,
        "assumptions": [
            "the mirror of a tracer-path (non-Hello) first snapshot is built by the harness the way RemoteHello builds it",
            "gob/rpc2 transport of MsgSrvUpdate is not exercised (C09 does that end to end)",
        ],
    },
}


def run_gen(name, work, env):
    """runs a translator; returns (rc, output)"""
    script = os.path.join(VERIF, "translators", name)
    p = subprocess.run([script, work], cwd=VERIF, env=env, text=True,
                       stdout=subprocess.PIPE, stderr=subprocess.STDOUT)
    return p.returncode, p.stdout
