#!/bin/sh
# regenerates _CoqProject from the files present under theories/
cd "$(dirname "$0")"
{
  echo "-R theories AMV"
  echo "-arg -w -arg -notation-overridden,-deprecated-hint-without-locality,-deprecated-instance-without-locality"
  find theories -name '*.v' | LC_ALL=C sort
} > _CoqProject
