(* List-as-ordered-set helpers over nat state indexes, mirroring the Go
   helpers of pkg/machine/mach_utils.go (slicesUniq, StatesDiff, StatesShared,
   slicesWithout, slicesEvery, slicesNone) and Go's stable insertion sort
   (sort.SliceStable for n <= 20). Proof-free. *)

From Coq Require Import List Bool Arith.
Import ListNotations.

Definition mem (x : nat) (l : list nat) : bool := existsb (Nat.eqb x) l.

(* slicesUniq: keep first occurrences *)
Fixpoint uniq_acc (seen l : list nat) : list nat :=
  match l with
  | [] => []
  | x :: r => if mem x seen then uniq_acc seen r else x :: uniq_acc (x :: seen) r
  end.
Definition uniq (l : list nat) : list nat := uniq_acc [] l.

(* StatesDiff a b : elements of a not in b, order of a *)
Definition diff (a b : list nat) : list nat := filter (fun x => negb (mem x b)) a.
(* StatesShared a b *)
Definition shared (a b : list nat) : list nat := filter (fun x => mem x b) a.
(* slicesEvery col1 col2 : all of col2 in col1 *)
Definition every (col1 col2 : list nat) : bool := forallb (fun x => mem x col1) col2.
(* slicesNone col1 col2 : none of col2 in col1 *)
Definition none_in (col1 col2 : list nat) : bool := forallb (fun x => negb (mem x col1)) col2.
(* StatesEqual *)
Definition set_eqb (a b : list nat) : bool := every a b && every b a.

(* slicesWithout: drop the first occurrence *)
Fixpoint without (l : list nat) (x : nat) : list nat :=
  match l with
  | [] => []
  | y :: r => if Nat.eqb x y then r else y :: without r x
  end.

(* slices.Index + 1 (0 = absent) *)
Fixpoint pos_in_from (k : nat) (l : list nat) (x : nat) : nat :=
  match l with
  | [] => 0
  | y :: r => if Nat.eqb x y then S k else pos_in_from (S k) r x
  end.
Definition pos_in (l : list nat) (x : nat) : nat := pos_in_from 0 l x.

Fixpoint list_eqb (a b : list nat) : bool :=
  match a, b with
  | [], [] => true
  | x :: r, y :: s => Nat.eqb x y && list_eqb r s
  | _, _ => false
  end.

(* Go's insertionSort as used by sort.SliceStable on blocks of <= 20 elements:
     for i := 1; i < n; i++ { for j := i; j > 0 && less(j, j-1); j-- { swap } }
   [ins less x rp] inserts x into the reversed sorted prefix rp. *)
Section Sort.
  Context {A : Type} (less : A -> A -> bool).
  Fixpoint ins (x : A) (rp : list A) : list A :=
    match rp with
    | [] => [x]
    | p :: r => if less x p then p :: ins x r else x :: p :: r
    end.
  Definition go_insertion_sort (l : list A) : list A :=
    rev (fold_left (fun acc x => ins x acc) l []).
End Sort.

(* is [a] a permutation of [b] (both duplicate-free)? *)
Definition perm_eqb (a b : list nat) : bool :=
  Nat.eqb (length a) (length b) && every a b && every b a.
