(* C07 — the judged clause (code 73) with vetoes, and the unreachability of
   the escaping panic (NCrash / code 74) on fault-free runs. Builds on
   Proofs/C05C07Proofs.v. Lemmas only; restated in Props/C07.v. *)
From Coq Require Import List Bool Arith NArith Lia Permutation.
From AMV Require Import Base.ListSet Model.Schema Model.Resolver Model.Machine
  Spec.C01 Spec.C05 Spec.C07.
From AMV Require Import Proofs.C05C07Proofs.
Import ListNotations.

(* ------------------------------------------------------------------ *)
(* what a negotiation phase of an auto transition does to the target   *)
(* ------------------------------------------------------------------ *)

Definition isveto (h : hlentry) : Prop := is_final_key (hl_key h) = false /\ hl_ret h = false.

Definition ownveto (a : nat) (new : list hlentry) : Prop :=
  exists h, In h new /\ isveto h /\ own_key a (hl_key h) = true.

(* a veto that cannot speak for a called Auto state of an auto mutation whose
   called states are inactive Auto states *)
Definition glob (scm : schema) (act : list nat) (h : hlentry) : Prop :=
  forall x, own_key x (hl_key h) = true -> s_auto (sget scm x) = false \/ In x act.

Definition PH (scm : schema) (act : list nat) (t t' : tstate) (nr : nres)
  (new : list hlentry) : Prop :=
  incl (t_target t') (t_target t) /\
  (NoDup (t_target t) -> NoDup (t_target t')) /\
  (forall a, In a (t_target t) -> ~ In a (t_target t') -> ownveto a new) /\
  (nr = NOk -> NoDup (t_target t) -> forall h x, In h new -> hl_ret h = false ->
     own_key x (hl_key h) = true -> s_auto (sget scm x) = true -> ~ In x (t_target t')) /\
  (nr = NCancel -> exists h, In h new /\ isveto h /\ glob scm act h).

Lemma ownveto_app : forall a n1 n2, ownveto a n1 \/ ownveto a n2 -> ownveto a (n2 ++ n1).
Proof.
  intros a n1 n2 [(h & Hh & R)|(h & Hh & R)]; exists h; (split; [|exact R]); apply in_or_app; tauto.
Qed.

Lemma PH_refl : forall scm act t, PH scm act t t NOk [].
Proof.
  intros scm act t. unfold PH. split; [apply incl_refl|]. split; [tauto|].
  split; [intros a H Hn; contradiction|]. split; [intros _ _ h x []|discriminate].
Qed.

Lemma PH_seq : forall scm act t t1 t2 nr n1 n2,
  PH scm act t t1 NOk n1 -> PH scm act t1 t2 nr n2 -> PH scm act t t2 nr (n2 ++ n1).
Proof.
  intros scm act t t1 t2 nr n1 n2 (I1 & N1 & D1 & V1 & _) (I2 & N2 & D2 & V2 & C2).
  unfold PH. split; [eapply incl_tran; eassumption|]. split; [tauto|]. split; [|split].
  - intros a Ha Hn. apply ownveto_app.
    destruct (in_dec Nat.eq_dec a (t_target t1)) as [H1|H1].
    + right. apply D2; assumption.
    + left. apply D1; assumption.
  - intros Hnr Hnd h x Hh Hr Ho Ha. apply in_app_or in Hh. destruct Hh as [Hh|Hh].
    + apply (V2 Hnr (N1 Hnd) h x Hh Hr Ho Ha).
    + intros Hin. apply (V1 eq_refl Hnd h x Hh Hr Ho Ha). apply I2. exact Hin.
  - intros Hnr. destruct (C2 Hnr) as (h & Hh & R). exists h. split; [apply in_or_app; left; exact Hh | exact R].
Qed.

Lemma own_key_inj : forall x y k, own_key x k = true -> own_key y k = true -> x = y.
Proof.
  intros x y k Hx Hy. destruct k; cbn in *; try discriminate;
    apply Nat.eqb_eq in Hx; apply Nat.eqb_eq in Hy; congruence.
Qed.

Lemma In_without_neq : forall l x a, In a l -> a <> x -> In a (without l x).
Proof.
  induction l as [|y r IH]; intros x a Ha Hn; [contradiction|].
  cbn. destruct (Nat.eqb x y) eqn:E.
  - apply Nat.eqb_eq in E. subst y. destruct Ha as [Ha|Ha]; [congruence | exact Ha].
  - destruct Ha as [Ha|Ha]; [left; exact Ha | right; apply IH; assumption].
Qed.

Lemma NoDup_without_notin : forall l x, NoDup l -> ~ In x (without l x).
Proof.
  intros l x H. induction H as [|y r Hn Hr IH]; [intros []|].
  cbn. destruct (Nat.eqb x y) eqn:E.
  - apply Nat.eqb_eq in E. subst y. exact Hn.
  - intros [Hx|Hx]; [apply Nat.eqb_neq in E; congruence | contradiction].
Qed.

(* one handle call *)
Lemma handle_v : forall s t k s1 t1 ok,
  good s -> t_invalid t = false -> is_final_key k = false -> handle s t k = (s1, t1, ok) ->
  t1 = t /\ good s1 /\ sc s1 = sc s /\ active s1 = active s /\
  exists n1, hlog s1 = n1 ++ hlog s /\ Forall (fun h => hl_key h = k) n1 /\
    (ok = true -> Forall rettrue n1) /\
    (ok = false -> exists e, In e n1 /\ hl_ret e = false).
Proof.
  intros s t k s1 t1 ok G Hinv Hf H.
  destruct (handle_ff _ _ _ _ _ _ G Hinv H) as (Ht & K & G1 & _ & n1 & L & En & _ & V & _).
  split; [exact Ht|]. split; [exact G1|]. split; [apply (keeps_sc _ _ K)|].
  split; [apply (keeps_active _ _ K)|]. exists n1. split; [exact L|]. split.
  - eapply Forall_impl; [|exact En]. intros h (Y & _). exact Y.
  - destruct (V Hf) as [[-> Hall]|[-> (e & rest & -> & Hr & _)]].
    + split; [intros _; exact Hall | discriminate].
    + split; [discriminate|]. intros _. exists e. split; [left; reflexivity | exact Hr].
Qed.

(* PH for one step: accepted, vetoed with deletion, vetoed with stop *)
Lemma PH_ok : forall scm act t n1, Forall rettrue n1 -> PH scm act t t NOk n1.
Proof.
  intros scm act t n1 Hall. unfold PH. split; [apply incl_refl|]. split; [tauto|].
  split; [intros a H Hn; contradiction|]. split; [|discriminate].
  intros _ _ h x Hh Hr. rewrite Forall_forall in Hall. specialize (Hall h Hh).
  unfold rettrue in Hall. congruence.
Qed.

Lemma PH_del : forall scm act t k x n1 e,
  is_final_key k = false -> own_key x k = true ->
  Forall (fun h => hl_key h = k) n1 -> In e n1 -> hl_ret e = false ->
  PH scm act t (with_target t (delete_state (t_target t) x)) NOk n1.
Proof.
  intros scm act t k x n1 e Hf Ho Hk He Hr. unfold PH. cbn [t_target with_target].
  unfold delete_state. split; [apply without_incl|]. split; [apply NoDup_without|].
  split; [|split; [|discriminate]].
  - intros a Ha Hn. rewrite (without_other _ _ _ Ha Hn). exists e. split; [exact He|].
    rewrite Forall_forall in Hk. unfold isveto. rewrite (Hk e He). split; [split; assumption | exact Ho].
  - intros _ Hnd h y Hh _ Hoy _. rewrite Forall_forall in Hk. rewrite (Hk h Hh) in Hoy.
    rewrite (own_key_inj y x k Hoy Ho). apply NoDup_without_notin. exact Hnd.
Qed.

Lemma PH_stop : forall scm act t k n1 e nr,
  is_final_key k = false -> Forall (fun h => hl_key h = k) n1 -> In e n1 -> hl_ret e = false ->
  (nr = NCancel -> glob scm act e) -> nr <> NOk ->
  PH scm act t t nr n1.
Proof.
  intros scm act t k n1 e nr Hf Hk He Hr Hg Hn. unfold PH. split; [apply incl_refl|].
  split; [tauto|]. split; [intros a H Hx; contradiction|]. split; [intros Hx; contradiction|].
  intros Hc. exists e. split; [exact He|]. split; [|apply Hg; exact Hc].
  rewrite Forall_forall in Hk. unfold isveto. rewrite (Hk e He). split; assumption.
Qed.

Lemma glob_key : forall scm act e k, hl_key e = k ->
  (forall x, own_key x k = true -> s_auto (sget scm x) = false \/ In x act) -> glob scm act e.
Proof. intros scm act e k <- H. exact H. Qed.

Lemma emit_exits_PH : forall l s t s' t' nr scm act,
  good s -> t_invalid t = false -> (forall x, In x l -> ~ In x (t_target t)) ->
  emit_exits s t l = (s', t', nr) ->
  forall new, hlog s' = new ++ hlog s -> PH scm act t t' nr new /\ nr <> NCrash /\ t' = t.
Proof.
  induction l as [|x r IH]; intros s t s' t' nr scm act G Hinv Hd H new L.
  - simpl in H. inversion H; subst. change (hlog s') with ([] ++ hlog s') in L at 1.
    apply app_inv_tail in L. subst new. split; [apply PH_refl | split; [discriminate | reflexivity]].
  - cbn [emit_exits] in H. destruct (handle s t (HExit x)) as [[s1 t1] ok] eqn:Eh.
    destruct (handle_v s t (HExit x) _ _ _ G Hinv eq_refl Eh)
      as (-> & G1 & _ & _ & n1 & L1 & Hk & Hok & Hve).
    assert (Hh : hung s1 = false) by apply G1. rewrite Hh in H.
    assert (Hstop : (s1, t, NCancel) = (s', t', nr) -> ok = false ->
                    PH scm act t t' nr new /\ nr <> NCrash /\ t' = t).
    { intros E Hf. destruct (Hve Hf) as (e & He & Hr).
      inversion E; subst s' t' nr. rewrite L1 in L. apply app_inv_tail in L. subst new.
      split; [|split; [discriminate | reflexivity]].
      eapply (PH_stop _ _ _ (HExit x)); try eassumption; [reflexivity| |discriminate].
      intros _. eapply glob_key; [rewrite Forall_forall in Hk; apply Hk; exact He|].
      intros y Hy. discriminate. }
    destruct ok.
    + destruct (nspec_log _ _ _ _ _ _ _ _ (emit_exits_ff _ _ _ _ _ _ G1 Hinv H)) as (n2 & L2 & _).
      assert (new = n2 ++ n1).
      { rewrite L2, L1, app_assoc in L. apply app_inv_tail in L. symmetry. exact L. }
      subst new.
      destruct (IH _ _ _ _ _ scm act G1 Hinv (fun y Hy => Hd y (or_intror Hy)) H n2 L2) as (P2 & Hn & Ht).
      split; [|split; [exact Hn | exact Ht]]. eapply PH_seq; [apply PH_ok; apply Hok; reflexivity | exact P2].
    + replace (mem x (t_target t)) with false in H
        by (symmetry; apply mem_false; apply Hd; left; reflexivity).
      destruct (mu_auto (t_mut t) && is_auto_state s x); apply Hstop; try exact H; reflexivity.
Qed.

Lemma emit_enters_PH : forall l s t s' t' nr,
  good s -> t_invalid t = false -> mu_auto (t_mut t) = true ->
  NoDup l -> incl l (t_target t) ->
  emit_enters s t l = (s', t', nr) ->
  forall new, hlog s' = new ++ hlog s -> PH (sc s) (active s) t t' nr new /\ nr <> NCrash.
Proof.
  induction l as [|x r IH]; intros s t s' t' nr G Hinv Hm Hnd Hin H new L.
  - simpl in H. inversion H; subst. change (hlog s') with ([] ++ hlog s') in L at 1.
    apply app_inv_tail in L. subst new. split; [apply PH_refl | discriminate].
  - inversion Hnd as [|? ? Hx Hr]; subst.
    cbn [emit_enters] in H. destruct (handle s t (HEnter x)) as [[s1 t1] ok] eqn:Eh.
    destruct (handle_v s t (HEnter x) _ _ _ G Hinv eq_refl Eh)
      as (-> & G1 & Hs1 & Ha1 & n1 & L1 & Hk & Hok & Hve).
    assert (Hh : hung s1 = false) by apply G1. rewrite Hh in H.
    assert (Hcont : forall tt, emit_enters s1 tt r = (s', t', nr) -> t_invalid tt = false ->
              mu_auto (t_mut tt) = true -> incl r (t_target tt) -> PH (sc s) (active s) t tt NOk n1 ->
              PH (sc s) (active s) t t' nr new /\ nr <> NCrash).
    { intros tt Hr' Hi Hmt Hit P1.
      destruct (nspec_log _ _ _ _ _ _ _ _ (emit_enters_ff _ _ _ _ _ _ G1 Hi Hr')) as (n2 & L2 & _).
      assert (new = n2 ++ n1).
      { rewrite L2, L1, app_assoc in L. apply app_inv_tail in L. symmetry. exact L. }
      subst new.
      destruct (IH _ _ _ _ _ G1 Hi Hmt Hr Hit Hr' n2 L2) as [P2 Hn]. rewrite Hs1, Ha1 in P2.
      split; [|exact Hn]. eapply PH_seq; eassumption. }
    destruct ok.
    + apply (Hcont t H Hinv Hm); [intros y Hy; apply Hin; right; exact Hy|].
      apply PH_ok. apply Hok. reflexivity.
    + destruct (Hve eq_refl) as (e & He & Hre). rewrite Hm in H. cbn [andb] in H.
      destruct (is_auto_state s x) eqn:Eau.
      * replace (mem x (t_target t)) with true in H
          by (symmetry; apply mem_In; apply Hin; left; reflexivity).
        apply (Hcont _ H Hinv Hm).
        -- intros y Hy. cbn. apply In_without_neq; [apply Hin; right; exact Hy|].
           intros ->. contradiction.
        -- eapply (PH_del _ _ _ (HEnter x) x); try eassumption; [reflexivity | cbn; apply Nat.eqb_refl].
      * inversion H; subst. rewrite L1 in L. apply app_inv_tail in L. subst new.
        split; [|discriminate].
        eapply (PH_stop _ _ _ (HEnter x)); try eassumption; [reflexivity| |discriminate].
        intros _. eapply glob_key; [rewrite Forall_forall in Hk; apply Hk; exact He|].
        intros y Hy. cbn in Hy. apply Nat.eqb_eq in Hy. subst y. left. exact Eau.
Qed.

Fixpoint somes (arr : list (option nat)) : list nat :=
  match arr with
  | [] => []
  | Some x :: r => x :: somes r
  | None :: r => somes r
  end.

Lemma somes_app : forall a b, somes (a ++ b) = somes a ++ somes b.
Proof.
  induction a as [|[x|] r IH]; intros b; cbn; [reflexivity | rewrite IH; reflexivity | apply IH].
Qed.

Lemma somes_shift_delete : forall arr x, somes (shift_delete arr x) = without (somes arr) x.
Proof.
  induction arr as [|[y|] r IH]; intros x; cbn; [reflexivity| |apply IH].
  destruct (Nat.eqb x y).
  - rewrite somes_app. cbn. apply app_nil_r.
  - cbn. rewrite IH. reflexivity.
Qed.

Lemma somes_map_Some : forall l, somes (map Some l) = l.
Proof. induction l as [|x r IH]; cbn; [reflexivity | rewrite IH; reflexivity]. Qed.

Lemma nth_error_somes : forall arr i x, nth_error arr i = Some (Some x) -> In x (somes arr).
Proof.
  induction arr as [|[y|] r IH]; intros [|i] x H; cbn in *; try discriminate.
  - inversion H. left. reflexivity.
  - right. eapply IH. exact H.
  - eapply IH. exact H.
Qed.

Lemma emit_selfs_PH : forall fuel s t arr i last s' t' nr,
  good s -> t_invalid t = false -> mu_auto (t_mut t) = true ->
  somes arr = t_target t ->
  emit_selfs fuel s t arr i last = (s', t', nr) ->
  forall new, hlog s' = new ++ hlog s ->
    incl (t_target t') (t_target t) /\
    (NoDup (t_target t) -> NoDup (t_target t')) /\
    (forall a, In a (t_target t) -> ~ In a (t_target t') -> ownveto a new) /\
    (nr = NOk -> NoDup (t_target t) -> forall h x, In h new -> hl_ret h = false ->
       own_key x (hl_key h) = true -> s_auto (sget (sc s) x) = true -> ~ In x (t_target t')) /\
    (nr = NCancel -> (last = true \/ new <> []) ->
       exists h, In h new /\ isveto h /\ glob (sc s) (active s) h) /\
    nr <> NCrash.
Proof.
  induction fuel as [|f IH]; intros s t arr i last s' t' nr G Hinv Hm Hso H new L.
  - simpl in H. inversion H; subst. change (hlog s') with ([] ++ hlog s') in L at 1.
    apply app_inv_tail in L. subst new.
    split; [apply incl_refl|]. split; [tauto|]. split; [intros a Ha Hn; contradiction|].
    split; [intros _ _ h x []|]. split; [|destruct last; discriminate].
    destruct last; [discriminate|]. intros _ [Hx|Hx]; [discriminate | contradiction].
  - cbn [emit_selfs] in H. destruct (nth_error arr i) as [[x|]|] eqn:En.
    + destruct (negb (is_active s x)) eqn:Eact; [eapply IH; eassumption|].
      destruct (handle s t (HSelf x)) as [[s1 t1] ok] eqn:Eh.
      destruct (handle_v s t (HSelf x) _ _ _ G Hinv eq_refl Eh)
        as (-> & G1 & Hs1 & Ha1 & n1 & L1 & Hk & Hok & Hve).
      assert (Hhu : hung s1 = false) by apply G1. rewrite Hhu in H. clear Hhu.
      assert (Hxa : In x (active s)).
      { apply negb_false_iff in Eact. apply mem_In. exact Eact. }
      assert (Hxt : In x (t_target t)) by (rewrite <- Hso; eapply nth_error_somes; exact En).
      destruct ok.
      * destruct (nspec_log _ _ _ _ _ _ _ _ (emit_selfs_ff _ _ _ _ _ _ _ _ _ G1 Hinv H)) as (n2 & L2 & _).
        assert (new = n2 ++ n1).
        { rewrite L2, L1, app_assoc in L. apply app_inv_tail in L. symmetry. exact L. }
        subst new.
        destruct (IH _ _ _ _ _ _ _ _ G1 Hinv Hm Hso H n2 L2) as (I2 & N2 & D2 & V2 & C2 & X2).
        rewrite Hs1, Ha1 in *.
        split; [exact I2|]. split; [exact N2|]. split; [|split; [|split; [|exact X2]]].
        -- intros a Ha Hn. apply ownveto_app. right. apply D2; assumption.
        -- intros Hnr Hnd h y Hh Hr Ho Hau. apply in_app_or in Hh. destruct Hh as [Hh|Hh].
           ++ apply (V2 Hnr Hnd h y Hh Hr Ho Hau).
           ++ exfalso. pose proof (Hok eq_refl) as Hall. rewrite Forall_forall in Hall.
              specialize (Hall h Hh). unfold rettrue in Hall. congruence.
        -- intros Hnr _. destruct (C2 Hnr (or_introl eq_refl)) as (h & Hh & R).
           exists h. split; [apply in_or_app; left; exact Hh | exact R].
      * destruct (Hve eq_refl) as (e & He & Hre). rewrite Hm in H. cbn [andb] in H.
        assert (Hge : glob (sc s) (active s) e).
        { eapply glob_key; [rewrite Forall_forall in Hk; apply Hk; exact He|].
          intros y Hy. cbn in Hy. apply Nat.eqb_eq in Hy. subst y. right. exact Hxa. }
        assert (Hie : isveto e).
        { rewrite Forall_forall in Hk. unfold isveto. rewrite (Hk e He). split; [reflexivity | exact Hre]. }
        destruct (is_auto_state s x) eqn:Eau.
        -- replace (mem x (t_target t)) with true in H by (symmetry; apply mem_In; exact Hxt).
           assert (Hinv' : t_invalid (with_target t (delete_state (t_target t) x)) = false) by exact Hinv.
           assert (Hm' : mu_auto (t_mut (with_target t (delete_state (t_target t) x))) = true) by exact Hm.
           destruct (nspec_log _ _ _ _ _ _ _ _ (emit_selfs_ff _ _ _ _ _ _ _ _ _ G1 Hinv' H)) as (n2 & L2 & _).
           assert (new = n2 ++ n1).
           { rewrite L2, L1, app_assoc in L. apply app_inv_tail in L. symmetry. exact L. }
           subst new.
           assert (Hso' : somes (shift_delete arr x)
                          = t_target (with_target t (delete_state (t_target t) x))).
           { rewrite somes_shift_delete, Hso. reflexivity. }
           destruct (IH _ _ _ _ _ _ _ _ G1 Hinv' Hm' Hso' H n2 L2) as (I2 & N2 & D2 & V2 & C2 & X2).
           rewrite Hs1, Ha1 in *.
           destruct (PH_del (sc s) (active s) t (HSelf x) x n1 e eq_refl
                       (Nat.eqb_refl x) Hk He Hre) as (I1 & N1 & D1 & V1 & _).
           split; [eapply incl_tran; eassumption|]. split; [tauto|].
           split; [|split; [|split; [|exact X2]]].
           ++ intros a Ha Hn. apply ownveto_app.
              destruct (in_dec Nat.eq_dec a (t_target (with_target t (delete_state (t_target t) x))))
                as [H1|H1]; [right; apply D2; assumption | left; apply D1; assumption].
           ++ intros Hnr Hnd h y Hh Hr Ho Hau. apply in_app_or in Hh. destruct Hh as [Hh|Hh].
              ** apply (V2 Hnr (N1 Hnd) h y Hh Hr Ho Hau).
              ** intros Hin. apply (V1 eq_refl Hnd h y Hh Hr Ho Hau). apply I2. exact Hin.
           ++ intros _ _. exists e. split; [apply in_or_app; right; exact He|]. split; assumption.
        -- inversion H; subst. rewrite L1 in L. apply app_inv_tail in L. subst new.
           split; [apply incl_refl|]. split; [tauto|]. split; [intros a Ha Hn; contradiction|].
           split; [discriminate|]. split; [|discriminate].
           intros _ _. exists e. split; [exact He|]. split; assumption.
    + eapply IH; eassumption.
    + inversion H; subst. change (hlog s') with ([] ++ hlog s') in L at 1.
      apply app_inv_tail in L. subst new.
      split; [apply incl_refl|]. split; [tauto|]. split; [intros a Ha Hn; contradiction|].
      split; [intros _ _ h x []|]. split; [|destruct last; discriminate].
      destruct last; [discriminate|]. intros _ [Hx|Hx]; [discriminate | contradiction].
Qed.

Lemma emit_trans_inner_PH : forall after s t b s' t' nr,
  good s -> t_invalid t = false -> mu_auto (t_mut t) = true ->
  emit_trans_inner s t b after = (s', t', nr) ->
  forall new, hlog s' = new ++ hlog s -> PH (sc s) (active s) t t' nr new /\ nr <> NCrash.
Proof.
  induction after as [|a r IH]; intros s t b s' t' nr G Hinv Hm H new L.
  - simpl in H. inversion H; subst. change (hlog s') with ([] ++ hlog s') in L at 1.
    apply app_inv_tail in L. subst new. split; [apply PH_refl | discriminate].
  - cbn [emit_trans_inner] in H. destruct (Nat.eqb b a); [eapply IH; eassumption|].
    destruct (handle s t (HTrans b a)) as [[s1 t1] ok] eqn:Eh.
    destruct (handle_v s t (HTrans b a) _ _ _ G Hinv eq_refl Eh)
      as (-> & G1 & Hs1 & Ha1 & n1 & L1 & Hk & Hok & Hve).
    assert (Hhu : hung s1 = false) by apply G1. rewrite Hhu in H. clear Hhu.
    assert (Hcont : forall tt, emit_trans_inner s1 tt b r = (s', t', nr) -> t_invalid tt = false ->
              mu_auto (t_mut tt) = true -> PH (sc s) (active s) t tt NOk n1 ->
              PH (sc s) (active s) t t' nr new /\ nr <> NCrash).
    { intros tt Hr' Hi Hmt P1.
      destruct (nspec_log _ _ _ _ _ _ _ _ (emit_trans_inner_ff _ _ _ _ _ _ _ G1 Hi Hr')) as (n2 & L2 & _).
      assert (new = n2 ++ n1).
      { rewrite L2, L1, app_assoc in L. apply app_inv_tail in L. symmetry. exact L. }
      subst new.
      destruct (IH _ _ _ _ _ _ G1 Hi Hmt Hr' n2 L2) as [P2 Hn]. rewrite Hs1, Ha1 in P2.
      split; [|exact Hn]. eapply PH_seq; eassumption. }
    destruct ok.
    + apply (Hcont t H Hinv Hm). apply PH_ok. apply Hok. reflexivity.
    + destruct (Hve eq_refl) as (e & He & Hre). rewrite Hm in H. cbn [andb] in H.
      destruct (is_auto_state s a) eqn:Eau.
      * apply (Hcont _ H Hinv Hm).
        eapply (PH_del _ _ _ (HTrans b a) a); try eassumption; [reflexivity | cbn; apply Nat.eqb_refl].
      * inversion H; subst. rewrite L1 in L. apply app_inv_tail in L. subst new.
        split; [|discriminate].
        eapply (PH_stop _ _ _ (HTrans b a)); try eassumption; [reflexivity| |discriminate].
        intros _. eapply glob_key; [rewrite Forall_forall in Hk; apply Hk; exact He|].
        intros y Hy. cbn in Hy. apply Nat.eqb_eq in Hy. subst y. left. exact Eau.
Qed.

Lemma emit_trans_PH : forall before after s t s' t' nr,
  good s -> t_invalid t = false -> mu_auto (t_mut t) = true ->
  emit_trans s t before after = (s', t', nr) ->
  forall new, hlog s' = new ++ hlog s -> PH (sc s) (active s) t t' nr new /\ nr <> NCrash.
Proof.
  induction before as [|b r IH]; intros after s t s' t' nr G Hinv Hm H new L.
  - simpl in H. inversion H; subst. change (hlog s') with ([] ++ hlog s') in L at 1.
    apply app_inv_tail in L. subst new. split; [apply PH_refl | discriminate].
  - cbn [emit_trans] in H.
    destruct (emit_trans_inner s t b after) as [[s1 t1] nr1] eqn:Ei.
    pose proof (emit_trans_inner_ff _ _ _ _ _ _ _ G Hinv Ei) as N1.
    destruct (nspec_frame _ _ _ _ _ _ _ _ N1) as (G1 & Hinv1 & _ & Ha1 & _ & _ & _ & Hm1).
    rewrite Hinv in Hinv1. apply (f_equal mu_auto) in Hm1. rewrite Hm in Hm1.
    destruct (nspec_log _ _ _ _ _ _ _ _ N1) as (n1 & L1 & _).
    destruct (emit_trans_inner_PH _ _ _ _ _ _ _ G Hinv Hm Ei n1 L1) as [P1 X1].
    assert (Hs1 : sc s1 = sc s).
    { destruct N1 as (? & B & _). destruct B as (K & _). apply (keeps_sc _ _ K). }
    destruct nr1.
    + destruct (nspec_log _ _ _ _ _ _ _ _ (emit_trans_ff _ _ _ _ _ _ _ G1 Hinv1 H)) as (n2 & L2 & _).
      assert (new = n2 ++ n1).
      { rewrite L2, L1, app_assoc in L. apply app_inv_tail in L. symmetry. exact L. }
      subst new.
      destruct (IH _ _ _ _ _ _ G1 Hinv1 Hm1 H n2 L2) as [P2 X2]. rewrite Hs1, Ha1 in P2.
      split; [|exact X2]. eapply PH_seq; eassumption.
    + inversion H; subst. rewrite L1 in L. apply app_inv_tail in L. subst new. split; assumption.
    + inversion H; subst. rewrite L1 in L. apply app_inv_tail in L. subst new. split; assumption.
Qed.

Lemma neg_tail_PH : forall s2 t2 s' t' nr,
  good s2 -> t_invalid t2 = false -> mu_auto (t_mut t2) = true ->
  neg_tail s2 t2 = (s', t', nr) ->
  forall new, hlog s' = new ++ hlog s2 -> PH (sc s2) (active s2) t2 t' nr new /\ nr <> NCrash.
Proof.
  intros s2 t2 s' t' nr G2 Hinv2 Hm H new L. unfold neg_tail in H. cbv zeta in H.
  assert (Hsel : forall s3 t3 nr3,
    emit_selfs (S (length (t_target t2))) s2 t2 (map Some (t_target t2)) 0 true = (s3, t3, nr3) ->
    match nr3 with
    | NOk => emit_trans s3 t3 (t_before t3) (t_target t3)
    | _ => (s3, t3, nr3)
    end = (s', t', nr) -> PH (sc s2) (active s2) t2 t' nr new /\ nr <> NCrash).
  { intros s3 t3 nr3 Es Hr.
    pose proof (emit_selfs_ff _ _ _ _ _ _ _ _ _ G2 Hinv2 Es) as N3.
    destruct (nspec_frame _ _ _ _ _ _ _ _ N3) as (G3 & Hinv3 & _ & Ha3 & _ & _ & _ & Hm3).
    rewrite Hinv2 in Hinv3. apply (f_equal mu_auto) in Hm3. rewrite Hm in Hm3.
    destruct (nspec_log _ _ _ _ _ _ _ _ N3) as (n3 & L3 & _).
    destruct (emit_selfs_PH _ _ _ _ _ _ _ _ _ G2 Hinv2 Hm (somes_map_Some _) Es n3 L3)
      as (I3 & N3' & D3 & V3 & C3 & X3).
    assert (P3 : PH (sc s2) (active s2) t2 t3 nr3 n3).
    { unfold PH. split; [exact I3|]. split; [exact N3'|]. split; [exact D3|]. split; [exact V3|].
      intros Hc. apply C3; [exact Hc | left; reflexivity]. }
    assert (Hs3 : sc s3 = sc s2).
    { destruct N3 as (? & B & _). destruct B as (K & _). apply (keeps_sc _ _ K). }
    destruct nr3.
    - destruct (nspec_log _ _ _ _ _ _ _ _ (emit_trans_ff _ _ _ _ _ _ _ G3 Hinv3 Hr)) as (n4 & L4 & _).
      assert (new = n4 ++ n3).
      { rewrite L4, L3, app_assoc in L. apply app_inv_tail in L. symmetry. exact L. }
      subst new.
      destruct (emit_trans_PH _ _ _ _ _ _ _ G3 Hinv3 Hm3 Hr n4 L4) as [P4 X4].
      rewrite Hs3, Ha3 in P4. split; [|exact X4]. eapply PH_seq; eassumption.
    - inversion Hr; subst. rewrite L3 in L. apply app_inv_tail in L. subst new. split; assumption.
    - inversion Hr; subst. rewrite L3 in L. apply app_inv_tail in L. subst new. split; assumption. }
  destruct (mu_type (t_mut t2)).
  - destruct (emit_selfs (S (length (t_target t2))) s2 t2 (map Some (t_target t2)) 0 true)
      as [[s3 t3] nr3] eqn:Es.
    apply (Hsel s3 t3 nr3 eq_refl). destruct nr3; exact H.
  - eapply emit_trans_PH; eassumption.
  - destruct (emit_selfs (S (length (t_target t2))) s2 t2 (map Some (t_target t2)) 0 true)
      as [[s3 t3] nr3] eqn:Es.
    apply (Hsel s3 t3 nr3 eq_refl). destruct nr3; exact H.
Qed.

Lemma negotiate_PH : forall s t s' t' nr,
  good s -> t_invalid t = false -> mu_auto (t_mut t) = true ->
  (forall x, In x (t_exits t) -> ~ In x (t_target t)) ->
  NoDup (t_enters t) -> incl (t_enters t) (t_target t) ->
  negotiate s t = (s', t', nr) ->
  forall new, hlog s' = new ++ hlog s -> PH (sc s) (active s) t t' nr new /\ nr <> NCrash.
Proof.
  intros s t s' t' nr G Hinv Hm Hx Hne Hie H new L. rewrite negotiate_eq in H.
  destruct (emit_exits s t (t_exits t)) as [[s1 t1] nr1] eqn:E1.
  pose proof (emit_exits_ff _ _ _ _ _ _ G Hinv E1) as N1.
  destruct (nspec_frame _ _ _ _ _ _ _ _ N1) as (G1 & _ & _ & Ha1 & _).
  destruct (nspec_log _ _ _ _ _ _ _ _ N1) as (n1 & L1 & _).
  destruct (emit_exits_PH _ _ _ _ _ _ (sc s) (active s) G Hinv Hx E1 n1 L1) as (P1 & X1 & ->).
  assert (Hs1 : sc s1 = sc s).
  { destruct N1 as (? & B & _). destruct B as (K & _). apply (keeps_sc _ _ K). }
  destruct nr1;
    [|inversion H; subst; rewrite L1 in L; apply app_inv_tail in L; subst new; split; assumption
     |inversion H; subst; rewrite L1 in L; apply app_inv_tail in L; subst new; split; assumption].
  destruct (emit_enters s1 t (t_enters t)) as [[s2 t2] nr2] eqn:E2.
  pose proof (emit_enters_ff _ _ _ _ _ _ G1 Hinv E2) as N2.
  destruct (nspec_frame _ _ _ _ _ _ _ _ N2) as (G2 & Hinv2 & _ & Ha2 & _ & _ & _ & Hm2).
  rewrite Hinv in Hinv2. apply (f_equal mu_auto) in Hm2. rewrite Hm in Hm2.
  destruct (nspec_log _ _ _ _ _ _ _ _ N2) as (n2 & L2 & _).
  destruct (emit_enters_PH _ _ _ _ _ _ G1 Hinv Hm Hne Hie E2 n2 L2) as [P2 X2].
  rewrite Hs1, Ha1 in P2.
  assert (Hs2 : sc s2 = sc s).
  { destruct N2 as (? & B & _). destruct B as (K & _). rewrite (keeps_sc _ _ K). exact Hs1. }
  assert (P12 : PH (sc s) (active s) t t2 nr2 (n2 ++ n1)) by (eapply PH_seq; eassumption).
  destruct nr2;
    [|inversion H; subst; rewrite L2, L1, app_assoc in L; apply app_inv_tail in L; subst new;
      split; assumption
     |inversion H; subst; rewrite L2, L1, app_assoc in L; apply app_inv_tail in L; subst new;
      split; assumption].
  destruct (nspec_log _ _ _ _ _ _ _ _ (neg_tail_ff _ _ _ _ _ G2 Hinv2 H)) as (n3 & L3 & _).
  destruct (neg_tail_PH _ _ _ _ _ G2 Hinv2 Hm2 H n3 L3) as [P3 X3].
  rewrite Hs2, Ha2, Ha1 in P3.
  assert (new = n3 ++ n2 ++ n1).
  { rewrite L3, L2, L1, !app_assoc in L. apply app_inv_tail in L. rewrite <- app_assoc in L.
    symmetry. exact L. }
  subst new. split; [|exact X3]. eapply PH_seq; eassumption.
Qed.

(* ------------------------------------------------------------------ *)
(* run_tx level                                                        *)
(* ------------------------------------------------------------------ *)

Lemma tx_neg_PH : forall s mu s1 t1 nr,
  good s -> NoDup (active s) -> mu_auto mu = true ->
  tx_neg (add_ev (add_ev s EvInit) EvStart) (new_transition s mu) = (s1, t1, nr) ->
  forall n1, hlog s1 = n1 ++ hlog s ->
    PH (sc s) (active s) (new_transition s mu) t1 nr n1 /\ nr <> NCrash.
Proof.
  intros s mu s1 t1 nr G Hnd Hm H n1 L.
  destruct (new_transition_facts s mu) as (Tm & _ & _ & Tinv & _ & _ & Tex).
  unfold tx_neg in H.
  destruct (has_handlers (add_ev (add_ev s EvInit) EvStart)
            && negb (negb (t_accepted (new_transition s mu)))) eqn:Eh.
  - apply andb_true_iff in Eh. destruct Eh as [_ Ea]. rewrite negb_involutive in Ea.
    destruct (Tex Ea) as [Hex Hen].
    assert (GA : good (add_ev (add_ev s EvInit) EvStart)) by exact G.
    apply (negotiate_PH (add_ev (add_ev s EvInit) EvStart) (new_transition s mu) s1 t1 nr GA Tinv);
      try assumption.
    + rewrite Tm. exact Hm.
    + intros x Hx. rewrite Hex in Hx. apply sort_states_In, diff_In in Hx. tauto.
    + rewrite Hen. apply NoDup_filter.
      destruct (new_transition_nodup s mu Hnd) as (_ & _ & _ & N4). exact N4.
    + rewrite Hen. intros x Hx. apply filter_In in Hx. tauto.
  - inversion H; subst. change (hlog (add_ev (add_ev s EvInit) EvStart)) with ([] ++ hlog s) in L.
    apply app_inv_tail in L. subst n1. split; [apply PH_refl | discriminate].
Qed.

(* (2) no panic escapes a fault-free transition *)
Lemma no_crash_step_lemma : forall s mu s' r,
  good s -> NoDup (active s) -> run_tx s mu = (s', r) ->
  crashed s' = crashed s /\ exists rec, txs s' = rec :: txs s.
Proof.
  intros s mu s' r G Hnd H.
  destruct (run_tx_outcome _ _ _ _ G H)
    as (negs & fins & canceled & tgt1 & _ & _ & _ & _ & _ & _ & _ & _ & _ & O).
  destruct O as [(_ & _ & _ & Hm & _ & _ & _ & _ & s1 & t1 & Ecr)|(rec & Rb & _)].
  - exfalso.
    assert (GA : good (add_ev (add_ev s EvInit) EvStart)) by exact G.
    destruct (new_transition_facts s mu) as (_ & _ & _ & Tinv & _).
    destruct (tx_neg_ff _ _ _ _ _ GA Tinv Ecr) as (n1 & B & _).
    destruct B as (_ & _ & _ & _ & L & _).
    destruct (tx_neg_PH _ _ _ _ _ G Hnd Hm Ecr n1 L) as [_ X]. apply X. reflexivity.
  - destruct Rb as (Htx & Hcr & _). split; [exact Hcr | exists rec; exact Htx].
Qed.

(* (1) the judged clause with vetoes *)
Definition auto_called_ok (s : st) (mu : mutation) : Prop :=
  mu_type mu = MAdd /\ mu_check mu = false /\
  forall x, In x (mu_called mu) ->
    x < length (sc s) /\ s_auto (sget (sc s) x) = true /\ ~ In x (active s).

Lemma judged_veto_step_lemma : forall s mu s' r rec,
  good s -> NoDup (active s) -> parity s -> mu_auto mu = true -> auto_called_ok s mu ->
  run_tx s mu = (s', r) -> txs s' = rec :: txs s ->
  judged_codes (sc s) (topo s) (rev (hlog s')) rec = [].
Proof.
  intros s mu s' r rec G Hnd Hpar Hm (Hty & Hck & Hcal) H Htx.
  pose proof (run_tx_parity _ _ _ _ G Hnd Hpar H) as [P1' P2'].
  destruct (new_transition_facts s mu) as (Tm & _ & _ & Tinv & Ttg & Tacc & _).
  destruct (run_tx_outcome _ _ _ _ G H)
    as (negs & fins & canceled & tgt1 & L & C & _ & _ & _ & (_ & _ & _ & _ & Ex) & _ & _ & _ & O).
  destruct C as (Csc & _).
  destruct O as [(_ & Hx & _)|(rec' & Rb & O)].
  { rewrite Hx in Htx. exfalso. eapply cons_neq_self. exact Htx. }
  assert (rec' = rec).
  { destruct Rb as (Hx & _). rewrite Hx in Htx. inversion Htx. reflexivity. }
  subst rec'.
  destruct Ex as (s1 & t1 & nr & n1 & n2 & Eneg & Htg1 & L1 & Hnegs & Kae & Hcan & Hcform).
  unfold keysin in Kae. rewrite Forall_forall in Kae.
  destruct (tx_neg_PH _ _ _ _ _ G Hnd Hm Eneg n1 L1) as [(I1 & N1 & D1 & V1 & C1) Xc].
  assert (L2 : hlog s' = (fins ++ negs) ++ hlog s) by (rewrite L, app_assoc; reflexivity).
  pose proof Rb as (_ & _ & _ & Hca & Hta & _ & _ & _ & Hab & Hfrom & Hto & _).
  assert (Hs : slice (rev (hlog s')) (tx_hfrom rec) (tx_hto rec) = rev (fins ++ negs)).
  { rewrite Hfrom, Hto, L2. apply (slice_rev_mid hlentry [] (fins ++ negs) (hlog s)). }
  assert (Haf : tx_after rec = clock s').
  { destruct O as [N|A].
    - destruct N as (_ & _ & Hc & _ & Ht & _). congruence.
    - destruct A as (_ & _ & _ & _ & Hc & _). congruence. }
  assert (Ff : Forall (fun h => is_final_key (hl_key h) = true) fins).
  { eapply outcome_fins_final. exact O. }
  unfold judged_codes. rewrite Hta, Hm. cbn [negb]. rewrite Hs, Hca, Hab.
  set (hs := rev (fins ++ negs)).
  set (vetoes := filter (fun h => negb (is_final_key (hl_key h)) && negb (hl_ret h)) hs).
  destruct (existsb (fun h => negb (existsb (fun x => own_key x (hl_key h)) (mu_called mu))) vetoes)
    eqn:Eg; [reflexivity|].
  (* every veto speaks for a called state *)
  assert (Hown : forall h, In h negs -> hl_ret h = false -> is_final_key (hl_key h) = false ->
            exists x, In x (mu_called mu) /\ own_key x (hl_key h) = true).
  { intros h Hh Hr Hf.
    assert (Hv : In h vetoes).
    { unfold vetoes, hs. apply filter_In. split.
      - apply in_rev. rewrite rev_involutive. apply in_or_app. right. exact Hh.
      - rewrite Hf, Hr. reflexivity. }
    destruct (existsb (fun x => own_key x (hl_key h)) (mu_called mu)) eqn:Ee.
    - apply existsb_exists in Ee. exact Ee.
    - exfalso. assert (Ht : existsb (fun h0 => negb (existsb (fun x => own_key x (hl_key h0))
                                                       (mu_called mu))) vetoes = true).
      { apply existsb_exists. exists h. split; [exact Hv|]. rewrite Ee. reflexivity. }
      congruence. }
  assert (Hnf : forall h, In h negs -> is_final_key (hl_key h) = false).
  { intros h Hh. rewrite Hnegs in Hh. apply in_app_or in Hh. destruct Hh as [Hh|Hh].
    - rewrite <- (Kae h Hh). reflexivity.
    - destruct (tx_neg_ff _ _ _ _ _ (G : good (add_ev (add_ev s EvInit) EvStart)) Tinv Eneg)
        as (n1' & B & _).
      destruct B as (_ & _ & _ & _ & L1' & _ & Bd).
      change (hlog (add_ev (add_ev s EvInit) EvStart)) with (hlog s) in L1'.
      rewrite L1 in L1'. apply app_inv_tail in L1'. subst n1'.
      apply rank_nonfinal. destruct Bd as [_ F]. rewrite Forall_forall in F.
      assert (In (rk h) (map rk (rev n1))) by (apply in_map, in_rev; rewrite rev_involutive; exact Hh).
      specialize (F _ H0). unfold rk in F. lia. }
  (* no veto of a non-called key: the negotiation was not canceled by a veto *)
  assert (Hnoglob : forall h, In h negs -> isveto h -> glob (sc s) (active s) h -> False).
  { intros h Hh [Hf Hr] Hg. destruct (Hown h Hh Hr Hf) as (x & Hx & Ho).
    destruct (Hcal x Hx) as (_ & Hau & Hna). destruct (Hg x Ho) as [Y|Y]; [congruence | contradiction]. }
  assert (Hnr : nr = NOk).
  { destruct nr; [reflexivity| |exfalso; apply Xc; reflexivity].
    exfalso. destruct (C1 eq_refl) as (h & Hh & Hv & Hg).
    apply (Hnoglob h); [rewrite Hnegs; apply in_or_app; right; exact Hh | exact Hv | exact Hg]. }
  assert (Hall2 : Forall rettrue n2).
  { apply Forall_forall. intros h Hh. unfold rettrue. destruct (hl_ret h) eqn:Er; [reflexivity|].
    exfalso. assert (Hin : In h negs) by (rewrite Hnegs; apply in_or_app; left; exact Hh).
    destruct (Hown h Hin Er (Hnf h Hin)) as (x & _ & Ho).
    rewrite <- (Kae h Hh) in Ho. discriminate. }
  specialize (Hcform Hnr Hall2).
  (* the accepted subset, as the spec computes it, is the model's *)
  set (joint := resolve (sc s) (topo s) (active s) MAdd (mu_called mu)).
  assert (Hjoint : t_target (new_transition s mu) = joint) by (rewrite Ttg, Hty; reflexivity).
  assert (N0 : NoDup (t_target (new_transition s mu))).
  { destruct (new_transition_nodup s mu Hnd) as (_ & _ & _ & N4). exact N4. }
  set (nv := filter (fun x => negb (existsb (fun h => own_key x (hl_key h)) vetoes)) (mu_called mu)).
  assert (Hclean : filter (fun x => mem x joint) nv
                   = filter (fun x => mem x (t_target t1)) (mu_called mu)).
  { unfold nv. rewrite filter_filter. apply filter_ext_in. intros x Hx.
    destruct (Hcal x Hx) as (_ & Hau & _).
    destruct (mem x (t_target t1)) eqn:Et.
    - apply mem_In in Et. apply andb_true_iff. split.
      + apply negb_true_iff. destruct (existsb (fun h => own_key x (hl_key h)) vetoes) eqn:Ee; [|reflexivity].
        exfalso. apply existsb_exists in Ee. destruct Ee as (h & Hv & Ho).
        unfold vetoes, hs in Hv. apply filter_In in Hv. destruct Hv as [Hh Hb].
        apply andb_true_iff in Hb. destruct Hb as [Hf Hr].
        apply negb_true_iff in Hf. apply negb_true_iff in Hr.
        apply in_rev in Hh. rewrite ?rev_involutive in Hh. apply in_app_or in Hh. destruct Hh as [Hh|Hh].
        * rewrite Forall_forall in Ff. specialize (Ff h Hh). congruence.
        * rewrite Hnegs in Hh. apply in_app_or in Hh. destruct Hh as [Hh|Hh].
          -- rewrite <- (Kae h Hh) in Ho. discriminate.
          -- apply (V1 Hnr N0 h x Hh Hr Ho Hau). exact Et.
      + apply mem_In. rewrite <- Hjoint. apply I1. exact Et.
    - apply mem_false in Et. destruct (mem x joint) eqn:Ej; [|apply andb_false_r].
      rewrite andb_true_r. apply negb_false_iff. apply mem_In in Ej. rewrite <- Hjoint in Ej.
      destruct (D1 x Ej Et) as (h & Hh & [Hf Hr] & Ho).
      apply existsb_exists. exists h. split; [|exact Ho].
      unfold vetoes, hs. apply filter_In. split.
      + apply in_rev. rewrite rev_involutive. apply in_or_app. right. rewrite Hnegs.
        apply in_or_app. right. exact Hh.
      + rewrite Hf, Hr. reflexivity. }
  fold nv. rewrite Hclean.
  set (clean := filter (fun x => mem x (t_target t1)) (mu_called mu)).
  replace (forallb _ clean) with true; [reflexivity|].
  symmetry. apply forallb_forall. intros x Hx.
  destruct (mem x (resolve (sc s) (topo s) (active s) MAdd clean)) eqn:Ee; [|reflexivity].
  cbn [negb orb].
  assert (Hxc : In x (mu_called mu) /\ In x (t_target t1)).
  { apply filter_In in Hx. destruct Hx as [Y1 Y2]. apply mem_In in Y2. tauto. }
  (* the transition is applied *)
  assert (Hcf : canceled = false).
  { rewrite Hcform. apply orb_false_iff. split.
    - apply negb_false_iff. rewrite Tacc, Hjoint. unfold setup_accepted. rewrite Hty, Hm. cbn [andb].
      replace (length (diff (mu_called mu) joint) <? length (mu_called mu)) with true; [reflexivity|].
      symmetry. apply Nat.ltb_lt. unfold diff.
      apply (filter_length_lt _ _ _ x (proj1 Hxc)). apply negb_false_iff. apply mem_In.
      rewrite <- Hjoint. apply I1. apply Hxc.
    - destruct (t_target t1) as [|j q]; [destruct Hxc as [_ []]|]. cbn. rewrite !andb_false_r. reflexivity. }
  destruct O as [N|A]; [destruct N as ([Hc|Hc] & _); congruence|].
  destruct A as (_ & _ & _ & Ha & _ & _ & _ & _ & _ & _ & _ & _ & Ht & _).
  assert (Hact : active s' = resolve (sc s) (topo s) (active s) MAdd clean).
  { rewrite Ha, Ht, Hm, Htg1. unfold retarget_of, resolve.
    rewrite diff_diff_filter. fold clean. rewrite Hty. apply target_states_madd; reflexivity. }
  apply mem_In. apply filter_In.
  assert (Hxl : x < length (clock s')).
  { rewrite P1', Csc. apply (Hcal x (proj1 Hxc)). }
  rewrite Haf. split; [apply in_seq; lia|].
  rewrite (P2' x Hxl), Hact. exact Ee.
Qed.

(* ------------------------------------------------------------------ *)
(* the run induction: Iloop + no crash + the judged clause per record  *)
(* ------------------------------------------------------------------ *)

Definition lastact (hl : list nat) (s : st) : Prop :=
  match txs s with
  | t :: _ => triggers_auto hl t = true -> active s = tx_target t
  | [] => True
  end.

Definition jrec (s : st) (t : txrec) : Prop :=
  tx_hto t <= length (hlog s) /\ judged_codes (sc s) (topo s) (rev (hlog s)) t = [].

Definition J (sch : schema) (tp hl : list nat) (bs : list (list hkey)) (s : st) : Prop :=
  Iloop sch tp hl bs s /\ crashed s = false /\ lastact hl s /\ Forall (jrec s) (txs s).

Lemma J_frame : forall sch tp hl bs s s',
  J sch tp hl bs s -> fr s s' ->
  (pend sch hl (txs s) (queue s) -> pend sch hl (txs s) (queue s')) ->
  J sch tp hl bs s'.
Proof.
  intros sch tp hl bs s s' (I & Hcr & Hla & Hj) F Hq. pose proof F as (K & A & L).
  split; [eapply Iloop_frame; [exact I | exact F | intros _; exact Hq]|].
  split; [rewrite (keeps_crashed _ _ K); exact Hcr|]. split.
  - unfold lastact in *. rewrite (keeps_txs _ _ K), (keeps_active _ _ K). exact Hla.
  - rewrite (keeps_txs _ _ K). eapply Forall_impl; [|exact Hj]. intros t [Y1 Y2]. unfold jrec.
    rewrite L, (keeps_sc _ _ K), (keeps_topo _ _ K). tauto.
Qed.

Lemma J_qonly_idle : forall sch tp hl bs s s',
  J sch tp hl bs s -> queue s = [] -> qonly s s' -> J sch tp hl bs s'.
Proof.
  intros sch tp hl bs s s' Hj Hq Q. eapply J_frame; [exact Hj | apply qonly_fr; exact Q|].
  intros Hp. rewrite Hq in Hp. apply pend_empty_queue; [exact Hp|].
  destruct Q as (_ & _ & _ & Qn). apply Qn. rewrite Hq. constructor.
Qed.

Lemma auto_candidates_props : forall scm act x, In x (auto_candidates scm act) ->
  x < length scm /\ s_auto (sget scm x) = true /\ ~ In x act.
Proof.
  intros scm act x H. unfold auto_candidates, all_states in H. apply filter_In in H.
  destruct H as [Hs Hb]. apply in_seq in Hs.
  apply andb_true_iff in Hb. destruct Hb as [Hb _]. apply andb_true_iff in Hb. destruct Hb as [Ha Hn].
  split; [lia|]. split; [exact Ha|]. apply mem_false. apply negb_true_iff. exact Hn.
Qed.

Lemma J_drain_step : forall sch tp hl bs s mu rest s2 r,
  J sch tp hl bs s -> queue s = mu :: rest ->
  run_tx (popped s mu rest) mu = (s2, r) -> J sch tp hl bs s2.
Proof.
  intros sch tp hl bs s mu rest s2 r (I & Hcr & Hla & Hj) Hq H.
  pose proof (drain_step_inv _ _ _ _ _ _ _ _ _ I Hcr Hq H) as I2.
  destruct I as (I0 & I1 & I2' & I3 & G & [Hnd Hpa] & Hr & Hc & Hp).
  destruct (popped_fr s mu rest) as [(K & A & L) Hq1].
  remember (popped s mu rest) as s1 eqn:Es1.
  assert (G1 : good s1) by (eapply keeps_good; [exact K | exact G | rewrite A; apply G]).
  assert (Hnd1 : NoDup (active s1)) by (rewrite (keeps_active _ _ K); exact Hnd).
  assert (Hpa1 : parity s1).
  { destruct Hpa as [P1 P2]. unfold parity.
    rewrite (keeps_clock _ _ K), (keeps_sc _ _ K), (keeps_active _ _ K). split; assumption. }
  destruct (no_crash_step_lemma _ _ _ _ G1 Hnd1 H) as [Hcr2 (rec & Htx2)].
  destruct (run_tx_outcome _ _ _ _ G1 H)
    as (negs & fins & canceled & tgt1 & L2 & C2 & _ & _ & _ & _ & _ & _ & _ & O).
  destruct C2 as (C2a & C2b & C2c & _).
  assert (Rb : rec_base s1 mu s2 rec).
  { destruct O as [(_ & Hx & _)|(rec' & Rb & _)].
    - rewrite Hx in Htx2. exfalso. eapply cons_neq_self. exact Htx2.
    - destruct Rb as (Hx & Rb'). assert (rec' = rec) by (rewrite Hx in Htx2; inversion Htx2; reflexivity).
      subst rec'. split; assumption. }
  pose proof Rb as (_ & _ & _ & _ & Hau & _ & _ & _ & _ & _ & Hto & _).
  split; [exact I2|]. split; [rewrite Hcr2, (keeps_crashed _ _ K); exact Hcr|]. split.
  - unfold lastact. rewrite Htx2. intros Ht.
    destruct (auto_follows_step_lemma _ _ _ _ _ G1 H Htx2) as [Y _].
    rewrite (keeps_health _ _ K), I2' in Y. apply Y. exact Ht.
  - rewrite Htx2, (keeps_txs _ _ K). constructor.
    + unfold jrec. split; [rewrite Hto; lia|]. rewrite C2a, C2b.
      destruct (mu_auto mu) eqn:Em.
      * (* the queued auto mutation *)
        specialize (Hp Hcr). rewrite Hq in Hp. unfold pend in Hp.
        destruct (lastc sch hl (txs s)) as [|c cs] eqn:El.
        { inversion Hp as [|? ? Hm' Hr']. congruence. }
        destruct Hp as (q & Hx & _). injection Hx as Hmu _.
        apply (judged_veto_step_lemma s1 mu s2 r rec G1 Hnd1 Hpa1 Em); [|exact H | exact Htx2].
        rewrite Hmu. split; [reflexivity|]. split; [reflexivity|]. cbn [mu_called auto_mut].
        intros x Hx'. rewrite <- El in Hx'. rewrite (keeps_sc _ _ K), (keeps_active _ _ K), I1.
        unfold lastc in Hx'. unfold lastact in Hla. destruct (txs s) as [|t older]; [contradiction|].
        destruct (triggers_auto hl t) eqn:Et; [|contradiction].
        rewrite (Hla eq_refl). apply auto_candidates_props. exact Hx'.
      * unfold judged_codes. rewrite Hau. try rewrite Em. reflexivity.
    + eapply Forall_impl; [|exact Hj]. intros t [Y1 Y2]. unfold jrec.
      assert (L2' : hlog s2 = (fins ++ negs) ++ hlog s) by (rewrite L2, L, app_assoc; reflexivity).
      rewrite L2', C2a, C2b, (keeps_sc _ _ K), (keeps_topo _ _ K). split; [rewrite app_length; lia|].
      rewrite <- Y2. apply judged_codes_slice. apply slice_rev_ext. exact Y1.
Qed.

Lemma drain_J : forall sch tp hl bs fuel s first s' fr' ok,
  J sch tp hl bs s -> drain fuel s first = (s', fr', ok) ->
  J sch tp hl bs s' /\ (ok = true -> queue s' = []).
Proof.
  intros sch tp hl bs. induction fuel as [|f IH]; intros s first s' fr' ok Hj H.
  - cbn in H. inversion H; subst. split; [exact Hj | discriminate].
  - rewrite drain_unfold in H.
    assert (Hh : hung s = false) by apply Hj.
    assert (Hcr : crashed s = false) by apply Hj.
    rewrite Hh, Hcr in H. cbn [orb] in H.
    destruct (queue s) as [|mu rest] eqn:Eq.
    + inversion H; subst. split; [|intros _; cbn; exact Eq].
      eapply J_frame; [exact Hj | unfold fr, keeps; repeat split|]. intros Hp. cbn. exact Hp.
    + destruct (run_tx (popped s mu rest) mu) as [s2 r] eqn:Er.
      eapply IH; [|exact H]. eapply J_drain_step; eassumption.
Qed.

Lemma process_queue_J : forall sch tp hl bs fuel s s' res ok,
  J sch tp hl bs s -> process_queue fuel s = (s', res, ok) ->
  J sch tp hl bs s' /\ (ok = true -> queue s' = []).
Proof.
  intros sch tp hl bs fuel s s' res ok Hj H. unfold process_queue in H.
  destruct (queue s) eqn:Eq.
  - inversion H; subst. split; [exact Hj | intros _; exact Eq].
  - destruct (drain fuel s None) as [[s1 first] ok1] eqn:Ed. inversion H; subst.
    eapply drain_J; eassumption.
Qed.

Lemma top_mutation_J : forall sch tp hl bs fuel s mt sts args s' res ok,
  J sch tp hl bs s -> queue s = [] -> top_mutation fuel s mt sts args = (s', res, ok) ->
  J sch tp hl bs s' /\ (ok = true -> queue s' = []).
Proof.
  intros sch tp hl bs fuel s mt sts args s' res ok Hj Hq H. unfold top_mutation in H.
  destruct (queue_mutation s mt sts args) as [s1 tk] eqn:E.
  destruct (queue_mutation_cases _ _ _ _ _ _ E) as [[-> ->]|[Htk Q]].
  - cbn in H. inversion H; subst. split; [exact Hj | intros _; exact Hq].
  - rewrite Htk in H. destruct (process_queue fuel s1) as [[s2 r] ok2] eqn:Ep.
    inversion H; subst. eapply process_queue_J; [|exact Ep].
    eapply J_qonly_idle; eassumption.
Qed.

Lemma top_add_J : forall sch tp hl bs fuel s sts args s' res ok,
  J sch tp hl bs s -> queue s = [] -> top_add fuel s sts args = (s', res, ok) ->
  J sch tp hl bs s' /\ (ok = true -> queue s' = []).
Proof.
  intros sch tp hl bs fuel s sts args s' res ok Hj Hq H. unfold top_add in H.
  destruct (limit_hit s && _).
  - inversion H; subst. split; [exact Hj | intros _; exact Hq].
  - eapply top_mutation_J; eassumption.
Qed.

Lemma top_remove_J : forall sch tp hl bs fuel s sts args s' res ok,
  J sch tp hl bs s -> queue s = [] -> top_remove fuel s sts args = (s', res, ok) ->
  J sch tp hl bs s' /\ (ok = true -> queue s' = []).
Proof.
  intros sch tp hl bs fuel s sts args s' res ok Hj Hq H. unfold top_remove in H.
  destruct (limit_hit s && _).
  - inversion H; subst. split; [exact Hj | intros _; exact Hq].
  - eapply top_mutation_J; eassumption.
Qed.

Lemma top_api_J : forall sch tp hl bs fuel s c s' res ok,
  J sch tp hl bs s -> queue s = [] -> top_api fuel s c = (s', res, ok) ->
  J sch tp hl bs s' /\ (ok = true -> queue s' = []).
Proof.
  intros sch tp hl bs fuel s c s' res ok Hj Hq H. unfold top_api in H. destruct (ac_kind c).
  - eapply top_add_J; eassumption.
  - eapply top_remove_J; eassumption.
  - destruct (limit_hit s).
    + inversion H; subst. split; [exact Hj | intros _; exact Hq].
    + eapply top_mutation_J; eassumption.
  - destruct (mach_is s (ac_states c)).
    + eapply top_remove_J; eassumption.
    + eapply top_add_J; eassumption.
  - destruct (limit_hit s).
    + inversion H; subst. split; [exact Hj | intros _; exact Hq].
    + eapply top_add_J; [| |exact H].
      * eapply J_qonly_idle; [exact Hj | exact Hq | apply set_err_qonly; reflexivity].
      * exact Hq.
  - eapply process_queue_J; [|exact H].
    eapply J_qonly_idle; [exact Hj | exact Hq | apply prepend_mut_qonly; reflexivity].
  - eapply process_queue_J; [|exact H].
    eapply J_qonly_idle; [exact Hj | exact Hq | apply prepend_mut_qonly; reflexivity].
Qed.

Lemma run_calls_top_J : forall sch tp hl bs fuel cs s acc s' obs ok,
  J sch tp hl bs s -> queue s = [] ->
  run_calls_top fuel s cs acc = (s', obs, ok) -> J sch tp hl bs s'.
Proof.
  intros sch tp hl bs fuel. induction cs as [|c r IH]; intros s acc s' obs ok Hj Hq H.
  - cbn in H. inversion H; subst. exact Hj.
  - cbn [run_calls_top] in H.
    assert (Hh : hung s = false) by apply Hj.
    assert (Hcr : crashed s = false) by apply Hj.
    rewrite Hh, Hcr in H. cbn [orb] in H.
    destruct (top_api fuel s c) as [[s1 res] ok1] eqn:Et.
    destruct (top_api_J _ _ _ _ _ _ _ _ _ _ Hj Hq Et) as [J1 Hok1].
    assert (Hh1 : hung s1 = false) by apply J1.
    assert (Hcr1 : crashed s1 = false) by apply J1.
    rewrite Hh1, Hcr1 in H. cbn [orb] in H.
    destruct ok1.
    + eapply IH; [exact J1 | apply Hok1; reflexivity | exact H].
    + inversion H; subst. exact J1.
Qed.

Lemma init_J : forall sch tp hl ex bs ql acts,
  fault_free acts -> J sch tp hl bs (init_st sch tp hl ex bs ql acts).
Proof.
  intros sch tp hl ex bs ql acts F. split; [apply init_Iloop; exact F|].
  split; [reflexivity|]. split; [exact I | constructor].
Qed.

(* (2) no panic escapes a fault-free run *)
Lemma no_crash_fault_free_lemma : forall sch tp hl ex bs ql acts cs fuel,
  fault_free acts ->
  tr_crashed (run fuel (init_st sch tp hl ex bs ql acts) cs) = false /\
  tr_hung (run fuel (init_st sch tp hl ex bs ql acts) cs) = false.
Proof.
  intros sch tp hl ex bs ql acts cs fuel F. rewrite run_unfold.
  destruct (run_calls_top fuel (init_st sch tp hl ex bs ql acts) cs []) as [[s1 obs] ok] eqn:E.
  cbn. pose proof (run_calls_top_J _ _ _ _ _ _ _ _ _ _ _ (init_J sch tp hl ex bs ql acts F) eq_refl E) as Hj.
  split; apply Hj.
Qed.

(* (1) code 73 never fires on a fault-free run, vetoes included *)
Lemma judged_codes_run_lemma : forall sch tp hl ex bs ql acts cs fuel,
  fault_free acts ->
  forall t, In t (tr_txs (run fuel (init_st sch tp hl ex bs ql acts) cs)) ->
    judged_codes sch tp (tr_hlog (run fuel (init_st sch tp hl ex bs ql acts) cs)) t = [].
Proof.
  intros sch tp hl ex bs ql acts cs fuel F. rewrite run_unfold.
  destruct (run_calls_top fuel (init_st sch tp hl ex bs ql acts) cs []) as [[s1 obs] ok] eqn:E.
  cbn. intros t Ht. apply in_rev in Ht.
  pose proof (run_calls_top_J _ _ _ _ _ _ _ _ _ _ _ (init_J sch tp hl ex bs ql acts F) eq_refl E)
    as (I & _ & _ & Hj).
  destruct I as (I0 & I1 & _).
  rewrite Forall_forall in Hj. destruct (Hj t Ht) as [_ Y]. rewrite I0, I1 in Y. exact Y.
Qed.

(* all of c07_codes on fault-free runs that did not run out of fuel *)
Lemma c07_codes_run_lemma : forall sch tp hl ex bs ql acts cs fuel,
  fault_free acts ->
  tr_fuel_ok (run fuel (init_st sch tp hl ex bs ql acts) cs) = true ->
  c07_codes sch tp hl (run fuel (init_st sch tp hl ex bs ql acts) cs) = [].
Proof.
  intros sch tp hl ex bs ql acts cs fuel F Hok. unfold c07_codes.
  rewrite (follow_codes_ok_lemma _ _ _ _ _ _ _ _ _ F Hok).
  rewrite (flat_map_nil _ _ _ _ (judged_codes_run_lemma sch tp hl ex bs ql acts cs fuel F)).
  destruct (no_crash_fault_free_lemma sch tp hl ex bs ql acts cs fuel F) as [-> _]. reflexivity.
Qed.

(* BEnter vetoes inside the auto transition that calls B and C: B is rejected,
   C is activated, the clause is satisfied *)
Example judged_codes_run_nonvacuous :
  let bs := [[HEnter 1; HEnter 2]] in
  let tr := run 100 (init_st ex_sch2 [] [] 3 bs 1000 [ex_act false]) [ex_add [0]] in
  tr_fuel_ok tr = true /\ tr_crashed tr = false /\
  match nth_error (tr_txs tr) 1 with
  | Some t =>
    tx_auto t = true /\ tx_called t = [1; 2] /\ tx_accepted t = true /\ tx_target t = [2; 0] /\
    map (fun h => (hl_key h, hl_ret h)) (slice (tr_hlog tr) (tx_hfrom t) (tx_hto t))
      = [(HEnter 1, false); (HEnter 2, true)] /\
    judged_codes ex_sch2 [] (tr_hlog tr) t = []
  | None => False
  end /\
  c07_codes ex_sch2 [] [] tr = [].
Proof. vm_compute. repeat split; reflexivity. Qed.
