(* C07 — the judged clause (code 73) with vetoes, and the unreachability of
   the escaping panic (NCrash / code 74) on fault-free runs. Builds on
   Proofs/C05C07Proofs.v. Lemmas only; restated in Props/C07.v. *)
From Coq Require Import List Bool Arith NArith Lia Permutation.
From AMV Require Import Base.ListSet Model.Schema Model.Resolver Model.Machine
  Spec.C01 Spec.C05 Spec.C07.
From AMV Require Import Proofs.C05C07Proofs.
Import ListNotations.

(* ------------------------------------------------------------------ *)
(* what a negotiation phase of an auto transition does to the target   *)
(* ------------------------------------------------------------------ *)

Definition isveto (h : hlentry) : Prop := is_final_key (hl_key h) = false /\ hl_ret h = false.

Definition ownveto (a : nat) (new : list hlentry) : Prop :=
  exists h, In h new /\ isveto h /\ own_key a (hl_key h) = true.

(* a veto that cannot speak for a called Auto state of an auto mutation whose
   called states are inactive Auto states *)
Definition glob (scm : schema) (act : list nat) (h : hlentry) : Prop :=
  forall x, own_key x (hl_key h) = true -> s_auto (sget scm x) = false \/ In x act.

Definition PH (scm : schema) (act : list nat) (t t' : tstate) (nr : nres)
  (new : list hlentry) : Prop :=
  incl (t_target t') (t_target t) /\
  (NoDup (t_target t) -> NoDup (t_target t')) /\
  (forall a, In a (t_target t) -> ~ In a (t_target t') -> ownveto a new) /\
  (nr = NOk -> NoDup (t_target t) -> forall h x, In h new -> hl_ret h = false ->
     own_key x (hl_key h) = true -> s_auto (sget scm x) = true -> ~ In x (t_target t')) /\
  (nr = NCancel -> exists h, In h new /\ isveto h /\ glob scm act h).

Lemma ownveto_app : forall a n1 n2, ownveto a n1 \/ ownveto a n2 -> ownveto a (n2 ++ n1).
Proof.
  intros a n1 n2 [(h & Hh & R)|(h & Hh & R)]; exists h; (split; [|exact R]); apply in_or_app; tauto.
Qed.

Lemma PH_refl : forall scm act t, PH scm act t t NOk [].
Proof.
  intros scm act t. unfold PH. split; [apply incl_refl|]. split; [tauto|].
  split; [intros a H Hn; contradiction|]. split; [intros _ _ h x []|discriminate].
Qed.

Lemma PH_seq : forall scm act t t1 t2 nr n1 n2,
  PH scm act t t1 NOk n1 -> PH scm act t1 t2 nr n2 -> PH scm act t t2 nr (n2 ++ n1).
Proof.
  intros scm act t t1 t2 nr n1 n2 (I1 & N1 & D1 & V1 & _) (I2 & N2 & D2 & V2 & C2).
  unfold PH. split; [eapply incl_tran; eassumption|]. split; [tauto|]. split; [|split].
  - intros a Ha Hn. apply ownveto_app.
    destruct (in_dec Nat.eq_dec a (t_target t1)) as [H1|H1].
    + right. apply D2; assumption.
    + left. apply D1; assumption.
  - intros Hnr Hnd h x Hh Hr Ho Ha. apply in_app_or in Hh. destruct Hh as [Hh|Hh].
    + apply (V2 Hnr (N1 Hnd) h x Hh Hr Ho Ha).
    + intros Hin. apply (V1 eq_refl Hnd h x Hh Hr Ho Ha). apply I2. exact Hin.
  - intros Hnr. destruct (C2 Hnr) as (h & Hh & R). exists h. split; [apply in_or_app; left; exact Hh | exact R].
Qed.

Lemma own_key_inj : forall x y k, own_key x k = true -> own_key y k = true -> x = y.
Proof.
  intros x y k Hx Hy. destruct k; cbn in *; try discriminate;
    apply Nat.eqb_eq in Hx; apply Nat.eqb_eq in Hy; congruence.
Qed.

Lemma In_without_neq : forall l x a, In a l -> a <> x -> In a (without l x).
Proof.
  induction l as [|y r IH]; intros x a Ha Hn; [contradiction|].
  cbn. destruct (Nat.eqb x y) eqn:E.
  - apply Nat.eqb_eq in E. subst y. destruct Ha as [Ha|Ha]; [congruence | exact Ha].
  - destruct Ha as [Ha|Ha]; [left; exact Ha | right; apply IH; assumption].
Qed.

Lemma NoDup_without_notin : forall l x, NoDup l -> ~ In x (without l x).
Proof.
  intros l x H. induction H as [|y r Hn Hr IH]; [intros []|].
  cbn. destruct (Nat.eqb x y) eqn:E.
  - apply Nat.eqb_eq in E. subst y. exact Hn.
  - intros [Hx|Hx]; [apply Nat.eqb_neq in E; congruence | contradiction].
Qed.

(* one handle call *)
Lemma handle_v : forall s t k s1 t1 ok,
  good s -> t_invalid t = false -> is_final_key k = false -> handle s t k = (s1, t1, ok) ->
  t1 = t /\ good s1 /\ sc s1 = sc s /\ active s1 = active s /\
  exists n1, hlog s1 = n1 ++ hlog s /\ Forall (fun h => hl_key h = k) n1 /\
    (ok = true -> Forall rettrue n1) /\
    (ok = false -> exists e, In e n1 /\ hl_ret e = false).
Proof.
  intros s t k s1 t1 ok G Hinv Hf H.
  destruct (handle_ff _ _ _ _ _ _ G Hinv H) as (Ht & K & G1 & _ & n1 & L & En & _ & V & _).
  split; [exact Ht|]. split; [exact G1|]. split; [apply (keeps_sc _ _ K)|].
  split; [apply (keeps_active _ _ K)|]. exists n1. split; [exact L|]. split.
  - eapply Forall_impl; [|exact En]. intros h (Y & _). exact Y.
  - destruct (V Hf) as [[-> Hall]|[-> (e & rest & -> & Hr & _)]].
    + split; [intros _; exact Hall | discriminate].
    + split; [discriminate|]. intros _. exists e. split; [left; reflexivity | exact Hr].
Qed.

(* PH for one step: accepted, vetoed with deletion, vetoed with stop *)
Lemma PH_ok : forall scm act t n1, Forall rettrue n1 -> PH scm act t t NOk n1.
Proof.
  intros scm act t n1 Hall. unfold PH. split; [apply incl_refl|]. split; [tauto|].
  split; [intros a H Hn; contradiction|]. split; [|discriminate].
  intros _ _ h x Hh Hr. rewrite Forall_forall in Hall. specialize (Hall h Hh).
  unfold rettrue in Hall. congruence.
Qed.

Lemma PH_del : forall scm act t k x n1 e,
  is_final_key k = false -> own_key x k = true ->
  Forall (fun h => hl_key h = k) n1 -> In e n1 -> hl_ret e = false ->
  PH scm act t (with_target t (delete_state (t_target t) x)) NOk n1.
Proof.
  intros scm act t k x n1 e Hf Ho Hk He Hr. unfold PH. cbn [t_target with_target].
  unfold delete_state. split; [apply without_incl|]. split; [apply NoDup_without|].
  split; [|split; [|discriminate]].
  - intros a Ha Hn. rewrite (without_other _ _ _ Ha Hn). exists e. split; [exact He|].
    rewrite Forall_forall in Hk. unfold isveto. rewrite (Hk e He). split; [split; assumption | exact Ho].
  - intros _ Hnd h y Hh _ Hoy _. rewrite Forall_forall in Hk. rewrite (Hk h Hh) in Hoy.
    rewrite (own_key_inj y x k Hoy Ho). apply NoDup_without_notin. exact Hnd.
Qed.

Lemma PH_stop : forall scm act t k n1 e nr,
  is_final_key k = false -> Forall (fun h => hl_key h = k) n1 -> In e n1 -> hl_ret e = false ->
  (nr = NCancel -> glob scm act e) -> nr <> NOk ->
  PH scm act t t nr n1.
Proof.
  intros scm act t k n1 e nr Hf Hk He Hr Hg Hn. unfold PH. split; [apply incl_refl|].
  split; [tauto|]. split; [intros a H Hx; contradiction|]. split; [intros Hx; contradiction|].
  intros Hc. exists e. split; [exact He|]. split; [|apply Hg; exact Hc].
  rewrite Forall_forall in Hk. unfold isveto. rewrite (Hk e He). split; assumption.
Qed.

Lemma glob_key : forall scm act e k, hl_key e = k ->
  (forall x, own_key x k = true -> s_auto (sget scm x) = false \/ In x act) -> glob scm act e.
Proof. intros scm act e k <- H. exact H. Qed.

Lemma emit_exits_PH : forall l s t s' t' nr scm act,
  good s -> t_invalid t = false -> (forall x, In x l -> ~ In x (t_target t)) ->
  emit_exits s t l = (s', t', nr) ->
  forall new, hlog s' = new ++ hlog s -> PH scm act t t' nr new /\ nr <> NCrash /\ t' = t.
Proof.
  induction l as [|x r IH]; intros s t s' t' nr scm act G Hinv Hd H new L.
  - simpl in H. inversion H; subst. change (hlog s') with ([] ++ hlog s') in L at 1.
    apply app_inv_tail in L. subst new. split; [apply PH_refl | split; [discriminate | reflexivity]].
  - cbn [emit_exits] in H. destruct (handle s t (HExit x)) as [[s1 t1] ok] eqn:Eh.
    destruct (handle_v s t (HExit x) _ _ _ G Hinv eq_refl Eh)
      as (-> & G1 & _ & _ & n1 & L1 & Hk & Hok & Hve).
    assert (Hh : hung s1 = false) by apply G1. rewrite Hh in H.
    assert (Hstop : (s1, t, NCancel) = (s', t', nr) -> ok = false ->
                    PH scm act t t' nr new /\ nr <> NCrash /\ t' = t).
    { intros E Hf. destruct (Hve Hf) as (e & He & Hr).
      inversion E; subst s' t' nr. rewrite L1 in L. apply app_inv_tail in L. subst new.
      split; [|split; [discriminate | reflexivity]].
      eapply (PH_stop _ _ _ (HExit x)); try eassumption; [reflexivity| |discriminate].
      intros _. eapply glob_key; [rewrite Forall_forall in Hk; apply Hk; exact He|].
      intros y Hy. discriminate. }
    destruct ok.
    + destruct (nspec_log _ _ _ _ _ _ _ _ (emit_exits_ff _ _ _ _ _ _ G1 Hinv H)) as (n2 & L2 & _).
      assert (new = n2 ++ n1).
      { rewrite L2, L1, app_assoc in L. apply app_inv_tail in L. symmetry. exact L. }
      subst new.
      destruct (IH _ _ _ _ _ scm act G1 Hinv (fun y Hy => Hd y (or_intror Hy)) H n2 L2) as (P2 & Hn & Ht).
      split; [|split; [exact Hn | exact Ht]]. eapply PH_seq; [apply PH_ok; apply Hok; reflexivity | exact P2].
    + replace (mem x (t_target t)) with false in H
        by (symmetry; apply mem_false; apply Hd; left; reflexivity).
      destruct (mu_auto (t_mut t) && is_auto_state s x); apply Hstop; try exact H; reflexivity.
Qed.

Lemma emit_enters_PH : forall l s t s' t' nr,
  good s -> t_invalid t = false -> mu_auto (t_mut t) = true ->
  NoDup l -> incl l (t_target t) ->
  emit_enters s t l = (s', t', nr) ->
  forall new, hlog s' = new ++ hlog s -> PH (sc s) (active s) t t' nr new /\ nr <> NCrash.
Proof.
  induction l as [|x r IH]; intros s t s' t' nr G Hinv Hm Hnd Hin H new L.
  - simpl in H. inversion H; subst. change (hlog s') with ([] ++ hlog s') in L at 1.
    apply app_inv_tail in L. subst new. split; [apply PH_refl | discriminate].
  - inversion Hnd as [|? ? Hx Hr]; subst.
    cbn [emit_enters] in H. destruct (handle s t (HEnter x)) as [[s1 t1] ok] eqn:Eh.
    destruct (handle_v s t (HEnter x) _ _ _ G Hinv eq_refl Eh)
      as (-> & G1 & Hs1 & Ha1 & n1 & L1 & Hk & Hok & Hve).
    assert (Hh : hung s1 = false) by apply G1. rewrite Hh in H.
    assert (Hcont : forall tt, emit_enters s1 tt r = (s', t', nr) -> t_invalid tt = false ->
              mu_auto (t_mut tt) = true -> incl r (t_target tt) -> PH (sc s) (active s) t tt NOk n1 ->
              PH (sc s) (active s) t t' nr new /\ nr <> NCrash).
    { intros tt Hr' Hi Hmt Hit P1.
      destruct (nspec_log _ _ _ _ _ _ _ _ (emit_enters_ff _ _ _ _ _ _ G1 Hi Hr')) as (n2 & L2 & _).
      assert (new = n2 ++ n1).
      { rewrite L2, L1, app_assoc in L. apply app_inv_tail in L. symmetry. exact L. }
      subst new.
      destruct (IH _ _ _ _ _ G1 Hi Hmt Hr Hit Hr' n2 L2) as [P2 Hn]. rewrite Hs1, Ha1 in P2.
      split; [|exact Hn]. eapply PH_seq; eassumption. }
    destruct ok.
    + apply (Hcont t H Hinv Hm); [intros y Hy; apply Hin; right; exact Hy|].
      apply PH_ok. apply Hok. reflexivity.
    + destruct (Hve eq_refl) as (e & He & Hre). rewrite Hm in H. cbn [andb] in H.
      destruct (is_auto_state s x) eqn:Eau.
      * replace (mem x (t_target t)) with true in H
          by (symmetry; apply mem_In; apply Hin; left; reflexivity).
        apply (Hcont _ H Hinv Hm).
        -- intros y Hy. cbn. apply In_without_neq; [apply Hin; right; exact Hy|].
           intros ->. contradiction.
        -- eapply (PH_del _ _ _ (HEnter x) x); try eassumption; [reflexivity | cbn; apply Nat.eqb_refl].
      * inversion H; subst. rewrite L1 in L. apply app_inv_tail in L. subst new.
        split; [|discriminate].
        eapply (PH_stop _ _ _ (HEnter x)); try eassumption; [reflexivity| |discriminate].
        intros _. eapply glob_key; [rewrite Forall_forall in Hk; apply Hk; exact He|].
        intros y Hy. cbn in Hy. apply Nat.eqb_eq in Hy. subst y. left. exact Eau.
Qed.

Fixpoint somes (arr : list (option nat)) : list nat :=
  match arr with
  | [] => []
  | Some x :: r => x :: somes r
  | None :: r => somes r
  end.

Lemma somes_app : forall a b, somes (a ++ b) = somes a ++ somes b.
Proof.
  induction a as [|[x|] r IH]; intros b; cbn; [reflexivity | rewrite IH; reflexivity | apply IH].
Qed.

Lemma somes_shift_delete : forall arr x, somes (shift_delete arr x) = without (somes arr) x.
Proof.
  induction arr as [|[y|] r IH]; intros x; cbn; [reflexivity| |apply IH].
  destruct (Nat.eqb x y).
  - rewrite somes_app. cbn. apply app_nil_r.
  - cbn. rewrite IH. reflexivity.
Qed.

Lemma somes_map_Some : forall l, somes (map Some l) = l.
Proof. induction l as [|x r IH]; cbn; [reflexivity | rewrite IH; reflexivity]. Qed.

Lemma nth_error_somes : forall arr i x, nth_error arr i = Some (Some x) -> In x (somes arr).
Proof.
  induction arr as [|[y|] r IH]; intros [|i] x H; cbn in *; try discriminate.
  - inversion H. left. reflexivity.
  - right. eapply IH. exact H.
  - eapply IH. exact H.
Qed.

Lemma emit_selfs_PH : forall fuel s t arr i last s' t' nr,
  good s -> t_invalid t = false -> mu_auto (t_mut t) = true ->
  somes arr = t_target t ->
  emit_selfs fuel s t arr i last = (s', t', nr) ->
  forall new, hlog s' = new ++ hlog s ->
    incl (t_target t') (t_target t) /\
    (NoDup (t_target t) -> NoDup (t_target t')) /\
    (forall a, In a (t_target t) -> ~ In a (t_target t') -> ownveto a new) /\
    (nr = NOk -> NoDup (t_target t) -> forall h x, In h new -> hl_ret h = false ->
       own_key x (hl_key h) = true -> s_auto (sget (sc s) x) = true -> ~ In x (t_target t')) /\
    (nr = NCancel -> (last = true \/ new <> []) ->
       exists h, In h new /\ isveto h /\ glob (sc s) (active s) h) /\
    nr <> NCrash.
Proof.
  induction fuel as [|f IH]; intros s t arr i last s' t' nr G Hinv Hm Hso H new L.
  - simpl in H. inversion H; subst. change (hlog s') with ([] ++ hlog s') in L at 1.
    apply app_inv_tail in L. subst new.
    split; [apply incl_refl|]. split; [tauto|]. split; [intros a Ha Hn; contradiction|].
    split; [intros _ _ h x []|]. split; [|destruct last; discriminate].
    destruct last; [discriminate|]. intros _ [Hx|Hx]; [discriminate | contradiction].
  - cbn [emit_selfs] in H. destruct (nth_error arr i) as [[x|]|] eqn:En.
    + destruct (negb (is_active s x)) eqn:Eact; [eapply IH; eassumption|].
      destruct (handle s t (HSelf x)) as [[s1 t1] ok] eqn:Eh.
      destruct (handle_v s t (HSelf x) _ _ _ G Hinv eq_refl Eh)
        as (-> & G1 & Hs1 & Ha1 & n1 & L1 & Hk & Hok & Hve).
      assert (Hhu : hung s1 = false) by apply G1. rewrite Hhu in H. clear Hhu.
      assert (Hxa : In x (active s)).
      { apply negb_false_iff in Eact. apply mem_In. exact Eact. }
      assert (Hxt : In x (t_target t)) by (rewrite <- Hso; eapply nth_error_somes; exact En).
      destruct ok.
      * destruct (nspec_log _ _ _ _ _ _ _ _ (emit_selfs_ff _ _ _ _ _ _ _ _ _ G1 Hinv H)) as (n2 & L2 & _).
        assert (new = n2 ++ n1).
        { rewrite L2, L1, app_assoc in L. apply app_inv_tail in L. symmetry. exact L. }
        subst new.
        destruct (IH _ _ _ _ _ _ _ _ G1 Hinv Hm Hso H n2 L2) as (I2 & N2 & D2 & V2 & C2 & X2).
        rewrite Hs1, Ha1 in *.
        split; [exact I2|]. split; [exact N2|]. split; [|split; [|split; [|exact X2]]].
        -- intros a Ha Hn. apply ownveto_app. right. apply D2; assumption.
        -- intros Hnr Hnd h y Hh Hr Ho Hau. apply in_app_or in Hh. destruct Hh as [Hh|Hh].
           ++ apply (V2 Hnr Hnd h y Hh Hr Ho Hau).
           ++ exfalso. pose proof (Hok eq_refl) as Hall. rewrite Forall_forall in Hall.
              specialize (Hall h Hh). unfold rettrue in Hall. congruence.
        -- intros Hnr _. destruct (C2 Hnr (or_introl eq_refl)) as (h & Hh & R).
           exists h. split; [apply in_or_app; left; exact Hh | exact R].
      * destruct (Hve eq_refl) as (e & He & Hre). rewrite Hm in H. cbn [andb] in H.
        assert (Hge : glob (sc s) (active s) e).
        { eapply glob_key; [rewrite Forall_forall in Hk; apply Hk; exact He|].
          intros y Hy. cbn in Hy. apply Nat.eqb_eq in Hy. subst y. right. exact Hxa. }
        assert (Hie : isveto e).
        { rewrite Forall_forall in Hk. unfold isveto. rewrite (Hk e He). split; [reflexivity | exact Hre]. }
        destruct (is_auto_state s x) eqn:Eau.
        -- replace (mem x (t_target t)) with true in H by (symmetry; apply mem_In; exact Hxt).
           assert (Hinv' : t_invalid (with_target t (delete_state (t_target t) x)) = false) by exact Hinv.
           assert (Hm' : mu_auto (t_mut (with_target t (delete_state (t_target t) x))) = true) by exact Hm.
           destruct (nspec_log _ _ _ _ _ _ _ _ (emit_selfs_ff _ _ _ _ _ _ _ _ _ G1 Hinv' H)) as (n2 & L2 & _).
           assert (new = n2 ++ n1).
           { rewrite L2, L1, app_assoc in L. apply app_inv_tail in L. symmetry. exact L. }
           subst new.
           assert (Hso' : somes (shift_delete arr x)
                          = t_target (with_target t (delete_state (t_target t) x))).
           { rewrite somes_shift_delete, Hso. reflexivity. }
           destruct (IH _ _ _ _ _ _ _ _ G1 Hinv' Hm' Hso' H n2 L2) as (I2 & N2 & D2 & V2 & C2 & X2).
           rewrite Hs1, Ha1 in *.
           destruct (PH_del (sc s) (active s) t (HSelf x) x n1 e eq_refl
                       (Nat.eqb_refl x) Hk He Hre) as (I1 & N1 & D1 & V1 & _).
           split; [eapply incl_tran; eassumption|]. split; [tauto|].
           split; [|split; [|split; [|exact X2]]].
           ++ intros a Ha Hn. apply ownveto_app.
              destruct (in_dec Nat.eq_dec a (t_target (with_target t (delete_state (t_target t) x))))
                as [H1|H1]; [right; apply D2; assumption | left; apply D1; assumption].
           ++ intros Hnr Hnd h y Hh Hr Ho Hau. apply in_app_or in Hh. destruct Hh as [Hh|Hh].
              ** apply (V2 Hnr (N1 Hnd) h y Hh Hr Ho Hau).
              ** intros Hin. apply (V1 eq_refl Hnd h y Hh Hr Ho Hau). apply I2. exact Hin.
           ++ intros _ _. exists e. split; [apply in_or_app; right; exact He|]. split; assumption.
        -- inversion H; subst. rewrite L1 in L. apply app_inv_tail in L. subst new.
           split; [apply incl_refl|]. split; [tauto|]. split; [intros a Ha Hn; contradiction|].
           split; [discriminate|]. split; [|discriminate].
           intros _ _. exists e. split; [exact He|]. split; assumption.
    + eapply IH; eassumption.
    + inversion H; subst. change (hlog s') with ([] ++ hlog s') in L at 1.
      apply app_inv_tail in L. subst new.
      split; [apply incl_refl|]. split; [tauto|]. split; [intros a Ha Hn; contradiction|].
      split; [intros _ _ h x []|]. split; [|destruct last; discriminate].
      destruct last; [discriminate|]. intros _ [Hx|Hx]; [discriminate | contradiction].
Qed.

Lemma emit_trans_inner_PH : forall after s t b s' t' nr,
  good s -> t_invalid t = false -> mu_auto (t_mut t) = true ->
  emit_trans_inner s t b after = (s', t', nr) ->
  forall new, hlog s' = new ++ hlog s -> PH (sc s) (active s) t t' nr new /\ nr <> NCrash.
Proof.
  induction after as [|a r IH]; intros s t b s' t' nr G Hinv Hm H new L.
  - simpl in H. inversion H; subst. change (hlog s') with ([] ++ hlog s') in L at 1.
    apply app_inv_tail in L. subst new. split; [apply PH_refl | discriminate].
  - cbn [emit_trans_inner] in H. destruct (Nat.eqb b a); [eapply IH; eassumption|].
    destruct (handle s t (HTrans b a)) as [[s1 t1] ok] eqn:Eh.
    destruct (handle_v s t (HTrans b a) _ _ _ G Hinv eq_refl Eh)
      as (-> & G1 & Hs1 & Ha1 & n1 & L1 & Hk & Hok & Hve).
    assert (Hhu : hung s1 = false) by apply G1. rewrite Hhu in H. clear Hhu.
    assert (Hcont : forall tt, emit_trans_inner s1 tt b r = (s', t', nr) -> t_invalid tt = false ->
              mu_auto (t_mut tt) = true -> PH (sc s) (active s) t tt NOk n1 ->
              PH (sc s) (active s) t t' nr new /\ nr <> NCrash).
    { intros tt Hr' Hi Hmt P1.
      destruct (nspec_log _ _ _ _ _ _ _ _ (emit_trans_inner_ff _ _ _ _ _ _ _ G1 Hi Hr')) as (n2 & L2 & _).
      assert (new = n2 ++ n1).
      { rewrite L2, L1, app_assoc in L. apply app_inv_tail in L. symmetry. exact L. }
      subst new.
      destruct (IH _ _ _ _ _ _ G1 Hi Hmt Hr' n2 L2) as [P2 Hn]. rewrite Hs1, Ha1 in P2.
      split; [|exact Hn]. eapply PH_seq; eassumption. }
    destruct ok.
    + apply (Hcont t H Hinv Hm). apply PH_ok. apply Hok. reflexivity.
    + destruct (Hve eq_refl) as (e & He & Hre). rewrite Hm in H. cbn [andb] in H.
      destruct (is_auto_state s a) eqn:Eau.
      * apply (Hcont _ H Hinv Hm).
        eapply (PH_del _ _ _ (HTrans b a) a); try eassumption; [reflexivity | cbn; apply Nat.eqb_refl].
      * inversion H; subst. rewrite L1 in L. apply app_inv_tail in L. subst new.
        split; [|discriminate].
        eapply (PH_stop _ _ _ (HTrans b a)); try eassumption; [reflexivity| |discriminate].
        intros _. eapply glob_key; [rewrite Forall_forall in Hk; apply Hk; exact He|].
        intros y Hy. cbn in Hy. apply Nat.eqb_eq in Hy. subst y. left. exact Eau.
Qed.

Lemma emit_trans_PH : forall before after s t s' t' nr,
  good s -> t_invalid t = false -> mu_auto (t_mut t) = true ->
  emit_trans s t before after = (s', t', nr) ->
  forall new, hlog s' = new ++ hlog s -> PH (sc s) (active s) t t' nr new /\ nr <> NCrash.
Proof.
  induction before as [|b r IH]; intros after s t s' t' nr G Hinv Hm H new L.
  - simpl in H. inversion H; subst. change (hlog s') with ([] ++ hlog s') in L at 1.
    apply app_inv_tail in L. subst new. split; [apply PH_refl | discriminate].
  - cbn [emit_trans] in H.
    destruct (emit_trans_inner s t b after) as [[s1 t1] nr1] eqn:Ei.
    pose proof (emit_trans_inner_ff _ _ _ _ _ _ _ G Hinv Ei) as N1.
    destruct (nspec_frame _ _ _ _ _ _ _ _ N1) as (G1 & Hinv1 & _ & Ha1 & _ & _ & _ & Hm1).
    rewrite Hinv in Hinv1. apply (f_equal mu_auto) in Hm1. rewrite Hm in Hm1.
    destruct (nspec_log _ _ _ _ _ _ _ _ N1) as (n1 & L1 & _).
    destruct (emit_trans_inner_PH _ _ _ _ _ _ _ G Hinv Hm Ei n1 L1) as [P1 X1].
    assert (Hs1 : sc s1 = sc s).
    { destruct N1 as (? & B & _). destruct B as (K & _). apply (keeps_sc _ _ K). }
    destruct nr1.
    + destruct (nspec_log _ _ _ _ _ _ _ _ (emit_trans_ff _ _ _ _ _ _ _ G1 Hinv1 H)) as (n2 & L2 & _).
      assert (new = n2 ++ n1).
      { rewrite L2, L1, app_assoc in L. apply app_inv_tail in L. symmetry. exact L. }
      subst new.
      destruct (IH _ _ _ _ _ _ G1 Hinv1 Hm1 H n2 L2) as [P2 X2]. rewrite Hs1, Ha1 in P2.
      split; [|exact X2]. eapply PH_seq; eassumption.
    + inversion H; subst. rewrite L1 in L. apply app_inv_tail in L. subst new. split; assumption.
    + inversion H; subst. rewrite L1 in L. apply app_inv_tail in L. subst new. split; assumption.
Qed.

Lemma neg_tail_PH : forall s2 t2 s' t' nr,
  good s2 -> t_invalid t2 = false -> mu_auto (t_mut t2) = true ->
  neg_tail s2 t2 = (s', t', nr) ->
  forall new, hlog s' = new ++ hlog s2 -> PH (sc s2) (active s2) t2 t' nr new /\ nr <> NCrash.
Proof.
  intros s2 t2 s' t' nr G2 Hinv2 Hm H new L. unfold neg_tail in H. cbv zeta in H.
  assert (Hsel : forall s3 t3 nr3,
    emit_selfs (S (length (t_target t2))) s2 t2 (map Some (t_target t2)) 0 true = (s3, t3, nr3) ->
    match nr3 with
    | NOk => emit_trans s3 t3 (t_before t3) (t_target t3)
    | _ => (s3, t3, nr3)
    end = (s', t', nr) -> PH (sc s2) (active s2) t2 t' nr new /\ nr <> NCrash).
  { intros s3 t3 nr3 Es Hr.
    pose proof (emit_selfs_ff _ _ _ _ _ _ _ _ _ G2 Hinv2 Es) as N3.
    destruct (nspec_frame _ _ _ _ _ _ _ _ N3) as (G3 & Hinv3 & _ & Ha3 & _ & _ & _ & Hm3).
    rewrite Hinv2 in Hinv3. apply (f_equal mu_auto) in Hm3. rewrite Hm in Hm3.
    destruct (nspec_log _ _ _ _ _ _ _ _ N3) as (n3 & L3 & _).
    destruct (emit_selfs_PH _ _ _ _ _ _ _ _ _ G2 Hinv2 Hm (somes_map_Some _) Es n3 L3)
      as (I3 & N3' & D3 & V3 & C3 & X3).
    assert (P3 : PH (sc s2) (active s2) t2 t3 nr3 n3).
    { unfold PH. split; [exact I3|]. split; [exact N3'|]. split; [exact D3|]. split; [exact V3|].
      intros Hc. apply C3; [exact Hc | left; reflexivity]. }
    assert (Hs3 : sc s3 = sc s2).
    { destruct N3 as (? & B & _). destruct B as (K & _). apply (keeps_sc _ _ K). }
    destruct nr3.
    - destruct (nspec_log _ _ _ _ _ _ _ _ (emit_trans_ff _ _ _ _ _ _ _ G3 Hinv3 Hr)) as (n4 & L4 & _).
      assert (new = n4 ++ n3).
      { rewrite L4, L3, app_assoc in L. apply app_inv_tail in L. symmetry. exact L. }
      subst new.
      destruct (emit_trans_PH _ _ _ _ _ _ _ G3 Hinv3 Hm3 Hr n4 L4) as [P4 X4].
      rewrite Hs3, Ha3 in P4. split; [|exact X4]. eapply PH_seq; eassumption.
    - inversion Hr; subst. rewrite L3 in L. apply app_inv_tail in L. subst new. split; assumption.
    - inversion Hr; subst. rewrite L3 in L. apply app_inv_tail in L. subst new. split; assumption. }
  destruct (mu_type (t_mut t2)).
  - destruct (emit_selfs (S (length (t_target t2))) s2 t2 (map Some (t_target t2)) 0 true)
      as [[s3 t3] nr3] eqn:Es.
    apply (Hsel s3 t3 nr3 eq_refl). destruct nr3; exact H.
  - eapply emit_trans_PH; eassumption.
  - destruct (emit_selfs (S (length (t_target t2))) s2 t2 (map Some (t_target t2)) 0 true)
      as [[s3 t3] nr3] eqn:Es.
    apply (Hsel s3 t3 nr3 eq_refl). destruct nr3; exact H.
Qed.

Lemma negotiate_PH : forall s t s' t' nr,
  good s -> t_invalid t = false -> mu_auto (t_mut t) = true ->
  (forall x, In x (t_exits t) -> ~ In x (t_target t)) ->
  NoDup (t_enters t) -> incl (t_enters t) (t_target t) ->
  negotiate s t = (s', t', nr) ->
  forall new, hlog s' = new ++ hlog s -> PH (sc s) (active s) t t' nr new /\ nr <> NCrash.
Proof.
  intros s t s' t' nr G Hinv Hm Hx Hne Hie H new L. rewrite negotiate_eq in H.
  destruct (emit_exits s t (t_exits t)) as [[s1 t1] nr1] eqn:E1.
  pose proof (emit_exits_ff _ _ _ _ _ _ G Hinv E1) as N1.
  destruct (nspec_frame _ _ _ _ _ _ _ _ N1) as (G1 & _ & _ & Ha1 & _).
  destruct (nspec_log _ _ _ _ _ _ _ _ N1) as (n1 & L1 & _).
  destruct (emit_exits_PH _ _ _ _ _ _ (sc s) (active s) G Hinv Hx E1 n1 L1) as (P1 & X1 & ->).
  assert (Hs1 : sc s1 = sc s).
  { destruct N1 as (? & B & _). destruct B as (K & _). apply (keeps_sc _ _ K). }
  destruct nr1;
    [|inversion H; subst; rewrite L1 in L; apply app_inv_tail in L; subst new; split; assumption
     |inversion H; subst; rewrite L1 in L; apply app_inv_tail in L; subst new; split; assumption].
  destruct (emit_enters s1 t (t_enters t)) as [[s2 t2] nr2] eqn:E2.
  pose proof (emit_enters_ff _ _ _ _ _ _ G1 Hinv E2) as N2.
  destruct (nspec_frame _ _ _ _ _ _ _ _ N2) as (G2 & Hinv2 & _ & Ha2 & _ & _ & _ & Hm2).
  rewrite Hinv in Hinv2. apply (f_equal mu_auto) in Hm2. rewrite Hm in Hm2.
  destruct (nspec_log _ _ _ _ _ _ _ _ N2) as (n2 & L2 & _).
  destruct (emit_enters_PH _ _ _ _ _ _ G1 Hinv Hm Hne Hie E2 n2 L2) as [P2 X2].
  rewrite Hs1, Ha1 in P2.
  assert (Hs2 : sc s2 = sc s).
  { destruct N2 as (? & B & _). destruct B as (K & _). rewrite (keeps_sc _ _ K). exact Hs1. }
  assert (P12 : PH (sc s) (active s) t t2 nr2 (n2 ++ n1)) by (eapply PH_seq; eassumption).
  destruct nr2;
    [|inversion H; subst; rewrite L2, L1, app_assoc in L; apply app_inv_tail in L; subst new;
      split; assumption
     |inversion H; subst; rewrite L2, L1, app_assoc in L; apply app_inv_tail in L; subst new;
      split; assumption].
  destruct (nspec_log _ _ _ _ _ _ _ _ (neg_tail_ff _ _ _ _ _ G2 Hinv2 H)) as (n3 & L3 & _).
  destruct (neg_tail_PH _ _ _ _ _ G2 Hinv2 Hm2 H n3 L3) as [P3 X3].
  rewrite Hs2, Ha2, Ha1 in P3.
  assert (new = n3 ++ n2 ++ n1).
  { rewrite L3, L2, L1, !app_assoc in L. apply app_inv_tail in L. rewrite <- app_assoc in L.
    symmetry. exact L. }
  subst new. split; [|exact X3]. eapply PH_seq; eassumption.
Qed.

(* ------------------------------------------------------------------ *)
(* run_tx level                                                        *)
(* ------------------------------------------------------------------ *)

Lemma tx_neg_PH : forall s mu s1 t1 nr,
  good s -> NoDup (active s) -> mu_auto mu = true ->
  tx_neg (add_ev (add_ev s EvInit) EvStart) (new_transition s mu) = (s1, t1, nr) ->
  forall n1, hlog s1 = n1 ++ hlog s ->
    PH (sc s) (active s) (new_transition s mu) t1 nr n1 /\ nr <> NCrash.
Proof.
  intros s mu s1 t1 nr G Hnd Hm H n1 L.
  destruct (new_transition_facts s mu) as (Tm & _ & _ & Tinv & _ & _ & Tex).
  unfold tx_neg in H.
  destruct (has_handlers (add_ev (add_ev s EvInit) EvStart)
            && negb (negb (t_accepted (new_transition s mu)))) eqn:Eh.
  - apply andb_true_iff in Eh. destruct Eh as [_ Ea]. rewrite negb_involutive in Ea.
    destruct (Tex Ea) as [Hex Hen].
    assert (GA : good (add_ev (add_ev s EvInit) EvStart)) by exact G.
    apply (negotiate_PH (add_ev (add_ev s EvInit) EvStart) (new_transition s mu) s1 t1 nr GA Tinv);
      try assumption.
    + rewrite Tm. exact Hm.
    + intros x Hx. rewrite Hex in Hx. apply sort_states_In, diff_In in Hx. tauto.
    + rewrite Hen. apply NoDup_filter.
      destruct (new_transition_nodup s mu Hnd) as (_ & _ & _ & N4). exact N4.
    + rewrite Hen. intros x Hx. apply filter_In in Hx. tauto.
  - inversion H; subst. change (hlog (add_ev (add_ev s EvInit) EvStart)) with ([] ++ hlog s) in L.
    apply app_inv_tail in L. subst n1. split; [apply PH_refl | discriminate].
Qed.

(* (2) no panic escapes a fault-free transition *)
Lemma no_crash_step_lemma : forall s mu s' r,
  good s -> NoDup (active s) -> run_tx s mu = (s', r) ->
  crashed s' = crashed s /\ exists rec, txs s' = rec :: txs s.
Proof.
  intros s mu s' r G Hnd H.
  destruct (run_tx_outcome _ _ _ _ G H)
    as (negs & fins & canceled & tgt1 & _ & _ & _ & _ & _ & _ & _ & _ & _ & O).
  destruct O as [(_ & _ & _ & Hm & _ & _ & _ & _ & s1 & t1 & Ecr)|(rec & Rb & _)].
  - exfalso.
    assert (GA : good (add_ev (add_ev s EvInit) EvStart)) by exact G.
    destruct (new_transition_facts s mu) as (_ & _ & _ & Tinv & _).
    destruct (tx_neg_ff _ _ _ _ _ GA Tinv Ecr) as (n1 & B & _).
    destruct B as (_ & _ & _ & _ & L & _).
    destruct (tx_neg_PH _ _ _ _ _ G Hnd Hm Ecr n1 L) as [_ X]. apply X. reflexivity.
  - destruct Rb as (Htx & Hcr & _). split; [exact Hcr | exists rec; exact Htx].
Qed.

(* (1) the judged clause with vetoes *)
Definition auto_called_ok (s : st) (mu : mutation) : Prop :=
  mu_type mu = MAdd /\ mu_check mu = false /\
  forall x, In x (mu_called mu) ->
    x < length (sc s) /\ s_auto (sget (sc s) x) = true /\ ~ In x (active s).

Lemma judged_veto_step_lemma : forall s mu s' r rec,
  good s -> NoDup (active s) -> parity s -> mu_auto mu = true -> auto_called_ok s mu ->
  run_tx s mu = (s', r) -> txs s' = rec :: txs s ->
  judged_codes (sc s) (topo s) (rev (hlog s')) rec = [].
Proof.
  intros s mu s' r rec G Hnd Hpar Hm (Hty & Hck & Hcal) H Htx.
  pose proof (run_tx_parity _ _ _ _ G Hnd Hpar H) as [P1' P2'].
  destruct (new_transition_facts s mu) as (Tm & _ & _ & Tinv & Ttg & Tacc & _).
  destruct (run_tx_outcome _ _ _ _ G H)
    as (negs & fins & canceled & tgt1 & L & C & _ & _ & _ & (_ & _ & _ & _ & Ex) & _ & _ & _ & O).
  destruct C as (Csc & _).
  destruct O as [(_ & Hx & _)|(rec' & Rb & O)].
  { rewrite Hx in Htx. exfalso. eapply cons_neq_self. exact Htx. }
  assert (rec' = rec).
  { destruct Rb as (Hx & _). rewrite Hx in Htx. inversion Htx. reflexivity. }
  subst rec'.
  destruct Ex as (s1 & t1 & nr & n1 & n2 & Eneg & Htg1 & L1 & Hnegs & Kae & Hcan & Hcform).
  unfold keysin in Kae. rewrite Forall_forall in Kae.
  destruct (tx_neg_PH _ _ _ _ _ G Hnd Hm Eneg n1 L1) as [(I1 & N1 & D1 & V1 & C1) Xc].
  assert (L2 : hlog s' = (fins ++ negs) ++ hlog s) by (rewrite L, app_assoc; reflexivity).
  pose proof Rb as (_ & _ & _ & Hca & Hta & _ & _ & _ & Hab & Hfrom & Hto & _).
  assert (Hs : slice (rev (hlog s')) (tx_hfrom rec) (tx_hto rec) = rev (fins ++ negs)).
  { rewrite Hfrom, Hto, L2. apply (slice_rev_mid hlentry [] (fins ++ negs) (hlog s)). }
  assert (Haf : tx_after rec = clock s').
  { destruct O as [N|A].
    - destruct N as (_ & _ & Hc & _ & Ht & _). congruence.
    - destruct A as (_ & _ & _ & _ & Hc & _). congruence. }
  assert (Ff : Forall (fun h => is_final_key (hl_key h) = true) fins).
  { eapply outcome_fins_final. exact O. }
  unfold judged_codes. rewrite Hta, Hm. cbn [negb]. rewrite Hs, Hca, Hab.
  set (hs := rev (fins ++ negs)).
  set (vetoes := filter (fun h => negb (is_final_key (hl_key h)) && negb (hl_ret h)) hs).
  destruct (existsb (fun h => negb (existsb (fun x => own_key x (hl_key h)) (mu_called mu))) vetoes)
    eqn:Eg; [reflexivity|].
  (* every veto speaks for a called state *)
  assert (Hown : forall h, In h negs -> hl_ret h = false -> is_final_key (hl_key h) = false ->
            exists x, In x (mu_called mu) /\ own_key x (hl_key h) = true).
  { intros h Hh Hr Hf.
    assert (Hv : In h vetoes).
    { unfold vetoes, hs. apply filter_In. split.
      - apply in_rev. rewrite rev_involutive. apply in_or_app. right. exact Hh.
      - rewrite Hf, Hr. reflexivity. }
    destruct (existsb (fun x => own_key x (hl_key h)) (mu_called mu)) eqn:Ee.
    - apply existsb_exists in Ee. exact Ee.
    - exfalso. assert (Ht : existsb (fun h0 => negb (existsb (fun x => own_key x (hl_key h0))
                                                       (mu_called mu))) vetoes = true).
      { apply existsb_exists. exists h. split; [exact Hv|]. rewrite Ee. reflexivity. }
      congruence. }
  assert (Hnf : forall h, In h negs -> is_final_key (hl_key h) = false).
  { intros h Hh. rewrite Hnegs in Hh. apply in_app_or in Hh. destruct Hh as [Hh|Hh].
    - rewrite <- (Kae h Hh). reflexivity.
    - destruct (tx_neg_ff _ _ _ _ _ (G : good (add_ev (add_ev s EvInit) EvStart)) Tinv Eneg)
        as (n1' & B & _).
      destruct B as (_ & _ & _ & _ & L1' & _ & Bd).
      change (hlog (add_ev (add_ev s EvInit) EvStart)) with (hlog s) in L1'.
      rewrite L1 in L1'. apply app_inv_tail in L1'. subst n1'.
      apply rank_nonfinal. destruct Bd as [_ F]. rewrite Forall_forall in F.
      assert (In (rk h) (map rk (rev n1))) by (apply in_map, in_rev; rewrite rev_involutive; exact Hh).
      specialize (F _ H0). unfold rk in F. lia. }
  (* no veto of a non-called key: the negotiation was not canceled by a veto *)
  assert (Hnoglob : forall h, In h negs -> isveto h -> glob (sc s) (active s) h -> False).
  { intros h Hh [Hf Hr] Hg. destruct (Hown h Hh Hr Hf) as (x & Hx & Ho).
    destruct (Hcal x Hx) as (_ & Hau & Hna). destruct (Hg x Ho) as [Y|Y]; [congruence | contradiction]. }
  assert (Hnr : nr = NOk).
  { destruct nr; [reflexivity| |exfalso; apply Xc; reflexivity].
    exfalso. destruct (C1 eq_refl) as (h & Hh & Hv & Hg).
    apply (Hnoglob h); [rewrite Hnegs; apply in_or_app; right; exact Hh | exact Hv | exact Hg]. }
  assert (Hall2 : Forall rettrue n2).
  { apply Forall_forall. intros h Hh. unfold rettrue. destruct (hl_ret h) eqn:Er; [reflexivity|].
    exfalso. assert (Hin : In h negs) by (rewrite Hnegs; apply in_or_app; left; exact Hh).
    destruct (Hown h Hin Er (Hnf h Hin)) as (x & _ & Ho).
    rewrite <- (Kae h Hh) in Ho. discriminate. }
  specialize (Hcform Hnr Hall2).
  (* the accepted subset, as the spec computes it, is the model's *)
  set (joint := resolve (sc s) (topo s) (active s) MAdd (mu_called mu)).
  assert (Hjoint : t_target (new_transition s mu) = joint) by (rewrite Ttg, Hty; reflexivity).
  assert (N0 : NoDup (t_target (new_transition s mu))).
  { destruct (new_transition_nodup s mu Hnd) as (_ & _ & _ & N4). exact N4. }
  set (nv := filter (fun x => negb (existsb (fun h => own_key x (hl_key h)) vetoes)) (mu_called mu)).
  assert (Hclean : filter (fun x => mem x joint) nv
                   = filter (fun x => mem x (t_target t1)) (mu_called mu)).
  { unfold nv. rewrite filter_filter. apply filter_ext_in. intros x Hx.
    destruct (Hcal x Hx) as (_ & Hau & _).
    destruct (mem x (t_target t1)) eqn:Et.
    - apply mem_In in Et. apply andb_true_iff. split.
      + apply negb_true_iff. destruct (existsb (fun h => own_key x (hl_key h)) vetoes) eqn:Ee; [|reflexivity].
        exfalso. apply existsb_exists in Ee. destruct Ee as (h & Hv & Ho).
        unfold vetoes, hs in Hv. apply filter_In in Hv. destruct Hv as [Hh Hb].
        apply andb_true_iff in Hb. destruct Hb as [Hf Hr].
        apply negb_true_iff in Hf. apply negb_true_iff in Hr.
        apply in_rev in Hh. rewrite ?rev_involutive in Hh. apply in_app_or in Hh. destruct Hh as [Hh|Hh].
        * rewrite Forall_forall in Ff. specialize (Ff h Hh). congruence.
        * rewrite Hnegs in Hh. apply in_app_or in Hh. destruct Hh as [Hh|Hh].
          -- rewrite <- (Kae h Hh) in Ho. discriminate.
          -- apply (V1 Hnr N0 h x Hh Hr Ho Hau). exact Et.
      + apply mem_In. rewrite <- Hjoint. apply I1. exact Et.
    - apply mem_false in Et. destruct (mem x joint) eqn:Ej; [|apply andb_false_r].
      rewrite andb_true_r. apply negb_false_iff. apply mem_In in Ej. rewrite <- Hjoint in Ej.
      destruct (D1 x Ej Et) as (h & Hh & [Hf Hr] & Ho).
      apply existsb_exists. exists h. split; [|exact Ho].
      unfold vetoes, hs. apply filter_In. split.
      + apply in_rev. rewrite rev_involutive. apply in_or_app. right. rewrite Hnegs.
        apply in_or_app. right. exact Hh.
      + rewrite Hf, Hr. reflexivity. }
  fold nv. rewrite Hclean.
  set (clean := filter (fun x => mem x (t_target t1)) (mu_called mu)).
  replace (forallb _ clean) with true; [reflexivity|].
  symmetry. apply forallb_forall. intros x Hx.
  destruct (mem x (resolve (sc s) (topo s) (active s) MAdd clean)) eqn:Ee; [|reflexivity].
  cbn [negb orb].
  assert (Hxc : In x (mu_called mu) /\ In x (t_target t1)).
  { apply filter_In in Hx. destruct Hx as [Y1 Y2]. apply mem_In in Y2. tauto. }
  (* the transition is applied *)
  assert (Hcf : canceled = false).
  { rewrite Hcform. apply orb_false_iff. split.
    - apply negb_false_iff. rewrite Tacc, Hjoint. unfold setup_accepted. rewrite Hty, Hm. cbn [andb].
      replace (length (diff (mu_called mu) joint) <? length (mu_called mu)) with true; [reflexivity|].
      symmetry. apply Nat.ltb_lt. unfold diff.
      apply (filter_length_lt _ _ _ x (proj1 Hxc)). apply negb_false_iff. apply mem_In.
      rewrite <- Hjoint. apply I1. apply Hxc.
    - destruct (t_target t1) as [|j q]; [destruct Hxc as [_ []]|]. cbn. rewrite !andb_false_r. reflexivity. }
  destruct O as [N|A]; [destruct N as ([Hc|Hc] & _); congruence|].
  destruct A as (_ & _ & _ & Ha & _ & _ & _ & _ & _ & _ & _ & _ & Ht & _).
  assert (Hact : active s' = resolve (sc s) (topo s) (active s) MAdd clean).
  { rewrite Ha, Ht, Hm, Htg1. unfold retarget_of, resolve.
    rewrite diff_diff_filter. fold clean. rewrite Hty. apply target_states_madd; reflexivity. }
  apply mem_In. apply filter_In.
  assert (Hxl : x < length (clock s')).
  { rewrite P1', Csc. apply (Hcal x (proj1 Hxc)). }
  rewrite Haf. split; [apply in_seq; lia|].
  rewrite (P2' x Hxl), Hact. exact Ee.
Qed.
