(* C01 under arbitrary handler faults: the every-history part of the predicate
   is empty on every run of the model. *)
From Coq Require Import List NArith Bool Arith.
From AMV Require Import Base.ListSet Model.Schema Model.Resolver Model.Machine Spec.C01 Spec.C01f.
From AMV Require Import Proofs.C01Proofs.
Import ListNotations.

Lemma c01f_codes_run_any_faults_lemma : forall fuel sch tp hl ex bs ql acts cs,
  refs_ok sch = true -> ex < length sch ->
  actions_in_range (length sch) acts = true ->
  calls_in_range (length sch) cs = true ->
  c01f_codes (run fuel (init_st sch tp hl ex bs ql acts) cs) = [].
Proof.
  intros fuel sch tp hl ex bs ql acts cs Hr He Ha Hc.
  pose proof (parity_invariant_lemma fuel sch tp hl ex bs ql acts cs Hr He Ha Hc) as HP.
  pose proof (ticks_monotone_lemma fuel sch tp hl ex bs ql acts cs Hr He Ha Hc) as HM.
  cbv zeta in HP, HM.
  destruct HP as [H1 [H2 H3]]. destruct HM as [H4 H5].
  unfold c01f_codes. rewrite H1, H2, H3. cbn [app].
  destruct (tr_txs (run fuel (init_st sch tp hl ex bs ql acts) cs)) as [|t ts].
  - destruct (tr_calls (run fuel (init_st sch tp hl ex bs ql acts) cs)) as [|c r]; [reflexivity|].
    rewrite H5. reflexivity.
  - rewrite H4. cbn [app].
    destruct (tr_calls (run fuel (init_st sch tp hl ex bs ql acts) cs)) as [|c r]; [reflexivity|].
    rewrite H5. reflexivity.
Qed.

Lemma no_faults_fault_free : forall acts, script_has_faults acts = false -> fault_free acts.
Proof.
  unfold script_has_faults, fault_free.
  induction acts as [|a r IH]; cbn [existsb forallb]; intros H; [reflexivity|].
  apply orb_false_iff in H. destruct H as [Ha Hr].
  rewrite (IH Hr), andb_true_r. destruct (ha_fault a); [reflexivity|discriminate|discriminate].
Qed.

(* the run-time predicate is empty on every run of the model, whatever the script *)
Lemma c01_judge_run_lemma : forall fuel sch tp hl ex bs ql acts cs,
  refs_ok sch = true -> ex < length sch ->
  actions_in_range (length sch) acts = true ->
  calls_in_range (length sch) cs = true ->
  c01_judge sch acts (run fuel (init_st sch tp hl ex bs ql acts) cs) = [].
Proof.
  intros fuel sch tp hl ex bs ql acts cs Hr He Ha Hc. unfold c01_judge.
  destruct (script_has_faults acts) eqn:Hf.
  - apply c01f_codes_run_any_faults_lemma; assumption.
  - pose proof (c01_holds_lemma fuel sch tp hl ex bs ql acts cs Hr He Ha Hc
                  (no_faults_fault_free acts Hf)) as H.
    unfold c01_ok in H.
    destruct (c01_codes sch (run fuel (init_st sch tp hl ex bs ql acts) cs)); [reflexivity|discriminate].
Qed.

(* non-vacuity: a run with a recovered panic in a final handler is judged by the
   every-history part and passes, while the fault-free predicate would raise 6 *)
Lemma c01_judge_run_nonvacuous_lemma :
  let mk := fun (au mu : bool) (rq ad rm : list nat) =>
    {| s_auto := au; s_multi := mu; s_require := rq; s_add := ad; s_remove := rm; s_after := [] |} in
  let sch := [ mk false false [] [1] []; mk false true [] [] []; mk true false [1] [] [0];
               mk false true [] [] [] ] in
  let bs := [[HEnter 0; HState 0; HExit 0; HEnd 0; HState 1; HAnyState; HAnyEnter; HSelf 1;
              HState 2; HEnter 2]] in
  let act := fun f => {| ha_ret := true; ha_calls := []; ha_fault := f |} in
  let call := fun k l => {| ac_kind := k; ac_states := l; ac_args := false |} in
  let acts := [act FNone; act FNone; act FPanic] in
  let cs := [ call KAdd [0]; call KAdd [1]; call KRemove [2]; call KCanRemove [1];
              call KSet [1; 0]; call KToggle [1]; call KAddErr [] ] in
  let tr := run 200 (init_st sch (topo_sort sch [0; 1; 2; 3]) [] 3 bs 1000 acts) cs in
  script_has_faults acts = true /\ c01_judge sch acts tr = [] /\ length (tr_txs tr) = 14 /\
  c01_codes sch tr <> [].
Proof. vm_compute. repeat split; discriminate. Qed.
