(* C04 — proofs over the interleaving model Conc/QueueLock.v: any number of
   threads, any schedule, by induction over the schedule with inductive
   invariants. *)
From Coq Require Import List Bool Arith Lia.
From AMV Require Import Conc.QueueLock Spec.C04.
Import ListNotations.

(* ================================================================== *)
(* generic list lemmas                                                *)
(* ================================================================== *)

Lemma nodupb_NoDup : forall l, nodupb l = true <-> NoDup l.
Proof.
  induction l as [|x r IH]; simpl.
  - split; intros; [constructor | reflexivity].
  - rewrite andb_true_iff, negb_true_iff, IH. split.
    + intros [H1 H2]. constructor; auto. intro Hin.
      assert (Hex : existsb (Nat.eqb x) r = true).
      { apply existsb_exists. exists x. split; auto. apply Nat.eqb_refl. }
      congruence.
    + intros H. inversion H as [|y l' Hn Hd]; subst. split; auto.
      destruct (existsb (Nat.eqb x) r) eqn:E; auto.
      apply existsb_exists in E. destruct E as (y & Hy & Hxy).
      apply Nat.eqb_eq in Hxy. subst. contradiction.
Qed.

Lemma NoDup_app_inv : forall A (a b : list A),
  NoDup (a ++ b) -> NoDup a /\ NoDup b /\ (forall x, In x a -> ~ In x b).
Proof.
  induction a as [|h a IH]; simpl; intros b H.
  - repeat split; auto. constructor.
  - inversion H as [|y l' Hn Hd]; subst. destruct (IH _ Hd) as (Ha & Hb & Hdis).
    repeat split; auto.
    + constructor; auto. intro Hin. apply Hn. apply in_or_app. auto.
    + intros x [Hx|Hx].
      * subst. intro Hin. apply Hn. apply in_or_app. auto.
      * auto.
Qed.

Lemma NoDup_app_intro : forall A (a b : list A),
  NoDup a -> NoDup b -> (forall x, In x a -> ~ In x b) -> NoDup (a ++ b).
Proof.
  induction a as [|h a IH]; simpl; intros b Ha Hb Hdis; auto.
  inversion Ha as [|y l' Hn Hd]; subst. constructor.
  - intro Hin. apply in_app_or in Hin. destruct Hin as [Hin|Hin]; auto.
    apply (Hdis h); auto.
  - apply IH; auto.
Qed.

Lemma filter_len_split : forall A (f : A -> bool) l1 t l2,
  length (filter f (l1 ++ t :: l2)) =
  length (filter f l1) + (if f t then 1 else 0) + length (filter f l2).
Proof.
  intros. rewrite filter_app, app_length. simpl. destruct (f t); simpl; lia.
Qed.

Lemma filter_len0 : forall A (f : A -> bool) l,
  length (filter f l) = 0 -> Forall (fun x => f x = false) l.
Proof.
  induction l as [|x r IH]; simpl; intros H; constructor.
  - destruct (f x); simpl in H; [discriminate | reflexivity].
  - apply IH. destruct (f x); simpl in H; [discriminate | assumption].
Qed.

Lemma filter_len_pos : forall A (f : A -> bool) l,
  1 <= length (filter f l) -> exists x, In x l /\ f x = true.
Proof.
  intros A f l H. destruct (filter f l) as [|x r] eqn:E; simpl in H; [lia|].
  exists x. apply filter_In. rewrite E. left. reflexivity.
Qed.

Lemma replace_nth_split : forall A (l1 l2 : list A) a x,
  replace_nth (l1 ++ a :: l2) (length l1) x = l1 ++ x :: l2.
Proof.
  induction l1 as [|h l1 IH]; simpl; intros; [reflexivity | f_equal; apply IH].
Qed.

Lemma Forall_split3 : forall A (P : A -> Prop) l1 t l2,
  Forall P (l1 ++ t :: l2) <-> Forall P l1 /\ P t /\ Forall P l2.
Proof.
  intros. rewrite Forall_app, Forall_cons_iff. tauto.
Qed.

Lemma increasing_seq : forall n a, increasing (seq a n) = true.
Proof.
  induction n as [|n IH]; intros a; [reflexivity|].
  destruct n as [|n]; [reflexivity|].
  change (seq a (S (S n))) with (a :: seq (S a) (S n)).
  change (increasing (a :: seq (S a) (S n)))
    with ((a <? S a) && increasing (seq (S a) (S n))).
  rewrite IH. assert (H : (a <? S a) = true) by (apply Nat.ltb_lt; lia).
  rewrite H. reflexivity.
Qed.

(* ================================================================== *)
(* one step = one thread of a split thread list                       *)
(* ================================================================== *)

Lemma step_cases : forall recheck c i,
  (nth_error (ths c) i = None /\ step recheck c i = c) \/
  exists l1 t l2,
    nth_error (ths c) i = Some t /\
    ths c = l1 ++ t :: l2 /\ length l1 = i /\
    step recheck c i =
      {| sh := fst (step_thread recheck (sh c) i t);
         ths := l1 ++ snd (step_thread recheck (sh c) i t) :: l2 |}.
Proof.
  intros recheck c i. unfold step. destruct (nth_error (ths c) i) as [t|] eqn:E.
  - right. pose proof E as E0. apply nth_error_split in E.
    destruct E as (l1 & l2 & E1 & E2).
    exists l1, t, l2. repeat split; auto.
    destruct (step_thread recheck (sh c) i t) as [s' t'] eqn:Es. simpl.
    rewrite E1. subst i. rewrite replace_nth_split. reflexivity.
  - left. split; reflexivity.
Qed.

(* the schedule fold, with an invariant carried along *)
Lemma exec_sched_inv : forall (P : cfg -> Prop) recheck,
  (forall c i, P c -> P (step recheck c i)) ->
  forall sched c, P c -> P (exec_sched recheck c sched).
Proof.
  intros P recheck Hstep. unfold exec_sched.
  induction sched as [|i r IH]; simpl; intros c Hc; auto.
Qed.

(* effect of enqueue_all on the shared record *)
Lemma enqueue_all_effect : forall ms s,
  let s' := enqueue_all s ms in
  processing s' = processing s /\ qtick s' = qtick s /\
  executed s' = executed s /\ nested_of s' = nested_of s /\
  pending s' = pending s + length ms /\
  exists ext, queue s' = queue s ++ ext /\ map fst ext = ms.
Proof.
  induction ms as [|m r IH]; intros s; simpl.
  - repeat split; auto. exists []. rewrite app_nil_r. auto.
  - destruct (IH (fst (enqueue s m))) as (H1 & H2 & H3 & H4 & H5 & ext & H6 & H7).
    simpl in *. repeat split; auto; try lia.
    exists ((m, S (pending s) + qtick s) :: ext). split.
    + rewrite H6. rewrite <- app_assoc. reflexivity.
    + simpl. f_equal. exact H7.
Qed.

(* effect of one thread action on the queue / executed lists *)
Lemma step_thread_effect : forall recheck s i t,
  let s' := fst (step_thread recheck s i t) in
  let t' := snd (step_thread recheck s i t) in
  nested_of s' = nested_of s /\ t_mut t' = t_mut t /\ t_nested t' = t_nested t /\
  t_pc t' <> PEnq /\
  ( (t_pc t = PEnq /\ queue s' = queue s ++ [(t_mut t, S (pending s) + qtick s)] /\
     executed s' = executed s /\ t_tick t' = S (pending s) + qtick s)
    \/ (t_pc t = PPop /\ exists m tick rest ext,
          queue s = (m, tick) :: rest /\ queue s' = rest ++ ext /\
          map fst ext = nested_for s m /\ executed s' = (m, i) :: executed s /\
          t_tick t' = t_tick t)
    \/ (t_pc t <> PEnq /\ queue s' = queue s /\ executed s' = executed s /\
        t_tick t' = t_tick t /\ (t_pc t = PPop -> queue s = []))).
Proof.
  intros recheck s i t. unfold step_thread.
  destruct (t_pc t) eqn:Epc.
  - (* PEnq *) simpl. repeat split; try congruence. left. repeat split; auto.
  - (* PEntry *)
    destruct (Nat.eqb (qlen s) 0); simpl; repeat split; try congruence;
      right; right; repeat split; congruence.
  - (* PCas *)
    destruct (processing s); simpl; repeat split; try congruence;
      right; right; repeat split; congruence.
  - (* PLoop *)
    destruct (Nat.eqb (qlen s) 0); simpl; repeat split; try congruence;
      right; right; repeat split; congruence.
  - (* PPop *)
    destruct (queue s) as [|[m tick] rest] eqn:Eq.
    + simpl. repeat split; try congruence. right; right. repeat split; congruence.
    + match goal with |- context [enqueue_all ?a ?b] =>
        destruct (enqueue_all_effect b a) as (H1 & H2 & H3 & H4 & H5 & ext & H6 & H7)
      end.
      simpl in *. repeat split; try congruence.
      right; left. split; auto. exists m, tick, rest, ext. repeat split; auto.
  - (* PRelease *)
    simpl. repeat split; try congruence. right; right. repeat split; congruence.
  - (* PRecheck *)
    destruct (recheck && negb (Nat.eqb (qlen s) 0)); simpl; repeat split; try congruence;
      right; right; repeat split; congruence.
  - (* PDone *)
    simpl. repeat split; try congruence. right; right. repeat split; congruence.
Qed.

(* ================================================================== *)
(* (1) mutual exclusion of the drain                                  *)
(* ================================================================== *)

Definition pop_ne (s : shared) (t : thread) : Prop := t_pc t = PPop -> queue s <> [].

Definition invM (c : cfg) : Prop :=
  holders c <= 1 /\ processing (sh c) = (holders c =? 1) /\
  Forall (pop_ne (sh c)) (ths c).

Lemma invM_init : forall muts, invM (init_cfg muts).
Proof.
  intros muts. unfold invM, holders, init_cfg. simpl.
  assert (H : filter holding
    (map (fun p : nat * list nat => {| t_pc := PEnq; t_mut := fst p; t_nested := snd p;
       t_tick := 0; t_first := false; t_res := RNone |}) muts) = []).
  { induction muts as [|p r IH]; simpl; auto. }
  rewrite H. simpl. repeat split; auto.
  apply Forall_forall. intros t Hin. apply in_map_iff in Hin.
  destruct Hin as (p & Hp & _). subst t. unfold pop_ne. simpl. discriminate.
Qed.

Lemma app_ne_nil : forall A (l : list A) x, l ++ [x] <> [].
Proof. intros A l x H. destruct l; discriminate. Qed.

Ltac pne := unfold pop_ne, finish, set_pc; cbn; let Hx := fresh "Hx" in intros Hx; discriminate Hx.

Lemma invM_step : forall recheck c i, invM c -> invM (step recheck c i).
Proof.
  intros recheck c i (Hle & Hpr & Hpop).
  destruct (step_cases recheck c i) as [[_ E]|(l1 & t & l2 & _ & Eths & _ & E)];
    rewrite E; [repeat split; assumption|].
  clear E. unfold invM, holders in *. simpl. rewrite Eths in *.
  rewrite filter_len_split in *.
  apply Forall_split3 in Hpop. destruct Hpop as (Hp1 & Hpt & Hp2).
  rewrite Forall_split3.
  unfold step_thread. unfold pop_ne in Hpt.
  remember (holding t) as ht eqn:Eht. unfold holding in Eht.
  destruct (t_pc t) eqn:Epc; subst ht.
  - (* PEnq *) simpl. repeat split; auto.
    + eapply Forall_impl; [|exact Hp1]. unfold pop_ne; simpl. intros; apply app_ne_nil.
    + pne.
    + eapply Forall_impl; [|exact Hp2]. unfold pop_ne; simpl. intros; apply app_ne_nil.
  - (* PEntry *)
    destruct (Nat.eqb (qlen (sh c)) 0); simpl; repeat split; auto; pne.
  - (* PCas *)
    destruct (processing (sh c)) eqn:Epr; simpl.
    + repeat split; auto; [congruence | pne].
    + symmetry in Hpr. apply Nat.eqb_neq in Hpr.
      repeat split; auto; try lia.
      * symmetry. apply Nat.eqb_eq. lia.
      * pne.
  - (* PLoop *)
    destruct (Nat.eqb (qlen (sh c)) 0) eqn:Eq; simpl; repeat split; auto.
    + pne.
    + unfold pop_ne; simpl. intros _ Hq. unfold qlen in Eq. rewrite Hq in Eq. discriminate.
  - (* PPop *)
    destruct (queue (sh c)) as [|[m tick] rest] eqn:Eq.
    + exfalso. apply Hpt; reflexivity.
    + match goal with |- context [enqueue_all ?a ?b] =>
        destruct (enqueue_all_effect b a) as (H1 & H2 & H3 & H4 & H5 & ext & H6 & H7)
      end.
      simpl in *.
      assert (Hz1 : length (filter holding l1) = 0) by lia.
      assert (Hz2 : length (filter holding l2) = 0) by lia.
      apply filter_len0 in Hz1. apply filter_len0 in Hz2.
      rewrite H1. repeat split; auto.
      * eapply Forall_impl; [|exact Hz1]. unfold pop_ne, holding. intros a Ha Hb.
        rewrite Hb in Ha. discriminate.
      * pne.
      * eapply Forall_impl; [|exact Hz2]. unfold pop_ne, holding. intros a Ha Hb.
        rewrite Hb in Ha. discriminate.
  - (* PRelease *)
    simpl. repeat split; auto; try lia.
    + symmetry. apply Nat.eqb_neq. lia.
    + pne.
  - (* PRecheck *)
    destruct (recheck && negb (Nat.eqb (qlen (sh c)) 0)); simpl; repeat split; auto;
      pne.
  - (* PDone *)
    simpl. unfold holding at 2 5. rewrite Epc. repeat split; auto. unfold pop_ne. rewrite Epc. discriminate.
Qed.

Lemma invM_reach : forall recheck muts sched,
  invM (exec_sched recheck (init_cfg muts) sched).
Proof.
  intros. apply exec_sched_inv; [intros; apply invM_step; assumption | apply invM_init].
Qed.

Lemma drain_mutex_lemma : forall recheck muts sched,
  mutex_ok (exec_sched recheck (init_cfg muts) sched) = true.
Proof.
  intros. destruct (invM_reach recheck muts sched) as (Hle & Hpr & _).
  unfold mutex_ok. rewrite Hpr, eqb_reflx, andb_true_r. apply Nat.leb_le. exact Hle.
Qed.

(* ================================================================== *)
(* (6) results are truthful                                           *)
(* ================================================================== *)

Definition resI (t : thread) : Prop :=
  (forall k, t_res t = RQueued k -> k = t_tick t /\ t_pc t = PDone) /\
  (t_res t = RExecuted -> t_first t = true).

Lemma resI_step_thread : forall recheck s i t,
  resI t -> resI (snd (step_thread recheck s i t)).
Proof.
  intros recheck s i t (HQ & HE). unfold step_thread, resI.
  assert (HnQ : t_pc t <> PDone -> forall k, t_res t <> RQueued k).
  { intros Hn k Hk. destruct (HQ k Hk) as [_ Hd]. contradiction. }
  destruct (t_pc t) eqn:Epc.
  - simpl. split; intros; discriminate.
  - assert (Hn : forall k, t_res t <> RQueued k) by (apply HnQ; discriminate).
    destruct (Nat.eqb (qlen s) 0); simpl.
    + destruct (t_res t) eqn:Er; split; intros; try discriminate; auto.
      exfalso. eapply Hn. reflexivity.
    + split; [intros k Hk; exfalso; eapply Hn; eauto | auto].
  - assert (Hn : forall k, t_res t <> RQueued k) by (apply HnQ; discriminate).
    destruct (processing s); simpl.
    + destruct (t_res t) eqn:Er; split; intros; try discriminate; auto.
      * match goal with H : RQueued _ = RQueued _ |- _ => inversion H; subst end. auto.
      * exfalso. eapply Hn. reflexivity.
    + split; [intros k Hk; exfalso; eapply Hn; eauto | auto].
  - assert (Hn : forall k, t_res t <> RQueued k) by (apply HnQ; discriminate).
    destruct (Nat.eqb (qlen s) 0); simpl;
      (split; [intros k Hk; exfalso; eapply Hn; eauto | auto]).
  - assert (Hn : forall k, t_res t <> RQueued k) by (apply HnQ; discriminate).
    destruct (queue s) as [|[m tick] rest]; simpl.
    + split; intros; discriminate.
    + split; [intros k Hk; exfalso; eapply Hn; eauto | auto].
  - assert (Hn : forall k, t_res t <> RQueued k) by (apply HnQ; discriminate).
    simpl. destruct (t_res t) eqn:Er.
    + destruct (t_first t) eqn:Ef; split; intros; try discriminate; auto.
    + split; intros; try discriminate; auto.
    + split; intros; try discriminate; auto.
    + exfalso. eapply Hn. reflexivity.
  - assert (Hn : forall k, t_res t <> RQueued k) by (apply HnQ; discriminate).
    destruct (recheck && negb (Nat.eqb (qlen s) 0)); simpl;
      (split; [intros k Hk; exfalso; eapply Hn; eauto | auto]).
  - simpl. rewrite Epc. split; auto.
Qed.

Definition invR (c : cfg) : Prop := Forall resI (ths c).

Lemma invR_init : forall muts, invR (init_cfg muts).
Proof.
  intros muts. unfold invR, init_cfg. simpl. apply Forall_forall. intros t Hin.
  apply in_map_iff in Hin. destruct Hin as (p & Hp & _). subst t.
  unfold resI. simpl. split; intros; discriminate.
Qed.

Lemma invR_step : forall recheck c i, invR c -> invR (step recheck c i).
Proof.
  intros recheck c i H.
  destruct (step_cases recheck c i) as [[_ E]|(l1 & t & l2 & _ & Eths & _ & E)];
    rewrite E; [assumption|].
  unfold invR in *. simpl. rewrite Eths in H. apply Forall_split3 in H.
  destruct H as (H1 & Ht & H2). apply Forall_split3. split; [|split]; auto.
  apply resI_step_thread. exact Ht.
Qed.

Lemma results_truthful_lemma : forall recheck muts sched t,
  In t (ths (exec_sched recheck (init_cfg muts) sched)) ->
  (forall k, t_res t = RQueued k -> k = t_tick t /\ t_pc t = PDone) /\
  (t_res t = RExecuted -> t_first t = true).
Proof.
  intros recheck muts sched t Hin.
  assert (H : invR (exec_sched recheck (init_cfg muts) sched)).
  { apply exec_sched_inv; [intros; apply invR_step; assumption | apply invR_init]. }
  unfold invR in H. rewrite Forall_forall in H. apply (H t Hin).
Qed.

(* ================================================================== *)
(* (4)(5) an idle machine never sits on a non-empty queue             *)
(* ================================================================== *)

(* a non-empty queue has a thread that will look at it again: one that is not
   done and, if it stands before the CAS, will win it *)
Definition invN (c : cfg) : Prop :=
  queue (sh c) <> [] ->
  exists t, In t (ths c) /\ t_pc t <> PDone /\ (t_pc t = PCas -> processing (sh c) = false).

Lemma holder_exists : forall c,
  invM c -> processing (sh c) = true -> exists h, In h (ths c) /\ holding h = true.
Proof.
  intros c (Hle & Hpr & _) Hp. rewrite Hp in Hpr. symmetry in Hpr.
  apply Nat.eqb_eq in Hpr. unfold holders in Hpr.
  apply filter_len_pos. lia.
Qed.

Lemma holding_pc : forall h, holding h = true -> t_pc h <> PDone /\ t_pc h <> PCas.
Proof. intros h H. unfold holding in H. destruct (t_pc h); split; discriminate. Qed.

Lemma other_holder : forall c l1 t l2 t',
  invM c -> processing (sh c) = true -> ths c = l1 ++ t :: l2 -> holding t = false ->
  exists h, In h (l1 ++ t' :: l2) /\ t_pc h <> PDone /\ t_pc h <> PCas.
Proof.
  intros c l1 t l2 t' HM Hp Eths Hnt.
  destruct (holder_exists c HM Hp) as (h & Hin & Hh).
  rewrite Eths in Hin. exists h. split.
  - apply in_app_or in Hin. apply in_or_app. destruct Hin as [Hin|[Hin|Hin]].
    + left; exact Hin.
    + subst h. congruence.
    + right; right; exact Hin.
  - apply holding_pc. exact Hh.
Qed.

Lemma invN_init : forall muts, invN (init_cfg muts).
Proof. intros muts H. simpl in H. congruence. Qed.

Lemma invN_step : forall c i, invM c -> invN c -> invN (step true c i).
Proof.
  intros c i HM HN.
  destruct (step_cases true c i) as [[_ E]|(l1 & t & l2 & _ & Eths & _ & E)];
    rewrite E; [assumption|].
  clear E. unfold invN. simpl. unfold step_thread.
  destruct (t_pc t) eqn:Epc.
  - (* PEnq *) simpl. intros _. eexists. split; [apply in_elt|]. simpl. split; discriminate.
  - (* PEntry *)
    destruct (Nat.eqb (qlen (sh c)) 0) eqn:Eq; simpl; intros Hq.
    + apply Nat.eqb_eq in Eq. unfold qlen in Eq. destruct (queue (sh c)); [congruence|discriminate].
    + destruct (processing (sh c)) eqn:Epr.
      * destruct (other_holder c l1 t l2 (set_pc t PCas) HM Epr Eths) as (h & Hin & Hd & Hc).
        { unfold holding. rewrite Epc. reflexivity. }
        exists h. repeat split; auto. intros; contradiction.
      * eexists. split; [apply in_elt|]. simpl. split; [discriminate|auto].
  - (* PCas *)
    destruct (processing (sh c)) eqn:Epr; simpl; intros Hq.
    + match goal with |- context [l1 ++ ?x :: l2] =>
        destruct (other_holder c l1 t l2 x HM Epr Eths) as (h & Hin & Hd & Hc)
      end.
      { unfold holding. rewrite Epc. reflexivity. }
      exists h. repeat split; auto. intros; contradiction.
    + eexists. split; [apply in_elt|]. simpl. split; discriminate.
  - (* PLoop *)
    destruct (Nat.eqb (qlen (sh c)) 0); simpl; intros _;
      (eexists; split; [apply in_elt|]; simpl; split; discriminate).
  - (* PPop *)
    destruct (queue (sh c)) as [|[m tick] rest] eqn:Eq; simpl; intros Hq.
    + congruence.
    + eexists. split; [apply in_elt|]. simpl. split; discriminate.
  - (* PRelease *)
    simpl. intros _. eexists. split; [apply in_elt|]. simpl. split; discriminate.
  - (* PRecheck *)
    simpl. destruct (Nat.eqb (qlen (sh c)) 0) eqn:Eq; simpl; intros Hq.
    + apply Nat.eqb_eq in Eq. unfold qlen in Eq. destruct (queue (sh c)); [congruence|discriminate].
    + eexists. split; [apply in_elt|]. simpl. split; discriminate.
  - (* PDone *)
    (* unchanged configuration *)
    simpl. rewrite <- Eths. exact HN.
Qed.

Definition invMN (c : cfg) : Prop := invM c /\ invN c.

Lemma invMN_reach : forall muts sched, invMN (exec_sched true (init_cfg muts) sched).
Proof.
  intros. apply exec_sched_inv.
  - intros c i [HM HN]. split; [apply invM_step; assumption | apply invN_step; assumption].
  - split; [apply invM_init | apply invN_init].
Qed.

Lemma all_done_Forall : forall c,
  all_done c = true -> Forall (fun t => t_pc t = PDone) (ths c).
Proof.
  intros c H. unfold all_done in H. rewrite forallb_forall in H.
  apply Forall_forall. intros t Hin. specialize (H t Hin).
  destruct (t_pc t); try discriminate. reflexivity.
Qed.

Lemma quiescent_queue_empty : forall muts sched,
  all_done (exec_sched true (init_cfg muts) sched) = true ->
  queue (sh (exec_sched true (init_cfg muts) sched)) = [].
Proof.
  intros muts sched Hd. destruct (invMN_reach muts sched) as [_ HN].
  apply all_done_Forall in Hd. rewrite Forall_forall in Hd.
  destruct (queue (sh (exec_sched true (init_cfg muts) sched))) as [|x r] eqn:Eq; auto.
  exfalso. unfold invN in HN. rewrite Eq in HN.
  destruct HN as (t & Hin & Hnd & _); [discriminate|].
  apply Hnd. apply Hd. exact Hin.
Qed.

Lemma no_strand_lemma : forall muts sched,
  no_strand_ok (exec_sched true (init_cfg muts) sched) = true.
Proof.
  intros muts sched. unfold no_strand_ok.
  destruct (all_done (exec_sched true (init_cfg muts) sched)) eqn:Ed; simpl; auto.
  unfold qlen. rewrite (quiescent_queue_empty muts sched Ed). reflexivity.
Qed.

Lemma no_strand_refuted_lemma : exists muts sched,
  no_strand_ok (exec_sched false (init_cfg muts) sched) = false.
Proof.
  exists [(0, []); (1, [])], [0;0;0;0;0;0;1;1;1;0;0]. vm_compute. reflexivity.
Qed.

(* ================================================================== *)
(* (2) FIFO by queue tick                                             *)
(* ================================================================== *)

(* ghost: the (mutation, tick) pair popped by the step of thread i, if any *)
Definition popped_step (c : cfg) (i : nat) : list (nat * nat) :=
  match nth_error (ths c) i with
  | Some t =>
    match t_pc t with
    | PPop => match queue (sh c) with x :: _ => [x] | [] => [] end
    | _ => []
    end
  | None => []
  end.

(* ghost: all pairs popped along a schedule, in execution order *)
Fixpoint popped (recheck : bool) (c : cfg) (sched : list nat) : list (nat * nat) :=
  match sched with
  | [] => []
  | i :: r => popped_step c i ++ popped recheck (step recheck c i) r
  end.

Lemma popped_app : forall recheck s1 s2 c,
  popped recheck c (s1 ++ s2) =
  popped recheck c s1 ++ popped recheck (exec_sched recheck c s1) s2.
Proof.
  induction s1 as [|i r IH]; intros s2 c; simpl; auto.
  rewrite IH, app_assoc. reflexivity.
Qed.

(* shared part: the ticks of popped ++ queued are 2,3,4,... *)
Definition tickS (s : shared) (P : list (nat * nat)) : Prop :=
  map snd P = seq 2 (length P) /\
  map snd (queue s) = seq (2 + length P) (length (queue s)) /\
  qtick s = S (length P) /\ pending s = length (queue s).

Lemma tickS_enqueue : forall s P m,
  tickS s P -> tickS (fst (enqueue s m)) P.
Proof.
  intros s P m (H1 & H2 & H3 & H4). unfold tickS, enqueue. simpl.
  repeat split; auto.
  - rewrite map_app, app_length, H2. simpl. rewrite Nat.add_1_r, seq_S.
    f_equal. f_equal. lia.
  - rewrite app_length. simpl. lia.
Qed.

Lemma tickS_enqueue_all : forall ms s P, tickS s P -> tickS (enqueue_all s ms) P.
Proof.
  induction ms as [|m r IH]; intros s P H; simpl; auto.
  apply IH. apply tickS_enqueue. exact H.
Qed.

Lemma tickS_pop : forall s P m tick rest pr ex no,
  tickS s P -> queue s = (m, tick) :: rest ->
  tick = 2 + length P /\
  tickS {| queue := rest; processing := pr; qtick := S (qtick s);
           pending := pending s - 1; executed := ex; nested_of := no |}
        (P ++ [(m, tick)]).
Proof.
  intros s P m tick rest pr ex no (H1 & H2 & H3 & H4) Eq.
  rewrite Eq in H2, H4. simpl in H2, H4. inversion H2 as [[Ht Hr]].
  split; auto. unfold tickS. simpl. rewrite app_length, map_app. simpl.
  repeat split.
  - rewrite Nat.add_1_r, seq_S, H1. reflexivity.
  - rewrite Hr. f_equal. lia.
  - lia.
  - lia.
Qed.

Definition own_tick (q : list (nat * nat)) (t : thread) : Prop :=
  t_pc t <> PEnq -> In (t_mut t, t_tick t) q.

Definition invT (c : cfg) (P : list (nat * nat)) : Prop :=
  map fst P = map fst (rev (executed (sh c))) /\
  tickS (sh c) P /\
  Forall (own_tick (P ++ queue (sh c))) (ths c).

Lemma own_tick_mono : forall q q' l,
  incl q q' -> Forall (own_tick q) l -> Forall (own_tick q') l.
Proof.
  intros q q' l Hi H. eapply Forall_impl; [|exact H].
  unfold own_tick. intros t Ht Hn. apply Hi. auto.
Qed.

Lemma invT_init : forall muts, invT (init_cfg muts) [].
Proof.
  intros muts. unfold invT, tickS. simpl. repeat split; auto.
  apply Forall_forall. intros t Hin. apply in_map_iff in Hin.
  destruct Hin as (p & Hp & _). subst t. unfold own_tick. simpl. congruence.
Qed.

Ltac frameT HE HS HO1 HO2 HOt :=
  simpl;
  split; [exact HE|split; [exact HS|]]; split; [exact HO1|split; [|exact HO2]];
  unfold own_tick; simpl; intros _; apply HOt; discriminate.

Lemma invT_step : forall recheck c i P,
  invT c P -> invT (step recheck c i) (P ++ popped_step c i).
Proof.
  intros recheck c i P (HE & HS & HO). unfold popped_step.
  destruct (step_cases recheck c i) as [[En E]|(l1 & t & l2 & En & Eths & _ & E)];
    rewrite E, En; [rewrite app_nil_r; split; [|split]; assumption|].
  clear E En. unfold invT. simpl. rewrite Eths in HO.
  apply Forall_split3 in HO. destruct HO as (HO1 & HOt & HO2).
  rewrite Forall_split3. unfold own_tick in HOt.
  unfold step_thread.
  destruct (t_pc t) eqn:Epc.
  - (* PEnq *)
    rewrite app_nil_r. simpl. split; [exact HE|]. split; [apply (tickS_enqueue _ _ (t_mut t) HS)|].
    assert (Hi : incl (P ++ queue (sh c))
                      (P ++ queue (sh c) ++ [(t_mut t, S (pending (sh c) + qtick (sh c)))])).
    { rewrite app_assoc. apply incl_appl. apply incl_refl. }
    repeat split.
    + eapply own_tick_mono; eauto.
    + unfold own_tick. simpl. intros _. rewrite app_assoc. apply in_or_app. right. left. reflexivity.
    + eapply own_tick_mono; eauto.
  - (* PEntry *)
    rewrite app_nil_r.
    destruct (Nat.eqb (qlen (sh c)) 0); frameT HE HS HO1 HO2 HOt.
  - (* PCas *)
    rewrite app_nil_r.
    destruct (processing (sh c)); frameT HE HS HO1 HO2 HOt.
  - (* PLoop *)
    rewrite app_nil_r.
    destruct (Nat.eqb (qlen (sh c)) 0); frameT HE HS HO1 HO2 HOt.
  - (* PPop *)
    destruct (queue (sh c)) as [|[m tick] rest] eqn:Eq.
    + rewrite app_nil_r. simpl. rewrite Eq. frameT HE HS HO1 HO2 HOt.
    + destruct (tickS_pop (sh c) P m tick rest (processing (sh c))
                 ((m, i) :: executed (sh c)) (nested_of (sh c)) HS Eq) as [Htick HS'].
      assert (Hnz : Nat.eqb tick 0 = false) by (apply Nat.eqb_neq; lia).
      rewrite Hnz.
      match goal with |- context [enqueue_all ?a ?b] =>
        destruct (enqueue_all_effect b a) as (H1 & H2 & H3 & H4 & H5 & ext & H6 & H7);
        pose proof (tickS_enqueue_all b a _ HS') as HS''
      end.
      simpl in *. split; [|split; [exact HS''|]].
      * rewrite H3. simpl. rewrite !map_app. simpl. rewrite HE. reflexivity.
      * rewrite H6.
        assert (Hi : incl (P ++ (m, tick) :: rest) ((P ++ [(m, tick)]) ++ rest ++ ext)).
        { rewrite <- app_assoc. simpl. apply incl_app.
          - apply incl_appl. apply incl_refl.
          - apply incl_appr. intros x Hx. destruct Hx as [Hx|Hx].
            + left; exact Hx.
            + right. apply in_or_app. left. exact Hx. }
        repeat split.
        -- eapply own_tick_mono; eauto.
        -- unfold own_tick. simpl. intros _. apply Hi. apply HOt. discriminate.
        -- eapply own_tick_mono; eauto.
  - (* PRelease *)
    rewrite app_nil_r. frameT HE HS HO1 HO2 HOt.
  - (* PRecheck *)
    rewrite app_nil_r.
    destruct (recheck && negb (Nat.eqb (qlen (sh c)) 0)); frameT HE HS HO1 HO2 HOt.
  - (* PDone *)
    rewrite app_nil_r. simpl. split; [exact HE|split; [exact HS|]].
    split; [exact HO1|split; [|exact HO2]]. unfold own_tick. rewrite Epc. exact HOt.
Qed.

Lemma invT_exec : forall recheck sched c P,
  invT c P -> invT (exec_sched recheck c sched) (P ++ popped recheck c sched).
Proof.
  intros recheck. unfold exec_sched.
  induction sched as [|i r IH]; intros c P H; simpl.
  - rewrite app_nil_r. exact H.
  - rewrite app_assoc. apply IH. apply invT_step. exact H.
Qed.

Lemma invT_reach : forall recheck muts sched,
  invT (exec_sched recheck (init_cfg muts) sched) (popped recheck (init_cfg muts) sched).
Proof.
  intros. apply (invT_exec recheck sched (init_cfg muts) []). apply invT_init.
Qed.

Lemma fifo_by_tick_lemma : forall recheck muts sched,
  let c := exec_sched recheck (init_cfg muts) sched in
  let p := popped recheck (init_cfg muts) sched in
  (* p is the executed list, with the ticks the mutations were queued under *)
  map fst p = map fst (rev (executed (sh c))) /\
  (* executed in strictly increasing tick order; the queue is sorted by tick *)
  increasing (map snd p) = true /\
  increasing (map snd (queue (sh c))) = true /\
  (* everything queued is later than everything executed *)
  (forall a b, In a (map snd p) -> In b (map snd (queue (sh c))) -> a < b) /\
  (* ticks are handed out consecutively in enqueue order; qtick counts the pops *)
  map snd (p ++ queue (sh c)) = seq 2 (length (p ++ queue (sh c))) /\
  qtick (sh c) = S (length p) /\ pending (sh c) = qlen (sh c) /\
  (* the tick a caller got is the tick its own mutation is queued/executed under *)
  (forall t, In t (ths c) -> t_pc t <> PEnq -> In (t_mut t, t_tick t) (p ++ queue (sh c))).
Proof.
  intros recheck muts sched c p.
  destruct (invT_reach recheck muts sched) as (HE & (H1 & H2 & H3 & H4) & HO).
  fold c in HE, H1, H2, H3, H4, HO. fold p in HE, H1, H2, H3, H4, HO.
  repeat split; auto.
  - rewrite H1. apply increasing_seq.
  - rewrite H2. apply increasing_seq.
  - intros a b Ha Hb. rewrite H1 in Ha. rewrite H2 in Hb.
    apply in_seq in Ha. apply in_seq in Hb. lia.
  - rewrite map_app, app_length, seq_app, H1, H2. reflexivity.
  - intros t Hin. rewrite Forall_forall in HO. apply (HO t Hin).
Qed.

(* ================================================================== *)
(* (3) none lost, none twice                                          *)
(* ================================================================== *)

Definition ids_of (muts : list (nat * list nat)) : list nat :=
  flat_map (fun p => fst p :: snd p) muts.

Definition enq_s (s : shared) : list nat :=
  map fst (rev (executed s)) ++ map fst (queue s).

Lemma enqueued_enq_s : forall c, enqueued c = enq_s (sh c).
Proof. reflexivity. Qed.

Lemma nested_for_cases : forall s m,
  nested_for s m = [] \/
  exists p, In p (nested_of s) /\ fst p = m /\ nested_for s m = snd p.
Proof.
  intros s m. unfold nested_for.
  destruct (find (fun p => Nat.eqb (fst p) m) (nested_of s)) as [p|] eqn:E; auto.
  right. apply find_some in E. destruct E as [Hin He]. apply Nat.eqb_eq in He.
  exists p. auto.
Qed.

Lemma enq_effect : forall recheck s i t,
  let s' := fst (step_thread recheck s i t) in
  let t' := snd (step_thread recheck s i t) in
  nested_of s' = nested_of s /\ t_mut t' = t_mut t /\ t_nested t' = t_nested t /\
  t_pc t' <> PEnq /\
  ( (t_pc t = PEnq /\ executed s' = executed s /\ enq_s s' = enq_s s ++ [t_mut t])
    \/ (t_pc t <> PEnq /\ exists m rest, map fst (queue s) = m :: rest /\
          executed s' = (m, i) :: executed s /\ enq_s s' = enq_s s ++ nested_for s m)
    \/ (t_pc t <> PEnq /\ executed s' = executed s /\ enq_s s' = enq_s s)).
Proof.
  intros recheck s i t.
  destruct (step_thread_effect recheck s i t) as (H1 & H2 & H3 & H4 & H5).
  cbv zeta. repeat split; auto. unfold enq_s.
  destruct H5 as [(Hp & Hq & He & _)|[(Hp & m & tick & rest & ext & Hq & Hq' & Hx & He & _)|(Hp & Hq & He & _)]].
  - left. repeat split; auto. rewrite Hq, He, map_app, app_assoc. reflexivity.
  - right; left. split; [congruence|]. exists m, (map fst rest). rewrite Hq, Hq', He.
    repeat split; auto. simpl. rewrite !map_app, Hx. simpl. rewrite <- !app_assoc. reflexivity.
  - right; right. repeat split; auto. rewrite Hq, He. reflexivity.
Qed.

(* static part: who issues what never changes *)
Definition invStat (muts : list (nat * list nat)) (c : cfg) : Prop :=
  nested_of (sh c) = muts /\ map (fun t => (t_mut t, t_nested t)) (ths c) = muts.

Lemma invStat_init : forall muts, invStat muts (init_cfg muts).
Proof.
  intros muts. unfold invStat, init_cfg. simpl. split; auto.
  rewrite map_map. simpl. induction muts as [|[a b] r IH]; simpl; congruence.
Qed.

Lemma invStat_step : forall muts recheck c i,
  invStat muts c -> invStat muts (step recheck c i).
Proof.
  intros muts recheck c i [H1 H2].
  destruct (step_cases recheck c i) as [[_ E]|(l1 & t & l2 & _ & Eths & _ & E)];
    rewrite E; [split; assumption|].
  destruct (enq_effect recheck (sh c) i t) as (Hn & Hm & Hne & _).
  unfold invStat. simpl. split; [congruence|].
  rewrite Eths in H2. rewrite map_app in *. simpl in *. rewrite Hm, Hne. exact H2.
Qed.

Lemma invStat_thread : forall muts c t,
  invStat muts c -> In t (ths c) -> In (t_mut t, t_nested t) muts.
Proof.
  intros muts c t [_ H] Hin. rewrite <- H.
  apply (in_map (fun t => (t_mut t, t_nested t))). exact Hin.
Qed.

(* unconditional part: whoever passed the enqueue is in; nested of executed are in *)
Definition invS (c : cfg) : Prop :=
  (forall t, In t (ths c) -> t_pc t <> PEnq -> In (t_mut t) (enq_s (sh c))) /\
  (forall m, In m (map fst (executed (sh c))) ->
     forall n, In n (nested_for (sh c) m) -> In n (enq_s (sh c))).

Lemma invS_init : forall muts, invS (init_cfg muts).
Proof.
  intros muts. split.
  - intros t Hin Hn. simpl in Hin. apply in_map_iff in Hin. destruct Hin as (p & Hp & _).
    subst t. simpl in Hn. congruence.
  - simpl. intros m [].
Qed.

Lemma nested_for_same : forall s s' m, nested_of s' = nested_of s -> nested_for s' m = nested_for s m.
Proof. intros s s' m H. unfold nested_for. rewrite H. reflexivity. Qed.

Lemma invS_step : forall recheck c i, invS c -> invS (step recheck c i).
Proof.
  intros recheck c i [HT HN].
  destruct (step_cases recheck c i) as [[_ E]|(l1 & t & l2 & _ & Eths & _ & E)];
    rewrite E; [split; assumption|].
  clear E.
  destruct (enq_effect recheck (sh c) i t) as (Hno & Hm & _ & Hpc' & Hcase).
  assert (Hmono : incl (enq_s (sh c)) (enq_s (fst (step_thread recheck (sh c) i t)))).
  { destruct Hcase as [(_ & _ & He)|[(_ & m & rest & _ & _ & He)|(_ & _ & He)]];
      rewrite He; [apply incl_appl | apply incl_appl | ]; apply incl_refl. }
  unfold invS. simpl. rewrite Eths in HT. split.
  - intros tj Hin Hn. apply in_app_or in Hin. destruct Hin as [Hin|[Hin|Hin]].
    + apply Hmono. apply HT; auto. apply in_or_app. auto.
    + subst tj. rewrite Hm.
      destruct Hcase as [(_ & _ & He)|[(Hp & _)|(Hp & _)]].
      * rewrite He. apply in_or_app. right. left. reflexivity.
      * apply Hmono. apply HT; auto. apply in_elt.
      * apply Hmono. apply HT; auto. apply in_elt.
    + apply Hmono. apply HT; auto. apply in_or_app. right. right. exact Hin.
  - intros m Hin n Hn. rewrite (nested_for_same _ _ m Hno) in Hn.
    destruct Hcase as [(_ & Hx & He)|[(_ & m0 & rest & _ & Hx & He)|(_ & Hx & He)]];
      rewrite Hx in Hin.
    + apply Hmono. eapply HN; eauto.
    + simpl in Hin. destruct Hin as [Hin|Hin].
      * subst m0. rewrite He. apply in_or_app. right. exact Hn.
      * apply Hmono. eapply HN; eauto.
    + apply Hmono. eapply HN; eauto.
Qed.

(* distinct ids *)
Lemma flat_map_nodup_elem : forall (f : nat * list nat -> list nat) l p,
  NoDup (flat_map f l) -> In p l -> NoDup (f p).
Proof.
  induction l as [|a l IH]; simpl; intros p Hnd Hin; [contradiction|].
  apply NoDup_app_inv in Hnd. destruct Hnd as (Ha & Hl & _).
  destruct Hin as [->|Hin]; auto.
Qed.

Lemma flat_map_nodup_inj : forall (f : nat * list nat -> list nat) l p q x,
  NoDup (flat_map f l) -> In p l -> In q l -> In x (f p) -> In x (f q) -> p = q.
Proof.
  induction l as [|a l IH]; simpl; intros p q x Hnd Hp Hq Hxp Hxq; [contradiction|].
  apply NoDup_app_inv in Hnd. destruct Hnd as (Ha & Hl & Hdis).
  destruct Hp as [Hp|Hp]; destruct Hq as [Hq|Hq].
  - congruence.
  - subst a. exfalso. apply (Hdis x Hxp). apply in_flat_map. exists q. auto.
  - subst a. exfalso. apply (Hdis x Hxq). apply in_flat_map. exists p. auto.
  - eapply IH; eauto.
Qed.

Section Distinct.
  Variable muts : list (nat * list nat).
  Hypothesis Hnd : NoDup (ids_of muts).

  Lemma ids_snd_nodup : forall p, In p muts -> NoDup (snd p) /\ ~ In (fst p) (snd p).
  Proof.
    intros p Hp. pose proof (flat_map_nodup_elem _ _ _ Hnd Hp) as H. simpl in H.
    inversion H; subst. auto.
  Qed.

  Lemma ids_snd_snd : forall p q n,
    In p muts -> In q muts -> In n (snd p) -> In n (snd q) -> p = q.
  Proof.
    intros p q n Hp Hq Hnp Hnq.
    apply (flat_map_nodup_inj _ _ p q n Hnd Hp Hq); right; assumption.
  Qed.

  Lemma ids_snd_fst : forall p q n,
    In p muts -> In q muts -> In n (snd p) -> n <> fst q.
  Proof.
    intros p q n Hp Hq Hnp Heq.
    assert (Hpq : p = q).
    { apply (flat_map_nodup_inj _ _ p q n Hnd Hp Hq); [right; assumption | left; auto]. }
    subst q. destruct (ids_snd_nodup p Hp) as [_ Hx]. apply Hx. rewrite <- Heq. exact Hnp.
  Qed.

  Lemma ids_fst_nodup : NoDup (map fst muts).
  Proof.
    clear -Hnd. unfold ids_of in Hnd. induction muts as [|a l IH]; simpl in *; [constructor|].
    inversion Hnd as [|x r Hn Hd]; subst.
    apply NoDup_app_inv in Hd. destruct Hd as (_ & Hl & _).
    constructor; auto. intro Hin. apply Hn. apply in_or_app. right.
    apply in_map_iff in Hin. destruct Hin as (q & Hq1 & Hq2).
    apply in_flat_map. exists q. split; auto. left. exact Hq1.
  Qed.

  Lemma own_distinct : forall c l1 t l2 tj,
    invStat muts c -> ths c = l1 ++ t :: l2 -> In tj l1 \/ In tj l2 -> t_mut tj <> t_mut t.
  Proof.
    intros c l1 t l2 tj [_ HS] Eths Hin Heq.
    pose proof ids_fst_nodup as H. rewrite <- HS, map_map, Eths, map_app in H. simpl in H.
    apply NoDup_remove_2 in H. apply H. rewrite <- Heq. apply in_or_app.
    destruct Hin as [Hin|Hin]; [left|right]; apply (in_map (fun x => t_mut x)); exact Hin.
  Qed.

  Definition invE (c : cfg) : Prop :=
    NoDup (enq_s (sh c)) /\
    (forall t, In t (ths c) -> t_pc t = PEnq -> ~ In (t_mut t) (enq_s (sh c))) /\
    (forall p, In p muts -> ~ In (fst p) (map fst (executed (sh c))) ->
       forall n, In n (snd p) -> ~ In n (enq_s (sh c))).

  Lemma invE_init : invE (init_cfg muts).
  Proof.
    unfold invE, enq_s. simpl. repeat split; auto. constructor.
  Qed.

  Lemma invE_step : forall recheck c i,
    invStat muts c -> invE c -> invE (step recheck c i).
  Proof.
    intros recheck c i HSt (HN & HT & HP).
    destruct (step_cases recheck c i) as [[_ E]|(l1 & t & l2 & _ & Eths & _ & E)];
      rewrite E; [repeat split; assumption|].
    clear E.
    destruct (enq_effect recheck (sh c) i t) as (Hno & Hm & _ & Hpc' & Hcase).
    assert (Hth : forall tj, In tj (ths c) -> In (t_mut tj, t_nested tj) muts).
    { intros tj Hin. eapply invStat_thread; eauto. }
    assert (Hold : forall tj, In tj (l1 ++ snd (step_thread recheck (sh c) i t) :: l2) ->
              t_pc tj = PEnq -> (In tj l1 \/ In tj l2) /\ In tj (ths c)).
    { intros tj Hin Hpc. rewrite Eths. apply in_app_or in Hin. destruct Hin as [Hin|[Hin|Hin]].
      - split; auto. apply in_or_app. auto.
      - subst tj. contradiction.
      - split; auto. apply in_or_app. right. right. exact Hin. }
    assert (Htin : In t (ths c)) by (rewrite Eths; apply in_elt).
    unfold invE. simpl.
    destruct Hcase as [(Hp & Hx & He)|[(Hp & m & rest & Hq & Hx & He)|(Hp & Hx & He)]];
      rewrite He, Hx.
    - (* enqueue of the own mutation *)
      split; [|split].
      + apply NoDup_app_intro; auto.
        * constructor; [intros []|constructor].
        * intros x Hx1 [Hx2|[]]. subst x. apply (HT t Htin Hp Hx1).
      + intros tj Hin Hpc Hin2. destruct (Hold tj Hin Hpc) as [Hl Hc].
        apply in_app_or in Hin2. destruct Hin2 as [Hin2|[Hin2|[]]].
        * apply (HT tj Hc Hpc Hin2).
        * apply (own_distinct c l1 t l2 tj HSt Eths Hl). auto.
      + intros p Hpin Hne n Hn Hin2. apply in_app_or in Hin2. destruct Hin2 as [Hin2|[Hin2|[]]].
        * apply (HP p Hpin Hne n Hn Hin2).
        * apply (ids_snd_fst p (t_mut t, t_nested t) n Hpin (Hth t Htin) Hn). auto.
    - (* pop of m: its nested mutations are enqueued *)
      assert (Hmne : ~ In m (map fst (executed (sh c)))).
      { intro Hin. unfold enq_s in HN. rewrite Hq in HN. apply NoDup_remove_2 in HN.
        apply HN. apply in_or_app. left. rewrite map_rev. apply in_rev in Hin. exact Hin. }
      destruct (nested_for_cases (sh c) m) as [Hnil|(p0 & Hp0 & Hf0 & Hnf)].
      + rewrite Hnil, app_nil_r. split; [|split]; auto.
        * intros tj Hin Hpc. destruct (Hold tj Hin Hpc) as [_ Hc]. apply HT; auto.
        * intros p Hpin Hne. apply HP; auto. intro Hin. apply Hne. right. exact Hin.
      + rewrite Hnf. destruct HSt as [HSt1 HSt2]. rewrite HSt1 in Hp0.
        destruct (ids_snd_nodup p0 Hp0) as [Hnd0 _].
        split; [|split].
        * apply NoDup_app_intro; auto.
          intros x Hx1 Hx2. apply (HP p0 Hp0 (eq_ind_r (fun z => ~ In z _) Hmne Hf0) x Hx2 Hx1).
        * intros tj Hin Hpc Hin2. destruct (Hold tj Hin Hpc) as [_ Hc].
          apply in_app_or in Hin2. destruct Hin2 as [Hin2|Hin2].
          -- apply (HT tj Hc Hpc Hin2).
          -- apply (ids_snd_fst p0 (t_mut tj, t_nested tj) (t_mut tj) Hp0 (Hth tj Hc) Hin2). auto.
        * intros q Hqin Hne n Hn Hin2. apply in_app_or in Hin2. destruct Hin2 as [Hin2|Hin2].
          -- apply (HP q Hqin) in Hin2; auto. intro Hin3. apply Hne. right. exact Hin3.
          -- assert (q = p0) by (eapply ids_snd_snd; eauto). subst q.
             apply Hne. left. simpl. auto.
    - (* queue and executed unchanged *)
      split; [|split]; auto.
      intros tj Hin Hpc. destruct (Hold tj Hin Hpc) as [_ Hc]. apply HT; auto.
  Qed.

  Lemma invSE_reach : forall recheck sched,
    let c := exec_sched recheck (init_cfg muts) sched in invStat muts c /\ invE c.
  Proof.
    intros recheck sched.
    apply (exec_sched_inv (fun c => invStat muts c /\ invE c)).
    - intros c i [H1 H2]. split; [apply invStat_step | apply invE_step]; assumption.
    - split; [apply invStat_init | apply invE_init].
  Qed.

  Lemma nested_for_of_muts : forall s m ns,
    nested_of s = muts -> In (m, ns) muts -> nested_for s m = ns.
  Proof.
    intros s m ns Hs Hin. unfold nested_for. rewrite Hs.
    destruct (find (fun p => Nat.eqb (fst p) m) muts) as [p|] eqn:E.
    - apply find_some in E. destruct E as [Hp He]. apply Nat.eqb_eq in He.
      assert (Hpe : p = (m, ns)).
      { apply (flat_map_nodup_inj _ _ p (m, ns) m Hnd Hp Hin); left; auto. }
      subst p. reflexivity.
    - apply (find_none _ _ E) in Hin. simpl in Hin.
      rewrite Nat.eqb_refl in Hin. discriminate.
  Qed.
End Distinct.

Lemma invStatS_reach : forall recheck muts sched,
  let c := exec_sched recheck (init_cfg muts) sched in invStat muts c /\ invS c.
Proof.
  intros recheck muts sched.
  apply (exec_sched_inv (fun c => invStat muts c /\ invS c)).
  - intros c i [H1 H2]. split; [apply invStat_step | apply invS_step]; assumption.
  - split; [apply invStat_init | apply invS_init].
Qed.

Lemma none_lost_none_twice_lemma : forall recheck muts sched,
  let c := exec_sched recheck (init_cfg muts) sched in
  (* every caller that passed the enqueue has its mutation queued or executed *)
  (forall t, In t (ths c) -> t_pc t <> PEnq -> In (t_mut t) (enqueued c)) /\
  (* the handlers' mutations of an executed mutation are queued or executed *)
  (forall m, In m (map fst (executed (sh c))) ->
     forall n, In n (nested_for (sh c) m) -> In n (enqueued c)) /\
  (* with pairwise distinct ids: nothing twice, and nested per the table *)
  (nodupb (ids_of muts) = true ->
     nodupb (enqueued c) = true /\
     (forall m ns, In (m, ns) muts -> In m (map fst (executed (sh c))) ->
        forall n, In n ns -> In n (enqueued c))).
Proof.
  intros recheck muts sched c.
  destruct (invStatS_reach recheck muts sched) as [HSt [HT HN]]. fold c in HSt, HT, HN.
  split; [exact HT|]. split; [exact HN|].
  intros Hnd. apply nodupb_NoDup in Hnd.
  destruct (invSE_reach muts Hnd recheck sched) as [_ (HND & _)]. fold c in HND.
  split.
  - apply nodupb_NoDup. exact HND.
  - intros m ns Hin Hex n Hn. apply (HN m Hex).
    rewrite (nested_for_of_muts muts Hnd (sh c) m ns); auto. apply HSt.
Qed.

(* ================================================================== *)
(* (7) at quiescence everything was processed                         *)
(* ================================================================== *)

Lemma eventually_processed_lemma : forall muts sched,
  let c := exec_sched true (init_cfg muts) sched in
  all_done c = true ->
  (forall m ns, In (m, ns) muts -> In m (map fst (executed (sh c)))) /\
  (nodupb (ids_of muts) = true ->
     nodupb (map fst (executed (sh c))) = true /\
     (forall m ns, In (m, ns) muts -> forall n, In n ns -> In n (map fst (executed (sh c))))).
Proof.
  intros muts sched c Hd.
  pose proof (quiescent_queue_empty muts sched Hd) as Hq. fold c in Hq.
  destruct (none_lost_none_twice_lemma true muts sched) as (HT & HN & HD).
  fold c in HT, HN, HD.
  assert (Henq : forall x, In x (enqueued c) -> In x (map fst (executed (sh c)))).
  { intros x Hx. unfold enqueued in Hx. rewrite Hq in Hx. simpl in Hx.
    rewrite app_nil_r, map_rev in Hx. apply in_rev in Hx. exact Hx. }
  destruct (invStatS_reach true muts sched) as [[_ HSt] _]. fold c in HSt.
  pose proof (all_done_Forall c Hd) as Hall. rewrite Forall_forall in Hall.
  assert (Hown : forall m ns, In (m, ns) muts -> In m (map fst (executed (sh c)))).
  { intros m ns Hin. rewrite <- HSt in Hin. apply in_map_iff in Hin.
    destruct Hin as (t & Ht & Hin). injection Ht as Hm Hns. rewrite <- Hm. apply Henq. apply HT; auto.
    rewrite (Hall t Hin). discriminate. }
  split; [exact Hown|].
  intros Hnd. destruct (HD Hnd) as [HND HNS]. split.
  - apply nodupb_NoDup in HND. apply nodupb_NoDup.
    unfold enqueued in HND. rewrite Hq in HND. simpl in HND. rewrite app_nil_r, map_rev in HND.
    apply NoDup_rev in HND. rewrite rev_involutive in HND. exact HND.
  - intros m ns Hin n Hn. apply Henq. eapply HNS; eauto.
Qed.
