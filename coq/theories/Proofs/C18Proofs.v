(* Proofs for C18 (Props/C18.v) over the delivery model Conc/Pipes.v. *)
From Coq Require Import List NArith Bool Arith Lia.
From AMV Require Import Conc.Pipes Spec.C18.
Import ListNotations.

(* ------------------------------------------------------------ clocks *)

Lemma length_upd : forall l i f, length (upd l i f) = length l.
Proof. induction l; destruct i; simpl; intros; auto. Qed.

Lemma tick_upd_same : forall l i f, i < length l ->
  tick_at (upd l i f) i = f (tick_at l i).
Proof.
  unfold tick_at. induction l; destruct i; simpl; intros; try lia; auto.
  apply IHl. lia.
Qed.

Lemma tick_upd_other : forall l i j f, i <> j -> tick_at (upd l i f) j = tick_at l j.
Proof.
  unfold tick_at. induction l; destruct i, j; simpl; intros; try congruence; auto.
Qed.

Definition is_add (k : mkind) : bool := match k with MAdd => true | MRem => false end.

Lemma act_succ : forall l i, i < length l -> act (upd l i N.succ) i = negb (act l i).
Proof.
  intros. unfold act. rewrite tick_upd_same by auto.
  rewrite N.odd_succ, <- N.negb_odd. reflexivity.
Qed.

Lemma act_plus2 : forall l i, i < length l -> act (upd l i plus2) i = act l i.
Proof.
  intros. unfold act. rewrite tick_upd_same by auto. unfold plus2.
  apply N.odd_succ_succ.
Qed.

Lemma act_upd_other : forall l i j f, i <> j -> act (upd l i f) j = act l j.
Proof. intros. unfold act. rewrite tick_upd_other; auto. Qed.

(* a transition on state i < length: afterwards i is active iff it was an
   Add; nothing else moves *)
Lemma apply_mut_act : forall multi ticks m j, m_st m < length ticks ->
  act (apply_mut multi ticks m) j =
  if Nat.eqb j (m_st m) then is_add (m_kind m) else act ticks j.
Proof.
  intros multi ticks [k i a] j Hi. unfold apply_mut. cbn [m_kind m_st] in *.
  destruct (Nat.eqb_spec j i) as [->|Hne].
  - destruct k; cbn [is_add]; destruct (act ticks i) eqn:Ha.
    + destruct (is_multi multi i); [rewrite act_plus2|]; auto.
    + rewrite act_succ, Ha; auto.
    + rewrite act_succ, Ha; auto.
    + auto.
  - destruct k; destruct (act ticks i); try destruct (is_multi multi i);
      try rewrite act_upd_other; auto.
Qed.

Lemma apply_mut_length : forall multi ticks m,
  length (apply_mut multi ticks m) = length ticks.
Proof.
  intros multi ticks [k i a]. unfold apply_mut. cbn [m_kind m_st].
  destruct k; destruct (act ticks i); try destruct (is_multi multi i);
    rewrite ?length_upd; auto.
Qed.

(* the source's call *)
Lemma src_op_spec : forall c ticks k st ticks' ev,
  st < length ticks ->
  src_op c ticks k st = (ticks', ev) ->
  length ticks' = length ticks /\
  (forall j, act ticks' j = if Nat.eqb j st then is_add k else act ticks j) /\
  match ev with
  | Some e => e = k /\ act ticks' st = is_add k
  | None => (forall j, act ticks' j = act ticks j) \/ (p_addonly c = true /\ k = MRem)
  end.
Proof.
  intros c ticks k st ticks' ev Hst H. unfold src_op in H.
  destruct k; destruct (act ticks st) eqn:Ha; cbn [is_add].
  - destruct (is_multi (p_multiS c) st); inversion H; subst; clear H.
    + rewrite length_upd. split; [auto|]. split.
      * intro j. destruct (Nat.eqb_spec j st) as [->|Hne].
        -- rewrite act_plus2; auto.
        -- rewrite act_upd_other; auto.
      * split; auto. rewrite act_plus2; auto.
    + split; [auto|]. split.
      * intro j. destruct (Nat.eqb_spec j st) as [->|Hne]; auto.
      * left; auto.
  - inversion H; subst; clear H. rewrite length_upd. split; [auto|]. split.
    + intro j. destruct (Nat.eqb_spec j st) as [->|Hne].
      * rewrite act_succ, Ha; auto.
      * rewrite act_upd_other; auto.
    + split; auto. rewrite act_succ, Ha; auto.
  - inversion H; subst; clear H. rewrite length_upd. split; [auto|]. split.
    + intro j. destruct (Nat.eqb_spec j st) as [->|Hne].
      * rewrite act_succ, Ha; auto.
      * rewrite act_upd_other; auto.
    + destruct (p_addonly c) eqn:Hao.
      * right; auto.
      * split; auto. rewrite act_succ, Ha; auto.
  - inversion H; subst; clear H. split; [auto|]. split.
    + intro j. destruct (Nat.eqb_spec j st) as [->|Hne]; auto.
    + left; auto.
Qed.

(* ------------------------------------------------------------ idle target *)

Definition no_parks (c : pcfg) : Prop := forallb negb (p_parks c) = true.

Lemma no_parks_at : forall c n, no_parks c -> parks_at c n = false.
Proof.
  unfold no_parks, parks_at. intros c n H.
  rewrite forallb_forall in H.
  destruct (nth_in_or_default n (p_parks c) false) as [Hin|Hd]; auto.
  apply H in Hin. destruct (nth n (p_parks c) false); auto.
Qed.

Definition idle (t : tgt) : Prop := t_busy t = false /\ t_queue t = [].

Lemma deliver_idle : forall c t m, no_parks c -> idle t ->
  deliver c t m =
  ({| t_ticks := apply_mut (p_multiT c) (t_ticks t) m; t_queue := [];
      t_busy := false; t_pend := None; t_ntx := S (t_ntx t);
      t_nparks := t_nparks t |}, rExecuted).
Proof.
  intros c t m Hp [Hb Hq]. unfold deliver, rem_early, dup_skip.
  rewrite Hb, Hq. cbn [is_nil is_dup existsb app].
  rewrite !andb_false_r. cbn [andb]. cbn [drain].
  rewrite no_parks_at by auto. reflexivity.
Qed.

(* ------------------------------------------------------------ schedules *)

Definition step_wf (n : nat) (s : step) : bool :=
  match s with
  | SSrc _ st _ | SChk _ st | SVeto _ _ st _ => Nat.ltb st n
  | SBar _ => Nat.ltb 0 n
  | _ => true
  end.

Lemma fold_invariant : forall (c : pcfg) (I : cfg -> Prop) (ok : step -> bool),
  (forall s st, I s -> ok st = true -> I (exec_step c s st)) ->
  forall steps s, I s -> forallb ok steps = true ->
  I (fold_left (exec_step c) steps s).
Proof.
  intros c I ok Hstep. induction steps; simpl; intros; auto.
  apply andb_true_iff in H0. destruct H0. apply IHsteps; auto.
Qed.

(* ------------------------------------------------------------ source never blocked *)

Definition unhindered (s : cfg) : Prop :=
  c_blocked s = false /\ src_unhindered (c_srclog s) = true.

Lemma unhindered_app0 : forall l, src_unhindered l = true -> src_unhindered (l ++ [0%N]) = true.
Proof.
  unfold src_unhindered. intros. rewrite forallb_app, H. reflexivity.
Qed.

Lemma unhindered_app4 : forall l, src_unhindered l = true -> src_unhindered (l ++ [4%N]) = true.
Proof.
  unfold src_unhindered. intros. rewrite forallb_app, H. reflexivity.
Qed.

Lemma unhindered_mark : forall s, unhindered s -> unhindered (mark s).
Proof. intros s [H1 H2]. split; auto. Qed.

Lemma unhindered_log0 : forall s, unhindered s -> unhindered (log_only s 0).
Proof. intros s [H1 H2]. split; cbn; auto using unhindered_app0. Qed.

Lemma unhindered_log4 : forall s, unhindered s -> unhindered (log_only s 4).
Proof. intros s [H1 H2]. split; cbn; auto using unhindered_app4. Qed.

Lemma nonflat_src_call_unhindered : forall c s k i args, p_flat c = false ->
  unhindered s -> unhindered (src_call c s k i args).
Proof.
  intros c s k i args Hf [Hb Hl]. unfold src_call.
  destruct (src_op c (c_src s) k i) as [src' ev].
  destruct ev; [rewrite Hf|]; split; cbn; auto using unhindered_app0.
Qed.

Lemma nonflat_step_unhindered : forall c s st, p_flat c = false ->
  unhindered s -> unhindered (exec_step c s st).
Proof.
  intros c s st Hf H. pose proof H as [Hb Hl]. destruct st; unfold exec_step.
  - rewrite Hb. apply nonflat_src_call_unhindered; auto.
  - rewrite Hb. apply unhindered_mark, unhindered_log0; auto.
  - rewrite Hb. destruct (veto_hits c s how k st).
    + apply unhindered_mark, unhindered_log4; auto.
    + apply unhindered_mark, nonflat_src_call_unhindered; auto.
  - rewrite Hb. destruct veto.
    + apply unhindered_mark, unhindered_log4; auto.
    + apply nonflat_src_call_unhindered; auto.
  - destruct (nth_error (c_bag s) i); [|split; auto].
    destruct (deliver c (c_tgt s) m). split; cbn; auto.
  - destruct (t_busy (c_tgt s)); [|split; auto]. split; cbn; auto.
    rewrite Hb. reflexivity.
  - destruct (t_busy (c_tgt s)); split; cbn; auto.
Qed.

Lemma source_never_blocked_lemma : forall (c : pcfg) (steps : list step),
  p_flat c = false ->
  c_blocked (run c steps) = false /\ src_unhindered (c_srclog (run c steps)) = true.
Proof.
  intros c steps Hf. unfold run.
  apply (fold_invariant c unhindered (fun _ => true)).
  - intros. apply nonflat_step_unhindered; auto.
  - split; reflexivity.
  - clear. induction steps; simpl; auto.
Qed.

(* ------------------------------------------------------------ flat, idle target *)

Definition step_flat_ok (n : nat) (s : step) : bool := step_wf n s && negb (is_hold s).

Record flat_inv (n : nat) (s : cfg) : Prop := {
  fi_idle : idle (c_tgt s);
  fi_bag : c_bag s = [];
  fi_unh : unhindered s;
  fi_ls : length (c_src s) = n;
  fi_lt : length (t_ticks (c_tgt s)) = n;
  fi_eq : forall j, act (c_src s) j = act (t_ticks (c_tgt s)) j
}.

Lemma flat_inv_mark : forall n s, flat_inv n s -> flat_inv n (mark s).
Proof. intros n s [H1 H2 H3 H4 H5 H6]. constructor; auto using unhindered_mark. Qed.

Lemma flat_inv_log : forall n s code, (code = 0 \/ code = 4)%N ->
  flat_inv n s -> flat_inv n (log_only s code).
Proof.
  intros n s code Hc [H1 H2 H3 H4 H5 H6]. constructor; auto.
  destruct Hc; subst; auto using unhindered_log0, unhindered_log4.
Qed.

Lemma flat_src_call : forall c s k st args,
  p_flat c = true -> p_addonly c = false -> no_parks c ->
  flat_inv (p_n c) s -> st < p_n c ->
  flat_inv (p_n c) (src_call c s k st args).
Proof.
  intros c s k st args Hf Hao Hp I Hwf.
  destruct I as [Hidle Hbag [Hb Hl] Hls Hlt Heq]. unfold src_call.
  destruct (src_op c (c_src s) k st) as [src' ev] eqn:Hop.
  apply src_op_spec in Hop; [|lia]. destruct Hop as (Hlen & Hact & Hev).
  destruct ev as [e|].
  - destruct Hev as [-> Hst']. rewrite Hf.
    set (t := c_tgt s) in *.
    assert (Hskipeq : (match k with MAdd => act (t_ticks t) st
                                 | MRem => negb (act (t_ticks t) st) end)
                      = Bool.eqb (act (t_ticks t) st) (is_add k)).
    { destruct k; cbn; destruct (act (t_ticks t) st); reflexivity. }
    rewrite Hskipeq.
    assert (Hti : target_idle t = true).
    { unfold target_idle. destruct Hidle as [Hbz Hq]. rewrite Hbz, Hq. reflexivity. }
    rewrite Hti. cbn [andb].
    destruct (Bool.eqb (act (t_ticks t) st) (is_add k)) eqn:Hsk.
    + (* skip: the target already agrees *)
      apply eqb_prop in Hsk.
      constructor; cbn; auto.
      * split; cbn; auto using unhindered_app0.
      * lia.
      * intro j. rewrite Hact. destruct (Nat.eqb_spec j st) as [->|Hne].
        -- symmetry. exact Hsk.
        -- apply Heq.
    + rewrite deliver_idle by auto. cbn [fst snd].
      destruct Hidle as [Hbz Hq]. rewrite Hbz. cbn [negb andb].
      constructor; cbn; auto.
      * split; auto.
      * split; cbn; auto using unhindered_app0.
      * lia.
      * rewrite apply_mut_length. auto.
      * intro j. rewrite apply_mut_act by (cbn; lia). cbn [m_st m_kind].
        rewrite Hact. destruct (Nat.eqb_spec j st) as [->|Hne].
        -- reflexivity.
        -- apply Heq.
  - destruct Hev as [Hsame|[Hx _]]; [|congruence].
    constructor; cbn; auto.
    + split; cbn; auto using unhindered_app0.
    + lia.
    + intro j. rewrite Hsame. apply Heq.
Qed.

Lemma flat_step : forall c s st,
  p_flat c = true -> p_addonly c = false -> no_parks c ->
  flat_inv (p_n c) s -> step_flat_ok (p_n c) st = true ->
  flat_inv (p_n c) (exec_step c s st).
Proof.
  intros c s st Hf Hao Hp I Hok. pose proof I as I0.
  destruct I as [Hidle Hbag [Hb Hl] Hls Hlt Heq].
  unfold step_flat_ok in Hok. apply andb_true_iff in Hok. destruct Hok as [Hwf Hnh].
  destruct st; unfold exec_step.
  - unfold step_wf in Hwf. apply Nat.ltb_lt in Hwf. rewrite Hb. apply flat_src_call; auto.
  - rewrite Hb. apply flat_inv_mark, flat_inv_log; auto.
  - unfold step_wf in Hwf. apply Nat.ltb_lt in Hwf. rewrite Hb.
    destruct (veto_hits c s how k st).
    + apply flat_inv_mark, flat_inv_log; auto.
    + apply flat_inv_mark, flat_src_call; auto.
  - unfold step_wf in Hwf. apply Nat.ltb_lt in Hwf. rewrite Hb. destruct veto.
    + apply flat_inv_mark, flat_inv_log; auto.
    + apply flat_src_call; auto.
  - rewrite Hbag. destruct i; cbn; auto.
  - destruct Hidle as [Hbz Hq]. rewrite Hbz. auto.
  - cbn in Hnh. discriminate.
Qed.

Lemma init_flat_inv : forall c, flat_inv (p_n c) (init c).
Proof.
  intro c. constructor; cbn; auto.
  - split; auto.
  - split; auto.
  - apply repeat_length.
  - apply repeat_length.
Qed.

Lemma never_held_split : forall c steps, never_held c steps = true ->
  no_parks c /\ forallb (fun s => negb (is_hold s)) steps = true.
Proof. unfold never_held, no_parks. intros. apply andb_true_iff in H. auto. Qed.

Lemma forallb_and : forall {A} (f g : A -> bool) l,
  forallb f l = true -> forallb g l = true -> forallb (fun x => f x && g x) l = true.
Proof.
  induction l; simpl; intros; auto.
  apply andb_true_iff in H, H0. destruct H, H0. rewrite H, H0. simpl. auto.
Qed.

Lemma follows_of_pointwise : forall n a b,
  (forall j, act a j = act b j) -> follows n a b = true.
Proof.
  intros. unfold follows. apply forallb_forall. intros x _. rewrite H.
  apply eqb_reflx.
Qed.

Lemma flat_local_follows_lemma : forall (c : pcfg) (steps : list step),
  p_flat c = true -> p_addonly c = false ->
  never_held c steps = true ->
  forallb (step_wf (p_n c)) steps = true ->
  let r := run c steps in
  quiescent r = true /\
  follows (p_n c) (c_src r) (t_ticks (c_tgt r)) = true /\
  src_unhindered (c_srclog r) = true.
Proof.
  intros c steps Hf Hao Hnh Hwf.
  apply never_held_split in Hnh. destruct Hnh as [Hp Hh].
  assert (I : flat_inv (p_n c) (run c steps)).
  { unfold run. apply (fold_invariant c (flat_inv (p_n c)) (step_flat_ok (p_n c))).
    - intros. apply flat_step; auto.
    - apply init_flat_inv.
    - unfold step_flat_ok. apply forallb_and; auto. }
  destruct I as [[Hb Hq] Hbag [Hbl Hl] _ _ Heq]. cbv zeta. split; [|split].
  - unfold quiescent. rewrite Hbag, Hb, Hq, Hbl. reflexivity.
  - apply follows_of_pointwise. auto.
  - auto.
Qed.

(* ------------------------------------------------------------ non-flat, oldest first, idle target *)

(* the kind of the youngest in-flight call for state j *)
Fixpoint last_ev (j : nat) (bag : list mut) : option mkind :=
  match bag with
  | [] => None
  | m :: r => match last_ev j r with
              | Some k => Some k
              | None => if Nat.eqb (m_st m) j then Some (m_kind m) else None
              end
  end.

Lemma last_ev_app : forall j bag m,
  last_ev j (bag ++ [m]) = if Nat.eqb (m_st m) j then Some (m_kind m) else last_ev j bag.
Proof.
  induction bag; intros; simpl.
  - destruct (Nat.eqb (m_st m) j); auto.
  - rewrite IHbag. destruct (Nat.eqb (m_st m) j); auto.
Qed.

Definition step_inorder_ok (n : nat) (s : step) : bool :=
  step_wf n s && negb (is_hold s) && oldest_first s.

Record nf_inv (n : nat) (s : cfg) : Prop := {
  ni_idle : idle (c_tgt s);
  ni_ls : length (c_src s) = n;
  ni_lt : length (t_ticks (c_tgt s)) = n;
  ni_bag : Forall (fun m => m_st m < n) (c_bag s);
  ni_blocked : c_blocked s = false;
  ni_eq : forall j, match last_ev j (c_bag s) with
                    | Some k => act (c_src s) j = is_add k
                    | None => act (t_ticks (c_tgt s)) j = act (c_src s) j
                    end
}.

Lemma nf_inv_mark : forall n s, nf_inv n s -> nf_inv n (mark s).
Proof. intros n s [H1 H2 H3 H4 H5 H6]. constructor; auto. Qed.

Lemma nf_inv_log : forall n s code, nf_inv n s -> nf_inv n (log_only s code).
Proof. intros n s code [H1 H2 H3 H4 H5 H6]. constructor; auto. Qed.

Lemma nf_src_call : forall c s k st args,
  p_flat c = false -> p_addonly c = false ->
  nf_inv (p_n c) s -> st < p_n c ->
  nf_inv (p_n c) (src_call c s k st args).
Proof.
  intros c s k st args Hf Hao I Hwf.
  destruct I as [Hidle Hls Hlt Hbag Hb Heq]. unfold src_call.
  destruct (src_op c (c_src s) k st) as [src' ev] eqn:Hop.
  apply src_op_spec in Hop; [|lia]. destruct Hop as (Hlen & Hact & Hev).
  destruct ev as [e|].
  - destruct Hev as [-> Hst']. rewrite Hf.
    constructor; cbn; auto; try lia.
    + apply Forall_app. split; auto.
    + intro j. rewrite last_ev_app. cbn [m_st m_kind].
      destruct (Nat.eqb_spec st j) as [->|Hne]; auto.
      specialize (Heq j). rewrite Hact.
      destruct (Nat.eqb_spec j st); [congruence|]. auto.
  - destruct Hev as [Hsame|[Hx _]]; [|congruence].
    constructor; cbn; auto; try lia.
    intro j. specialize (Heq j). rewrite Hsame. auto.
Qed.

(* every step but the delivery of a call *)
Lemma nf_step_src : forall c s st,
  p_flat c = false -> p_addonly c = false ->
  nf_inv (p_n c) s -> step_wf (p_n c) st = true -> is_hold st = false ->
  (forall i, st <> SDel i) ->
  nf_inv (p_n c) (exec_step c s st).
Proof.
  intros c s st Hf Hao I Hwf Hnh Hnd. pose proof I as I0.
  destruct I as [Hidle Hls Hlt Hbag Hb Heq].
  destruct st; unfold exec_step.
  - unfold step_wf in Hwf. apply Nat.ltb_lt in Hwf. rewrite Hb. apply nf_src_call; auto.
  - rewrite Hb. apply nf_inv_mark, nf_inv_log; auto.
  - unfold step_wf in Hwf. apply Nat.ltb_lt in Hwf. rewrite Hb.
    destruct (veto_hits c s how k st).
    + apply nf_inv_mark, nf_inv_log; auto.
    + apply nf_inv_mark, nf_src_call; auto.
  - unfold step_wf in Hwf. apply Nat.ltb_lt in Hwf. rewrite Hb. destruct veto.
    + apply nf_inv_mark, nf_inv_log; auto.
    + apply nf_src_call; auto.
  - exfalso. apply (Hnd i). reflexivity.
  - destruct Hidle as [Hbz Hq]. rewrite Hbz. auto.
  - discriminate.
Qed.

Lemma nf_step : forall c s st,
  p_flat c = false -> p_addonly c = false -> no_parks c ->
  nf_inv (p_n c) s -> step_inorder_ok (p_n c) st = true ->
  nf_inv (p_n c) (exec_step c s st).
Proof.
  intros c s st Hf Hao Hp I Hok.
  unfold step_inorder_ok in Hok. apply andb_true_iff in Hok. destruct Hok as [Hok Hof].
  apply andb_true_iff in Hok. destruct Hok as [Hwf Hnh].
  apply negb_true_iff in Hnh.
  destruct st as [| | | |i| |];
    try (apply nf_step_src; auto; intros; discriminate).
  destruct I as [Hidle Hls Hlt Hbag Hb Heq]. unfold exec_step.
  destruct i; [|cbn in Hof; discriminate].
  destruct (c_bag s) as [|m rest] eqn:Hbg; cbn [nth_error].
  - constructor; auto; rewrite Hbg; auto.
  - rewrite deliver_idle by auto.
    inversion Hbag as [|? ? Hm Hrest]; subst.
    constructor; cbn; auto.
    + split; auto.
    + rewrite apply_mut_length. auto.
    + intro j. specialize (Heq j). cbn [last_ev] in Heq.
      destruct (last_ev j rest) as [k|]; auto.
      rewrite apply_mut_act by lia.
      rewrite Nat.eqb_sym.
      destruct (Nat.eqb (m_st m) j); auto.
Qed.

Lemma init_nf_inv : forall c, nf_inv (p_n c) (init c).
Proof.
  intro c. constructor; cbn; auto.
  - split; auto.
  - apply repeat_length.
  - apply repeat_length.
Qed.

Lemma follows_of_pointwise' : forall n a b,
  (forall j, act b j = act a j) -> follows n a b = true.
Proof. intros. apply follows_of_pointwise. intro. rewrite H. auto. Qed.

Lemma nonflat_follows_partial_lemma : forall (c : pcfg) (steps : list step),
  p_flat c = false -> p_addonly c = false ->
  never_held c steps = true ->
  forallb oldest_first steps = true ->
  forallb (step_wf (p_n c)) steps = true ->
  let r := run c steps in
  quiescent r = true ->
  follows (p_n c) (c_src r) (t_ticks (c_tgt r)) = true.
Proof.
  intros c steps Hf Hao Hnh Hof Hwf.
  apply never_held_split in Hnh. destruct Hnh as [Hp Hh].
  assert (I : nf_inv (p_n c) (run c steps)).
  { unfold run. apply (fold_invariant c (nf_inv (p_n c)) (step_inorder_ok (p_n c))).
    - intros. apply nf_step; auto.
    - apply init_nf_inv.
    - unfold step_inorder_ok. apply forallb_and; auto. apply forallb_and; auto. }
  cbv zeta. intro Hq. destruct I as [_ _ _ _ _ Heq].
  unfold quiescent in Hq. repeat (apply andb_true_iff in Hq; destruct Hq as [Hq ?]).
  destruct (c_bag (run c steps)); [|discriminate].
  apply follows_of_pointwise'. intro j. specialize (Heq j). cbn in Heq. auto.
Qed.

(* ------------------------------------------------------------ refutations *)

Definition cfg1 (flat : bool) (parks : list bool) : pcfg :=
  {| p_flat := flat; p_addonly := false; p_n := 1; p_multiS := [false];
     p_multiT := [false]; p_parks := parks |}.

Definition bad_end (c : pcfg) (steps : list step) (src_active tgt_active : bool) : Prop :=
  let r := run c steps in
  quiescent r = true /\ act (c_src r) 0 = src_active /\
  act (t_ticks (c_tgt r)) 0 = tgt_active /\
  follows (p_n c) (c_src r) (t_ticks (c_tgt r)) = false.

(* Add then Remove on the source, the Remove's goroutine first *)
Definition w_reorder : list step :=
  [SSrc MAdd 0 false; SSrc MRem 0 false; SDel 1; SDel 0].

Lemma nonflat_reorder_refuted_lemma :
  exists (c : pcfg) (steps : list step),
    p_flat c = false /\ p_addonly c = false /\ never_held c steps = true /\
    forallb (step_wf (p_n c)) steps = true /\
    bad_end c steps false true.
Proof.
  exists (cfg1 false []), w_reorder. vm_compute. repeat split; reflexivity.
Qed.

(* calls in source order, but the target's Add transition has not applied
   its effect yet when the Remove arrives *)
Definition w_early : list step :=
  [SSrc MAdd 0 false; SDel 0; SSrc MRem 0 false; SDel 0; SRel].

Lemma nonflat_inorder_busy_refuted_lemma :
  exists (c : pcfg) (steps : list step),
    p_flat c = false /\ p_addonly c = false /\
    forallb oldest_first steps = true /\
    forallb (step_wf (p_n c)) steps = true /\
    bad_end c steps false true.
Proof.
  exists (cfg1 false [true]), w_early. vm_compute. repeat split; reflexivity.
Qed.

(* calls in source order on a target busy with something else: the second
   Add is dropped as a duplicate of the queued first one *)
Definition w_dedup : list step :=
  [SHold; SSrc MAdd 0 false; SDel 0; SSrc MRem 0 false; SDel 0;
   SSrc MAdd 0 false; SDel 0; SRel].

Lemma nonflat_dedup_refuted_lemma :
  exists (c : pcfg) (steps : list step),
    p_flat c = false /\ p_addonly c = false /\
    forallb oldest_first steps = true /\
    forallb (step_wf (p_n c)) steps = true /\
    bad_end c steps true false.
Proof.
  exists (cfg1 false []), w_dedup. vm_compute. repeat split; reflexivity.
Qed.

(* flat pipe (with the idle test) on a busy target: the calls are made, but
   the machine drops them the same two ways.  (1) the target's Add
   transition is held in negotiation when the Remove arrives: early return *)
Definition w_flat_early : list step :=
  [SHold; SSrc MAdd 0 false; SRel; SSrc MRem 0 false; SRel].

Lemma flat_busy_early_refuted_lemma :
  exists (c : pcfg) (steps : list step),
    p_flat c = true /\ p_addonly c = false /\
    forallb (step_wf (p_n c)) steps = true /\
    c_lossy (run c steps) = (true, false) /\
    bad_end c steps false true.
Proof.
  exists (cfg1 true [false; true]), w_flat_early. vm_compute. repeat split; reflexivity.
Qed.

(* (2) Add, Remove, Add queued behind an unrelated transition: the second
   Add is a "duplicate" (flat pipes never pass args) *)
Definition w_flat_dedup : list step :=
  [SHold; SSrc MAdd 0 false; SSrc MRem 0 false; SSrc MAdd 0 false; SRel].

Lemma flat_busy_dedup_refuted_lemma :
  exists (c : pcfg) (steps : list step),
    p_flat c = true /\ p_addonly c = false /\
    forallb (step_wf (p_n c)) steps = true /\
    c_lossy (run c steps) = (false, true) /\
    bad_end c steps true false.
Proof.
  exists (cfg1 true []), w_flat_dedup. vm_compute. repeat split; reflexivity.
Qed.

(* flat pipe: the target's transition runs inside the source's handler *)
Lemma flat_source_stuck_refuted_lemma :
  exists (c : pcfg) (steps : list step),
    p_flat c = true /\
    c_blocked (run c steps) = true /\
    src_unhindered (c_srclog (run c steps)) = false.
Proof.
  exists (cfg1 true [true]), [SSrc MAdd 0 false]. vm_compute. repeat split; reflexivity.
Qed.

(* ------------------------------------------------------------ Sync *)

Definition mk (k : mkind) (i : nat) : mut := {| m_kind := k; m_st := i; m_args := false |}.

Lemma fold_apply_act : forall multi k (l : list nat) ticks j,
  (forall i, In i l -> i < length ticks) ->
  act (fold_left (fun t i => apply_mut multi t (mk k i)) l ticks) j =
  if existsb (Nat.eqb j) l then is_add k else act ticks j.
Proof.
  induction l; intros ticks j Hl; simpl; auto.
  rewrite IHl.
  - rewrite apply_mut_act by (cbn; apply Hl; left; auto). cbn [m_st m_kind mk].
    destruct (Nat.eqb j a); simpl; auto.
    destruct (existsb (Nat.eqb j) l); auto.
  - intros i Hi. rewrite apply_mut_length. apply Hl. right; auto.
Qed.

Lemma fold_apply_length : forall multi k (l : list nat) ticks,
  length (fold_left (fun t i => apply_mut multi t (mk k i)) l ticks) = length ticks.
Proof.
  induction l; intros; simpl; auto. rewrite IHl, apply_mut_length. auto.
Qed.

Lemma existsb_filter_seq : forall (f : nat -> bool) n j, j < n ->
  existsb (Nat.eqb j) (filter f (seq 0 n)) = f j.
Proof.
  intros f n j Hj.
  destruct (f j) eqn:Hf.
  - apply existsb_exists. exists j. split; [|apply Nat.eqb_refl].
    apply filter_In. split; auto. apply in_seq. lia.
  - destruct (existsb (Nat.eqb j) (filter f (seq 0 n))) eqn:He; auto.
    apply existsb_exists in He. destruct He as [x [Hin Hx]].
    apply Nat.eqb_eq in Hx. subst x. apply filter_In in Hin. destruct Hin. congruence.
Qed.

Lemma sync_restores_lemma : forall (c : pcfg) (src tg : list N),
  length src = p_n c -> length tg = p_n c ->
  follows (p_n c) src (sync_ticks c src tg) = true.
Proof.
  intros c src tg Hs Ht. unfold follows. apply forallb_forall. intros j Hj.
  apply in_seq in Hj. unfold sync_ticks.
  change (fun t i => apply_mut (p_multiT c) t {| m_kind := MAdd; m_st := i; m_args := false |})
    with (fun t i => apply_mut (p_multiT c) t (mk MAdd i)).
  change (fun t i => apply_mut (p_multiT c) t {| m_kind := MRem; m_st := i; m_args := false |})
    with (fun t i => apply_mut (p_multiT c) t (mk MRem i)).
  rewrite fold_apply_act.
  - rewrite existsb_filter_seq by lia.
    rewrite fold_apply_act.
    + rewrite existsb_filter_seq by lia.
      destruct (act src j); reflexivity.
    + intros i Hi. apply filter_In in Hi. destruct Hi as [Hi _]. apply in_seq in Hi. lia.
  - intros i Hi. rewrite fold_apply_length.
    apply filter_In in Hi. destruct Hi as [Hi _]. apply in_seq in Hi. lia.
Qed.

(* ------------------------------------------------------------ BindAny *)

Lemma any_src_length : forall n a o, length (any_src n a o) = n.
Proof. intros. unfold any_src. rewrite map_length, seq_length. auto. Qed.

Lemma sets_equal_refl : forall a, sets_equal a a = true.
Proof. induction a; simpl; auto. rewrite IHa, eqb_reflx. auto. Qed.

Lemma subset_count_le : forall a b, subset_b a b = true -> count_true a <= count_true b.
Proof.
  unfold count_true. induction a; intros b H; simpl; [lia|].
  destruct b as [|y s]; simpl in H; apply andb_true_iff in H; destruct H as [H1 H2].
  - apply negb_true_iff in H1. subst a. simpl. apply (IHa [] H2).
  - specialize (IHa s H2). destruct a, y; simpl in *; try discriminate; lia.
Qed.

(* same size and contained => equal *)
Lemma subset_count_eq : forall a b, length a = length b ->
  subset_b a b = true -> count_true b = count_true a -> a = b.
Proof.
  induction a; intros b Hl Hs Hc; destruct b as [|y s]; try discriminate; auto.
  simpl in Hs. apply andb_true_iff in Hs. destruct Hs as [H1 H2].
  pose proof (subset_count_le _ _ H2) as Hle.
  unfold count_true in *. simpl in Hl.
  destruct a, y; simpl in *; try discriminate.
  - f_equal. apply IHa; auto; lia.
  - lia.
  - f_equal. apply IHa; auto; lia.
Qed.

Lemma bindany_equal_sets_lemma : forall (n : nat) (ops : list aop),
  sets_equal (fst (any_run n ops)) (snd (any_run n ops)) = true.
Proof.
  intros n ops. unfold any_run.
  assert (H : forall st, fst st = snd st -> length (fst st) = n ->
            fst (fold_left (any_step n) ops st) = snd (fold_left (any_step n) ops st)).
  { induction ops; intros st Hst Hl; simpl; auto.
    apply IHops.
    - unfold any_step, any_tgt. cbn [fst snd].
      destruct (Nat.eqb (count_true (snd st)) (count_true (any_src n (fst st) a))
                && subset_b (any_src n (fst st) a) (snd st)) eqn:E; auto.
      apply andb_true_iff in E. destruct E as [E1 E2]. apply Nat.eqb_eq in E1.
      apply subset_count_eq; auto. rewrite any_src_length. congruence.
    - unfold any_step. cbn [fst]. apply any_src_length. }
  rewrite H.
  - apply sets_equal_refl.
  - reflexivity.
  - cbn. apply repeat_length.
Qed.

(* deactivations do reach the target *)
Example bindany_nonvacuous :
  any_run 2 [AAdd [0; 1]; ASet [1]; ARem [1]] = ([false; false], [false; false]) /\
  any_run 2 [AAdd [0; 1]; ASet [1]] = ([false; true], [false; true]).
Proof. vm_compute. split; reflexivity. Qed.

(* ------------------------------------------------------------ non-vacuity *)

Example flat_follows_nonvacuous :
  let c := cfg1 true [] in
  let steps := [SSrc MAdd 0 false; SSrc MRem 0 true; SSrc MAdd 0 false] in
  never_held c steps = true /\ forallb (step_wf (p_n c)) steps = true /\
  act (c_src (run c steps)) 0 = true /\ t_ntx (c_tgt (run c steps)) = 3.
Proof. vm_compute. repeat split; reflexivity. Qed.

Example nonflat_follows_nonvacuous :
  let c := cfg1 false [] in
  let steps := [SSrc MAdd 0 false; SSrc MRem 0 false; SSrc MAdd 0 false;
                SDel 0; SDel 0; SDel 0] in
  never_held c steps = true /\ forallb oldest_first steps = true /\
  quiescent (run c steps) = true /\ act (t_ticks (c_tgt (run c steps))) 0 = true.
Proof. vm_compute. repeat split; reflexivity. Qed.

(* ------------------------------------------------------------ non-flat, per-state order *)

Lemma last_ev_cons_other : forall j x l, Nat.eqb (m_st x) j = false ->
  last_ev j (x :: l) = last_ev j l.
Proof. intros. simpl. rewrite H. destruct (last_ev j l); auto. Qed.

(* taking out a call that no older call for the same state precedes *)
Lemma last_ev_remove : forall i bag m,
  nth_error bag i = Some m ->
  existsb (fun x => Nat.eqb (m_st x) (m_st m)) (firstn i bag) = false ->
  forall j,
    (Nat.eqb (m_st m) j = false -> last_ev j (remove_nth i bag) = last_ev j bag) /\
    (Nat.eqb (m_st m) j = true ->
       match last_ev j (remove_nth i bag) with
       | Some k => last_ev j bag = Some k
       | None => last_ev j bag = Some (m_kind m)
       end).
Proof.
  induction i; intros bag m Hn Hold j; destruct bag as [|x rest]; try discriminate.
  - simpl in Hn. inversion Hn; subst x. cbn [remove_nth]. split; intro H.
    + rewrite last_ev_cons_other; auto.
    + simpl. destruct (last_ev j rest); auto. rewrite H. auto.
  - simpl in Hn. cbn [firstn existsb] in Hold. apply orb_false_iff in Hold.
    destruct Hold as [Hx Hold]. cbn [remove_nth].
    destruct (IHi rest m Hn Hold j) as [IH1 IH2]. split; intro H.
    + simpl. rewrite IH1; auto.
    + assert (Hxj : Nat.eqb (m_st x) j = false).
      { apply Nat.eqb_eq in H. subst j. auto. }
      rewrite !last_ev_cons_other by auto. apply IH2. exact H.
Qed.

Lemma Forall_remove_nth : forall {A} (P : A -> Prop) i l,
  Forall P l -> Forall P (remove_nth i l).
Proof.
  induction i; intros l H; destruct l; simpl; auto; inversion H; subst; auto.
Qed.

Definition step_nf_ok (n : nat) (s : step) : bool := step_wf n s && negb (is_hold s).

Definition nf_inv' (n : nat) (s : cfg) : Prop := c_reord s = true \/ nf_inv n s.

Lemma reord_src_call : forall c s k i args,
  c_reord (src_call c s k i args) = c_reord s.
Proof.
  intros. unfold src_call. destruct (src_op c (c_src s) k i) as [src' ev].
  destruct ev; cbn; auto. destruct (p_flat c); cbn; auto.
  destruct (target_idle (c_tgt s) && _); cbn; auto.
  destruct (deliver c (c_tgt s) _); cbn; auto.
Qed.

Lemma reord_sticky : forall c s st, c_reord s = true -> c_reord (exec_step c s st) = true.
Proof.
  intros c s st H. destruct st; unfold exec_step.
  - destruct (c_blocked s); [cbn; auto|]. rewrite reord_src_call. auto.
  - destruct (c_blocked s); cbn; auto.
  - destruct (c_blocked s); [cbn; auto|].
    destruct (veto_hits c s how k st); cbn; auto. rewrite reord_src_call. auto.
  - destruct (c_blocked s); [cbn; auto|]. destruct veto; [cbn; auto|].
    rewrite reord_src_call. auto.
  - destruct (nth_error (c_bag s) i); auto.
    destruct (deliver c (c_tgt s) m). cbn. rewrite H. auto.
  - destruct (t_busy (c_tgt s)); cbn; auto.
  - destruct (t_busy (c_tgt s)); cbn; auto.
Qed.

Lemma nf_step' : forall c s st,
  p_flat c = false -> p_addonly c = false -> no_parks c ->
  nf_inv' (p_n c) s -> step_nf_ok (p_n c) st = true ->
  nf_inv' (p_n c) (exec_step c s st).
Proof.
  intros c s st Hf Hao Hp [Hr|I] Hok.
  { left. apply reord_sticky. auto. }
  unfold step_nf_ok in Hok. apply andb_true_iff in Hok. destruct Hok as [Hwf Hnh].
  apply negb_true_iff in Hnh.
  destruct st as [| | | |i| |];
    try (right; apply nf_step_src; auto; intros; discriminate).
  destruct I as [Hidle Hls Hlt Hbag Hb Heq]. unfold exec_step.
  destruct (nth_error (c_bag s) i) as [m|] eqn:Hn.
  - rewrite deliver_idle by auto.
    destruct (older_same (c_bag s) i m) eqn:Hos.
    + left. cbn. apply orb_true_r.
    + right.
      assert (Hm : m_st m < p_n c).
      { apply nth_error_In in Hn. rewrite Forall_forall in Hbag. auto. }
      constructor; cbn; auto.
      * split; auto.
      * rewrite apply_mut_length. auto.
      * apply Forall_remove_nth. auto.
      * intro j. specialize (Heq j).
        destruct (last_ev_remove i (c_bag s) m Hn Hos j) as [L1 L2].
        rewrite apply_mut_act by lia. rewrite Nat.eqb_sym.
        destruct (Nat.eqb (m_st m) j) eqn:E.
        -- specialize (L2 eq_refl).
           destruct (last_ev j (remove_nth i (c_bag s))).
           ++ rewrite L2 in Heq. auto.
           ++ rewrite L2 in Heq. auto.
        -- rewrite L1 by auto. auto.
  - right. constructor; auto.
Qed.

Lemma nonflat_follows_per_state_order_lemma : forall (c : pcfg) (steps : list step),
  p_flat c = false -> p_addonly c = false ->
  never_held c steps = true ->
  forallb (step_wf (p_n c)) steps = true ->
  let r := run c steps in
  c_reord r = false ->
  quiescent r = true ->
  follows (p_n c) (c_src r) (t_ticks (c_tgt r)) = true.
Proof.
  intros c steps Hf Hao Hnh Hwf.
  apply never_held_split in Hnh. destruct Hnh as [Hp Hh].
  assert (I : nf_inv' (p_n c) (run c steps)).
  { unfold run. apply (fold_invariant c (nf_inv' (p_n c)) (step_nf_ok (p_n c))).
    - intros. apply nf_step'; auto.
    - right. apply init_nf_inv.
    - unfold step_nf_ok. apply forallb_and; auto. }
  cbv zeta. intros Hr Hq. destruct I as [I|I]; [congruence|].
  destruct I as [_ _ _ _ _ Heq].
  unfold quiescent in Hq. repeat (apply andb_true_iff in Hq; destruct Hq as [Hq ?]).
  destruct (c_bag (run c steps)); [|discriminate].
  apply follows_of_pointwise'. intro j. specialize (Heq j). cbn in Heq. auto.
Qed.

(* calls for DIFFERENT states may overtake each other *)
Example per_state_order_nonvacuous :
  let c := {| p_flat := false; p_addonly := false; p_n := 2; p_multiS := [false; true];
              p_multiT := [false; false]; p_parks := [] |} in
  let steps := [SSrc MAdd 0 false; SSrc MAdd 1 false; SSrc MRem 0 false;
                SDel 1; SDel 0; SDel 0] in
  c_reord (run c steps) = false /\ quiescent (run c steps) = true /\
  forallb oldest_first steps = false.
Proof. vm_compute. repeat split; reflexivity. Qed.

(* ------------------------------------------------------------ checks and vetoed mutations *)

Definition silent_step (c : pcfg) (s : cfg) (st : step) : bool :=
  match st with
  | SChk _ _ => true
  | SVeto how k i _ => veto_hits c s how k i
  | SBar v => v
  | _ => false
  end.

Lemma check_or_veto_silent_lemma : forall (c : pcfg) (s : cfg) (st : step),
  silent_step c s st = true ->
  let s' := exec_step c s st in
  c_src s' = c_src s /\ c_tgt s' = c_tgt s /\ c_bag s' = c_bag s /\
  c_dellog s' = c_dellog s /\ exists code, c_evlog s' = c_evlog s ++ [0%N] /\
  c_srclog s' = c_srclog s ++ [code].
Proof.
  intros c s st H. destruct st; cbn in H; try discriminate; cbv zeta; unfold exec_step.
  - destruct (c_blocked s); cbn; repeat split; eauto.
  - rewrite H. destruct (c_blocked s); cbn; repeat split; eauto.
  - subst veto. destruct (c_blocked s); cbn; repeat split; eauto.
Qed.

(* ------------------------------------------------------------ any schedule: the target's EVENTUAL state *)

(* what the target will be once its held transition and its queue are done *)
Definition pend_list (t : tgt) : list mut :=
  match t_pend t with Some m => [m] | None => [] end.

Definition eventual (c : pcfg) (t : tgt) : list N :=
  fold_left (apply_mut (p_multiT c)) (pend_list t ++ t_queue t) (t_ticks t).

Record tgt_ok (n : nat) (t : tgt) : Prop := {
  to_len : length (t_ticks t) = n;
  to_st : Forall (fun m => m_st m < n) (pend_list t ++ t_queue t);
  to_idle : t_busy t = false -> t_queue t = [] /\ t_pend t = None
}.

Lemma fold_muts_length : forall multi l ticks,
  length (fold_left (apply_mut multi) l ticks) = length ticks.
Proof. induction l; intros; simpl; auto. rewrite IHl, apply_mut_length. auto. Qed.

Lemma fold_muts_act : forall multi l ticks j,
  Forall (fun m => m_st m < length ticks) l ->
  act (fold_left (apply_mut multi) l ticks) j =
  match last_ev j l with Some k => is_add k | None => act ticks j end.
Proof.
  induction l; intros ticks j H; simpl; auto.
  inversion H; subst. rewrite IHl by (rewrite apply_mut_length; auto).
  destruct (last_ev j l); auto.
  rewrite apply_mut_act by auto. rewrite Nat.eqb_sym.
  destruct (Nat.eqb (m_st a) j); auto.
Qed.

Lemma last_ev_app2 : forall j a b,
  last_ev j (a ++ b) = match last_ev j b with Some k => Some k | None => last_ev j a end.
Proof.
  induction a; intros; simpl.
  - destruct (last_ev j b); auto.
  - rewrite IHa. destruct (last_ev j b); auto.
Qed.

Lemma last_ev_none : forall j l, (forall x, In x l -> Nat.eqb (m_st x) j = false) ->
  last_ev j l = None.
Proof.
  induction l; intros H; simpl; auto.
  rewrite IHl by (intros; apply H; right; auto).
  rewrite (H a) by (left; auto). auto.
Qed.

(* all queued mutations of state j have kind k, and there is one *)
Lemma last_ev_all_kind : forall j k l,
  (forall x, In x l -> Nat.eqb (m_st x) j = true -> m_kind x = k) ->
  (exists x, In x l /\ Nat.eqb (m_st x) j = true) ->
  last_ev j l = Some k.
Proof.
  induction l; intros Hall [x [Hin Hx]]; [destruct Hin|].
  simpl. destruct (last_ev j l) eqn:E.
  - destruct (existsb (fun x => Nat.eqb (m_st x) j) l) eqn:Ex.
    + apply existsb_exists in Ex. destruct Ex as [y [Hy1 Hy2]].
      apply IHl; [|eauto]. intros; apply Hall; auto. right; auto.
    + rewrite last_ev_none in E; [discriminate|].
      intros y Hy. destruct (Nat.eqb (m_st y) j) eqn:Ey; auto.
      assert (existsb (fun x => Nat.eqb (m_st x) j) l = true)
        by (apply existsb_exists; eauto). congruence.
  - destruct Hin as [->|Hin].
    + rewrite Hx. f_equal. apply Hall; auto. left; auto.
    + destruct (Nat.eqb (m_st a) j) eqn:Ea.
      * f_equal. apply Hall; auto. left; auto.
      * exfalso.
        assert (E' : @None mkind = Some k).
        { apply IHl; [|eauto]. intros; apply Hall; auto. right; auto. }
        discriminate.
Qed.

Lemma drain_spec : forall c q ticks ntx np n,
  length ticks = n -> Forall (fun m => m_st m < n) q ->
  tgt_ok n (drain c ticks q ntx np) /\
  eventual c (drain c ticks q ntx np) = fold_left (apply_mut (p_multiT c)) q ticks.
Proof.
  induction q; intros ticks ntx np n Hl Hq; cbn [drain].
  - split; [constructor; cbn; auto|reflexivity].
  - inversion Hq; subst. destruct (parks_at c ntx).
    + split; [constructor; cbn; auto; discriminate|reflexivity].
    + apply IHq; auto. rewrite apply_mut_length. auto.
Qed.

Lemma eventual_act : forall c t n j, tgt_ok n t ->
  act (eventual c t) j =
  match last_ev j (pend_list t ++ t_queue t) with
  | Some k => is_add k | None => act (t_ticks t) j end.
Proof.
  intros c t n j [Hl Hs _]. unfold eventual. apply fold_muts_act. rewrite Hl. auto.
Qed.

Lemma eventual_idle : forall c t, t_busy t = false -> t_queue t = [] -> t_pend t = None ->
  eventual c t = t_ticks t.
Proof. intros c t _ Hq Hp. unfold eventual, pend_list. rewrite Hq, Hp. reflexivity. Qed.

(* a call reaches the target and is not one of the two lossy drops: the
   eventual state of its state becomes what the call says *)
Lemma deliver_eventual : forall c t m n,
  tgt_ok n t -> m_st m < n ->
  lossy_early t m = false -> lossy_dup c t m = false ->
  tgt_ok n (fst (deliver c t m)) /\
  forall j, act (eventual c (fst (deliver c t m))) j =
            if Nat.eqb j (m_st m) then is_add (m_kind m) else act (eventual c t) j.
Proof.
  intros c t m n Hok Hm Hle Hld. pose proof Hok as [Hl Hs Hi].
  unfold deliver. destruct (rem_early t m) eqn:Ere.
  - (* early return *)
    cbn [fst]. split; auto. intro j.
    destruct (Nat.eqb_spec j (m_st m)) as [->|Hne]; auto.
    unfold lossy_early in Hle. rewrite Ere in Hle. cbn [andb] in Hle.
    unfold rem_early in Ere. repeat (apply andb_true_iff in Ere; destruct Ere as [Ere ?]).
    destruct (m_kind m); [discriminate|]. cbn [is_add].
    rewrite (eventual_act c t n) by auto.
    destruct (t_queue t); [|discriminate]. rewrite app_nil_r.
    unfold pend_list. destruct (t_pend t) as [p|]; cbn [last_ev].
    + destruct (Nat.eqb (m_st p) (m_st m)) eqn:Ep.
      * rewrite andb_true_r in Hle. destruct (m_kind p); [discriminate|reflexivity].
      * apply negb_true_iff. auto.
    + apply negb_true_iff. auto.
  - destruct (dup_skip c t m) eqn:Eds.
    + (* duplicate skip *)
      cbn [fst]. split; auto. intro j.
      destruct (Nat.eqb_spec j (m_st m)) as [->|Hne]; auto.
      unfold lossy_dup in Hld. rewrite Ere, Eds in Hld. cbn [negb andb] in Hld.
      unfold dup_skip in Eds. apply andb_true_iff in Eds. destruct Eds as [_ Edup].
      unfold is_dup in Edup. apply existsb_exists in Edup. destruct Edup as [x [Hx1 Hx2]].
      apply andb_true_iff in Hx2. destruct Hx2 as [Hx2 _].
      apply andb_true_iff in Hx2. destruct Hx2 as [Hxk Hxs].
      rewrite (eventual_act c t n) by auto. rewrite last_ev_app2.
      rewrite (last_ev_all_kind (m_st m) (m_kind m) (t_queue t)); auto.
      * intros y Hy Hys.
        destruct (mkind_eqb (m_kind y) (m_kind m)) eqn:Ek.
        -- destruct (m_kind y), (m_kind m); auto; discriminate.
        -- assert (existsb (fun x => Nat.eqb (m_st x) (m_st m)
                     && negb (mkind_eqb (m_kind x) (m_kind m))) (t_queue t) = true).
           { apply existsb_exists. exists y. split; auto. rewrite Hys, Ek. reflexivity. }
           congruence.
      * exists x. split; auto.
    + destruct (t_busy t) eqn:Eb; cbn [fst].
      * (* queued *)
        split.
        -- constructor; cbn; auto; [|discriminate].
           unfold pend_list in *. cbn [t_pend]. rewrite app_assoc.
           apply Forall_app. split; auto.
        -- intro j. unfold eventual, pend_list. cbn [t_pend t_queue t_ticks].
           rewrite app_assoc, fold_left_app. cbn [fold_left].
           rewrite apply_mut_act; [reflexivity|].
           change (fold_left (apply_mut (p_multiT c))
                     (match t_pend t with Some m0 => [m0] | None => [] end ++ t_queue t)
                     (t_ticks t)) with (eventual c t).
           unfold eventual. rewrite fold_muts_length. lia.
      * (* idle: processed at once (or held) *)
        destruct (Hi eq_refl) as [Hq Hp]. rewrite Hq. cbn [app].
        destruct (drain_spec c [m] (t_ticks t) (t_ntx t) (t_nparks t) n) as [D1 D2]; auto.
        split; auto. intro j. rewrite D2. cbn [fold_left].
        rewrite (eventual_idle c t) by auto. apply apply_mut_act. lia.
Qed.

Lemma release_eventual : forall c t n, tgt_ok n t ->
  tgt_ok n (release c t) /\ eventual c (release c t) = eventual c t.
Proof.
  intros c t n [Hl Hs Hi]. unfold release.
  assert (Hq : Forall (fun m => m_st m < n) (t_queue t)).
  { apply Forall_app in Hs. tauto. }
  destruct (t_pend t) as [p|] eqn:Ep.
  - destruct (drain_spec c (t_queue t) (apply_mut (p_multiT c) (t_ticks t) p)
                (t_ntx t) (t_nparks t) n) as [D1 D2]; auto.
    + rewrite apply_mut_length. auto.
    + split; auto. rewrite D2. unfold eventual, pend_list. rewrite Ep. reflexivity.
  - destruct (drain_spec c (t_queue t) (t_ticks t) (t_ntx t) (t_nparks t) n) as [D1 D2]; auto.
    split; auto. rewrite D2. unfold eventual, pend_list. rewrite Ep. reflexivity.
Qed.

Lemma hold_eventual : forall c t n, tgt_ok n t -> t_busy t = false ->
  tgt_ok n (hold t) /\ eventual c (hold t) = eventual c t.
Proof.
  intros c t n [Hl Hs Hi] Hb. destruct (Hi Hb) as [Hq Hp]. split.
  - constructor; cbn; auto; try discriminate; rewrite ?Hq; auto.
  - unfold eventual, pend_list. cbn. rewrite Hp. reflexivity.
Qed.

Definition lossy (s : cfg) : bool := fst (c_lossy s) || snd (c_lossy s).

Lemma lossy_src_call_nonflat : forall c s k i args, p_flat c = false ->
  c_lossy (src_call c s k i args) = c_lossy s.
Proof.
  intros. unfold src_call. destruct (src_op c (c_src s) k i) as [src' ev].
  destruct ev; cbn; auto. rewrite H. reflexivity.
Qed.

Lemma lossy_sticky_src_call : forall c s k i args, lossy s = true ->
  lossy (src_call c s k i args) = true.
Proof.
  intros c s k i args H. unfold src_call.
  destruct (src_op c (c_src s) k i) as [src' ev]. destruct ev; cbn; auto.
  destruct (p_flat c); cbn; auto.
  destruct (target_idle (c_tgt s) && _); cbn; auto.
  destruct (deliver c (c_tgt s) _). unfold lossy in *. cbn.
  destruct (fst (c_lossy s)), (snd (c_lossy s)); try discriminate; cbn;
    rewrite ?orb_true_r; auto.
Qed.

Lemma lossy_sticky : forall c s st, lossy s = true -> lossy (exec_step c s st) = true.
Proof.
  intros c s st H. destruct st; unfold exec_step.
  - destruct (c_blocked s); [cbn; auto|]. apply lossy_sticky_src_call; auto.
  - destruct (c_blocked s); cbn; auto.
  - destruct (c_blocked s); [cbn; auto|].
    destruct (veto_hits c s how k st); [cbn; auto|].
    pose proof (lossy_sticky_src_call c s k st args H) as L. exact L.
  - destruct (c_blocked s); [cbn; auto|]. destruct veto; [cbn; auto|].
    apply lossy_sticky_src_call; auto.
  - destruct (nth_error (c_bag s) i); auto.
    destruct (deliver c (c_tgt s) m). unfold lossy in *. cbn.
    destruct (fst (c_lossy s)), (snd (c_lossy s)); try discriminate; cbn;
      rewrite ?orb_true_r; auto.
  - destruct (t_busy (c_tgt s)); cbn; auto.
  - destruct (t_busy (c_tgt s)); cbn; auto.
Qed.

(* ---- flat pipes, any schedule *)

Record fl_inv (c : pcfg) (s : cfg) : Prop := {
  fl_t : tgt_ok (p_n c) (c_tgt s);
  fl_ls : length (c_src s) = p_n c;
  fl_bag : c_bag s = [];
  fl_eq : forall j, act (eventual c (c_tgt s)) j = act (c_src s) j
}.

Definition fl_inv' (c : pcfg) (s : cfg) : Prop := lossy s = true \/ fl_inv c s.

Lemma fl_inv_mark : forall c s, fl_inv c s -> fl_inv c (mark s).
Proof. intros c s [H1 H2 H3 H4]. constructor; auto. Qed.

Lemma fl_inv_log : forall c s code, fl_inv c s -> fl_inv c (log_only s code).
Proof. intros c s code [H1 H2 H3 H4]. constructor; auto. Qed.

Lemma fl_src_call : forall c s k st args,
  p_flat c = true -> p_addonly c = false ->
  fl_inv c s -> st < p_n c ->
  fl_inv' c (src_call c s k st args).
Proof.
  intros c s k st args Hf Hao [Ht Hls Hbag Heq] Hwf. unfold src_call.
  destruct (src_op c (c_src s) k st) as [src' ev] eqn:Hop.
  apply src_op_spec in Hop; [|lia]. destruct Hop as (Hlen & Hact & Hev).
  destruct ev as [e|].
  - destruct Hev as [-> Hst']. rewrite Hf.
    set (t := c_tgt s) in *.
    destruct (target_idle t && _) eqn:Hskip.
    + (* skipped on an idle target that agrees *)
      right. apply andb_true_iff in Hskip. destruct Hskip as [Hidle Hag].
      unfold target_idle in Hidle. apply andb_true_iff in Hidle. destruct Hidle as [Hq Hb].
      apply negb_true_iff in Hb. destruct (t_queue t) eqn:Eq; [|discriminate].
      destruct (to_idle _ _ Ht Hb) as [_ Hp].
      constructor; cbn; auto; try lia.
      intro j. rewrite Hact. specialize (Heq j).
      rewrite (eventual_idle c t) in * by auto.
      destruct (Nat.eqb_spec j st) as [->|Hne]; auto.
      destruct k; cbn [is_add]; auto;
        try (destruct (act (t_ticks t) st); simpl in *; congruence).
    + set (m := {| m_kind := k; m_st := st; m_args := false |}).
      destruct (lossy_early t m || lossy_dup c t m) eqn:Hl.
      * left. destruct (deliver c t m). unfold lossy. cbn.
        apply orb_true_iff in Hl. destruct Hl as [Hl|Hl]; rewrite Hl;
          rewrite ?orb_true_r; auto; try (destruct (fst (c_lossy s)); auto).
      * right. apply orb_false_iff in Hl. destruct Hl as [Hl1 Hl2].
        destruct (deliver_eventual c t m (p_n c) Ht Hwf Hl1 Hl2) as [D1 D2].
        destruct (deliver c t m) as [t' r]. cbn [fst] in *.
        constructor; cbn; auto; try lia.
        intro j. rewrite D2, Hact. cbn [m_st m_kind m].
        destruct (Nat.eqb j st); auto.
  - destruct Hev as [Hsame|[Hx _]]; [|congruence].
    right. constructor; cbn; auto; try lia.
    intro j. rewrite Hsame. apply Heq.
Qed.

Lemma fl_step : forall c s st,
  p_flat c = true -> p_addonly c = false ->
  fl_inv' c s -> step_wf (p_n c) st = true ->
  fl_inv' c (exec_step c s st).
Proof.
  intros c s st Hf Hao [Hl|I] Hwf.
  { left. apply lossy_sticky. auto. }
  pose proof I as [Ht Hls Hbag Heq].
  destruct st; unfold exec_step.
  - unfold step_wf in Hwf. apply Nat.ltb_lt in Hwf.
    destruct (c_blocked s); [right; apply fl_inv_log; auto|]. apply fl_src_call; auto.
  - destruct (c_blocked s); right; [apply fl_inv_log|apply fl_inv_mark, fl_inv_log]; auto.
  - unfold step_wf in Hwf. apply Nat.ltb_lt in Hwf.
    destruct (c_blocked s); [right; apply fl_inv_log; auto|].
    destruct (veto_hits c s how k st); [right; apply fl_inv_mark, fl_inv_log; auto|].
    destruct (fl_src_call c s k st args Hf Hao I Hwf) as [L|L].
    + left. exact L.
    + right. apply fl_inv_mark. auto.
  - unfold step_wf in Hwf. apply Nat.ltb_lt in Hwf.
    destruct (c_blocked s); [right; apply fl_inv_log; auto|].
    destruct veto; [right; apply fl_inv_mark, fl_inv_log; auto|].
    apply fl_src_call; auto.
  - right. rewrite Hbag. destruct i; cbn; auto.
  - destruct (t_busy (c_tgt s)) eqn:Eb; [|right; auto].
    right. destruct (release_eventual c (c_tgt s) (p_n c) Ht) as [R1 R2].
    constructor; cbn; auto. intro j. rewrite R2. auto.
  - destruct (t_busy (c_tgt s)) eqn:Eb; [right; auto|].
    right. destruct (hold_eventual c (c_tgt s) (p_n c) Ht Eb) as [R1 R2].
    constructor; unfold set_tgt; cbn [c_tgt c_src c_bag]; auto. intro j. rewrite R2. auto.
Qed.

Lemma init_tgt_ok : forall n, tgt_ok n (init_tgt n).
Proof. intro n. constructor; cbn; auto. apply repeat_length. Qed.

Lemma fold_invariant' : forall (c : pcfg) (I : cfg -> Prop) (ok : step -> bool),
  (forall s st, I s -> ok st = true -> I (exec_step c s st)) ->
  forall steps s, I s -> forallb ok steps = true ->
  I (fold_left (exec_step c) steps s).
Proof. exact fold_invariant. Qed.

Lemma quiescent_eventual : forall c s, tgt_ok (p_n c) (c_tgt s) -> quiescent s = true ->
  c_bag s = [] /\ eventual c (c_tgt s) = t_ticks (c_tgt s).
Proof.
  intros c s Ht Hq. unfold quiescent in Hq.
  repeat (apply andb_true_iff in Hq; destruct Hq as [Hq ?]).
  apply negb_true_iff in H1.
  destruct (c_bag s); [|discriminate]. split; auto.
  destruct (to_idle _ _ Ht H1) as [Hq' Hp]. apply eventual_idle; auto.
Qed.

Lemma flat_follows_unless_dropped_lemma : forall (c : pcfg) (steps : list step),
  p_flat c = true -> p_addonly c = false ->
  forallb (step_wf (p_n c)) steps = true ->
  let r := run c steps in
  c_lossy r = (false, false) ->
  quiescent r = true ->
  follows (p_n c) (c_src r) (t_ticks (c_tgt r)) = true.
Proof.
  intros c steps Hf Hao Hwf.
  assert (I : fl_inv' c (run c steps)).
  { unfold run. apply (fold_invariant c (fl_inv' c) (step_wf (p_n c))); auto.
    - intros. apply fl_step; auto.
    - right. constructor; cbn; auto using init_tgt_ok, repeat_length. }
  cbv zeta. intros Hl Hq. destruct I as [L|[Ht _ _ Heq]].
  { unfold lossy in L. rewrite Hl in L. discriminate. }
  destruct (quiescent_eventual c _ Ht Hq) as [_ He].
  apply follows_of_pointwise'. intro j. rewrite <- He. auto.
Qed.

(* ---- non-flat pipes, any schedule *)

Record nfg_inv (c : pcfg) (s : cfg) : Prop := {
  ng_t : tgt_ok (p_n c) (c_tgt s);
  ng_ls : length (c_src s) = p_n c;
  ng_bag : Forall (fun m => m_st m < p_n c) (c_bag s);
  ng_eq : forall j, match last_ev j (c_bag s) with
                    | Some k => act (c_src s) j = is_add k
                    | None => act (eventual c (c_tgt s)) j = act (c_src s) j
                    end
}.

Definition nfg_inv' (c : pcfg) (s : cfg) : Prop :=
  lossy s = true \/ c_reord s = true \/ nfg_inv c s.

Lemma nfg_inv_mark : forall c s, nfg_inv c s -> nfg_inv c (mark s).
Proof. intros c s [H1 H2 H3 H4]. constructor; auto. Qed.

Lemma nfg_inv_log : forall c s code, nfg_inv c s -> nfg_inv c (log_only s code).
Proof. intros c s code [H1 H2 H3 H4]. constructor; auto. Qed.

Lemma nfg_src_call : forall c s k st args,
  p_flat c = false -> p_addonly c = false ->
  nfg_inv c s -> st < p_n c ->
  nfg_inv c (src_call c s k st args).
Proof.
  intros c s k st args Hf Hao [Ht Hls Hbag Heq] Hwf. unfold src_call.
  destruct (src_op c (c_src s) k st) as [src' ev] eqn:Hop.
  apply src_op_spec in Hop; [|lia]. destruct Hop as (Hlen & Hact & Hev).
  destruct ev as [e|].
  - destruct Hev as [-> Hst']. rewrite Hf.
    constructor; cbn; auto; try lia.
    + apply Forall_app. split; auto.
    + intro j. rewrite last_ev_app. cbn [m_st m_kind].
      destruct (Nat.eqb_spec st j) as [->|Hne]; auto.
      specialize (Heq j). rewrite Hact.
      destruct (Nat.eqb_spec j st); [congruence|]. auto.
  - destruct Hev as [Hsame|[Hx _]]; [|congruence].
    constructor; cbn; auto; try lia.
    intro j. specialize (Heq j). rewrite Hsame. auto.
Qed.

Lemma nfg_step : forall c s st,
  p_flat c = false -> p_addonly c = false ->
  nfg_inv' c s -> step_wf (p_n c) st = true ->
  nfg_inv' c (exec_step c s st).
Proof.
  intros c s st Hf Hao [Hl|[Hr|I]] Hwf.
  { left. apply lossy_sticky. auto. }
  { right. left. apply reord_sticky. auto. }
  pose proof I as [Ht Hls Hbag Heq].
  destruct st; unfold exec_step.
  - unfold step_wf in Hwf. apply Nat.ltb_lt in Hwf. right. right.
    destruct (c_blocked s); [apply nfg_inv_log; auto|]. apply nfg_src_call; auto.
  - right. right.
    destruct (c_blocked s); [apply nfg_inv_log|apply nfg_inv_mark, nfg_inv_log]; auto.
  - unfold step_wf in Hwf. apply Nat.ltb_lt in Hwf. right. right.
    destruct (c_blocked s); [apply nfg_inv_log; auto|].
    destruct (veto_hits c s how k st); [apply nfg_inv_mark, nfg_inv_log; auto|].
    apply nfg_inv_mark, nfg_src_call; auto.
  - unfold step_wf in Hwf. apply Nat.ltb_lt in Hwf. right. right.
    destruct (c_blocked s); [apply nfg_inv_log; auto|].
    destruct veto; [apply nfg_inv_mark, nfg_inv_log; auto|].
    apply nfg_src_call; auto.
  - destruct (nth_error (c_bag s) i) as [m|] eqn:Hn; [|right; right; auto].
    assert (Hm : m_st m < p_n c).
    { apply nth_error_In in Hn. rewrite Forall_forall in Hbag. auto. }
    destruct (older_same (c_bag s) i m) eqn:Hos.
    { right. left. destruct (deliver c (c_tgt s) m). cbn. apply orb_true_r. }
    destruct (lossy_early (c_tgt s) m || lossy_dup c (c_tgt s) m) eqn:Hl.
    { left. destruct (deliver c (c_tgt s) m). unfold lossy. cbn.
      apply orb_true_iff in Hl. destruct Hl as [Hl|Hl]; rewrite Hl;
        rewrite ?orb_true_r; auto; try (destruct (fst (c_lossy s)); auto). }
    right. right. apply orb_false_iff in Hl. destruct Hl as [Hl1 Hl2].
    destruct (deliver_eventual c (c_tgt s) m (p_n c) Ht Hm Hl1 Hl2) as [D1 D2].
    destruct (deliver c (c_tgt s) m) as [t' r]. cbn [fst] in *.
    constructor; cbn; auto.
    + apply Forall_remove_nth. auto.
    + intro j. specialize (Heq j).
      destruct (last_ev_remove i (c_bag s) m Hn Hos j) as [L1 L2].
      rewrite D2. rewrite Nat.eqb_sym.
      destruct (Nat.eqb (m_st m) j) eqn:E.
      * specialize (L2 eq_refl).
        destruct (last_ev j (remove_nth i (c_bag s))).
        -- rewrite L2 in Heq. auto.
        -- rewrite L2 in Heq. auto.
      * rewrite L1 by auto. auto.
  - destruct (t_busy (c_tgt s)) eqn:Eb; [|right; right; auto].
    right. right. destruct (release_eventual c (c_tgt s) (p_n c) Ht) as [R1 R2].
    constructor; cbn; auto. intro j. specialize (Heq j). rewrite R2. auto.
  - destruct (t_busy (c_tgt s)) eqn:Eb; [right; right; auto|].
    right. right. destruct (hold_eventual c (c_tgt s) (p_n c) Ht Eb) as [R1 R2].
    constructor; unfold set_tgt; cbn [c_tgt c_src c_bag]; auto.
    intro j. specialize (Heq j). rewrite R2. auto.
Qed.

Lemma nonflat_follows_unless_dropped_lemma : forall (c : pcfg) (steps : list step),
  p_flat c = false -> p_addonly c = false ->
  forallb (step_wf (p_n c)) steps = true ->
  let r := run c steps in
  c_reord r = false ->
  c_lossy r = (false, false) ->
  quiescent r = true ->
  follows (p_n c) (c_src r) (t_ticks (c_tgt r)) = true.
Proof.
  intros c steps Hf Hao Hwf.
  assert (I : nfg_inv' c (run c steps)).
  { unfold run. apply (fold_invariant c (nfg_inv' c) (step_wf (p_n c))); auto.
    - intros. apply nfg_step; auto.
    - right. right. constructor; cbn; auto using init_tgt_ok, repeat_length. }
  cbv zeta. intros Hr Hl Hq. destruct I as [L|[R|[Ht _ _ Heq]]].
  { unfold lossy in L. rewrite Hl in L. discriminate. }
  { congruence. }
  destruct (quiescent_eventual c _ Ht Hq) as [Hb He].
  apply follows_of_pointwise'. intro j. specialize (Heq j). rewrite Hb in Heq.
  cbn in Heq. rewrite <- He. auto.
Qed.

(* held targets and overtaking across states, nothing dropped *)
Example unless_dropped_nonvacuous :
  let c := {| p_flat := false; p_addonly := false; p_n := 2; p_multiS := [false; false];
              p_multiT := [false; true]; p_parks := [true; false; true] |} in
  let steps := [SSrc MAdd 0 false; SSrc MAdd 1 false; SDel 1; SSrc MRem 1 true;
                SDel 0; SDel 0; SRel; SRel] in
  c_reord (run c steps) = false /\ c_lossy (run c steps) = (false, false) /\
  quiescent (run c steps) = true /\ t_nparks (c_tgt (run c steps)) = 2.
Proof. vm_compute. repeat split; reflexivity. Qed.

Example flat_unless_dropped_nonvacuous :
  let c := cfg1 true [] in
  let steps := [SHold; SSrc MAdd 0 false; SSrc MRem 0 false; SRel] in
  c_lossy (run c steps) = (false, false) /\ quiescent (run c steps) = true /\
  c_busydel (run c steps) = true /\ t_ntx (c_tgt (run c steps)) = 3.
Proof. vm_compute. repeat split; reflexivity. Qed.
