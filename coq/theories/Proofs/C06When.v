(* C06 - invariants of the subscription manager model for runs without ended
   contexts / Dispose / WhenQuery-with-context ("plain" runs) and the
   characterisation of When / WhenNot channels. Lemmas only. *)

From Coq Require Import List Bool Arith NArith ZArith Lia.
From Coq Require Import ZifyN ZifyNat ZifyBool.
From AMV Require Import Base.ListSet Model.Subs Spec.C06.
Import ListNotations.

(* ------------------------------------------------------------ lists *)

Lemma mem_In : forall x l, mem x l = true <-> In x l.
Proof.
  intros x l. unfold mem. rewrite existsb_exists. split.
  - intros [y [Hy Heq]]. apply Nat.eqb_eq in Heq. subst. exact Hy.
  - intros Hin. exists x. split; [exact Hin | apply Nat.eqb_refl].
Qed.

Lemma mem_false : forall x l, mem x l = false <-> ~ In x l.
Proof.
  intros x l. split.
  - intros Hf Hin. apply mem_In in Hin. congruence.
  - intros Hn. destruct (mem x l) eqn:E; [|reflexivity].
    apply mem_In in E. contradiction.
Qed.

Lemma uniq_acc_In : forall l seen x,
  In x (uniq_acc seen l) <-> In x l /\ ~ In x seen.
Proof.
  induction l as [|y r IH]; intros seen x; simpl.
  - tauto.
  - destruct (mem y seen) eqn:E.
    + rewrite IH. apply mem_In in E. split.
      * intros [H1 H2]. tauto.
      * intros [[H1|H1] H2]; [subst; contradiction | tauto].
    + apply mem_false in E. simpl. rewrite IH. simpl. split.
      * intros [H|[H1 H2]]; [subst; tauto | tauto].
      * intros [[H1|H1] H2]; [tauto|].
        destruct (Nat.eq_dec y x) as [Heq|Hne]; [tauto|]. right. tauto.
Qed.

Lemma uniq_In : forall l x, In x (uniq l) <-> In x l.
Proof. intros l x. unfold uniq. rewrite uniq_acc_In. simpl. tauto. Qed.

Lemma uniq_acc_NoDup : forall l seen, NoDup (uniq_acc seen l).
Proof.
  induction l as [|y r IH]; intros seen; simpl.
  - constructor.
  - destruct (mem y seen) eqn:E.
    + apply IH.
    + constructor; [|apply IH]. rewrite uniq_acc_In. simpl. tauto.
Qed.

Lemma uniq_NoDup : forall l, NoDup (uniq l).
Proof. intros l. apply uniq_acc_NoDup. Qed.

Lemma close_mem : forall cl id i, mem i (close cl id) = true <-> (i = id \/ mem i cl = true).
Proof.
  intros cl id i. unfold close. destruct (mem id cl) eqn:E.
  - split; [tauto|]. intros [H|H]; [subst; exact E | exact H].
  - cbn [mem existsb]. fold (mem i cl). rewrite orb_true_iff, Nat.eqb_eq. tauto.
Qed.

Lemma close_mono : forall cl id i, mem i cl = true -> mem i (close cl id) = true.
Proof. intros. apply close_mem. tauto. Qed.

Lemma close_self : forall cl id, mem id (close cl id) = true.
Proof. intros. apply close_mem. tauto. Qed.

Lemma count_in_0 : forall x l, count_in x l = 0 <-> ~ In x l.
Proof.
  intros x l. unfold count_in. induction l as [|y r IH]; simpl.
  - tauto.
  - destruct (Nat.eqb x y) eqn:E; simpl.
    + apply Nat.eqb_eq in E. subst. split; [discriminate | intros H; exfalso; apply H; tauto].
    + apply Nat.eqb_neq in E. rewrite IH. split; [intros H [H1|H1]; [congruence | tauto] | tauto].
Qed.

Lemma count_in_NoDup : forall x l, NoDup l -> In x l -> count_in x l = 1.
Proof.
  intros x l Hnd. unfold count_in. induction Hnd as [|y r Hy Hnd IH]; simpl.
  - tauto.
  - intros [H|H].
    + subst. rewrite Nat.eqb_refl. simpl. f_equal.
      apply (proj2 (count_in_0 x r)) in Hy. exact Hy.
    + destruct (Nat.eqb x y) eqn:E.
      * apply Nat.eqb_eq in E. subst. contradiction.
      * apply IH. exact H.
Qed.

Lemma remove_all_notin : forall x l, ~ In x l -> remove_all x l = l.
Proof.
  intros x l. unfold remove_all. induction l as [|y r IH]; simpl; [reflexivity|].
  intros H. destruct (Nat.eqb x y) eqn:E.
  - apply Nat.eqb_eq in E. subst. exfalso. apply H. tauto.
  - simpl. f_equal. apply IH. tauto.
Qed.

Lemma remove_all_In : forall x l y, In y (remove_all x l) <-> In y l /\ y <> x.
Proof.
  intros x l y. unfold remove_all. rewrite filter_In. rewrite negb_true_iff, Nat.eqb_neq.
  split; intros [H1 H2]; split; auto.
Qed.

Lemma without_NoDup_eq : forall l x, NoDup l -> without l x = remove_all x l.
Proof.
  intros l x Hnd. induction Hnd as [|y r Hy Hnd IH]; simpl; [reflexivity|].
  destruct (Nat.eqb x y) eqn:E.
  - apply Nat.eqb_eq in E. subst. simpl. symmetry. apply remove_all_notin. exact Hy.
  - simpl. f_equal. exact IH.
Qed.

Lemma remove_all_NoDup : forall x l, NoDup l -> NoDup (remove_all x l).
Proof. intros. unfold remove_all. apply NoDup_filter. assumption. Qed.

(* folding remove_all over all the elements empties the list *)
Lemma fold_remove_all_nil : forall (sts l : list nat),
  incl l sts -> fold_left (fun acc x => remove_all x acc) sts l = [].
Proof.
  induction sts as [|y r IH]; intros l Hin; simpl.
  - destruct l as [|z t]; [reflexivity|]. exfalso. apply (Hin z). left. reflexivity.
  - apply IH. intros z Hz. apply remove_all_In in Hz. destruct Hz as [Hz Hne].
    destruct (Hin z Hz) as [H|H]; [congruence | exact H].
Qed.

(* ------------------------------------------------------------ frames *)

(* identities held by the structures other than the When / WhenNot heap *)
Definition oids (s : sst) : list nat :=
  map tb_id (ss_tb s) ++ map qb_id (ss_qb s) ++ map fst (ss_wq s) ++ ss_qe s ++ ss_allctx s.

Definition is_closedb := is_closed.

(* s' is s up to the structures other than the When heap *)
Record frame (s s' : sst) : Prop := {
  fr_next : ss_next s <= ss_next s';
  fr_wb : ss_wb s' = ss_wb s;
  fr_wctx : ss_wctx s' = ss_wctx s;
  fr_done : ss_done s' = ss_done s;
  fr_disp : ss_disposed s' = ss_disposed s;
  fr_crash : ss_crashed s' = ss_crashed s;
  fr_oids : forall i, In i (oids s') -> In i (oids s) \/ ss_next s <= i < ss_next s';
  fr_closed : forall i, is_closed s' i = true ->
              is_closed s i = true \/ In i (oids s) \/ ss_next s <= i < ss_next s';
  fr_mono : forall i, is_closed s i = true -> is_closed s' i = true;
  fr_qb : forall q, In q (ss_qb s') -> In q (ss_qb s) \/ qb_ctx q = None;
  fr_sctx : forall p, In p (ss_sctx s') -> In p (ss_sctx s) \/ In (fst (snd p)) (ss_allctx s');
  fr_allctx : incl (ss_allctx s) (ss_allctx s')
}.

Lemma frame_refl : forall s, frame s s.
Proof.
  intros s. constructor; intros; try reflexivity; try tauto; try lia; try apply incl_refl.
Qed.

Lemma frame_trans : forall s1 s2 s3, frame s1 s2 -> frame s2 s3 -> frame s1 s3.
Proof.
  intros s1 s2 s3 A B. destruct A, B. constructor.
  - lia.
  - congruence.
  - congruence.
  - congruence.
  - congruence.
  - congruence.
  - intros i H. destruct (fr_oids1 i H) as [H1|H1].
    + destruct (fr_oids0 i H1) as [H2|H2]; [tauto | right; lia].
    + right. lia.
  - intros i H. destruct (fr_closed1 i H) as [H1|[H1|H1]].
    + destruct (fr_closed0 i H1) as [H2|[H2|H2]]; [tauto | tauto | right; right; lia].
    + destruct (fr_oids0 i H1) as [H2|H2]; [tauto | right; right; lia].
    + right. right. lia.
  - intros i H. auto.
  - intros q H. destruct (fr_qb1 q H) as [H1|H1]; [auto | tauto].
  - intros p H. destruct (fr_sctx1 p H) as [H1|H1]; [|tauto].
    destruct (fr_sctx0 p H1) as [H2|H2]; [tauto|]. right. apply fr_allctx1. exact H2.
  - eapply incl_tran; eassumption.
Qed.

(* no ended context, not disposed, not crashed, no WhenQuery binding with a context *)
Definition quiet (s : sst) : Prop :=
  ss_done s = [] /\ ss_disposed s = false /\ ss_crashed s = false /\
  (forall q, In q (ss_qb s) -> qb_ctx q = None).

Lemma quiet_frame : forall s s', quiet s -> frame s s' -> quiet s'.
Proof.
  intros s s' [A [B [C D]]] F. destruct F. repeat split; try congruence.
  intros q Hq. destruct (fr_qb0 q Hq) as [H|H]; [auto | exact H].
Qed.

Lemma fold_frame : forall (A : Type) (f : sst -> A -> sst),
  (forall s x, quiet s -> frame s (f s x)) ->
  forall l s, quiet s -> frame s (fold_left f l s).
Proof.
  intros A f Hf. induction l as [|x r IH]; intros s Hq; simpl.
  - apply frame_refl.
  - eapply frame_trans; [apply Hf; exact Hq|]. apply IH. eapply quiet_frame; [exact Hq | apply Hf; exact Hq].
Qed.

(* ---- WhenTime structures *)

Lemma process_time_ctx_id : forall s, ss_done s = [] -> process_time_ctx s = s.
Proof.
  intros s H. unfold process_time_ctx. generalize (ss_tctx s) as l. intros l. revert s H.
  induction l as [|[c ids] r IH]; intros s H; simpl; [reflexivity|].
  rewrite H. simpl. apply IH. exact H.
Qed.

Lemma put_tb_ids : forall h b, map tb_id (put_tb h b) = map tb_id h.
Proof.
  intros h b. unfold put_tb. rewrite map_map. apply map_ext. intros x.
  destruct (Nat.eqb (tb_id x) (tb_id b)) eqn:E; [|reflexivity].
  apply Nat.eqb_eq in E. congruence.
Qed.

Lemma gc_time_state_ids : forall h id st, map tb_id (gc_time_state h id st) = map tb_id h.
Proof.
  intros h id st. unfold gc_time_state. destruct (Nat.eqb (time_len h st) 1);
    rewrite map_map; apply map_ext; intros x; [reflexivity|].
  destruct (Nat.eqb (tb_id x) id); reflexivity.
Qed.

Lemma gc_time_ids : forall h tctx b g, map tb_id (fst (gc_time h tctx b g)) = map tb_id h.
Proof.
  intros h tctx b g. unfold gc_time. cbn [fst]. generalize (uniq (tb_states b)) as keys.
  intros keys. revert h. induction keys as [|k r IH]; intros h; simpl; [reflexivity|].
  rewrite IH. apply gc_time_state_ids.
Qed.

Lemma find_tb_Some : forall h id b, find_tb h id = Some b -> tb_id b = id /\ In b h.
Proof.
  induction h as [|x r IH]; intros id b H; simpl in H; [discriminate|].
  destruct (Nat.eqb (tb_id x) id) eqn:E.
  - inversion H. subst. apply Nat.eqb_eq in E. split; [exact E | left; reflexivity].
  - destruct (IH id b H) as [H1 H2]. split; [exact H1 | right; exact H2].
Qed.

Ltac psimpl :=
  cbn [set_when set_time set_misc set_env set_alloc add_ret
       ss_next ss_closed ss_wb ss_wctx ss_tb ss_tctx ss_qb ss_wq ss_qe ss_sctx ss_allctx
       ss_frozen ss_done ss_disposed ss_crashed ss_rets] in *.

Lemma frame_set_time : forall s tb tctx cl,
  map tb_id tb = map tb_id (ss_tb s) ->
  (forall i, mem i cl = true -> mem i (ss_closed s) = true \/ In i (oids s)) ->
  (forall i, mem i (ss_closed s) = true -> mem i cl = true) ->
  frame s (set_time s tb tctx cl).
Proof.
  intros s tb tctx cl Hids Hc Hm. constructor; unfold oids, is_closed; psimpl.
  - lia.
  - reflexivity.
  - reflexivity.
  - reflexivity.
  - reflexivity.
  - reflexivity.
  - intros i H. left. rewrite Hids in H. exact H.
  - intros i H. destruct (Hc i H); tauto.
  - intros i H. auto.
  - tauto.
  - tauto.
  - apply incl_refl.
Qed.

Lemma visit_tb_frame : forall s cl id x, frame s (visit_tb s cl id x).
Proof.
  intros s cl id x. unfold visit_tb. destruct (find_tb (ss_tb s) id) as [b|] eqn:Ef; [|apply frame_refl].
  destruct (find_tb_Some _ _ _ Ef) as [Hid Hin].
  match goal with |- context [if ?c then _ else _] => destruct c end.
  - apply frame_set_time; [apply put_tb_ids | tauto | tauto].
  - match goal with |- context [gc_time ?h ?t ?b' ?g] =>
      pose proof (gc_time_ids h t b' g) as Hg; destruct (gc_time h t b' g) as [h2 tc] end.
    cbn [fst] in Hg. apply frame_set_time.
    + rewrite Hg. apply put_tb_ids.
    + intros i H. apply close_mem in H. destruct H as [H|H]; [|tauto].
      right. subst i. unfold oids. apply in_or_app. left. rewrite <- Hid. apply in_map. exact Hin.
    + intros i H. apply close_mono. exact H.
Qed.

Lemma process_when_time_frame : forall s before live,
  quiet s -> frame s (process_when_time s before live).
Proof.
  intros s before live Hq. unfold process_when_time.
  rewrite process_time_ctx_id by (apply Hq).
  apply fold_frame; [|exact Hq].
  intros st x Hst. apply fold_frame; [|exact Hst].
  intros st' id _. apply visit_tb_frame.
Qed.
