(* C06 - invariants of the subscription manager model for runs without ended
   contexts / Dispose / WhenQuery-with-context ("plain" runs) and the
   characterisation of When / WhenNot channels. Lemmas only. *)

From Coq Require Import List Bool Arith NArith ZArith Lia.
From Coq Require Import ZifyN ZifyNat ZifyBool.
From AMV Require Import Base.ListSet Model.Subs Spec.C06.
Import ListNotations.

(* ------------------------------------------------------------ lists *)

Lemma mem_In : forall x l, mem x l = true <-> In x l.
Proof.
  intros x l. unfold mem. rewrite existsb_exists. split.
  - intros [y [Hy Heq]]. apply Nat.eqb_eq in Heq. subst. exact Hy.
  - intros Hin. exists x. split; [exact Hin | apply Nat.eqb_refl].
Qed.

Lemma mem_false : forall x l, mem x l = false <-> ~ In x l.
Proof.
  intros x l. split.
  - intros Hf Hin. apply mem_In in Hin. congruence.
  - intros Hn. destruct (mem x l) eqn:E; [|reflexivity].
    apply mem_In in E. contradiction.
Qed.

Lemma uniq_acc_In : forall l seen x,
  In x (uniq_acc seen l) <-> In x l /\ ~ In x seen.
Proof.
  induction l as [|y r IH]; intros seen x; simpl.
  - tauto.
  - destruct (mem y seen) eqn:E.
    + rewrite IH. apply mem_In in E. split.
      * intros [H1 H2]. tauto.
      * intros [[H1|H1] H2]; [subst; contradiction | tauto].
    + apply mem_false in E. simpl. rewrite IH. simpl. split.
      * intros [H|[H1 H2]]; [subst; tauto | tauto].
      * intros [[H1|H1] H2]; [tauto|].
        destruct (Nat.eq_dec y x) as [Heq|Hne]; [tauto|]. right. tauto.
Qed.

Lemma uniq_In : forall l x, In x (uniq l) <-> In x l.
Proof. intros l x. unfold uniq. rewrite uniq_acc_In. simpl. tauto. Qed.

Lemma uniq_acc_NoDup : forall l seen, NoDup (uniq_acc seen l).
Proof.
  induction l as [|y r IH]; intros seen; simpl.
  - constructor.
  - destruct (mem y seen) eqn:E.
    + apply IH.
    + constructor; [|apply IH]. rewrite uniq_acc_In. simpl. tauto.
Qed.

Lemma uniq_NoDup : forall l, NoDup (uniq l).
Proof. intros l. apply uniq_acc_NoDup. Qed.

Lemma close_mem : forall cl id i, mem i (close cl id) = true <-> (i = id \/ mem i cl = true).
Proof.
  intros cl id i. unfold close. destruct (mem id cl) eqn:E.
  - split; [tauto|]. intros [H|H]; [subst; exact E | exact H].
  - cbn [mem existsb]. fold (mem i cl). rewrite orb_true_iff, Nat.eqb_eq. tauto.
Qed.

Lemma close_mono : forall cl id i, mem i cl = true -> mem i (close cl id) = true.
Proof. intros. apply close_mem. tauto. Qed.

Lemma close_self : forall cl id, mem id (close cl id) = true.
Proof. intros. apply close_mem. tauto. Qed.

Lemma count_in_0 : forall x l, count_in x l = 0 <-> ~ In x l.
Proof.
  intros x l. unfold count_in. induction l as [|y r IH]; simpl.
  - tauto.
  - destruct (Nat.eqb x y) eqn:E; simpl.
    + apply Nat.eqb_eq in E. subst. split; [discriminate | intros H; exfalso; apply H; tauto].
    + apply Nat.eqb_neq in E. rewrite IH. split; [intros H [H1|H1]; [congruence | tauto] | tauto].
Qed.

Lemma count_in_NoDup : forall x l, NoDup l -> In x l -> count_in x l = 1.
Proof.
  intros x l Hnd. unfold count_in. induction Hnd as [|y r Hy Hnd IH]; simpl.
  - tauto.
  - intros [H|H].
    + subst. rewrite Nat.eqb_refl. simpl. f_equal.
      apply (proj2 (count_in_0 x r)) in Hy. exact Hy.
    + destruct (Nat.eqb x y) eqn:E.
      * apply Nat.eqb_eq in E. subst. contradiction.
      * apply IH. exact H.
Qed.

Lemma remove_all_notin : forall x l, ~ In x l -> remove_all x l = l.
Proof.
  intros x l. unfold remove_all. induction l as [|y r IH]; simpl; [reflexivity|].
  intros H. destruct (Nat.eqb x y) eqn:E.
  - apply Nat.eqb_eq in E. subst. exfalso. apply H. tauto.
  - simpl. f_equal. apply IH. tauto.
Qed.

Lemma remove_all_In : forall x l y, In y (remove_all x l) <-> In y l /\ y <> x.
Proof.
  intros x l y. unfold remove_all. rewrite filter_In. rewrite negb_true_iff, Nat.eqb_neq.
  split; intros [H1 H2]; split; auto.
Qed.

Lemma without_NoDup_eq : forall l x, NoDup l -> without l x = remove_all x l.
Proof.
  intros l x Hnd. induction Hnd as [|y r Hy Hnd IH]; simpl; [reflexivity|].
  destruct (Nat.eqb x y) eqn:E.
  - apply Nat.eqb_eq in E. subst. simpl. symmetry. apply remove_all_notin. exact Hy.
  - simpl. f_equal. exact IH.
Qed.

Lemma remove_all_NoDup : forall x l, NoDup l -> NoDup (remove_all x l).
Proof. intros. unfold remove_all. apply NoDup_filter. assumption. Qed.

(* folding remove_all over all the elements empties the list *)
Lemma fold_remove_all_nil : forall (sts l : list nat),
  incl l sts -> fold_left (fun acc x => remove_all x acc) sts l = [].
Proof.
  induction sts as [|y r IH]; intros l Hin; simpl.
  - destruct l as [|z t]; [reflexivity|]. exfalso. apply (Hin z). left. reflexivity.
  - apply IH. intros z Hz. apply remove_all_In in Hz. destruct Hz as [Hz Hne].
    destruct (Hin z Hz) as [H|H]; [congruence | exact H].
Qed.

(* ------------------------------------------------------------ frames *)

(* identities held by the structures other than the When / WhenNot heap *)
Definition oids (s : sst) : list nat :=
  map tb_id (ss_tb s) ++ map qb_id (ss_qb s) ++ map fst (ss_wq s) ++ ss_qe s ++ ss_allctx s.

Definition is_closedb := is_closed.

(* s' is s up to the structures other than the When heap *)
Record frame (s s' : sst) : Prop := {
  fr_next : ss_next s <= ss_next s';
  fr_wb : ss_wb s' = ss_wb s;
  fr_wctx : ss_wctx s' = ss_wctx s;
  fr_done : ss_done s' = ss_done s;
  fr_disp : ss_disposed s' = ss_disposed s;
  fr_crash : ss_crashed s' = ss_crashed s;
  fr_oids : forall i, In i (oids s') -> In i (oids s) \/ ss_next s <= i < ss_next s';
  fr_closed : forall i, is_closed s' i = true ->
              is_closed s i = true \/ In i (oids s) \/ ss_next s <= i < ss_next s';
  fr_mono : forall i, is_closed s i = true -> is_closed s' i = true;
  fr_sctx : forall p, In p (ss_sctx s') -> In p (ss_sctx s) \/ In (fst (snd p)) (ss_allctx s');
  fr_allctx : incl (ss_allctx s) (ss_allctx s');
  fr_rets : ss_rets s' = ss_rets s
}.

Lemma frame_refl : forall s, frame s s.
Proof.
  intros s. constructor; intros; try reflexivity; try tauto; try lia; try apply incl_refl.
Qed.

Lemma frame_trans : forall s1 s2 s3, frame s1 s2 -> frame s2 s3 -> frame s1 s3.
Proof.
  intros s1 s2 s3 A B. destruct A, B. constructor.
  - lia.
  - congruence.
  - congruence.
  - congruence.
  - congruence.
  - congruence.
  - intros i H. destruct (fr_oids1 i H) as [H1|H1].
    + destruct (fr_oids0 i H1) as [H2|H2]; [tauto | right; lia].
    + right. lia.
  - intros i H. destruct (fr_closed1 i H) as [H1|[H1|H1]].
    + destruct (fr_closed0 i H1) as [H2|[H2|H2]]; [tauto | tauto | right; right; lia].
    + destruct (fr_oids0 i H1) as [H2|H2]; [tauto | right; right; lia].
    + right. right. lia.
  - intros i H. auto.
  - intros p H. destruct (fr_sctx1 p H) as [H1|H1]; [|tauto].
    destruct (fr_sctx0 p H1) as [H2|H2]; [tauto|]. right. apply fr_allctx1. exact H2.
  - eapply incl_tran; eassumption.
  - congruence.
Qed.

(* no ended context, not disposed, not crashed *)
Definition quiet (s : sst) : Prop :=
  ss_done s = [] /\ ss_disposed s = false /\ ss_crashed s = false /\
  (forall p, In p (ss_sctx s) -> In (fst (snd p)) (ss_allctx s)).

Lemma quiet_frame : forall s s', quiet s -> frame s s' -> quiet s'.
Proof.
  intros s s' [A [B [C E]]] F. destruct F. repeat split; try congruence.
  intros p Hp. destruct (fr_sctx0 p Hp) as [H|H]; [apply fr_allctx0; auto | exact H].
Qed.

Lemma fold_frame : forall (A : Type) (f : sst -> A -> sst),
  (forall s x, quiet s -> frame s (f s x)) ->
  forall l s, quiet s -> frame s (fold_left f l s).
Proof.
  intros A f Hf. induction l as [|x r IH]; intros s Hq; simpl.
  - apply frame_refl.
  - eapply frame_trans; [apply Hf; exact Hq|]. apply IH. eapply quiet_frame; [exact Hq | apply Hf; exact Hq].
Qed.

(* ---- WhenTime structures *)

Lemma process_time_ctx_id : forall s, ss_done s = [] -> process_time_ctx s = s.
Proof.
  intros s H. unfold process_time_ctx. generalize (ss_tctx s) as l. intros l. revert s H.
  induction l as [|[c ids] r IH]; intros s H; simpl; [reflexivity|].
  rewrite H. simpl. apply IH. exact H.
Qed.

Lemma put_tb_ids : forall h b, map tb_id (put_tb h b) = map tb_id h.
Proof.
  intros h b. unfold put_tb. rewrite map_map. apply map_ext. intros x.
  destruct (Nat.eqb (tb_id x) (tb_id b)) eqn:E; [|reflexivity].
  apply Nat.eqb_eq in E. congruence.
Qed.

Lemma gc_time_state_ids : forall h id st, map tb_id (gc_time_state h id st) = map tb_id h.
Proof.
  intros h id st. unfold gc_time_state. destruct (Nat.eqb (time_len h st) 1);
    rewrite map_map; apply map_ext; intros x; [reflexivity|].
  destruct (Nat.eqb (tb_id x) id); reflexivity.
Qed.

Lemma gc_time_ids : forall h tctx b g, map tb_id (fst (gc_time h tctx b g)) = map tb_id h.
Proof.
  intros h tctx b g. unfold gc_time. cbn [fst]. generalize (uniq (tb_states b)) as keys.
  intros keys. revert h. induction keys as [|k r IH]; intros h; simpl; [reflexivity|].
  rewrite IH. apply gc_time_state_ids.
Qed.

Lemma find_tb_Some : forall h id b, find_tb h id = Some b -> tb_id b = id /\ In b h.
Proof.
  induction h as [|x r IH]; intros id b H; simpl in H; [discriminate|].
  destruct (Nat.eqb (tb_id x) id) eqn:E.
  - inversion H. subst. apply Nat.eqb_eq in E. split; [exact E | left; reflexivity].
  - destruct (IH id b H) as [H1 H2]. split; [exact H1 | right; exact H2].
Qed.

Ltac psimpl :=
  cbn [set_when set_time set_misc set_env set_alloc add_ret
       ss_next ss_closed ss_wb ss_wctx ss_tb ss_tctx ss_qb ss_wq ss_qe ss_sctx ss_allctx
       ss_frozen ss_done ss_disposed ss_crashed ss_rets] in *.

Lemma frame_set_time : forall s tb tctx cl,
  map tb_id tb = map tb_id (ss_tb s) ->
  (forall i, mem i cl = true -> mem i (ss_closed s) = true \/ In i (oids s)) ->
  (forall i, mem i (ss_closed s) = true -> mem i cl = true) ->
  frame s (set_time s tb tctx cl).
Proof.
  intros s tb tctx cl Hids Hc Hm. constructor; unfold oids, is_closed; psimpl.
  - lia.
  - reflexivity.
  - reflexivity.
  - reflexivity.
  - reflexivity.
  - reflexivity.
  - intros i H. left. rewrite Hids in H. exact H.
  - intros i H. destruct (Hc i H); tauto.
  - intros i H. auto.
  - tauto.
  - apply incl_refl.
  - reflexivity.
Qed.

Lemma visit_tb_frame : forall s cl id x, frame s (visit_tb s cl id x).
Proof.
  intros s cl id x. unfold visit_tb. destruct (find_tb (ss_tb s) id) as [b|] eqn:Ef; [|apply frame_refl].
  destruct (find_tb_Some _ _ _ Ef) as [Hid Hin].
  match goal with |- context [if ?c then _ else _] => destruct c end.
  - apply frame_set_time; [apply put_tb_ids | tauto | tauto].
  - match goal with |- context [gc_time ?h ?t ?b' ?g] =>
      pose proof (gc_time_ids h t b' g) as Hg; destruct (gc_time h t b' g) as [h2 tc] end.
    cbn [fst] in Hg. apply frame_set_time.
    + rewrite Hg. apply put_tb_ids.
    + intros i H. apply close_mem in H. destruct H as [H|H]; [|tauto].
      right. subst i. unfold oids. apply in_or_app. left. rewrite <- Hid. apply in_map. exact Hin.
    + intros i H. apply close_mono. exact H.
Qed.

Lemma process_when_time_frame : forall s before live,
  quiet s -> frame s (process_when_time s before live).
Proof.
  intros s before live Hq. unfold process_when_time.
  rewrite process_time_ctx_id by (apply Hq).
  apply fold_frame; [|exact Hq].
  intros st x Hst. apply fold_frame; [|exact Hst].
  intros st' id _. apply visit_tb_frame.
Qed.

(* ---- WhenQuery / WhenQueue / WhenQueueEnds / state contexts *)

Lemma in_map_incl : forall (A : Type) (f : A -> nat) (l l' : list A) i,
  incl l l' -> In i (map f l) -> In i (map f l').
Proof.
  intros A f l l' i Hin H. apply in_map_iff in H. destruct H as [x [Hx Hi]].
  apply in_map_iff. exists x. split; [exact Hx | apply Hin; exact Hi].
Qed.

Lemma frame_set_misc' : forall s qb wq qe sctx cl cr,
  cr = ss_crashed s ->
  incl qb (ss_qb s) -> incl wq (ss_wq s) -> incl qe (ss_qe s) -> incl sctx (ss_sctx s) ->
  (forall i, mem i cl = true -> mem i (ss_closed s) = true \/ In i (oids s)) ->
  (forall i, mem i (ss_closed s) = true -> mem i cl = true) ->
  frame s (set_misc s qb wq qe sctx cl cr).
Proof.
  intros s qb wq qe sctx cl cr Hcr Hqb Hwq Hqe Hsc Hc Hm. constructor; unfold oids, is_closed; psimpl.
  - lia.
  - reflexivity.
  - reflexivity.
  - reflexivity.
  - reflexivity.
  - exact Hcr.
  - intros i H. left. repeat rewrite in_app_iff in *.
    destruct H as [H|[H|[H|[H|H]]]]; [tauto | | | | tauto].
    + right. left. eapply in_map_incl; eassumption.
    + right. right. left. eapply in_map_incl; eassumption.
    + right. right. right. left. apply Hqe. exact H.
  - intros i H. destruct (Hc i H); tauto.
  - intros i H. auto.
  - intros p H. left. apply Hsc. exact H.
  - apply incl_refl.
  - reflexivity.
Qed.

Lemma frame_set_misc : forall s qb wq qe sctx cl,
  incl qb (ss_qb s) -> incl wq (ss_wq s) -> incl qe (ss_qe s) -> incl sctx (ss_sctx s) ->
  (forall i, mem i cl = true -> mem i (ss_closed s) = true \/ In i (oids s)) ->
  (forall i, mem i (ss_closed s) = true -> mem i cl = true) ->
  frame s (set_misc s qb wq qe sctx cl (ss_crashed s)).
Proof. intros. apply frame_set_misc'; auto. Qed.

Lemma incl_filter : forall (A : Type) (f : A -> bool) l, incl (filter f l) l.
Proof. intros A f l x H. apply filter_In in H. tauto. Qed.

Lemma fold_close_hits : forall (hit : nat * N -> bool) l cl i,
  mem i (fold_left (fun cl p => if hit p then close cl (fst p) else cl) l cl) = true ->
  mem i cl = true \/ In i (map fst l).
Proof.
  intros hit. induction l as [|p r IH]; intros cl i H; simpl in *; [tauto|].
  apply IH in H. destruct H as [H|H]; [|tauto].
  destruct (hit p); [|tauto]. apply close_mem in H. destruct H; [subst; tauto | tauto].
Qed.

Lemma fold_close_hits_mono : forall (hit : nat * N -> bool) l cl i,
  mem i cl = true ->
  mem i (fold_left (fun cl p => if hit p then close cl (fst p) else cl) l cl) = true.
Proof.
  intros hit. induction l as [|p r IH]; intros cl i H; simpl; [exact H|].
  apply IH. destruct (hit p); [apply close_mono|]; exact H.
Qed.

Lemma process_when_queue_frame : forall s qt, frame s (process_when_queue s qt).
Proof.
  intros s qt. unfold process_when_queue. apply frame_set_misc;
    try apply incl_refl; try apply incl_filter.
  - intros i H. apply fold_close_hits in H. destruct H as [H|H]; [tauto|].
    right. unfold oids. repeat rewrite in_app_iff. tauto.
  - intros i H. apply fold_close_hits_mono. exact H.
Qed.

Lemma fold_close_mem : forall l cl i,
  mem i (fold_left close l cl) = true <-> mem i cl = true \/ In i l.
Proof.
  induction l as [|x r IH]; intros cl i; simpl; [tauto|].
  rewrite IH, close_mem. split; intros H; intuition.
Qed.

Lemma process_queue_ends_frame : forall s, frame s (process_queue_ends s).
Proof.
  intros s. unfold process_queue_ends. apply frame_set_misc; try apply incl_refl.
  - intros x H. destruct H.
  - intros i H. apply fold_close_mem in H. destruct H as [H|H]; [tauto|].
    right. unfold oids. repeat rewrite in_app_iff. tauto.
  - intros i H. apply fold_close_mem. tauto.
Qed.

Lemma sctx_get_In : forall l x p, sctx_get l x = Some p -> In (x, p) l.
Proof.
  induction l as [|[k v] r IH]; intros x p H; simpl in H; [discriminate|].
  destruct (Nat.eqb k x) eqn:E.
  - inversion H. subst. apply Nat.eqb_eq in E. subst. left. reflexivity.
  - right. apply IH. exact H.
Qed.

Lemma process_state_ctx_frame : forall s act deact, quiet s -> frame s (process_state_ctx s act deact).
Proof.
  intros s act deact Hq. unfold process_state_ctx. apply fold_frame; [|exact Hq].
  intros st x Hst. destruct (sctx_get (ss_sctx st) x) as [[id t]|] eqn:E; [|apply frame_refl].
  apply sctx_get_In in E. apply frame_set_misc; try apply incl_refl; try apply incl_filter.
  - intros i H. apply close_mem in H. destruct H as [H|H]; [|tauto].
    right. subst i. destruct Hst as [_ [_ [_ Hs]]]. apply Hs in E. cbn in E.
    unfold oids. repeat rewrite in_app_iff. tauto.
  - intros i H. apply close_mono. exact H.
Qed.

Definition pwq_step (cl : list N) (st : sst) (b : qbind) : sst :=
  if ss_crashed st then st
  else if negb (qfn_eval (qb_fn b) cl) && negb (ctx_done st (qb_ctx b)) then st
  else
    set_misc st (filter (fun x => negb (Nat.eqb (qb_id x) (qb_id b))) (ss_qb st))
             (ss_wq st) (ss_qe st) (ss_sctx st) (close (ss_closed st) (qb_id b)) (ss_crashed st).

Lemma pwq_fold_frame : forall cl l st,
  quiet st ->
  (forall b, In b l -> In (qb_id b) (map qb_id (ss_qb st)) \/ is_closed st (qb_id b) = true) ->
  frame st (fold_left (pwq_step cl) l st).
Proof.
  intros cl. induction l as [|b r IH]; intros st Hq Hin; simpl; [apply frame_refl|].
  assert (Hb : frame st (pwq_step cl st b) /\
               forall b', In b' r -> In (qb_id b') (map qb_id (ss_qb (pwq_step cl st b)))
                                     \/ is_closed (pwq_step cl st b) (qb_id b') = true).
  { unfold pwq_step. destruct (ss_crashed st) eqn:Hc.
    { split; [apply frame_refl|]. intros b' Hb'. apply Hin. right. exact Hb'. }
    destruct (negb (qfn_eval (qb_fn b) cl) && negb (ctx_done st (qb_ctx b))).
    - split; [apply frame_refl|]. intros b' Hb'. apply Hin. right. exact Hb'.
    - split.
      + apply frame_set_misc'; try apply incl_refl; try apply incl_filter; [congruence | |].
        * intros i H. apply close_mem in H. destruct H as [H|H]; [|tauto]. subst i.
          destruct (Hin b (or_introl eq_refl)) as [H|H]; [|left; exact H].
          right. unfold oids. repeat rewrite in_app_iff. tauto.
        * intros i H. apply close_mono. exact H.
      + intros b' Hb'. unfold is_closed. psimpl.
        destruct (Nat.eq_dec (qb_id b') (qb_id b)) as [Heq|Hne].
        * right. rewrite Heq. apply close_self.
        * destruct (Hin b' (or_intror Hb')) as [H|H].
          -- left. apply in_map_iff in H. destruct H as [q [Hq1 Hq2]].
             apply in_map_iff. exists q. split; [exact Hq1|]. apply filter_In. split; [exact Hq2|].
             apply negb_true_iff. apply Nat.eqb_neq. congruence.
          -- right. apply close_mono. exact H. }
  destruct Hb as [Hf Hr]. eapply frame_trans; [exact Hf|]. apply IH.
  - eapply quiet_frame; [|exact Hf]. exact Hq.
  - exact Hr.
Qed.

Lemma process_when_query_frame : forall s live, quiet s -> frame s (process_when_query s live).
Proof.
  intros s live Hq. change (process_when_query s live)
    with (fold_left (pwq_step (sclock s live)) (ss_qb s) s).
  apply pwq_fold_frame; [exact Hq|].
  intros b Hb. left. apply in_map. exact Hb.
Qed.

(* ------------------------------------------------------------ counting *)

Definition P (neg : bool) (g : nat -> bool) (x : nat) : bool := if neg then negb (g x) else g x.
Definition cnt (neg : bool) (g : nat -> bool) (sts : list nat) : nat := length (filter (P neg g) sts).
Definition full (neg : bool) (g : nat -> bool) (sts : list nat) : bool := forallb (P neg g) sts.

Lemma filter_len_le : forall (A : Type) (f : A -> bool) l, length (filter f l) <= length l.
Proof. intros A f l. induction l as [|x r IH]; simpl; [lia|]. destruct (f x); simpl; lia. Qed.

Lemma cnt_le : forall neg g sts, cnt neg g sts <= length sts.
Proof. intros. unfold cnt. apply filter_len_le. Qed.

Lemma cnt_full : forall neg g sts, cnt neg g sts = length sts <-> full neg g sts = true.
Proof.
  intros neg g sts. unfold cnt, full. induction sts as [|x r IH]; simpl; [tauto|].
  destruct (P neg g x); simpl.
  - rewrite <- IH. split; intros H; [inversion H; reflexivity | f_equal; exact H].
  - split; [|discriminate]. intros H. pose proof (filter_len_le _ (P neg g) r). lia.
Qed.

Lemma cnt_lt_full : forall neg g sts, cnt neg g sts < length sts <-> full neg g sts = false.
Proof.
  intros neg g sts. pose proof (cnt_le neg g sts). pose proof (cnt_full neg g sts).
  destruct (full neg g sts); split; intros; try lia; try discriminate; try tauto.
  all: try (exfalso; assert (cnt neg g sts = length sts) by tauto; lia).
  all: try (assert (cnt neg g sts <> length sts) by (intros E; apply H0 in E; discriminate); lia).
Qed.

Lemma cnt_ext : forall neg g g' l, (forall y, In y l -> g y = g' y) -> cnt neg g l = cnt neg g' l.
Proof.
  intros neg g g' l H. unfold cnt. f_equal. apply filter_ext_in. intros y Hy. unfold P.
  rewrite (H y Hy). reflexivity.
Qed.

Lemma full_ext : forall neg g g' l, (forall y, In y l -> g y = g' y) -> full neg g l = full neg g' l.
Proof.
  intros neg g g' l H. unfold full. induction l as [|x r IH]; simpl; [reflexivity|].
  unfold P at 1 3. rewrite (H x (or_introl eq_refl)). f_equal. apply IH. intros y Hy. apply H. right. exact Hy.
Qed.

Lemma cnt_split : forall neg g x l, NoDup l -> In x l ->
  cnt neg g l = (if P neg g x then 1 else 0) + cnt neg g (remove_all x l).
Proof.
  intros neg g x l Hnd. unfold cnt, remove_all. induction Hnd as [|y r Hy Hnd IH]; simpl; [tauto|].
  intros [H|H].
  - subst y. rewrite Nat.eqb_refl. simpl.
    fold (remove_all x r). rewrite (remove_all_notin x r Hy).
    destruct (P neg g x); simpl; reflexivity.
  - destruct (Nat.eqb x y) eqn:E.
    + apply Nat.eqb_eq in E. subst. contradiction.
    + simpl. destruct (P neg g y); simpl; rewrite (IH H); lia.
Qed.

(* changing the value at one state of a duplicate-free list *)
Definition upd (g : nat -> bool) (x : nat) (v : bool) : nat -> bool :=
  fun y => if Nat.eqb y x then v else g y.

Lemma cnt_upd : forall neg g x v l, NoDup l -> In x l ->
  Z.of_nat (cnt neg (upd g x v) l) =
  (Z.of_nat (cnt neg g l) + (if P neg (upd g x v) x then 1 else 0) - (if P neg g x then 1 else 0))%Z.
Proof.
  intros neg g x v l Hnd Hin.
  rewrite (cnt_split neg (upd g x v) x l Hnd Hin), (cnt_split neg g x l Hnd Hin).
  rewrite (cnt_ext neg (upd g x v) g (remove_all x l)).
  - destruct (P neg (upd g x v) x), (P neg g x); lia.
  - intros y Hy. apply remove_all_In in Hy. unfold upd. destruct (Nat.eqb y x) eqn:E; [|reflexivity].
    apply Nat.eqb_eq in E. tauto.
Qed.

(* ------------------------------------------------------------ the When heap *)

Lemma wb_set_idx_same : forall b, wb_set_idx b (wb_idx b) = b.
Proof. intros []. reflexivity. Qed.

Lemma find_wb_split : forall h id b, NoDup (map wb_id h) -> find_wb h id = Some b ->
  exists h1 h2, h = h1 ++ b :: h2 /\ wb_id b = id /\
    (forall x, In x h1 -> wb_id x <> id) /\ (forall x, In x h2 -> wb_id x <> id).
Proof.
  induction h as [|y r IH]; intros id b Hnd H; simpl in H; [discriminate|].
  inversion Hnd as [|? ? Hy Hr]. subst.
  destruct (Nat.eqb (wb_id y) id) eqn:E.
  - inversion H. subst y. apply Nat.eqb_eq in E. exists [], r.
    split; [reflexivity|]. split; [exact E|]. split.
    + intros x Hx. destruct Hx.
    + intros x Hx Hc. apply Hy. rewrite E, <- Hc. apply in_map. exact Hx.
  - destruct (IH id b Hr H) as [h1 [h2 [Hh [Hid [H1 H2]]]]].
    exists (y :: h1), h2. subst r.
    split; [reflexivity|]. split; [exact Hid|]. split; [|exact H2].
    intros x [Hx|Hx]; [subst; apply Nat.eqb_neq; exact E | apply H1; exact Hx].
Qed.

Lemma map_ne_id : forall (f : wbind -> wbind) id l,
  (forall x, In x l -> wb_id x <> id) ->
  map (fun b => if Nat.eqb (wb_id b) id then f b else b) l = l.
Proof.
  intros f id l H. induction l as [|y r IH]; simpl; [reflexivity|].
  rewrite IH by (intros x Hx; apply H; right; exact Hx).
  destruct (Nat.eqb (wb_id y) id) eqn:E; [|reflexivity].
  apply Nat.eqb_eq in E. exfalso. apply (H y); [left; reflexivity | exact E].
Qed.

Lemma put_wb_split : forall h1 h2 b b', wb_id b' = wb_id b ->
  (forall x, In x h1 -> wb_id x <> wb_id b) -> (forall x, In x h2 -> wb_id x <> wb_id b) ->
  put_wb (h1 ++ b :: h2) b' = h1 ++ b' :: h2.
Proof.
  intros h1 h2 b b' Hid H1 H2. unfold put_wb. rewrite map_app. simpl. rewrite Hid.
  rewrite Nat.eqb_refl.
  rewrite (map_ne_id (fun _ => b') (wb_id b) h1 H1), (map_ne_id (fun _ => b') (wb_id b) h2 H2).
  reflexivity.
Qed.

Lemma when_len_app : forall h1 h2 z, when_len (h1 ++ h2) z = when_len h1 z + when_len h2 z.
Proof.
  intros h1 h2 z. unfold when_len. induction h1 as [|y r IH]; simpl; [reflexivity|]. rewrite IH. lia.
Qed.

Lemma when_len_0_map : forall l z, when_len l z = 0 ->
  map (fun b => wb_set_idx b (remove_all z (wb_idx b))) l = l.
Proof.
  induction l as [|y r IH]; intros z H; simpl; [reflexivity|].
  unfold when_len in H. simpl in H. fold (when_len r z) in H.
  rewrite IH by lia. rewrite remove_all_notin by (apply count_in_0; lia).
  rewrite wb_set_idx_same. reflexivity.
Qed.

(* one iteration of gcWhenBinding on a heap in which the collected binding
   is still indexed under the state *)
Lemma gc_when_state_split : forall h1 h2 bc z,
  (forall x, In x h1 -> wb_id x <> wb_id bc) -> (forall x, In x h2 -> wb_id x <> wb_id bc) ->
  NoDup (wb_idx bc) -> In z (wb_idx bc) ->
  gc_when_state (h1 ++ bc :: h2) (wb_id bc) z
  = h1 ++ wb_set_idx bc (remove_all z (wb_idx bc)) :: h2.
Proof.
  intros h1 h2 bc z H1 H2 Hnd Hin. unfold gc_when_state.
  assert (Hlen : when_len (h1 ++ bc :: h2) z = when_len h1 z + 1 + when_len h2 z).
  { rewrite when_len_app. unfold when_len at 2. simpl. fold (when_len h2 z).
    rewrite (count_in_NoDup z (wb_idx bc) Hnd Hin). lia. }
  destruct (Nat.eqb (when_len (h1 ++ bc :: h2) z) 1) eqn:E.
  - apply Nat.eqb_eq in E. rewrite map_app. simpl.
    rewrite (when_len_0_map h1 z) by lia. rewrite (when_len_0_map h2 z) by lia. reflexivity.
  - rewrite map_app. simpl. rewrite Nat.eqb_refl.
    rewrite (map_ne_id (fun b => wb_set_idx b (without (wb_idx b) z)) (wb_id bc) h1 H1).
    rewrite (map_ne_id (fun b => wb_set_idx b (without (wb_idx b) z)) (wb_id bc) h2 H2).
    rewrite (without_NoDup_eq _ _ Hnd). reflexivity.
Qed.

Lemma wb_set_idx_id : forall b l, wb_id (wb_set_idx b l) = wb_id b.
Proof. reflexivity. Qed.

Lemma gc_fold_split : forall sts h1 h2 bc,
  (forall x, In x h1 -> wb_id x <> wb_id bc) -> (forall x, In x h2 -> wb_id x <> wb_id bc) ->
  NoDup (wb_idx bc) -> NoDup sts -> incl sts (wb_idx bc) ->
  fold_left (fun h st => gc_when_state h (wb_id bc) st) sts (h1 ++ bc :: h2)
  = h1 ++ wb_set_idx bc (fold_left (fun acc x => remove_all x acc) sts (wb_idx bc)) :: h2.
Proof.
  induction sts as [|z r IH]; intros h1 h2 bc H1 H2 Hnd Hs Hin; simpl.
  - rewrite wb_set_idx_same. reflexivity.
  - inversion Hs as [|? ? Hz Hr]. subst.
    rewrite (gc_when_state_split h1 h2 bc z H1 H2 Hnd (Hin z (or_introl eq_refl))).
    set (bc' := wb_set_idx bc (remove_all z (wb_idx bc))).
    change (wb_id bc) with (wb_id bc').
    rewrite (IH h1 h2 bc'); try assumption.
    + destruct bc. reflexivity.
    + subst bc'. cbn. apply remove_all_NoDup. exact Hnd.
    + subst bc'. cbn. intros y Hy. apply remove_all_In. split; [apply Hin; right; exact Hy|].
      intros E. subst. contradiction.
Qed.

(* gcWhenBinding of a fully indexed binding: it leaves every index, nothing else moves *)
Lemma gc_when_split : forall h1 h2 bc wctx g,
  (forall x, In x h1 -> wb_id x <> wb_id bc) -> (forall x, In x h2 -> wb_id x <> wb_id bc) ->
  NoDup (wb_states bc) -> wb_idx bc = wb_states bc ->
  fst (gc_when (h1 ++ bc :: h2) wctx bc g) = h1 ++ wb_set_idx bc [] :: h2.
Proof.
  intros h1 h2 bc wctx g H1 H2 Hnd Hidx. unfold gc_when. cbn [fst].
  rewrite (gc_fold_split (wb_states bc) h1 h2 bc H1 H2); try assumption.
  - rewrite fold_remove_all_nil; [reflexivity|]. rewrite Hidx. apply incl_refl.
  - rewrite Hidx. exact Hnd.
  - rewrite Hidx. apply incl_refl.
Qed.

(* ------------------------------------------------------------ bindings *)

Definition live (cl : list nat) (f : nat -> bool) (b : wbind) : Prop :=
  wb_idx b = wb_states b /\ NoDup (wb_states b) /\ wb_states b <> [] /\
  mem (wb_id b) cl = false /\ wb_total b = length (wb_states b) /\
  (forall x, In x (wb_states b) -> aget (wb_flags b) x = f x) /\
  wb_matched b = Z.of_nat (cnt (wb_neg b) f (wb_states b)) /\
  (wb_matched b < Z.of_nat (wb_total b))%Z.

Definition dead (cl : list nat) (b : wbind) : Prop := wb_idx b = [] /\ mem (wb_id b) cl = true.

Definition wb_ok (cl : list nat) (f : nat -> bool) (b : wbind) : Prop := dead cl b \/ live cl f b.

Lemma live_ext : forall cl f g b, (forall x, In x (wb_states b) -> f x = g x) ->
  live cl f b -> live cl g b.
Proof.
  intros cl f g b H [A [B [C [D [E [F [G I]]]]]]]. repeat split; auto.
  - intros x Hx. rewrite <- (H x Hx). apply F. exact Hx.
  - rewrite G. f_equal. apply cnt_ext. exact H.
Qed.

Lemma live_not_dead : forall cl f b, live cl f b -> dead cl b -> False.
Proof. intros cl f b [A [B [C _]]] [D _]. rewrite A in D. contradiction. Qed.

Lemma aget_aset_same : forall l k v, aget (aset l k v) k = v.
Proof.
  induction l as [|[k' v'] r IH]; intros k v; simpl.
  - rewrite Nat.eqb_refl. reflexivity.
  - destruct (Nat.eqb k k') eqn:E; simpl.
    + rewrite Nat.eqb_refl. reflexivity.
    + rewrite E. apply IH.
Qed.

Lemma aget_aset_other : forall l k v k', k' <> k -> aget (aset l k v) k' = aget l k'.
Proof.
  induction l as [|[k0 v0] r IH]; intros k v k' Hne; simpl.
  - apply Nat.eqb_neq in Hne. rewrite Hne. reflexivity.
  - destruct (Nat.eqb k k0) eqn:E; simpl.
    + apply Nat.eqb_eq in E. subst k0. apply Nat.eqb_neq in Hne. rewrite Hne. reflexivity.
    + destruct (Nat.eqb k' k0); [reflexivity|]. apply IH. exact Hne.
Qed.

Lemma find_wb_mid : forall h1 h2 b,
  (forall x, In x h1 -> wb_id x <> wb_id b) -> find_wb (h1 ++ b :: h2) (wb_id b) = Some b.
Proof.
  induction h1 as [|y r IH]; intros h2 b H; simpl.
  - rewrite Nat.eqb_refl. reflexivity.
  - destruct (Nat.eqb (wb_id y) (wb_id b)) eqn:E.
    + apply Nat.eqb_eq in E. exfalso. apply (H y); [left; reflexivity | exact E].
    + apply IH. intros x Hx. apply H. right. exact Hx.
Qed.

(* everything but the When heap, whenCtx and the closed set is the same *)
Definition wsame (s s' : sst) : Prop :=
  ss_next s' = ss_next s /\ ss_tb s' = ss_tb s /\ ss_tctx s' = ss_tctx s /\ ss_qb s' = ss_qb s /\
  ss_wq s' = ss_wq s /\ ss_qe s' = ss_qe s /\ ss_sctx s' = ss_sctx s /\
  ss_allctx s' = ss_allctx s /\ ss_frozen s' = ss_frozen s /\ ss_done s' = ss_done s /\
  ss_disposed s' = ss_disposed s /\ ss_crashed s' = ss_crashed s /\ ss_rets s' = ss_rets s.

Lemma wsame_refl : forall s, wsame s s.
Proof. intros s. unfold wsame. repeat split. Qed.

Lemma wsame_trans : forall s1 s2 s3, wsame s1 s2 -> wsame s2 s3 -> wsame s1 s3.
Proof. unfold wsame. intros s1 s2 s3 A B. intuition congruence. Qed.

Lemma wsame_set_when : forall s wb wctx cl, wsame s (set_when s wb wctx cl).
Proof. intros. unfold wsame. psimpl. repeat split. Qed.

Lemma live_cl : forall cl cl' f b, live cl f b -> mem (wb_id b) cl' = false -> live cl' f b.
Proof. intros cl cl' f b [A [B [C [D E]]]] H. repeat split; auto; apply E. Qed.

Lemma dead_cl : forall cl cl' b, dead cl b -> (forall i, mem i cl = true -> mem i cl' = true) -> dead cl' b.
Proof. intros cl cl' b [A B] H. split; auto. Qed.

Lemma wb_ok_cl : forall cl cl' f b, wb_ok cl f b ->
  (forall i, mem i cl = true -> mem i cl' = true) ->
  (mem (wb_id b) cl' = true -> mem (wb_id b) cl = true) -> wb_ok cl' f b.
Proof.
  intros cl cl' f b [H|H] Hm Hb.
  - left. eapply dead_cl; eassumption.
  - right. eapply live_cl; [exact H|]. destruct (mem (wb_id b) cl') eqn:E; [|reflexivity].
    destruct H as [_ [_ [_ [D _]]]]. rewrite Hb in D by reflexivity. discriminate.
Qed.

Lemma find_wb_None : forall h id, find_wb h id = None -> forall b, In b h -> wb_id b <> id.
Proof.
  induction h as [|y r IH]; intros id H b Hb; simpl in *; [contradiction|].
  destruct (Nat.eqb (wb_id y) id) eqn:E; [discriminate|].
  destruct Hb as [Hb|Hb]; [subst; apply Nat.eqb_neq; exact E | apply IH; assumption].
Qed.

Lemma mem_cons_ne : forall i id l, i <> id -> mem i (id :: l) = mem i l.
Proof. intros i id l H. cbn [mem existsb]. apply Nat.eqb_neq in H. rewrite H. reflexivity. Qed.



(* ------------------------------------------------------------ ProcessWhen: the walk *)

Lemma mem_app : forall x l1 l2, mem x (l1 ++ l2) = mem x l1 || mem x l2.
Proof. intros. unfold mem. apply existsb_app. Qed.

Lemma hybrid_snoc : forall a act p y z,
  hybrid a act (p ++ [y]) z = upd (hybrid a act p) y (mem y act) z.
Proof.
  intros a act p y z. unfold hybrid, upd. rewrite mem_app. cbn [mem existsb].
  destruct (Nat.eqb z y) eqn:E.
  - apply Nat.eqb_eq in E. subst z. rewrite orb_true_r. reflexivity.
  - rewrite orb_false_r. reflexivity.
Qed.

Lemma wb_ok_ext : forall cl f g b, (forall x, In x (wb_states b) -> f x = g x) ->
  wb_ok cl f b -> wb_ok cl g b.
Proof. intros cl f g b H [Hd|Hl]; [left; exact Hd | right; eapply live_ext; eassumption]. Qed.

Lemma snapshot_eq : forall y h, (forall b, In b h -> NoDup (wb_idx b)) ->
  flat_map (fun b => repeat (wb_id b) (count_in y (wb_idx b))) h
  = map wb_id (filter (fun b => mem y (wb_idx b)) h).
Proof.
  intros y. induction h as [|b r IH]; intros H; simpl; [reflexivity|].
  rewrite IH by (intros b' Hb'; apply H; right; exact Hb').
  destruct (mem y (wb_idx b)) eqn:E.
  - apply mem_In in E. rewrite (count_in_NoDup y _ (H b (or_introl eq_refl)) E). reflexivity.
  - apply mem_false in E. apply count_in_0 in E. rewrite E. reflexivity.
Qed.

Lemma NoDup_map_filter : forall (g : wbind -> bool) h,
  NoDup (map wb_id h) -> NoDup (map wb_id (filter g h)).
Proof.
  intros g. induction h as [|b r IH]; intros H; simpl; [constructor|].
  inversion H as [|? ? Hb Hr]. subst. destruct (g b); simpl; [|apply IH; exact Hr].
  constructor; [|apply IH; exact Hr]. intros Hin. apply Hb.
  apply in_map_iff in Hin. destruct Hin as [x [Hx Hi]]. apply filter_In in Hi.
  apply in_map_iff. exists x. tauto.
Qed.

Lemma mem_map_filter : forall (g : wbind -> bool) h b,
  NoDup (map wb_id h) -> In b h -> mem (wb_id b) (map wb_id (filter g h)) = g b.
Proof.
  intros g h b Hnd Hb. destruct (g b) eqn:E.
  - apply mem_In. apply in_map. apply filter_In. tauto.
  - apply mem_false. intros Hin. apply in_map_iff in Hin. destruct Hin as [x [Hx Hi]].
    apply filter_In in Hi. destruct Hi as [Hi Hg].
    assert (x = b); [|congruence].
    clear E Hg. induction h as [|z r IH]; [contradiction|].
    inversion Hnd as [|? ? Hz Hr]. subst.
    destruct Hi as [Hi|Hi], Hb as [Hb|Hb]; try congruence.
    + subst. exfalso. apply Hz. rewrite Hx. apply in_map. exact Hb.
    + subst. exfalso. apply Hz. rewrite <- Hx. apply in_map. exact Hi.
    + apply IH; assumption.
Qed.

Lemma wb_ok_NoDup_idx : forall cl f b, wb_ok cl f b -> NoDup (wb_idx b).
Proof.
  intros cl f b [[A _]|[A [B _]]]; [rewrite A; constructor | rewrite A; exact B].
Qed.

(* ---- pass 1: flags and counters only *)

(* a binding in the index whose flags / counter describe activity f; the
   counter may have reached the total (between the two passes) *)
Definition pre (cl : list nat) (f : nat -> bool) (b : wbind) : Prop :=
  wb_idx b = wb_states b /\ NoDup (wb_states b) /\ wb_states b <> [] /\
  mem (wb_id b) cl = false /\ wb_total b = length (wb_states b) /\
  (forall x, In x (wb_states b) -> aget (wb_flags b) x = f x) /\
  wb_matched b = Z.of_nat (cnt (wb_neg b) f (wb_states b)).

Definition pok (cl : list nat) (f : nat -> bool) (b : wbind) : Prop := dead cl b \/ pre cl f b.

Lemma live_pre : forall cl f b, live cl f b <-> pre cl f b /\ (wb_matched b < Z.of_nat (wb_total b))%Z.
Proof. intros. unfold live, pre. tauto. Qed.

Lemma pre_ext : forall cl f g b, (forall x, In x (wb_states b) -> f x = g x) -> pre cl f b -> pre cl g b.
Proof.
  intros cl f g b H [A [B [C [D [E [F G]]]]]]. repeat split; auto.
  - intros x Hx. rewrite <- (H x Hx). apply F. exact Hx.
  - rewrite G. f_equal. apply cnt_ext. exact H.
Qed.

Lemma pok_ext : forall cl f g b, (forall x, In x (wb_states b) -> f x = g x) -> pok cl f b -> pok cl g b.
Proof. intros cl f g b H [Hd|Hp]; [left; exact Hd | right; eapply pre_ext; eassumption]. Qed.

Lemma wb_ok_pok : forall cl f b, wb_ok cl f b -> pok cl f b.
Proof. intros cl f b [H|H]; [left; exact H | right; apply live_pre in H; tauto]. Qed.

Lemma pok_NoDup_idx : forall cl f b, pok cl f b -> NoDup (wb_idx b).
Proof. intros cl f b [[A _]|[A [B _]]]; [rewrite A; constructor | rewrite A; exact B]. Qed.

(* same identity, kind, states and index entries *)
Definition shape (b b' : wbind) : Prop :=
  wb_id b' = wb_id b /\ wb_neg b' = wb_neg b /\ wb_states b' = wb_states b /\ wb_idx b' = wb_idx b.

Lemma shape_refl : forall b, shape b b.
Proof. intros b. unfold shape. tauto. Qed.

Lemma touch_wb_pre : forall s h1 h2 b x v f,
  ss_wb s = h1 ++ b :: h2 ->
  (forall y, In y h1 -> wb_id y <> wb_id b) -> (forall y, In y h2 -> wb_id y <> wb_id b) ->
  pre (ss_closed s) f b -> In x (wb_states b) ->
  exists b', shape b b' /\
    touch_wb s (wb_id b) x v = set_when s (h1 ++ b' :: h2) (ss_wctx s) (ss_closed s) /\
    pre (ss_closed s) (upd f x v) b'.
Proof.
  intros s h1 h2 b x v f Hwb H1 H2 [A [B [C [D [E [F G]]]]]] Hx.
  unfold touch_wb. rewrite Hwb, (find_wb_mid h1 h2 b H1).
  set (fl := aget (wb_flags b) x).
  set (m' := if v then (if fl then wb_matched b else if wb_neg b then (wb_matched b - 1)%Z else (wb_matched b + 1)%Z)
             else (if fl then (if wb_neg b then (wb_matched b + 1)%Z else (wb_matched b - 1)%Z) else wb_matched b)).
  set (b1 := wb_set_match b (aset (wb_flags b) x v) m').
  assert (Hm' : m' = Z.of_nat (cnt (wb_neg b) (upd f x v) (wb_states b))).
  { rewrite (cnt_upd (wb_neg b) f x v (wb_states b) B Hx). rewrite <- G.
    subst m' fl. rewrite (F x Hx). unfold P, upd. rewrite Nat.eqb_refl.
    destruct v, (f x), (wb_neg b); simpl; lia. }
  assert (Hfl : forall y, In y (wb_states b) -> aget (wb_flags b1) y = upd f x v y).
  { intros y Hy. subst b1. cbn. unfold upd. destruct (Nat.eqb y x) eqn:Ey.
    - apply Nat.eqb_eq in Ey. subst y. apply aget_aset_same.
    - apply Nat.eqb_neq in Ey. rewrite aget_aset_other by exact Ey. apply F. exact Hy. }
  exists b1. split; [unfold shape; subst b1; cbn; tauto|]. split.
  - f_equal. apply put_wb_split; [reflexivity | exact H1 | exact H2].
  - unfold pre. subst b1. cbn [wb_set_match wb_idx wb_states wb_id wb_total wb_neg wb_matched wb_flags].
    repeat split; auto.
Qed.

Lemma Forall2_mid : forall (R : wbind -> wbind -> Prop) h1 h2 b b',
  (forall x, R x x) -> R b b' -> Forall2 R (h1 ++ b :: h2) (h1 ++ b' :: h2).
Proof.
  intros R h1 h2 b b' Hr Hb. apply Forall2_app.
  - induction h1; constructor; auto.
  - constructor; [exact Hb|]. induction h2; constructor; auto.
Qed.

Lemma Forall2_trans' : forall (R1 R2 R3 : wbind -> wbind -> Prop) l1 l2 l3,
  (forall x y z, R1 x y -> R2 y z -> R3 x z) ->
  Forall2 R1 l1 l2 -> Forall2 R2 l2 l3 -> Forall2 R3 l1 l3.
Proof.
  intros R1 R2 R3 l1 l2 l3 H A. revert l3. induction A; intros l3 B; inversion B; subst; constructor; eauto.
Qed.

Lemma Forall2_In_l : forall (R : wbind -> wbind -> Prop) l1 l2 x,
  Forall2 R l1 l2 -> In x l1 -> exists y, In y l2 /\ R x y.
Proof.
  intros R l1 l2 x A. induction A; intros Hin; [contradiction|].
  destruct Hin as [Hin|Hin]; [subst; eexists; split; [left; reflexivity | assumption]|].
  destruct (IHA Hin) as [z [Hz Hr]]. exists z. split; [right; exact Hz | exact Hr].
Qed.

Lemma Forall2_In_r : forall (R : wbind -> wbind -> Prop) l1 l2 y,
  Forall2 R l1 l2 -> In y l2 -> exists x, In x l1 /\ R x y.
Proof.
  intros R l1 l2 y A. induction A; intros Hin; [contradiction|].
  destruct Hin as [Hin|Hin]; [subst; eexists; split; [left; reflexivity | assumption]|].
  destruct (IHA Hin) as [z [Hz Hr]]. exists z. split; [right; exact Hz | exact Hr].
Qed.

Lemma Forall2_impl_In : forall (R R' : wbind -> wbind -> Prop) l1 l2,
  (forall x y, In x l1 -> R x y -> R' x y) -> Forall2 R l1 l2 -> Forall2 R' l1 l2.
Proof.
  intros R R' l1 l2 H A. induction A; constructor.
  - apply H; [left; reflexivity | assumption].
  - apply IHA. intros x0 y0 Hx0. apply H. right. exact Hx0.
Qed.

Lemma Forall2_ids : forall l1 l2, Forall2 (fun b b' => wb_id b' = wb_id b) l1 l2 ->
  map wb_id l2 = map wb_id l1.
Proof. intros l1 l2 A. induction A; simpl; congruence. Qed.

Section Touch.
  Variables (y : nat) (v : bool) (fp : nat -> bool).
  Let fq := upd fp y v.

  (* the bindings listed in [ids] get their flag of y set, the others stay *)
  Definition touched_rel (ids : list nat) (b b' : wbind) : Prop :=
    if mem (wb_id b) ids then shape b b' else b' = b.

  Lemma touch_loop : forall ids s,
    NoDup ids -> NoDup (map wb_id (ss_wb s)) ->
    (forall b, In b (ss_wb s) ->
       if mem (wb_id b) ids then pre (ss_closed s) fp b /\ In y (wb_states b)
       else pok (ss_closed s) fq b) ->
    let s' := fold_left (fun st id => touch_wb st id y v) ids s in
    wsame s s' /\ ss_closed s' = ss_closed s /\
    (forall b', In b' (ss_wb s') -> pok (ss_closed s) fq b') /\
    Forall2 (touched_rel ids) (ss_wb s) (ss_wb s').
  Proof.
    induction ids as [|id rest IH]; intros s Hnd Hids Hall; cbn zeta; simpl fold_left.
    - split; [apply wsame_refl|]. split; [reflexivity|]. split; [exact Hall|].
      assert (G : forall l : list wbind, Forall2 (touched_rel []) l l).
      { induction l; constructor; auto. unfold touched_rel. reflexivity. }
      apply G.
    - inversion Hnd as [|? ? Hid Hrest]. subst.
      destruct (find_wb (ss_wb s) id) as [b0|] eqn:Ef.
      + destruct (find_wb_split _ _ _ Hids Ef) as [h1 [h2 [Hh [Hb0 [H1 H2]]]]]. subst id.
        assert (Hin0 : In b0 (ss_wb s)) by (rewrite Hh; apply in_or_app; right; left; reflexivity).
        pose proof (Hall b0 Hin0) as Hl. cbn [mem existsb] in Hl. rewrite Nat.eqb_refl in Hl.
        cbn [orb] in Hl. destruct Hl as [Hpre Hy].
        destruct (touch_wb_pre s h1 h2 b0 y v fp Hh H1 H2 Hpre Hy) as [b1 [Hsh [Heq Hpre1]]].
        rewrite Heq. set (s1 := set_when s (h1 ++ b1 :: h2) (ss_wctx s) (ss_closed s)).
        assert (Hb1 : wb_id b1 = wb_id b0) by apply Hsh.
        destruct (IH s1) as [Hsame [Hcl [Hok Hrel]]].
        * exact Hrest.
        * unfold s1. psimpl. rewrite Hh in Hids. repeat rewrite map_app in *. simpl in *. rewrite Hb1. exact Hids.
        * unfold s1. psimpl. intros b Hb. apply in_app_or in Hb.
          assert (Hother : forall b2, In b2 (ss_wb s) -> wb_id b2 <> wb_id b0 ->
                    if mem (wb_id b2) rest then pre (ss_closed s) fp b2 /\ In y (wb_states b2)
                    else pok (ss_closed s) fq b2).
          { intros b2 Hb2 Hne. pose proof (Hall b2 Hb2) as Hx. rewrite (mem_cons_ne _ _ _ Hne) in Hx. exact Hx. }
          destruct Hb as [Hb|[Hb|Hb]].
          -- apply Hother; [rewrite Hh; apply in_or_app; left; exact Hb | apply H1; exact Hb].
          -- subst b. rewrite Hb1. apply mem_false in Hid. rewrite Hid. right. exact Hpre1.
          -- apply Hother; [rewrite Hh; apply in_or_app; right; right; exact Hb | apply H2; exact Hb].
        * split; [eapply wsame_trans; [apply wsame_set_when | exact Hsame]|].
          split; [rewrite Hcl; reflexivity|]. split; [exact Hok|].
          eapply Forall2_trans'; [| |exact Hrel].
          2: { unfold s1. psimpl. rewrite Hh. apply (Forall2_mid (fun b b' => if Nat.eqb (wb_id b) (wb_id b0) then shape b b' else b' = b)).
               - intros x. destruct (Nat.eqb (wb_id x) (wb_id b0)); [apply shape_refl | reflexivity].
               - rewrite Nat.eqb_refl. exact Hsh. }
          intros x z w R1 R2. unfold touched_rel in *. cbn [mem existsb].
          destruct (Nat.eqb (wb_id x) (wb_id b0)) eqn:E; cbn [orb].
          -- (* x is the touched binding: z is its image, untouched by the rest *)
             assert (Hz : wb_id z = wb_id b0) by (apply Nat.eqb_eq in E; destruct R1 as [R1 _]; congruence).
             rewrite Hz in R2. apply mem_false in Hid. rewrite Hid in R2. subst w. exact R1.
          -- subst z. exact R2.
      + assert (Hv : touch_wb s id y v = s) by (unfold touch_wb; rewrite Ef; reflexivity).
        rewrite Hv.
        destruct (IH s Hrest Hids) as [Hsame [Hcl [Hok Hrel]]].
        * intros b Hb. pose proof (Hall b Hb) as Hx.
          rewrite (mem_cons_ne _ _ _ (find_wb_None _ _ Ef b Hb)) in Hx. exact Hx.
        * split; [exact Hsame|]. split; [exact Hcl|]. split; [exact Hok|].
          assert (G : forall l1 l2, (forall b, In b l1 -> wb_id b <> id) ->
                      Forall2 (touched_rel rest) l1 l2 -> Forall2 (touched_rel (id :: rest)) l1 l2).
          { intros l1 l2 Hne A. induction A; constructor.
            - unfold touched_rel in *. rewrite (mem_cons_ne _ _ _ (Hne x (or_introl eq_refl))). assumption.
            - apply IHA. intros b Hb. apply Hne. right. exact Hb. }
          apply G; [apply (find_wb_None _ _ Ef) | exact Hrel].
  Qed.
End Touch.

Section Pass1.
  Variables (a : nat -> bool) (act : list nat).
  Let fh (p : list nat) := hybrid a act p.

  (* a binding none of whose index states is walked is not touched *)
  Definition pass1_rel (walked : list nat) (b b' : wbind) : Prop :=
    shape b b' /\ ((forall x, In x walked -> ~ In x (wb_idx b)) -> b' = b).

  Lemma pass1_loop : forall rest p s,
    NoDup (map wb_id (ss_wb s)) ->
    (forall b, In b (ss_wb s) -> pok (ss_closed s) (fh p) b) ->
    let s' := fold_left (touch_state act) rest s in
    wsame s s' /\ ss_closed s' = ss_closed s /\
    (forall b', In b' (ss_wb s') -> pok (ss_closed s) (fh (p ++ rest)) b') /\
    Forall2 (pass1_rel rest) (ss_wb s) (ss_wb s').
  Proof.
    induction rest as [|y rest IH]; intros p s Hnd Hok; cbn zeta; simpl fold_left.
    - rewrite app_nil_r. split; [apply wsame_refl|]. split; [reflexivity|]. split; [exact Hok|].
      assert (G : forall l : list wbind, Forall2 (pass1_rel []) l l).
      { induction l; constructor; auto. split; [apply shape_refl | reflexivity]. }
      apply G.
    - set (v := mem y act). set (fp := fh p).
      set (ids := map wb_id (filter (fun b => mem y (wb_idx b)) (ss_wb s))).
      assert (Hsnap : touch_state act s y = fold_left (fun st id => touch_wb st id y v) ids s).
      { unfold touch_state, when_ids. rewrite snapshot_eq; [reflexivity|].
        intros b Hb. eapply pok_NoDup_idx. apply Hok. exact Hb. }
      rewrite Hsnap.
      assert (Hfq : forall z, upd fp y v z = fh (p ++ [y]) z).
      { intros z. symmetry. apply hybrid_snoc. }
      destruct (touch_loop y v fp ids s (NoDup_map_filter _ _ Hnd) Hnd) as [Hsame1 [Hcl1 [Hok1 Hrel1]]].
      { intros b Hb. unfold ids. rewrite (mem_map_filter _ _ _ Hnd Hb).
        destruct (Hok b Hb) as [Hd|Hp].
        - destruct Hd as [Hd1 Hd2]. rewrite Hd1. cbn. left. split; assumption.
        - pose proof Hp as [A _]. rewrite A. destruct (mem y (wb_states b)) eqn:E.
          + apply mem_In in E. split; [exact Hp | exact E].
          + right. eapply pre_ext; [|exact Hp]. intros x Hx. unfold upd.
            destruct (Nat.eqb x y) eqn:Exy; [|reflexivity].
            apply Nat.eqb_eq in Exy. subst x. apply mem_false in E. contradiction. }
      set (s1 := fold_left (fun st id => touch_wb st id y v) ids s) in *.
      assert (Hids1 : map wb_id (ss_wb s1) = map wb_id (ss_wb s)).
      { apply Forall2_ids. eapply Forall2_impl_In; [|exact Hrel1].
        intros x z _ R. unfold touched_rel in R. destruct (mem (wb_id x) ids); [apply R | subst; reflexivity]. }
      destruct (IH (p ++ [y]) s1) as [Hsame [Hcl [Hok' Hrel']]].
      + rewrite Hids1. exact Hnd.
      + rewrite Hcl1. intros b Hb. eapply pok_ext; [|apply Hok1; exact Hb]. intros x _. apply Hfq.
      + split; [eapply wsame_trans; eassumption|]. split; [congruence|]. split.
        { rewrite <- app_assoc in Hok'. rewrite Hcl1 in Hok'. exact Hok'. }
        assert (Hrel1' : Forall2 (fun x z => shape x z /\ (~ In y (wb_idx x) -> z = x)) (ss_wb s) (ss_wb s1)).
        { eapply Forall2_impl_In; [|exact Hrel1]. intros x z Hx R. unfold touched_rel in R.
          unfold ids in R. rewrite (mem_map_filter _ _ _ Hnd Hx) in R.
          destruct (mem y (wb_idx x)) eqn:Em.
          - split; [exact R|]. intros Hn. apply mem_In in Em. contradiction.
          - subst z. split; [apply shape_refl | reflexivity]. }
        eapply Forall2_trans'; [|exact Hrel1'|exact Hrel'].
        intros x z w [S1 U1] [S2 U2]. split.
        * destruct S1 as [A1 [B1 [C1 D1]]], S2 as [A2 [B2 [C2 D2]]]. unfold shape. repeat split; congruence.
        * intros Hun. assert (Hz : z = x) by (apply U1; apply Hun; left; reflexivity).
          subst z. apply U2. intros x0 Hx0. apply Hun. right. exact Hx0.
  Qed.
End Pass1.


(* ---- pass 2: completion of the touched bindings *)

Lemma pre_cl : forall cl cl' f b, pre cl f b -> mem (wb_id b) cl' = false -> pre cl' f b.
Proof. intros cl cl' f b [A [B [C [D E]]]] H. repeat split; auto; apply E. Qed.

Lemma complete_wb_pre : forall s h1 h2 b f,
  ss_done s = [] -> ss_wb s = h1 ++ b :: h2 ->
  (forall y, In y h1 -> wb_id y <> wb_id b) -> (forall y, In y h2 -> wb_id y <> wb_id b) ->
  pre (ss_closed s) f b ->
  (full (wb_neg b) f (wb_states b) = false /\ complete_wb s (wb_id b) = s /\ live (ss_closed s) f b)
  \/ (full (wb_neg b) f (wb_states b) = true /\
      exists wc, complete_wb s (wb_id b)
                 = set_when s (h1 ++ wb_set_idx b [] :: h2) wc (close (ss_closed s) (wb_id b))).
Proof.
  intros s h1 h2 b f Hdone Hwb H1 H2 Hpre. pose proof Hpre as [A [B [C [D [E [F G]]]]]].
  unfold complete_wb. rewrite Hwb, (find_wb_mid h1 h2 b H1).
  assert (Hexp : ctx_done s (wb_ctx b) = false).
  { unfold ctx_done. destruct (wb_ctx b); [|reflexivity]. rewrite Hdone. reflexivity. }
  rewrite Hexp. cbn [negb]. rewrite andb_true_r.
  destruct (wb_matched b <? Z.of_nat (wb_total b))%Z eqn:Elt.
  - left. apply Z.ltb_lt in Elt. split; [|split; [reflexivity|]].
    + apply cnt_lt_full. rewrite G, E in Elt. lia.
    + apply live_pre. split; assumption.
  - right. apply Z.ltb_ge in Elt. split.
    + apply cnt_full. pose proof (cnt_le (wb_neg b) f (wb_states b)). rewrite G, E in Elt. lia.
    + pose proof (gc_when_split h1 h2 b (ss_wctx s) true H1 H2 B A) as Hgc.
      destruct (gc_when (h1 ++ b :: h2) (ss_wctx s) b true) as [hh wc]. cbn [fst] in Hgc. subst hh.
      exists wc. reflexivity.
Qed.

Section Pass2.
  Variable (f : nat -> bool).

  Definition status (cl : list nat) (b b' : wbind) (visited : bool) : Prop :=
    wb_id b' = wb_id b /\ wb_neg b' = wb_neg b /\ wb_states b' = wb_states b /\
    (if visited
     then (live cl f b' /\ full (wb_neg b) f (wb_states b) = false)
          \/ (dead cl b' /\ full (wb_neg b) f (wb_states b) = true)
     else b' = b).

  Lemma pass2_loop : forall ids s,
    ss_done s = [] -> NoDup ids -> NoDup (map wb_id (ss_wb s)) ->
    (forall b, In b (ss_wb s) ->
       if mem (wb_id b) ids then pre (ss_closed s) f b else wb_ok (ss_closed s) f b) ->
    let s' := fold_left complete_wb ids s in
    wsame s s' /\ map wb_id (ss_wb s') = map wb_id (ss_wb s) /\
    (forall b', In b' (ss_wb s') -> wb_ok (ss_closed s') f b') /\
    (forall i, mem i (ss_closed s) = true -> mem i (ss_closed s') = true) /\
    (forall i, mem i (ss_closed s') = true -> mem i (ss_closed s) = true \/ In i ids) /\
    (forall b, In b (ss_wb s) -> exists b', In b' (ss_wb s') /\
       status (ss_closed s') b b' (mem (wb_id b) ids)).
  Proof.
    induction ids as [|id rest IH]; intros s Hdone Hnd Hids Hall; cbn zeta; simpl fold_left.
    - split; [apply wsame_refl|]. split; [reflexivity|]. split.
      { intros b' Hb'. exact (Hall b' Hb'). }
      split; [tauto|]. split; [tauto|].
      intros b Hb. exists b. split; [exact Hb|]. unfold status. cbn. tauto.
    - inversion Hnd as [|? ? Hid Hrest]. subst.
      destruct (find_wb (ss_wb s) id) as [b0|] eqn:Ef.
      + destruct (find_wb_split _ _ _ Hids Ef) as [h1 [h2 [Hh [Hb0 [H1 H2]]]]]. subst id.
        assert (Hin0 : In b0 (ss_wb s)) by (rewrite Hh; apply in_or_app; right; left; reflexivity).
        pose proof (Hall b0 Hin0) as Hpre. cbn [mem existsb] in Hpre. rewrite Nat.eqb_refl in Hpre.
        cbn [orb] in Hpre.
        (* the state after the visit, its heap entry b1 and its closed set *)
        assert (Hvis : exists b1 s1, s1 = complete_wb s (wb_id b0) /\ wb_id b1 = wb_id b0 /\
                  wb_neg b1 = wb_neg b0 /\ wb_states b1 = wb_states b0 /\
                  ss_wb s1 = h1 ++ b1 :: h2 /\ wsame s s1 /\
                  ((full (wb_neg b0) f (wb_states b0) = false /\ ss_closed s1 = ss_closed s /\
                    live (ss_closed s) f b1)
                   \/ (full (wb_neg b0) f (wb_states b0) = true /\
                       ss_closed s1 = close (ss_closed s) (wb_id b0) /\ dead (ss_closed s1) b1))).
        { destruct (complete_wb_pre s h1 h2 b0 f Hdone Hh H1 H2 Hpre) as [[Hf [He Hl]]|[Hf [wc He]]].
          - exists b0, s. rewrite He. do 4 (split; [reflexivity|]). split; [exact Hh|].
            split; [apply wsame_refl|]. left. tauto.
          - exists (wb_set_idx b0 []), (complete_wb s (wb_id b0)). rewrite He.
            split; [reflexivity|]. do 3 (split; [reflexivity|]). psimpl.
            split; [reflexivity|]. split; [apply wsame_set_when|]. right.
            split; [exact Hf|]. split; [reflexivity|]. unfold dead. cbn. split; [reflexivity | apply close_self]. }
        destruct Hvis as [b1 [s1 [Hs1 [Hb1 [Hn1 [Hst1 [Hwb1 [Hsame1 Hres]]]]]]]]. rewrite <- Hs1.
        assert (Hcl1 : forall i, mem i (ss_closed s1) = true ->
                                 mem i (ss_closed s) = true \/ i = wb_id b0).
        { intros i Hi. destruct Hres as [[_ [Hc _]]|[_ [Hc _]]]; rewrite Hc in Hi; [tauto|].
          apply close_mem in Hi. tauto. }
        assert (Hmono1 : forall i, mem i (ss_closed s) = true -> mem i (ss_closed s1) = true).
        { intros i Hi. destruct Hres as [[_ [Hc _]]|[_ [Hc _]]]; rewrite Hc; [exact Hi|].
          apply close_mono. exact Hi. }
        assert (Hids1 : map wb_id (ss_wb s1) = map wb_id (ss_wb s)).
        { rewrite Hwb1, Hh. repeat rewrite map_app. simpl. rewrite Hb1. reflexivity. }
        assert (Hok1 : wb_ok (ss_closed s1) f b1).
        { destruct Hres as [[_ [Hc Hl1]]|[_ [_ Hd1]]]; [right; rewrite Hc; exact Hl1 | left; exact Hd1]. }
        destruct (IH s1) as [Hsame [Hids' [Hok' [Hmono' [Hcl' Htr']]]]].
        * destruct Hsame1 as [_ [_ [_ [_ [_ [_ [_ [_ [_ [Hd _]]]]]]]]]]. congruence.
        * exact Hrest.
        * rewrite Hids1. exact Hids.
        * intros b Hb. rewrite Hwb1 in Hb. apply in_app_or in Hb.
          assert (Hother : forall b2, In b2 (ss_wb s) -> wb_id b2 <> wb_id b0 ->
                    if mem (wb_id b2) rest then pre (ss_closed s1) f b2 else wb_ok (ss_closed s1) f b2).
          { intros b2 Hb2 Hne. pose proof (Hall b2 Hb2) as Hx. rewrite (mem_cons_ne _ _ _ Hne) in Hx.
            destruct (mem (wb_id b2) rest).
            - eapply pre_cl; [exact Hx|].
              destruct (mem (wb_id b2) (ss_closed s1)) eqn:Em; [|reflexivity].
              destruct (Hcl1 _ Em) as [Hc|Hc]; [|contradiction].
              destruct Hx as [_ [_ [_ [D _]]]]. congruence.
            - eapply wb_ok_cl; [exact Hx | exact Hmono1 |].
              intros Hm. destruct (Hcl1 _ Hm) as [Hc|Hc]; [exact Hc | contradiction]. }
          destruct Hb as [Hb|[Hb|Hb]].
          -- apply Hother; [rewrite Hh; apply in_or_app; left; exact Hb | apply H1; exact Hb].
          -- subst b. rewrite Hb1. apply mem_false in Hid. rewrite Hid. exact Hok1.
          -- apply Hother; [rewrite Hh; apply in_or_app; right; right; exact Hb | apply H2; exact Hb].
        * split; [eapply wsame_trans; eassumption|].
          split; [congruence|]. split; [exact Hok'|].
          split; [intros i Hi; apply Hmono'; apply Hmono1; exact Hi|].
          split.
          { intros i Hi. destruct (Hcl' i Hi) as [Hc|Hc]; [|right; right; exact Hc].
            destruct (Hcl1 i Hc) as [Hc1|Hc1]; [tauto | right; left; congruence]. }
          intros b Hb.
          destruct (Nat.eq_dec (wb_id b) (wb_id b0)) as [Heq|Hne].
          -- assert (b = b0).
             { rewrite Hh in Hb. apply in_app_or in Hb. destruct Hb as [Hb|[Hb|Hb]];
                 [exfalso; apply (H1 b Hb Heq) | congruence | exfalso; apply (H2 b Hb Heq)]. }
             subst b.
             assert (Hin1 : In b1 (ss_wb s1)) by (rewrite Hwb1; apply in_or_app; right; left; reflexivity).
             destruct (Htr' b1 Hin1) as [b' [Hb' [Hi' [Hn' [Hs' Hst']]]]].
             rewrite Hb1 in Hst'. apply mem_false in Hid. rewrite Hid in Hst'. subst b'.
             exists b1. split; [exact Hb'|]. unfold status. cbn [mem existsb]. rewrite Nat.eqb_refl.
             cbn [orb]. repeat split; auto.
             destruct Hres as [[Hf [Hc Hl1]]|[Hf [Hc Hd1]]].
             ++ left. split; [|exact Hf]. eapply live_cl; [exact Hl1|].
                destruct (mem (wb_id b1) (ss_closed _)) eqn:Em; [|reflexivity].
                destruct (Hcl' _ Em) as [Hx|Hx].
                ** rewrite Hc in Hx. destruct Hl1 as [_ [_ [_ [D _]]]]. congruence.
                ** exfalso. rewrite Hb1 in Hx. apply mem_In in Hx. congruence.
             ++ right. split; [|exact Hf]. eapply dead_cl; [exact Hd1 | exact Hmono'].
          -- assert (Hin1 : In b (ss_wb s1)).
             { rewrite Hwb1. rewrite Hh in Hb. apply in_app_or in Hb. apply in_or_app.
               destruct Hb as [Hb|[Hb|Hb]]; [tauto | congruence | right; right; exact Hb]. }
             destruct (Htr' b Hin1) as [b' [Hb' Hst']].
             exists b'. split; [exact Hb'|]. rewrite (mem_cons_ne _ _ _ Hne). exact Hst'.
      + assert (Hv : complete_wb s id = s) by (unfold complete_wb; rewrite Ef; reflexivity).
        rewrite Hv.
        destruct (IH s Hdone Hrest Hids) as [Hsame [Hids' [Hok' [Hmono' [Hcl' Htr']]]]].
        * intros b Hb. pose proof (Hall b Hb) as Hx.
          rewrite (mem_cons_ne _ _ _ (find_wb_None _ _ Ef b Hb)) in Hx. exact Hx.
        * split; [exact Hsame|]. split; [exact Hids'|]. split; [exact Hok'|]. split; [exact Hmono'|].
          split; [intros i Hi; destruct (Hcl' i Hi); [tauto | right; right; assumption]|].
          intros b Hb. destruct (Htr' b Hb) as [b' [Hb' Hst']]. exists b'. split; [exact Hb'|].
          rewrite (mem_cons_ne _ _ _ (find_wb_None _ _ Ef b Hb)). exact Hst'.
  Qed.
End Pass2.

(* ------------------------------------------------------------ the invariant *)

Definition Inv (a : nat -> bool) (s : sst) : Prop :=
  quiet s /\ NoDup (map wb_id (ss_wb s)) /\
  (forall b, In b (ss_wb s) -> wb_ok (ss_closed s) a b) /\
  (forall i, In i (map wb_id (ss_wb s)) -> i < ss_next s /\ ~ In i (oids s)) /\
  (forall i, In i (oids s) -> i < ss_next s) /\
  (forall i, is_closed s i = true -> i < ss_next s).

Lemma Inv_frame : forall a s s', Inv a s -> frame s s' -> Inv a s'.
Proof.
  intros a s s' [Hq [Hnd [Hok [Hsep [Hb Hc]]]]] F. pose proof F as F'. destruct F.
  split; [eapply quiet_frame; eassumption|]. rewrite fr_wb0.
  split; [exact Hnd|]. split; [|split; [|split]].
  - intros b Hin. eapply wb_ok_cl; [apply Hok; exact Hin | apply fr_mono0 |].
    intros Hm. destruct (fr_closed0 _ Hm) as [H|[H|H]]; [exact H | |].
    + exfalso. apply (proj2 (Hsep _ (in_map wb_id _ _ Hin))). exact H.
    + exfalso. pose proof (proj1 (Hsep _ (in_map wb_id _ _ Hin))). lia.
  - intros i Hi. destruct (Hsep i Hi) as [H1 H2]. split; [lia|].
    intros Ho. destruct (fr_oids0 i Ho) as [H|H]; [contradiction | lia].
  - intros i Hi. destruct (fr_oids0 i Hi) as [H|H]; [apply Hb in H; lia | lia].
  - intros i Hi. destruct (fr_closed0 i Hi) as [H|[H|H]]; [apply Hc in H; lia | apply Hb in H; lia | lia].
Qed.

Lemma process_when_ctx_id : forall s, ss_done s = [] -> process_when_ctx s = s.
Proof.
  intros s H. unfold process_when_ctx. generalize (ss_wctx s) as l. intros l. revert s H.
  induction l as [|[c ids] r IH]; intros s H; simpl; [reflexivity|].
  rewrite H. simpl. apply IH. exact H.
Qed.

Lemma hybrid_all : forall a act deact x,
  hybrid a act (act ++ deact) x = act_upd a (EProcess act deact [] [] 0%N) x.
Proof.
  intros a act deact x. unfold hybrid. cbn [act_upd]. rewrite mem_app.
  destruct (mem x act); [reflexivity|]. destruct (mem x deact); reflexivity.
Qed.

Lemma wsame_oids : forall s s', wsame s s' -> oids s' = oids s.
Proof.
  intros s s' [A [B [C [D [E [F [G [H _]]]]]]]]. unfold oids. congruence.
Qed.

Lemma wsame_quiet : forall s s', wsame s s' -> quiet s -> quiet s'.
Proof.
  intros s s' [A [B [C [D [E [F [G [H [I [J [K [L M]]]]]]]]]]]] [Q1 [Q2 [Q3 Q5]]].
  unfold quiet. rewrite J, K, L, G, H. tauto.
Qed.

Lemma live_not_full_early : forall cl f b, live cl f b -> full (wb_neg b) f (wb_states b) = false.
Proof.
  intros cl f b [_ [_ [_ [_ [E [_ [G I]]]]]]]. apply cnt_lt_full. rewrite G, E in I. lia.
Qed.

Lemma mem_uniq : forall x l, mem x (uniq l) = mem x l.
Proof.
  intros x l. destruct (mem x l) eqn:E.
  - apply mem_In. apply (proj2 (uniq_In l x)). apply (proj1 (mem_In x l)). exact E.
  - apply mem_false. intros H. apply (proj1 (uniq_In l x)) in H. apply (proj2 (mem_In x l)) in H. congruence.
Qed.

Lemma touched_mem : forall h all b,
  NoDup (map wb_id h) -> (forall b, In b h -> NoDup (wb_idx b)) -> In b h ->
  mem (wb_id b) (uniq (flat_map (when_ids h) all)) = existsb (fun x => mem x (wb_idx b)) all.
Proof.
  intros h all b Hnd Hidx Hb. rewrite mem_uniq. induction all as [|x r IH]; simpl; [reflexivity|].
  rewrite mem_app, IH. f_equal. unfold when_ids. rewrite (snapshot_eq x h Hidx).
  apply mem_map_filter; assumption.
Qed.

Lemma when_ids_incl : forall h x i, In i (when_ids h x) -> In i (map wb_id h).
Proof.
  intros h x i H. unfold when_ids in H. apply in_flat_map in H. destruct H as [b [Hb Hi]].
  apply repeat_spec in Hi. subst i. apply in_map. exact Hb.
Qed.

Lemma hybrid_nil : forall a act x, hybrid a act [] x = a x.
Proof. reflexivity. Qed.

Lemma hybrid_notin : forall a act all x, ~ In x all -> hybrid a act all x = a x.
Proof. intros a act all x H. unfold hybrid. apply mem_false in H. rewrite H. reflexivity. Qed.

(* ProcessWhen keeps the invariant, for the activity it was told; a binding
   is completed exactly when all its states are (in)active afterwards *)
Lemma Inv_process_when : forall a s act deact,
  Inv a s ->
  let a' := act_upd a (EProcess act deact [] [] 0%N) in
  let s' := process_when s act deact in
  Inv a' s' /\ wsame s s' /\
  (forall i, is_closed s i = true -> is_closed s' i = true) /\
  (forall b, In b (ss_wb s) -> exists b', In b' (ss_wb s') /\
     wb_id b' = wb_id b /\ wb_neg b' = wb_neg b /\ wb_states b' = wb_states b /\
     (dead (ss_closed s) b -> dead (ss_closed s') b') /\
     (live (ss_closed s) a b ->
        (live (ss_closed s') a' b' /\ full (wb_neg b) a' (wb_states b) = false)
        \/ (dead (ss_closed s') b' /\ full (wb_neg b) a' (wb_states b) = true))).
Proof.
  intros a s act deact [Hq [Hnd [Hok [Hsep [Hb Hc]]]]] a' s'.
  assert (Hdone : ss_done s = []) by apply Hq.
  subst s'. unfold process_when. rewrite (process_when_ctx_id s Hdone). cbv zeta.
  set (all := act ++ deact). set (f := hybrid a act all).
  assert (Hfa : forall x, f x = a' x) by (intros x; apply hybrid_all).
  assert (Hidx : forall b, In b (ss_wb s) -> NoDup (wb_idx b)).
  { intros b Hin. eapply wb_ok_NoDup_idx. apply Hok. exact Hin. }
  (* pass 1 *)
  destruct (pass1_loop a act all [] s Hnd) as [Hsame1 [Hcl1 [Hok1 Hrel1]]].
  { intros b Hin. apply wb_ok_pok. apply Hok. exact Hin. }
  cbn [app] in Hok1. fold f in Hok1.
  set (s1 := fold_left (touch_state act) all s) in *.
  assert (Hids1 : map wb_id (ss_wb s1) = map wb_id (ss_wb s)).
  { apply Forall2_ids. eapply Forall2_impl_In; [|exact Hrel1]. intros x z _ [R _]. apply R. }
  set (touched := uniq (flat_map (when_ids (ss_wb s)) all)).
  assert (Htm : forall b b1, In b (ss_wb s) -> pass1_rel all b b1 ->
            mem (wb_id b1) touched = existsb (fun x => mem x (wb_idx b)) all).
  { intros b b1 Hin [[R _] _]. rewrite R. apply touched_mem; assumption. }
  assert (Hunt : forall b, existsb (fun x => mem x (wb_idx b)) all = false ->
                 forall x, In x all -> ~ In x (wb_idx b)).
  { intros b E x Hx Hi. assert (existsb (fun x => mem x (wb_idx b)) all = true); [|congruence].
    apply existsb_exists. exists x. split; [exact Hx | apply mem_In; exact Hi]. }
  (* pass 2 *)
  destruct (pass2_loop f touched s1) as [Hsame2 [Hids2 [Hok2 [Hmono2 [Hcl2 Htr2]]]]].
  { destruct Hsame1 as [_ [_ [_ [_ [_ [_ [_ [_ [_ [Hd _]]]]]]]]]]. congruence. }
  { apply uniq_NoDup. }
  { rewrite Hids1. exact Hnd. }
  { intros b1 Hb1. destruct (Forall2_In_r _ _ _ _ Hrel1 Hb1) as [b [Hin Hr]].
    rewrite (Htm b b1 Hin Hr), Hcl1.
    destruct (existsb (fun x => mem x (wb_idx b)) all) eqn:E.
    - destruct (Hok1 b1 Hb1) as [[Hd _]|Hp]; [|exact Hp]. exfalso.
      destruct Hr as [[_ [_ [_ R]]] _]. rewrite R in Hd. rewrite Hd in E.
      clear -E. induction all; simpl in E; [discriminate | auto].
    - destruct Hr as [[_ [_ [Rs Ri]]] Hu]. rewrite (Hu (Hunt b E)).
      destruct (Hok b Hin) as [Hd|Hl]; [left; exact Hd|]. right.
      eapply live_ext; [|exact Hl]. intros x Hx.
      symmetry. apply hybrid_notin. intros Hxa. apply (Hunt b E x Hxa).
      destruct Hl as [A _]. rewrite A. exact Hx. }
  set (s2 := fold_left complete_wb touched s1) in *.
  assert (Hsame : wsame s s2) by (eapply wsame_trans; eassumption).
  assert (Hmono : forall i, is_closed s i = true -> is_closed s2 i = true).
  { intros i Hi. unfold is_closed in *. apply Hmono2. rewrite Hcl1. exact Hi. }
  assert (Hclos : forall i, mem i (ss_closed s2) = true ->
                  mem i (ss_closed s) = true \/ In i (map wb_id (ss_wb s))).
  { intros i Hi. destruct (Hcl2 i Hi) as [H|H]; [left; rewrite <- Hcl1; exact H|]. right.
    unfold touched in H. apply (proj1 (uniq_In _ _)) in H. apply in_flat_map in H. destruct H as [x [_ Hx]].
    eapply when_ids_incl. exact Hx. }
  split; [|split; [exact Hsame|split; [exact Hmono|]]].
  - split; [eapply wsame_quiet; eassumption|]. rewrite Hids2, Hids1.
    split; [exact Hnd|]. split; [|split; [|split]].
    + intros b Hin. eapply wb_ok_ext; [|apply Hok2; exact Hin]. intros x _. apply Hfa.
    + intros i Hi. rewrite (wsame_oids _ _ Hsame). destruct Hsame as [Hn _]. rewrite Hn. apply Hsep. exact Hi.
    + intros i Hi. rewrite (wsame_oids _ _ Hsame) in Hi. destruct Hsame as [Hn _]. rewrite Hn. apply Hb. exact Hi.
    + intros i Hi. destruct Hsame as [Hn _]. rewrite Hn. destruct (Hclos i Hi) as [H|H]; [apply Hc; exact H|].
      apply Hsep. exact H.
  - intros b Hin. destruct (Forall2_In_l _ _ _ _ Hrel1 Hin) as [b1 [Hb1 Hr]].
    destruct (Htr2 b1 Hb1) as [b' [Hb' [Hi [Hn [Hs Hst]]]]].
    pose proof Hr as [[R1 [R2 [R3 R4]]] Hu].
    exists b'. split; [exact Hb'|]. split; [congruence|]. split; [congruence|]. split; [congruence|].
    rewrite (Htm b b1 Hin Hr) in Hst. split.
    + intros Hd. pose proof Hd as [Hd1 _]. rewrite Hd1 in Hst.
      assert (E : existsb (fun x : nat => mem x []) all = false) by (clear; induction all; simpl; auto).
      rewrite E in Hst. subst b'. rewrite Hd1 in Hu. rewrite (Hu (fun x _ H => H)).
      eapply dead_cl; [exact Hd|]. intros i0 Hi0. apply Hmono2. rewrite Hcl1. exact Hi0.
    + intros Hl. destruct (existsb (fun x => mem x (wb_idx b)) all) eqn:E.
      * rewrite R2, R3 in Hst. destruct Hst as [[Hl2 Hf]|[Hd2 Hf]].
        -- left. split; [eapply live_ext; [|exact Hl2]; intros x _; apply Hfa|].
           rewrite <- Hf. apply full_ext. intros x _. symmetry. apply Hfa.
        -- right. split; [exact Hd2|]. rewrite <- Hf. apply full_ext. intros x _. symmetry. apply Hfa.
      * subst b'. rewrite (Hu (Hunt b E)).
        assert (Hext : forall x, In x (wb_states b) -> a x = a' x).
        { intros x Hx. rewrite <- Hfa. symmetry. apply hybrid_notin. intros Hxa.
          apply (Hunt b E x Hxa). destruct Hl as [A _]. rewrite A. exact Hx. }
        assert (Hl' : live (ss_closed s2) a' b).
        { eapply live_ext; [exact Hext|]. eapply live_cl; [exact Hl|].
          destruct (mem (wb_id b) (ss_closed s2)) eqn:Em; [|reflexivity].
          destruct (Hcl2 _ Em) as [H|H].
          - rewrite Hcl1 in H. destruct Hl as [_ [_ [_ [D _]]]]. congruence.
          - exfalso. apply mem_In in H. fold touched in H.
            rewrite <- R1 in H. rewrite (Htm b b1 Hin Hr) in H. congruence. }
        left. split; [exact Hl'|]. eapply live_not_full_early. exact Hl'.
Qed.

(* ------------------------------------------------------------ API calls *)

Ltac frame_tac :=
  constructor; unfold oids, is_closed; psimpl;
  [ lia | reflexivity | reflexivity | reflexivity | reflexivity | reflexivity
  | let i := fresh "i" in let H := fresh "H" in
    intros i H; repeat (rewrite map_app in H); repeat (rewrite in_app_iff in H); simpl in H;
    repeat rewrite in_app_iff; intuition (subst; lia)
  | let i := fresh "i" in let H := fresh "H" in intros i H; tauto
  | let i := fresh "i" in let H := fresh "H" in intros i H; exact H
  | let p := fresh "p" in let H := fresh "H" in
    intros p H; try (apply in_app_or in H; simpl in H); intuition (subst; simpl; auto)
  | let x := fresh "x" in let H := fresh "H" in intros x H; simpl; auto
  | reflexivity ].

Lemma sub_time_frame : forall s cl sts times ctx, frame s (fst (sub_time s cl sts times ctx)).
Proof.
  intros s cl sts times ctx. unfold sub_time.
  destruct (reuse_time s sts times ctx); [apply frame_refl|].
  match goal with |- context [if ?c then _ else _] => destruct c end; [apply frame_refl|].
  cbn [fst]. destruct ctx; frame_tac.
Qed.

Definition other_op (o : sop) : bool :=
  match o with
  | OWhen _ _ | OWhenNot _ _ | OCancel _ | ODispose => false
  | _ => true
  end.

Lemma do_op_frame : forall s v o, other_op o = true -> frame s (fst (do_op s v o)).
Proof.
  intros s v o Ho. destruct o; try discriminate; unfold do_op.
  - destruct (ss_disposed s); [apply frame_refl | apply sub_time_frame].
  - destruct (ss_disposed s); [apply frame_refl | apply sub_time_frame].
  - destruct (ss_disposed s); [apply frame_refl | apply sub_time_frame].
  - destruct (ss_disposed s || ctx_done s ctx); [apply frame_refl|]. cbn [fst]. frame_tac.
  - destruct (ss_disposed s || (tick <=? v_qtick v)%N); [apply frame_refl|]. cbn [fst]. frame_tac.
  - destruct (ss_disposed s || negb (v_running v)); [apply frame_refl|]. cbn [fst]. frame_tac.
  - destruct (negb (known v [s0])); [apply frame_refl|].
    destruct (sctx_get (ss_sctx s) s0) as [[id t0]|]; [apply frame_refl|]. cbn [fst]. frame_tac.
  - cbn [fst]. frame_tac.
  - apply frame_refl.
Qed.

Lemma Inv_add_ret : forall a s k r, Inv a s -> Inv a (add_ret s k r).
Proof. intros a s k r H. unfold Inv, quiet, oids, is_closed in *. psimpl. exact H. Qed.

Lemma fold_aset_get : forall (g : nat -> bool) l init x,
  aget (fold_left (fun fl z => aset fl z (g z)) l init) x = if mem x l then g x else aget init x.
Proof.
  intros g. induction l as [|z r IH]; intros init x; simpl; [reflexivity|].
  rewrite IH. cbn [mem existsb]. fold (mem x r). destruct (mem x r); [rewrite orb_true_r; reflexivity|].
  rewrite orb_false_r. destruct (Nat.eqb x z) eqn:E.
  - apply Nat.eqb_eq in E. subst. apply aget_aset_same.
  - apply Nat.eqb_neq in E. apply aget_aset_other. exact E.
Qed.

Lemma NoDup_snoc : forall (l : list nat) x, NoDup l -> ~ In x l -> NoDup (l ++ [x]).
Proof.
  induction l as [|y r IH]; intros x Hnd Hx; simpl.
  - constructor; [tauto | constructor].
  - inversion Hnd as [|? ? Hy Hr]. subst. constructor.
    + intros H. apply in_app_or in H. destruct H as [H|[H|[]]]; [contradiction|]. subst. apply Hx. left. reflexivity.
    + apply IH; [exact Hr|]. intros H. apply Hx. right. exact H.
Qed.

Lemma every_refl : forall l, every l l = true.
Proof. intros l. unfold every. apply forallb_forall. intros x Hx. apply mem_In. exact Hx. Qed.

Lemma set_eqb_refl : forall l, set_eqb l l = true.
Proof. intros l. unfold set_eqb. rewrite every_refl. reflexivity. Qed.

Lemma filter_hd : forall (A : Type) (f : A -> bool) l b r, filter f l = b :: r -> In b l /\ f b = true.
Proof.
  intros A f l b r H. assert (Hin : In b (filter f l)) by (rewrite H; left; reflexivity).
  apply filter_In in Hin. exact Hin.
Qed.

(* Subscriptions.When / WhenNot on duplicate-free known states *)
Lemma sub_when_spec : forall a s v neg sts ctx,
  Inv a s -> NoDup sts -> (forall x, mem x (v_active v) = a x) ->
  let s' := fst (sub_when s v neg sts ctx) in
  let r := snd (sub_when s v neg sts ctx) in
  Inv a s' /\ incl (ss_wb s) (ss_wb s') /\ ss_rets s' = ss_rets s /\
  (forall i, is_closed s i = true -> is_closed s' i = true) /\
  ((full neg a sts = true /\ r = RChan 0 /\ s' = s) \/
   (full neg a sts = false /\ exists b, In b (ss_wb s') /\ r = RChan (wb_id b) /\
      live (ss_closed s') a b /\ wb_neg b = neg /\ set_eqb (wb_states b) sts = true)).
Proof.
  intros a s v neg sts ctx HI Hnd Hcoh. pose proof HI as [Hq [Hndw [Hok [Hsep [Hb Hc]]]]].
  unfold sub_when. cbv zeta.
  pose (is := fun x => mem x (v_active v)).
  assert (Hcond : (if neg then forallb (fun x => negb (mem x (v_active v))) sts
                   else forallb (fun x => mem x (v_active v)) sts) = full neg a sts).
  { transitivity (full neg is sts); [destruct neg; reflexivity|]. apply full_ext. intros y _. apply Hcoh. }
  rewrite Hcond.
  assert (Hcd : ctx_done s ctx = false).
  { unfold ctx_done. destruct ctx; [|reflexivity]. destruct Hq as [Hd _]. rewrite Hd. reflexivity. }
  rewrite Hcd, orb_false_r.
  destruct (full neg a sts) eqn:Ef.
  - cbn [fst snd]. split; [exact HI|]. split; [apply incl_refl|]. split; [reflexivity|]. split; [tauto|].
    left. tauto.
  - destruct (reuse_when s neg sts ctx) as [id|] eqn:Er.
    + (* an existing binding is reused *)
      cbn [fst snd]. split; [exact HI|]. split; [apply incl_refl|]. split; [reflexivity|]. split; [tauto|].
      right. split; [reflexivity|]. unfold reuse_when in Er. destruct sts as [|s0 rest]; [discriminate|].
      match type of Er with context [filter ?f ?l] => destruct (filter f l) as [|b r] eqn:Efl end; [discriminate|].
      inversion Er. subst id. apply filter_hd in Efl. destruct Efl as [Hin Hf].
      repeat rewrite andb_true_iff in Hf. destruct Hf as [[[Hm Hn] Hs] Hx].
      exists b. split; [exact Hin|]. split; [reflexivity|].
      split.
      * destruct (Hok b Hin) as [[Hd _]|Hl]; [|exact Hl]. rewrite Hd in Hm. discriminate.
      * split; [apply eqb_prop; exact Hn | exact Hs].
    + (* a new binding *)
      cbn [fst snd].
      set (id := ss_next s).
      match goal with |- context [set_when s (ss_wb s ++ [?bb]) _ _] => set (b := bb) end.
      assert (Hidfresh : ~ In id (map wb_id (ss_wb s))).
      { intros H. apply Hsep in H. unfold id in H. lia. }
      assert (Hncl : mem id (ss_closed s) = false).
      { destruct (mem id (ss_closed s)) eqn:E; [|reflexivity]. apply Hc in E. unfold id in E. lia. }
      assert (Hlive : live (ss_closed s) a b).
      { unfold live, b. cbn [wb_idx wb_states wb_id wb_total wb_flags wb_matched wb_neg].
        split; [reflexivity|]. split; [exact Hnd|]. split.
        { intros E. subst sts. destruct neg; discriminate. }
        split; [exact Hncl|]. split; [reflexivity|]. split.
        { intros x Hx. rewrite (fold_aset_get is). apply mem_In in Hx. rewrite Hx. apply Hcoh. }
        assert (Hcnt : length (filter (fun x => if neg then negb (mem x (v_active v)) else mem x (v_active v)) sts)
                       = cnt neg a sts).
        { transitivity (cnt neg is sts); [reflexivity|]. apply cnt_ext. intros y _. apply Hcoh. }
        rewrite Hcnt. split; [reflexivity|]. apply cnt_lt_full in Ef. lia. }
      split; [|split; [|split; [|split]]].
      * (* Inv *)
        unfold Inv, quiet, oids, is_closed in *. psimpl.
        split; [exact Hq|]. rewrite map_app. cbn [map]. split; [apply NoDup_snoc; assumption|].
        split; [|split; [|split]].
        -- intros b' Hb'. apply in_app_or in Hb'. destruct Hb' as [Hb'|[Hb'|[]]]; [apply Hok; exact Hb'|].
           subst b'. right. exact Hlive.
        -- intros i Hi. apply in_app_or in Hi. destruct Hi as [Hi|[Hi|[]]].
           ++ destruct (Hsep i Hi). split; [lia | assumption].
           ++ subst i. cbn [wb_id b]. split; [unfold id; lia|]. intros H. apply Hb in H. unfold id in H. lia.
        -- intros i Hi. apply Hb in Hi. lia.
        -- intros i Hi. apply Hc in Hi. lia.
      * psimpl. intros x Hx. apply in_or_app. left. exact Hx.
      * psimpl. reflexivity.
      * unfold is_closed. psimpl. tauto.
      * right. split; [reflexivity|]. exists b. psimpl. split; [apply in_or_app; right; left; reflexivity|].
        split; [reflexivity|]. split; [exact Hlive|]. split; [reflexivity | apply set_eqb_refl].
Qed.

(* ------------------------------------------------------------ steps *)

Definition ev_coh (a : nat -> bool) (e : sevent) : Prop :=
  match e with
  | EOp _ v (OWhen _ _) | EOp _ v (OWhenNot _ _) => forall x, mem x (v_active v) = a x
  | _ => True
  end.

Lemma step_op : forall s k v o, ss_crashed s = false ->
  step s (EOp k v o) = add_ret (fst (do_op s v o)) k (snd (do_op s v o)).
Proof. intros s k v o H. unfold step. rewrite H. destruct (do_op s v o). reflexivity. Qed.

Lemma is_closed_add_ret : forall s k r i, is_closed (add_ret s k r) i = is_closed s i.
Proof. reflexivity. Qed.

(* what a plain API call does to the invariant *)
Lemma do_op_Inv : forall a s v o,
  Inv a s -> plain_ev (EOp 0 v o) = true -> ev_coh a (EOp 0 v o) ->
  Inv a (fst (do_op s v o)) /\ incl (ss_wb s) (ss_wb (fst (do_op s v o))) /\
  ss_rets (fst (do_op s v o)) = ss_rets s /\
  (forall i, is_closed s i = true -> is_closed (fst (do_op s v o)) i = true).
Proof.
  intros a s v o HI Hp Hc.
  assert (Hd : ss_disposed s = false) by apply HI.
  destruct (other_op o) eqn:Eo.
  - pose proof (do_op_frame s v o Eo) as F. split; [eapply Inv_frame; eassumption|].
    destruct F. split; [rewrite fr_wb0; apply incl_refl|]. split; [exact fr_rets0 | exact fr_mono0].
  - destruct o; try discriminate; cbn in Hp; try discriminate.
    + unfold do_op. rewrite Hd. destruct (negb (known v sts)).
      * cbn [fst]. split; [exact HI|]. split; [apply incl_refl|]. split; [reflexivity | tauto].
      * destruct (sub_when_spec a s v false (uniq sts) ctx HI (uniq_NoDup sts) Hc) as [A [B [C [D _]]]].
        tauto.
    + unfold do_op. rewrite Hd. destruct (negb (known v sts)).
      * cbn [fst]. split; [exact HI|]. split; [apply incl_refl|]. split; [reflexivity | tauto].
      * destruct (sub_when_spec a s v true (uniq sts) ctx HI (uniq_NoDup sts) Hc) as [A [B [C [D _]]]].
        tauto.
Qed.

Lemma quiet_crashed : forall a s, Inv a s -> ss_crashed s = false.
Proof. intros a s H. apply H. Qed.

Lemma process_subs_Inv : forall a s act deact before live qt,
  Inv a s ->
  let a' := act_upd a (EProcess act deact before live qt) in
  let s1 := process_when s act deact in
  let s' := process_subs s act deact before live qt in
  Inv a' s' /\ ss_wb s' = ss_wb s1 /\ ss_rets s' = ss_rets s /\
  (forall i, is_closed s1 i = true -> is_closed s' i = true) /\
  (forall i, is_closed s i = true -> is_closed s' i = true).
Proof.
  intros a s act deact before live qt HI a' s1 s'.
  destruct (Inv_process_when a s act deact HI) as [HI1 [Hsame [Hmono _]]].
  fold s1 in HI1, Hsame, Hmono.
  change (act_upd a (EProcess act deact [] [] 0%N)) with a' in HI1.
  assert (Hq1 : quiet s1) by apply HI1.
  pose proof (process_when_time_frame s1 before live Hq1) as F2.
  set (s2 := process_when_time s1 before live) in *.
  pose proof (process_when_queue_frame s2 qt) as F3.
  set (s3 := process_when_queue s2 qt) in *.
  assert (Hq3 : quiet s3).
  { eapply quiet_frame; [|exact F3]. eapply quiet_frame; [exact Hq1 | exact F2]. }
  pose proof (process_when_query_frame s3 live Hq3) as F4.
  assert (F : frame s1 s').
  { eapply frame_trans; [exact F2|]. eapply frame_trans; [exact F3|]. exact F4. }
  split; [eapply Inv_frame; eassumption|]. destruct F.
  split; [exact fr_wb0|]. split.
  - rewrite fr_rets0. apply Hsame.
  - split; [exact fr_mono0|]. intros i Hi. apply fr_mono0. apply Hmono. exact Hi.
Qed.

Lemma step_Inv : forall a s e,
  Inv a s -> plain_ev e = true -> ev_coh a e ->
  Inv (act_upd a e) (step s e) /\
  (forall i, is_closed s i = true -> is_closed (step s e) i = true) /\
  match e with
  | EProcess _ _ _ _ _ => ss_rets (step s e) = ss_rets s
  | EOp k v o => incl (ss_wb s) (ss_wb (step s e)) /\
                 ss_rets (step s e) = (k, snd (do_op s v o)) :: ss_rets s
  | _ => incl (ss_wb s) (ss_wb (step s e)) /\ ss_rets (step s e) = ss_rets s
  end.
Proof.
  intros a s e HI Hp Hc. pose proof (quiet_crashed a s HI) as Hcr.
  destruct e as [k v o|act deact|act deact before live qt| |v p| |qt0].
  - rewrite (step_op s k v o Hcr). cbn [act_upd].
    assert (Hp0 : plain_ev (EOp 0 v o) = true) by exact Hp.
    assert (Hc0 : ev_coh a (EOp 0 v o)) by exact Hc.
    destruct (do_op_Inv a s v o HI Hp0 Hc0) as [A [B [C D]]].
    split; [apply Inv_add_ret; exact A|]. split; [intros i Hi; rewrite is_closed_add_ret; apply D; exact Hi|].
    split; [exact B|]. psimpl. rewrite C. reflexivity.
  - unfold step. rewrite Hcr. cbn [act_upd].
    pose proof (process_state_ctx_frame s act deact (proj1 HI)) as F.
    split; [eapply Inv_frame; eassumption|]. destruct F.
    split; [exact fr_mono0|]. split; [rewrite fr_wb0; apply incl_refl | exact fr_rets0].
  - unfold step. rewrite Hcr.
    destruct (process_subs_Inv a s act deact before live qt HI) as [A [B [C [D E]]]].
    split; [exact A|]. split; [exact E | exact C].
  - unfold step. rewrite Hcr. cbn [act_upd].
    pose proof (process_queue_ends_frame s) as F.
    split; [eapply Inv_frame; eassumption|]. destruct F.
    split; [exact fr_mono0|]. split; [rewrite fr_wb0; apply incl_refl | exact fr_rets0].
  - unfold step. rewrite Hcr. cbn [act_upd]. split; [exact HI|]. split; [tauto|].
    split; [apply incl_refl | reflexivity].
  - unfold step. rewrite Hcr. cbn [act_upd]. split; [exact HI|]. split; [tauto|].
    split; [apply incl_refl | reflexivity].
  - unfold step. rewrite Hcr. cbn [act_upd].
    pose proof (process_when_queue_frame s qt0) as F.
    split; [eapply Inv_frame; eassumption|]. destruct F.
    split; [exact fr_mono0|]. split; [rewrite fr_wb0; apply incl_refl | exact fr_rets0].
Qed.

Lemma coherent_cons : forall a e r, coherent a (e :: r) <-> ev_coh a e /\ coherent (act_upd a e) r.
Proof. intros a e r. cbn [coherent]. unfold ev_coh. tauto. Qed.

Lemma coherent_app : forall l1 l2 a,
  coherent a (l1 ++ l2) <-> coherent a l1 /\ coherent (acts a l1) l2.
Proof.
  induction l1 as [|e r IH]; intros l2 a.
  - cbn. tauto.
  - rewrite <- app_comm_cons. rewrite !coherent_cons. unfold acts. cbn [fold_left].
    fold (acts (act_upd a e) r). rewrite IH. tauto.
Qed.

Lemma run_cons : forall s e r, run s (e :: r) = run (step s e) r.
Proof. reflexivity. Qed.

Lemma run_app : forall s l1 l2, run s (l1 ++ l2) = run (run s l1) l2.
Proof. intros. unfold run. apply fold_left_app. Qed.

Lemma run_Inv : forall es a s,
  Inv a s -> forallb plain_ev es = true -> coherent a es ->
  Inv (acts a es) (run s es) /\ (forall i, is_closed s i = true -> is_closed (run s es) i = true).
Proof.
  induction es as [|e r IH]; intros a s HI Hp Hc.
  - cbn. tauto.
  - cbn [forallb] in Hp. apply andb_true_iff in Hp. destruct Hp as [Hp1 Hp2].
    apply coherent_cons in Hc. destruct Hc as [Hc1 Hc2].
    destruct (step_Inv a s e HI Hp1 Hc1) as [A [B _]].
    rewrite run_cons. unfold acts. cbn [fold_left]. fold (acts (act_upd a e) r).
    destruct (IH (act_upd a e) (step s e) A Hp2 Hc2) as [C D].
    split; [exact C|]. intros i Hi. apply D. apply B. exact Hi.
Qed.

Lemma ret_stable : forall post a s k,
  Inv a s -> forallb plain_ev post = true -> coherent a post -> fresh_k k post ->
  ret_of (ss_rets (run s post)) k = ret_of (ss_rets s) k.
Proof.
  induction post as [|e r IH]; intros a s k HI Hp Hc Hf; [reflexivity|].
  cbn [forallb] in Hp. apply andb_true_iff in Hp. destruct Hp as [Hp1 Hp2].
  apply coherent_cons in Hc. destruct Hc as [Hc1 Hc2].
  destruct (step_Inv a s e HI Hp1 Hc1) as [A [_ B]].
  rewrite run_cons. rewrite (IH (act_upd a e) (step s e) k A Hp2 Hc2).
  - destruct e as [k' v o|ac de|ac de bf lv qt| |v p| |qt0]; cbv beta iota in B.
    + destruct B as [_ B]. rewrite B. cbn [ret_of].
      assert (k <> k'). { intros E. subst. apply (Hf (EOp k' v o)); [left; reflexivity | reflexivity]. }
      apply Nat.eqb_neq in H. rewrite H. reflexivity.
    + destruct B as [_ B]. rewrite B. reflexivity.
    + rewrite B. reflexivity.
    + destruct B as [_ B]. rewrite B. reflexivity.
    + destruct B as [_ B]. rewrite B. reflexivity.
    + destruct B as [_ B]. rewrite B. reflexivity.
    + destruct B as [_ B]. rewrite B. reflexivity.
  - intros e' He'. apply Hf. right. exact He'.
Qed.

(* ------------------------------------------------------------ tracking one binding *)

Lemma P_eqb : forall neg g x, P neg g x = Bool.eqb (g x) (negb neg).
Proof. intros neg g x. unfold P. destruct neg, (g x); reflexivity. Qed.

Lemma full_told : forall neg g sts, full neg g sts = told_cond neg sts g.
Proof.
  intros neg g sts. unfold full, told_cond. induction sts as [|x r IH]; simpl; [reflexivity|].
  rewrite P_eqb, IH. reflexivity.
Qed.

Lemma existsb_ext' : forall (A : Type) (f g : A -> bool) l,
  (forall x, f x = g x) -> existsb f l = existsb g l.
Proof. intros A f g l H. induction l as [|x r IH]; simpl; [reflexivity|]. rewrite H, IH. reflexivity. Qed.

Lemma live_of_ok : forall cl f b, wb_ok cl f b -> wb_idx b <> [] -> live cl f b.
Proof. intros cl f b [[A _]|H] Hn; [contradiction | exact H]. Qed.

Lemma live_idx : forall cl f b, live cl f b -> wb_idx b <> [].
Proof. intros cl f b [A [_ [C _]]]. rewrite A. exact C. Qed.

Lemma live_not_full : forall cl f b, live cl f b -> full (wb_neg b) f (wb_states b) = false.
Proof.
  intros cl f b [_ [_ [_ [_ [E [_ [G I]]]]]]]. apply cnt_lt_full. rewrite G, E in I. lia.
Qed.

Lemma track : forall post a s b,
  Inv a s -> In b (ss_wb s) -> live (ss_closed s) a b ->
  forallb plain_ev post = true -> coherent a post ->
  is_closed (run s post) (wb_id b) = held_later (told_cond (wb_neg b) (wb_states b)) a post.
Proof.
  induction post as [|e r IH]; intros a s b HI Hin Hl Hp Hc.
  - cbn. destruct Hl as [_ [_ [_ [D _]]]]. unfold is_closed. exact D.
  - cbn [forallb] in Hp. apply andb_true_iff in Hp. destruct Hp as [Hp1 Hp2].
    apply coherent_cons in Hc. destruct Hc as [Hc1 Hc2].
    destruct (step_Inv a s e HI Hp1 Hc1) as [A [B C]].
    rewrite run_cons.
    destruct e as [k v o|ac de|ac de bf lv qt| |v p| |qt0].
    3: {
      (* processSubscriptions *)
      cbn [held_later]. set (a' := act_upd a (EProcess ac de bf lv qt)) in *.
      destruct (Inv_process_when a s ac de HI) as [_ [_ [_ Htr]]].
      destruct (Htr b Hin) as [b' [Hb' [Hi [Hn [Hs [_ Hst]]]]]].
      destruct (process_subs_Inv a s ac de bf lv qt HI) as [_ [Hwb [_ [Hm1 _]]]].
      assert (Hstep : step s (EProcess ac de bf lv qt) = process_subs s ac de bf lv qt).
      { unfold step. rewrite (quiet_crashed a s HI). reflexivity. }
      rewrite Hstep in *.
      rewrite <- full_told.
      change (act_upd a (EProcess ac de [] [] 0%N)) with a' in Hst.
      destruct (Hst Hl) as [[Hl1 He]|[Hd1 He]]; rewrite He; cbn [orb].
      - (* still open *)
        assert (Hin' : In b' (ss_wb (process_subs s ac de bf lv qt))) by (rewrite Hwb; exact Hb').
        assert (Hl' : live (ss_closed (process_subs s ac de bf lv qt)) a' b').
        { apply live_of_ok; [apply A; exact Hin' | eapply live_idx; exact Hl1]. }
        pose proof (IH a' _ b' A Hin' Hl' Hp2 Hc2) as I1.
        rewrite Hi, Hn, Hs in I1. exact I1.
      - (* closed by this transition *)
        destruct (run_Inv r a' _ A Hp2 Hc2) as [_ Hm]. apply Hm. apply Hm1.
        destruct Hd1 as [_ Hd1]. rewrite <- Hi. exact Hd1.
    }
    all: cbn [held_later act_upd orb] in *; destruct C as [C _];
      apply IH; try assumption;
      [ apply C; exact Hin
      | apply live_of_ok; [apply A; apply C; exact Hin | eapply live_idx; exact Hl] ].
Qed.

(* ------------------------------------------------------------ the theorems *)

Lemma Inv_init : forall a, Inv a init_sst.
Proof.
  intros a. unfold Inv, quiet, init_sst, oids, is_closed. cbn.
  split; [repeat split; intros; contradiction|].
  split; [constructor|]. split; [intros; contradiction|]. split; [intros; contradiction|].
  split; [intros; contradiction|].
  intros i H. rewrite orb_false_r in H. apply Nat.eqb_eq in H. lia.
Qed.

Lemma forallb_seteq : forall (f : nat -> bool) l l',
  (forall x, In x l <-> In x l') -> forallb f l = forallb f l'.
Proof.
  intros f l l' H. destruct (forallb f l) eqn:E1, (forallb f l') eqn:E2; try reflexivity.
  - rewrite forallb_forall in E1. assert (forallb f l' = true); [|congruence].
    apply forallb_forall. intros x Hx. apply E1. apply H. exact Hx.
  - rewrite forallb_forall in E2. assert (forallb f l = true); [|congruence].
    apply forallb_forall. intros x Hx. apply E2. apply H. exact Hx.
Qed.

Lemma mem_seteq : forall x l l', (forall y, In y l <-> In y l') -> mem x l = mem x l'.
Proof.
  intros x l l' H. destruct (mem x l) eqn:E1, (mem x l') eqn:E2; try reflexivity.
  - apply mem_In in E1. apply H in E1. apply mem_In in E1. congruence.
  - apply mem_In in E2. apply H in E2. apply mem_In in E2. congruence.
Qed.

Lemma set_eqb_In : forall l l', set_eqb l l' = true -> forall x, In x l <-> In x l'.
Proof.
  intros l l' H x. unfold set_eqb, every in H. apply andb_true_iff in H. destruct H as [H1 H2].
  rewrite forallb_forall in H1, H2. split; intros Hx.
  - apply mem_In. apply H2. exact Hx.
  - apply mem_In. apply H1. exact Hx.
Qed.

Lemma told_cond_seteq : forall neg l l' a, (forall x, In x l <-> In x l') ->
  told_cond neg l a = told_cond neg l' a.
Proof. intros. unfold told_cond. apply forallb_seteq. assumption. Qed.

Lemma held_later_ext : forall (c c' : (nat -> bool) -> bool) post a,
  (forall g, c g = c' g) -> held_later c a post = held_later c' a post.
Proof.
  intros c c'. induction post as [|e r IH]; intros a H; [reflexivity|].
  cbn [held_later]. rewrite (IH _ H). destruct e; try reflexivity. rewrite H. reflexivity.
Qed.

Lemma acts_app : forall a l1 l2, acts a (l1 ++ l2) = acts (acts a l1) l2.
Proof. intros. unfold acts. apply fold_left_app. Qed.

(* the state right after a plain When / WhenNot call: either the condition
   holds on the told activity and the shared closed channel is returned, or a
   live binding with the same state set answers for the call *)
Lemma after_subscribe : forall a s k v neg sts ctx,
  Inv a s -> plain_ev (EOp k v (when_op neg sts ctx)) = true ->
  ev_coh a (EOp k v (when_op neg sts ctx)) -> known v sts = true ->
  let s' := step s (EOp k v (when_op neg sts ctx)) in
  Inv a s' /\
  ((told_cond neg sts a = true /\ ret_of (ss_rets s') k = RChan 0) \/
   (told_cond neg sts a = false /\ exists b, In b (ss_wb s') /\ ret_of (ss_rets s') k = RChan (wb_id b) /\
      live (ss_closed s') a b /\ wb_neg b = neg /\ (forall x, In x (wb_states b) <-> In x sts))).
Proof.
  intros a s k v neg sts ctx HI Hp Hc Hk s'.
  assert (HI' : Inv a s').
  { destruct (step_Inv a s _ HI Hp Hc) as [A _]. destruct neg; exact A. }
  split; [exact HI'|].
  subst s'. rewrite (step_op _ _ _ _ (quiet_crashed a s HI)). psimpl. cbn [ret_of]. rewrite Nat.eqb_refl.
  assert (Hd : ss_disposed s = false) by apply HI.
  assert (Hcoh : forall x, mem x (v_active v) = a x) by (destruct neg; exact Hc).
  assert (Hdo : do_op s v (when_op neg sts ctx) = sub_when s v neg (uniq sts) ctx).
  { destruct neg; unfold when_op, do_op; rewrite Hd, Hk; reflexivity. }
  rewrite Hdo.
  destruct (sub_when_spec a s v neg (uniq sts) ctx HI (uniq_NoDup sts) Hcoh) as [_ [_ [_ [_ Hr]]]].
  rewrite full_told in Hr. rewrite (told_cond_seteq neg (uniq sts) sts a (uniq_In sts)) in Hr.
  destruct Hr as [[Hf [Hr _]]|[Hf [b [Hb [Hr [Hl [Hn Hs]]]]]]].
  - left. split; assumption.
  - right. split; [exact Hf|]. exists b. split; [exact Hb|]. split; [exact Hr|].
    split; [exact Hl|]. split; [exact Hn|].
    intros x. rewrite (set_eqb_In _ _ Hs x). apply uniq_In.
Qed.

(* closed <-> the condition held on the told activity when subscribing or at
   the end of some later processed transition (any number of states) *)
Theorem when_iff_lemma : forall a0 pre k v neg sts ctx post,
  let es := pre ++ EOp k v (when_op neg sts ctx) :: post in
  forallb plain_ev es = true -> coherent a0 es -> fresh_k k post -> known v sts = true ->
  let a1 := acts a0 pre in
  closed_of (run init_sst es) k = told_cond neg sts a1 || held_later (told_cond neg sts) a1 post.
Proof.
  intros a0 pre k v neg sts ctx post es Hp Hc Hf Hk a1.
  subst es. rewrite forallb_app in Hp. apply andb_true_iff in Hp. destruct Hp as [Hp1 Hp2].
  cbn [forallb] in Hp2. apply andb_true_iff in Hp2. destruct Hp2 as [Hpe Hp2].
  apply coherent_app in Hc. destruct Hc as [Hc1 Hc2]. fold a1 in Hc2.
  apply coherent_cons in Hc2. destruct Hc2 as [Hce Hc2].
  assert (Ha : act_upd a1 (EOp k v (when_op neg sts ctx)) = a1) by reflexivity.
  rewrite Ha in Hc2.
  destruct (run_Inv pre a0 init_sst (Inv_init a0) Hp1 Hc1) as [HI1 Hm1]. fold a1 in HI1.
  rewrite run_app, run_cons.
  set (s1 := run init_sst pre) in *.
  destruct (after_subscribe a1 s1 k v neg sts ctx HI1 Hpe Hce Hk) as [HI2 Hcase].
  set (s2 := step s1 (EOp k v (when_op neg sts ctx))) in *.
  unfold closed_of. rewrite (ret_stable post a1 s2 k HI2 Hp2 Hc2 Hf).
  destruct Hcase as [[Ht Hr]|[Ht [b [Hb [Hr [Hl [Hn Hs]]]]]]]; rewrite Hr, Ht; cbn [orb].
  - (* the shared closed channel *)
    destruct (run_Inv post a1 s2 HI2 Hp2 Hc2) as [_ Hm]. apply Hm.
    destruct (step_Inv a1 s1 _ HI1 Hpe Hce) as [_ [Hm2 _]]. apply Hm2. apply Hm1. reflexivity.
  - rewrite (track post a1 s2 b HI2 Hb Hl Hp2 Hc2), Hn.
    apply held_later_ext. intros g. apply told_cond_seteq. exact Hs.
Qed.

(* When1 / WhenNot1 *)
Theorem when_single_state_iff_lemma : forall a0 pre k v neg x ctx post,
  let es := pre ++ EOp k v (when_op neg [x] ctx) :: post in
  forallb plain_ev es = true -> coherent a0 es -> fresh_k k post -> known v [x] = true ->
  let a1 := acts a0 pre in
  closed_of (run init_sst es) k
  = Bool.eqb (a1 x) (negb neg) || held_later (fun a' => Bool.eqb (a' x) (negb neg)) a1 post.
Proof.
  intros a0 pre k v neg x ctx post es Hp Hc Hf Hk a1.
  pose proof (when_iff_lemma a0 pre k v neg [x] ctx post Hp Hc Hf Hk) as H.
  cbv zeta in H. fold es a1 in H. rewrite H. unfold told_cond at 1. cbn [forallb]. rewrite andb_true_r.
  f_equal. apply held_later_ext. intros g. unfold told_cond. cbn [forallb]. apply andb_true_r.
Qed.
