(* C13 — proofs over the interleaving model Conc/Dispose.v: any number of
   threads of any kinds, any schedule, any candidate fixes, by induction over
   the schedule with inductive invariants. *)
From Coq Require Import List Bool Arith Lia.
From AMV Require Import Conc.Dispose Spec.C13.
Import ListNotations.

(* ================================================================== *)
(* generic lemmas                                                     *)
(* ================================================================== *)

Lemma upd_nth_split : forall A (l1 l2 : list A) a x,
  upd_nth (l1 ++ a :: l2) (length l1) x = l1 ++ x :: l2.
Proof.
  induction l1 as [|h l1 IH]; simpl; intros; [reflexivity | f_equal; apply IH].
Qed.

Lemma Forall_split3 : forall A (P : A -> Prop) l1 t l2,
  Forall P (l1 ++ t :: l2) <-> Forall P l1 /\ P t /\ Forall P l2.
Proof.
  intros. rewrite Forall_app, Forall_cons_iff. tauto.
Qed.

Lemma filter_len_split : forall A (f : A -> bool) l1 t l2,
  length (filter f (l1 ++ t :: l2)) =
  length (filter f l1) + (if f t then 1 else 0) + length (filter f l2).
Proof.
  intros. rewrite filter_app, app_length. simpl. destruct (f t); simpl; lia.
Qed.

Lemma filter_len0 : forall A (f : A -> bool) l,
  length (filter f l) = 0 -> Forall (fun x => f x = false) l.
Proof.
  induction l as [|x r IH]; simpl; intros H; constructor.
  - destruct (f x); simpl in H; [discriminate | reflexivity].
  - apply IH. destruct (f x); simpl in H; [discriminate | assumption].
Qed.

Lemma filter_all_false : forall A (f : A -> bool) l,
  Forall (fun x => f x = false) l -> length (filter f l) = 0.
Proof.
  induction l as [|x r IH]; simpl; intros H; auto.
  inversion H; subst. rewrite H2. auto.
Qed.

Lemma step_cases : forall fx c i,
  (nth_error (ths c) i = None /\ step fx c i = c) \/
  exists l1 t l2,
    ths c = l1 ++ t :: l2 /\
    step fx c i =
      {| sh := fst (step_thread fx (sh c) t);
         ths := l1 ++ snd (step_thread fx (sh c) t) :: l2 |}.
Proof.
  intros fx c i. unfold step. destruct (nth_error (ths c) i) as [t|] eqn:E.
  - right. apply nth_error_split in E. destruct E as (l1 & l2 & E1 & E2).
    exists l1, t, l2. split; auto.
    destruct (step_thread fx (sh c) t) as [s' t'] eqn:Es. simpl.
    rewrite E1. subst i. rewrite upd_nth_split. reflexivity.
  - left. split; reflexivity.
Qed.

Lemma exec_sched_inv : forall (P : cfg -> Prop) fx,
  (forall c i, P c -> P (step fx c i)) ->
  forall sched c, P c -> P (exec_sched fx c sched).
Proof.
  intros P fx Hstep. unfold exec_sched.
  induction sched as [|i r IH]; simpl; intros c Hc; auto.
Qed.

(* ================================================================== *)
(* calls: what one action of a non-disposer thread can do             *)
(* ================================================================== *)

Definition wpos (t : thread) : nat :=
  match th_pc t with PD1 => 1 | PD2 => 2 | PD3 => 3 | PD4 => 4 | _ => 0 end.

Definition inflight (t : thread) : bool := negb (wpos t =? 0).

(* under which flags a binding of kind k can be registered *)
Definition reg_cond (fx : fixes) (d : dcore) (k : wkind) : Prop :=
  match k with
  | WWhen | WNot | WArgs | WCtx => disposing d = false
  | WTime | WQueue | WQueueEnds => disposed d = false
  | WQuery => fx_recheck fx = true -> disposed d = false
  | WTodo => fx_ctx_closed fx = false
  end.

Definition new_w (d : dcore) (k : wkind) : waiter :=
  {| w_kind := k; w_closed := false; w_stage := phase d |}.

Definition waiters_change (fx : fixes) (d : dcore) (ws ws' : list waiter) : Prop :=
  ws' = ws \/ ws' = close_if is_qe ws \/
  exists k, ws' = ws ++ [new_w d k] /\ reg_cond fx d k.

Ltac split_ifs :=
  repeat match goal with
         | |- context [if ?b then _ else _] => destruct b eqn:?
         end.

Lemma simple_call_waiters : forall fx d r k,
  waiters_change fx d (waiters r) (waiters (fst (simple_call fx d r k))).
Proof.
  intros fx d r k. unfold waiters_change, simple_call, reg.
  destruct k; split_ifs; simpl; auto;
    right; right; eexists; (split; [reflexivity|]); simpl; auto.
  all: try (apply orb_false_iff in Heqb; destruct Heqb; assumption).
Qed.

Lemma api_step_waiters : forall fx d r t,
  waiters_change fx d (waiters r) (waiters (fst (api_step fx d r t))).
Proof.
  intros fx d r t. unfold api_step.
  destruct (th_pc t).
  - (* PStart *)
    destruct (th_kind t);
      try (pose proof (simple_call_waiters fx d r (th_kind t)) as H;
           destruct (simple_call fx d r _) as [r' x] eqn:E; simpl in *; exact H).
    all: try match goal with
      | |- context [simple_call ?fx ?d ?r ?k] =>
        pose proof (simple_call_waiters fx d r k) as H;
        destruct (simple_call fx d r k) as [r' x] eqn:E; simpl in *; exact H
      end.
    all: split_ifs; simpl; left; reflexivity.
  - left; reflexivity.
  - left; reflexivity.
  - left; reflexivity.
  - left; reflexivity.
  - (* PChecked *)
    unfold reg. destruct (locked d); [left; reflexivity|].
    destruct (fx_recheck fx && disposed d) eqn:Er; [left; reflexivity|].
    destruct (th_kind t); split_ifs; simpl; try (left; reflexivity).
    all: right; right; eexists; (split; [reflexivity|]); simpl; auto.
    intros Hf. rewrite Hf in Er. simpl in Er. exact Er.
  - split_ifs; simpl; left; reflexivity.
  - split_ifs; simpl; left; reflexivity.
  - split_ifs; simpl; left; reflexivity.
  - split_ifs; simpl; left; reflexivity.
  - destruct (th_kind t); split_ifs; simpl; left; reflexivity.
  - destruct (th_kind t); split_ifs; simpl; left; reflexivity.
  - simpl; left; reflexivity.
  - split_ifs; simpl; left; reflexivity.
  - simpl; left; reflexivity.
  - split_ifs; simpl; [left; reflexivity | right; left; reflexivity].
  - left; reflexivity.
Qed.

Lemma api_step_wpos : forall fx d r t,
  wpos t = 0 -> wpos (snd (api_step fx d r t)) = 0.
Proof.
  intros fx d r t H. unfold api_step.
  destruct (th_pc t) eqn:Epc.
  - destruct (th_kind t);
      try (destruct (simple_call fx d r _) as [r' x]; reflexivity);
      split_ifs; reflexivity.
  - exact H.
  - exact H.
  - exact H.
  - exact H.
  - unfold reg. destruct (locked d); [exact H|].
    destruct (fx_recheck fx && disposed d); [reflexivity|].
    destruct (th_kind t); split_ifs; reflexivity.
  - destruct (locked d); [exact H | reflexivity].
  - split_ifs; reflexivity.
  - split_ifs; try reflexivity; exact H.
  - split_ifs; reflexivity.
  - destruct (th_kind t); unfold wpos; simpl; split_ifs; reflexivity.
  - destruct (th_kind t); unfold wpos; simpl; split_ifs; reflexivity.
  - unfold wpos. simpl. split_ifs; reflexivity.
  - destruct (locked d); [exact H | reflexivity].
  - reflexivity.
  - destruct (locked d); [exact H | reflexivity].
  - exact H.
Qed.

Lemma api_step_kind : forall fx d r t,
  th_kind (snd (api_step fx d r t)) = th_kind t.
Proof.
  intros fx d r t. unfold api_step.
  destruct (th_pc t).
  - destruct (th_kind t) eqn:Ek;
      try (destruct (simple_call fx d r _) as [r' x]; simpl; congruence);
      split_ifs; simpl; congruence.
  - reflexivity.
  - reflexivity.
  - reflexivity.
  - reflexivity.
  - unfold reg. destruct (locked d); [reflexivity|].
    destruct (fx_recheck fx && disposed d); [reflexivity|].
    destruct (th_kind t) eqn:Ek; split_ifs; simpl; congruence.
  - destruct (locked d); reflexivity.
  - split_ifs; reflexivity.
  - split_ifs; reflexivity.
  - split_ifs; reflexivity.
  - destruct (th_kind t) eqn:Ek; split_ifs; simpl; congruence.
  - destruct (th_kind t) eqn:Ek; split_ifs; simpl; congruence.
  - reflexivity.
  - destruct (locked d); reflexivity.
  - reflexivity.
  - destruct (locked d); reflexivity.
  - reflexivity.
Qed.

(* a call panics only through the unguarded states[0] *)
Lemma simple_call_panic : forall fx d r k,
  snd (simple_call fx d r k) = RPanic -> fx_nil_guard fx = false.
Proof.
  intros fx d r k. unfold simple_call, reg.
  destruct k; split_ifs; simpl; intros H; try discriminate; reflexivity.
Qed.

Lemma keep_panic : forall t x, keep t x = RPanic -> th_res t = RPanic \/ x = RPanic.
Proof.
  intros t x. unfold keep. destruct (th_res t); intros H; auto; discriminate.
Qed.

Lemma eval_res_panic : forall fx d y, eval_res fx d y = RPanic -> fx_err_guard fx = false.
Proof.
  intros fx d y. unfold eval_res.
  assert (Hc : forall a b, a && b && negb (fx_err_guard fx) = true -> fx_err_guard fx = false).
  { intros a b H. apply andb_true_iff in H. destruct H as (_ & H). apply negb_true_iff in H. exact H. }
  destruct y;
    try (destruct (0 <? n_end d); intros H; discriminate);
    (destruct ((0 <? n_prep d) && Nat.eqb (n_end d) 0 && negb (fx_err_guard fx)) eqn:E;
     intros H; [eapply Hc; exact E | discriminate]).
Qed.

Lemma wl_res_panic : forall fx d t x,
  wl_res fx d t x = RPanic -> th_res t = RPanic \/ x = RPanic \/ fx_err_guard fx = false.
Proof.
  intros fx d t x. unfold wl_res.
  destruct (th_kind t); try (intros H; apply keep_panic in H; tauto).
  all: intros H; right; right; eapply eval_res_panic; exact H.
Qed.

Lemma api_step_panic : forall fx d r t,
  th_res (snd (api_step fx d r t)) = RPanic ->
  th_res t = RPanic \/ fx_nil_guard fx = false \/ fx_err_guard fx = false \/ fx_tx_guard fx = false.
Proof.
  intros fx d r t. unfold api_step.
  assert (Hwl : forall x, x <> RPanic -> wl_res fx d t x = RPanic ->
            th_res t = RPanic \/ fx_nil_guard fx = false \/ fx_err_guard fx = false \/ fx_tx_guard fx = false).
  { intros x Hx H. apply wl_res_panic in H. destruct H as [H|[H|H]]; auto. contradiction. }
  destruct (th_pc t).
  - destruct (th_kind t);
      try (pose proof (simple_call_panic fx d r (th_kind t)) as Hs;
           destruct (simple_call fx d r _) as [r' x] eqn:E; simpl in *; intros H; right; left; apply Hs; exact H).
    all: try match goal with
      | |- context [simple_call ?fx ?d ?r ?k] =>
        pose proof (simple_call_panic fx d r k) as Hs;
        destruct (simple_call fx d r k) as [r' x] eqn:E; simpl in *; intros H; right; left; apply Hs; exact H
      end.
    all: split_ifs; simpl; intros H; try discriminate; auto.
  - auto.
  - auto.
  - auto.
  - auto.
  - unfold reg. destruct (locked d); [auto|].
    destruct (fx_recheck fx && disposed d); [simpl; intros H; discriminate|].
    destruct (th_kind t); split_ifs; simpl; intros H; try discriminate; auto.
  - destruct (locked d); simpl; auto.
  - split_ifs; simpl; auto. apply Hwl. discriminate.
  - split_ifs; simpl; auto. apply Hwl. discriminate.
  - split_ifs; simpl; auto.
  - destruct (disposing d); simpl; [apply Hwl; discriminate|].
    destruct (th_kind t); simpl; auto;
      intros H; apply keep_panic in H; destruct H as [H|H]; [auto | discriminate].
  - destruct (th_kind t); simpl; split_ifs; simpl; auto;
      intros H; try discriminate; try (apply keep_panic in H; destruct H as [H|H]; [auto | discriminate]).
    all: match goal with
         | Hc : _ && negb (fx_tx_guard _) = true |- _ =>
           apply andb_true_iff in Hc; destruct Hc as [_ Hn]; apply negb_true_iff in Hn; auto
         end.
  - simpl. intros H. apply keep_panic in H. destruct H as [H|H]; [auto|].
    destruct (disposing d); discriminate.
  - destruct (locked d); simpl; auto.
  - simpl; auto.
  - destruct (locked d); simpl; auto. apply Hwl. discriminate.
  - auto.
Qed.

(* ================================================================== *)
(* (G) the disposal state has one of six shapes and at most one        *)
(*     goroutine is inside doDispose, exactly where the shape says     *)
(* ================================================================== *)

Definition shape (d : dcore) (k : nat) : Prop :=
  disposing d = (1 <=? k) /\ disposed d = (2 <=? k) /\
  n_prep d = (if 3 <=? k then 1 else 0) /\ n_subs d = (if 4 <=? k then 1 else 0) /\
  n_end d = (if 5 <=? k then 1 else 0) /\ Forall (eq (n_subs d)) (hcounts d).

Definition done_ok (k : nat) (t : thread) : Prop :=
  is_disposer (th_kind t) = true -> th_pc t = PDone -> 1 <= k.

Definition invGk (d : dcore) (ts : list thread) (k : nat) : Prop :=
  k <= 5 /\ shape d k /\
  Forall (fun t => wpos t = 0 \/ wpos t = k) ts /\
  length (filter inflight ts) <= 1 /\
  (k = 0 \/ k = 5 \/ exists t, In t ts /\ wpos t = k) /\
  Forall (done_ok k) ts.

Definition invG (c : cfg) : Prop := exists k, invGk (dc (sh c)) (ths c) k.

Lemma inflight_zero : forall t, wpos t = 0 -> inflight t = false.
Proof. intros t H. unfold inflight. rewrite H. reflexivity. Qed.

Lemma inflight_pos : forall t, wpos t <> 0 -> inflight t = true.
Proof.
  intros t H. unfold inflight. destruct (wpos t =? 0) eqn:E; auto.
  apply Nat.eqb_eq in E. contradiction.
Qed.

Lemma not_inflight_zero : forall l, Forall (fun x => inflight x = false) l -> Forall (fun t => wpos t = 0) l.
Proof.
  intros l H. eapply Forall_impl; [|exact H]. intros t Ht. unfold inflight in Ht.
  apply negb_false_iff in Ht. apply Nat.eqb_eq in Ht. exact Ht.
Qed.

(* the thread that moves neither is nor becomes the one inside doDispose *)
Lemma invGk_passive : forall d l1 t t' l2 k,
  invGk d (l1 ++ t :: l2) k -> wpos t = 0 -> wpos t' = 0 -> done_ok k t' ->
  invGk d (l1 ++ t' :: l2) k.
Proof.
  intros d l1 t t' l2 k (Hk & Hsh & Hw & Hfl & Hex & Hdn) H0 H0' Hd.
  apply Forall_split3 in Hw. destruct Hw as (Hw1 & _ & Hw2).
  apply Forall_split3 in Hdn. destruct Hdn as (Hd1 & _ & Hd2).
  rewrite filter_len_split in Hfl. rewrite (inflight_zero t H0) in Hfl.
  refine (conj Hk (conj Hsh (conj _ (conj _ (conj _ _))))).
  - apply Forall_split3. repeat split; auto.
  - rewrite filter_len_split. rewrite (inflight_zero t' H0'). exact Hfl.
  - destruct Hex as [Hex|[Hex|(t0 & Hin & Ht0)]]; auto.
    destruct (Nat.eq_dec k 0) as [Ek|Ek]; auto.
    right; right. exists t0. split; auto.
    apply in_app_or in Hin. apply in_or_app. destruct Hin as [Hin|[Hin|Hin]]; auto.
    + subst t0. congruence.
    + right. right. exact Hin.
  - apply Forall_split3. repeat split; auto.
Qed.

Lemma wpos_or_zero : forall l, Forall (fun t => wpos t = 0 \/ wpos t = 0) l -> Forall (fun t => wpos t = 0) l.
Proof.
  intros l H. eapply Forall_impl; [|exact H]. simpl. intros a [Ha|Ha]; exact Ha.
Qed.

(* the thread inside doDispose advances from stage k to stage k+1 *)
Lemma invGk_advance : forall d d' l1 t t' l2 k,
  invGk d (l1 ++ t :: l2) k ->
  (k = 0 \/ wpos t = k) -> k < 5 ->
  shape d' (S k) ->
  (wpos t' = S k \/ (k = 4 /\ wpos t' = 0)) ->
  invGk d' (l1 ++ t' :: l2) (S k).
Proof.
  intros d d' l1 t t' l2 k (Hk & Hsh & Hw & Hfl & Hex & Hdn) Hkt Hk5 Hsh' Ht'.
  apply Forall_split3 in Hw. destruct Hw as (Hw1 & Hwt & Hw2).
  apply Forall_split3 in Hdn. destruct Hdn as (Hd1 & _ & Hd2).
  rewrite filter_len_split in Hfl.
  assert (Hz : Forall (fun x => wpos x = 0) l1 /\ Forall (fun x => wpos x = 0) l2).
  { destruct Hkt as [Hk0|Hk0].
    - subst k. split; apply wpos_or_zero; assumption.
    - destruct (Nat.eq_dec k 0) as [E0|E0].
      + rewrite E0 in Hw1, Hw2. split; apply wpos_or_zero; assumption.
      + rewrite inflight_pos in Hfl by congruence.
        split; apply not_inflight_zero; apply filter_len0; lia. }
  destruct Hz as (Hz1 & Hz2).
  assert (Hf1 : length (filter inflight l1) = 0).
  { apply filter_all_false. eapply Forall_impl; [|exact Hz1]. intros; apply inflight_zero; auto. }
  assert (Hf2 : length (filter inflight l2) = 0).
  { apply filter_all_false. eapply Forall_impl; [|exact Hz2]. intros; apply inflight_zero; auto. }
  assert (Hk' : S k <= 5) by lia.
  refine (conj Hk' (conj Hsh' (conj _ (conj _ (conj _ _))))).
  - apply Forall_split3. repeat split.
    + eapply Forall_impl; [|exact Hz1]. simpl; auto.
    + destruct Ht' as [Ht'|[_ Ht']]; auto.
    + eapply Forall_impl; [|exact Hz2]. simpl; auto.
  - rewrite filter_len_split, Hf1, Hf2. destruct (inflight t'); simpl; lia.
  - destruct Ht' as [Ht'|[Ht4 Ht']].
    + right; right. exists t'. split; auto. apply in_or_app. right. left. reflexivity.
    + right; left. lia.
  - apply Forall_split3. repeat split.
    + eapply Forall_impl; [|exact Hd1]. unfold done_ok. intros; lia.
    + unfold done_ok. intros; lia.
    + eapply Forall_impl; [|exact Hd2]. unfold done_ok. intros; lia.
Qed.

Lemma shape_leb : forall d k, shape d k ->
  (disposing d = true <-> 1 <= k) /\ (disposed d = true <-> 2 <= k).
Proof.
  intros d k (H1 & H2 & _). rewrite H1, H2. split; apply Nat.leb_le.
Qed.

Lemma Forall_eq_map_S : forall n l, Forall (eq n) l -> Forall (eq (S n)) (map S l).
Proof.
  intros n l H. induction H; simpl; constructor; auto.
Qed.

Lemma invG_step : forall fx c i, invG c -> invG (step fx c i).
Proof.
  intros fx c i (k & HG).
  destruct (step_cases fx c i) as [[_ E]|(l1 & t & l2 & Eths & E)]; rewrite E;
    [exists k; exact HG|].
  clear E. unfold invG. simpl. rewrite Eths in HG.
  pose proof HG as (Hk & Hsh & Hw & Hfl & Hex & Hdn).
  apply Forall_split3 in Hw. destruct Hw as (_ & Hwt & _).
  apply Forall_split3 in Hdn. destruct Hdn as (_ & Hdt & _).
  destruct (shape_leb _ _ Hsh) as (Hl1 & Hl2).
  unfold step_thread. destruct (is_disposer (th_kind t)) eqn:Ed.
  - (* a disposer *)
    unfold disposer_step. destruct (th_pc t) eqn:Epc.
    + (* PStart *)
      destruct (disposed (dc (sh c)) || disposing (dc (sh c))) eqn:Eor; simpl.
      * exists k. eapply invGk_passive; eauto.
        -- unfold wpos; rewrite Epc; reflexivity.
        -- unfold done_ok. intros _ _. apply orb_true_iff in Eor. destruct Eor as [Eo|Eo].
           ++ apply Hl2 in Eo. lia.
           ++ apply Hl1 in Eo. exact Eo.
      * apply orb_false_iff in Eor. destruct Eor as (Eo2 & Eo1).
        assert (k = 0).
        { destruct k; auto. exfalso. assert (disposing (dc (sh c)) = true) by (apply Hl1; lia). congruence. }
        subst k. exists 1. eapply invGk_advance with (1 := HG).
        -- left. reflexivity.
        -- lia.
        -- destruct Hsh as (S1 & S2 & S3 & S4 & S5 & S6). unfold shape. simpl in *. repeat split; auto.
        -- left. reflexivity.
    + (* PD1 *)
      assert (k = 1). { unfold wpos in Hwt; rewrite Epc in Hwt. destruct Hwt; [discriminate | auto]. }
      subst k.
      assert (Ed2 : disposed (dc (sh c)) = false).
      { destruct (disposed (dc (sh c))) eqn:Ex; auto. exfalso.
        assert (2 <= 1) by (apply Hl2; reflexivity). lia. }
      rewrite Ed2. simpl. exists 2. eapply invGk_advance with (1 := HG).
      * right. unfold wpos; rewrite Epc; reflexivity.
      * lia.
      * destruct Hsh as (S1 & S2 & S3 & S4 & S5 & S6). unfold shape. simpl in *. repeat split; auto.
      * left. reflexivity.
    + (* PD2 *)
      assert (k = 2). { unfold wpos in Hwt; rewrite Epc in Hwt. destruct Hwt; [discriminate | auto]. }
      subst k. simpl. exists 3. eapply invGk_advance with (1 := HG).
      * right. unfold wpos; rewrite Epc; reflexivity.
      * lia.
      * destruct Hsh as (S1 & S2 & S3 & S4 & S5 & S6). unfold shape. simpl in *.
        repeat split; auto; try (rewrite S3; reflexivity).
      * left. reflexivity.
    + (* PD3 *)
      assert (k = 3). { unfold wpos in Hwt; rewrite Epc in Hwt. destruct Hwt; [discriminate | auto]. }
      subst k. simpl. exists 4. eapply invGk_advance with (1 := HG).
      * right. unfold wpos; rewrite Epc; reflexivity.
      * lia.
      * destruct Hsh as (S1 & S2 & S3 & S4 & S5 & S6). unfold shape. simpl in *.
        repeat split; auto; try (rewrite S4; reflexivity).
        all: try (rewrite S4; apply Forall_eq_map_S; rewrite <- S4; exact S6).
      * left. reflexivity.
    + (* PD4 *)
      assert (k = 4). { unfold wpos in Hwt; rewrite Epc in Hwt. destruct Hwt; [discriminate | auto]. }
      subst k. simpl. exists 5. eapply invGk_advance with (1 := HG).
      * right. unfold wpos; rewrite Epc; reflexivity.
      * lia.
      * destruct Hsh as (S1 & S2 & S3 & S4 & S5 & S6). unfold shape. simpl in *.
        repeat split; auto; try (rewrite S5; reflexivity).
      * right. split; reflexivity.
    + exists k; exact HG.
    + exists k; exact HG.
    + exists k; exact HG.
    + exists k; exact HG.
    + exists k; exact HG.
    + exists k; exact HG.
    + exists k; exact HG.
    + exists k; exact HG.
    + exists k; exact HG.
    + exists k; exact HG.
    + exists k; exact HG.
    + exists k; exact HG.
  - (* a caller *)
    assert (Hpas : forall p, wpos t = 0 -> p = api_step fx (dc (sh c)) (rs (sh c)) t ->
              exists k0, invGk (dc (fst (lift (sh c) p))) (l1 ++ snd (lift (sh c) p) :: l2) k0).
    { intros p H0 Ep. exists k. simpl. eapply invGk_passive; eauto.
      - subst p. apply api_step_wpos. exact H0.
      - unfold done_ok. subst p. rewrite api_step_kind. rewrite Ed. discriminate. }
    destruct (th_pc t) eqn:Epc; try (exists k; exact HG);
      (apply Hpas; [unfold wpos; rewrite Epc; reflexivity | reflexivity]).
Qed.

Lemma invG_init : forall handlers ndisp kinds, invG (init_cfg handlers ndisp kinds).
Proof.
  intros. exists 0. unfold invGk, init_cfg. simpl.
  assert (Hsh : shape {| disposing := false; disposed := false; n_prep := 0; n_subs := 0;
                         hcounts := repeat 0 ndisp; n_end := 0; locked := false |} 0).
  { unfold shape. simpl. repeat split; auto. induction ndisp; simpl; constructor; auto. }
  refine (conj (Nat.le_0_l 5) (conj Hsh (conj _ (conj _ (conj _ _))))).
  - apply Forall_forall. intros t Hin. apply in_map_iff in Hin. destruct Hin as (x & Hx & _).
    subst t. left. reflexivity.
  - induction kinds; simpl; auto.
  - left. reflexivity.
  - apply Forall_forall. intros t Hin. apply in_map_iff in Hin. destruct Hin as (x & Hx & _).
    subst t. unfold done_ok. simpl. intros _ H. discriminate.
Qed.

Lemma invG_reach : forall fx handlers ndisp kinds sched,
  invG (exec_sched fx (init_cfg handlers ndisp kinds) sched).
Proof.
  intros. apply exec_sched_inv; [intros; apply invG_step; assumption | apply invG_init].
Qed.

(* ================================================================== *)
(* (W) every waiter: closed by subs.dispose() if it was there and is   *)
(*     of a kind dispose() closes; contexts closed by cancel();        *)
(*     registered only at the stages its guard allows                  *)
(* ================================================================== *)

Definition stage_ok (fx : fixes) (w : waiter) : Prop :=
  match w_kind w with
  | WWhen | WNot | WArgs | WCtx => w_stage w = 0
  | WTime | WQueue | WQueueEnds => w_stage w < 2
  | WQuery => fx_recheck fx = true -> w_stage w < 2
  | WTodo => fx_ctx_closed fx = false
  end.

Definition wok (fx : fixes) (d : dcore) (w : waiter) : Prop :=
  (0 < n_subs d -> w_stage w < 4 -> closable fx (w_kind w) = true -> w_closed w = true) /\
  (0 < n_end d -> w_kind w = WCtx -> w_closed w = true) /\
  stage_ok fx w.

Definition invW (fx : fixes) (c : cfg) : Prop :=
  Forall (wok fx (dc (sh c))) (waiters (rs (sh c))).

Lemma phase_shape : forall d k, k <= 5 -> shape d k -> phase d = k.
Proof.
  intros d k Hk (S1 & S2 & S3 & S4 & S5 & _). unfold phase.
  destruct k as [|[|[|[|[|[|k]]]]]]; try lia; simpl in *;
    rewrite ?S1, ?S2, ?S3, ?S4, ?S5; reflexivity.
Qed.

Lemma phase_subs : forall d, 0 < n_subs d -> 4 <= phase d.
Proof.
  intros d H. unfold phase. destruct (0 <? n_end d); [lia|].
  apply Nat.ltb_lt in H. rewrite H. lia.
Qed.

Lemma wok_close : forall fx d w, wok fx d w -> wok fx d (close_w w).
Proof.
  intros fx d w (H1 & H2 & H3). unfold wok, close_w, stage_ok in *. simpl. repeat split; auto.
Qed.

Lemma wok_close_if : forall fx d p ws, Forall (wok fx d) ws -> Forall (wok fx d) (close_if p ws).
Proof.
  intros fx d p ws H. unfold close_if. apply Forall_forall. intros w Hin.
  apply in_map_iff in Hin. destruct Hin as (w0 & E & Hin0).
  rewrite Forall_forall in H. specialize (H w0 Hin0).
  destruct (p (w_kind w0)); subst w; auto. apply wok_close. exact H.
Qed.

Lemma wok_ext : forall fx d d' w,
  n_subs d' = n_subs d -> n_end d' = n_end d -> wok fx d w -> wok fx d' w.
Proof.
  intros fx d d' w E1 E2 (H1 & H2 & H3). unfold wok. rewrite E1, E2. auto.
Qed.

Lemma wok_new : forall fx d k kk,
  k <= 5 -> shape d k -> reg_cond fx d kk -> wok fx d (new_w d kk).
Proof.
  intros fx d k kk Hk Hsh Hreg.
  pose proof (phase_shape d k Hk Hsh) as Hph.
  destruct (shape_leb d k Hsh) as (Hl1 & Hl2).
  destruct Hsh as (S1 & S2 & S3 & S4 & S5 & S6).
  unfold wok, new_w. simpl. split; [|split].
  - intros Hs Hlt. apply phase_subs in Hs. lia.
  - intros He Ek. subst kk. simpl in Hreg. exfalso.
    assert (5 <= k). { destruct (5 <=? k) eqn:E; [apply Nat.leb_le; auto | rewrite S5 in He; lia]. }
    assert (disposing d = true) by (apply Hl1; lia). congruence.
  - unfold stage_ok. simpl. rewrite Hph.
    assert (Hd1 : disposing d = false -> k = 0).
    { intros Hf. destruct k; auto. assert (disposing d = true) by (apply Hl1; lia). congruence. }
    assert (Hd2 : disposed d = false -> k < 2).
    { intros Hf. destruct (le_lt_dec 2 k); auto. assert (disposed d = true) by (apply Hl2; lia). congruence. }
    destruct kk; simpl in *; auto.
Qed.

Lemma waiters_change_ok : forall fx d k ws ws',
  k <= 5 -> shape d k -> waiters_change fx d ws ws' ->
  Forall (wok fx d) ws -> Forall (wok fx d) ws'.
Proof.
  intros fx d k ws ws' Hk Hsh [E|[E|(kk & E & Hreg)]] H; subst ws'; auto.
  - apply wok_close_if. exact H.
  - apply Forall_app. split; auto. constructor; [|constructor].
    eapply wok_new; eauto.
Qed.

Definition invGW (fx : fixes) (c : cfg) : Prop := invG c /\ invW fx c.

Lemma Forall_wok_closed_all : forall fx d d' ws,
  n_subs d' = S (n_subs d) -> n_end d' = n_end d ->
  Forall (wok fx d) ws -> Forall (wok fx d') (close_if (closable fx) ws).
Proof.
  intros fx d d' ws E1 E2 H. unfold close_if. apply Forall_forall. intros w Hin.
  apply in_map_iff in Hin. destruct Hin as (w0 & E & Hin0).
  rewrite Forall_forall in H. destruct (H w0 Hin0) as (H1 & H2 & H3).
  destruct (closable fx (w_kind w0)) eqn:Ec; subst w; unfold wok, close_w, stage_ok in *; simpl;
    rewrite ?E2; repeat split; auto.
  intros _ _ Hc. congruence.
Qed.

Lemma Forall_wok_ctx_closed : forall fx d d' ws,
  n_subs d' = n_subs d ->
  Forall (wok fx d) ws -> Forall (wok fx d') (close_if is_ctx ws).
Proof.
  intros fx d d' ws E1 H. unfold close_if. apply Forall_forall. intros w Hin.
  apply in_map_iff in Hin. destruct Hin as (w0 & E & Hin0).
  rewrite Forall_forall in H. destruct (H w0 Hin0) as (H1 & H2 & H3).
  destruct (is_ctx (w_kind w0)) eqn:Ec; subst w; unfold wok, close_w, stage_ok in *; simpl;
    rewrite ?E1; repeat split; auto.
  intros _ Ek. rewrite Ek in Ec. discriminate.
Qed.

Lemma invGW_step : forall fx c i, invGW fx c -> invGW fx (step fx c i).
Proof.
  intros fx c i (HG & HW). split; [apply invG_step; exact HG|].
  destruct HG as (k & Hk & Hsh & _).
  destruct (step_cases fx c i) as [[_ E]|(l1 & t & l2 & Eths & E)]; rewrite E; [exact HW|].
  clear E. unfold invW in *. simpl.
  unfold step_thread. destruct (is_disposer (th_kind t)).
  - unfold disposer_step. destruct (th_pc t); try exact HW.
    + destruct (disposed (dc (sh c)) || disposing (dc (sh c))); simpl; [exact HW|].
      assert (Hws : forall r0 : rest, waiters (if is_nf (th_kind t) then set_queue r0 (qlen r0) false (qrunning r0) else r0)
                                      = waiters r0).
      { intros r0. destruct (is_nf (th_kind t)); reflexivity. }
      rewrite Hws. eapply Forall_impl; [|exact HW]. intros w. apply wok_ext; reflexivity.
    + destruct (disposed (dc (sh c))); simpl; [exact HW|].
      eapply Forall_impl; [|exact HW]. intros w. apply wok_ext; reflexivity.
    + simpl. apply Forall_wok_closed_all with (d := dc (sh c)); [reflexivity | reflexivity | exact HW].
    + simpl. apply Forall_wok_ctx_closed with (d := dc (sh c)); [reflexivity | exact HW].
  - destruct (th_pc t); try exact HW;
      (simpl; eapply waiters_change_ok; [exact Hk | exact Hsh | apply api_step_waiters | exact HW]).
Qed.

Lemma invGW_init : forall fx handlers ndisp kinds, invGW fx (init_cfg handlers ndisp kinds).
Proof.
  intros. split; [apply invG_init|]. unfold invW, init_cfg. simpl. constructor.
Qed.

Lemma invGW_reach : forall fx handlers ndisp kinds sched,
  invGW fx (exec_sched fx (init_cfg handlers ndisp kinds) sched).
Proof.
  intros. apply exec_sched_inv; [intros; apply invGW_step; assumption | apply invGW_init].
Qed.

(* ================================================================== *)
(* the theorems                                                       *)
(* ================================================================== *)

Section Reach.
Variable fx : fixes.
Variable handlers : bool.
Variable ndisp : nat.
Variable kinds : list kind.
Variable sched : list nat.

Let c := exec_sched fx (init_cfg handlers ndisp kinds) sched.

Lemma reach_shape : exists k, k <= 5 /\ shape (dc (sh c)) k /\
  (k = 0 \/ k = 5 \/ exists t, In t (ths c) /\ wpos t = k) /\ Forall (done_ok k) (ths c).
Proof.
  destruct (invG_reach fx handlers ndisp kinds sched) as (k & Hk & Hsh & _ & _ & Hex & Hdn).
  exists k. auto.
Qed.

Lemma complete_k5 : forall k, k <= 5 -> shape (dc (sh c)) k -> cfg_complete c = true -> k = 5.
Proof.
  intros k Hk (_ & _ & _ & _ & S5 & _) Hc. unfold cfg_complete, complete in Hc.
  apply Nat.ltb_lt in Hc. destruct (5 <=? k) eqn:E; [apply Nat.leb_le in E; lia | rewrite S5 in Hc; lia].
Qed.

Lemma dispose_idempotent_lemma : cfg_stages_once c = true.
Proof.
  destruct reach_shape as (k & Hk & (S1 & S2 & S3 & S4 & S5 & S6) & _).
  unfold cfg_stages_once, stages_once. rewrite S3, S4, S5.
  destruct (3 <=? k), (4 <=? k), (5 <=? k); reflexivity.
Qed.

Lemma handlers_once_lemma : cfg_counts_once c = true.
Proof.
  destruct reach_shape as (k & Hk & Hsh & _).
  pose proof Hsh as (S1 & S2 & S3 & S4 & S5 & S6).
  unfold cfg_counts_once, counts_once. apply andb_true_iff. split.
  - apply forallb_forall. intros n Hn. rewrite Forall_forall in S6. specialize (S6 n Hn).
    subst n. rewrite S4. destruct (4 <=? k); reflexivity.
  - destruct (cfg_complete c) eqn:Ec; simpl; auto.
    assert (k = 5) by (apply complete_k5; auto). subst k.
    apply forallb_forall. intros n Hn. rewrite Forall_forall in S6. specialize (S6 n Hn).
    subst n. rewrite S4. reflexivity.
Qed.

(* when every goroutine has returned and at least one of them called
   Dispose / DisposeForce, the disposal is complete *)
Lemma dispose_completes_lemma :
  (exists t, In t (ths c) /\ is_disposer (th_kind t) = true) ->
  Forall (fun t => th_pc t = PDone) (ths c) ->
  cfg_complete c = true.
Proof.
  intros (t & Hin & Hd) Hall.
  destruct reach_shape as (k & Hk & Hsh & Hex & Hdn).
  rewrite Forall_forall in Hall, Hdn.
  assert (H1 : 1 <= k) by (apply (Hdn t Hin Hd); apply Hall; exact Hin).
  assert (k = 5).
  { destruct Hex as [E|[E|(t0 & Hin0 & Ht0)]]; try lia.
    specialize (Hall t0 Hin0). unfold wpos in Ht0. rewrite Hall in Ht0. lia. }
  subst k. destruct Hsh as (_ & _ & _ & _ & S5 & _).
  unfold cfg_complete, complete. rewrite S5. reflexivity.
Qed.

Lemma reach_waiters : forall w, In w (waiters (rs (sh c))) -> wok fx (dc (sh c)) w.
Proof.
  destruct (invGW_reach fx handlers ndisp kinds sched) as (_ & HW).
  unfold invW in HW. rewrite Forall_forall in HW. exact HW.
Qed.

Lemma complete_counts : cfg_complete c = true -> 0 < n_subs (dc (sh c)) /\ 0 < n_end (dc (sh c)).
Proof.
  intros Hc. destruct reach_shape as (k & Hk & Hsh & _).
  assert (k = 5) by (apply complete_k5; auto). subst k.
  destruct Hsh as (_ & _ & _ & S4 & S5 & _). rewrite S4, S5. simpl. lia.
Qed.

(* whatever was registered before subs.dispose() ran, of a kind it closes *)
Lemma released_early_lemma :
  released_where (early_closable fx) (cfg_complete c) (waiters (rs (sh c))) = true.
Proof.
  unfold released_where. destruct (cfg_complete c) eqn:Ec; simpl; auto.
  destruct (complete_counts Ec) as (Hs & He).
  apply forallb_forall. intros w Hin. destruct (reach_waiters w Hin) as (H1 & _).
  unfold early_closable. destruct (w_stage w <? 4) eqn:E1; simpl; auto.
  destruct (closable fx (w_kind w)) eqn:E2; simpl; auto.
  apply H1; auto. apply Nat.ltb_lt. exact E1.
Qed.

(* every waiter except whenQuery bindings and NewStateCtx's context.TODO(),
   whenever it was registered *)
Lemma all_waiters_released_partial_lemma :
  released_where releasable (cfg_complete c) (waiters (rs (sh c))) = true.
Proof.
  unfold released_where. destruct (cfg_complete c) eqn:Ec; simpl; auto.
  destruct (complete_counts Ec) as (Hs & He).
  apply forallb_forall. intros w Hin. destruct (reach_waiters w Hin) as (H1 & H2 & H3).
  unfold releasable. unfold stage_ok in H3.
  destruct (w_kind w) eqn:Ek; simpl; auto; apply H1; auto; try lia; rewrite Ek; reflexivity.
Qed.

Lemma all_waiters_released_lemma :
  fx_close_query fx = true -> fx_recheck fx = true -> fx_ctx_closed fx = true ->
  cfg_released c = true.
Proof.
  intros F1 F2 F3. unfold cfg_released, released.
  destruct (cfg_complete c) eqn:Ec; simpl; auto.
  destruct (complete_counts Ec) as (Hs & He).
  apply forallb_forall. intros b Hb. apply in_map_iff in Hb. destruct Hb as (w & Eb & Hin). subst b.
  destruct (reach_waiters w Hin) as (H1 & H2 & H3). unfold stage_ok in H3.
  destruct (w_kind w) eqn:Ek; try (apply H1; auto; try lia; rewrite Ek; simpl; auto; fail).
  - apply H1; auto. specialize (H3 F2); lia.
  - congruence.
Qed.

End Reach.

(* ---------------- no panics under the nil guard ---------------- *)

Definition invP (c : cfg) : Prop := Forall (fun t => th_res t <> RPanic) (ths c).

Lemma invP_step : forall fx c i, fx_nil_guard fx = true -> fx_err_guard fx = true -> fx_tx_guard fx = true ->
  invP c -> invP (step fx c i).
Proof.
  intros fx c i Hfx Hfe Hft HP.
  destruct (step_cases fx c i) as [[_ E]|(l1 & t & l2 & Eths & E)]; rewrite E; [exact HP|].
  clear E. unfold invP in *. simpl. rewrite Eths in HP.
  apply Forall_split3 in HP. destruct HP as (H1 & Ht & H2).
  apply Forall_split3. repeat split; auto.
  unfold step_thread. destruct (is_disposer (th_kind t)).
  - unfold disposer_step. destruct (th_pc t); simpl; auto;
      split_ifs; simpl; auto; discriminate.
  - destruct (th_pc t); simpl; auto;
      (intros Hp; apply api_step_panic in Hp; destruct Hp as [Hp|[Hp|[Hp|Hp]]]; [contradiction | congruence | congruence | congruence]).
Qed.

Lemma no_api_panic_lemma : forall fx handlers ndisp kinds sched,
  fx_nil_guard fx = true -> fx_err_guard fx = true -> fx_tx_guard fx = true ->
  cfg_no_panic (exec_sched fx (init_cfg handlers ndisp kinds) sched) = true.
Proof.
  intros fx handlers ndisp kinds sched Hfx Hfe Hft.
  assert (HP : invP (exec_sched fx (init_cfg handlers ndisp kinds) sched)).
  { apply exec_sched_inv; [intros; apply invP_step; assumption|].
    unfold invP, init_cfg. simpl. apply Forall_forall. intros t Hin.
    apply in_map_iff in Hin. destruct Hin as (x & Hx & _). subst t. simpl. discriminate. }
  unfold cfg_no_panic, no_panic. apply forallb_forall. intros x Hx.
  apply in_map_iff in Hx. destruct Hx as (t & Et & Hin). subst x.
  unfold invP in HP. rewrite Forall_forall in HP. specialize (HP t Hin).
  destruct (th_res t); simpl; auto; exfalso; apply HP; reflexivity.
Qed.

(* ---------------- calls on a disposed machine ---------------- *)

Lemma shared_eta : forall s, {| dc := dc s; rs := rs s |} = s.
Proof. destruct s; reflexivity. Qed.

Lemma post_dispose_neutral_lemma : forall fx handlers ndisp kinds sched k,
  let c := exec_sched fx (init_cfg handlers ndisp kinds) sched in
  cfg_complete c = true ->
  (k = KStateCtx -> fx_ctx_closed fx = true) ->
  let p := step_thread fx (sh c) (init_thread k) in
  fst p = sh c /\ th_pc (snd p) = PDone /\ neutral_call k (th_res (snd p)) = true.
Proof.
  intros fx handlers ndisp kinds sched k c Hc Hk p.
  destruct (reach_shape fx handlers ndisp kinds sched) as (n & Hn & Hsh & _).
  fold c in Hsh.
  assert (n = 5) by (eapply complete_k5; eauto). subst n.
  destruct Hsh as (S1 & S2 & _). simpl in S1, S2.
  subst p. unfold step_thread, init_thread. simpl.
  destruct k; simpl; unfold disposer_step, lift, api_step, simple_call; simpl;
    rewrite ?S1, ?S2; simpl; rewrite ?shared_eta; auto.
  rewrite Hk by reflexivity. simpl. rewrite shared_eta. auto.
Qed.

(* ---------------- refutations (witnesses replayed on the real code) ---------------- *)

Definition fx_only_close_query : fixes :=
  {| fx_close_query := true; fx_recheck := false; fx_nil_guard := false;
     fx_ctx_closed := false; fx_ctx_watch := false; fx_err_guard := false;
     fx_tx_guard := false |}.

(* corpus/C13/whenquery_leak.json *)
Lemma whenquery_leak_refuted_lemma : exists handlers ndisp kinds sched,
  let c := exec_sched no_fixes (init_cfg handlers ndisp kinds) sched in
  cfg_complete c = true /\ Forall (fun t => th_pc t = PDone) (ths c) /\ cfg_released c = false.
Proof.
  exists false, 1, [KDisposeNF; KWhenQuery], [1; 1; 0; 0; 0; 0; 0].
  vm_compute. repeat split; auto.
Qed.

(* corpus/C13/whenquery_late_binding.json: even when dispose() closes
   whenQuery bindings *)
Lemma late_binding_leak_refuted_lemma : exists handlers ndisp kinds sched,
  let c := exec_sched fx_only_close_query (init_cfg handlers ndisp kinds) sched in
  cfg_complete c = true /\ Forall (fun t => th_pc t = PDone) (ths c) /\ cfg_released c = false.
Proof.
  exists false, 1, [KDispose; KWhenQuery], [1; 0; 0; 0; 0; 0; 1].
  vm_compute. repeat split; auto.
Qed.

(* corpus/C13/when_disposing_window_panic.json, when_late_after_dispose_panic.json *)
Lemma disposing_window_refuted_lemma : exists handlers ndisp sched,
  cfg_no_panic (exec_sched no_fixes (init_cfg handlers ndisp [KDispose; KWhen]) sched) = false.
Proof.
  exists false, 1, [0; 1; 1]. vm_compute. reflexivity.
Qed.

Lemma late_when_panic_refuted_lemma : exists handlers ndisp kinds sched,
  let c := exec_sched no_fixes (init_cfg handlers ndisp kinds) sched in
  cfg_complete c = true /\ cfg_no_panic c = false.
Proof.
  exists false, 1, [KDispose; KWhen], [1; 0; 0; 0; 0; 0; 1]. vm_compute. auto.
Qed.

(* corpus/C13/statectx_todo_after_dispose.json *)
Lemma statectx_todo_refuted_lemma : exists handlers ndisp kinds sched,
  let c := exec_sched no_fixes (init_cfg handlers ndisp kinds) sched in
  let p := step_thread no_fixes (sh c) (init_thread KStateCtx) in
  cfg_complete c = true /\ neutral_call KStateCtx (th_res (snd p)) = false /\
  released (complete (fst p)) (map w_closed (waiters (rs (fst p)))) = false.
Proof.
  exists false, 0, [KDispose], [0; 0; 0; 0; 0]. vm_compute. auto.
Qed.

(* corpus/C13/eval_send_on_closed_errinternal.json: Eval passed its guards,
   the disposal stands between dispose:subs and dispose:end (errInternal
   closed, machine context not yet cancelled), Eval times out and reports on
   errInternal: send on closed channel *)
Lemma eval_closed_channel_refuted_lemma : exists handlers ndisp sched,
  cfg_no_panic (exec_sched no_fixes (init_cfg handlers ndisp [KDispose; KEval]) sched) = false.
Proof.
  exists false, 1, [1; 0; 0; 0; 1]. vm_compute. reflexivity.
Qed.

(* corpus/C13/add_popped_then_disposed_panic.json (needs the schedule point
   pq:popped): the workload goroutine has shifted the queue, the disposal sets
   `disposed`, newTransition indexes the nil Time *)
Lemma popped_window_refuted_lemma : exists handlers ndisp sched,
  cfg_no_panic (exec_sched no_fixes (init_cfg handlers ndisp [KDispose; KAddP]) sched) = false.
Proof.
  exists false, 1, [1; 1; 1; 1; 1; 1; 0; 0; 1]. vm_compute. reflexivity.
Qed.
