(* C13 — proofs over the interleaving model Conc/Dispose.v: any number of
   threads of any kinds, any schedule, any candidate fixes, by induction over
   the schedule with inductive invariants. *)
From Coq Require Import List Bool Arith Lia.
From AMV Require Import Conc.Dispose Spec.C13.
Import ListNotations.

(* ================================================================== *)
(* generic lemmas                                                     *)
(* ================================================================== *)

Lemma upd_nth_split : forall A (l1 l2 : list A) a x,
  upd_nth (l1 ++ a :: l2) (length l1) x = l1 ++ x :: l2.
Proof.
  induction l1 as [|h l1 IH]; simpl; intros; [reflexivity | f_equal; apply IH].
Qed.

Lemma Forall_split3 : forall A (P : A -> Prop) l1 t l2,
  Forall P (l1 ++ t :: l2) <-> Forall P l1 /\ P t /\ Forall P l2.
Proof.
  intros. rewrite Forall_app, Forall_cons_iff. tauto.
Qed.

Lemma filter_len_split : forall A (f : A -> bool) l1 t l2,
  length (filter f (l1 ++ t :: l2)) =
  length (filter f l1) + (if f t then 1 else 0) + length (filter f l2).
Proof.
  intros. rewrite filter_app, app_length. simpl. destruct (f t); simpl; lia.
Qed.

Lemma filter_len0 : forall A (f : A -> bool) l,
  length (filter f l) = 0 -> Forall (fun x => f x = false) l.
Proof.
  induction l as [|x r IH]; simpl; intros H; constructor.
  - destruct (f x); simpl in H; [discriminate | reflexivity].
  - apply IH. destruct (f x); simpl in H; [discriminate | assumption].
Qed.

Lemma filter_all_false : forall A (f : A -> bool) l,
  Forall (fun x => f x = false) l -> length (filter f l) = 0.
Proof.
  induction l as [|x r IH]; simpl; intros H; auto.
  inversion H; subst. rewrite H2. auto.
Qed.

Lemma step_cases : forall fx c i,
  (nth_error (ths c) i = None /\ step fx c i = c) \/
  exists l1 t l2,
    ths c = l1 ++ t :: l2 /\
    step fx c i =
      {| sh := fst (step_thread fx (sh c) t);
         ths := l1 ++ snd (step_thread fx (sh c) t) :: l2 |}.
Proof.
  intros fx c i. unfold step. destruct (nth_error (ths c) i) as [t|] eqn:E.
  - right. apply nth_error_split in E. destruct E as (l1 & l2 & E1 & E2).
    exists l1, t, l2. split; auto.
    destruct (step_thread fx (sh c) t) as [s' t'] eqn:Es. simpl.
    rewrite E1. subst i. rewrite upd_nth_split. reflexivity.
  - left. split; reflexivity.
Qed.

Lemma exec_sched_inv : forall (P : cfg -> Prop) fx,
  (forall c i, P c -> P (step fx c i)) ->
  forall sched c, P c -> P (exec_sched fx c sched).
Proof.
  intros P fx Hstep. unfold exec_sched.
  induction sched as [|i r IH]; simpl; intros c Hc; auto.
Qed.

(* ================================================================== *)
(* calls: what one action of a non-disposer thread can do             *)
(* ================================================================== *)

Definition wpos (t : thread) : nat :=
  match th_pc t with PD1 => 1 | PD2 => 2 | PD3 => 3 | PD4 => 4 | _ => 0 end.

Definition inflight (t : thread) : bool := negb (wpos t =? 0).

(* under which flags a binding of kind k can be registered *)
Definition reg_cond (fx : fixes) (d : dcore) (k : wkind) : Prop :=
  match k with
  | WWhen | WNot | WArgs | WCtx => disposing d = false
  | WTime | WQueue | WQueueEnds => disposed d = false
  | WQuery => fx_recheck fx = true -> disposed d = false
  | WTodo => fx_ctx_closed fx = false
  end.

Definition new_w (d : dcore) (k : wkind) : waiter :=
  {| w_kind := k; w_closed := false; w_stage := phase d |}.

Definition waiters_change (fx : fixes) (d : dcore) (ws ws' : list waiter) : Prop :=
  ws' = ws \/ ws' = close_if is_qe ws \/
  exists k, ws' = ws ++ [new_w d k] /\ reg_cond fx d k.

Ltac split_ifs :=
  repeat match goal with
         | |- context [if ?b then _ else _] => destruct b eqn:?
         end.

Lemma simple_call_waiters : forall fx d r k,
  waiters_change fx d (waiters r) (waiters (fst (simple_call fx d r k))).
Proof.
  intros fx d r k. unfold waiters_change, simple_call, reg.
  destruct k; split_ifs; simpl; auto;
    right; right; eexists; (split; [reflexivity|]); simpl; auto.
  all: try (apply orb_false_iff in Heqb; destruct Heqb; assumption).
Qed.

Lemma api_step_waiters : forall fx d r t,
  waiters_change fx d (waiters r) (waiters (fst (api_step fx d r t))).
Proof.
  intros fx d r t. unfold api_step.
  destruct (th_pc t).
  - (* PStart *)
    destruct (th_kind t);
      try (pose proof (simple_call_waiters fx d r (th_kind t)) as H;
           destruct (simple_call fx d r _) as [r' x] eqn:E; simpl in *; exact H).
    all: try match goal with
      | |- context [simple_call ?fx ?d ?r ?k] =>
        pose proof (simple_call_waiters fx d r k) as H;
        destruct (simple_call fx d r k) as [r' x] eqn:E; simpl in *; exact H
      end.
    all: split_ifs; simpl; left; reflexivity.
  - left; reflexivity.
  - left; reflexivity.
  - left; reflexivity.
  - left; reflexivity.
  - (* PChecked *)
    unfold reg. destruct (locked d); [left; reflexivity|].
    destruct (fx_recheck fx && disposed d) eqn:Er; [left; reflexivity|].
    destruct (th_kind t); split_ifs; simpl; try (left; reflexivity).
    all: right; right; eexists; (split; [reflexivity|]); simpl; auto.
    intros Hf. rewrite Hf in Er. simpl in Er. exact Er.
  - split_ifs; simpl; left; reflexivity.
  - split_ifs; simpl; left; reflexivity.
  - split_ifs; simpl; left; reflexivity.
  - split_ifs; simpl; left; reflexivity.
  - split_ifs; simpl; left; reflexivity.
  - simpl; left; reflexivity.
  - split_ifs; simpl; left; reflexivity.
  - simpl; left; reflexivity.
  - split_ifs; simpl; [left; reflexivity | right; left; reflexivity].
  - left; reflexivity.
Qed.

Lemma api_step_wpos : forall fx d r t,
  wpos t = 0 -> wpos (snd (api_step fx d r t)) = 0.
Proof.
  intros fx d r t H. unfold api_step.
  destruct (th_pc t) eqn:Epc.
  - destruct (th_kind t);
      try (destruct (simple_call fx d r _) as [r' x]; reflexivity);
      split_ifs; reflexivity.
  - exact H.
  - exact H.
  - exact H.
  - exact H.
  - unfold reg. destruct (locked d); [exact H|].
    destruct (fx_recheck fx && disposed d); [reflexivity|].
    destruct (th_kind t); split_ifs; reflexivity.
  - destruct (locked d); [exact H | reflexivity].
  - split_ifs; reflexivity.
  - split_ifs; try reflexivity; exact H.
  - split_ifs; reflexivity.
  - split_ifs; reflexivity.
  - unfold wpos. simpl. split_ifs; reflexivity.
  - destruct (locked d); [exact H | reflexivity].
  - reflexivity.
  - destruct (locked d); [exact H | reflexivity].
  - exact H.
Qed.

Lemma api_step_kind : forall fx d r t,
  th_kind (snd (api_step fx d r t)) = th_kind t.
Proof.
  intros fx d r t. unfold api_step.
  destruct (th_pc t).
  - destruct (th_kind t) eqn:Ek;
      try (destruct (simple_call fx d r _) as [r' x]; simpl; congruence);
      split_ifs; simpl; congruence.
  - reflexivity.
  - reflexivity.
  - reflexivity.
  - reflexivity.
  - unfold reg. destruct (locked d); [reflexivity|].
    destruct (fx_recheck fx && disposed d); [reflexivity|].
    destruct (th_kind t) eqn:Ek; split_ifs; simpl; congruence.
  - destruct (locked d); reflexivity.
  - split_ifs; reflexivity.
  - split_ifs; reflexivity.
  - split_ifs; reflexivity.
  - split_ifs; reflexivity.
  - reflexivity.
  - destruct (locked d); reflexivity.
  - reflexivity.
  - destruct (locked d); reflexivity.
  - reflexivity.
Qed.

(* a call panics only through the unguarded states[0] *)
Lemma simple_call_panic : forall fx d r k,
  snd (simple_call fx d r k) = RPanic -> fx_nil_guard fx = false.
Proof.
  intros fx d r k. unfold simple_call, reg.
  destruct k; split_ifs; simpl; intros H; try discriminate; reflexivity.
Qed.

Lemma keep_panic : forall t x, keep t x = RPanic -> th_res t = RPanic \/ x = RPanic.
Proof.
  intros t x. unfold keep. destruct (th_res t); intros H; auto; discriminate.
Qed.

Lemma api_step_panic : forall fx d r t,
  th_res (snd (api_step fx d r t)) = RPanic ->
  th_res t = RPanic \/ fx_nil_guard fx = false.
Proof.
  intros fx d r t. unfold api_step.
  destruct (th_pc t).
  - destruct (th_kind t);
      try (pose proof (simple_call_panic fx d r (th_kind t)) as Hs;
           destruct (simple_call fx d r _) as [r' x] eqn:E; simpl in *; intros H; right; apply Hs; exact H).
    all: try match goal with
      | |- context [simple_call ?fx ?d ?r ?k] =>
        pose proof (simple_call_panic fx d r k) as Hs;
        destruct (simple_call fx d r k) as [r' x] eqn:E; simpl in *; intros H; right; apply Hs; exact H
      end.
    all: split_ifs; simpl; intros H; try discriminate; auto.
  - auto.
  - auto.
  - auto.
  - auto.
  - unfold reg. destruct (locked d); [auto|].
    destruct (fx_recheck fx && disposed d); [simpl; intros H; discriminate|].
    destruct (th_kind t); split_ifs; simpl; intros H; try discriminate; auto.
  - destruct (locked d); simpl; auto.
  - split_ifs; simpl; auto. intros H. apply keep_panic in H. destruct H; [auto | discriminate].
  - split_ifs; simpl; auto. intros H. apply keep_panic in H. destruct H; [auto | discriminate].
  - split_ifs; simpl; auto.
  - split_ifs; simpl; auto. intros H; discriminate.
  - simpl. intros H. apply keep_panic in H. destruct H as [H|H]; [auto|].
    destruct (disposing d); discriminate.
  - destruct (locked d); simpl; auto.
  - simpl; auto.
  - destruct (locked d); simpl; auto. intros H. apply keep_panic in H. destruct H; [auto | discriminate].
  - auto.
Qed.

(* ================================================================== *)
(* (G) the disposal state has one of six shapes and at most one        *)
(*     goroutine is inside doDispose, exactly where the shape says     *)
(* ================================================================== *)

Definition shape (d : dcore) (k : nat) : Prop :=
  disposing d = (1 <=? k) /\ disposed d = (2 <=? k) /\
  n_prep d = (if 3 <=? k then 1 else 0) /\ n_subs d = (if 4 <=? k then 1 else 0) /\
  n_end d = (if 5 <=? k then 1 else 0) /\ Forall (eq (n_subs d)) (hcounts d).

Definition done_ok (k : nat) (t : thread) : Prop :=
  is_disposer (th_kind t) = true -> th_pc t = PDone -> 1 <= k.

Definition invGk (d : dcore) (ts : list thread) (k : nat) : Prop :=
  k <= 5 /\ shape d k /\
  Forall (fun t => wpos t = 0 \/ wpos t = k) ts /\
  length (filter inflight ts) <= 1 /\
  (k = 0 \/ k = 5 \/ exists t, In t ts /\ wpos t = k) /\
  Forall (done_ok k) ts.

Definition invG (c : cfg) : Prop := exists k, invGk (dc (sh c)) (ths c) k.

Lemma inflight_zero : forall t, wpos t = 0 -> inflight t = false.
Proof. intros t H. unfold inflight. rewrite H. reflexivity. Qed.

Lemma inflight_pos : forall t, wpos t <> 0 -> inflight t = true.
Proof.
  intros t H. unfold inflight. destruct (wpos t =? 0) eqn:E; auto.
  apply Nat.eqb_eq in E. contradiction.
Qed.

Lemma not_inflight_zero : forall l, Forall (fun x => inflight x = false) l -> Forall (fun t => wpos t = 0) l.
Proof.
  intros l H. eapply Forall_impl; [|exact H]. intros t Ht. unfold inflight in Ht.
  apply negb_false_iff in Ht. apply Nat.eqb_eq in Ht. exact Ht.
Qed.

(* the thread that moves neither is nor becomes the one inside doDispose *)
Lemma invGk_passive : forall d l1 t t' l2 k,
  invGk d (l1 ++ t :: l2) k -> wpos t = 0 -> wpos t' = 0 -> done_ok k t' ->
  invGk d (l1 ++ t' :: l2) k.
Proof.
  intros d l1 t t' l2 k (Hk & Hsh & Hw & Hfl & Hex & Hdn) H0 H0' Hd.
  apply Forall_split3 in Hw. destruct Hw as (Hw1 & _ & Hw2).
  apply Forall_split3 in Hdn. destruct Hdn as (Hd1 & _ & Hd2).
  rewrite filter_len_split in Hfl. rewrite (inflight_zero t H0) in Hfl.
  refine (conj Hk (conj Hsh (conj _ (conj _ (conj _ _))))).
  - apply Forall_split3. repeat split; auto.
  - rewrite filter_len_split. rewrite (inflight_zero t' H0'). exact Hfl.
  - destruct Hex as [Hex|[Hex|(t0 & Hin & Ht0)]]; auto.
    destruct (Nat.eq_dec k 0) as [Ek|Ek]; auto.
    right; right. exists t0. split; auto.
    apply in_app_or in Hin. apply in_or_app. destruct Hin as [Hin|[Hin|Hin]]; auto.
    + subst t0. congruence.
    + right. right. exact Hin.
  - apply Forall_split3. repeat split; auto.
Qed.

Lemma wpos_or_zero : forall l, Forall (fun t => wpos t = 0 \/ wpos t = 0) l -> Forall (fun t => wpos t = 0) l.
Proof.
  intros l H. eapply Forall_impl; [|exact H]. simpl. intros a [Ha|Ha]; exact Ha.
Qed.

(* the thread inside doDispose advances from stage k to stage k+1 *)
Lemma invGk_advance : forall d d' l1 t t' l2 k,
  invGk d (l1 ++ t :: l2) k ->
  (k = 0 \/ wpos t = k) -> k < 5 ->
  shape d' (S k) ->
  (wpos t' = S k \/ (k = 4 /\ wpos t' = 0)) ->
  invGk d' (l1 ++ t' :: l2) (S k).
Proof.
  intros d d' l1 t t' l2 k (Hk & Hsh & Hw & Hfl & Hex & Hdn) Hkt Hk5 Hsh' Ht'.
  apply Forall_split3 in Hw. destruct Hw as (Hw1 & Hwt & Hw2).
  apply Forall_split3 in Hdn. destruct Hdn as (Hd1 & _ & Hd2).
  rewrite filter_len_split in Hfl.
  assert (Hz : Forall (fun x => wpos x = 0) l1 /\ Forall (fun x => wpos x = 0) l2).
  { destruct Hkt as [Hk0|Hk0].
    - subst k. split; apply wpos_or_zero; assumption.
    - destruct (Nat.eq_dec k 0) as [E0|E0].
      + rewrite E0 in Hw1, Hw2. split; apply wpos_or_zero; assumption.
      + rewrite inflight_pos in Hfl by congruence.
        split; apply not_inflight_zero; apply filter_len0; lia. }
  destruct Hz as (Hz1 & Hz2).
  assert (Hf1 : length (filter inflight l1) = 0).
  { apply filter_all_false. eapply Forall_impl; [|exact Hz1]. intros; apply inflight_zero; auto. }
  assert (Hf2 : length (filter inflight l2) = 0).
  { apply filter_all_false. eapply Forall_impl; [|exact Hz2]. intros; apply inflight_zero; auto. }
  assert (Hk' : S k <= 5) by lia.
  refine (conj Hk' (conj Hsh' (conj _ (conj _ (conj _ _))))).
  - apply Forall_split3. repeat split.
    + eapply Forall_impl; [|exact Hz1]. simpl; auto.
    + destruct Ht' as [Ht'|[_ Ht']]; auto.
    + eapply Forall_impl; [|exact Hz2]. simpl; auto.
  - rewrite filter_len_split, Hf1, Hf2. destruct (inflight t'); simpl; lia.
  - destruct Ht' as [Ht'|[Ht4 Ht']].
    + right; right. exists t'. split; auto. apply in_or_app. right. left. reflexivity.
    + right; left. lia.
  - apply Forall_split3. repeat split.
    + eapply Forall_impl; [|exact Hd1]. unfold done_ok. intros; lia.
    + unfold done_ok. intros; lia.
    + eapply Forall_impl; [|exact Hd2]. unfold done_ok. intros; lia.
Qed.

Lemma shape_leb : forall d k, shape d k ->
  (disposing d = true <-> 1 <= k) /\ (disposed d = true <-> 2 <= k).
Proof.
  intros d k (H1 & H2 & _). rewrite H1, H2. split; apply Nat.leb_le.
Qed.

Lemma Forall_eq_map_S : forall n l, Forall (eq n) l -> Forall (eq (S n)) (map S l).
Proof.
  intros n l H. induction H; simpl; constructor; auto.
Qed.

Lemma invG_step : forall fx c i, invG c -> invG (step fx c i).
Proof.
  intros fx c i (k & HG).
  destruct (step_cases fx c i) as [[_ E]|(l1 & t & l2 & Eths & E)]; rewrite E;
    [exists k; exact HG|].
  clear E. unfold invG. simpl. rewrite Eths in HG.
  pose proof HG as (Hk & Hsh & Hw & Hfl & Hex & Hdn).
  apply Forall_split3 in Hw. destruct Hw as (_ & Hwt & _).
  apply Forall_split3 in Hdn. destruct Hdn as (_ & Hdt & _).
  destruct (shape_leb _ _ Hsh) as (Hl1 & Hl2).
  unfold step_thread. destruct (is_disposer (th_kind t)) eqn:Ed.
  - (* a disposer *)
    unfold disposer_step. destruct (th_pc t) eqn:Epc.
    + (* PStart *)
      destruct (disposed (dc (sh c)) || disposing (dc (sh c))) eqn:Eor; simpl.
      * exists k. eapply invGk_passive; eauto.
        -- unfold wpos; rewrite Epc; reflexivity.
        -- unfold done_ok. intros _ _. apply orb_true_iff in Eor. destruct Eor as [Eo|Eo].
           ++ apply Hl2 in Eo. lia.
           ++ apply Hl1 in Eo. exact Eo.
      * apply orb_false_iff in Eor. destruct Eor as (Eo2 & Eo1).
        assert (k = 0).
        { destruct k; auto. exfalso. assert (disposing (dc (sh c)) = true) by (apply Hl1; lia). congruence. }
        subst k. exists 1. eapply invGk_advance with (1 := HG).
        -- left. reflexivity.
        -- lia.
        -- destruct Hsh as (S1 & S2 & S3 & S4 & S5 & S6). unfold shape. simpl in *. repeat split; auto.
        -- left. reflexivity.
    + (* PD1 *)
      assert (k = 1). { unfold wpos in Hwt; rewrite Epc in Hwt. destruct Hwt; [discriminate | auto]. }
      subst k.
      assert (Ed2 : disposed (dc (sh c)) = false).
      { destruct (disposed (dc (sh c))) eqn:Ex; auto. exfalso.
        assert (2 <= 1) by (apply Hl2; reflexivity). lia. }
      rewrite Ed2. simpl. exists 2. eapply invGk_advance with (1 := HG).
      * right. unfold wpos; rewrite Epc; reflexivity.
      * lia.
      * destruct Hsh as (S1 & S2 & S3 & S4 & S5 & S6). unfold shape. simpl in *. repeat split; auto.
      * left. reflexivity.
    + (* PD2 *)
      assert (k = 2). { unfold wpos in Hwt; rewrite Epc in Hwt. destruct Hwt; [discriminate | auto]. }
      subst k. simpl. exists 3. eapply invGk_advance with (1 := HG).
      * right. unfold wpos; rewrite Epc; reflexivity.
      * lia.
      * destruct Hsh as (S1 & S2 & S3 & S4 & S5 & S6). unfold shape. simpl in *.
        repeat split; auto; try (rewrite S3; reflexivity).
      * left. reflexivity.
    + (* PD3 *)
      assert (k = 3). { unfold wpos in Hwt; rewrite Epc in Hwt. destruct Hwt; [discriminate | auto]. }
      subst k. simpl. exists 4. eapply invGk_advance with (1 := HG).
      * right. unfold wpos; rewrite Epc; reflexivity.
      * lia.
      * destruct Hsh as (S1 & S2 & S3 & S4 & S5 & S6). unfold shape. simpl in *.
        repeat split; auto; try (rewrite S4; reflexivity).
        all: try (rewrite S4; apply Forall_eq_map_S; rewrite <- S4; exact S6).
      * left. reflexivity.
    + (* PD4 *)
      assert (k = 4). { unfold wpos in Hwt; rewrite Epc in Hwt. destruct Hwt; [discriminate | auto]. }
      subst k. simpl. exists 5. eapply invGk_advance with (1 := HG).
      * right. unfold wpos; rewrite Epc; reflexivity.
      * lia.
      * destruct Hsh as (S1 & S2 & S3 & S4 & S5 & S6). unfold shape. simpl in *.
        repeat split; auto; try (rewrite S5; reflexivity).
      * right. split; reflexivity.
    + exists k; exact HG.
    + exists k; exact HG.
    + exists k; exact HG.
    + exists k; exact HG.
    + exists k; exact HG.
    + exists k; exact HG.
    + exists k; exact HG.
    + exists k; exact HG.
    + exists k; exact HG.
    + exists k; exact HG.
    + exists k; exact HG.
  - (* a caller *)
    assert (Hpas : forall p, wpos t = 0 -> p = api_step fx (dc (sh c)) (rs (sh c)) t ->
              exists k0, invGk (dc (fst (lift (sh c) p))) (l1 ++ snd (lift (sh c) p) :: l2) k0).
    { intros p H0 Ep. exists k. simpl. eapply invGk_passive; eauto.
      - subst p. apply api_step_wpos. exact H0.
      - unfold done_ok. subst p. rewrite api_step_kind. rewrite Ed. discriminate. }
    destruct (th_pc t) eqn:Epc; try (exists k; exact HG);
      (apply Hpas; [unfold wpos; rewrite Epc; reflexivity | reflexivity]).
Qed.

Lemma invG_init : forall handlers ndisp kinds, invG (init_cfg handlers ndisp kinds).
Proof.
  intros. exists 0. unfold invGk, init_cfg. simpl.
  assert (Hsh : shape {| disposing := false; disposed := false; n_prep := 0; n_subs := 0;
                         hcounts := repeat 0 ndisp; n_end := 0; locked := false |} 0).
  { unfold shape. simpl. repeat split; auto. induction ndisp; simpl; constructor; auto. }
  refine (conj (Nat.le_0_l 5) (conj Hsh (conj _ (conj _ (conj _ _))))).
  - apply Forall_forall. intros t Hin. apply in_map_iff in Hin. destruct Hin as (x & Hx & _).
    subst t. left. reflexivity.
  - induction kinds; simpl; auto.
  - left. reflexivity.
  - apply Forall_forall. intros t Hin. apply in_map_iff in Hin. destruct Hin as (x & Hx & _).
    subst t. unfold done_ok. simpl. intros _ H. discriminate.
Qed.

Lemma invG_reach : forall fx handlers ndisp kinds sched,
  invG (exec_sched fx (init_cfg handlers ndisp kinds) sched).
Proof.
  intros. apply exec_sched_inv; [intros; apply invG_step; assumption | apply invG_init].
Qed.
