(* C20 — proofs about Model/Helpers.v. Statements are repeated in Props/C20.v. *)

From Coq Require Import List NArith ZArith Bool Arith Lia ZifyN ZifyNat ZifyBool.
From AMV Require Import Base.ListSet Model.Helpers Spec.C20.
Import ListNotations.

(* ------------------------------------------------------------------ *)
(* basics                                                               *)

Lemma mem_In : forall x l, mem x l = true <-> In x l.
Proof.
  intros x l. unfold mem. rewrite existsb_exists. split.
  - intros [y [Hy He]]. apply Nat.eqb_eq in He. subst. exact Hy.
  - intros H. exists x. split; [exact H | apply Nat.eqb_refl].
Qed.

Lemma mem_false : forall x l, mem x l = false <-> ~ In x l.
Proof.
  intros x l. rewrite <- mem_In. destruct (mem x l).
  - split; [discriminate | intros H; exfalso; apply H; reflexivity].
  - split; [intros _ H; discriminate | reflexivity].
Qed.

Lemma nodupb_NoDup : forall l, nodupb l = true <-> NoDup l.
Proof.
  induction l as [|x r IH]; simpl.
  - split; [constructor | reflexivity].
  - rewrite andb_true_iff, negb_true_iff, mem_false, IH. split.
    + intros [H1 H2]. constructor; assumption.
    + intros H. inversion H. split; assumption.
Qed.

Lemma every_spec : forall a b, every a b = true <-> (forall x, In x b -> In x a).
Proof.
  intros a b. unfold every. rewrite forallb_forall. split; intros H x Hx.
  - apply mem_In. apply H. exact Hx.
  - apply mem_In. apply H. exact Hx.
Qed.

Lemma list_eqb_refl : forall l, list_eqb l l = true.
Proof. induction l; simpl; [reflexivity|]. rewrite Nat.eqb_refl. exact IHl. Qed.

Lemma list_eqb_eq : forall a b, list_eqb a b = true <-> a = b.
Proof.
  induction a as [|x r IH]; destruct b as [|y s]; simpl; split; intros H; try congruence; try reflexivity.
  - apply andb_true_iff in H. destruct H as [H1 H2]. apply Nat.eqb_eq in H1. apply IH in H2. congruence.
  - inversion H. subst. rewrite Nat.eqb_refl. apply IH. reflexivity.
Qed.

(* ---- uniq *)

Lemma uniq_acc_In : forall l seen x,
  In x (uniq_acc seen l) <-> In x l /\ ~ In x seen.
Proof.
  induction l as [|y r IH]; intros seen x; simpl.
  - tauto.
  - destruct (mem y seen) eqn:E.
    + rewrite IH. apply mem_In in E. split.
      * intros [H1 H2]. tauto.
      * intros [[H1|H1] H2]; [subst; contradiction | tauto].
    + apply mem_false in E. simpl. rewrite IH. simpl. split.
      * intros [H|[H1 H2]]; [subst; tauto | tauto].
      * intros [[H1|H1] H2]; [tauto|].
        destruct (Nat.eq_dec y x); [tauto|]. right. tauto.
Qed.

Lemma uniq_acc_NoDup : forall l seen, NoDup (uniq_acc seen l).
Proof.
  induction l as [|y r IH]; intros seen; simpl.
  - constructor.
  - destruct (mem y seen) eqn:E; [apply IH|].
    constructor; [|apply IH].
    rewrite uniq_acc_In. simpl. tauto.
Qed.

Lemma uniq_In : forall l x, In x (uniq l) <-> In x l.
Proof. intros. unfold uniq. rewrite uniq_acc_In. simpl. tauto. Qed.

Lemma uniq_NoDup : forall l, NoDup (uniq l).
Proof. intros. apply uniq_acc_NoDup. Qed.

Lemma uniq_acc_id : forall l seen,
  NoDup l -> (forall x, In x l -> ~ In x seen) -> uniq_acc seen l = l.
Proof.
  induction l as [|y r IH]; intros seen Hn Hd; simpl; [reflexivity|].
  inversion Hn; subst.
  assert (E : mem y seen = false) by (apply mem_false; apply Hd; left; reflexivity).
  rewrite E. f_equal. apply IH; [assumption|].
  intros x Hx [Hs|Hs]; [subst; contradiction|]. apply (Hd x); [right; exact Hx | exact Hs].
Qed.

Lemma uniq_id : forall l, NoDup l -> uniq l = l.
Proof. intros. apply uniq_acc_id; [assumption | intros; simpl; tauto]. Qed.

(* ------------------------------------------------------------------ *)
(* S.Add / Add1 / SAdd                                                  *)

Lemma In_concat_ex : forall (ls : list sl) x,
  In x (concat ls) <-> exists l, In l ls /\ In x l.
Proof. intros. rewrite in_concat. split; intros [l H]; exists l; tauto. Qed.

Lemma add_ok_uniq : forall s ls, add_ok s ls (uniq (s ++ concat ls)) = true.
Proof.
  intros. unfold add_ok. rewrite !andb_true_iff. repeat split.
  - apply nodupb_NoDup. apply uniq_NoDup.
  - apply every_spec. intros x Hx. apply <- uniq_In. exact Hx.
  - apply every_spec. intros x Hx. apply -> uniq_In in Hx. exact Hx.
Qed.

Lemma add_is_union_nodup_k_lemma : forall s ls,
  add_ok s ls (s_add_k true s ls) = true /\
  NoDup (s_add_k true s ls) /\
  (forall x, In x (s_add_k true s ls) <-> In x s \/ exists l, In l ls /\ In x l) /\
  s_add_k true s ls = uniq (s ++ concat ls).
Proof.
  intros s ls.
  assert (E : s_add_k true s ls = uniq (s ++ concat ls)).
  { unfold s_add_k. destruct ls; [simpl; rewrite app_nil_r|]; reflexivity. }
  rewrite E. repeat split.
  - apply add_ok_uniq.
  - apply uniq_NoDup.
  - intros Hx. apply -> uniq_In in Hx. apply in_app_or in Hx. destruct Hx as [Hx|Hx]; [left; exact Hx|].
    right. apply In_concat_ex. exact Hx.
  - intros Hx. apply <- uniq_In. apply in_or_app. destruct Hx as [Hx|Hx]; [left; exact Hx|].
    right. apply In_concat_ex. exact Hx.
Qed.

(* about today's S.Add (knob add_noargs_uniq) *)
Lemma add_is_union_nodup_lemma : forall s ls,
  add_ok s ls (s_add s ls) = true /\
  NoDup (s_add s ls) /\
  (forall x, In x (s_add s ls) <-> In x s \/ exists l, In l ls /\ In x l) /\
  s_add s ls = uniq (s ++ concat ls).
Proof. exact add_is_union_nodup_k_lemma. Qed.

(* the variant without the fix (S.Add() returned the receiver as is) *)
Lemma add_unfixed_refuted_lemma :
  exists s ls, add_ok s ls (s_add_k false s ls) = false.
Proof. exists [0; 0], []. vm_compute. reflexivity. Qed.

Lemma add1_is_union_nodup_lemma : forall s names,
  add_ok s [names] (s_add1 s names) = true /\ NoDup (s_add1 s names) /\
  (forall x, In x (s_add1 s names) <-> In x s \/ In x names).
Proof.
  intros. unfold s_add1. repeat split.
  - pose proof (add_ok_uniq s [names]) as H. simpl in H. rewrite app_nil_r in H. exact H.
  - apply uniq_NoDup.
  - intros H. apply -> uniq_In in H. apply in_app_or in H. exact H.
  - intros H. apply <- uniq_In. apply in_or_app. exact H.
Qed.

Lemma sadd_is_union_nodup_lemma : forall ls,
  add_ok [] ls (sadd ls) = true /\ NoDup (sadd ls) /\
  (forall x, In x (sadd ls) <-> exists l, In l ls /\ In x l).
Proof.
  intros ls. unfold sadd. destruct ls as [|l r].
  - repeat split; try constructor; simpl; try tauto. intros [l [[] _]].
  - repeat split.
    + apply (add_ok_uniq [] (l :: r)).
    + apply uniq_NoDup.
    + intros H. apply -> uniq_In in H. apply In_concat_ex. exact H.
    + intros H. apply <- uniq_In. apply In_concat_ex. exact H.
Qed.

Lemma uniq_acc_app_absorb : forall a b seen,
  (forall x, In x b -> In x seen \/ In x a) ->
  uniq_acc seen (a ++ b) = uniq_acc seen a.
Proof.
  induction a as [|y r IH]; intros b seen Hb; simpl.
  - induction b as [|z t IHb] in seen, Hb |- *; simpl; [reflexivity|].
    assert (H : In z seen) by (destruct (Hb z); [left; reflexivity | assumption | contradiction]).
    apply mem_In in H. rewrite H. apply IHb. intros x Hx. apply Hb. right. exact Hx.
  - destruct (mem y seen) eqn:E.
    + apply IH. intros x Hx. destruct (Hb x Hx) as [H|[H|H]]; [tauto | subst | tauto].
      left. apply mem_In. exact E.
    + f_equal. apply IH. intros x Hx. destruct (Hb x Hx) as [H|[H|H]]; simpl; tauto.
Qed.

(* adding the same list again changes nothing *)
Lemma add_idempotent_lemma : forall s l,
  s_add (s_add s [l]) [l] = s_add s [l].
Proof.
  intros s l. unfold s_add, s_add_k. simpl. rewrite !app_nil_r.
  unfold uniq at 1. rewrite uniq_acc_app_absorb.
  - apply (uniq_id (uniq (s ++ l))). apply uniq_NoDup.
  - intros x Hx. right. apply <- uniq_In. apply in_or_app. right. exact Hx.
Qed.

(* ------------------------------------------------------------------ *)
(* Sub / Shared / Equal / Unique / Has                                  *)

Lemma sub_In : forall a b x, In x (s_sub a b) <-> In x a /\ ~ In x b.
Proof.
  intros. unfold s_sub, diff. rewrite filter_In, negb_true_iff, mem_false. tauto.
Qed.

Lemma shared_In : forall a b x, In x (s_shared a b) <-> In x a /\ In x b.
Proof. intros. unfold s_shared, shared. rewrite filter_In, mem_In. tauto. Qed.

Lemma mem_iff : forall x l P, (In x l <-> P) -> forall b, (b = true <-> P) -> mem x l = b.
Proof.
  intros x l P H b Hb. destruct (mem x l) eqn:E.
  - apply mem_In in E. symmetry. apply Hb. apply H. exact E.
  - apply mem_false in E. destruct b; [|reflexivity]. exfalso. apply E. apply H. apply Hb. reflexivity.
Qed.

Lemma sub_is_diff_lemma : forall a b,
  sub_ok a b (s_sub a b) = true /\ (forall x, In x (s_sub a b) <-> In x a /\ ~ In x b).
Proof.
  intros a b. split; [|apply sub_In].
  unfold sub_ok. apply forallb_forall. intros x _. apply eqb_true_iff.
  apply mem_iff with (P := In x a /\ ~ In x b); [apply sub_In|].
  rewrite andb_true_iff, negb_true_iff, mem_In, mem_false. tauto.
Qed.

Lemma shared_is_inter_lemma : forall a b,
  shared_ok a b (s_shared a b) = true /\ (forall x, In x (s_shared a b) <-> In x a /\ In x b).
Proof.
  intros a b. split; [|apply shared_In].
  unfold shared_ok. apply forallb_forall. intros x _. apply eqb_true_iff.
  apply mem_iff with (P := In x a /\ In x b); [apply shared_In|].
  rewrite andb_true_iff, !mem_In. tauto.
Qed.

Lemma equal_is_seteq_lemma : forall a b,
  equal_ok a b (s_equal a b) = true /\
  (s_equal a b = true <-> (forall x, In x a <-> In x b)).
Proof.
  intros a b. split.
  - unfold equal_ok, s_equal, set_eqb, every. apply eqb_true_iff. apply andb_comm.
  - unfold s_equal, set_eqb. rewrite andb_true_iff, !every_spec. split.
    + intros [H1 H2] x. split; auto.
    + intros H. split; intros x Hx; apply H; exact Hx.
Qed.

Lemma equal_order_eq_lemma : forall a b, s_equal_order a b = true <-> a = b.
Proof. apply list_eqb_eq. Qed.

Lemma unique_ok_lemma : forall a, unique_ok a (s_unique a) = true /\ NoDup (s_unique a).
Proof.
  intros a. split; [|apply uniq_NoDup]. unfold unique_ok, s_unique.
  rewrite !andb_true_iff. repeat split.
  - apply nodupb_NoDup. apply uniq_NoDup.
  - apply every_spec. intros x H. apply <- uniq_In. exact H.
  - apply every_spec. intros x H. apply -> uniq_In in H. exact H.
Qed.

Lemma has_is_mem_lemma : forall a x, s_has a x = true <-> In x a.
Proof. intros. apply mem_In. Qed.

(* ------------------------------------------------------------------ *)
(* S.Delete / Delete1 / SRem                                            *)

Lemma without_nodup : forall s x, NoDup s ->
  without s x = filter (fun y => negb (Nat.eqb x y)) s.
Proof.
  induction s as [|y r IH]; intros x Hn; simpl; [reflexivity|].
  inversion Hn; subst. destruct (Nat.eqb x y) eqn:E; simpl.
  - apply Nat.eqb_eq in E. subst y.
    symmetry. clear IH Hn H2. induction r as [|z t IHt]; simpl; [reflexivity|].
    destruct (Nat.eqb x z) eqn:E2; simpl.
    + apply Nat.eqb_eq in E2. subst. exfalso. apply H1. left. reflexivity.
    + f_equal. apply IHt. intros H. apply H1. right. exact H.
  - f_equal. apply IH. exact H2.
Qed.

Lemma NoDup_filter : forall (f : nat -> bool) l, NoDup l -> NoDup (filter f l).
Proof.
  intros f l H. induction H; simpl; [constructor|].
  destruct (f x); [|assumption]. constructor; [|assumption].
  rewrite filter_In. tauto.
Qed.

Lemma forallb_filter_id : forall (f : nat -> bool) l, forallb f l = true -> filter f l = l.
Proof.
  induction l as [|x r IH]; simpl; [reflexivity|]. intros H.
  apply andb_true_iff in H. destruct H as [H1 H2]. rewrite H1. f_equal. apply IH. exact H2.
Qed.

Lemma filter_filter : forall (f g : nat -> bool) l,
  filter f (filter g l) = filter (fun x => g x && f x) l.
Proof.
  induction l as [|x r IH]; simpl; [reflexivity|].
  destruct (g x); simpl; [destruct (f x); simpl; rewrite IH; reflexivity | exact IH].
Qed.

Lemma rem_list_nodup : forall l s, NoDup s ->
  rem_list s l = filter (fun y => negb (mem y l)) s.
Proof.
  unfold rem_list. induction l as [|x r IH]; intros s Hn; simpl.
  - symmetry. apply forallb_filter_id. apply forallb_forall. reflexivity.
  - rewrite IH; [|rewrite without_nodup by assumption; apply NoDup_filter; assumption].
    rewrite without_nodup by assumption. rewrite filter_filter.
    apply filter_ext. intros y. rewrite negb_orb. rewrite (Nat.eqb_sym y x). reflexivity.
Qed.

Lemma rem_lists_nodup : forall ls s, NoDup s ->
  fold_left rem_list ls s = filter (fun y => negb (mem y (concat ls))) s.
Proof.
  induction ls as [|l r IH]; intros s Hn; simpl.
  - symmetry. apply forallb_filter_id. apply forallb_forall. reflexivity.
  - rewrite IH; [|rewrite rem_list_nodup by assumption; apply NoDup_filter; assumption].
    rewrite rem_list_nodup by assumption. rewrite filter_filter.
    apply filter_ext. intros y. rewrite <- negb_orb. f_equal.
    unfold mem. rewrite existsb_app. reflexivity.
Qed.

(* the fixed loop (from = 0) removes, on duplicate-free receivers *)
Lemma delete_removes_from0_lemma : forall s ls, NoDup s ->
  delete_ok s ls (s_rem_at 0 s ls) = true.
Proof.
  intros s ls Hn. unfold delete_ok, s_rem_at. apply list_eqb_eq.
  destruct ls as [|l r].
  - simpl. symmetry. apply forallb_filter_id. apply forallb_forall. reflexivity.
  - simpl skipn. apply rem_lists_nodup. exact Hn.
Qed.

Lemma delete_removes_from0_dup_refuted_lemma :
  exists s ls, delete_ok s ls (s_rem_at 0 s ls) = false.
Proof. exists [0; 0], [[0]]. vm_compute. reflexivity. Qed.

(* never loses or invents anything, whatever the start index *)
Lemma without_incl : forall s x y, In y (without s x) -> In y s.
Proof.
  induction s as [|z r IH]; intros x y H; simpl in *; [exact H|].
  destruct (Nat.eqb x z); [right; exact H|].
  destruct H as [H|H]; [left; exact H | right; apply (IH x); exact H].
Qed.

Lemma without_keeps : forall s x y, In y s -> y <> x -> In y (without s x).
Proof.
  induction s as [|z r IH]; intros x y H Hne; simpl in *; [exact H|].
  destruct (Nat.eqb x z) eqn:E.
  - apply Nat.eqb_eq in E. subst z. destruct H as [H|H]; [congruence | exact H].
  - destruct H as [H|H]; [left; exact H | right; apply IH; assumption].
Qed.

Lemma rem_list_incl : forall l s y, In y (rem_list s l) -> In y s.
Proof.
  unfold rem_list. induction l as [|x r IH]; intros s y H; simpl in *; [exact H|].
  apply IH in H. apply without_incl in H. exact H.
Qed.

Lemma rem_list_keeps : forall l s y, In y s -> ~ In y l -> In y (rem_list s l).
Proof.
  unfold rem_list. induction l as [|x r IH]; intros s y H Hn; simpl in *; [exact H|].
  apply IH; [|tauto]. apply without_keeps; [exact H|]. intros E. apply Hn. left. congruence.
Qed.

Lemma s_rem_incl_lemma : forall from s ls y,
  (In y (s_rem_at from s ls) -> In y s) /\
  (In y s -> ~ In y (concat ls) -> In y (s_rem_at from s ls)).
Proof.
  intros from s ls y. unfold s_rem_at. destruct ls as [|l0 r0]; [tauto|].
  assert (G : forall ls s, (In y (fold_left rem_list ls s) -> In y s) /\
              (In y s -> ~ In y (concat ls) -> In y (fold_left rem_list ls s))).
  { induction ls as [|l r IH]; intros s0; simpl; [tauto|].
    destruct (IH (rem_list s0 l)) as [IH1 IH2]. split.
    - intros H. apply IH1 in H. apply rem_list_incl in H. exact H.
    - intros H Hn. apply IH2.
      + apply rem_list_keeps; [exact H|]. intros Hl. apply Hn. apply in_or_app. left. exact Hl.
      + intros Hr. apply Hn. apply in_or_app. right. exact Hr. }
  split.
  - apply G.
  - intros H Hn. apply G; [exact H|]. intros Hc. apply Hn.
    apply In_concat_ex in Hc. destruct Hc as [l [Hl Hy]].
    apply In_concat_ex. exists l. split; [|exact Hy].
    clear - Hl. revert Hl. generalize (l0 :: r0). intros L.
    revert L. induction from as [|k IH]; intros L Hl; [exact Hl|].
    destruct L as [|a L]; simpl in Hl; [contradiction|]. right. apply IH. exact Hl.
Qed.

(* ------------------------------------------------------------------ *)
(* Index / IndexToStates                                                *)

Lemma pos_in_from_spec : forall l k x,
  (pos_in_from k l x = 0 /\ ~ In x l) \/
  (exists j, pos_in_from k l x = S (k + j) /\ nth_error l j = Some x).
Proof.
  induction l as [|y r IH]; intros k x; simpl.
  - left. tauto.
  - destruct (Nat.eqb x y) eqn:E.
    + apply Nat.eqb_eq in E. subst. right. exists 0. split; [f_equal; lia | reflexivity].
    + apply Nat.eqb_neq in E. destruct (IH (S k) x) as [[H1 H2]|[j [H1 H2]]].
      * left. split; [exact H1|]. intros [H|H]; [congruence | contradiction].
      * right. exists (S j). split; [rewrite H1; f_equal; lia | exact H2].
Qed.

Lemma index_of_spec_lemma : forall index x,
  (index_of index x = (-1)%Z /\ ~ In x index) \/
  (exists j, index_of index x = Z.of_nat j /\ nth_error index j = Some x).
Proof.
  intros. unfold index_of, pos_in.
  destruct (pos_in_from_spec index 0 x) as [[H1 H2]|[j [H1 H2]]].
  - left. rewrite H1. tauto.
  - right. exists j. rewrite H1. simpl. tauto.
Qed.

(* ------------------------------------------------------------------ *)
(* ParseStates                                                          *)

Lemma known_dup_inv : forall n states seen,
  NoDup seen -> (forall x, In x seen -> known n x = true) ->
  has_known_dup n seen states = false ->
  NoDup (rev seen ++ filter (known n) states).
Proof.
  intros n. induction states as [|x r IH]; intros seen Hn Hk H; simpl in *.
  - rewrite app_nil_r. apply NoDup_rev. exact Hn.
  - destruct (known n x) eqn:K.
    + destruct (mem x seen) eqn:M; [discriminate|].
      apply mem_false in M.
      specialize (IH (x :: seen)). simpl in IH. rewrite <- app_assoc in IH. simpl in IH.
      apply IH; [constructor; assumption | | exact H].
      intros y [Hy|Hy]; [subst; exact K | apply Hk; exact Hy].
    + apply IH; assumption.
Qed.

Lemma parse_ok_filter : forall n states,
  NoDup (filter (known n) states) ->
  parse_ok n states (filter (known n) states) = true.
Proof.
  intros n states Hn. unfold parse_ok. rewrite !andb_true_iff. repeat split.
  - apply forallb_forall. intros x Hx. apply filter_In in Hx. tauto.
  - apply nodupb_NoDup. exact Hn.
  - apply every_spec. intros x Hx. apply filter_In in Hx. tauto.
  - apply forallb_forall. intros x Hx. destruct (known n x) eqn:K; simpl; [|reflexivity].
    apply mem_In. apply filter_In. tauto.
Qed.

Lemma parse_states_partial_lemma : forall n states,
  has_known_dup n [] states = false ->
  parse_states n states = (false, filter (known n) states) /\
  parse_ok n states (snd (parse_states n states)) = true.
Proof.
  intros n states H. unfold parse_states, parse_states_k. rewrite H. split; [reflexivity|].
  simpl. apply parse_ok_filter.
  apply (known_dup_inv n states []); [constructor | simpl; tauto | exact H].
Qed.

Lemma parse_states_fixed_lemma : forall n states,
  parse_ok n states (snd (parse_states_k true n states)) = true.
Proof.
  intros n states. unfold parse_states_k.
  destruct (has_known_dup n [] states) eqn:H; simpl.
  - unfold parse_ok. rewrite !andb_true_iff. repeat split.
    + apply forallb_forall. intros x Hx. apply -> uniq_In in Hx. apply filter_In in Hx. tauto.
    + apply nodupb_NoDup. apply uniq_NoDup.
    + apply every_spec. intros x Hx. apply -> uniq_In in Hx. apply filter_In in Hx. tauto.
    + apply forallb_forall. intros x Hx. destruct (known n x) eqn:K; simpl; [|reflexivity].
      apply mem_In. apply <- uniq_In. apply filter_In. tauto.
  - apply parse_ok_filter.
    apply (known_dup_inv n states []); [constructor | simpl; tauto | exact H].
Qed.

(* the variant without the fix: unknown names survive next to a duplicate *)
Lemma parse_states_unfixed_refuted_lemma :
  exists n states x, known n x = false /\ In x (snd (parse_states_k false n states)) /\
    parse_ok n states (snd (parse_states_k false n states)) = false.
Proof. exists 2, [0; 0; 5], 5. vm_compute. repeat split. right. left. reflexivity. Qed.

Lemma parse_states_lemma : forall n states,
  parse_ok n states (snd (parse_states n states)) = true.
Proof. exact parse_states_fixed_lemma. Qed.

(* with a duplicate: the unique known names, in the order given *)
Lemma parse_states_dup_lemma : forall n states,
  has_known_dup n [] states = true ->
  parse_states n states = (true, uniq (filter (known n) states)).
Proof. intros. unfold parse_states, parse_states_k. rewrite H. reflexivity. Qed.

Lemma must_parse_lemma : forall n states r,
  must_parse_states n states = Some r ->
  NoDup r /\ (forall x, In x r <-> In x states) /\ forallb (known n) r = true.
Proof.
  intros n states r. unfold must_parse_states.
  destruct (forallb (known n) states) eqn:F; [|discriminate].
  destruct (has_known_dup n [] states) eqn:H; intros E; inversion E; subst.
  - split; [apply uniq_NoDup|]. split; [intros x; apply uniq_In|].
    apply forallb_forall. intros x Hx. apply -> uniq_In in Hx.
    rewrite forallb_forall in F. apply F. exact Hx.
  - split; [|split; [tauto | exact F]].
    pose proof (known_dup_inv n r [] (NoDup_nil _)) as G. simpl in G.
    assert (Hf : filter (known n) r = r).
    { apply forallb_filter_id. exact F. }
    rewrite Hf in G. apply G; [tauto | exact H].
Qed.

(* ------------------------------------------------------------------ *)
(* queue queries                                                        *)

Lemma find_from_sound : forall n q iter i f j t,
  find_from n q i iter = (f, j, t) ->
  (f = true -> exists k m, j = N.of_nat (i + k) /\ nth_error iter k = Some m /\
               qmatch n (qq_check q) q m = true /\ q_tick m = t) /\
  (f = false -> j = 0%N /\ t = 0%N /\ existsb (qmatch n (qq_check q) q) iter = false).
Proof.
  intros n q. induction iter as [|m r IH]; intros i f j t H; simpl in H.
  - inversion H; subst. split; [discriminate|]. tauto.
  - destruct (qmatch n (qq_check q) q m) eqn:E.
    + inversion H; subst. split; [|discriminate]. intros _.
      exists 0, m. rewrite Nat.add_0_r. tauto.
    + apply IH in H. destruct H as [H1 H2]. split.
      * intros Hf. destruct (H1 Hf) as [k [m' [Hj [Hn [Hm Ht]]]]].
        exists (S k), m'. repeat split; try assumption. rewrite Hj. f_equal. lia.
      * intros Hf. destruct (H2 Hf) as [Hj [Ht He]]. simpl. rewrite E, He. tauto.
Qed.

Definition last_branch (la : bool) (n : nat) (queue : list qmut) (q : qquery) :=
  let off := Nat.pred (length queue) in
  match find_from n q 0 (skipn off queue) with
  | (true, i, t) => Some (true, if la then (i + N.of_nat off)%N else i, t)
  | r => Some r
  end.
Definition first_branch (fg : bool) (n : nat) (queue : list qmut) (q : qquery) :=
  match queue with
  | [] => if fg then Some (false, 0%N, 0%N) else None
  | m :: _ => Some (find_from n q 0 [m])
  end.

Lemma is_queued_k_cases : forall fg la n queue q,
  is_queued_k fg la n queue q =
  if N.eqb (qq_pos q) 2 then last_branch la n queue q
  else if N.eqb (qq_pos q) 1 then first_branch fg n queue q
  else Some (find_from n q 0 queue).
Proof.
  intros. unfold is_queued_k, last_branch, first_branch.
  destruct (qq_pos q) as [|[[p|p|]|[p|p|]|]]; reflexivity.
Qed.

Lemma last_branch_some : forall la n queue q, last_branch la n queue q <> None.
Proof.
  intros. unfold last_branch.
  destruct (find_from n q 0 (skipn (Nat.pred (length queue)) queue)) as [[f i] t].
  destruct f; discriminate.
Qed.

Lemma is_queued_total_partial_lemma : forall fg la n queue q,
  (queue <> [] \/ qq_pos q <> 1%N) -> is_queued_k fg la n queue q <> None.
Proof.
  intros fg la n queue q H. rewrite is_queued_k_cases.
  destruct (N.eqb (qq_pos q) 2) eqn:E2; [apply last_branch_some|].
  destruct (N.eqb (qq_pos q) 1) eqn:E1; [|discriminate].
  apply N.eqb_eq in E1. unfold first_branch.
  destruct queue; [|discriminate]. destruct H; congruence.
Qed.

Lemma is_queued_total_fixed_lemma : forall la n queue q, is_queued_k true la n queue q <> None.
Proof.
  intros la n queue q. rewrite is_queued_k_cases.
  destruct (N.eqb (qq_pos q) 2) eqn:E2; [apply last_branch_some|].
  destruct (N.eqb (qq_pos q) 1) eqn:E1; [|discriminate].
  unfold first_branch. destruct queue; discriminate.
Qed.

Lemma is_queued_unfixed_refuted_lemma :
  exists la n q, is_queued_k false la n [] q = None.
Proof. exists false, 1, (mk_qquery 0 [0] false false 0 false 1). reflexivity. Qed.

Lemma is_queued_total_lemma : forall n queue q, is_queued n queue q <> None.
Proof. intros. apply is_queued_total_fixed_lemma. Qed.

Lemma will_be_total_lemma : forall n queue states pos,
  will_be n queue states pos <> None /\ will_be_removed n queue states pos <> None.
Proof.
  intros. unfold will_be, will_be_removed. split.
  - destruct (is_queued n queue (will_query 0 states pos)) as [[[f i] t]|] eqn:E; [discriminate|].
    exfalso. apply (is_queued_total_lemma _ _ _ E).
  - destruct (is_queued n queue (will_query 1 states pos)) as [[[f i] t]|] eqn:E; [discriminate|].
    exfalso. apply (is_queued_total_lemma _ _ _ E).
Qed.

Lemma nth_error_skipn : forall {A} (l : list A) k j,
  nth_error (skipn k l) j = nth_error l (k + j).
Proof.
  intros A l. induction l as [|x r IH]; intros k j.
  - rewrite skipn_nil. destruct j, k; reflexivity.
  - destruct k; simpl; [reflexivity|]. apply IH.
Qed.


(* [iter] is the part of [queue] that starts at offset [off] *)
Lemma find_from_in_queue : forall n q queue iter off i t,
  (forall k m, nth_error iter k = Some m -> nth_error queue (off + k) = Some m) ->
  find_from n q 0 iter = (true, i, t) ->
  is_queued_sound n queue q (VQ true (i + N.of_nat off) t) = true.
Proof.
  intros n q queue iter off i t Hsub Hf. unfold is_queued_sound.
  apply find_from_sound in Hf. destruct Hf as [Hf _].
  destruct (Hf eq_refl) as [k [m [Hj [Hn [Hm Ht]]]]]. simpl in Hj. subst i.
  replace (N.to_nat (N.of_nat k + N.of_nat off)) with (off + k) by lia.
  rewrite (Hsub _ _ Hn), Hm. subst t. rewrite N.eqb_refl. reflexivity.
Qed.

Lemma is_queued_sound_lemma : forall fg la n queue q f i t,
  (qq_pos q <> 2%N \/ la = true) ->
  is_queued_k fg la n queue q = Some (f, i, t) ->
  is_queued_sound n queue q (VQ f i t) = true.
Proof.
  intros fg la n queue q f i t Hp H.
  destruct f; [|reflexivity].
  rewrite is_queued_k_cases in H.
  destruct (N.eqb (qq_pos q) 2) eqn:E2.
  - apply N.eqb_eq in E2. destruct Hp as [Hp|Hp]; [congruence|]. subst la.
    unfold last_branch in H.
    destruct (find_from n q 0 (skipn (Nat.pred (length queue)) queue)) as [[f0 i0] t0] eqn:F.
    destruct f0; inversion H; subst.
    apply (find_from_in_queue n q queue (skipn (Nat.pred (length queue)) queue) (Nat.pred (length queue)) i0 t); [|exact F].
    intros k m Hk. rewrite nth_error_skipn in Hk. exact Hk.
  - destruct (N.eqb (qq_pos q) 1) eqn:E1.
    + unfold first_branch in H. destruct queue as [|m0 r]; [destruct fg; inversion H|].
      inversion H as [H1].
      pose proof (find_from_in_queue n q (m0 :: r) [m0] 0 i t) as G.
      rewrite N.add_0_r in G. apply G; [|exact H1].
      intros k m Hk. destruct k; simpl in *; [exact Hk|]. destruct k; discriminate.
    + inversion H as [H1].
      pose proof (find_from_in_queue n q queue queue 0 i t) as G.
      rewrite N.add_0_r in G. apply G; [|exact H1]. intros k m Hk. exact Hk.
Qed.

Lemma is_queued_last_idx_refuted_lemma :
  exists n queue q f i t, is_queued n queue q = Some (f, i, t) /\
    is_queued_sound n queue q (VQ f i t) = false.
Proof.
  exists 2, [mk_qmut 0 [0] false false 1; mk_qmut 0 [1] false false 2],
    (mk_qquery 0 [1] false false 0 false 2), true, 0%N, 2%N.
  vm_compute. split; reflexivity.
Qed.

Lemma skipn_pred_last : forall {A} (l : list A),
  skipn (Nat.pred (length l)) l = match rev l with [] => [] | m :: _ => [m] end.
Proof.
  intros A l0. induction l0 as [|x l _] using rev_ind; [reflexivity|].
  rewrite rev_app_distr. simpl. rewrite app_length. simpl.
  replace (Nat.pred (length l + 1)) with (length l) by lia.
  rewrite skipn_app. rewrite skipn_all. simpl.
  replace (length l - length l) with 0 by lia. reflexivity.
Qed.

Lemma is_queued_complete_lemma : forall fg la n queue q f i t,
  is_queued_k fg la n queue q = Some (f, i, t) ->
  is_queued_complete n queue q (VQ f i t) = true.
Proof.
  intros fg la n queue q f i t H. unfold is_queued_complete.
  destruct f; [reflexivity|].
  rewrite is_queued_k_cases in H.
  destruct (qq_pos q) as [|[[p|p|]|[p|p|]|]] eqn:P; cbn [N.eqb Pos.eqb] in H;
    try (inversion H as [H1]; apply find_from_sound in H1; destruct H1 as [_ H1];
         destruct (H1 eq_refl) as [_ [_ H2]]; rewrite H2; reflexivity).
  - (* last *)
    unfold last_branch in H. rewrite skipn_pred_last in H.
    destruct (rev queue) as [|m r]; [reflexivity|].
    destruct (find_from n q 0 [m]) as [[f0 i0] t0] eqn:F.
    destruct f0; inversion H; subst.
    apply find_from_sound in F. destruct F as [_ F]. destruct (F eq_refl) as [_ [_ F2]].
    simpl in F2. rewrite orb_false_r in F2. rewrite F2. reflexivity.
  - (* first *)
    unfold first_branch in H. destruct queue as [|m r]; [reflexivity|].
    assert (H1 : find_from n q 0 [m] = (false, i, t)) by congruence.
    apply find_from_sound in H1. destruct H1 as [_ H1].
    destruct (H1 eq_refl) as [_ [_ H2]]. simpl in H2. rewrite orb_false_r in H2.
    rewrite H2. reflexivity.
Qed.

(* IsQueuedAbove with a positive threshold = at least [threshold] matches *)
Lemma queued_above_count : forall n q queue th c,
  (c < th)%Z ->
  queued_above_go n q th c queue =
  (th <=? c + Z.of_nat (length (filter (qmatch n false q) queue)))%Z.
Proof.
  intros n q. induction queue as [|m r IH]; intros th c Hc; simpl.
  - symmetry. apply Z.leb_gt. lia.
  - destruct (qmatch n false q m) eqn:E.
    + destruct (th <=? c + 1)%Z eqn:A.
      * symmetry. apply Z.leb_le. apply Z.leb_le in A. simpl length. lia.
      * apply Z.leb_gt in A. rewrite IH by lia. simpl length. f_equal. lia.
    + apply IH. exact Hc.
Qed.

Lemma is_queued_above_spec_lemma : forall n queue q th,
  (0 < th)%Z ->
  is_queued_above n queue q th =
  (th <=? Z.of_nat (length (filter (qmatch n false q) queue)))%Z.
Proof.
  intros. unfold is_queued_above. rewrite queued_above_count by assumption. reflexivity.
Qed.

Lemma will_be_is_found_lemma : forall n queue states pos,
  will_be n queue states pos =
  match is_queued n queue (will_query 0%N states pos) with
  | None => None | Some (f, _, _) => Some f end.
Proof. reflexivity. Qed.

(* ------------------------------------------------------------------ *)
(* Time                                                                 *)

Open Scope N_scope.

Ltac modlia := unfold wsub, wrap, w64 in *; Z.div_mod_to_equations; lia.

Lemma wrap_lt : forall x, wrap x < w64.
Proof. intros. unfold wrap. apply N.mod_lt. discriminate. Qed.

Lemma wrap_small : forall x, x < w64 -> wrap x = x.
Proof. intros. unfold wrap. apply N.mod_small. assumption. Qed.

Lemma w64_pow : w64 = 2 ^ 64.
Proof. reflexivity. Qed.

Lemma odd_wrap : forall x, N.odd (wrap x) = N.odd x.
Proof.
  intros. unfold wrap. rewrite w64_pow. rewrite <- !N.bit0_odd.
  apply N.mod_pow2_bits_low. reflexivity.
Qed.

Lemma wsub_add : forall x y, x < w64 -> y < w64 -> wsub (wrap (x + y)) x = y.
Proof.
  intros x y Hx Hy. unfold wsub. rewrite (wrap_small x Hx).
  destruct (N.lt_ge_cases (x + y) w64) as [H|H].
  - rewrite (wrap_small _ H). replace (x + y + w64 - x) with (y + 1 * w64) by lia.
    unfold wrap. rewrite N.mod_add by discriminate. apply N.mod_small. exact Hy.
  - assert (E : wrap (x + y) = x + y - w64).
    { unfold wrap. symmetry. apply (N.mod_unique _ _ 1); [unfold w64 in *; lia|]. lia. }
    rewrite E. replace (x + y - w64 + w64 - x) with y by lia. apply wrap_small. exact Hy.
Qed.

Definition addw (x y : N) : N := wrap (x + y).

Lemma map2_comm : forall (f : N -> N -> N), (forall x y, f x y = f y x) ->
  forall a b, map2 f a b = map2 f b a.
Proof.
  intros f Hf. induction a as [|x r IH]; destruct b as [|y s]; simpl; try reflexivity.
  rewrite Hf, IH. reflexivity.
Qed.

Lemma map2_length : forall f a b, length a = length b -> length (map2 f a b) = length a.
Proof.
  induction a as [|x r IH]; destruct b as [|y s]; simpl; intros H; try discriminate; [reflexivity|].
  f_equal. apply IH. lia.
Qed.

Lemma time_add_comm_lemma : forall t t2, length t = length t2 -> time_add t t2 = time_add t2 t.
Proof.
  intros t t2 H. unfold time_add. rewrite H, Nat.eqb_refl.
  apply map2_comm. intros. f_equal. lia.
Qed.

Lemma time_add_mismatch_lemma : forall t t2, length t <> length t2 -> time_add t t2 = t.
Proof.
  intros t t2 H. unfold time_add. apply Nat.eqb_neq in H. rewrite H. reflexivity.
Qed.

Lemma time_add_length_lemma : forall t t2, length (time_add t t2) = length t.
Proof.
  intros. unfold time_add. destruct (Nat.eqb (length t) (length t2)) eqn:E; [|reflexivity].
  apply map2_length. apply Nat.eqb_eq. exact E.
Qed.

Lemma diff_since_add_lemma : forall t d,
  length t = length d -> Forall (fun x => x < w64) t -> Forall (fun x => x < w64) d ->
  diff_since (time_add t d) t = d.
Proof.
  intros t d Hl Ht Hd. unfold diff_since. rewrite time_add_length_lemma, Nat.eqb_refl.
  unfold time_add. rewrite Hl, Nat.eqb_refl. revert d Hl Hd.
  induction Ht as [|x r Hx Hr IH]; intros d Hl Hd; destruct d as [|y s]; simpl in *; try discriminate; [reflexivity|].
  inversion Hd; subst. rewrite wsub_add by assumption. f_equal. apply IH; [lia | assumption].
Qed.

Lemma diff_since_mismatch_lemma : forall t b, length t <> length b ->
  diff_since t b = repeat 0 (length t).
Proof. intros. unfold diff_since. apply Nat.eqb_neq in H. rewrite H. reflexivity. Qed.

Lemma diff_since_self_lemma : forall t, Forall (fun x => x < w64) t -> diff_since t t = repeat 0 (length t).
Proof.
  intros t H. unfold diff_since. rewrite Nat.eqb_refl.
  induction H as [|x r Hx Hr IH]; simpl; [reflexivity|]. f_equal; [|exact IH].
  unfold wsub. rewrite (wrap_small x Hx). replace (x + w64 - x) with (0 + 1 * w64) by lia.
  unfold wrap. rewrite N.mod_add by discriminate. reflexivity.
Qed.

(* Sum over selected indexes = total sum of the filtered time *)
Lemma sum_filter_gen : forall t idxs acc s f,
  acc < w64 ->
  sum_sel t idxs acc = Some s -> time_filter t idxs = Some f ->
  fold_left (fun a x => wrap (a + x)) f acc = s.
Proof.
  intros t. induction idxs as [|i r IH]; intros acc s f Hacc Hs Hf.
  - simpl in *. inversion Hs; inversion Hf; subst. reflexivity.
  - simpl in Hs. unfold time_filter in Hf. simpl in Hf. unfold filter_one in Hf at 1.
    destruct (zlen t <=? i)%Z eqn:E.
    + destruct (opt_map (filter_one t) r) as [f'|] eqn:Ef; [|discriminate].
      inversion Hf; subst. simpl. rewrite N.add_0_r, (wrap_small acc Hacc).
      apply (IH acc s f' Hacc Hs). exact Ef.
    + destruct (get t i) as [v|] eqn:G; [|discriminate].
      destruct (opt_map (filter_one t) r) as [f'|] eqn:Ef; [|discriminate].
      inversion Hf; subst. simpl.
      apply (IH (wrap (acc + v)) s f' (wrap_lt _) Hs). exact Ef.
Qed.

Lemma sum_filter_lemma : forall t idxs s f,
  time_sum t (Some idxs) = Some s -> time_filter t idxs = Some f -> sum_all f = s.
Proof.
  intros t idxs s f Hs Hf. unfold sum_all. apply (sum_filter_gen t idxs 0 s f); try assumption.
  reflexivity.
Qed.

(* Increment *)
Lemma set_nth_length : forall t k v, length (set_nth t k v) = length t.
Proof. induction t as [|x r IH]; intros [|k] v; simpl; try reflexivity. f_equal. apply IH. Qed.

Lemma set_nth_nth : forall t k v j, (k < length t)%nat ->
  nth j (set_nth t k v) 0 = if Nat.eqb j k then v else nth j t 0.
Proof.
  induction t as [|x r IH]; intros k v j Hk; simpl in Hk; [lia|].
  destruct k, j; simpl; try reflexivity. apply IH. lia.
Qed.

Lemma get_in_range : forall t i, idx_in (length t) i = true ->
  get t i = Some (nth (Z.to_nat i) t 0).
Proof.
  intros t i H. unfold idx_in in H. unfold get.
  assert (E : (i <? 0)%Z = false) by lia. rewrite E.
  apply nth_error_nth'. lia.
Qed.

Lemma increment_one_slot_lemma : forall t i, idx_in (length t) i = true ->
  exists t', increment t i = Some t' /\ length t' = length t /\
    forall j, nth j t' 0 = if Nat.eqb j (Z.to_nat i) then wrap (nth j t 0 + 1) else nth j t 0.
Proof.
  intros t i H. unfold increment, zlen.
  assert (E : (i <? Z.of_nat (length t))%Z = true) by (unfold idx_in in H; lia).
  rewrite E, (get_in_range t i H).
  eexists. split; [reflexivity|]. split; [apply set_nth_length|].
  intros j. rewrite set_nth_nth by (unfold idx_in in H; lia).
  destruct (Nat.eqb j (Z.to_nat i)) eqn:J; [|reflexivity].
  apply Nat.eqb_eq in J. subst j. reflexivity.
Qed.

Lemma increment_beyond_lemma : forall t i, (Z.of_nat (length t) <= i)%Z -> increment t i = Some t.
Proof.
  intros t i H. unfold increment, zlen.
  assert (E : (i <? Z.of_nat (length t))%Z = false) by lia. rewrite E. reflexivity.
Qed.

(* one tick flips activity, also across the uint64 wrap *)
Lemma tick_flips_parity_lemma : forall v, is_active_tick (wrap (v + 1)) = negb (is_active_tick v).
Proof.
  intros. unfold is_active_tick. rewrite odd_wrap.
  replace (v + 1) with (N.succ v) by lia. rewrite N.odd_succ. rewrite <- N.negb_odd. reflexivity.
Qed.

Lemma next_active_is_active_lemma : forall t,
  is_active_tick (next_active t) = true /\ is_active_tick (next_inactive t) = false.
Proof.
  intros t. unfold next_active, next_inactive, is_active_tick.
  destruct (N.odd t) eqn:E; rewrite !odd_wrap.
  - split.
    + replace (t + 2) with (N.succ (N.succ t)) by lia. rewrite N.odd_succ, N.even_succ. exact E.
    + replace (t + 1) with (N.succ t) by lia. rewrite N.odd_succ, <- N.negb_odd, E. reflexivity.
  - split.
    + replace (t + 1) with (N.succ t) by lia. rewrite N.odd_succ, <- N.negb_odd, E. reflexivity.
    + replace (t + 2) with (N.succ (N.succ t)) by lia. rewrite N.odd_succ, N.even_succ. exact E.
Qed.

(* After and Before are the same relation read from the two sides *)
Lemma after_before_dual_lemma : forall e t t2, time_after e t t2 = time_before e t2 t.
Proof.
  intros e. induction t as [|a r IH]; destruct t2 as [|b s]; simpl; try reflexivity.
  rewrite (N.eqb_sym b a). rewrite IH. reflexivity.
Qed.

Lemma after_refl_lemma : forall t, time_after true t t = true /\ (t <> [] -> time_after false t t = false).
Proof.
  intros t. split.
  - induction t as [|a r IH]; simpl; [reflexivity|].
    rewrite N.ltb_irrefl, N.eqb_refl. simpl. exact IH.
  - intros H. destruct t as [|a r]; [congruence|]. simpl.
    rewrite N.ltb_irrefl, N.eqb_refl. reflexivity.
Qed.

(* After(true): pointwise >= on the common prefix *)
Lemma after_spec_lemma : forall t t2,
  time_after true t t2 = true <->
  (forall k, (k < length t)%nat -> (k < length t2)%nat -> nth k t2 0 <= nth k t 0).
Proof.
  induction t as [|a r IH]; intros t2; simpl.
  - split; [intros _ k H; lia | reflexivity].
  - destruct t2 as [|b s]; simpl.
    + split; [intros _ k _ H; lia | reflexivity].
    + rewrite andb_false_r, orb_false_r. destruct (a <? b) eqn:E.
      * split; [discriminate|]. intros H. specialize (H 0%nat). simpl in H. lia.
      * rewrite IH. split.
        -- intros H k Hk Hk2. destruct k; [simpl; lia|]. simpl. apply H; lia.
        -- intros H k Hk Hk2. apply (H (S k)); lia.
Qed.

(* Equal *)
Lemma time_equal_total_partial_lemma : forall g strict t t2,
  (strict = true \/ (length t <= length t2)%nat) -> time_equal_k g strict t t2 <> None.
Proof.
  intros g strict t t2 H. unfold time_equal_k.
  destruct (strict && negb (Nat.eqb (length t) (length t2))) eqn:E; [discriminate|].
  assert (L : (length t <= length t2)%nat).
  { destruct H as [H|H]; [|exact H]. subst. simpl in E. apply negb_false_iff, Nat.eqb_eq in E. lia. }
  clear E H. revert t2 L. induction t as [|a r IH]; intros t2 L; simpl; [discriminate|].
  destruct t2 as [|b s]; simpl in L; [lia|].
  destruct (a =? b); [apply IH; lia | discriminate].
Qed.

Lemma time_equal_total_fixed_lemma : forall strict t t2, time_equal_k true strict t t2 <> None.
Proof.
  intros strict t t2. unfold time_equal_k.
  destruct (strict && negb (Nat.eqb (length t) (length t2))); [discriminate|].
  revert t2. induction t as [|a r IH]; intros t2; simpl; [discriminate|].
  destruct t2 as [|b s]; [discriminate|]. destruct (a =? b); [apply IH | discriminate].
Qed.

Lemma time_equal_unfixed_refuted_lemma : exists t t2, time_equal_k false false t t2 = None.
Proof. exists [1; 2], [1]. reflexivity. Qed.

Lemma time_equal_total_lemma : forall strict t t2, time_equal strict t t2 <> None.
Proof. exact time_equal_total_fixed_lemma. Qed.

Lemma time_equal_strict_spec_lemma : forall g t t2,
  time_equal_k g true t t2 = Some true <-> t = t2.
Proof.
  intros g t t2. unfold time_equal_k. simpl. split.
  - destruct (Nat.eqb (length t) (length t2)) eqn:E; simpl; [|discriminate].
    apply Nat.eqb_eq in E. revert t2 E. induction t as [|a r IH]; intros t2 E H.
    + destruct t2; [reflexivity | discriminate].
    + destruct t2 as [|b s]; [discriminate|]. simpl in *.
      destruct (a =? b) eqn:Eab; [|discriminate]. apply N.eqb_eq in Eab. subst.
      f_equal. apply IH; [lia | exact H].
  - intros ->. rewrite Nat.eqb_refl. simpl.
    induction t2 as [|a r IH]; simpl; [reflexivity|]. rewrite N.eqb_refl. exact IH.
Qed.

(* ActiveStates *)
Lemma active_from_spec : forall t o k,
  In k (active_from o t) <-> (o <= k)%nat /\ (k - o < length t)%nat /\ is_active_tick (nth (k - o) t 0) = true.
Proof.
  induction t as [|x r IH]; intros o k; simpl.
  - split; [tauto | intros [_ [H _]]; lia].
  - destruct (is_active_tick x) eqn:E; simpl; rewrite IH; split.
    + intros [H|[H1 [H2 H3]]].
      * subst. rewrite Nat.sub_diag. split; [lia|]. split; [lia | exact E].
      * split; [lia|]. split; [lia|]. destruct (k - o)%nat as [|j] eqn:J; [lia|].
        replace j with (k - S o)%nat by lia. exact H3.
    + intros [H1 [H2 H3]]. destruct (k - o)%nat as [|j] eqn:J.
      * left. lia.
      * right. split; [lia|]. split; [lia|]. replace (k - S o)%nat with j by lia. exact H3.
    + intros [H1 [H2 H3]]. split; [lia|]. split; [lia|].
      destruct (k - o)%nat as [|j] eqn:J; [lia|]. replace j with (k - S o)%nat by lia. exact H3.
    + intros [H1 [H2 H3]]. destruct (k - o)%nat as [|j] eqn:J; [congruence|].
      split; [lia|]. split; [lia|]. replace (k - S o)%nat with j by lia. exact H3.
Qed.

Lemma time_active_spec_lemma : forall b t k,
  In k (time_active_k b t None) <-> (k < length t)%nat /\ is_active_tick (nth k t 0) = true.
Proof.
  intros. unfold time_active_k. rewrite active_from_spec. rewrite Nat.sub_0_r. split; [tauto|].
  intros [H1 H2]. split; [lia | tauto].
Qed.

Lemma time_active_filter_fixed_lemma : forall t idxs,
  active_ok t idxs (time_active_k true t idxs) = true.
Proof.
  intros. unfold active_ok, time_active_k. destruct idxs; apply list_eqb_refl.
Qed.

Lemma time_active_unfixed_refuted_lemma :
  exists t idxs, active_ok t (Some idxs) (time_active_k false t (Some idxs)) = false.
Proof. exists [1; 1], [0%Z]. reflexivity. Qed.

Lemma time_active_filter_lemma : forall t idxs, active_ok t idxs (time_active t idxs) = true.
Proof. exact time_active_filter_fixed_lemma. Qed.


(* NewTime: exactly the listed states are active (tick 1), the others 0 *)
Lemma set_nth_other : forall t k v j, j <> k -> nth j (set_nth t k v) 0 = nth j t 0.
Proof.
  induction t as [|x r IH]; intros k v j H; [destruct k; reflexivity|].
  destruct k, j; simpl; try reflexivity; try congruence. apply IH. congruence.
Qed.

Lemma new_time_go_spec : forall active ret t,
  new_time_go ret active = Some t ->
  length t = length ret /\
  Forall (fun i => idx_in (length ret) i = true) active /\
  forall j, nth j t 0 = if zmem (Z.of_nat j) active && Nat.ltb j (length ret) then 1 else nth j ret 0.
Proof.
  induction active as [|i r IH]; intros ret t H; simpl in H.
  - inversion H; subst. split; [reflexivity|]. split; [constructor|]. reflexivity.
  - unfold zlen in H. destruct ((i <? 0) || (Z.of_nat (length ret) <=? i))%Z eqn:E; [discriminate|].
    apply IH in H. rewrite set_nth_length in H. destruct H as [H1 [H2 H3]].
    split; [exact H1|]. split.
    + constructor; [unfold idx_in; lia | exact H2].
    + intros j. rewrite H3. simpl zmem.
      destruct (Z.of_nat j =? i)%Z eqn:J; simpl.
      * destruct (Nat.ltb j (length ret)) eqn:L.
        -- rewrite andb_true_r. destruct (zmem (Z.of_nat j) r); [reflexivity|].
           rewrite set_nth_nth by lia. replace (Z.to_nat i) with j by lia. rewrite Nat.eqb_refl. reflexivity.
        -- rewrite andb_false_r. apply Nat.ltb_ge in L. lia.
      * destruct (zmem (Z.of_nat j) r && Nat.ltb j (length ret)); [reflexivity|].
        apply set_nth_other. lia.
Qed.

Lemma nth_repeat0 : forall len j, nth j (repeat 0 len) 0 = 0.
Proof. induction len; destruct j; simpl; auto. Qed.

Lemma new_time_spec_lemma : forall len active t,
  new_time len active = Some t ->
  length t = len /\
  forall j, (j < len)%nat -> nth j t 0 = if zmem (Z.of_nat j) active then 1 else 0.
Proof.
  intros len active t H. unfold new_time in H. apply new_time_go_spec in H.
  rewrite repeat_length in H. destruct H as [H1 [_ H3]]. split; [exact H1|].
  intros j Hj. rewrite H3. apply Nat.ltb_lt in Hj. rewrite Hj, andb_true_r, nth_repeat0. reflexivity.
Qed.

Lemma new_time_total_lemma : forall len active,
  forallb (idx_in len) active = true -> new_time len active <> None.
Proof.
  intros len active H. unfold new_time.
  assert (G : forall ret, length ret = len -> new_time_go ret active <> None).
  { induction active as [|i r IH]; intros ret Hl; simpl; [discriminate|].
    simpl in H. apply andb_true_iff in H. destruct H as [Hi Hr].
    unfold zlen. rewrite Hl. unfold idx_in in Hi.
    assert (E : ((i <? 0) || (Z.of_nat len <=? i))%Z = false) by lia. rewrite E.
    apply IH; [exact Hr|]. rewrite set_nth_length. exact Hl. }
  apply G. apply repeat_length.
Qed.

(* ------------------------------------------------------------------ *)
(* totality of the Time / TimeIndex helpers inside their domain          *)

Lemma opt_map_some : forall {A B} (f : A -> option B) l,
  (forall x, In x l -> f x <> None) -> opt_map f l <> None.
Proof.
  intros A B f. induction l as [|x r IH]; intros H; simpl; [discriminate|].
  destruct (f x) eqn:E; [|exfalso; apply (H x); [left; reflexivity | exact E]].
  destruct (opt_map f r) eqn:E2; [discriminate|].
  exfalso. apply IH; [|reflexivity]. intros y Hy. apply H. right. exact Hy.
Qed.

Lemma get_nonneg_cases : forall t i, (0 <= i)%Z ->
  (zlen t <=? i)%Z = true \/ ((zlen t <=? i)%Z = false /\ exists v, get t i = Some v).
Proof.
  intros t i H. destruct (zlen t <=? i)%Z eqn:E; [left; reflexivity|]. right. split; [reflexivity|].
  exists (nth (Z.to_nat i) t 0). apply get_in_range. unfold idx_in, zlen in *. lia.
Qed.

Lemma filter_one_total : forall t i, idx_nonneg i = true -> filter_one t i <> None.
Proof.
  intros t i H. unfold filter_one, idx_nonneg in *.
  destruct (get_nonneg_cases t i) as [E|[E [v G]]]; [lia | |]; rewrite E; [discriminate|].
  rewrite G. discriminate.
Qed.

Lemma sum_sel_total : forall t idxs acc, forallb idx_nonneg idxs = true -> sum_sel t idxs acc <> None.
Proof.
  intros t. induction idxs as [|i r IH]; intros acc H; simpl; [discriminate|].
  simpl in H. apply andb_true_iff in H. destruct H as [Hi Hr]. unfold idx_nonneg in Hi.
  destruct (get_nonneg_cases t i) as [E|[E [v G]]]; [lia | |]; rewrite E; [apply IH; exact Hr|].
  rewrite G. apply IH. exact Hr.
Qed.

Lemma time_is1_total : forall t i, (-1 <=? i)%Z = true -> time_is1 t i <> None.
Proof.
  intros t i H. unfold time_is1.
  destruct ((i =? -1) || (zlen t <=? i))%Z eqn:E; [discriminate|].
  assert (G : get t i = Some (nth (Z.to_nat i) t 0)) by (apply get_in_range; unfold idx_in, zlen in *; lia).
  rewrite G. discriminate.
Qed.

Lemma time_not1_total : forall t i, (-1 <=? i)%Z = true -> time_not1 t i <> None.
Proof.
  intros t i H. unfold time_not1.
  destruct ((i =? -1) || (zlen t <=? i))%Z eqn:E; [discriminate|].
  assert (G : get t i = Some (nth (Z.to_nat i) t 0)) by (apply get_in_range; unfold idx_in, zlen in *; lia).
  rewrite G. discriminate.
Qed.

Lemma time_is_go_total : forall t idxs, forallb (idx_or_m1 (length t)) idxs = true -> time_is_go t idxs <> None.
Proof.
  intros t. induction idxs as [|i r IH]; intros H; simpl; [discriminate|].
  simpl in H. apply andb_true_iff in H. destruct H as [Hi Hr].
  destruct (i =? -1)%Z eqn:E; [discriminate|].
  unfold idx_or_m1 in Hi. rewrite E, orb_false_r in Hi. rewrite (get_in_range t i Hi).
  destruct (is_active_tick _); [apply IH; exact Hr | discriminate].
Qed.

Lemma time_is_total : forall t idxs, forallb (idx_or_m1 (length t)) idxs = true -> time_is t idxs <> None.
Proof.
  intros t idxs H. unfold time_is. destruct idxs; [discriminate|]. apply time_is_go_total. exact H.
Qed.

Lemma time_not_total : forall t idxs, forallb (idx_or_m1 (length t)) idxs = true -> time_not t idxs <> None.
Proof.
  intros t. unfold time_not. induction idxs as [|i r IH]; intros H; simpl; [discriminate|].
  simpl in H. apply andb_true_iff in H. destruct H as [Hi Hr].
  destruct (i =? -1)%Z eqn:E; [apply IH; exact Hr|].
  unfold idx_or_m1 in Hi. rewrite E, orb_false_r in Hi. rewrite (get_in_range t i Hi).
  destruct (is_active_tick _); [discriminate | apply IH; exact Hr].
Qed.

Lemma time_any_total : forall t ls,
  forallb (forallb (idx_or_m1 (length t))) ls = true -> time_any t ls <> None.
Proof.
  intros t. induction ls as [|l r IH]; intros H; simpl; [discriminate|].
  simpl in H. apply andb_true_iff in H. destruct H as [Hl Hr].
  destruct (time_is t l) as [[|]|] eqn:E; [discriminate | apply IH; exact Hr |].
  exfalso. apply (time_is_total t l Hl). exact E.
Qed.

Lemma time_any1_total : forall t idxs,
  forallb (fun i => (-1 <=? i)%Z) idxs = true -> time_any1 t idxs <> None.
Proof.
  intros t. induction idxs as [|i r IH]; intros H; simpl; [discriminate|].
  simpl in H. apply andb_true_iff in H. destruct H as [Hi Hr].
  destruct (time_is1 t i) as [[|]|] eqn:E; [discriminate | apply IH; exact Hr |].
  exfalso. apply (time_is1_total t i Hi). exact E.
Qed.

(* names of the index map to positions inside it *)
Lemma states_to_index_in_range : forall index states,
  every index states = true ->
  forallb (idx_in (length index)) (states_to_index index states) = true.
Proof.
  intros index states H. unfold states_to_index. apply forallb_forall. intros i Hi.
  apply in_map_iff in Hi. destruct Hi as [x [Hx Hin]]. subst i.
  rewrite every_spec in H. specialize (H x Hin).
  destruct (index_of_spec_lemma index x) as [[_ Hn]|[j [Hj Hnth]]]; [contradiction|].
  rewrite Hj. unfold idx_in. assert (j < length index)%nat by (apply nth_error_Some; congruence). lia.
Qed.

Lemma forallb_impl : forall {A} (f g : A -> bool) l,
  (forall x, f x = true -> g x = true) -> forallb f l = true -> forallb g l = true.
Proof.
  intros A f g l H. rewrite !forallb_forall. intros Hf x Hx. apply H. apply Hf. exact Hx.
Qed.

Lemma index_to_states_total : forall index idxs,
  forallb (fun i => (-1 <=? i)%Z) idxs = true -> index_to_states index idxs <> None.
Proof.
  intros index idxs H. unfold index_to_states. apply opt_map_some. intros i Hi.
  rewrite forallb_forall in H. specialize (H i Hi). unfold index_to_state.
  destruct (i =? -1)%Z eqn:E1; [discriminate|].
  assert (E2 : (i <? 0)%Z = false) by lia. rewrite E2.
  destruct (i <? Z.of_nat (length index))%Z; discriminate.
Qed.

Lemma of_opt_not_panic : forall {A} (f : A -> val) (o : option A),
  (forall x, f x <> VPanic) -> o <> None -> of_opt f o <> VPanic.
Proof. intros A f o Hf Ho. destruct o; [apply Hf | congruence]. Qed.

Lemma time_ops_total_lemma : forall op,
  time_in_domain op = true -> run_time op <> VPanic.
Proof.
  intros op Hd.
  destruct op; simpl in Hd |- *; try discriminate;
    try (apply of_opt_not_panic; [intros; discriminate|]).
  - apply new_time_total_lemma. exact Hd.
  - unfold increment. destruct (i <? zlen t)%Z eqn:E; [|discriminate].
    rewrite (get_in_range t i) by (unfold idx_in, idx_nonneg, zlen in *; lia). discriminate.
  - unfold time_filter. apply opt_map_some. intros i Hi. apply filter_one_total.
    rewrite forallb_forall in Hd. apply Hd. exact Hi.
  - destruct idxs as [l|]; simpl; [apply sum_sel_total; exact Hd | discriminate].
  - apply time_equal_total_lemma.
  - unfold time_tick. unfold idx_nonneg in Hd.
    destruct (get_nonneg_cases t i) as [E|[E [v G]]]; [lia | |]; rewrite E; [discriminate|].
    rewrite G. discriminate.
  - apply time_is1_total. exact Hd.
  - apply time_is_total. exact Hd.
  - apply time_not_total. exact Hd.
  - apply time_not1_total. exact Hd.
  - apply time_any_total. exact Hd.
  - apply time_any1_total. exact Hd.
  - destruct k as [|[[|p|]|[|p|]|]]; discriminate.
  - unfold ti_state_name. unfold idx_nonneg in Hd.
    destruct (zlen index <=? i)%Z; [discriminate|].
    assert (E : (i <? 0)%Z = false) by lia. rewrite E. discriminate.
  - apply andb_true_iff in Hd. destruct Hd as [H1 H2]. apply Nat.eqb_eq in H2.
    unfold ti_sum. simpl. apply sum_sel_total.
    apply (forallb_impl (idx_in (length index))); [|apply states_to_index_in_range; exact H1].
    intros x Hx. unfold idx_in, idx_nonneg in *. lia.
  - apply andb_true_iff in Hd. destruct Hd as [H1 H2].
    unfold ti_filter, time_filter. apply opt_map_some. intros i Hi. apply filter_one_total.
    pose proof (states_to_index_in_range index states H1) as G.
    rewrite forallb_forall in G. specialize (G i Hi). unfold idx_in, idx_nonneg in *. lia.
  - unfold ti_non_zero. apply index_to_states_total.
    apply forallb_forall. intros i Hi. apply in_map_iff in Hi. destruct Hi as [k [Hk _]]. lia.
  - apply andb_true_iff in Hd. destruct Hd as [H1 H2]. apply Nat.eqb_eq in H2.
    unfold ti_is. apply time_is_total. rewrite <- H2.
    apply (forallb_impl (idx_in (length index))); [|apply states_to_index_in_range; exact H1].
    intros x Hx. unfold idx_or_m1. rewrite Hx. reflexivity.
  - apply andb_true_iff in Hd. destruct Hd as [H1 H2]. apply Nat.eqb_eq in H2.
    unfold ti_not. apply time_not_total. rewrite <- H2.
    apply (forallb_impl (idx_in (length index))); [|apply states_to_index_in_range; exact H1].
    intros x Hx. unfold idx_or_m1. rewrite Hx. reflexivity.
  - apply andb_true_iff in Hd. destruct Hd as [H1 H2].
    unfold ti_any1. apply time_any1_total.
    apply (forallb_impl (idx_in (length index))); [|apply states_to_index_in_range; exact H1].
    intros x Hx. unfold idx_in in Hx. lia.
Qed.

Lemma set_ops_total_lemma : forall op, set_in_domain op = true -> run_set op <> VPanic.
Proof.
  intros op Hd. destruct op; simpl; try discriminate.
  apply of_opt_not_panic; [intros; discriminate|].
  apply index_to_states_total. exact Hd.
Qed.

Close Scope N_scope.

(* ------------------------------------------------------------------ *)
(* statements assembled for Props/C20.v                                 *)

Lemma model_is_todays_code_lemma :
  s_rem_from = 0 /\ parse_dup_filters = true /\ first_guards_empty = true /\
  last_idx_absolute = false /\ active_states_filters = true /\
  time_equal_guards = true /\ add_noargs_uniq = true.
Proof. repeat split. Qed.

(* S.Delete / S.Delete1 / SRem of today (knob s_rem_from) *)
Lemma delete_removes_lemma : forall s ls, NoDup s ->
  delete_ok s ls (s_delete s ls) = true /\ delete_ok s ls (s_rem s ls) = true.
Proof. intros s ls H. split; exact (delete_removes_from0_lemma s ls H). Qed.

Lemma delete1_removes_lemma : forall s names, NoDup s ->
  delete_ok s [names] (s_delete1 s names) = true.
Proof. intros s names H. exact (delete_removes_from0_lemma s [names] H). Qed.

Lemma delete_removes_dup_refuted_lemma :
  exists s ls, delete_ok s ls (s_delete s ls) = false.
Proof. exact delete_removes_from0_dup_refuted_lemma. Qed.

(* the variant without the fix (loop from 1) ignores the first list *)
Lemma delete_unfixed_refuted_lemma :
  (forall s l, s_rem_at 1 s [l] = s) /\
  exists s l, delete_ok s [l] (s_rem_at 1 s [l]) = false.
Proof. split; [reflexivity | exists [0; 1], [0]; reflexivity]. Qed.

Lemma is_queued_sound_today_lemma : forall n queue q f i t,
  qq_pos q <> 2%N ->
  is_queued n queue q = Some (f, i, t) ->
  is_queued_sound n queue q (VQ f i t) = true.
Proof.
  intros n queue q f i t Hp H.
  apply (is_queued_sound_lemma first_guards_empty last_idx_absolute n queue q f i t); [left; exact Hp | exact H].
Qed.
